(** * SkipListFullInv: invariant for linearizability of the FULL client history of the skip list model
      (return values of contains, insert -> false, erase -> false included), for every schedule.

    Base: the structural invariant [IS] of Proofs/SkipListLin.v (ghost level-0 chain [aL], published nodes, per-thread
    knowledge).  New here:

    - the LP-annotated trace contains EVERY operation.  A read-type result is linearized at an OBSERVATION made by one
      of the thread's own loads (and a later observation MOVES the linearization point, as in MichaelListFullInv):
        absent : a level-0 load of the cell of a node p with key < k (or the head) that yields an unmarked pointer to
                 null or to a node with key > k: p is on the level-0 chain, the chain is strictly sorted, so k is not in
                 the abstract set at that instant;
        present: a load at ANY level l of the cell of a node c with key k that was reached through a level-l link and
                 yields an unmarked value: by [e_h1] l < height(c), by [e_h2] (towers are marked top-down, marks are
                 permanent) the level-0 cell of c is unmarked, so c is on the chain and k is in the abstract set;
    - HELPING: erase(k) returns false when the node it found is marked by another thread before its own mark CAS.
      Its linearization point is the instant right after the OTHER thread's level-0 mark CAS (k left the set and the
      chain holds no second node with key k).  The thread "watches" the node ([xwatch]); the status of thread t in the
      annotated trace is [stof g (view t)]: once the watched node is marked it is "erase -> false", whatever t's view
      says.  The marking thread re-linearizes all watchers (global list [b_wl]).
    - [e_h1] every link at level l points to a node of height > l;  [e_h2] a published node whose level-0 cell is
      marked has all cells 1 .. height-1 marked.
    - extract_min / extract_max (Proofs/SkipListFullExt{,2}.v): [client_history] presents "extract -> k" as "erase k -> true",
      but only once the response is in the trace (it looks ahead with [first_res]); a pending extract is presented as a
      strict SExtractMin / SExtractMax.  The invariant therefore relates the annotated trace to [history_h tg]: [history_of]
      in which the open extract of thread t is presented with the HINT [tg t] as its future response.  The hint is a
      function of t's view ([tgof]): (1, k) from the level-0 mark CAS of the extract (the status of the VIEW is then
      "extract returned k", in the annotated trace the invocation is re-targeted to "erase k" and linearized, [emap],
      [IL2_mark_ext]) until the response, (0, 0) otherwise.  [l2_pinv]: the open invocations of a thread in the trace are
      those its view says.  [c_noex]: programs without extract have no extract invocation in the trace, so that the hint
      is irrelevant ([history_h_irrel] in SkipListFullThm.v). *)
From Coq Require Import ZArith List String Bool Lia PeanoNat.
From LV Require Import Base.Conc Base.Events Base.Lin Spec.Specs Proofs.LinProofs.
From LV Require Import Model.SkipList Proofs.SkipListProofs Proofs.SkipListLin.
From LV Require Proofs.MichaelListInv Proofs.MichaelListLin Proofs.MichaelListFullInv.
Import ListNotations.
Local Open Scope Z_scope.

Module MF := MichaelListFullInv.

(** ** the client history, event by event (programs of insert / erase / contains: codes 1, 6, 10) *)
Definition cok (c : Z) : bool := (c =? 1) || (c =? 6) || (c =? 10).

Lemma enc_op_cok c k a b : cok c = true -> enc_op c k a b = sp_op c k.
Proof.
  unfold cok, enc_op, sp_op. intros H.
  destruct (c =? 1); [reflexivity|]. destruct (c =? 6); [reflexivity|]. destruct (c =? 10); [reflexivity|discriminate].
Qed.

Lemma enc_res_cok c a : cok c = true -> enc_res c a = RBool (a =? 1).
Proof.
  unfold cok, enc_res. intros H. destruct (Z.eqb_spec c 1) as [->|]; [reflexivity|]. destruct (Z.eqb_spec c 6) as [->|]; [reflexivity|].
  destruct (Z.eqb_spec c 10) as [->|]; [reflexivity|discriminate].
Qed.

(** [history_h tg pend tr]: [history_of] where an extract_min / extract_max invocation that has no response yet is rendered with
    the HINT [tg t] as its future response.  (The real [client_history] renders it with (0, 0), i.e. as a strict
    SExtractMin, also when the thread has already marked its victim; once the response is in the trace the hint is
    irrelevant.) *)
Definition hint := nat -> (Z * Z)%type.

Fixpoint history_h (tg : hint) (pend : nat -> Z) (tr : list (nat * ev)) : history SetSpec :=
  match tr with
  | [] => []
  | (t, EvCli name [x; y]) :: r =>
      if String.eqb name "inv" then
        @HInv SetSpec t (match first_res t r with Some (a, b) => enc_op x y a b | None => enc_op x y (fst (tg t)) (snd (tg t)) end)
          :: history_h tg (fun u => if Nat.eqb u t then x else pend u) r
      else if String.eqb name "res" then @HRes SetSpec t (enc_res (pend t) x) :: history_h tg pend r
      else history_h tg pend r
  | _ :: r => history_h tg pend r
  end.

Lemma history_h_of : forall tr pend, history_h (fun _ => (0, 0)) pend tr = history_of pend tr.
Proof.
  induction tr as [|[t v] r IH]; intros pend; [reflexivity|]. destruct v as [k o ok|name args]; [apply IH|].
  destruct args as [|x [|y [|z w]]]; try apply IH. cbn [history_h history_of].
  destruct (String.eqb name "inv"); [destruct (first_res t r) as [[a b]|]; cbn [fst snd]; now rewrite IH|].
  destruct (String.eqb name "res"); [now rewrite IH|apply IH].
Qed.

Lemma history_h_ext tg tg' : (forall u, tg' u = tg u) -> forall tr pend, history_h tg' pend tr = history_h tg pend tr.
Proof.
  intros E. induction tr as [|[t v] r IH]; intros pend; [reflexivity|]. destruct v as [k o ok|name args]; [apply IH|].
  destruct args as [|x [|y [|z w]]]; try apply IH. cbn [history_h]. rewrite E, !IH. reflexivity.
Qed.

(** the invocations of thread t in [tr] that have no response yet *)
Fixpoint pinv (t : nat) (tr : list (nat * ev)) : list (Z * Z) :=
  match tr with
  | [] => []
  | (u, EvCli name [x; y]) :: r =>
      if String.eqb name "inv" && Nat.eqb u t then
        match first_res t r with Some _ => pinv t r | None => (x, y) :: pinv t r end
      else pinv t r
  | _ :: r => pinv t r
  end.

Fixpoint pend_after (pend : nat -> Z) (tr : list (nat * ev)) : nat -> Z :=
  match tr with
  | [] => pend
  | (t, EvCli name [x; y]) :: r =>
      if String.eqb name "inv" then pend_after (fun u => if Nat.eqb u t then x else pend u) r else pend_after pend r
  | _ :: r => pend_after pend r
  end.

Definition hev1h (tg : hint) (pe : nat -> Z) (e : nat * ev) : history SetSpec :=
  match e with
  | (t, EvCli name [x; y]) =>
      if String.eqb name "inv" then [@HInv SetSpec t (enc_op x y (fst (tg t)) (snd (tg t)))]
      else if String.eqb name "res" then [@HRes SetSpec t (enc_res (pe t) x)] else []
  | _ => []
  end.

Definition is_res_of (t : nat) (e : nat * ev) : bool :=
  match e with (u, EvCli name [a; b]) => Nat.eqb u t && String.eqb name "res" | _ => false end.

(** a response event (a, b) of thread t may be appended: it renders t's open invocations as the hint does *)
Definition resok (tg : hint) (tr : list (nat * ev)) (e : nat * ev) : Prop :=
  match e with
  | (t, EvCli name [a; b]) =>
      String.eqb name "res" = true ->
      Forall (fun xy => enc_op (fst xy) (snd xy) a b = enc_op (fst xy) (snd xy) (fst (tg t)) (snd (tg t))) (pinv t tr)
  | _ => True
  end.

Lemma first_res_one t e : first_res t [e] = match e with (u, EvCli name [a; b]) => if is_res_of t e then Some (a, b) else None | _ => None end.
Proof. destruct e as [u [k o ok|name args]]; [reflexivity|]. destruct args as [|a [|b [|c w]]]; reflexivity. Qed.

Lemma first_res_snoc t e : forall tr, first_res t (tr ++ [e]) = match first_res t tr with Some r => Some r | None => first_res t [e] end.
Proof.
  induction tr as [|[u v] r IH]; [cbn [app first_res]; destruct (first_res t [e]); reflexivity|]. cbn [app].
  destruct v as [k o ok|name args]; [exact IH|]. destruct args as [|a [|b [|c w]]]; try exact IH.
  cbn [first_res]. destruct (Nat.eqb u t && String.eqb name "res"); [reflexivity|exact IH].
Qed.

Lemma pinv_cons_incl t hd r : incl (pinv t r) (pinv t (hd :: r)).
Proof.
  destruct hd as [u [k o ok|name args]]; [apply incl_refl|]. destruct args as [|x [|y [|z w]]]; try apply incl_refl.
  cbn [pinv]. destruct (String.eqb name "inv" && Nat.eqb u t); [|apply incl_refl]. destruct (first_res t r); [apply incl_refl|apply incl_tl, incl_refl].
Qed.

Lemma resok_cons tg hd r e : resok tg (hd :: r) e -> resok tg r e.
Proof.
  destruct e as [t [k o ok|name args]]; [auto|]. destruct args as [|a [|b [|c w]]]; auto. cbn [resok]. intros H Hn. specialize (H Hn).
  rewrite Forall_forall in *. intros xy Hin. apply H. now apply (pinv_cons_incl t hd r).
Qed.

Lemma history_h_snoc tg : forall tr pend e, resok tg tr e ->
  history_h tg pend (tr ++ [e]) = history_h tg pend tr ++ hev1h tg (pend_after pend tr) e.
Proof.
  induction tr as [|[t v] r IH]; intros pend e Hr.
  - cbn [app pend_after]. destruct e as [t [k o ok|name args]]; [reflexivity|].
    destruct args as [|x [|y [|z w]]]; reflexivity.
  - pose proof (resok_cons _ _ _ _ Hr) as Hr'. cbn [app].
    destruct v as [k o ok|name args]; [cbn [history_h pend_after]; now apply IH|].
    destruct args as [|x [|y [|z w]]]; try (cbn [history_h pend_after]; now apply IH).
    cbn [history_h pend_after]. destruct (String.eqb name "inv") eqn:En.
    + cbn [app]. rewrite IH by exact Hr'. f_equal. f_equal. rewrite first_res_snoc. destruct (first_res t r) as [[a b]|] eqn:Ef; [reflexivity|].
      rewrite first_res_one. destruct e as [u [k o ok|name' args']]; [reflexivity|]. destruct args' as [|a [|b [|c w]]]; try reflexivity.
      destruct (is_res_of t (u, EvCli name' [a; b])) eqn:Er; [|reflexivity]. cbn [is_res_of] in Er. apply andb_true_iff in Er. destruct Er as [E1 E2].
      apply Nat.eqb_eq in E1. subst u. cbn [resok] in Hr. specialize (Hr E2). cbn [pinv] in Hr. rewrite En, Nat.eqb_refl, Ef in Hr. cbn [andb] in Hr.
      inversion Hr as [|? ? H1 _]; subst. exact H1.
    + destruct (String.eqb name "res"); [cbn [app]; f_equal|]; now apply IH.
Qed.

Lemma pinv_snoc t e : forall tr, pinv t (tr ++ [e]) = (if is_res_of t e then [] else pinv t tr) ++ pinv t [e].
Proof.
  induction tr as [|[u v] r IH]; [cbn [app pinv]; destruct (is_res_of t e); reflexivity|]. cbn [app].
  destruct v as [k o ok|name args]; [exact IH|]. destruct args as [|x [|y [|z w]]]; try exact IH.
  cbn [pinv]. destruct (String.eqb name "inv" && Nat.eqb u t); [|exact IH].
  rewrite first_res_snoc, IH. destruct (first_res t r) as [ab|]; [reflexivity|]. rewrite first_res_one.
  destruct e as [u' [k o ok|name' args']]; [reflexivity|]. destruct args' as [|a [|b [|c w]]]; try reflexivity.
  destruct (is_res_of t (u', EvCli name' [a; b])); reflexivity.
Qed.

Fixpoint has_inv_tr (t : nat) (tr : list (nat * ev)) : bool :=
  match tr with
  | [] => false
  | (u, EvCli name [x; y]) :: r => (String.eqb name "inv" && Nat.eqb u t) || has_inv_tr t r
  | _ :: r => has_inv_tr t r
  end.

Lemma no_pending_no_inv t : forall r, first_res t r = None -> pinv t r = [] -> has_inv_tr t r = false.
Proof.
  induction r as [|[u v] r IH]; intros Hf Hp; [reflexivity|]. destruct v as [k o ok|name args]; [now apply IH|].
  destruct args as [|x [|y [|z w]]]; try (now apply IH). cbn [first_res pinv has_inv_tr] in *.
  destruct (Nat.eqb u t && String.eqb name "res") eqn:Er; [discriminate|].
  destruct (String.eqb name "inv" && Nat.eqb u t) eqn:Ei; [rewrite Hf in Hp; discriminate|]. cbn [orb]. now apply IH.
Qed.

Lemma pend_after_no_inv t : forall r pend, has_inv_tr t r = false -> pend_after pend r t = pend t.
Proof.
  induction r as [|[u v] r IH]; intros pend H; [reflexivity|]. destruct v as [k o ok|name args]; [now apply IH|].
  destruct args as [|x [|y [|z w]]]; try (now apply IH). cbn [has_inv_tr pend_after] in *. apply orb_false_iff in H. destruct H as [H1 H2].
  destruct (String.eqb name "inv"); [|now apply IH]. rewrite IH by exact H2. cbn [andb] in H1. rewrite Nat.eqb_sym in H1. now rewrite H1.
Qed.

Lemma pend_after_pinv t x y : forall tr pend, pinv t tr = [(x, y)] -> pend_after pend tr t = x.
Proof.
  induction tr as [|[u v] r IH]; intros pend H; [discriminate|]. destruct v as [k o ok|name args]; [now apply IH|].
  destruct args as [|x0 [|y0 [|z w]]]; try (now apply IH). cbn [pinv pend_after] in *.
  destruct (String.eqb name "inv") eqn:En; [|cbn [andb] in H; now apply IH]. cbn [andb] in H.
  destruct (Nat.eqb_spec u t) as [->|Nu]; [|now apply IH].
  destruct (first_res t r) eqn:Ef; [now apply IH|]. inversion H; subst.
  rewrite pend_after_no_inv; [now rewrite Nat.eqb_refl|]. now apply no_pending_no_inv.
Qed.

(** changing the hint of a thread *)
Definition upd_tg (tg : hint) (t : nat) (v : Z * Z) : hint := fun u => if Nat.eqb u t then v else tg u.

Definition has_inv (t : nat) (h : history SetSpec) : bool := existsb (MI.is_hinv t) h.
(** replace the operation of the LAST invocation of thread t in a history *)
Fixpoint sli (t : nat) (o' : set_op) (h : history SetSpec) : history SetSpec :=
  match h with
  | [] => []
  | HInv u o :: r => if Nat.eqb u t && negb (has_inv t r) then @HInv SetSpec u o' :: r else @HInv SetSpec u o :: sli t o' r
  | e :: r => e :: sli t o' r
  end.

Lemma sli_app_hit t o' o : forall l1 l2, has_inv t l2 = false -> sli t o' (l1 ++ @HInv SetSpec t o :: l2) = l1 ++ @HInv SetSpec t o' :: l2.
Proof.
  induction l1 as [|e l1 IH]; intros l2 H; cbn [app sli].
  - now rewrite Nat.eqb_refl, H.
  - destruct e as [u o0|u r0]; [|now rewrite IH].
    assert (E : has_inv t (l1 ++ @HInv SetSpec t o :: l2) = true).
    { unfold has_inv. rewrite existsb_app. cbn [existsb MI.is_hinv]. now rewrite Nat.eqb_refl, orb_true_r. }
    rewrite E. cbn [negb]. rewrite andb_false_r. now rewrite IH.
Qed.

Lemma sli_app_r t o' : forall l1 l2, has_inv t l2 = true -> sli t o' (l1 ++ l2) = l1 ++ sli t o' l2.
Proof.
  induction l1 as [|e l1 IH]; intros l2 H; [reflexivity|]. cbn [app sli]. destruct e as [u o0|u r0]; [|now rewrite IH].
  assert (E : has_inv t (l1 ++ l2) = true) by (unfold has_inv in *; rewrite existsb_app, H; apply orb_true_r).
  rewrite E. cbn [negb]. rewrite andb_false_r. now rewrite IH.
Qed.

Lemma has_inv_history tg t : forall r pend, has_inv t (history_h tg pend r) = has_inv_tr t r.
Proof.
  induction r as [|[u v] r IH]; intros pend; [reflexivity|]. destruct v as [k o ok|name args]; [apply IH|].
  destruct args as [|x [|y [|z w]]]; try apply IH. cbn [history_h has_inv_tr].
  destruct (String.eqb name "inv"); [unfold has_inv in *; cbn [existsb MI.is_hinv andb]; now rewrite IH|].
  cbn [andb orb]. destruct (String.eqb name "res"); [unfold has_inv in *; cbn [existsb MI.is_hinv orb]|]; apply IH.
Qed.

Lemma pinv_has_inv t : forall r, pinv t r <> [] -> has_inv_tr t r = true.
Proof.
  induction r as [|[u v] r IH]; intros H; [now contradiction H|]. destruct v as [k o ok|name args]; [now apply IH|].
  destruct args as [|x [|y [|z w]]]; try (now apply IH). cbn [pinv has_inv_tr] in *.
  destruct (String.eqb name "inv" && Nat.eqb u t); [reflexivity|]. cbn [orb]. now apply IH.
Qed.

Lemma history_h_nopend tg t v : forall r pend, pinv t r = [] -> history_h (upd_tg tg t v) pend r = history_h tg pend r.
Proof.
  induction r as [|[u w] r IH]; intros pend H; [reflexivity|]. destruct w as [k o ok|name args]; [now apply IH|].
  destruct args as [|x [|y [|z w']]]; try (now apply IH). cbn [pinv history_h] in *.
  destruct (String.eqb name "inv") eqn:En; cbn [andb] in H.
  - destruct (Nat.eqb_spec u t) as [->|Nu].
    + destruct (first_res t r) as [[a b]|] eqn:Ef; [|discriminate]. now rewrite IH.
    + rewrite IH by exact H. unfold upd_tg at 1 2. destruct (Nat.eqb_spec u t); [contradiction|reflexivity].
  - destruct (String.eqb name "res"); now rewrite IH.
Qed.

Lemma history_h_retarget tg t v x y : forall r pend, pinv t r = [(x, y)] ->
  history_h (upd_tg tg t v) pend r = sli t (enc_op x y (fst v) (snd v)) (history_h tg pend r).
Proof.
  induction r as [|[u w] r IH]; intros pend H; [discriminate|]. destruct w as [k o ok|name args]; [now apply IH|].
  destruct args as [|x0 [|y0 [|z w']]]; try (now apply IH). cbn [pinv history_h] in *.
  destruct (String.eqb name "inv") eqn:En; cbn [andb] in H.
  - cbn [sli]. destruct (Nat.eqb_spec u t) as [->|Nu]; cbn [andb].
    + destruct (first_res t r) as [[a b]|] eqn:Ef.
      * rewrite has_inv_history, pinv_has_inv by (rewrite H; discriminate). cbn [negb]. now rewrite IH.
      * inversion H as [[E1 E2 E3]]. subst x0 y0. rewrite has_inv_history, (no_pending_no_inv t r Ef E3). cbn [negb].
        rewrite history_h_nopend by exact E3. unfold upd_tg. now rewrite Nat.eqb_refl.
    + rewrite IH by exact H. unfold upd_tg at 1 2. destruct (Nat.eqb_spec u t); [contradiction|reflexivity].
  - destruct (String.eqb name "res"); cbn [sli]; now rewrite IH.
Qed.

(** ** extended views *)
Record ext := mkX {
  xwatch : option ptr;            (* erase: the node with my key that I saw unmarked during this operation *)
  xhl : list (ptr * nat);         (* (q, l): the published node q has height > l *)
  xfzu : list (ptr * nat);        (* (c, l), l >= 1: the level-l cell of the published node c is marked *)
  xhe : list (ptr * nat);         (* (q, h): the published node q has height h *)
  xoh : option (ptr * nat)        (* my current node and its height *)
}.

Record aux2 := mkAux2 { b_base : aux; b_x : nat -> ext; b_wl : list nat }.
Definition lview2 := (lview * ext)%type.
Definition view2 (a : aux2) (t : nat) : lview2 := (view (b_base a) t, b_x a t).

Definition mk_a2 (a : aux2) (t : nat) (pub' : ptr -> bool) (L' : list ptr) (lv' : lview2) (atr' : list (aev SetSpec))
  (wl' : list nat) : aux2 :=
  mkAux2 (mk_a (b_base a) t pub' L' (fst lv') atr') (fun u => if Nat.eqb u t then snd lv' else b_x a u) wl'.

Lemma view2_mk_same a t pub' L' lv' atr' wl' : view2 (mk_a2 a t pub' L' lv' atr' wl') t = lv'.
Proof. unfold view2, mk_a2; cbn [b_base b_x]. rewrite view_mk_same, Nat.eqb_refl. now destruct lv'. Qed.
Lemma view2_mk_other a t pub' L' lv' atr' wl' u : u <> t -> view2 (mk_a2 a t pub' L' lv' atr' wl') u = view2 a u.
Proof.
  intros H. unfold view2, mk_a2; cbn [b_base b_x]. rewrite view_mk_other by exact H. destruct (Nat.eqb_spec u t); congruence.
Qed.
Lemma frame2_mk a t pub' L' lv' atr' wl' : Conc.frame view2 t a (mk_a2 a t pub' L' lv' atr' wl').
Proof. intros u H. now apply view2_mk_other. Qed.

Definition x_ok (g : G) (pub : ptr -> bool) (t : nat) (lv : lview2) : Prop :=
  (forall d, xwatch (snd lv) = Some d -> pub d = true /\ MF.open_read (vst (fst lv)) (SErase (key_of d))) /\
  Forall (fun ql => pub (fst ql) = true /\ (snd ql < hgt_of g (fst ql))%nat) (xhl (snd lv)) /\
  Forall (fun cl => pub (fst cl) = true /\ (1 <= snd cl)%nat /\ snd (nxt g (fst cl) (snd cl)) = true) (xfzu (snd lv)) /\
  Forall (fun qh => pub (fst qh) = true /\ hgt_of g (fst qh) = snd qh) (xhe (snd lv)) /\
  (forall n h, xoh (snd lv) = Some (n, h) ->
     isnode n /\ owner_of n = t /\ hgt_of g n = h /\ (pub n = true \/ exists v, vown (fst lv) = Some (n, v))).

Record EX (g : G) (a : aux2) : Prop := {
  e_h1 : forall p l, fst (nxt g p l) = null \/ (l < hgt_of g (fst (nxt g p l)))%nat;
  e_h2 : forall n l, apub (b_base a) n = true -> snd (nxt g n 0) = true -> (1 <= l < hgt_of g n)%nat -> snd (nxt g n l) = true;
  e_hg : 1 <= hgt g;
  e_hof : forall p, (1 <= hgt_of g p)%nat;
  e_x : forall t, x_ok g (apub (b_base a)) t (view2 a t);
  e_wl : forall t, xwatch (b_x a t) <> None -> In t (b_wl a)
}.

(** the status of a thread's operation in the annotated trace.  Views keep "extract_min returned k" as
    [Linearized SExtractMin (RVal (Some k))]; in the annotated trace (and in the client history) that operation is
    "erase k -> true" ([emap]). *)
Definition emap (s : status SetSpec) : status SetSpec :=
  match s with
  | Linearized SExtractMin (RVal (Some k)) => @Linearized SetSpec (SErase k) (RBool true)
  | Linearized SExtractMax (RVal (Some k)) => @Linearized SetSpec (SErase k) (RBool true)
  | _ => s
  end.

Definition stof (g : G) (lv : lview2) : status SetSpec :=
  emap (match xwatch (snd lv) with
        | Some d => if snd (nxt g d 0) then @Linearized SetSpec (SErase (key_of d)) (RBool false) else vst (fst lv)
        | None => vst (fst lv)
        end).

(** the hint of a thread, and its open invocation, as functions of the status of its view *)
Definition tgof (s : status SetSpec) : Z * Z :=
  match s with
  | Linearized SExtractMin (RVal (Some k)) => (1, k)
  | Linearized SExtractMax (RVal (Some k)) => (1, k)
  | _ => (0, 0)
  end.
Definition op_code (o : set_op) : Z * Z :=
  match o with
  | SInsert k => (1, k) | SErase k => (6, k) | SContains k => (10, k) | SUpdate k _ => (3, k)
  | SExtractMin => (13, 0) | SExtractMax => (14, 0)
  end.
Definition pinv_of (s : status SetSpec) : list (Z * Z) :=
  match s with Idle => [] | Pending o => [op_code o] | Linearized o _ => [op_code o] end.

Definition vtg (a : aux2) : hint := fun t => tgof (vst (fst (view2 a t))).

(** parameters of the invariant: the pre-filled nodes, and whether the programs are known to contain no extract_min /
    extract_max (then no invocation of the trace is one of those) *)
Record cfg0 := mkCfg0 { c_nodes : list (nat * nat); c_noex : bool }.

Record IL2 (nodes : cfg0) (g : G) (a : aux2) (tr : list (nat * ev)) : Prop := {
  l2_run : exists S st, lp_run lp_init (aatr (b_base a)) = Some (S, st) /\ (forall t, st t = stof g (view2 a t)) /\
                        abs g (aL (b_base a)) S;
  l2_hist : erase (aatr (b_base a)) = prefill_history (c_nodes nodes) ++ history_h (vtg a) (fun _ => 0) tr;
  l2_pinv : forall t, pinv t tr = pinv_of (vst (fst (view2 a t)));
  l2_noex : c_noex nodes = true -> forall t xy, In xy (pinv t tr) -> cok (fst xy) = true
}.

Definition Inv2 (nodes : cfg0) (g : G) (a : aux2) (tr : list (nat * ev)) : Prop :=
  IS g (b_base a) /\ EX g a /\ (IL2 nodes g a tr \/ exhausted tr).

(** ** open operations, observations *)
Definition open_of (s : status SetSpec) : option set_op :=
  match s with
  | Pending o => Some o
  | Linearized o r => if MI.is_read o r then Some o else None
  | Idle => None
  end.

Lemma open_of_read s o : open_of s = Some o <-> MF.open_read s o.
Proof.
  unfold MF.open_read. destruct s as [|o'|o' r]; cbn [open_of].
  - split; [discriminate|intros [H|(r & H & _)]; discriminate].
  - split; [intros E; inversion E; now left|intros [H|(r & H & _)]; [inversion H; reflexivity|discriminate]].
  - destruct (MI.is_read o' r) eqn:E.
    + split; [intros X; inversion X; subst; right; eauto|intros [H|(r' & H & _)]; [discriminate|inversion H; reflexivity]].
    + split; [discriminate|intros [H|(r' & H & Hr)]; [discriminate|inversion H; subst; congruence]].
Qed.

Lemma open_read_fun s o o' : MF.open_read s o -> MF.open_read s o' -> o = o'.
Proof. intros H H'. apply open_of_read in H, H'. congruence. Qed.

(** the status after an observation "key present" ([b = true]) / "absent" *)
Definition ostat (o : set_op) (b : bool) : status SetSpec :=
  match MF.obs_res o b with Some r => @Linearized SetSpec o r | None => @Pending SetSpec o end.
Definition wat (o : set_op) (b : bool) (d : ptr) : option ptr :=
  match o with SErase _ => if b then Some d else None | _ => None end.

Lemma ostat_open o b : MF.open_read (ostat o b) o.
Proof.
  unfold ostat. destruct (MF.obs_res o b) as [r|] eqn:E; [right; exists r; split; [reflexivity|eapply MF.obs_res_read; eauto]|now left].
Qed.

Definition set_watch (x : ext) (w : option ptr) : ext := mkX w (xhl x) (xfzu x) (xhe x) (xoh x).
Definition set_st2 (lv : lview2) (s : status SetSpec) (w : option ptr) : lview2 := (set_st (fst lv) s, set_watch (snd lv) w).

Definition observe (key : Z) (b : bool) (d : ptr) (lv : lview2) : lview2 :=
  match open_of (vst (fst lv)) with
  | Some o => if MF.op_key o =? key then set_st2 lv (ostat o b) (wat o b d) else lv
  | None => lv
  end.

(** [seen key b d lv]: if the operation of the view is open and has key [key], its status is that of the observation *)
Definition seen (key : Z) (b : bool) (d : ptr) (lv : lview2) : Prop :=
  forall o, MF.open_read (vst (fst lv)) o -> MF.op_key o = key -> vst (fst lv) = ostat o b /\ xwatch (snd lv) = wat o b d.

Lemma seen_observe key b d lv : seen key b d (observe key b d lv).
Proof.
  unfold observe. destruct (open_of (vst (fst lv))) as [o0|] eqn:E.
  - destruct (Z.eqb_spec (MF.op_key o0) key) as [Ek|Nk].
    + intros o Ho Hk. cbn [set_st2 fst snd set_st vst set_watch xwatch] in *.
      assert (o = o0) by (eapply open_read_fun; [exact Ho|apply ostat_open]). subst o0. auto.
    + intros o Ho Hk. apply open_of_read in Ho. congruence.
  - intros o Ho _. apply open_of_read in Ho. congruence.
Qed.

(** status evolution by observations: an open operation stays open, anything else is untouched *)
Definition sev (s s' : status SetSpec) : Prop := s' = s \/ exists o, MF.open_read s o /\ MF.open_read s' o.

Lemma sev_refl s : sev s s. Proof. now left. Qed.
Lemma sev_trans a b c : sev a b -> sev b c -> sev a c.
Proof.
  intros [->|(o & H1 & H2)] [->|(o' & H3 & H4)]; [now left|right; eauto|right; eauto|].
  right. exists o. split; [exact H1|]. now rewrite (open_read_fun _ _ _ H2 H3).
Qed.
Lemma sev_open s s' o : sev s s' -> MF.open_read s o -> MF.open_read s' o.
Proof. intros [->|(o' & H1 & H2)] H; [exact H|]. now rewrite (open_read_fun _ _ _ H H1). Qed.
Lemma sev_closed s s' : sev s s' -> open_of s = None -> s' = s.
Proof. intros [->|(o & H1 & _)] H; [reflexivity|]. apply open_of_read in H1. congruence. Qed.
Lemma sev_observe key b d lv : sev (vst (fst lv)) (vst (fst (observe key b d lv))).
Proof.
  unfold observe. destruct (open_of (vst (fst lv))) as [o|] eqn:E; [|now left].
  destruct (MF.op_key o =? key); [|now left]. right. exists o. split; [now apply open_of_read|apply ostat_open].
Qed.

(** ** the level-0 chain is strictly sorted: nothing with key [key] between a node below [key] and a successor above *)
Lemma walk_absent g key : I g -> forall L p0, (p0 = head \/ isnode p0) -> walk g p0 L ->
  forall p, In p (p0 :: L) -> below key p -> (fst (nxt g p 0) = null \/ key < key_of (fst (nxt g p 0))) ->
  forall n, In n L -> key_of n <> key.
Proof.
  intros Hi. induction L as [|m r IH]; intros p0 Hp0 Hw p Hin Hb Hnx n Hn; [destruct Hn|].
  pose proof (walk_sorted g Hi (m :: r) p0 Hp0 Hw) as [F S].
  cbn [walk] in Hw. destruct Hw as (E & Nm & Hw).
  assert (Hm : isnode m) by (inversion F as [|? ? (H & _) _]; exact H).
  cbn [map strictly_inc] in S. destruct S as [Sm Sr]. rewrite Forall_map, Forall_forall in Sm.
  destruct Hin as [<-|Hin].
  - rewrite E in Hnx. destruct Hnx as [X|X]; [congruence|].
    destruct Hn as [<-|Hn]; [lia|]. specialize (Sm _ Hn). cbn in Sm. lia.
  - assert (Km : key_of m < key).
    { destruct Hin as [<-|Hin]; [destruct Hb as [X|(_ & X)]; [unfold isnode, head in *; lia|exact X]|].
      specialize (Sm _ Hin). cbn in Sm. destruct Hb as [X|(_ & X)]; [|lia].
      subst p. destruct (walk_notin g r m Hi (or_intror Hm) Hw) as (_ & H2 & _). contradiction. }
    destruct Hn as [<-|Hn]; [lia|]. eapply (IH m (or_intror Hm) Hw p Hin Hb Hnx); eauto.
Qed.

Lemma absent_obs g a key p S :
  IS g a -> abs g (aL a) S -> (p = head \/ apub a p = true) -> snd (nxt g p 0) = false -> below key p ->
  (fst (nxt g p 0) = null \/ key < key_of (fst (nxt g p 0))) -> zmem key S = false.
Proof.
  intros Hs Ha Hp Hm Hb Hnx. destruct (zmem key S) eqn:E; [|reflexivity]. exfalso.
  apply Ha in E. destruct E as (n & Hn & _ & Hk).
  eapply (walk_absent g key (s_I _ _ Hs) (aL a) head (or_introl eq_refl) (s_walk _ _ Hs) p); eauto.
  eapply unmarked_on_chain; eauto.
Qed.

Lemma present_obs g a c S :
  IS g a -> abs g (aL a) S -> apub a c = true -> snd (nxt g c 0) = false -> zmem (key_of c) S = true.
Proof. intros Hs Ha Hp Hm. apply Ha. exists c. split; [now apply (s_inL _ _ Hs)|auto]. Qed.

(** ** stability of the extended views *)
Lemma x_ok_mono g g' pub pub' u lv :
  x_ok g pub u lv -> (forall n, pub n = true -> pub' n = true) ->
  (forall q, pub q = true \/ owner_of q = u -> hgt_of g' q = hgt_of g q) ->
  (forall c l, pub c = true -> (1 <= l)%nat -> snd (nxt g c l) = true -> snd (nxt g' c l) = true) ->
  x_ok g' pub' u lv.
Proof.
  intros (W & Hl & Fz & He & Oh) Hp Hh Hm. split; [|split; [|split; [|split]]].
  - intros d Hd. destruct (W d Hd). auto.
  - eapply Forall_impl; [|exact Hl]. intros [q l] (H1 & H2). cbn [fst snd] in *. split; [auto|]. rewrite Hh; auto.
  - eapply Forall_impl; [|exact Fz]. intros [c l] (H1 & H2 & H3). cbn [fst snd] in *. auto.
  - eapply Forall_impl; [|exact He]. intros [q h] (H1 & H2). cbn [fst snd] in *. split; [auto|]. rewrite Hh; auto.
  - intros n h E. destruct (Oh n h E) as (O1 & O2 & O3 & O4). repeat split; auto; [rewrite Hh; auto|].
    destruct O4 as [O4|O4]; auto.
Qed.

Lemma x_ok_ext g g' pub u lv : nxt g' = nxt g -> hgt_of g' = hgt_of g -> x_ok g pub u lv -> x_ok g' pub u lv.
Proof. intros E1 E2 H. eapply x_ok_mono; eauto; intros; rewrite ?E1, ?E2; auto. Qed.

(** a step that changes neither links nor heights *)
Lemma EX_view g g' a t lv' atr' wl' :
  EX g a -> nxt g' = nxt g -> hgt_of g' = hgt_of g -> hgt g' = hgt g ->
  x_ok g' (apub (b_base a)) t lv' -> (xwatch (snd lv') <> None -> In t wl') -> incl (b_wl a) wl' ->
  EX g' (mk_a2 a t (apub (b_base a)) (aL (b_base a)) lv' atr' wl').
Proof.
  intros [h1 h2 h3 h4 h5 h6] E1 E2 E3 Hv Hw Hi. constructor; cbn [b_base b_x b_wl mk_a2 apub mk_a].
  - intros p l. rewrite E1, E2. apply h1.
  - intros n l. rewrite E1, E2. apply h2.
  - now rewrite E3.
  - intros p. rewrite E2. apply h4.
  - intros u. destruct (Nat.eq_dec u t) as [->|Nu]; [now rewrite view2_mk_same|].
    rewrite view2_mk_other by exact Nu. eapply x_ok_ext; eauto.
  - intros u. destruct (Nat.eqb_spec u t) as [->|Nu]; [exact Hw|]. intros H. apply Hi. now apply h6.
Qed.

(** one cell changes (a successful CAS, or a store into an own node) *)
Lemma EX_cell g a t p l x pub' L' lv' atr' wl' :
  EX g a ->
  (forall n, apub (b_base a) n = true -> pub' n = true) ->
  (forall n, pub' n = true -> apub (b_base a) n = false -> snd (nxt (setnx g p l x) n 0) = false) ->
  (fst x = null \/ (l < hgt_of g (fst x))%nat) ->
  ((1 <= l)%nat -> snd x = false -> snd (nxt g p l) = false \/ pub' p = false) ->
  (l = 0%nat -> snd x = true -> pub' p = true -> forall l', (1 <= l' < hgt_of g p)%nat -> snd (nxt g p l') = true) ->
  x_ok (setnx g p l x) pub' t lv' -> (xwatch (snd lv') <> None -> In t wl') -> incl (b_wl a) wl' ->
  EX (setnx g p l x) (mk_a2 a t pub' L' lv' atr' wl').
Proof.
  intros [h1 h2 h3 h4 h5 h6] Hp Hnew Hx1 Hup H0 Hv Hw Hi. constructor; cbn [b_base b_x b_wl mk_a2 apub mk_a].
  - intros p' l'. change (hgt_of (setnx g p l x)) with (hgt_of g).
    destruct (Nat.eq_dec p' p) as [->|Np]; [destruct (Nat.eq_dec l' l) as [->|Nl]|].
    + now rewrite setnx_same.
    + rewrite setnx_other by congruence. apply h1.
    + rewrite setnx_other by congruence. apply h1.
  - intros n l' Hn Hm Hl. change (hgt_of (setnx g p l x)) with (hgt_of g) in Hl.
    destruct (apub (b_base a) n) eqn:Ea; [|rewrite (Hnew n Hn Ea) in Hm; discriminate].
    assert (Hm0 : snd (nxt g n 0) = true \/ (n = p /\ l = 0%nat /\ snd x = true)).
    { destruct (Nat.eq_dec n p) as [->|Np]; [destruct (Nat.eq_dec l 0) as [->|Nl]|].
      - rewrite setnx_same in Hm. right. auto.
      - rewrite setnx_up in Hm by exact Nl. now left.
      - rewrite setnx_other in Hm by congruence. now left. }
    destruct Hm0 as [Hm0|(-> & -> & Hsx)].
    + pose proof (h2 n l' Ea Hm0 Hl) as Hu.
      destruct (Nat.eq_dec n p) as [->|Np]; [destruct (Nat.eq_dec l' l) as [->|Nl]|].
      * rewrite setnx_same. destruct (snd x) eqn:Ex; [reflexivity|].
        destruct (Hup ltac:(lia) eq_refl) as [X|X]; congruence.
      * rewrite setnx_other by congruence. exact Hu.
      * rewrite setnx_other by congruence. exact Hu.
    + rewrite setnx_other by (intros X; inversion X; lia). apply (H0 eq_refl Hsx Hn l' Hl).
  - exact h3.
  - exact h4.
  - intros u. destruct (Nat.eq_dec u t) as [->|Nu]; [now rewrite view2_mk_same|].
    rewrite view2_mk_other by exact Nu. eapply x_ok_mono; [apply h5|exact Hp|reflexivity|].
    intros c l' Hc Hl' Hm. destruct (Nat.eq_dec c p) as [->|Np]; [destruct (Nat.eq_dec l' l) as [->|Nl]|].
    + rewrite setnx_same. destruct (snd x) eqn:Ex; [reflexivity|]. destruct (Hup Hl' eq_refl) as [X|X]; [congruence|].
      rewrite (Hp _ Hc) in X. discriminate.
    + rewrite setnx_other by congruence. exact Hm.
    + rewrite setnx_other by congruence. exact Hm.
  - intros u. destruct (Nat.eqb_spec u t) as [->|Nu]; [exact Hw|]. intros H. apply Hi. now apply h6.
Qed.

(** the height of an own, not yet published node is (re)written *)
Lemma EX_stunl g a t p n h lv' atr' wl' :
  IS g (b_base a) -> EX g a -> apub (b_base a) p = false -> owner_of p = t -> (1 <= h)%nat ->
  let g' := mkG (nxt g) (upd1 (unl g) p n) (upd1 (hgt_of g) p h) (hgt g) (cnt g) in
  x_ok g' (apub (b_base a)) t lv' -> (xwatch (snd lv') <> None -> In t wl') -> incl (b_wl a) wl' ->
  EX g' (mk_a2 a t (apub (b_base a)) (aL (b_base a)) lv' atr' wl').
Proof.
  intros Hs [h1 h2 h3 h4 h5 h6] Hp Ho Hh g' Hv Hw Hi.
  assert (Hoth : forall q, q <> p -> hgt_of g' q = hgt_of g q).
  { intros q Nq. unfold g'. cbn [hgt_of]. unfold upd1. destruct (Nat.eqb_spec q p); congruence. }
  constructor; cbn [b_base b_x b_wl mk_a2 apub mk_a].
  - intros p' l. change (nxt g') with (nxt g). destruct (s_closed _ _ Hs p' l) as [X|X]; [now left|].
    destruct (h1 p' l) as [E|E]; [now left|right]. rewrite Hoth; [exact E|]. intros Y. rewrite Y in X. congruence.
  - intros q l Hq Hm Hl. change (nxt g') with (nxt g) in *. rewrite Hoth in Hl by congruence. now apply h2.
  - exact h3.
  - intros q. unfold g'. cbn [hgt_of]. unfold upd1. destruct (Nat.eqb q p); [exact Hh|apply h4].
  - intros u. destruct (Nat.eq_dec u t) as [->|Nu]; [now rewrite view2_mk_same|].
    rewrite view2_mk_other by exact Nu. eapply x_ok_mono; [apply h5|auto| |auto].
    intros q [Hq|Hq]; apply Hoth; congruence.
  - intros u. destruct (Nat.eqb_spec u t) as [->|Nu]; [exact Hw|]. intros H. apply Hi. now apply h6.
Qed.

(** ** the annotated trace *)
Lemma emap_open s o : MF.open_read s o -> emap s = s.
Proof.
  intros [->|(r & -> & Hr)]; [reflexivity|]. destruct o; try reflexivity; discriminate.
Qed.
Lemma tgof_open s o : MF.open_read s o -> tgof s = (0, 0).
Proof. intros [->|(r & -> & Hr)]; [reflexivity|]. destruct o; try reflexivity; discriminate. Qed.
Lemma pinv_of_open s o : MF.open_read s o -> pinv_of s = [op_code o].
Proof. intros [->|(r & -> & Hr)]; reflexivity. Qed.

Lemma stof_open g pub t lv o : x_ok g pub t lv -> MF.open_read (vst (fst lv)) o -> MF.open_read (stof g lv) o.
Proof.
  intros (W & _) Ho. unfold stof. destruct (xwatch (snd lv)) as [d|] eqn:E; [|now rewrite (emap_open _ _ Ho)].
  destruct (snd (nxt g d 0)); [|now rewrite (emap_open _ _ Ho)]. destruct (W d eq_refl) as [_ Hd].
  rewrite (open_read_fun _ _ _ Ho Hd). right. exists (RBool false). split; reflexivity.
Qed.

Lemma stof_other g g' (a : aux2) u :
  EX g a -> (forall n, apub (b_base a) n = true -> snd (nxt g' n 0) = snd (nxt g n 0)) ->
  stof g' (view2 a u) = stof g (view2 a u).
Proof.
  intros He Hm. unfold stof. destruct (xwatch (snd (view2 a u))) as [d|] eqn:E; [|reflexivity].
  destruct (e_x _ _ He u) as (W & _). destruct (W d E) as [Hd _]. now rewrite (Hm d Hd).
Qed.

Lemma vtg_mk a t pub' L' lv' atr' wl' :
  tgof (vst (fst lv')) = tgof (vst (fst (view2 a t))) -> forall u, vtg (mk_a2 a t pub' L' lv' atr' wl') u = vtg a u.
Proof.
  intros E u. unfold vtg. destruct (Nat.eq_dec u t) as [->|Nu]; [now rewrite view2_mk_same|now rewrite view2_mk_other].
Qed.

Lemma hist_keep (nodes : list (nat * nat)) a t pub' L' lv' atr' wl' (h : history SetSpec) tr kd ob ok :
  h = prefill_history nodes ++ history_h (vtg a) (fun _ => 0) tr -> tgof (vst (fst lv')) = tgof (vst (fst (view2 a t))) ->
  h = prefill_history nodes ++ history_h (vtg (mk_a2 a t pub' L' lv' atr' wl')) (fun _ => 0) (tr ++ Conc.tag t [EvAcc kd ob ok]).
Proof.
  intros H E. cbn [Conc.tag map]. rewrite history_h_snoc by exact Logic.I. cbn [hev1h]. rewrite app_nil_r.
  rewrite (history_h_ext (vtg a) _ (vtg_mk a t pub' L' lv' atr' wl' E)). exact H.
Qed.

Lemma pinv_keep a t pub' L' lv' atr' wl' tr kd ob ok :
  (forall u, pinv u tr = pinv_of (vst (fst (view2 a u)))) -> pinv_of (vst (fst lv')) = pinv_of (vst (fst (view2 a t))) ->
  forall u, pinv u (tr ++ Conc.tag t [EvAcc kd ob ok]) = pinv_of (vst (fst (view2 (mk_a2 a t pub' L' lv' atr' wl') u))).
Proof.
  intros H E u. cbn [Conc.tag map]. rewrite pinv_snoc. cbn [is_res_of pinv]. rewrite app_nil_r, H.
  destruct (Nat.eq_dec u t) as [->|Nu]; [now rewrite view2_mk_same|now rewrite view2_mk_other].
Qed.

(** an open invocation that has not been linearized can be re-targeted *)
Lemma lp_retarget (atr : list (aev SetSpec)) S st t o o' :
  lp_run lp_init atr = Some (S, st) -> st t = @Pending SetSpec o ->
  exists atr' st', lp_run lp_init atr' = Some (S, st') /\ st' t = @Pending SetSpec o' /\ (forall u, u <> t -> st' u = st u) /\
                   erase atr' = sli t o' (erase atr).
Proof.
  intros Hr Hs. destruct (ML.lp_open_split _ _ _ t o Hr) as (A & B & EA & HB & HP); [rewrite Hs; reflexivity|].
  specialize (HP Hs). subst atr. rewrite lp_run_app in Hr. destruct (lp_run lp_init A) as [[s1 st1]|] eqn:EA; [|discriminate].
  cbn [lp_run lp_step] in Hr. destruct (st1 t) eqn:Et; try discriminate.
  destruct (MI.lp_run_other B s1 (upd st1 t (@Pending SetSpec o)) (upd st1 t (@Pending SetSpec o')) t S st HP) as (st' & K1 & K2 & K3); auto.
  { intros u Hu. unfold upd. destruct (Nat.eqb_spec u t); congruence. }
  exists (A ++ @AInv SetSpec t o' :: B), st'. split; [|split; [|split]].
  - rewrite lp_run_app, EA. cbn [lp_run lp_step]. rewrite Et. exact K1.
  - rewrite K3. apply upd_same.
  - exact K2.
  - rewrite !erase_app. cbn [erase]. symmetry. apply sli_app_hit. unfold has_inv.
    destruct (existsb (MI.is_hinv t) (erase B)) eqn:E; [|reflexivity]. apply existsb_exists in E. destruct E as (e & He & Hx).
    rewrite (MI.erase_no_hinv t B HB e He) in Hx. discriminate.
Qed.

Lemma noex_keep (c : bool) tr t kd ob ok :
  (c = true -> forall u xy, In xy (pinv u tr) -> cok (fst xy) = true) ->
  c = true -> forall u xy, In xy (pinv u (tr ++ Conc.tag t [EvAcc kd ob ok])) -> cok (fst xy) = true.
Proof. intros H Hc u xy. cbn [Conc.tag map]. rewrite pinv_snoc. cbn [is_res_of pinv]. rewrite app_nil_r. now apply H. Qed.

Section WithNodes.
Variable nodes : cfg0.

(** an access that is not a linearization point and leaves the status of the thread in the annotated trace alone *)
Lemma IL2_keep g g' a t pub' L' lv' wl' tr kd ob ok :
  IL2 nodes g a tr -> EX g a -> stof g' lv' = stof g (view2 a t) ->
  tgof (vst (fst lv')) = tgof (vst (fst (view2 a t))) -> pinv_of (vst (fst lv')) = pinv_of (vst (fst (view2 a t))) ->
  (forall n, apub (b_base a) n = true -> snd (nxt g' n 0) = snd (nxt g n 0)) ->
  (forall S, abs g (aL (b_base a)) S -> abs g' L' S) ->
  IL2 nodes g' (mk_a2 a t pub' L' lv' (aatr (b_base a)) wl') (tr ++ Conc.tag t [EvAcc kd ob ok]).
Proof.
  intros [(S & st & H1 & H2 & H3) H4 H5 H6] He Hst Htg Hpi Hm Ha. constructor; cbn [b_base mk_a2 aatr aL mk_a].
  - exists S, st. split; [exact H1|]. split; [|now apply Ha].
    intros u. destruct (Nat.eq_dec u t) as [->|Nu]; [rewrite view2_mk_same, Hst; apply H2|].
    rewrite view2_mk_other by exact Nu. rewrite H2. symmetry. now apply stof_other.
  - now apply hist_keep.
  - now apply pinv_keep.
  - now apply noex_keep.
Qed.

(** an observation by a load: the operation of the thread is (re-)linearized at this instant *)
Lemma IL2_obs g a t lv' wl' tr kd ob ok o b :
  IL2 nodes g a tr -> EX g a -> MF.open_read (vst (fst (view2 a t))) o ->
  (forall S, abs g (aL (b_base a)) S -> zmem (MF.op_key o) S = b) ->
  vst (fst lv') = ostat o b -> stof g lv' = ostat o b ->
  exists atr', IL2 nodes g (mk_a2 a t (apub (b_base a)) (aL (b_base a)) lv' atr' wl') (tr ++ Conc.tag t [EvAcc kd ob ok]).
Proof.
  intros [(S & st & H1 & H2 & H3) H4 H5 H6] He Ho Hz Hvst Hst.
  assert (Hop : MF.open_read (st t) o) by (rewrite H2; eapply stof_open; [apply (e_x _ _ He)|exact Ho]).
  destruct (MF.to_pending _ _ _ _ _ H1 Hop) as (atr0 & st0 & K1 & K2 & K3 & K4).
  assert (Htg : tgof (vst (fst lv')) = tgof (vst (fst (view2 a t)))).
  { rewrite Hvst, (tgof_open _ _ (ostat_open o b)), (tgof_open _ _ Ho). reflexivity. }
  assert (Hpi : pinv_of (vst (fst lv')) = pinv_of (vst (fst (view2 a t)))).
  { rewrite Hvst, (pinv_of_open _ _ (ostat_open o b)), (pinv_of_open _ _ Ho). reflexivity. }
  unfold ostat in Hst. destruct (MF.obs_res o b) as [r|] eqn:Er.
  - exists (atr0 ++ [ALin t]). constructor; cbn [b_base mk_a2 aatr aL mk_a].
    + pose proof (MF.obs_res_step o b r S Er (Hz S H3)) as Hstep.
      exists S, (upd st0 t (@Linearized SetSpec o r)). split; [|split; [|exact H3]].
      * rewrite (MI.lp_run_snoc _ _ _ K1). cbn [lp_step]. rewrite K2.
        change (sstep SetSpec S o) with (set_step S o). rewrite Hstep. reflexivity.
      * intros u. destruct (Nat.eq_dec u t) as [->|Nu]; [rewrite view2_mk_same, upd_same; now rewrite Hst|].
        rewrite view2_mk_other by exact Nu. rewrite upd_other by exact Nu. rewrite K3 by exact Nu. apply H2.
    + rewrite erase_app. cbn [erase]. rewrite app_nil_r, K4. now apply hist_keep.
    + now apply pinv_keep.
    + now apply noex_keep.
  - exists atr0. constructor; cbn [b_base mk_a2 aatr aL mk_a].
    + exists S, st0. split; [exact K1|]. split; [|exact H3].
      intros u. destruct (Nat.eq_dec u t) as [->|Nu]; [rewrite view2_mk_same; now rewrite Hst|].
      rewrite view2_mk_other by exact Nu. rewrite K3 by exact Nu. apply H2.
    + rewrite K4. now apply hist_keep.
    + now apply pinv_keep.
    + now apply noex_keep.
Qed.

(** a linearization point that changes the abstract set (or observes the empty set), the marks of published nodes stay *)
Lemma IL2_lp g g' a t pub' L' lv' wl' tr kd ob ok o :
  IL2 nodes g a tr -> EX g a -> MF.open_read (vst (fst (view2 a t))) o ->
  tgof (vst (fst lv')) = (0, 0) -> pinv_of (vst (fst lv')) = [op_code o] ->
  (forall n, apub (b_base a) n = true -> snd (nxt g' n 0) = snd (nxt g n 0)) ->
  (forall S, abs g (aL (b_base a)) S -> abs g' L' (fst (set_step S o)) /\ stof g' lv' = @Linearized SetSpec o (snd (set_step S o))) ->
  exists atr', IL2 nodes g' (mk_a2 a t pub' L' lv' atr' wl') (tr ++ Conc.tag t [EvAcc kd ob ok]).
Proof.
  intros [(S & st & H1 & H2 & H3) H4 H5 H6] He Ho Htg Hpi Hm Ha. destruct (Ha S H3) as [Ha1 Ha2].
  assert (Hop : MF.open_read (st t) o) by (rewrite H2; eapply stof_open; [apply (e_x _ _ He)|exact Ho]).
  destruct (MF.to_pending _ _ _ _ _ H1 Hop) as (atr0 & st0 & K1 & K2 & K3 & K4).
  exists (atr0 ++ [ALin t]). constructor; cbn [b_base mk_a2 aatr aL mk_a].
  - exists (fst (set_step S o)), (upd st0 t (@Linearized SetSpec o (snd (set_step S o)))). split; [|split; [|exact Ha1]].
    + rewrite (MI.lp_run_snoc _ _ _ K1). cbn [lp_step]. rewrite K2. reflexivity.
    + intros u. destruct (Nat.eq_dec u t) as [->|Nu]; [rewrite view2_mk_same, upd_same; congruence|].
      rewrite view2_mk_other by exact Nu. rewrite upd_other by exact Nu. rewrite K3 by exact Nu. rewrite H2.
      symmetry. now apply stof_other.
  - rewrite erase_app. cbn [erase]. rewrite app_nil_r, K4. apply hist_keep; [exact H4|]. now rewrite Htg, (tgof_open _ _ Ho).
  - apply pinv_keep; [exact H5|]. now rewrite Hpi, (pinv_of_open _ _ Ho).
  - now apply noex_keep.
Qed.

(** re-linearize a list of pending erase(k) as "false" at an instant at which k is absent *)
Lemma relin_all (k : Z) (pw : nat -> bool) : forall (ws : list nat) (atr : list (aev SetSpec)) S st,
  lp_run lp_init atr = Some (S, st) -> zmem k S = false ->
  (forall u, pw u = true -> MF.open_read (st u) (SErase k)) ->
  exists atr' st', lp_run lp_init atr' = Some (S, st') /\ erase atr' = erase atr /\
    (forall u, In u ws -> pw u = true -> st' u = @Linearized SetSpec (SErase k) (RBool false)) /\
    (forall u, (~ In u ws \/ pw u = false) -> st' u = st u) /\
    (forall u, pw u = true -> MF.open_read (st' u) (SErase k)).
Proof.
  induction ws as [|w ws IH]; intros atr S st Hr Hz Hp.
  - exists atr, st. repeat split; auto. intros u [].
  - destruct (IH atr S st Hr Hz Hp) as (atr1 & st1 & R1 & R2 & R3 & R4 & R5).
    destruct (pw w) eqn:Ew.
    + destruct (MF.to_pending _ _ _ _ _ R1 (R5 w Ew)) as (atr0 & st0 & K1 & K2 & K3 & K4).
      assert (Hstep : set_step S (SErase k) = (S, RBool false)) by (cbn [set_step]; now rewrite Hz).
      exists (atr0 ++ [ALin w]), (upd st0 w (@Linearized SetSpec (SErase k) (RBool false))). split; [|split; [|split; [|split]]].
      * rewrite (MI.lp_run_snoc _ _ _ K1). cbn [lp_step]. rewrite K2.
        change (sstep SetSpec S (SErase k)) with (set_step S (SErase k)). rewrite Hstep. reflexivity.
      * rewrite erase_app. cbn [erase]. rewrite app_nil_r. congruence.
      * intros u Hin Hu. destruct (Nat.eq_dec u w) as [->|Nu]; [apply upd_same|].
        rewrite upd_other by exact Nu. rewrite K3 by exact Nu. destruct Hin as [X|Hin]; [congruence|]. now apply R3.
      * intros u Hu. destruct (Nat.eq_dec u w) as [->|Nu].
        -- destruct Hu as [Hu|Hu]; [exfalso; apply Hu; now left|congruence].
        -- rewrite upd_other by exact Nu. rewrite K3 by exact Nu. apply R4. destruct Hu as [Hu|Hu]; [left; intros X; apply Hu; now right|now right].
      * intros u Hu. destruct (Nat.eq_dec u w) as [->|Nu].
        -- rewrite upd_same. right. exists (RBool false). split; reflexivity.
        -- rewrite upd_other by exact Nu. rewrite K3 by exact Nu. now apply R5.
    + exists atr1, st1. split; [exact R1|]. split; [exact R2|]. split; [|split; [|exact R5]].
      * intros u [<-|Hin] Hu; [congruence|now apply R3].
      * intros u Hu. destruct (Nat.eq_dec u w) as [->|Nu]; [apply R4; now right|].
        apply R4. destruct Hu as [Hu|Hu]; [left; intros X; apply Hu; now right|now right].
Qed.

Definition watches (a : aux2) (t : nat) (d : ptr) (u : nat) : bool :=
  negb (Nat.eqb u t) && match xwatch (b_x a u) with Some d' => Nat.eqb d' d | None => false end.

(** the common part of the two mark lemmas: after thread t's own "erase k -> true" has been linearized (annotated trace
    [atr1], statuses [st1]) every failed erase that watches the node is linearized right behind it *)
Lemma mark_helping g a t del q lv' (wl' : list nat) (atr1 : list (aev SetSpec)) (S : list Z) (st st1 : nat -> status SetSpec) :
  IS g (b_base a) -> EX g a -> abs g (aL (b_base a)) S -> (forall u, st u = stof g (view2 a u)) ->
  In del (aL (b_base a)) -> nxt g del 0 = (q, false) ->
  lp_run lp_init atr1 = Some (zdel (key_of del) S, st1) ->
  st1 t = @Linearized SetSpec (SErase (key_of del)) (RBool true) -> (forall u, u <> t -> st1 u = st u) ->
  stof (setnx g del 0 (q, true)) lv' = @Linearized SetSpec (SErase (key_of del)) (RBool true) ->
  exists (atr' : list (aev SetSpec)) (st' : nat -> status SetSpec), lp_run lp_init atr' = Some (zdel (key_of del) S, st') /\ erase atr' = erase atr1 /\
    (forall u, st' u = stof (setnx g del 0 (q, true)) (view2 (mk_a2 a t (apub (b_base a)) (aL (b_base a)) lv' atr' wl') u)) /\
    abs (setnx g del 0 (q, true)) (aL (b_base a)) (zdel (key_of del) S).
Proof.
  intros Hs He H3 H2 Hin Hc R1 Ht1 Hoth Hst'. set (k := key_of del) in *. set (g' := setnx g del 0 (q, true)).
  destruct (abs_mark g (b_base a) S del q Hs H3 Hin Hc) as [A1 A2].
  assert (Hz : zmem k (zdel k S) = false).
  { destruct (zmem k (zdel k S)) eqn:E; [|reflexivity]. apply zmem_zdel in E. destruct E; congruence. }
  assert (Hwat : forall u, watches a t del u = true -> u <> t /\ xwatch (b_x a u) = Some del).
  { intros u Hu. unfold watches in Hu. apply andb_true_iff in Hu. destruct Hu as [U1 U2].
    apply negb_true_iff, Nat.eqb_neq in U1. split; [exact U1|]. destruct (xwatch (b_x a u)) as [d'|]; [|discriminate].
    apply Nat.eqb_eq in U2. now subst. }
  destruct (relin_all k (watches a t del) (b_wl a) atr1 (zdel k S) st1 R1 Hz) as (atr' & st' & Q1 & Q2 & Q3 & Q4 & _).
  { intros u Hu. destruct (Hwat u Hu) as [Nu Wu]. rewrite Hoth by exact Nu.
    rewrite H2. unfold stof. change (snd (view2 a u)) with (b_x a u). rewrite Wu, Hc. cbn [snd].
    destruct (e_x _ _ He u) as (W & _). destruct (W del Wu) as [_ X]. now rewrite (emap_open _ _ X). }
  exists atr', st'. split; [exact Q1|]. split; [exact Q2|]. split; [|exact A1].
  intros u. destruct (Nat.eq_dec u t) as [->|Nu].
  - rewrite view2_mk_same. rewrite Q4 by (right; unfold watches; now rewrite Nat.eqb_refl). rewrite Ht1. symmetry. exact Hst'.
  - rewrite view2_mk_other by exact Nu. destruct (watches a t del u) eqn:Ew.
    + destruct (Hwat u Ew) as [_ Wu]. rewrite Q3; [|apply (e_wl _ _ He); congruence|exact Ew].
      unfold stof, view2. cbn [snd fst]. rewrite Wu. unfold g'. now rewrite setnx_same.
    + rewrite Q4 by now right. rewrite Hoth by exact Nu. rewrite H2.
      unfold stof, view2. cbn [snd fst]. destruct (xwatch (b_x a u)) as [d'|] eqn:Wu; [|reflexivity].
      unfold g'. rewrite setnx_other0; [reflexivity|]. intros ->.
      unfold watches in Ew. rewrite Wu, Nat.eqb_refl, andb_true_r in Ew. apply negb_false_iff, Nat.eqb_eq in Ew. contradiction.
Qed.

(** the level-0 mark CAS of erase: linearization point of the marking thread, and of every failed erase that watches
    the node *)
Lemma IL2_mark g a t del q lv' wl' tr kd ob ok :
  IS g (b_base a) -> IL2 nodes g a tr -> EX g a -> MF.open_read (vst (fst (view2 a t))) (SErase (key_of del)) ->
  In del (aL (b_base a)) -> nxt g del 0 = (q, false) ->
  xwatch (snd lv') = None -> vst (fst lv') = @Linearized SetSpec (SErase (key_of del)) (RBool true) ->
  exists atr', IL2 nodes (setnx g del 0 (q, true)) (mk_a2 a t (apub (b_base a)) (aL (b_base a)) lv' atr' wl')
                 (tr ++ Conc.tag t [EvAcc kd ob ok]).
Proof.
  intros Hs [(S & st & H1 & H2 & H3) H4 H5 H6] He Ho Hin Hc Hw' Hst'.
  set (k := key_of del).
  destruct (abs_mark g (b_base a) S del q Hs H3 Hin Hc) as [A1 A2].
  assert (Hop : MF.open_read (st t) (SErase k)) by (rewrite H2; eapply stof_open; [apply (e_x _ _ He)|exact Ho]).
  destruct (MF.to_pending _ _ _ _ _ H1 Hop) as (atr0 & st0 & K1 & K2 & K3 & K4).
  assert (Hstep : set_step S (SErase k) = (zdel k S, RBool true)) by (cbn [set_step]; unfold k; now rewrite A2).
  set (st1 := upd st0 t (@Linearized SetSpec (SErase k) (RBool true))).
  assert (R1 : lp_run lp_init (atr0 ++ [ALin t]) = Some (zdel k S, st1)).
  { rewrite (MI.lp_run_snoc _ _ _ K1). cbn [lp_step]. rewrite K2.
    change (sstep SetSpec S (SErase k)) with (set_step S (SErase k)). rewrite Hstep. reflexivity. }
  destruct (mark_helping g a t del q lv' wl' (atr0 ++ [ALin t]) S st st1 Hs He H3 H2 Hin Hc R1) as (atr' & st' & Q1 & Q2 & Q3 & Q4).
  { unfold st1. apply upd_same. }
  { intros u Nu. unfold st1. rewrite upd_other by exact Nu. now apply K3. }
  { unfold stof. now rewrite Hw', Hst'. }
  exists atr'. constructor; cbn [b_base mk_a2 aatr aL mk_a].
  - exists (zdel k S), st'. auto.
  - rewrite Q2, erase_app. cbn [erase]. rewrite app_nil_r, K4. apply hist_keep; [exact H4|]. now rewrite Hst', (tgof_open _ _ Ho).
  - apply pinv_keep; [exact H5|]. now rewrite Hst', (pinv_of_open _ _ Ho).
  - now apply noex_keep.
Qed.

Definition is_ext (o : set_op) : bool := match o with SExtractMin | SExtractMax => true | _ => false end.

(** the level-0 mark CAS of extract_min / extract_max: the pending invocation becomes "erase k" (k the key of the
    victim) and is linearized here; in the view it is "extract returned k" *)
Lemma IL2_mark_ext g a t del q lv' wl' tr kd ob ok o :
  IS g (b_base a) -> IL2 nodes g a tr -> EX g a -> is_ext o = true ->
  vst (fst (view2 a t)) = @Pending SetSpec o -> xwatch (snd (view2 a t)) = None ->
  In del (aL (b_base a)) -> nxt g del 0 = (q, false) ->
  xwatch (snd lv') = None -> vst (fst lv') = @Linearized SetSpec o (RVal (Some (key_of del))) ->
  exists atr', IL2 nodes (setnx g del 0 (q, true)) (mk_a2 a t (apub (b_base a)) (aL (b_base a)) lv' atr' wl')
                 (tr ++ Conc.tag t [EvAcc kd ob ok]).
Proof.
  intros Hs [(S & st & H1 & H2 & H3) H4 H5 H6] He Hx Hv Hw Hin Hc Hw' Hst'.
  set (k := key_of del).
  destruct (abs_mark g (b_base a) S del q Hs H3 Hin Hc) as [A1 A2].
  assert (Hpend : st t = @Pending SetSpec o) by (rewrite H2; unfold stof; now rewrite Hw, Hv).
  destruct (lp_retarget _ _ _ t o (SErase k) H1 Hpend) as (atr0 & st0 & K1 & K2 & K3 & K4).
  assert (Hstep : set_step S (SErase k) = (zdel k S, RBool true)) by (cbn [set_step]; unfold k; now rewrite A2).
  set (st1 := upd st0 t (@Linearized SetSpec (SErase k) (RBool true))).
  assert (R1 : lp_run lp_init (atr0 ++ [ALin t]) = Some (zdel k S, st1)).
  { rewrite (MI.lp_run_snoc _ _ _ K1). cbn [lp_step]. rewrite K2.
    change (sstep SetSpec S (SErase k)) with (set_step S (SErase k)). rewrite Hstep. reflexivity. }
  destruct (mark_helping g a t del q lv' wl' (atr0 ++ [ALin t]) S st st1 Hs He H3 H2 Hin Hc R1) as (atr' & st' & Q1 & Q2 & Q3 & Q4).
  { unfold st1. apply upd_same. }
  { intros u Nu. unfold st1. rewrite upd_other by exact Nu. now apply K3. }
  { unfold stof. rewrite Hw', Hst'. destruct o; try discriminate; reflexivity. }
  assert (Hpi : pinv t tr = [op_code o]) by (rewrite H5, Hv; reflexivity).
  exists atr'. constructor; cbn [b_base mk_a2 aatr aL mk_a].
  - exists (zdel k S), st'. auto.
  - rewrite Q2, erase_app. cbn [erase]. rewrite app_nil_r, K4, H4.
    rewrite sli_app_r by (rewrite has_inv_history; apply pinv_has_inv; rewrite Hpi; discriminate). f_equal.
    cbn [Conc.tag map]. rewrite history_h_snoc by exact Logic.I. cbn [hev1h]. rewrite app_nil_r.
    assert (E : enc_op (fst (op_code o)) (snd (op_code o)) 1 k = SErase k) by (destruct o; try discriminate; reflexivity).
    rewrite <- E. rewrite <- (history_h_retarget (vtg a) t (1, k) _ _ tr (fun _ => 0)) by (rewrite Hpi; destruct (op_code o); reflexivity).
    apply history_h_ext. intros u. unfold vtg, upd_tg. destruct (Nat.eqb_spec u t) as [->|Nu]; [|now rewrite view2_mk_other].
    rewrite view2_mk_same, Hst'. destruct o; try discriminate; reflexivity.
  - apply pinv_keep; [exact H5|]. rewrite Hst', Hv. reflexivity.
  - now apply noex_keep.
Qed.

End WithNodes.
