(** * SkipListFullInv: invariant for linearizability of the FULL client history of the skip list model
      (return values of contains, insert -> false, erase -> false included), for every schedule.

    Base: the structural invariant [IS] of Proofs/SkipListLin.v (ghost level-0 chain [aL], published nodes, per-thread
    knowledge).  New here:

    - the LP-annotated trace contains EVERY operation.  A read-type result is linearized at an OBSERVATION made by one
      of the thread's own loads (and a later observation MOVES the linearization point, as in MichaelListFullInv):
        absent : a level-0 load of the cell of a node p with key < k (or the head) that yields an unmarked pointer to
                 null or to a node with key > k: p is on the level-0 chain, the chain is strictly sorted, so k is not in
                 the abstract set at that instant;
        present: a load at ANY level l of the cell of a node c with key k that was reached through a level-l link and
                 yields an unmarked value: by [e_h1] l < height(c), by [e_h2] (towers are marked top-down, marks are
                 permanent) the level-0 cell of c is unmarked, so c is on the chain and k is in the abstract set;
    - HELPING: erase(k) returns false when the node it found is marked by another thread before its own mark CAS.
      Its linearization point is the instant right after the OTHER thread's level-0 mark CAS (k left the set and the
      chain holds no second node with key k).  The thread "watches" the node ([xwatch]); the status of thread t in the
      annotated trace is [stof g (view t)]: once the watched node is marked it is "erase -> false", whatever t's view
      says.  The marking thread re-linearizes all watchers (global list [b_wl]).
    - [e_h1] every link at level l points to a node of height > l;  [e_h2] a published node whose level-0 cell is
      marked has all cells 1 .. height-1 marked. *)
From Coq Require Import ZArith List String Bool Lia PeanoNat.
From LV Require Import Base.Conc Base.Events Base.Lin Spec.Specs Proofs.LinProofs.
From LV Require Import Model.SkipList Proofs.SkipListProofs Proofs.SkipListLin.
From LV Require Proofs.MichaelListInv Proofs.MichaelListLin Proofs.MichaelListFullInv.
Import ListNotations.
Local Open Scope Z_scope.

Module MF := MichaelListFullInv.

(** ** the client history, event by event (programs of insert / erase / contains: codes 1, 6, 10) *)
Definition cok (c : Z) : bool := (c =? 1) || (c =? 6) || (c =? 10).

Lemma enc_op_cok c k a b : cok c = true -> enc_op c k a b = sp_op c k.
Proof.
  unfold cok, enc_op, sp_op. intros H.
  destruct (c =? 1); [reflexivity|]. destruct (c =? 6); [reflexivity|]. destruct (c =? 10); [reflexivity|discriminate].
Qed.

Definition noext_tr (tr : list (nat * ev)) : Prop :=
  forall t x y, In (t, EvCli "inv"%string [x; y]) tr -> cok x = true.

Fixpoint pend_after (pend : nat -> Z) (tr : list (nat * ev)) : nat -> Z :=
  match tr with
  | [] => pend
  | (t, EvCli name [x; y]) :: r =>
      if String.eqb name "inv" then pend_after (fun u => if Nat.eqb u t then x else pend u) r else pend_after pend r
  | _ :: r => pend_after pend r
  end.

Definition hev1 (pe : nat -> Z) (e : nat * ev) : history SetSpec :=
  match e with
  | (t, EvCli name [x; y]) =>
      if String.eqb name "inv" then [@HInv SetSpec t (enc_op x y 0 0)]
      else if String.eqb name "res" then [@HRes SetSpec t (enc_res (pe t) x)] else []
  | _ => []
  end.

Lemma noext_cons e tr : noext_tr (e :: tr) -> noext_tr tr.
Proof. intros H t x y Hin. apply (H t x y). now right. Qed.

Lemma history_of_snoc : forall tr pend e, noext_tr tr ->
  history_of pend (tr ++ [e]) = history_of pend tr ++ hev1 (pend_after pend tr) e.
Proof.
  induction tr as [|[t v] r IH]; intros pend e Hn.
  - cbn [app pend_after]. destruct e as [t [k o ok|name args]]; [reflexivity|].
    destruct args as [|x [|y [|z w]]]; reflexivity.
  - pose proof (noext_cons _ _ Hn) as Hn'. cbn [app].
    destruct v as [k o ok|name args]; [cbn [history_of pend_after]; now apply IH|].
    destruct args as [|x [|y [|z w]]]; try (cbn [history_of pend_after]; now apply IH).
    cbn [history_of pend_after]. destruct (String.eqb name "inv") eqn:En.
    + assert (Hc : cok x = true).
      { apply (Hn t x y). left. apply String.eqb_eq in En. now subst. }
      assert (E1 : forall rr T, match first_res t rr with
                                | Some (a, b) => @HInv SetSpec t (enc_op x y a b) :: T
                                | None => @HInv SetSpec t (enc_op x y 0 0) :: T end = @HInv SetSpec t (sp_op x y) :: T).
      { intros rr T. destruct (first_res t rr) as [[a b]|]; now rewrite enc_op_cok. }
      rewrite !E1. cbn [app]. f_equal. now apply IH.
    + destruct (String.eqb name "res"); [cbn [app]; f_equal|]; now apply IH.
Qed.

Lemma pend_after_ok : forall tr pend t, noext_tr tr ->
  ((pend t =? 13) || (pend t =? 14) = false) -> ((pend_after pend tr t =? 13) || (pend_after pend tr t =? 14) = false).
Proof.
  induction tr as [|[u v] r IH]; intros pend t Hn Hp; cbn [pend_after]; [exact Hp|].
  pose proof (noext_cons _ _ Hn) as Hn'.
  destruct v as [k o ok|name args]; [now apply IH|].
  destruct args as [|x [|y [|z w]]]; try (now apply IH).
  destruct (String.eqb name "inv") eqn:En; [|now apply IH].
  apply IH; [exact Hn'|]. destruct (Nat.eqb t u); [|exact Hp].
  assert (Hc : cok x = true) by (apply (Hn u x y); left; apply String.eqb_eq in En; now subst).
  unfold cok in Hc. destruct (Z.eqb_spec x 1) as [->|]; [reflexivity|]. destruct (Z.eqb_spec x 6) as [->|]; [reflexivity|].
  destruct (Z.eqb_spec x 10) as [->|]; [reflexivity|discriminate].
Qed.

Lemma client_history_snoc nodes tr e : noext_tr tr ->
  client_history nodes (tr ++ [e]) = client_history nodes tr ++ hev1 (pend_after (fun _ => 0) tr) e.
Proof. intros H. unfold client_history. rewrite history_of_snoc by exact H. now rewrite app_assoc. Qed.

Lemma client_history_acc nodes tr t k o ok : noext_tr tr ->
  client_history nodes (tr ++ Conc.tag t [EvAcc k o ok]) = client_history nodes tr.
Proof. intros H. cbn [Conc.tag map]. rewrite client_history_snoc by exact H. cbn [hev1]. apply app_nil_r. Qed.

Lemma noext_snoc_acc tr t k o ok : noext_tr tr -> noext_tr (tr ++ Conc.tag t [EvAcc k o ok]).
Proof.
  intros H u x y Hin. apply in_app_or in Hin. destruct Hin as [Hin|[E|[]]]; [eauto|discriminate].
Qed.

(** ** extended views *)
Record ext := mkX {
  xwatch : option ptr;            (* erase: the node with my key that I saw unmarked during this operation *)
  xhl : list (ptr * nat);         (* (q, l): the published node q has height > l *)
  xfzu : list (ptr * nat);        (* (c, l), l >= 1: the level-l cell of the published node c is marked *)
  xhe : list (ptr * nat);         (* (q, h): the published node q has height h *)
  xoh : option (ptr * nat)        (* my current node and its height *)
}.

Record aux2 := mkAux2 { b_base : aux; b_x : nat -> ext; b_wl : list nat }.
Definition lview2 := (lview * ext)%type.
Definition view2 (a : aux2) (t : nat) : lview2 := (view (b_base a) t, b_x a t).

Definition mk_a2 (a : aux2) (t : nat) (pub' : ptr -> bool) (L' : list ptr) (lv' : lview2) (atr' : list (aev SetSpec))
  (wl' : list nat) : aux2 :=
  mkAux2 (mk_a (b_base a) t pub' L' (fst lv') atr') (fun u => if Nat.eqb u t then snd lv' else b_x a u) wl'.

Lemma view2_mk_same a t pub' L' lv' atr' wl' : view2 (mk_a2 a t pub' L' lv' atr' wl') t = lv'.
Proof. unfold view2, mk_a2; cbn [b_base b_x]. rewrite view_mk_same, Nat.eqb_refl. now destruct lv'. Qed.
Lemma view2_mk_other a t pub' L' lv' atr' wl' u : u <> t -> view2 (mk_a2 a t pub' L' lv' atr' wl') u = view2 a u.
Proof.
  intros H. unfold view2, mk_a2; cbn [b_base b_x]. rewrite view_mk_other by exact H. destruct (Nat.eqb_spec u t); congruence.
Qed.
Lemma frame2_mk a t pub' L' lv' atr' wl' : Conc.frame view2 t a (mk_a2 a t pub' L' lv' atr' wl').
Proof. intros u H. now apply view2_mk_other. Qed.

Definition x_ok (g : G) (pub : ptr -> bool) (t : nat) (lv : lview2) : Prop :=
  (forall d, xwatch (snd lv) = Some d -> pub d = true /\ MF.open_read (vst (fst lv)) (SErase (key_of d))) /\
  Forall (fun ql => pub (fst ql) = true /\ (snd ql < hgt_of g (fst ql))%nat) (xhl (snd lv)) /\
  Forall (fun cl => pub (fst cl) = true /\ (1 <= snd cl)%nat /\ snd (nxt g (fst cl) (snd cl)) = true) (xfzu (snd lv)) /\
  Forall (fun qh => pub (fst qh) = true /\ hgt_of g (fst qh) = snd qh) (xhe (snd lv)) /\
  (forall n h, xoh (snd lv) = Some (n, h) ->
     isnode n /\ owner_of n = t /\ hgt_of g n = h /\ (pub n = true \/ exists v, vown (fst lv) = Some (n, v))).

Record EX (g : G) (a : aux2) : Prop := {
  e_h1 : forall p l, fst (nxt g p l) = null \/ (l < hgt_of g (fst (nxt g p l)))%nat;
  e_h2 : forall n l, apub (b_base a) n = true -> snd (nxt g n 0) = true -> (1 <= l < hgt_of g n)%nat -> snd (nxt g n l) = true;
  e_hg : 1 <= hgt g;
  e_hof : forall p, (1 <= hgt_of g p)%nat;
  e_x : forall t, x_ok g (apub (b_base a)) t (view2 a t);
  e_wl : forall t, xwatch (b_x a t) <> None -> In t (b_wl a)
}.

(** the status of a thread's operation in the annotated trace *)
Definition stof (g : G) (lv : lview2) : status SetSpec :=
  match xwatch (snd lv) with
  | Some d => if snd (nxt g d 0) then @Linearized SetSpec (SErase (key_of d)) (RBool false) else vst (fst lv)
  | None => vst (fst lv)
  end.

Record IL2 (nodes : list (nat * nat)) (g : G) (a : aux2) (tr : list (nat * ev)) : Prop := {
  l2_run : exists S st, lp_run lp_init (aatr (b_base a)) = Some (S, st) /\ (forall t, st t = stof g (view2 a t)) /\
                        abs g (aL (b_base a)) S;
  l2_hist : erase (aatr (b_base a)) = client_history nodes tr;
  l2_noext : noext_tr tr
}.

Definition Inv2 (nodes : list (nat * nat)) (g : G) (a : aux2) (tr : list (nat * ev)) : Prop :=
  IS g (b_base a) /\ EX g a /\ (IL2 nodes g a tr \/ exhausted tr).

(** ** open operations, observations *)
Definition open_of (s : status SetSpec) : option set_op :=
  match s with
  | Pending o => Some o
  | Linearized o r => if MI.is_read o r then Some o else None
  | Idle => None
  end.

Lemma open_of_read s o : open_of s = Some o <-> MF.open_read s o.
Proof.
  unfold MF.open_read. destruct s as [|o'|o' r]; cbn [open_of].
  - split; [discriminate|intros [H|(r & H & _)]; discriminate].
  - split; [intros E; inversion E; now left|intros [H|(r & H & _)]; [inversion H; reflexivity|discriminate]].
  - destruct (MI.is_read o' r) eqn:E.
    + split; [intros X; inversion X; subst; right; eauto|intros [H|(r' & H & _)]; [discriminate|inversion H; reflexivity]].
    + split; [discriminate|intros [H|(r' & H & Hr)]; [discriminate|inversion H; subst; congruence]].
Qed.

Lemma open_read_fun s o o' : MF.open_read s o -> MF.open_read s o' -> o = o'.
Proof. intros H H'. apply open_of_read in H, H'. congruence. Qed.

(** the status after an observation "key present" ([b = true]) / "absent" *)
Definition ostat (o : set_op) (b : bool) : status SetSpec :=
  match MF.obs_res o b with Some r => @Linearized SetSpec o r | None => @Pending SetSpec o end.
Definition wat (o : set_op) (b : bool) (d : ptr) : option ptr :=
  match o with SErase _ => if b then Some d else None | _ => None end.

Lemma ostat_open o b : MF.open_read (ostat o b) o.
Proof.
  unfold ostat. destruct (MF.obs_res o b) as [r|] eqn:E; [right; exists r; split; [reflexivity|eapply MF.obs_res_read; eauto]|now left].
Qed.

Definition set_watch (x : ext) (w : option ptr) : ext := mkX w (xhl x) (xfzu x) (xhe x) (xoh x).
Definition set_st2 (lv : lview2) (s : status SetSpec) (w : option ptr) : lview2 := (set_st (fst lv) s, set_watch (snd lv) w).

Definition observe (key : Z) (b : bool) (d : ptr) (lv : lview2) : lview2 :=
  match open_of (vst (fst lv)) with
  | Some o => if MF.op_key o =? key then set_st2 lv (ostat o b) (wat o b d) else lv
  | None => lv
  end.

(** [seen key b d lv]: if the operation of the view is open and has key [key], its status is that of the observation *)
Definition seen (key : Z) (b : bool) (d : ptr) (lv : lview2) : Prop :=
  forall o, MF.open_read (vst (fst lv)) o -> MF.op_key o = key -> vst (fst lv) = ostat o b /\ xwatch (snd lv) = wat o b d.

Lemma seen_observe key b d lv : seen key b d (observe key b d lv).
Proof.
  unfold observe. destruct (open_of (vst (fst lv))) as [o0|] eqn:E.
  - destruct (Z.eqb_spec (MF.op_key o0) key) as [Ek|Nk].
    + intros o Ho Hk. cbn [set_st2 fst snd set_st vst set_watch xwatch] in *.
      assert (o = o0) by (eapply open_read_fun; [exact Ho|apply ostat_open]). subst o0. auto.
    + intros o Ho Hk. apply open_of_read in Ho. congruence.
  - intros o Ho _. apply open_of_read in Ho. congruence.
Qed.

(** status evolution by observations: an open operation stays open, anything else is untouched *)
Definition sev (s s' : status SetSpec) : Prop := s' = s \/ exists o, MF.open_read s o /\ MF.open_read s' o.

Lemma sev_refl s : sev s s. Proof. now left. Qed.
Lemma sev_trans a b c : sev a b -> sev b c -> sev a c.
Proof.
  intros [->|(o & H1 & H2)] [->|(o' & H3 & H4)]; [now left|right; eauto|right; eauto|].
  right. exists o. split; [exact H1|]. now rewrite (open_read_fun _ _ _ H2 H3).
Qed.
Lemma sev_open s s' o : sev s s' -> MF.open_read s o -> MF.open_read s' o.
Proof. intros [->|(o' & H1 & H2)] H; [exact H|]. now rewrite (open_read_fun _ _ _ H H1). Qed.
Lemma sev_closed s s' : sev s s' -> open_of s = None -> s' = s.
Proof. intros [->|(o & H1 & _)] H; [reflexivity|]. apply open_of_read in H1. congruence. Qed.
Lemma sev_observe key b d lv : sev (vst (fst lv)) (vst (fst (observe key b d lv))).
Proof.
  unfold observe. destruct (open_of (vst (fst lv))) as [o|] eqn:E; [|now left].
  destruct (MF.op_key o =? key); [|now left]. right. exists o. split; [now apply open_of_read|apply ostat_open].
Qed.

(** ** the level-0 chain is strictly sorted: nothing with key [key] between a node below [key] and a successor above *)
Lemma walk_absent g key : I g -> forall L p0, (p0 = head \/ isnode p0) -> walk g p0 L ->
  forall p, In p (p0 :: L) -> below key p -> (fst (nxt g p 0) = null \/ key < key_of (fst (nxt g p 0))) ->
  forall n, In n L -> key_of n <> key.
Proof.
  intros Hi. induction L as [|m r IH]; intros p0 Hp0 Hw p Hin Hb Hnx n Hn; [destruct Hn|].
  pose proof (walk_sorted g Hi (m :: r) p0 Hp0 Hw) as [F S].
  cbn [walk] in Hw. destruct Hw as (E & Nm & Hw).
  assert (Hm : isnode m) by (inversion F as [|? ? (H & _) _]; exact H).
  cbn [map strictly_inc] in S. destruct S as [Sm Sr]. rewrite Forall_map, Forall_forall in Sm.
  destruct Hin as [<-|Hin].
  - rewrite E in Hnx. destruct Hnx as [X|X]; [congruence|].
    destruct Hn as [<-|Hn]; [lia|]. specialize (Sm _ Hn). cbn in Sm. lia.
  - assert (Km : key_of m < key).
    { destruct Hin as [<-|Hin]; [destruct Hb as [X|(_ & X)]; [unfold isnode, head in *; lia|exact X]|].
      specialize (Sm _ Hin). cbn in Sm. destruct Hb as [X|(_ & X)]; [|lia].
      subst p. destruct (walk_notin g r m Hi (or_intror Hm) Hw) as (_ & H2 & _). contradiction. }
    destruct Hn as [<-|Hn]; [lia|]. eapply (IH m (or_intror Hm) Hw p Hin Hb Hnx); eauto.
Qed.

Lemma absent_obs g a key p S :
  IS g a -> abs g (aL a) S -> (p = head \/ apub a p = true) -> snd (nxt g p 0) = false -> below key p ->
  (fst (nxt g p 0) = null \/ key < key_of (fst (nxt g p 0))) -> zmem key S = false.
Proof.
  intros Hs Ha Hp Hm Hb Hnx. destruct (zmem key S) eqn:E; [|reflexivity]. exfalso.
  apply Ha in E. destruct E as (n & Hn & _ & Hk).
  eapply (walk_absent g key (s_I _ _ Hs) (aL a) head (or_introl eq_refl) (s_walk _ _ Hs) p); eauto.
  eapply unmarked_on_chain; eauto.
Qed.

Lemma present_obs g a c S :
  IS g a -> abs g (aL a) S -> apub a c = true -> snd (nxt g c 0) = false -> zmem (key_of c) S = true.
Proof. intros Hs Ha Hp Hm. apply Ha. exists c. split; [now apply (s_inL _ _ Hs)|auto]. Qed.

(** ** stability of the extended views *)
Lemma x_ok_mono g g' pub pub' u lv :
  x_ok g pub u lv -> (forall n, pub n = true -> pub' n = true) ->
  (forall q, pub q = true \/ owner_of q = u -> hgt_of g' q = hgt_of g q) ->
  (forall c l, pub c = true -> (1 <= l)%nat -> snd (nxt g c l) = true -> snd (nxt g' c l) = true) ->
  x_ok g' pub' u lv.
Proof.
  intros (W & Hl & Fz & He & Oh) Hp Hh Hm. split; [|split; [|split; [|split]]].
  - intros d Hd. destruct (W d Hd). auto.
  - eapply Forall_impl; [|exact Hl]. intros [q l] (H1 & H2). cbn [fst snd] in *. split; [auto|]. rewrite Hh; auto.
  - eapply Forall_impl; [|exact Fz]. intros [c l] (H1 & H2 & H3). cbn [fst snd] in *. auto.
  - eapply Forall_impl; [|exact He]. intros [q h] (H1 & H2). cbn [fst snd] in *. split; [auto|]. rewrite Hh; auto.
  - intros n h E. destruct (Oh n h E) as (O1 & O2 & O3 & O4). repeat split; auto; [rewrite Hh; auto|].
    destruct O4 as [O4|O4]; auto.
Qed.

Lemma x_ok_ext g g' pub u lv : nxt g' = nxt g -> hgt_of g' = hgt_of g -> x_ok g pub u lv -> x_ok g' pub u lv.
Proof. intros E1 E2 H. eapply x_ok_mono; eauto; intros; rewrite ?E1, ?E2; auto. Qed.

(** a step that changes neither links nor heights *)
Lemma EX_view g g' a t lv' atr' wl' :
  EX g a -> nxt g' = nxt g -> hgt_of g' = hgt_of g -> hgt g' = hgt g ->
  x_ok g' (apub (b_base a)) t lv' -> (xwatch (snd lv') <> None -> In t wl') -> incl (b_wl a) wl' ->
  EX g' (mk_a2 a t (apub (b_base a)) (aL (b_base a)) lv' atr' wl').
Proof.
  intros [h1 h2 h3 h4 h5 h6] E1 E2 E3 Hv Hw Hi. constructor; cbn [b_base b_x b_wl mk_a2 apub mk_a].
  - intros p l. rewrite E1, E2. apply h1.
  - intros n l. rewrite E1, E2. apply h2.
  - now rewrite E3.
  - intros p. rewrite E2. apply h4.
  - intros u. destruct (Nat.eq_dec u t) as [->|Nu]; [now rewrite view2_mk_same|].
    rewrite view2_mk_other by exact Nu. eapply x_ok_ext; eauto.
  - intros u. destruct (Nat.eqb_spec u t) as [->|Nu]; [exact Hw|]. intros H. apply Hi. now apply h6.
Qed.

(** one cell changes (a successful CAS, or a store into an own node) *)
Lemma EX_cell g a t p l x pub' L' lv' atr' wl' :
  EX g a ->
  (forall n, apub (b_base a) n = true -> pub' n = true) ->
  (forall n, pub' n = true -> apub (b_base a) n = false -> snd (nxt (setnx g p l x) n 0) = false) ->
  (fst x = null \/ (l < hgt_of g (fst x))%nat) ->
  ((1 <= l)%nat -> snd x = false -> snd (nxt g p l) = false \/ pub' p = false) ->
  (l = 0%nat -> snd x = true -> pub' p = true -> forall l', (1 <= l' < hgt_of g p)%nat -> snd (nxt g p l') = true) ->
  x_ok (setnx g p l x) pub' t lv' -> (xwatch (snd lv') <> None -> In t wl') -> incl (b_wl a) wl' ->
  EX (setnx g p l x) (mk_a2 a t pub' L' lv' atr' wl').
Proof.
  intros [h1 h2 h3 h4 h5 h6] Hp Hnew Hx1 Hup H0 Hv Hw Hi. constructor; cbn [b_base b_x b_wl mk_a2 apub mk_a].
  - intros p' l'. change (hgt_of (setnx g p l x)) with (hgt_of g).
    destruct (Nat.eq_dec p' p) as [->|Np]; [destruct (Nat.eq_dec l' l) as [->|Nl]|].
    + now rewrite setnx_same.
    + rewrite setnx_other by congruence. apply h1.
    + rewrite setnx_other by congruence. apply h1.
  - intros n l' Hn Hm Hl. change (hgt_of (setnx g p l x)) with (hgt_of g) in Hl.
    destruct (apub (b_base a) n) eqn:Ea; [|rewrite (Hnew n Hn Ea) in Hm; discriminate].
    assert (Hm0 : snd (nxt g n 0) = true \/ (n = p /\ l = 0%nat /\ snd x = true)).
    { destruct (Nat.eq_dec n p) as [->|Np]; [destruct (Nat.eq_dec l 0) as [->|Nl]|].
      - rewrite setnx_same in Hm. right. auto.
      - rewrite setnx_up in Hm by exact Nl. now left.
      - rewrite setnx_other in Hm by congruence. now left. }
    destruct Hm0 as [Hm0|(-> & -> & Hsx)].
    + pose proof (h2 n l' Ea Hm0 Hl) as Hu.
      destruct (Nat.eq_dec n p) as [->|Np]; [destruct (Nat.eq_dec l' l) as [->|Nl]|].
      * rewrite setnx_same. destruct (snd x) eqn:Ex; [reflexivity|].
        destruct (Hup ltac:(lia) eq_refl) as [X|X]; congruence.
      * rewrite setnx_other by congruence. exact Hu.
      * rewrite setnx_other by congruence. exact Hu.
    + rewrite setnx_other by (intros X; inversion X; lia). apply (H0 eq_refl Hsx Hn l' Hl).
  - exact h3.
  - exact h4.
  - intros u. destruct (Nat.eq_dec u t) as [->|Nu]; [now rewrite view2_mk_same|].
    rewrite view2_mk_other by exact Nu. eapply x_ok_mono; [apply h5|exact Hp|reflexivity|].
    intros c l' Hc Hl' Hm. destruct (Nat.eq_dec c p) as [->|Np]; [destruct (Nat.eq_dec l' l) as [->|Nl]|].
    + rewrite setnx_same. destruct (snd x) eqn:Ex; [reflexivity|]. destruct (Hup Hl' eq_refl) as [X|X]; [congruence|].
      rewrite (Hp _ Hc) in X. discriminate.
    + rewrite setnx_other by congruence. exact Hm.
    + rewrite setnx_other by congruence. exact Hm.
  - intros u. destruct (Nat.eqb_spec u t) as [->|Nu]; [exact Hw|]. intros H. apply Hi. now apply h6.
Qed.

(** the height of an own, not yet published node is (re)written *)
Lemma EX_stunl g a t p n h lv' atr' wl' :
  IS g (b_base a) -> EX g a -> apub (b_base a) p = false -> owner_of p = t -> (1 <= h)%nat ->
  let g' := mkG (nxt g) (upd1 (unl g) p n) (upd1 (hgt_of g) p h) (hgt g) (cnt g) in
  x_ok g' (apub (b_base a)) t lv' -> (xwatch (snd lv') <> None -> In t wl') -> incl (b_wl a) wl' ->
  EX g' (mk_a2 a t (apub (b_base a)) (aL (b_base a)) lv' atr' wl').
Proof.
  intros Hs [h1 h2 h3 h4 h5 h6] Hp Ho Hh g' Hv Hw Hi.
  assert (Hoth : forall q, q <> p -> hgt_of g' q = hgt_of g q).
  { intros q Nq. unfold g'. cbn [hgt_of]. unfold upd1. destruct (Nat.eqb_spec q p); congruence. }
  constructor; cbn [b_base b_x b_wl mk_a2 apub mk_a].
  - intros p' l. change (nxt g') with (nxt g). destruct (s_closed _ _ Hs p' l) as [X|X]; [now left|].
    destruct (h1 p' l) as [E|E]; [now left|right]. rewrite Hoth; [exact E|]. intros Y. rewrite Y in X. congruence.
  - intros q l Hq Hm Hl. change (nxt g') with (nxt g) in *. rewrite Hoth in Hl by congruence. now apply h2.
  - exact h3.
  - intros q. unfold g'. cbn [hgt_of]. unfold upd1. destruct (Nat.eqb q p); [exact Hh|apply h4].
  - intros u. destruct (Nat.eq_dec u t) as [->|Nu]; [now rewrite view2_mk_same|].
    rewrite view2_mk_other by exact Nu. eapply x_ok_mono; [apply h5|auto| |auto].
    intros q [Hq|Hq]; apply Hoth; congruence.
  - intros u. destruct (Nat.eqb_spec u t) as [->|Nu]; [exact Hw|]. intros H. apply Hi. now apply h6.
Qed.

(** ** the annotated trace *)
Lemma stof_open g pub t lv o : x_ok g pub t lv -> MF.open_read (vst (fst lv)) o -> MF.open_read (stof g lv) o.
Proof.
  intros (W & _) Ho. unfold stof. destruct (xwatch (snd lv)) as [d|] eqn:E; [|exact Ho].
  destruct (snd (nxt g d 0)); [|exact Ho]. destruct (W d eq_refl) as [_ Hd].
  rewrite (open_read_fun _ _ _ Ho Hd). right. exists (RBool false). split; reflexivity.
Qed.

Lemma stof_other g g' (a : aux2) u :
  EX g a -> (forall n, apub (b_base a) n = true -> snd (nxt g' n 0) = snd (nxt g n 0)) ->
  stof g' (view2 a u) = stof g (view2 a u).
Proof.
  intros He Hm. unfold stof. destruct (xwatch (snd (view2 a u))) as [d|] eqn:E; [|reflexivity].
  destruct (e_x _ _ He u) as (W & _). destruct (W d E) as [Hd _]. now rewrite (Hm d Hd).
Qed.

Section WithNodes.
Variable nodes : list (nat * nat).

(** an access that is not a linearization point and leaves the status of the thread alone *)
Lemma IL2_keep g g' a t pub' L' lv' wl' tr kd ob ok :
  IL2 nodes g a tr -> EX g a -> stof g' lv' = stof g (view2 a t) ->
  (forall n, apub (b_base a) n = true -> snd (nxt g' n 0) = snd (nxt g n 0)) ->
  (forall S, abs g (aL (b_base a)) S -> abs g' L' S) ->
  IL2 nodes g' (mk_a2 a t pub' L' lv' (aatr (b_base a)) wl') (tr ++ Conc.tag t [EvAcc kd ob ok]).
Proof.
  intros [(S & st & H1 & H2 & H3) H4 H5] He Hst Hm Ha. constructor; cbn [b_base mk_a2 aatr aL mk_a].
  - exists S, st. split; [exact H1|]. split; [|now apply Ha].
    intros u. destruct (Nat.eq_dec u t) as [->|Nu]; [rewrite view2_mk_same, Hst; apply H2|].
    rewrite view2_mk_other by exact Nu. rewrite H2. symmetry. now apply stof_other.
  - now rewrite client_history_acc.
  - now apply noext_snoc_acc.
Qed.

(** an observation by a load: the operation of the thread is (re-)linearized at this instant *)
Lemma IL2_obs g a t lv' wl' tr kd ob ok o b :
  IL2 nodes g a tr -> EX g a -> MF.open_read (vst (fst (view2 a t))) o ->
  (forall S, abs g (aL (b_base a)) S -> zmem (MF.op_key o) S = b) ->
  stof g lv' = ostat o b ->
  exists atr', IL2 nodes g (mk_a2 a t (apub (b_base a)) (aL (b_base a)) lv' atr' wl') (tr ++ Conc.tag t [EvAcc kd ob ok]).
Proof.
  intros [(S & st & H1 & H2 & H3) H4 H5] He Ho Hz Hst.
  assert (Hop : MF.open_read (st t) o) by (rewrite H2; eapply stof_open; [apply (e_x _ _ He)|exact Ho]).
  destruct (MF.to_pending _ _ _ _ _ H1 Hop) as (atr0 & st0 & K1 & K2 & K3 & K4).
  assert (Hoth : forall st1, (forall u, u <> t -> st1 u = st0 u) -> st1 t = stof g lv' ->
            forall u, st1 u = stof g (view2 (mk_a2 a t (apub (b_base a)) (aL (b_base a)) lv' atr0 wl') u)).
  { intros st1 E1 E2 u. destruct (Nat.eq_dec u t) as [->|Nu].
    - unfold view2, mk_a2. cbn [b_base b_x]. rewrite view_mk_same, Nat.eqb_refl. now destruct lv'.
    - unfold view2, mk_a2. cbn [b_base b_x]. rewrite view_mk_other by exact Nu.
      destruct (Nat.eqb_spec u t); [contradiction|]. rewrite E1, K3 by exact Nu. apply H2. }
  unfold ostat in Hst. destruct (MF.obs_res o b) as [r|] eqn:Er.
  - exists (atr0 ++ [ALin t]). constructor; cbn [b_base mk_a2 aatr aL mk_a].
    + pose proof (MF.obs_res_step o b r S Er (Hz S H3)) as Hstep.
      exists S, (upd st0 t (@Linearized SetSpec o r)). split; [|split; [|exact H3]].
      * rewrite (MI.lp_run_snoc _ _ _ K1). cbn [lp_step]. rewrite K2.
        change (sstep SetSpec S o) with (set_step S o). rewrite Hstep. reflexivity.
      * intros u. unfold view2, mk_a2. cbn [b_base b_x]. destruct (Nat.eq_dec u t) as [->|Nu].
        -- rewrite view_mk_same, Nat.eqb_refl, upd_same. destruct lv'; cbn [fst snd] in *. now rewrite Hst.
        -- rewrite view_mk_other by exact Nu. destruct (Nat.eqb_spec u t); [contradiction|].
           rewrite upd_other by exact Nu. rewrite K3 by exact Nu. apply H2.
    + rewrite client_history_acc by exact H5. rewrite erase_app. cbn [erase]. rewrite app_nil_r. congruence.
    + now apply noext_snoc_acc.
  - exists atr0. constructor; cbn [b_base mk_a2 aatr aL mk_a].
    + exists S, st0. split; [exact K1|]. split; [|exact H3].
      intros u. unfold view2, mk_a2. cbn [b_base b_x]. destruct (Nat.eq_dec u t) as [->|Nu].
      * rewrite view_mk_same, Nat.eqb_refl. destruct lv'; cbn [fst snd] in *. now rewrite Hst.
      * rewrite view_mk_other by exact Nu. destruct (Nat.eqb_spec u t); [contradiction|]. rewrite K3 by exact Nu. apply H2.
    + rewrite client_history_acc by exact H5. congruence.
    + now apply noext_snoc_acc.
Qed.

(** a linearization point that changes the abstract set, the marks of published nodes stay *)
Lemma IL2_lp g g' a t pub' L' lv' wl' tr kd ob ok o :
  IL2 nodes g a tr -> EX g a -> MF.open_read (vst (fst (view2 a t))) o ->
  (forall n, apub (b_base a) n = true -> snd (nxt g' n 0) = snd (nxt g n 0)) ->
  (forall S, abs g (aL (b_base a)) S -> abs g' L' (fst (set_step S o)) /\ stof g' lv' = @Linearized SetSpec o (snd (set_step S o))) ->
  exists atr', IL2 nodes g' (mk_a2 a t pub' L' lv' atr' wl') (tr ++ Conc.tag t [EvAcc kd ob ok]).
Proof.
  intros [(S & st & H1 & H2 & H3) H4 H5] He Ho Hm Ha. destruct (Ha S H3) as [Ha1 Ha2].
  assert (Hop : MF.open_read (st t) o) by (rewrite H2; eapply stof_open; [apply (e_x _ _ He)|exact Ho]).
  destruct (MF.to_pending _ _ _ _ _ H1 Hop) as (atr0 & st0 & K1 & K2 & K3 & K4).
  exists (atr0 ++ [ALin t]). constructor; cbn [b_base mk_a2 aatr aL mk_a].
  - exists (fst (set_step S o)), (upd st0 t (@Linearized SetSpec o (snd (set_step S o)))). split; [|split; [|exact Ha1]].
    + rewrite (MI.lp_run_snoc _ _ _ K1). cbn [lp_step]. rewrite K2. reflexivity.
    + intros u. destruct (Nat.eq_dec u t) as [->|Nu]; [rewrite view2_mk_same, upd_same; congruence|].
      rewrite view2_mk_other by exact Nu. rewrite upd_other by exact Nu. rewrite K3 by exact Nu. rewrite H2.
      symmetry. now apply stof_other.
  - rewrite client_history_acc by exact H5. rewrite erase_app. cbn [erase]. rewrite app_nil_r. congruence.
  - now apply noext_snoc_acc.
Qed.

(** re-linearize a list of pending erase(k) as "false" at an instant at which k is absent *)
Lemma relin_all (k : Z) (pw : nat -> bool) : forall (ws : list nat) (atr : list (aev SetSpec)) S st,
  lp_run lp_init atr = Some (S, st) -> zmem k S = false ->
  (forall u, pw u = true -> MF.open_read (st u) (SErase k)) ->
  exists atr' st', lp_run lp_init atr' = Some (S, st') /\ erase atr' = erase atr /\
    (forall u, In u ws -> pw u = true -> st' u = @Linearized SetSpec (SErase k) (RBool false)) /\
    (forall u, (~ In u ws \/ pw u = false) -> st' u = st u) /\
    (forall u, pw u = true -> MF.open_read (st' u) (SErase k)).
Proof.
  induction ws as [|w ws IH]; intros atr S st Hr Hz Hp.
  - exists atr, st. repeat split; auto. intros u [].
  - destruct (IH atr S st Hr Hz Hp) as (atr1 & st1 & R1 & R2 & R3 & R4 & R5).
    destruct (pw w) eqn:Ew.
    + destruct (MF.to_pending _ _ _ _ _ R1 (R5 w Ew)) as (atr0 & st0 & K1 & K2 & K3 & K4).
      assert (Hstep : set_step S (SErase k) = (S, RBool false)) by (cbn [set_step]; now rewrite Hz).
      exists (atr0 ++ [ALin w]), (upd st0 w (@Linearized SetSpec (SErase k) (RBool false))). split; [|split; [|split; [|split]]].
      * rewrite (MI.lp_run_snoc _ _ _ K1). cbn [lp_step]. rewrite K2.
        change (sstep SetSpec S (SErase k)) with (set_step S (SErase k)). rewrite Hstep. reflexivity.
      * rewrite erase_app. cbn [erase]. rewrite app_nil_r. congruence.
      * intros u Hin Hu. destruct (Nat.eq_dec u w) as [->|Nu]; [apply upd_same|].
        rewrite upd_other by exact Nu. rewrite K3 by exact Nu. destruct Hin as [X|Hin]; [congruence|]. now apply R3.
      * intros u Hu. destruct (Nat.eq_dec u w) as [->|Nu].
        -- destruct Hu as [Hu|Hu]; [exfalso; apply Hu; now left|congruence].
        -- rewrite upd_other by exact Nu. rewrite K3 by exact Nu. apply R4. destruct Hu as [Hu|Hu]; [left; intros X; apply Hu; now right|now right].
      * intros u Hu. destruct (Nat.eq_dec u w) as [->|Nu].
        -- rewrite upd_same. right. exists (RBool false). split; reflexivity.
        -- rewrite upd_other by exact Nu. rewrite K3 by exact Nu. now apply R5.
    + exists atr1, st1. split; [exact R1|]. split; [exact R2|]. split; [|split; [|exact R5]].
      * intros u [<-|Hin] Hu; [congruence|now apply R3].
      * intros u Hu. destruct (Nat.eq_dec u w) as [->|Nu]; [apply R4; now right|].
        apply R4. destruct Hu as [Hu|Hu]; [left; intros X; apply Hu; now right|now right].
Qed.

Definition watches (a : aux2) (t : nat) (d : ptr) (u : nat) : bool :=
  negb (Nat.eqb u t) && match xwatch (b_x a u) with Some d' => Nat.eqb d' d | None => false end.

(** the level-0 mark CAS of erase: linearization point of the marking thread, and of every failed erase that watches
    the node *)
Lemma IL2_mark g a t del q lv' wl' tr kd ob ok :
  IS g (b_base a) -> IL2 nodes g a tr -> EX g a -> MF.open_read (vst (fst (view2 a t))) (SErase (key_of del)) ->
  In del (aL (b_base a)) -> nxt g del 0 = (q, false) ->
  xwatch (snd lv') = None -> vst (fst lv') = @Linearized SetSpec (SErase (key_of del)) (RBool true) ->
  exists atr', IL2 nodes (setnx g del 0 (q, true)) (mk_a2 a t (apub (b_base a)) (aL (b_base a)) lv' atr' wl')
                 (tr ++ Conc.tag t [EvAcc kd ob ok]).
Proof.
  intros Hs [(S & st & H1 & H2 & H3) H4 H5] He Ho Hin Hc Hw' Hst'.
  set (k := key_of del). set (g' := setnx g del 0 (q, true)).
  destruct (abs_mark g (b_base a) S del q Hs H3 Hin Hc) as [A1 A2].
  assert (Hop : MF.open_read (st t) (SErase k)) by (rewrite H2; eapply stof_open; [apply (e_x _ _ He)|exact Ho]).
  destruct (MF.to_pending _ _ _ _ _ H1 Hop) as (atr0 & st0 & K1 & K2 & K3 & K4).
  assert (Hstep : set_step S (SErase k) = (zdel k S, RBool true)) by (cbn [set_step]; unfold k; now rewrite A2).
  set (st1 := upd st0 t (@Linearized SetSpec (SErase k) (RBool true))).
  assert (R1 : lp_run lp_init (atr0 ++ [ALin t]) = Some (zdel k S, st1)).
  { rewrite (MI.lp_run_snoc _ _ _ K1). cbn [lp_step]. rewrite K2.
    change (sstep SetSpec S (SErase k)) with (set_step S (SErase k)). rewrite Hstep. reflexivity. }
  assert (Hz : zmem k (zdel k S) = false).
  { destruct (zmem k (zdel k S)) eqn:E; [|reflexivity]. apply zmem_zdel in E. destruct E; congruence. }
  assert (Hwat : forall u, watches a t del u = true -> u <> t /\ xwatch (b_x a u) = Some del).
  { intros u Hu. unfold watches in Hu. apply andb_true_iff in Hu. destruct Hu as [U1 U2].
    apply negb_true_iff, Nat.eqb_neq in U1. split; [exact U1|]. destruct (xwatch (b_x a u)) as [d'|]; [|discriminate].
    apply Nat.eqb_eq in U2. now subst. }
  destruct (relin_all k (watches a t del) (b_wl a) (atr0 ++ [ALin t]) (zdel k S) st1 R1 Hz) as (atr' & st' & Q1 & Q2 & Q3 & Q4 & _).
  { intros u Hu. destruct (Hwat u Hu) as [Nu Wu]. unfold st1. rewrite upd_other by exact Nu. rewrite K3 by exact Nu.
    rewrite H2. unfold stof, view2. cbn [snd fst]. rewrite Wu, Hc. cbn [snd].
    destruct (e_x _ _ He u) as (W & _). destruct (W del Wu) as [_ X]. exact X. }
  exists atr'. constructor; cbn [b_base mk_a2 aatr aL mk_a].
  - exists (zdel k S), st'. split; [exact Q1|]. split; [|exact A1].
    intros u. destruct (Nat.eq_dec u t) as [->|Nu].
    + rewrite view2_mk_same. rewrite Q4 by (right; unfold watches; now rewrite Nat.eqb_refl).
      unfold st1. rewrite upd_same. unfold stof. now rewrite Hw', Hst'.
    + rewrite view2_mk_other by exact Nu. destruct (watches a t del u) eqn:Ew.
      * destruct (Hwat u Ew) as [_ Wu]. rewrite Q3; [|apply (e_wl _ _ He); congruence|exact Ew].
        unfold stof, view2. cbn [snd fst]. rewrite Wu. unfold g'. now rewrite setnx_same.
      * rewrite Q4 by now right. unfold st1. rewrite upd_other by exact Nu. rewrite K3 by exact Nu. rewrite H2.
        unfold stof, view2. cbn [snd fst]. destruct (xwatch (b_x a u)) as [d'|] eqn:Wu; [|reflexivity].
        unfold g'. rewrite setnx_other0; [reflexivity|]. intros ->.
        unfold watches in Ew. rewrite Wu, Nat.eqb_refl, andb_true_r in Ew. apply negb_false_iff, Nat.eqb_eq in Ew. contradiction.
  - rewrite client_history_acc by exact H5. rewrite Q2, erase_app. cbn [erase]. rewrite app_nil_r. congruence.
  - now apply noext_snoc_acc.
Qed.

End WithNodes.
