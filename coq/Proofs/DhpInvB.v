(** * DhpInvB: the invariant behind the DHP half of C03 over every interleaving.

    Every retired and not yet disposed pointer is in exactly one place: below the cursor of the retired array of
    one thread record (and not yet moved away by a running help_scan), or "in flight" in one thread (announced
    by retire() and not yet pushed; freed by stage 2 and not yet handed to the disposer).  [wh] is the ghost map
    pointer -> place; [rbown] the ghost map retired block -> owner; [rch]/[rw] the chain of blocks and the
    cursor of each record's array.  The invariant has four independent parts: thread records and their owners
    (JO), retired blocks (JK), retired arrays (JR), pointers (JW). *)
From Coq Require Import ZArith NArith List String Bool Lia PeanoNat.
From LV Require Import Base.Conc Base.Events Model.DhpLang Model.Dhp Proofs.DhpBase Proofs.DhpSeq Proofs.DhpSeqThm Proofs.DhpHist.
Import ListNotations.

Inductive rbo := RNone | RFree | RPriv (t : nat) | RRec (r : nat).
Inductive place := LNo | LRec (r : nat) | LFly (t : nat) | LDisp.

Record VB := mkVB {
  vb_own : list nat;                          (* records whose thread_id_ is mine *)
  vb_node : option nat;                       (* node of thread_list_ being visited *)
  vb_new : option (nat * option nat);         (* record created by me, not yet on thread_list_; its next_ *)
  vb_blk : option (nat * bool);               (* a retired block taken from the allocator, not linked; next_ cleared? *)
  vb_limbo : option (option nat * list nat);  (* private chain of retired blocks still to be freed *)
  vb_pend : option nat;                       (* pointer announced by "op 9 p", not yet pushed *)
  vb_freed : list nat;                        (* pointers freed by stage 2, disposer not yet called *)
  vb_full : option nat;                       (* record whose array is full (push returned false), scan pending *)
  vb_move : option (nat * option nat);        (* help_scan: source record, block of it to be moved next *)
  vb_cur : option (nat * nat * nat);          (* move_cells: block, index, remaining count *)
  vb_dead : option nat }.                     (* record whose retired array is being torn down (fini) *)

Definition vb0 : VB := mkVB [] None None None None None [] None None None None.

Record AuxB := mkAuxB {
  bvs : nat -> VB; rbown : nat -> rbo; wh : nat -> place;
  rch : nat -> list nat; rw : nat -> nat; moved : nat -> nat; dead : nat -> bool; tl : list nat }.
Definition viewB (a : AuxB) (t : nat) : VB := bvs a t.

Definition fn {B} (f : nat -> B) (k : nat) (v : B) : nat -> B := fun x => if Nat.eqb x k then v else f x.
Lemma fn_same {B} (f : nat -> B) k v : fn f k v k = v.
Proof. unfold fn. now rewrite Nat.eqb_refl. Qed.
Lemma fn_other {B} (f : nat -> B) k v x : x <> k -> fn f k v x = f x.
Proof. intros H. unfold fn. destruct (Nat.eqb_spec x k); [contradiction|reflexivity]. Qed.

(** the objects handed to retire() / given to the disposer, read off a trace *)
Definition retired_ev (e : ev) : list nat :=
  match e with
  | EvCli name [code; p] => if String.eqb name "op" && Z.eqb code 9 then [Z.to_nat p] else []
  | _ => []
  end.
Definition retired_tr (tr : list (nat * ev)) : list nat := flat_map (fun e => retired_ev (snd e)) tr.
Definition disposed_ev (e : ev) : list nat := match classify e with HDispose p => [p] | _ => [] end.
Definition disposed_tr (tr : list (nat * ev)) : list nat := flat_map (fun e => disposed_ev (snd e)) tr.

Lemma retired_tr_app tr tr' : retired_tr (tr ++ tr') = retired_tr tr ++ retired_tr tr'.
Proof. unfold retired_tr. apply flat_map_app. Qed.
Lemma disposed_tr_app tr tr' : disposed_tr (tr ++ tr') = disposed_tr tr ++ disposed_tr tr'.
Proof. unfold disposed_tr. apply flat_map_app. Qed.

Section InvB.
  Variable c : cfg.
  Notation RB := (c_RB c).

  Fixpoint is_tl (g : G) (o : option nat) (l : list nat) : Prop :=
    match l with
    | [] => o = None
    | r :: l' => o = Some r /\ r < List.length (recs g) /\ is_tl g (r_next (grec g r)) l'
    end.

  (** effective content of the retired array of record r *)
  Definition ec (g : G) (a : AuxB) (r : nat) : list nat := skipn (moved a r) (content g (rch a r) (rw a r)).

  Record JO (g : G) (a : AuxB) : Prop := {
    jo_tl : is_tl g (tlist g) (tl a) /\ NoDup (tl a);
    jo_node : forall t h, vb_node (bvs a t) = Some h -> In h (tl a);
    jo_new : forall t r nx, vb_new (bvs a t) = Some (r, nx) ->
               r < List.length (recs g) /\ ~ In r (tl a) /\ r_next (grec g r) = nx /\
               (r_tid (grec g r) = 0 \/ In r (vb_own (bvs a t)));
    jo_newx : forall t t' r nx nx', vb_new (bvs a t) = Some (r, nx) -> vb_new (bvs a t') = Some (r, nx') -> t = t';
    jo_own : forall t r, In r (vb_own (bvs a t)) -> r < List.length (recs g) /\ r_tid (grec g r) = S t }.

  Record JK (g : G) (a : AuxB) (fr : list nat) : Prop := {
    jk_blen : forall b, List.length (rbs g) <= b -> rbown a b = RNone;
    jk_cells : forall b, b < List.length (rbs g) -> List.length (rb_cells (grb g b)) = RB;
    jk_free : (forall b, In b fr <-> rbown a b = RFree) /\ NoDup fr;
    jk_blk : forall t b fl, vb_blk (bvs a t) = Some (b, fl) ->
               rbown a b = RPriv t /\ (fl = true -> rb_next (grb g b) = None) /\
               (forall o lb, vb_limbo (bvs a t) = Some (o, lb) -> ~ In b lb);
    jk_limbo : forall t o lb, vb_limbo (bvs a t) = Some (o, lb) ->
               is_chain c g o lb /\ NoDup lb /\ forall b, In b lb -> rbown a b = RPriv t }.

  Record JR (g : G) (a : AuxB) : Prop := {
    jr_rec : forall r, r < List.length (recs g) ->
               (rch a r = [] /\ rw a r = 0 /\ moved a r = 0 /\
                (dead a r = true \/ (r_head (grec g r) = None /\ r_cb (grec g r) = None))) \/
               (dead a r = false /\ Rinv c g r (rch a r) (rw a r) /\ (forall b, In b (rch a r) -> rbown a b = RRec r) /\
                moved a r <= rw a r /\
                (rw a r < List.length (rch a r) * RB \/ exists t, vb_full (bvs a t) = Some r));
    jr_mvd : forall r, moved a r <> 0 -> exists t ob, vb_move (bvs a t) = Some (r, ob);
    jr_move : forall t r ob, vb_move (bvs a t) = Some (r, ob) ->
               In r (vb_own (bvs a t)) /\
               forall b, ob = Some b -> vb_cur (bvs a t) = None -> exists j, nth_error (rch a r) j = Some b /\ moved a r = j * RB;
    jr_cur : forall t b i n, vb_cur (bvs a t) = Some (b, i, n) ->
               exists r ob j, vb_move (bvs a t) = Some (r, ob) /\ nth_error (rch a r) j = Some b /\
                           moved a r = j * RB + i /\ i + n <= RB /\ j * RB + i + n <= rw a r /\
                           i + n = (if oeqb (Some b) (r_cb (grec g r)) then r_cc (grec g r) else RB);
    jr_dead : (forall t r, vb_dead (bvs a t) = Some r -> In r (vb_own (bvs a t)) /\ dead a r = true) /\
              (forall r, dead a r = true -> exists t, vb_dead (bvs a t) = Some r);
    jr_full : forall t r, vb_full (bvs a t) = Some r -> In r (vb_own (bvs a t)) /\ rch a r <> [] }.

  Record JW (g : G) (a : AuxB) (ds rt : list nat) : Prop := {
    jw_1 : forall r, r < List.length (recs g) -> NoDup (ec g a r) /\ forall p, In p (ec g a r) -> wh a p = LRec r;
    jw_2 : forall t p, vb_pend (bvs a t) = Some p -> wh a p = LFly t /\ ~ In p (vb_freed (bvs a t));
    jw_3 : forall t, NoDup (vb_freed (bvs a t)) /\ forall p, In p (vb_freed (bvs a t)) -> wh a p = LFly t;
    jw_4 : NoDup ds /\ forall p, In p ds -> wh a p = LDisp;
    jw_5 : forall p, wh a p <> LNo -> In p rt }.

  Record JB (g : G) (a : AuxB) (tr : list (nat * ev)) : Prop := {
    jb_o : JO g a;
    jb_k : JK g a (freeh (hist tr) FRt);
    jb_r : JR g a;
    jb_w : JW g a (disposed_tr tr) (retired_tr tr) }.

  Definition InvB (g : G) (a : AuxB) (tr : list (nat * ev)) : Prop :=
    flbad (hist tr) = false -> NoDup (retired_tr tr) -> JB g a tr.

  (** ** frames: what each part reads *)
  Lemma is_tl_frame g g' : List.length (recs g) <= List.length (recs g') ->
    forall l o, (forall r, In r l -> r_next (grec g' r) = r_next (grec g r)) -> is_tl g o l -> is_tl g' o l.
  Proof.
    intros E. induction l as [|x l IH]; intros o Hn H; cbn in *; auto.
    destruct H as (H0 & H1 & H2). split; auto. split; [lia|]. rewrite Hn by auto. apply IH; auto.
  Qed.

  Lemma JO_frame g g' a a' :
    tlist g' = tlist g -> List.length (recs g') = List.length (recs g) ->
    (forall r, r_tid (grec g' r) = r_tid (grec g r) /\ r_next (grec g' r) = r_next (grec g r)) ->
    (forall t, vb_own (bvs a' t) = vb_own (bvs a t) /\ vb_node (bvs a' t) = vb_node (bvs a t) /\ vb_new (bvs a' t) = vb_new (bvs a t)) ->
    tl a' = tl a -> JO g a -> JO g' a'.
  Proof.
    intros E1 E2 E3 V Et [J1 J2 J3 J4 J5]. constructor.
    - rewrite Et, E1. split; [|apply J1]. apply is_tl_frame with (g := g); [lia| |apply J1]. intros r _. apply E3.
    - intros t h. destruct (V t) as (_ & -> & _). rewrite Et. apply J2.
    - intros t r nx. destruct (V t) as (-> & _ & ->). rewrite Et, E2. destruct (E3 r) as (-> & ->). apply J3.
    - intros t t' r nx nx'. destruct (V t) as (_ & _ & ->). destruct (V t') as (_ & _ & ->). apply J4.
    - intros t r. destruct (V t) as (-> & _ & _). rewrite E2. destruct (E3 r) as (-> & _). apply J5.
  Qed.

  Lemma is_chain_frame g g' : List.length (rbs g) <= List.length (rbs g') ->
    forall l o, (forall b, In b l -> rb_next (grb g' b) = rb_next (grb g b) /\
                                 List.length (rb_cells (grb g' b)) = List.length (rb_cells (grb g b))) ->
    is_chain c g o l -> is_chain c g' o l.
  Proof.
    intros E. induction l as [|x l IH]; intros o Hn H; cbn in *; auto.
    destruct H as (H0 & H1 & H2 & H3). destruct (Hn x (or_introl eq_refl)) as (N1 & N2).
    split; auto. split; [lia|]. split; [lia|]. rewrite N1. apply IH; auto.
  Qed.

  Lemma JK_frame g g' a a' fr :
    List.length (rbs g') = List.length (rbs g) ->
    (forall b, rb_next (grb g' b) = rb_next (grb g b) /\ List.length (rb_cells (grb g' b)) = List.length (rb_cells (grb g b))) ->
    (forall b, rbown a' b = rbown a b) ->
    (forall t, vb_blk (bvs a' t) = vb_blk (bvs a t) /\ vb_limbo (bvs a' t) = vb_limbo (bvs a t)) ->
    JK g a fr -> JK g' a' fr.
  Proof.
    intros E1 E2 E3 V [J1 J2 J3 J4 J5]. constructor.
    - intros b. rewrite E1, E3. apply J1.
    - intros b. rewrite E1. destruct (E2 b) as (_ & ->). apply J2.
    - split; [|apply J3]. intros b. rewrite E3. apply J3.
    - intros t b fl. destruct (V t) as (-> & ->). rewrite E3. destruct (E2 b) as (-> & _). apply J4.
    - intros t o lb. destruct (V t) as (_ & ->). intros H. destruct (J5 t o lb H) as (K1 & K2 & K3).
      split; [|split; auto]. + apply is_chain_frame with (g := g); auto. lia. + intros b. rewrite E3. apply K3.
  Qed.

  Lemma Rinv_frame g g' r chain w :
    List.length (recs g) <= List.length (recs g') -> List.length (rbs g) <= List.length (rbs g') ->
    (r_head (grec g' r) = r_head (grec g r) /\ r_tail (grec g' r) = r_tail (grec g r) /\
     r_cb (grec g' r) = r_cb (grec g r) /\ r_cc (grec g' r) = r_cc (grec g r)) ->
    (forall b, In b chain -> rb_next (grb g' b) = rb_next (grb g b) /\
                                 List.length (rb_cells (grb g' b)) = List.length (rb_cells (grb g b))) ->
    Rinv c g r chain w -> Rinv c g' r chain w.
  Proof.
    intros E1 E2 (F1 & F2 & F3 & F4) Eb [Ir Ich Ind Ine Itl Iw Icur]. constructor; auto; try lia.
    - rewrite F1. apply is_chain_frame with (g := g); auto.
    - rewrite F2. exact Itl.
    - rewrite F3, F4. exact Icur.
  Qed.

  Lemma JR_frame g g' a a' :
    List.length (recs g') = List.length (recs g) -> List.length (rbs g) <= List.length (rbs g') ->
    (forall r, r_head (grec g' r) = r_head (grec g r) /\ r_tail (grec g' r) = r_tail (grec g r) /\
               r_cb (grec g' r) = r_cb (grec g r) /\ r_cc (grec g' r) = r_cc (grec g r)) ->
    (forall b r, b < List.length (rbs g) -> rbown a b = RRec r ->
               rb_next (grb g' b) = rb_next (grb g b) /\ List.length (rb_cells (grb g' b)) = List.length (rb_cells (grb g b))) ->
    (forall b r, rbown a b = RRec r -> rbown a' b = RRec r) ->
    (forall r, rch a' r = rch a r /\ rw a' r = rw a r /\ moved a' r = moved a r /\ dead a' r = dead a r) ->
    (forall t, vb_full (bvs a' t) = vb_full (bvs a t) /\ vb_move (bvs a' t) = vb_move (bvs a t) /\
               vb_cur (bvs a' t) = vb_cur (bvs a t) /\ vb_dead (bvs a' t) = vb_dead (bvs a t)) ->
    (forall t r, In r (vb_own (bvs a t)) ->
                 (exists ob, vb_move (bvs a t) = Some (r, ob)) \/ vb_dead (bvs a t) = Some r \/ vb_full (bvs a t) = Some r ->
                 In r (vb_own (bvs a' t))) ->
    JR g a -> JR g' a'.
  Proof.
    intros E1 E2 E3 E4 E5 E6 V Vo [J1 J2 J3 J4 J5 J6]. constructor.
    - intros r Hr. rewrite E1 in Hr. destruct (E6 r) as (-> & -> & -> & ->). destruct (E3 r) as (F1 & F2 & F3 & F4).
      destruct (J1 r Hr) as [K|(K1 & K2 & K3 & K4 & K5)]; [left; rewrite F1, F3; exact K|right].
      split; auto. split; [apply Rinv_frame with (g := g); auto; try lia|].
      { intros b Hb. apply E4 with (r := r); [|apply K3; exact Hb]. destruct K2 as [_ Ich _ _ _ _ _]. eapply is_chain_lt; eauto. }
      split; [intros b Hb; apply E5; apply K3; exact Hb|]. split; auto.
      destruct K5 as [K5|(t & K5)]; [left; exact K5|right; exists t]. destruct (V t) as (-> & _). exact K5.
    - intros r. destruct (E6 r) as (_ & _ & -> & _). intros H. destruct (J2 r H) as (t & ob & K). exists t, ob. destruct (V t) as (_ & -> & _). exact K.
    - intros t r ob. destruct (V t) as (_ & -> & -> & _). intros H. destruct (J3 t r ob H) as (K1 & K2). split; [apply Vo; eauto|].
      destruct (E6 r) as (-> & _ & -> & _). exact K2.
    - intros t b i n. destruct (V t) as (_ & -> & -> & _). intros H. destruct (J4 t b i n H) as (r & ob & j & K).
      exists r, ob, j. destruct (E6 r) as (-> & -> & -> & _). destruct (E3 r) as (_ & _ & -> & ->). exact K.
    - split.
      + intros t r. destruct (V t) as (_ & _ & _ & ->). destruct (E6 r) as (_ & _ & _ & ->). intros H. destruct (proj1 J5 t r H). split; auto.
      + intros r. destruct (E6 r) as (_ & _ & _ & ->). intros H. destruct (proj2 J5 r H) as (t & K). exists t. destruct (V t) as (_ & _ & _ & ->). exact K.
    - intros t r. destruct (V t) as (-> & _). intros H. destruct (J6 t r H) as (K1 & K2). split; [apply Vo; auto|].
      destruct (E6 r) as (-> & _). exact K2.
  Qed.

  Lemma JW_frame g g' a a' ds rt rt' :
    List.length (recs g') = List.length (recs g) ->
    (forall r, r < List.length (recs g) -> ec g' a' r = ec g a r) ->
    (forall p, wh a' p = wh a p) ->
    (forall t, vb_pend (bvs a' t) = vb_pend (bvs a t) /\ vb_freed (bvs a' t) = vb_freed (bvs a t)) ->
    (forall p, In p rt -> In p rt') ->
    JW g a ds rt -> JW g' a' ds rt'.
  Proof.
    intros E1 E2 E3 V Hrt [J1 J2 J3 J4 J5]. constructor.
    - intros r Hr. rewrite E1 in Hr. rewrite E2 by auto. split; [apply J1; auto|]. intros p. rewrite E3. now apply J1.
    - intros t p. destruct (V t) as (-> & ->). rewrite E3. apply J2.
    - intros t. destruct (V t) as (_ & ->). split; [apply J3|]. intros p. rewrite E3. apply J3.
    - split; [apply J4|]. intros p. rewrite E3. apply J4.
    - intros p. rewrite E3. intros H. apply Hrt. now apply J5.
  Qed.
End InvB.

(** ** what the invariant reads of the shared state *)
Definition piB (g g' : G) : Prop :=
  tlist g' = tlist g /\
  List.length (recs g') = List.length (recs g) /\ List.length (rbs g') = List.length (rbs g) /\
  (forall r, r_tid (grec g' r) = r_tid (grec g r) /\ r_next (grec g' r) = r_next (grec g r) /\
             r_cb (grec g' r) = r_cb (grec g r) /\ r_cc (grec g' r) = r_cc (grec g r) /\
             r_head (grec g' r) = r_head (grec g r) /\ r_tail (grec g' r) = r_tail (grec g r)) /\
  (forall b, rb_next (grb g' b) = rb_next (grb g b) /\ rb_cells (grb g' b) = rb_cells (grb g b)).

Lemma piB_refl g : piB g g.
Proof. unfold piB. repeat split; auto. Qed.
Lemma piB_trans g1 g2 g3 : piB g1 g2 -> piB g2 g3 -> piB g1 g3.
Proof.
  intros (A0&A1&A2&A3&A4) (B0&B1&B2&B3&B4). unfold piB. split; [congruence|]. split; [congruence|]. split; [congruence|]. split.
  - intros r. destruct (A3 r) as (X1&X2&X3&X4&X5&X6), (B3 r) as (Y1&Y2&Y3&Y4&Y5&Y6). repeat split; congruence.
  - intros b. destruct (A4 b) as (X1&X2), (B4 b) as (Y1&Y2). split; congruence.
Qed.

Lemma flat_piB g g' l : piB g g' -> flat g' l = flat g l.
Proof. intros (A0&A1&A2&A3&A4). unfold flat. apply flat_map_ext. intros b. destruct (A4 b) as (_&E). exact E. Qed.

Lemma ec_piB g g' a r : piB g g' -> ec g' a r = ec g a r.
Proof. intros P. unfold ec, content. now rewrite (flat_piB g g' _ P). Qed.

Lemma JB_piB c g g' a tr : piB g g' -> JB c g a tr -> JB c g' a tr.
Proof.
  intros P [JO1 JK1 JR1 JW1]. pose proof P as (A0&A1&A2&A3&A4). constructor.
  - apply JO_frame with (g := g) (a := a); auto. intros r. destruct (A3 r) as (X1&X2&_). auto.
  - apply JK_frame with (g := g) (a := a); auto. intros b. destruct (A4 b) as (X1&X2). rewrite X2. auto.
  - apply JR_frame with (g := g) (a := a); auto.
    all: try lia.
    all: try solve [intros r; destruct (A3 r) as (X1&X2&X3&X4&X5&X6); auto].
    all: try solve [intros b r Hb _; destruct (A4 b) as (X1&X2); rewrite X2; auto].
    all: try solve [intros t; repeat split; reflexivity].
  - apply JW_frame with (g := g) (a := a) (rt := retired_tr tr); auto. intros r _. now apply ec_piB.
Qed.
