(** * DhpConsDThm: smr::destruct( true ) run from a reachable configuration in which no thread record is owned disposes
      exactly the retired and not yet disposed objects (DHP half of C03, "no later than destruction of the singleton").

    [dhp_destroy_disposes_all_detached]: for every configuration [conf] reachable by any sequence of thread choices
    (any number of threads / client programs in which retire() is called by attached threads only / block sizes >= 4,
    every object retired at most once, no retired cell written out of bounds) in which every thread record has
    thread_id_ = null, a complete run of the destructor thread in which no loop runs out of fuel calls the disposer
    for every retired object that was not yet disposed, and for nothing else: the disposer calls before and during
    destruction together are a permutation of the objects handed to retire().

    Proof: the conservation invariant JB of LV.Proofs.DhpConsInv at [conf] ([DhpConsThm.reach_JB]); when no record is
    owned every view owns nothing, so nothing is in flight, no help_scan is moving cells and no array is being torn
    down: every record on thread_list_ has an intact retired array ([Rinv]) or none, blocks of different records are
    different ([rbown]) -- this is [DI] of LV.Proofs.DhpConsDRecs, whose [destruct_spec] computes the disposer calls of
    the destructor as the concatenation of [ec g a r] over thread_list_.  The permutation then is JW (each pointer in
    one place, every place retired) with its converse JC (every retired pointer has a place; place = array of r means
    r is on thread_list_). *)
From Coq Require Import ZArith NArith List String Bool Lia PeanoNat Permutation.
From LV Require Import Base.Conc Base.Events Model.DhpLang Model.Dhp Proofs.DhpBase Proofs.DhpSeq Proofs.DhpSeqThm Proofs.DhpHist
  Proofs.DhpLangProofs Proofs.DhpInvB Proofs.DhpConsInv Proofs.DhpProofsC02 Proofs.DhpProofsC03.
From LV Require Proofs.DhpConsThm Proofs.DhpConsDestroy Proofs.DhpConsDRecs.
Import ListNotations.

Lemma nd_app (l1 l2 : list nat) : NoDup l1 -> NoDup l2 -> (forall x, In x l1 -> ~ In x l2) -> NoDup (l1 ++ l2).
Proof.
  induction l1 as [|x l1 IH]; intros H1 H2 H; cbn; auto. inversion H1 as [|? ? Hx H1']; subst. constructor.
  - intros K. apply in_app_or in K. destruct K as [K|K]; [contradiction|]. apply (H x); [now left|exact K].
  - apply IH; auto. intros y Hy. apply H. now right.
Qed.

Lemma nd_flat_map (f : nat -> list nat) (w : nat -> place) l : NoDup l ->
  (forall r, In r l -> NoDup (f r) /\ forall p, In p (f r) -> w p = LRec r) -> NoDup (flat_map f l).
Proof.
  induction l as [|r l IH]; intros Hn H; cbn; [constructor|]. inversion Hn as [|? ? Hr Hn']; subst.
  apply nd_app; [apply H; now left|apply IH; auto; intros r' Hr'; apply H; now right|].
  intros x Hx K. apply in_flat_map in K. destruct K as (r' & Hr' & Hx').
  pose proof (proj2 (H r (or_introl eq_refl)) x Hx) as E1. pose proof (proj2 (H r' (or_intror Hr')) x Hx') as E2.
  rewrite E1 in E2. inversion E2; subst. contradiction.
Qed.

Lemma is_tl_lt' g : forall l o r, is_tl g o l -> In r l -> r < List.length (recs g).
Proof. induction l as [|x l IH]; intros o r H Hr; cbn in *; [contradiction|]. destruct H as (_ & H1 & H2). destruct Hr as [->|Hr]; eauto. Qed.

Lemma disposed_of_tag t es : disposed_of (Conc.tag t es) = DhpConsDRecs.dispv es.
Proof. unfold disposed_of, Conc.tag, DhpConsDRecs.dispv. induction es as [|e es IH]; cbn [map flat_map]; auto. now rewrite IH. Qed.

Lemma map_snd_tag t (es : list ev) : map snd (Conc.tag t es) = es.
Proof. unfold Conc.tag. rewrite map_map. cbn. apply map_id. Qed.

Section Final.
  Variables (fuel : nat) (c : cfg) (ths : list (list op)) (conf : Conc.config G V ev).
  Hypothesis H4 : 4 <= c_RB c.
  Hypothesis Ho : c_old c = false.
  Hypothesis Ht : c_oldtail c = false.
  Hypothesis Hn : (Z.of_nat (List.length ths) + 3 < 2147483648)%Z.
  Hypothesis Hra : Forall DhpConsThm.retire_attached ths.
  Hypothesis Hr : Conc.reach (init_cfg fuel c ths) conf.
  Hypothesis Hnd : NoDup (flat_map (fun e => DhpProofsC03.retired_ev (snd e)) (Conc.trace conf)).
  Hypothesis Hoob : oob (Conc.shared conf) = false.
  Hypothesis H0 : forall r, r < List.length (recs (Conc.shared conf)) -> r_tid (grec (Conc.shared conf) r) = 0.

  Notation g := (Conc.shared conf).
  Notation tr := (Conc.trace conf).

  Lemma tid0_all : forall r, r_tid (grec g r) = 0.
  Proof.
    intros r. destruct (Nat.lt_ge_cases r (List.length (recs g))) as [L|L]; [now apply H0|].
    unfold grec. now rewrite nth_overflow.
  Qed.

  (** what the invariant says when no record is owned *)
  Lemma detached_state : exists a,
    is_tl g (tlist g) (tl a) /\ NoDup (tl a) /\ DhpConsDRecs.DI c (rch a) (rw a) g (tl a) /\
    (forall r, ec g a r = content g (rch a r) (rw a r)) /\
    Permutation (disposed_of tr ++ flat_map (ec g a) (tl a)) (flat_map (fun e => DhpProofsC03.retired_ev (snd e)) tr).
  Proof.
    destruct (DhpConsThm.reach_JB fuel c ths conf H4 Ho Ht Hn Hra Hr Hnd) as (a & [O1 K1 R1 [W1 W2 W3 W4 W5 W6 W7 W8 W9]]).
    destruct (W7 Hoob) as [C1 C2 C3 C4 C5 C6 C7]. destruct O1 as [(T1 & T2) _ _ _ O5]. destruct R1 as [R1 R2 R3 R4 (R5 & R5') R6].
    exists a.
    assert (Fown : forall t, vb_own (bvs a t) = []).
    { intros t. destruct (vb_own (bvs a t)) as [|r l] eqn:E; auto. exfalso. destruct (O5 t r) as (_ & X); [rewrite E; now left|].
      rewrite tid0_all in X. discriminate. }
    assert (Fmove : forall t, vb_move (bvs a t) = None).
    { intros t. destruct (vb_move (bvs a t)) as [[r ob]|] eqn:E; auto. exfalso. destruct (R3 t r ob E) as (X & _). rewrite Fown in X. contradiction. }
    assert (Ffull : forall t, vb_full (bvs a t) = None).
    { intros t. destruct (vb_full (bvs a t)) as [r|] eqn:E; auto. exfalso. destruct (R6 t r E) as (X & _). rewrite Fown in X. contradiction. }
    assert (Fdead : forall r, dead a r = false).
    { intros r. destruct (dead a r) eqn:E; auto. exfalso. destruct (R5' r E) as (t & X). destruct (R5 t r X) as (Y & _). rewrite Fown in Y. contradiction. }
    assert (Fmoved : forall r, moved a r = 0).
    { intros r. destruct (Nat.eq_dec (moved a r) 0) as [E|N]; auto. exfalso. destruct (R2 r N) as (t & ob & X). rewrite Fmove in X. discriminate. }
    assert (Fec : forall r, ec g a r = content g (rch a r) (rw a r)).
    { intros r. unfold ec. rewrite Fmoved. reflexivity. }
    assert (Frec : forall r, r < List.length (recs g) ->
              (rch a r = [] /\ rw a r = 0 /\ r_head (grec g r) = None /\ r_cb (grec g r) = None) \/
              (Rinv c g r (rch a r) (rw a r) /\ forall b, In b (rch a r) -> rbown a b = RRec r)).
    { intros r Hlt. destruct (R1 r Hlt) as [(E1 & E2 & E3 & [E4|(E4 & E5)])|(E1 & E2 & E3 & _)]; [rewrite Fdead in E4; discriminate|left; auto|right; auto]. }
    split; [exact T1|]. split; [exact T2|]. split; [|split; [exact Fec|]].
    - split.
      + intros r Hin. destruct (Frec r (is_tl_lt' g _ _ _ T1 Hin)) as [E|(I & _)]; [left; exact E|right; exact I].
      + intros r r' b Hin Hin' Hb Hb'.
        destruct (Frec r (is_tl_lt' g _ _ _ T1 Hin)) as [(E & _)|(_ & X)]; [rewrite E in Hb; contradiction|].
        destruct (Frec r' (is_tl_lt' g _ _ _ T1 Hin')) as [(E & _)|(_ & X')]; [rewrite E in Hb'; contradiction|].
        pose proof (X b Hb) as Y. rewrite (X' b Hb') in Y. now inversion Y.
    - apply NoDup_Permutation; [|exact Hnd|].
      + apply nd_app; [apply W4| |].
        * apply nd_flat_map with (w := wh a); [exact T2|]. intros r Hin. apply W1. eapply is_tl_lt'; eauto.
        * intros p Hp K. apply in_flat_map in K. destruct K as (r & Hin & Hp').
          pose proof (proj2 W4 p Hp) as E1. rewrite (proj2 (W1 r (is_tl_lt' g _ _ _ T1 Hin)) p Hp') in E1. discriminate.
      + intros p. split.
        * intros Hp. apply W5. apply in_app_or in Hp. destruct Hp as [Hp|Hp]; [rewrite (proj2 W4 p Hp); discriminate|].
          apply in_flat_map in Hp. destruct Hp as (r & Hin & Hp'). rewrite (proj2 (W1 r (is_tl_lt' g _ _ _ T1 Hin)) p Hp'). discriminate.
        * intros Hp. apply in_or_app. pose proof (C1 p Hp) as Hw. destruct (wh a p) as [|r|t|] eqn:Ew; [congruence| | |].
          -- right. destruct (C2 p r Ew) as (Hlt & Hin). apply in_flat_map. exists r. split; [|exact Hin].
             destruct (C5 r Hlt) as [X|(t & nx & X)]; [exact X|]. exfalso. rewrite Fec, (C6 t r nx X) in Hin.
             unfold content, flat in Hin. cbn in Hin. rewrite firstn_nil in Hin. contradiction.
          -- exfalso. destruct (C3 p t Ew) as (_ & X). apply X. apply Fown.
          -- left. apply (C4 p Ew).
  Qed.

  (** THE THEOREM *)
  Theorem dhp_destroy_disposes_all_detached : forall fuel2 d,
    d = Conc.run fuel2 0 [] (Conc.Cfg g [compile fuel2 (DAct a_begin (fun _ => to_unit (destruct c (S (List.length ths)))))] []) ->
    snd d = true -> ~ In (EvCli "outoffuel" []) (map snd (Conc.trace (fst d))) ->
    Permutation (disposed_of tr ++ disposed_of (Conc.trace (fst d))) (flat_map (fun e => DhpProofsC03.retired_ev (snd e)) tr).
  Proof.
    intros fuel2 d Ed Hd Hno. destruct d as [cf b]. cbn [fst snd] in *. subst b. symmetry in Ed.
    destruct (DhpConsDestroy.run_single fuel2 0 (DAct a_begin (fun _ : unit => to_unit (destruct c (S (List.length ths))))) g [] cf I Ed) as (Etr & _). clear Ed.
    destruct detached_state as (a & T1 & T2 & HD & Fec & HP).
    pose proof (DhpConsDRecs.destruct_spec c H4 (rch a) (rw a) (S (List.length ths)) g tid0_all (tl a) T1 T2 HD) as Sp.
    cbn [DhpConsDestroy.dexec] in Etr. unfold a_begin at 1 in Etr. unfold to_unit in Etr. rewrite DhpConsDestroy.dexec_dbind in Etr.
    destruct (DhpConsDestroy.dexec (destruct c (S (List.length ths))) g) as [[g1 es1] o1]. cbn [DhpConsDestroy.dexec fst snd app] in *.
    rewrite Etr in *. rewrite map_snd_tag in Hno. rewrite disposed_of_tag.
    rewrite app_nil_r in *.
    assert (Hno1 : ~ In DhpConsDestroy.oof es1) by (intros K; apply Hno; right; exact K).
    replace (DhpConsDRecs.dispv (EvAcc KBegin [] true :: es1)) with (DhpConsDRecs.dispv es1) by reflexivity.
    rewrite (Sp Hno1). erewrite flat_map_ext; [exact HP|]. intros r. cbn. now rewrite Fec.
  Qed.
End Final.

(** the same without the hypothesis on the out-of-bounds flag (discharged by [DhpConsThm.dhp_oob_false]) *)
Theorem dhp_destroy_disposes_all_detached_nooob : forall fuel (c : cfg) ths conf,
  4 <= c_RB c -> c_old c = false -> c_oldtail c = false ->
  (Z.of_nat (List.length ths) + 3 < 2147483648)%Z ->
  Forall DhpConsThm.retire_attached ths ->
  Conc.reach (init_cfg fuel c ths) conf ->
  NoDup (flat_map (fun e => DhpProofsC03.retired_ev (snd e)) (Conc.trace conf)) ->
  (forall r, r < List.length (recs (Conc.shared conf)) -> r_tid (grec (Conc.shared conf) r) = 0) ->
  forall fuel2 d, d = Conc.run fuel2 0 [] (Conc.Cfg (Conc.shared conf)
                        [compile fuel2 (DAct a_begin (fun _ => to_unit (destruct c (S (List.length ths)))))] []) ->
  snd d = true -> ~ In (EvCli "outoffuel" []) (map snd (Conc.trace (fst d))) ->
  Permutation (disposed_of (Conc.trace conf) ++ disposed_of (Conc.trace (fst d)))
              (flat_map (fun e => DhpProofsC03.retired_ev (snd e)) (Conc.trace conf)).
Proof.
  intros fuel c ths conf H4 Ho Ht Hn Hra Hr Hnd H0.
  exact (dhp_destroy_disposes_all_detached fuel c ths conf H4 Ho Ht Hn Hra Hr Hnd (DhpConsThm.dhp_oob_false fuel c ths conf H4 Ho Ht Hn Hra Hr Hnd) H0).
Qed.

