(** * Linearizability of the Treiber stack model (LV.Model.Treiber) for every schedule.

    Proof rule: [Conc.safe] / [Conc.reach_Inv] with auxiliary state
      - [stk]  the nodes currently in the stack, top first (the abstract stack is [map val stk]),
      - [atr]  the trace annotated with linearization points (LV.Base.Lin),
      - [ph]   per-thread phase (the view of the owning thread).
    Linearization points: the successful CAS on m_Top (push and non-empty pop); for an empty pop, the
    validating load of Guard::protect that returned null.

    MEMORY SAFETY IS A HYPOTHESIS BUILT INTO THE MODEL: a node is named by (allocating thread, index of
    the push) and is never allocated twice, so "m_Top still equals the pointer I validated" implies "the same
    node, never popped in between" — the [smr_safe] hypothesis of DESIGN 4 (what hazard pointers provide, C01).
    The place where it is used is marked (ABA) below. *)
From Coq Require Import ZArith List String Bool Lia PeanoNat.
From LV Require Import Base.Conc Base.Events Base.Lin Spec.Specs Proofs.LinProofs Model.Treiber.
Import ListNotations.
Local Open Scope Z_scope.
Local Open Scope string_scope.
Local Open Scope list_scope.

(** ** the invoke/response history read off a trace *)
Definition hev_of (t : nat) (e : ev) : history Stack :=
  match e with
  | EvCli name args =>
      if String.eqb name "inv_push" then match args with [v] => [@HInv Stack t (Push v)] | _ => [] end
      else if String.eqb name "ret_push" then
        match args with [b] => [@HRes Stack t (RBool (negb (Z.eqb b 0)))] | _ => [] end
      else if String.eqb name "inv_pop" then [@HInv Stack t Pop]
      else if String.eqb name "ret_pop" then
        match args with [b; v] => [@HRes Stack t (RVal (if Z.eqb b 0 then None else Some v))] | _ => [] end
      else []
  | _ => []
  end.

Definition hist (tr : list (nat * ev)) : history Stack :=
  flat_map (fun te => hev_of (fst te) (snd te)) tr.

Lemma hist_app tr tr' : hist (tr ++ tr') = hist tr ++ hist tr'.
Proof. unfold hist. apply flat_map_app. Qed.

(** ** nodes *)
Lemma node_eqb_spec (a b : node) : node_eqb a b = true <-> a = b.
Proof.
  destruct a as [a1 a2], b as [b1 b2]. unfold node_eqb; cbn. rewrite andb_true_iff, !Nat.eqb_eq.
  split; [intros [-> ->]; reflexivity|intros H; inversion H; auto].
Qed.

Lemma node_eqb_refl a : node_eqb a a = true.
Proof. now apply node_eqb_spec. Qed.

Lemma node_eqb_neq a b : a <> b -> node_eqb a b = false.
Proof. intros H. destruct (node_eqb a b) eqn:E; auto. apply node_eqb_spec in E. contradiction. Qed.

Lemma node_eq_dec (a b : node) : {a = b} + {a <> b}.
Proof. decide equality; apply Nat.eq_dec. Qed.

Lemma ptr_eqb_spec (a b : ptr) : ptr_eqb a b = true <-> a = b.
Proof.
  destruct a as [a|], b as [b|]; cbn; try (split; [discriminate|discriminate]); try tauto.
  rewrite node_eqb_spec. split; [intros ->; reflexivity|intros H; inversion H; auto].
Qed.

Notation SIdle := (@Idle Stack).
Notation SPend o := (@Pending Stack o).
Notation SLin o r := (@Linearized Stack o r).
Notation EInv t o := (@AInv Stack t o).
Notation ELin t := (@ALin Stack t).
Notation ERes t r := (@ARes Stack t r).

(** ** auxiliary state *)
Inductive phase :=
| PIdle (k : nat)                           (* between operations; [k] = index of the next one *)
| PPush (k : nat) (v : Z)                   (* push invoked, node (t,k) not yet initialised *)
| PPushL (k : nat) (v : Z) (p : ptr)        (* node (t,k) private, its next = p and its value = v *)
| PPushed (k : nat) (v : Z)                 (* the CAS succeeded: linearized *)
| PPop (k : nat)                            (* pop invoked, nothing known *)
| PPopH (k : nat) (p : ptr)                 (* the hazard slot holds p *)
| PPopV (k : nat) (n : node)                (* protect returned n: it was the top at the validating load *)
| PPopR (k : nat) (n : node) (nx : ptr)     (* ... and m_pNext of n was read as nx *)
| PPopG (k : nat) (n : node) (v : Z)        (* the CAS succeeded: linearized, n is mine *)
| PPopE (k : nat).                          (* validated null: linearized as empty *)

Definition lim (p : phase) : nat :=
  match p with
  | PIdle k | PPush k _ | PPushL k _ _ | PPop k | PPopH k _ | PPopV k _ | PPopR k _ _ | PPopG k _ _ | PPopE k => k
  | PPushed k _ => S k
  end.

Definition status_of (p : phase) : status Stack :=
  match p with
  | PIdle _ => SIdle
  | PPush _ v | PPushL _ v _ => SPend (Push v)
  | PPushed _ v => SLin (Push v) (RBool true)
  | PPop _ | PPopH _ _ | PPopV _ _ | PPopR _ _ _ => SPend Pop
  | PPopG _ _ v => SLin Pop (RVal (Some v))
  | PPopE _ => SLin Pop (RVal None)
  end.

Record Aux := mkA { stk : list node; atr : list (aev Stack); ph : nat -> phase }.
Definition view (a : Aux) (t : nat) : phase := ph a t.

Definition set_ph (f : nat -> phase) (t : nat) (p : phase) : nat -> phase :=
  fun x => if Nat.eqb x t then p else f x.

Lemma set_ph_same f t p : set_ph f t p t = p.
Proof. unfold set_ph. now rewrite Nat.eqb_refl. Qed.
Lemma set_ph_other f t p u : u <> t -> set_ph f t p u = f u.
Proof. unfold set_ph. intros H. destruct (Nat.eqb_spec u t); congruence. Qed.

(** a node is published once its push was linearized (nodes of thread t below t's allocation limit) *)
Definition published (a : Aux) (n : node) : Prop := (snd n < lim (ph a (fst n)))%nat.

Fixpoint chain (nx : node -> ptr) (p : ptr) (l : list node) : Prop :=
  match l with
  | [] => p = None
  | n :: r => p = Some n /\ chain nx (nx n) r
  end.

Definition phase_ok (g : G) (a : Aux) (t : nat) (p : phase) : Prop :=
  match p with
  | PPushL k v q => next g (t, k) = q /\ val g (t, k) = v
  | PPopH k q => hp g t = q
  | PPopV k n => published a n /\ hp g t = Some n
  | PPopR k n nx => published a n /\ hp g t = Some n /\ (In n (stk a) -> next g n = nx)
  | PPopG k n v => published a n /\ ~ In n (stk a) /\ val g n = v
  | _ => True
  end.

Definition Inv (g : G) (a : Aux) (tr : list (nat * ev)) : Prop :=
  chain (next g) (top g) (stk a) /\
  NoDup (stk a) /\
  (forall n, In n (stk a) -> published a n) /\
  (forall t, phase_ok g a t (ph a t)) /\
  (exists sts, @lp_run Stack lp_init (atr a) = Some (map (val g) (stk a), sts) /\
               forall t, sts t = status_of (ph a t)) /\
  erase (atr a) = hist tr.

Notation safe := (@Conc.safe G V ev Aux phase view Inv).

Definition upd_a (a : Aux) (t : nat) (p : phase) (ae : list (aev Stack)) : Aux :=
  mkA (stk a) (atr a ++ ae) (set_ph (ph a) t p).

Lemma frame_upd_a a t p ae : Conc.frame view t a (upd_a a t p ae).
Proof. intros u H. unfold view, upd_a; cbn. now apply set_ph_other. Qed.

Lemma chain_ext nx nx' p l :
  (forall n, In n l -> nx' n = nx n) -> chain nx p l -> chain nx' p l.
Proof.
  revert p. induction l as [|n r IH]; intros p H C; cbn in *; auto.
  destruct C as [-> C]. split; auto. rewrite H by auto. apply IH; auto.
Qed.

Lemma chain_head nx p l n : chain nx p l -> p = Some n -> exists r, l = n :: r /\ chain nx (nx n) r.
Proof.
  destruct l as [|m r]; cbn; intros C E.
  - congruence.
  - destruct C as [E' C]. assert (m = n) by congruence. subst m. eauto.
Qed.

Lemma chain_nil nx l : chain nx None l -> l = [].
Proof. destruct l; cbn; auto. intros [H _]; discriminate. Qed.

(** ** what a step may touch: [touches g g' t m] — besides m_Top-preserving bookkeeping (the hazard slot and
    retired array of thread t) only the fields of node [m] *)
Definition touches (g g' : G) (t : nat) (m : node) : Prop :=
  top g' = top g /\
  (forall x, x <> m -> next g' x = next g x /\ val g' x = val g x) /\
  (forall u, u <> t -> hp g' u = hp g u).

(** transitions of the linearization-point automaton of thread [t], abstract state unchanged *)
Definition lp_ok (t : nat) (s : list Z) (so sn : status Stack) (ae : list (aev Stack)) : Prop :=
  forall sts, sts t = so ->
    exists sts', @lp_run Stack (s, sts) ae = Some (s, sts') /\ sts' t = sn /\ forall u, u <> t -> sts' u = sts u.

Lemma lp_ok_nil t s so : lp_ok t s so so [].
Proof. intros sts H. exists sts. cbn. auto. Qed.

Lemma lp_ok_inv t s o : lp_ok t s SIdle (SPend o) [EInv t o].
Proof.
  intros sts H. exists (Lin.upd sts t (SPend o)). cbn. rewrite H. repeat split.
  - apply upd_same.
  - intros u Hu. now apply upd_other.
Qed.

Lemma lp_ok_res t s o r : lp_ok t s (SLin o r) SIdle [ERes t r].
Proof.
  intros sts H. exists (Lin.upd sts t SIdle). cbn. rewrite H.
  assert (E : res_beq r r = true) by now apply res_beq_ok. rewrite E. repeat split.
  - apply upd_same.
  - intros u Hu. now apply upd_other.
Qed.

Lemma lp_ok_empty t : lp_ok t [] (SPend Pop) (SLin Pop (RVal None)) [ELin t].
Proof.
  intros sts H. exists (Lin.upd sts t (SLin Pop (RVal None))). cbn. rewrite H. cbn. repeat split.
  - apply upd_same.
  - intros u Hu. now apply upd_other.
Qed.

Lemma published_mono a t p ae n :
  (lim (ph a t) <= lim p)%nat -> published a n -> published (upd_a a t p ae) n.
Proof.
  unfold published, upd_a; cbn. intros L H. destruct (Nat.eq_dec (fst n) t) as [E|E].
  - rewrite E in *. rewrite set_ph_same. lia.
  - now rewrite set_ph_other.
Qed.

(** the other threads' facts survive a step of [t] that touches only node [m], where [m] is either
    private to [t] (not yet published) or a node [t] has popped and that is no longer in the stack *)
Lemma others_ok g g' a t m p' ae :
  touches g g' t m ->
  ((fst m = t /\ snd m = lim (ph a t)) \/ (published a m /\ val g' m = val g m)) ->
  ~ In m (stk a) ->
  (lim (ph a t) <= lim p')%nat ->
  forall u, u <> t -> phase_ok g a u (ph a u) -> phase_ok g' (upd_a a t p' ae) u (ph a u).
Proof.
  intros (Ht & Hn & Hh) Hm Hnin L u Hu H.
  assert (Hpub : forall n, published a n -> published (upd_a a t p' ae) n)
    by (intros; now apply published_mono).
  assert (Hpriv : forall k, lim (ph a u) = k -> (u, k) <> m).
  { intros k Hk E. subst m. cbn in Hm. destruct Hm as [[E _]|[P _]]; [congruence|].
    unfold published in P; cbn in P. lia. }
  destruct (ph a u) as [k|k v|k v q|k v|k|k q|k n|k n nx|k n v|k] eqn:Ep; cbn in *; auto.
  - destruct (Hn (u, k)) as [E1 E2]; [apply Hpriv; reflexivity|]. now rewrite E1, E2.
  - now rewrite Hh.
  - destruct H as [H1 H2]. split; auto. now rewrite Hh.
  - destruct H as (H1 & H2 & H3). repeat split; auto; [now rewrite Hh|].
    intros Hin. destruct (Hn n) as [E1 _]; [intros ->; contradiction|]. rewrite E1. auto.
  - destruct H as (H1 & H2 & H3). repeat split; auto.
    destruct (node_eq_dec n m) as [->|Hne].
    + destruct Hm as [[E1 E2]|[_ E]]; [|congruence].
      exfalso. unfold published in H1. rewrite E1, E2 in H1. lia.
    + destruct (Hn n Hne) as [_ E2]. now rewrite E2.
Qed.

(** ** the general preservation lemma for steps that do not change the stack *)
Lemma Inv_keep g g' a tr t m p' ae es :
  Inv g a tr ->
  touches g g' t m ->
  ((fst m = t /\ snd m = lim (ph a t)) \/ (published a m /\ ~ In m (stk a) /\ val g' m = val g m)) ->
  (lim (ph a t) <= lim p')%nat ->
  phase_ok g' (upd_a a t p' ae) t p' ->
  lp_ok t (map (val g) (stk a)) (status_of (ph a t)) (status_of p') ae ->
  erase ae = hist (Conc.tag t es) ->
  Inv g' (upd_a a t p' ae) (tr ++ Conc.tag t es).
Proof.
  intros (I1 & I2 & I3 & I4 & (sts & I5 & I5') & I6) Ht Hm L Hown Hlp Her.
  assert (Hnin : ~ In m (stk a)).
  { destruct Hm as [[E1 E2]|(_ & H & _)]; auto. intros Hin. apply I3 in Hin.
    unfold published in Hin. rewrite E1, E2 in Hin. lia. }
  assert (Hm' : (fst m = t /\ snd m = lim (ph a t)) \/ (published a m /\ val g' m = val g m)) by tauto.
  destruct Ht as (Ht1 & Ht2 & Ht3).
  assert (Hsame : forall n, In n (stk a) -> next g' n = next g n /\ val g' n = val g n).
  { intros n Hin. apply Ht2. intros ->. contradiction. }
  unfold Inv. cbn [stk atr ph upd_a]. repeat split.
  - rewrite Ht1. eapply chain_ext; [|exact I1]. intros n Hin. apply Hsame; auto.
  - exact I2.
  - intros n Hin. apply (published_mono a t p' ae n L). auto.
  - intros u. destruct (Nat.eq_dec u t) as [->|Hu].
    + rewrite set_ph_same. exact Hown.
    + rewrite set_ph_other by exact Hu.
      exact (others_ok g g' a t m p' ae (conj Ht1 (conj Ht2 Ht3)) Hm' Hnin L u Hu (I4 u)).
  - destruct (Hlp sts (I5' t)) as (sts' & R1 & R2 & R3).
    exists sts'. split.
    + rewrite lp_run_app, I5.
      replace (map (val g') (stk a)) with (map (val g) (stk a)); [exact R1|].
      apply map_ext_in. intros n Hin. symmetry. apply Hsame; auto.
    + intros u. destruct (Nat.eq_dec u t) as [->|Hu].
      * now rewrite set_ph_same.
      * rewrite set_ph_other by exact Hu. rewrite R3 by exact Hu. apply I5'.
  - rewrite erase_app, hist_app, I6, Her. reflexivity.
Qed.

Lemma touches_refl g t m : touches g g t m.
Proof. repeat split; auto. Qed.

(** dummy node for steps that write no node: the next private node of [t] *)
Definition own (a : Aux) (t : nat) : node := (t, lim (ph a t)).
Lemma own_ok a t : (fst (own a t) = t /\ snd (own a t) = lim (ph a t)).
Proof. split; reflexivity. Qed.

Lemma hist_acc t k o b : hist (Conc.tag t [EvAcc k o b]) = [].
Proof. reflexivity. Qed.

(** ** linearization point of push: the successful CAS *)
Lemma Inv_push_lp g a tr t k v p :
  Inv g a tr -> ph a t = PPushL k v p -> top g = p ->
  Inv (set_top g (Some (t, k)))
      (mkA ((t, k) :: stk a) (atr a ++ [ELin t]) (set_ph (ph a) t (PPushed k v)))
      (tr ++ Conc.tag t [EvAcc KCas obj_top true]).
Proof.
  intros (I1 & I2 & I3 & I4 & (sts & I5 & I5') & I6) Hp Htop.
  pose proof (I4 t) as Hme. rewrite Hp in Hme. cbn in Hme. destruct Hme as [Hnx Hval].
  assert (Hunpub : ~ published a (t, k)).
  { unfold published; cbn. rewrite Hp. cbn. lia. }
  assert (Hnin : ~ In (t, k) (stk a)) by (intros H; apply Hunpub, I3, H).
  set (a' := mkA ((t, k) :: stk a) (atr a ++ [ELin t]) (set_ph (ph a) t (PPushed k v))).
  assert (Hpub : forall n, published a n -> published a' n).
  { intros n H. apply (published_mono a t (PPushed k v) [ELin t] n); auto. rewrite Hp. cbn. lia. }
  unfold Inv. cbn [stk atr ph a' set_top top next val hp]. repeat split.
  - rewrite Hnx, <- Htop. exact I1.
  - constructor; auto.
  - intros n [<-|Hin]; [|apply Hpub; auto].
    unfold published; cbn. rewrite set_ph_same. cbn. lia.
  - intros u. destruct (Nat.eq_dec u t) as [->|Hu].
    + rewrite set_ph_same. exact I.
    + rewrite set_ph_other by exact Hu. pose proof (I4 u) as H.
      destruct (ph a u) as [k'|k' v'|k' v' q|k' v'|k'|k' q|k' n|k' n nx|k' n v'|k'] eqn:Ep; cbn in *; auto.
      * destruct H; auto.
      * destruct H as (H1 & H2 & H3). repeat split; auto.
        intros [E|Hin]; auto. subst n. contradiction.      (* (ABA): a published node is not the fresh one *)
      * destruct H as (H1 & H2 & H3). repeat split; auto.
        intros [E|Hin]; auto. subst n. contradiction.
  - exists (Lin.upd sts t (SLin (Push v) (RBool true))). split.
    + rewrite lp_run_app, I5. cbn. rewrite (I5' t), Hp. cbn. rewrite Hval. reflexivity.
    + intros u. destruct (Nat.eq_dec u t) as [->|Hu].
      * rewrite upd_same, set_ph_same. reflexivity.
      * rewrite upd_other, set_ph_other by exact Hu. apply I5'.
  - rewrite erase_app, hist_app, I6. cbn. reflexivity.
Qed.

(** ** linearization point of a non-empty pop: the successful CAS.
    (ABA) m_Top = Some n at the CAS means n is the head of [stk] NOW; since nodes are never reused, n has been
    in the stack ever since its next field was read, so the value read is still its successor. *)
Lemma Inv_pop_lp g a tr t k n nx :
  Inv g a tr -> ph a t = PPopR k n nx -> top g = Some n ->
  Inv (set_top g nx)
      (mkA (tl (stk a)) (atr a ++ [ELin t]) (set_ph (ph a) t (PPopG k n (val g n))))
      (tr ++ Conc.tag t [EvAcc KCas obj_top true]).
Proof.
  intros (I1 & I2 & I3 & I4 & (sts & I5 & I5') & I6) Hp Htop.
  pose proof (I4 t) as Hme. rewrite Hp in Hme. cbn in Hme. destruct Hme as (Hpubn & Hhp & Hnx).
  destruct (chain_head _ _ _ n I1 Htop) as (r & Hs & Hc).
  assert (Hin : In n (stk a)) by (rewrite Hs; left; reflexivity).
  specialize (Hnx Hin). rewrite Hs in *. cbn [tl].
  apply NoDup_cons_iff in I2. destruct I2 as [Hnotin Hnd].
  set (a' := mkA r (atr a ++ [ELin t]) (set_ph (ph a) t (PPopG k n (val g n)))).
  assert (Hpub : forall x, published a x -> published a' x).
  { intros x H. apply (published_mono a t (PPopG k n (val g n)) [ELin t] x); auto. rewrite Hp. cbn. lia. }
  unfold Inv. cbn [stk atr ph a' set_top top next val hp]. repeat split.
  - rewrite <- Hnx. exact Hc.
  - exact Hnd.
  - intros x Hx. apply Hpub, I3. right; exact Hx.
  - intros u. destruct (Nat.eq_dec u t) as [->|Hu].
    + rewrite set_ph_same. cbn. repeat split; auto.
    + rewrite set_ph_other by exact Hu. pose proof (I4 u) as H.
      destruct (ph a u) as [k'|k' v'|k' v' q|k' v'|k'|k' q|k' n'|k' n' nx'|k' n' v'|k'] eqn:Ep; cbn in *; auto.
      * destruct H; auto.
      * destruct H as (H1 & H2 & H3). repeat split; auto.
        intros Hx. apply H3. rewrite Hs. right; exact Hx.
      * destruct H as (H1 & H2 & H3). repeat split; auto.
        intros Hx. apply H2. rewrite Hs. right; exact Hx.
  - exists (Lin.upd sts t (SLin Pop (RVal (Some (val g n))))). split.
    + rewrite lp_run_app, I5. cbn. rewrite (I5' t), Hp. cbn. reflexivity.
    + intros u. destruct (Nat.eq_dec u t) as [->|Hu].
      * rewrite upd_same, set_ph_same. reflexivity.
      * rewrite upd_other, set_ph_other by exact Hu. apply I5'.
  - rewrite erase_app, hist_app, I6. cbn. reflexivity.
Qed.

(** ** small facts used by the per-step proofs *)
Lemma view_upd_a a t p ae : view (upd_a a t p ae) t = p.
Proof. unfold view, upd_a; cbn. apply set_ph_same. Qed.

Lemma frame_set_ph a t s x p : Conc.frame view t a (mkA s x (set_ph (ph a) t p)).
Proof. intros u H. unfold view; cbn. now apply set_ph_other. Qed.

Lemma phase_ok_upd g a t p' ae u q :
  (lim (ph a t) <= lim p')%nat -> phase_ok g a u q -> phase_ok g (upd_a a t p' ae) u q.
Proof.
  intros L H. assert (P : forall n, published a n -> published (upd_a a t p' ae) n)
    by (intros; now apply published_mono).
  destruct q; cbn in *; auto.
  - destruct H; auto.
  - destruct H as (H1 & H2 & H3); auto.
  - destruct H as (H1 & H2 & H3); auto.
Qed.

Lemma touches_set_next g t n p : touches g (set_next g n p) t n.
Proof.
  repeat split; auto. cbn. rewrite node_eqb_neq; auto.
Qed.

Lemma touches_node_init g t n v : touches g (set_val (set_next g n None) n v) t n.
Proof.
  repeat split; auto; cbn; rewrite node_eqb_neq; auto.
Qed.

Lemma touches_set_hp g t p m : touches g (set_hp g t p) t m.
Proof.
  repeat split; auto. intros u Hu. cbn. destruct (Nat.eqb_spec u t); congruence.
Qed.

Lemma touches_add_retired g t n m : touches g (add_retired g t n) t m.
Proof. repeat split; auto. Qed.

Lemma Inv_phase g a tr t : Inv g a tr -> phase_ok g a t (ph a t).
Proof. intros (_ & _ & _ & I4 & _). apply I4. Qed.

Lemma hp_set_same g t p : hp (set_hp g t p) t = p.
Proof. cbn. now rewrite Nat.eqb_refl. Qed.

(** a step of thread [t] that changes neither the shared state nor anything but [t]'s phase *)
Lemma Inv_rephase g a tr t p' es :
  Inv g a tr ->
  (lim (ph a t) <= lim p')%nat ->
  phase_ok g (upd_a a t p' []) t p' ->
  status_of p' = status_of (ph a t) ->
  hist (Conc.tag t es) = [] ->
  Inv g (upd_a a t p' []) (tr ++ Conc.tag t es).
Proof.
  intros Hi L Hok Hst Hh.
  apply (Inv_keep g g a tr t (own a t)); [exact Hi| | |exact L|exact Hok| |].
  - apply touches_refl.
  - left. apply own_ok.
  - rewrite Hst. apply lp_ok_nil.
  - rewrite Hh. reflexivity.
Qed.

(** ** push *)
Lemma safe_push_loop fuel : forall t k v p p0 (Q : bool -> phase -> Prop),
  Q true (PPushed k v) -> (forall l, Q false l) ->
  safe t (push_loop fuel (t, k) p) (PPushL k v p0) Q.
Proof.
  induction fuel as [|f IH]; intros t k v p p0 Q Q1 Q2; cbn [push_loop Conc.safe]; [apply Q2|].
  (* pNew->m_pNext.store( t ) *)
  intros g a tr Hi Hv. unfold view in Hv. cbn [a_st_next fst snd].
  pose proof (Inv_phase _ _ _ t Hi) as Hme. rewrite Hv in Hme. cbn in Hme. destruct Hme as [_ Hval].
  exists (upd_a a t (PPushL k v p) []). split; [|split; [apply frame_upd_a|]].
  { apply (Inv_keep g _ a tr t (t, k)); [exact Hi| | | | | |reflexivity].
    - apply touches_set_next.
    - left. rewrite Hv. split; reflexivity.
    - rewrite Hv. cbn. lia.
    - cbn. rewrite node_eqb_refl. auto.
    - rewrite Hv. apply lp_ok_nil. }
  rewrite view_upd_a. cbn [Conc.safe]. clear g a tr Hi Hv Hval.
  (* m_Top.compare_exchange_weak( t, pNew ) *)
  intros g a tr Hi Hv. unfold view in Hv. unfold a_cas_top.
  destruct (ptr_eqb (top g) p) eqn:E; cbn [fst snd].
  - apply ptr_eqb_spec in E.
    exists (mkA ((t, k) :: stk a) (atr a ++ [ELin t]) (set_ph (ph a) t (PPushed k v))).
    split; [apply (Inv_push_lp g a tr t k v p); auto|]. split; [apply frame_set_ph|].
    unfold view; cbn. rewrite set_ph_same. exact Q1.
  - exists (upd_a a t (PPushL k v p) []). split; [|split; [apply frame_upd_a|]].
    { apply Inv_rephase; [exact Hi| | | |reflexivity].
      - rewrite Hv. cbn. lia.
      - apply phase_ok_upd; [rewrite Hv; cbn; lia|]. rewrite <- Hv. exact (Inv_phase _ _ _ t Hi).
      - now rewrite Hv. }
    rewrite view_upd_a. cbn [ptr_of]. apply IH; auto.
Qed.

Lemma safe_push fuel t k v (Q : bool -> phase -> Prop) :
  Q true (PPushed k v) -> (forall l, Q false l) ->
  safe t (push fuel (t, k) v) (PPush k v) Q.
Proof.
  intros Q1 Q2. unfold push. cbn [Conc.safe].
  (* node constructor *)
  intros g a tr Hi Hv. unfold view in Hv. cbn [a_node_init fst snd].
  exists (upd_a a t (PPushL k v None) []). split; [|split; [apply frame_upd_a|]].
  { apply (Inv_keep g _ a tr t (t, k)); [exact Hi| | | | | |reflexivity].
    - apply touches_node_init.
    - left. rewrite Hv. split; reflexivity.
    - rewrite Hv. cbn. lia.
    - cbn. rewrite !node_eqb_refl. auto.
    - rewrite Hv. apply lp_ok_nil. }
  rewrite view_upd_a. cbn [Conc.safe]. clear g a tr Hi Hv.
  (* m_Top.load *)
  intros g a tr Hi Hv. unfold view in Hv. cbn [a_ld_top fst snd].
  exists (upd_a a t (PPushL k v None) []). split; [|split; [apply frame_upd_a|]].
  { apply Inv_rephase; [exact Hi| | | |reflexivity].
    - rewrite Hv. cbn. lia.
    - apply phase_ok_upd; [rewrite Hv; cbn; lia|]. rewrite <- Hv. exact (Inv_phase _ _ _ t Hi).
    - now rewrite Hv. }
  rewrite view_upd_a. cbn [ptr_of]. apply safe_push_loop; auto.
Qed.

(** ** Guard::protect( m_Top ) *)
Definition Qprot (k : nat) : option ptr -> phase -> Prop :=
  fun r l => match r with
             | None => True
             | Some None => l = PPopE k
             | Some (Some n) => l = PPopV k n
             end.

Lemma safe_protect_loop fuel : forall t k pCur,
  safe t (protect_loop fuel t pCur) (PPop k) (Qprot k).
Proof.
  induction fuel as [|f IH]; intros t k pCur; cbn [protect_loop Conc.safe]; [exact I|].
  (* hazard slot store *)
  intros g a tr Hi Hv. unfold view in Hv. cbn [a_st_hp fst snd].
  exists (upd_a a t (PPopH k pCur) []). split; [|split; [apply frame_upd_a|]].
  { apply (Inv_keep g _ a tr t (own a t)); [exact Hi| | | | | |reflexivity].
    - apply touches_set_hp.
    - left. apply own_ok.
    - rewrite Hv. cbn. lia.
    - cbn. now rewrite Nat.eqb_refl.
    - rewrite Hv. apply lp_ok_nil. }
  rewrite view_upd_a. cbn [Conc.safe]. clear g a tr Hi Hv.
  (* sync_.fetch_add *)
  intros g a tr Hi Hv. unfold view in Hv. cbn [a_faa_sync fst snd].
  exists (upd_a a t (PPopH k pCur) []). split; [|split; [apply frame_upd_a|]].
  { apply Inv_rephase; [exact Hi| | | |reflexivity].
    - rewrite Hv. cbn. lia.
    - apply phase_ok_upd; [rewrite Hv; cbn; lia|]. rewrite <- Hv. exact (Inv_phase _ _ _ t Hi).
    - now rewrite Hv. }
  rewrite view_upd_a. cbn [Conc.safe]. clear g a tr Hi Hv.
  (* validating load *)
  intros g a tr Hi Hv. unfold view in Hv. cbn [a_ld_top fst snd ptr_of].
  pose proof (Inv_phase _ _ _ t Hi) as Hme. rewrite Hv in Hme. cbn in Hme.
  destruct (ptr_eqb pCur (top g)) eqn:E.
  - apply ptr_eqb_spec in E. subst pCur. destruct (top g) as [n|] eqn:Etop.
    + (* validated a node *)
      exists (upd_a a t (PPopV k n) []). split; [|split; [apply frame_upd_a|]].
      { apply Inv_rephase; [exact Hi| | | |reflexivity].
        - rewrite Hv. cbn. lia.
        - cbn. split; auto. apply published_mono; [rewrite Hv; cbn; lia|].
          destruct Hi as (I1 & _ & I3 & _). destruct (chain_head _ _ _ n I1 Etop) as (r & Hs & _).
          apply I3. rewrite Hs. left; reflexivity.
        - now rewrite Hv. }
      rewrite view_upd_a. reflexivity.
    + (* validated null: the linearization point of an empty pop *)
      exists (upd_a a t (PPopE k) [ELin t]). split; [|split; [apply frame_upd_a|]].
      { apply (Inv_keep g g a tr t (own a t)); [exact Hi| | | | | |reflexivity].
        - apply touches_refl.
        - left. apply own_ok.
        - rewrite Hv. cbn. lia.
        - exact I.
        - rewrite Hv. cbn [status_of]. destruct Hi as (I1 & _). rewrite Etop in I1.
          apply chain_nil in I1. rewrite I1. apply lp_ok_empty. }
      rewrite view_upd_a. reflexivity.
  - exists (upd_a a t (PPop k) []). split; [|split; [apply frame_upd_a|]].
    { apply Inv_rephase; [exact Hi| | | |reflexivity].
      - rewrite Hv. cbn. lia.
      - exact I.
      - now rewrite Hv. }
    rewrite view_upd_a. apply IH.
Qed.

Lemma safe_protect fuel t k : safe t (protect fuel t) (PPop k) (Qprot k).
Proof.
  unfold protect. cbn [Conc.safe].
  intros g a tr Hi Hv. unfold view in Hv. cbn [a_ld_top fst snd ptr_of].
  exists (upd_a a t (PPop k) []). split; [|split; [apply frame_upd_a|]].
  { apply Inv_rephase; [exact Hi| | | |reflexivity].
    - rewrite Hv. cbn. lia.
    - exact I.
    - now rewrite Hv. }
  rewrite view_upd_a. apply safe_protect_loop.
Qed.

(** ** pop *)
Definition Qpop (k : nat) : pop_res -> phase -> Prop :=
  fun r l => match r with
             | PopFuel => True
             | PopEmpty => l = PPopE k
             | Popped v => exists n, l = PPopG k n v
             end.

Lemma safe_pop_loop fuel : forall t k, safe t (pop_loop fuel t) (PPop k) (Qpop k).
Proof.
  induction fuel as [|f IH]; intros t k; cbn [pop_loop]; [exact I|].
  apply Conc.safe_bind. eapply Conc.safe_weaken; [|apply safe_protect].
  intros [[n|]|] l Hl; cbn in Hl; [| |exact I]; subst l.
  - (* a node was validated: t->m_pNext.load *)
    cbn [Conc.safe]. intros g a tr Hi Hv. unfold view in Hv. cbn [a_ld_next fst snd ptr_of].
    pose proof (Inv_phase _ _ _ t Hi) as Hme. rewrite Hv in Hme. cbn in Hme. destruct Hme as [Hpub Hhp].
    exists (upd_a a t (PPopR k n (next g n)) []). split; [|split; [apply frame_upd_a|]].
    { apply Inv_rephase; [exact Hi| | | |reflexivity].
      - rewrite Hv. cbn. lia.
      - cbn. repeat split; auto. apply published_mono; [rewrite Hv; cbn; lia|auto].
      - now rewrite Hv. }
    rewrite view_upd_a. cbn [Conc.safe]. remember (next g n) as nx eqn:Enx. clear g a tr Hi Hv Hpub Hhp Enx.
    (* m_Top.compare_exchange_weak( t, pNext ) *)
    intros g a tr Hi Hv. unfold view in Hv. unfold a_cas_top.
    destruct (ptr_eqb (top g) (Some n)) eqn:E; cbn [fst snd].
    + apply ptr_eqb_spec in E.
      exists (mkA (tl (stk a)) (atr a ++ [ELin t]) (set_ph (ph a) t (PPopG k n (val g n)))).
      split; [apply (Inv_pop_lp g a tr t k n nx); auto|]. split; [apply frame_set_ph|].
      unfold view; cbn [ph]. rewrite set_ph_same. cbn [Conc.safe].
      remember (val g n) as v eqn:Ev. clear g a tr Hi Hv E Ev.
      (* clear_links *)
      intros g a tr Hi Hv. unfold view in Hv. cbn [a_st_next fst snd].
      pose proof (Inv_phase _ _ _ t Hi) as Hme. rewrite Hv in Hme. cbn in Hme. destruct Hme as (Hpub & Hnin & Hval).
      exists (upd_a a t (PPopG k n v) []). split; [|split; [apply frame_upd_a|]].
      { apply (Inv_keep g _ a tr t n); [exact Hi| | | | | |reflexivity].
        - apply touches_set_next.
        - right. auto.
        - rewrite Hv. cbn. lia.
        - cbn. repeat split; auto. apply published_mono; [rewrite Hv; cbn; lia|auto].
        - rewrite Hv. apply lp_ok_nil. }
      rewrite view_upd_a. cbn [Conc.safe]. clear g a tr Hi Hv Hpub Hnin Hval.
      (* ~Guard, value read *)
      intros g a tr Hi Hv. unfold view in Hv. cbn [a_st_hp_rd fst snd].
      pose proof (Inv_phase _ _ _ t Hi) as Hme. rewrite Hv in Hme. cbn in Hme. destruct Hme as (Hpub & Hnin & Hval).
      exists (upd_a a t (PPopG k n v) []). split; [|split; [apply frame_upd_a|]].
      { apply (Inv_keep g _ a tr t (own a t)); [exact Hi| | | | | |reflexivity].
        - apply touches_set_hp.
        - left. apply own_ok.
        - rewrite Hv. cbn. lia.
        - cbn. repeat split; auto. apply published_mono; [rewrite Hv; cbn; lia|auto].
        - rewrite Hv. apply lp_ok_nil. }
      rewrite view_upd_a. cbn [Conc.safe z_of]. rewrite Hval. clear g a tr Hi Hv Hpub Hnin Hval.
      (* retire: load of current_ *)
      intros g a tr Hi Hv. unfold view in Hv. cbn [a_ld_ret fst snd].
      pose proof (Inv_phase _ _ _ t Hi) as Hme. rewrite Hv in Hme. cbn in Hme. destruct Hme as (Hpub & Hnin & Hval).
      exists (upd_a a t (PPopG k n v) []). split; [|split; [apply frame_upd_a|]].
      { apply (Inv_keep g _ a tr t (own a t)); [exact Hi| | | | | |reflexivity].
        - apply touches_add_retired.
        - left. apply own_ok.
        - rewrite Hv. cbn. lia.
        - cbn. repeat split; auto. apply published_mono; [rewrite Hv; cbn; lia|auto].
        - rewrite Hv. apply lp_ok_nil. }
      rewrite view_upd_a. cbn [Conc.safe]. clear g a tr Hi Hv Hpub Hnin Hval.
      (* retire: store of current_ *)
      intros g a tr Hi Hv. unfold view in Hv. cbn [a_st_ret fst snd].
      exists (upd_a a t (PPopG k n v) []). split; [|split; [apply frame_upd_a|]].
      { apply Inv_rephase; [exact Hi| | | |reflexivity].
        - rewrite Hv. cbn. lia.
        - apply phase_ok_upd; [rewrite Hv; cbn; lia|]. rewrite <- Hv. exact (Inv_phase _ _ _ t Hi).
        - now rewrite Hv. }
      rewrite view_upd_a. cbn. exists n. reflexivity.
    + (* CAS failed: try again *)
      exists (upd_a a t (PPop k) []). split; [|split; [apply frame_upd_a|]].
      { apply Inv_rephase; [exact Hi| | | |reflexivity].
        - rewrite Hv. cbn. lia.
        - exact I.
        - now rewrite Hv. }
      rewrite view_upd_a. apply IH.
  - (* empty: ~Guard *)
    cbn [Conc.safe]. intros g a tr Hi Hv. unfold view in Hv. cbn [a_st_hp fst snd].
    exists (upd_a a t (PPopE k) []). split; [|split; [apply frame_upd_a|]].
    { apply (Inv_keep g _ a tr t (own a t)); [exact Hi| | | | | |reflexivity].
      - apply touches_set_hp.
      - left. apply own_ok.
      - rewrite Hv. cbn. lia.
      - exact I.
      - rewrite Hv. apply lp_ok_nil. }
    rewrite view_upd_a. reflexivity.
Qed.

(** ** client operations *)
Lemma hist_cli_other t name args :
  String.eqb name "inv_push" = false -> String.eqb name "ret_push" = false ->
  String.eqb name "inv_pop" = false -> String.eqb name "ret_pop" = false ->
  hist (Conc.tag t [EvCli name args]) = [].
Proof. intros H1 H2 H3 H4. cbn. rewrite H1, H2, H3, H4. reflexivity. Qed.

Definition Qop (k : nat) : bool -> phase -> Prop := fun ok l => ok = true -> l = PIdle (S k).

Lemma safe_emit_fuel t l (Q : bool -> phase -> Prop) :
  (forall l', Q false l') -> safe t (Emit [EvCli "outoffuel" []] (Ret false)) l Q.
Proof.
  intros HQ. cbn [Conc.safe]. intros g a tr Hi Hv. unfold view in Hv.
  exists (upd_a a t (ph a t) []). split; [|split; [apply frame_upd_a|]].
  { apply Inv_rephase; [exact Hi| | | |reflexivity].
    - lia.
    - apply phase_ok_upd; [lia|]. exact (Inv_phase _ _ _ t Hi).
    - reflexivity. }
  apply HQ.
Qed.

Lemma safe_run_op fuel t k o : safe t (run_op fuel t k o) (PIdle k) (Qop k).
Proof.
  destruct o as [v|]; cbn [run_op Conc.safe].
  - (* push *)
    intros g a tr Hi Hv. unfold view in Hv.
    exists (upd_a a t (PPush k v) [EInv t (Push v)]). split; [|split; [apply frame_upd_a|]].
    { apply (Inv_keep g g a tr t (own a t)); [exact Hi| | | | | |reflexivity].
      - apply touches_refl.
      - left. apply own_ok.
      - rewrite Hv. cbn. lia.
      - exact I.
      - rewrite Hv. apply lp_ok_inv. }
    rewrite view_upd_a. apply Conc.safe_bind.
    apply (safe_push fuel t k v (fun ok l => safe t (if ok then Emit [EvCli "ret_push" [1]] (Ret true)
                                                     else Emit [EvCli "outoffuel" []] (Ret false)) l (Qop k))).
    + cbn [Conc.safe]. clear g a tr Hi Hv. intros g a tr Hi Hv. unfold view in Hv.
      exists (upd_a a t (PIdle (S k)) [ERes t (RBool true)]). split; [|split; [apply frame_upd_a|]].
      { apply (Inv_keep g g a tr t (own a t)); [exact Hi| | | | | |reflexivity].
        - apply touches_refl.
        - left. apply own_ok.
        - rewrite Hv. cbn. lia.
        - exact I.
        - rewrite Hv. apply lp_ok_res. }
      rewrite view_upd_a. intros _. reflexivity.
    + intros l. apply safe_emit_fuel. intros l' H. discriminate.
  - (* pop *)
    intros g a tr Hi Hv. unfold view in Hv.
    exists (upd_a a t (PPop k) [EInv t Pop]). split; [|split; [apply frame_upd_a|]].
    { apply (Inv_keep g g a tr t (own a t)); [exact Hi| | | | | |reflexivity].
      - apply touches_refl.
      - left. apply own_ok.
      - rewrite Hv. cbn. lia.
      - exact I.
      - rewrite Hv. apply lp_ok_inv. }
    rewrite view_upd_a. apply Conc.safe_bind.
    eapply Conc.safe_weaken; [|apply safe_pop_loop].
    intros [| |v] l Hl; cbn in Hl.
    + apply safe_emit_fuel. intros l' H. discriminate.
    + subst l. cbn [Conc.safe]. clear g a tr Hi Hv. intros g a tr Hi Hv. unfold view in Hv.
      exists (upd_a a t (PIdle (S k)) [ERes t (RVal None)]). split; [|split; [apply frame_upd_a|]].
      { apply (Inv_keep g g a tr t (own a t)); [exact Hi| | | | | |reflexivity].
        - apply touches_refl.
        - left. apply own_ok.
        - rewrite Hv. cbn. lia.
        - exact I.
        - rewrite Hv. apply lp_ok_res. }
      rewrite view_upd_a. intros _. reflexivity.
    + destruct Hl as [n ->]. cbn [Conc.safe]. clear g a tr Hi Hv. intros g a tr Hi Hv. unfold view in Hv.
      exists (upd_a a t (PIdle (S k)) [ERes t (RVal (Some v))]). split; [|split; [apply frame_upd_a|]].
      { apply (Inv_keep g g a tr t (own a t)); [exact Hi| | | | | |reflexivity].
        - apply touches_refl.
        - left. apply own_ok.
        - rewrite Hv. cbn. lia.
        - exact I.
        - rewrite Hv. apply lp_ok_res. }
      rewrite view_upd_a. intros _. reflexivity.
Qed.

Lemma safe_run_ops fuel t os : forall k, safe t (run_ops fuel t k os) (PIdle k) (@Conc.QTrue phase).
Proof.
  induction os as [|o r IH]; intros k; cbn [run_ops]; [exact I|].
  apply Conc.safe_bind. eapply Conc.safe_weaken; [|apply safe_run_op].
  intros [|] l Hl; [|exact I]. rewrite (Hl eq_refl). apply IH.
Qed.

Lemma safe_thread fuel t os : safe t (thread_prog fuel t os) (PIdle 0) (@Conc.QTrue phase).
Proof.
  unfold thread_prog. cbn [Conc.safe]. intros g a tr Hi Hv. unfold view in Hv. cbn [a_begin fst snd].
  exists (upd_a a t (PIdle 0) []). split; [|split; [apply frame_upd_a|]].
  { apply Inv_rephase; [exact Hi| | | |reflexivity].
    - rewrite Hv. cbn. lia.
    - exact I.
    - now rewrite Hv. }
  rewrite view_upd_a. apply safe_run_ops.
Qed.

Lemma nth_thread_progs fuel ths : forall t0 i p,
  nth_error (thread_progs fuel t0 ths) i = Some p ->
  exists os, p = thread_prog fuel (t0 + i) os.
Proof.
  induction ths as [|os r IH]; intros t0 [|i] p H; cbn in H; try discriminate.
  - inversion H. exists os. now rewrite Nat.add_0_r.
  - destruct (IH (S t0) i p H) as (os' & ->). exists os'. f_equal. lia.
Qed.

Definition aux0 : Aux := mkA [] [] (fun _ => PIdle 0).

Lemma init_ok fuel ths : Conc.cfg_ok view Inv (init_cfg fuel ths).
Proof.
  exists aux0. split.
  - cbn. repeat split; auto.
    + constructor.
    + intros n [].
    + exists (fun _ => SIdle). split; reflexivity.
  - intros t p Hp. cbn [init_cfg Conc.threads] in Hp.
    destruct (nth_thread_progs _ _ _ _ _ Hp) as (os & ->). cbn. apply safe_thread.
Qed.

(** ** the theorem: in every reachable configuration (every schedule, any number of threads, any client
       program of push / pop operations, any loop fuel) the invoke/response history of the trace is the
       erasure of a trace annotated with valid linearization points of the sequential LIFO stack *)
Theorem treiber_lp_valid fuel ths c :
  Conc.reach (init_cfg fuel ths) c ->
  exists atr, lp_valid Stack atr /\ erase atr = hist (Conc.trace c).
Proof.
  intros Hr. destruct (Conc.reach_Inv (init_ok fuel ths) Hr) as (a & _ & _ & _ & _ & (sts & H & _) & He).
  exists (atr a). split; [|exact He]. eexists. exact H.
Qed.

Theorem treiber_linearizable fuel ths c :
  Conc.reach (init_cfg fuel ths) c -> linearizable Stack (hist (Conc.trace c)).
Proof.
  intros Hr. destruct (treiber_lp_valid fuel ths c Hr) as (atr & Hv & He).
  rewrite <- He. now apply lp_valid_linearizable.
Qed.

(** a structural by-product of the invariant: at every reachable configuration the m_pNext chain that starts
    at m_Top is finite, null-terminated and visits pairwise distinct nodes *)
Theorem treiber_chain_wellformed fuel ths c :
  Conc.reach (init_cfg fuel ths) c ->
  exists l, chain (next (Conc.shared c)) (top (Conc.shared c)) l /\ NoDup l.
Proof.
  intros Hr. destruct (Conc.reach_Inv (init_ok fuel ths) Hr) as (a & I1 & I2 & _).
  exists (stk a). auto.
Qed.
