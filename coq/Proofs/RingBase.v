(** * Arithmetic and list facts shared by the WeakRingBuffer proofs (typed and void variants):
      [u64] without wrap, injectivity of the buffer index on a window of [cap] consecutive counters,
      [znth] (nth_error at a Z position), histories checked event by event. *)
From Coq Require Import ZArith List Bool Lia PeanoNat.
From LV Require Import Base.Conc Base.Events Model.Ring.
Import ListNotations.
Local Open Scope Z_scope.

Lemma two64_pos : 0 < two64.
Proof. unfold two64. lia. Qed.

Lemma u64_small x : 0 <= x < two64 -> u64 x = x.
Proof. intros H. unfold u64. apply Z.mod_small. exact H. Qed.

(** ** capacity predicates *)
Definition is_pow2 (c : Z) : bool := Z.eqb c (2 ^ Z.log2 c).

Definition cap_ok (exp2 : bool) (cap : Z) : bool :=
  Z.leb 1 cap && (if exp2 then is_pow2 cap else true).

Lemma idx_mod exp2 cap x : cap_ok exp2 cap = true -> 0 <= x -> idx exp2 cap x = x mod cap.
Proof.
  unfold cap_ok, idx. intros H Hx. apply andb_prop in H. destruct H as [H1 H2].
  apply Z.leb_le in H1. destruct exp2; [|reflexivity].
  unfold is_pow2 in H2. apply Z.eqb_eq in H2.
  assert (Hk : 0 <= Z.log2 cap) by apply Z.log2_nonneg.
  rewrite H2 at 1. replace (2 ^ Z.log2 cap - 1) with (Z.ones (Z.log2 cap)).
  - rewrite Z.land_ones by exact Hk. rewrite <- H2. reflexivity.
  - rewrite Z.ones_equiv. lia.
Qed.

Lemma mod_inj_window cap x y : 0 < cap -> x mod cap = y mod cap -> Z.abs (x - y) < cap -> x = y.
Proof.
  intros Hc He Hd.
  pose proof (Z.div_mod x cap ltac:(lia)) as Hx. pose proof (Z.div_mod y cap ltac:(lia)) as Hy.
  rewrite He in Hx.
  assert (x - y = cap * (x / cap - y / cap)) as Hxy by lia.
  assert (x / cap - y / cap = 0) by nia. lia.
Qed.

Lemma idx_inj_window exp2 cap x y :
  cap_ok exp2 cap = true -> 0 <= x -> 0 <= y -> Z.abs (x - y) < cap -> x <> y ->
  idx exp2 cap x <> idx exp2 cap y.
Proof.
  intros Hc Hx Hy Hd Hne He. rewrite !idx_mod in He by assumption.
  apply Hne. eapply mod_inj_window; eauto.
  unfold cap_ok in Hc. apply andb_prop in Hc. destruct Hc as [H1 _]. apply Z.leb_le in H1. lia.
Qed.

Lemma idx_range exp2 cap x : cap_ok exp2 cap = true -> 0 <= x -> 0 <= idx exp2 cap x < cap.
Proof.
  intros Hc Hx. rewrite idx_mod by assumption. apply Z.mod_pos_bound.
  unfold cap_ok in Hc. apply andb_prop in Hc. destruct Hc as [H1 _]. apply Z.leb_le in H1. lia.
Qed.

(** ** lists at Z positions *)
Definition znth {A} (l : list A) (i : Z) : option A := nth_error l (Z.to_nat i).

Lemma zlen_app (l l' : list Z) : zlen (l ++ l') = zlen l + zlen l'.
Proof. unfold zlen. rewrite app_length. lia. Qed.

Lemma zlen_nonneg (l : list Z) : 0 <= zlen l.
Proof. unfold zlen. lia. Qed.

Lemma znth_app1 (l l' : list Z) i : 0 <= i < zlen l -> znth (l ++ l') i = znth l i.
Proof. unfold znth, zlen. intros H. apply nth_error_app1. lia. Qed.

Lemma znth_app2 (l l' : list Z) i : zlen l <= i -> znth (l ++ l') i = znth l' (i - zlen l).
Proof.
  unfold znth, zlen. intros H. rewrite nth_error_app2 by lia. f_equal. lia.
Qed.

Lemma znth_cons_0 {A} (x : A) l : znth (x :: l) 0 = Some x.
Proof. reflexivity. Qed.

Lemma znth_cons_S {A} (x : A) l i : 0 < i -> znth (x :: l) i = znth l (i - 1).
Proof.
  unfold znth. intros H. replace (Z.to_nat i) with (S (Z.to_nat (i - 1))) by lia. reflexivity.
Qed.

Lemma znth_some_lt (l : list Z) i v : 0 <= i -> znth l i = Some v -> i < zlen l.
Proof.
  unfold znth, zlen. intros Hi H.
  assert (Z.to_nat i < length l)%nat by (apply nth_error_Some; congruence). lia.
Qed.

Lemma nth_error_ext_eq {A} (l l' : list A) :
  (forall n, nth_error l n = nth_error l' n) -> l = l'.
Proof.
  revert l'. induction l as [|x l IH]; intros [|y l'] H.
  - reflexivity.
  - specialize (H 0%nat). discriminate.
  - specialize (H 0%nat). discriminate.
  - pose proof (H 0%nat) as H0. cbn in H0. inversion H0; subst. f_equal.
    apply IH. intros n. exact (H (S n)).
Qed.

(** pointwise agreement on the first [length q] positions = prefix *)
Lemma pointwise_prefix_nat (q : list Z) : forall p,
  (length q <= length p)%nat -> (forall n, (n < length q)%nat -> nth_error q n = nth_error p n) ->
  exists r, p = q ++ r.
Proof.
  induction q as [|x q IH]; intros p Hl Hp.
  - exists p. reflexivity.
  - destruct p as [|y p]; [cbn in Hl; lia|].
    pose proof (Hp 0%nat ltac:(cbn; lia)) as H0. cbn in H0. inversion H0; subst y.
    destruct (IH p) as (r & ->).
    + cbn in Hl. lia.
    + intros n Hn. apply (Hp (S n)). cbn. lia.
    + exists r. reflexivity.
Qed.

Lemma pointwise_prefix (q p : list Z) :
  zlen q <= zlen p -> (forall i, 0 <= i < zlen q -> znth q i = znth p i) -> exists r, p = q ++ r.
Proof.
  intros Hl Hp. apply pointwise_prefix_nat.
  - unfold zlen in Hl. lia.
  - intros n Hn. specialize (Hp (Z.of_nat n)). unfold znth, zlen in Hp. rewrite Nat2Z.id in Hp.
    apply Hp. lia.
Qed.

(** ** histories: a predicate checked at every event against the trace before it *)
Definition hist_ok (Phi : list (nat * ev) -> nat -> ev -> Prop) (tr : list (nat * ev)) : Prop :=
  forall tr1 t e tr2, tr = tr1 ++ (t, e) :: tr2 -> Phi tr1 t e.

Lemma hist_ok_nil Phi : hist_ok Phi [].
Proof. intros tr1 t e tr2 H. destruct tr1; discriminate. Qed.

Lemma hist_ok_snoc Phi tr t e : hist_ok Phi tr -> Phi tr t e -> hist_ok Phi (tr ++ [(t, e)]).
Proof.
  intros H He tr1 t' e' tr2 Heq.
  assert (Hc : tr2 = [] \/ exists tr2' z, tr2 = tr2' ++ [z]).
  { destruct tr2 as [|a l]; [left; reflexivity|right].
    destruct (exists_last (l := a :: l)) as (l' & z & E); [discriminate|]. eauto. }
  destruct Hc as [->|(tr2' & z & ->)].
  - apply app_inj_tail in Heq. destruct Heq as [-> E]. inversion E; subst. exact He.
  - rewrite app_comm_cons, app_assoc in Heq. apply app_inj_tail in Heq. destruct Heq as [E1 _].
    eapply H. exact E1.
Qed.
