(** * FreeListOpenDhpBridge: the monitors of the two instances (LV.Proofs.FreeListOpenRules, classification
      [clsf]) against the history summary of LV.Proofs.DhpHist: if the client behaved on both instances
      ([m_cbad] false) and neither instance handed out a block it did not have ([m_abad] false) then
      [flbad (hist tr) = false]. *)
From Coq Require Import ZArith NArith List String Bool Lia PeanoNat.
From LV Require Import Base.Conc Base.Events Model.FreeList Model.DhpLang Model.Dhp Proofs.DhpBase Proofs.DhpHist
  Proofs.FreeListBase Proofs.FreeListOpenRules Proofs.FreeListOpenDhpRules.
Import ListNotations.

Lemma abad_step m e : m_abad m = true -> m_abad (mstep_ev m e) = true.
Proof.
  intros H. destruct e as [n|n|n|n|]; cbn; auto.
  - destruct (Nat.eqb n 0 || m_ex m n)%bool; auto.
  - destruct (m_pd m n); auto.
  - destruct (m_fr m n); auto.
  - destruct (m_ex m n && negb (m_fr m n) && negb (m_pd m n))%bool; auto.
Qed.
Lemma abad_fold cls es : forall m, m_abad m = true -> m_abad (fold_left (mstep cls) es m) = true.
Proof. induction es as [|e r IH]; intros m H; cbn; [exact H|]. apply IH. apply abad_step. exact H. Qed.

Definition relf (f : fl) (h : H) (m : mst) : Prop :=
  NoDup (freeh h f) /\ forall b, existsb (Nat.eqb b) (freeh h f) = m_fr m (S b).

Lemma existsb_remove1 b l b' : NoDup l ->
  existsb (Nat.eqb b') (DhpHist.remove1 b l) = if Nat.eqb b' b then false else existsb (Nat.eqb b') l.
Proof.
  induction l as [|x r IH]; intros Hnd; cbn; [destruct (Nat.eqb b' b); reflexivity|].
  inversion Hnd as [|? ? H1 H2]; subst. destruct (Nat.eqb_spec x b) as [Ex|Hx].
  - destruct (Nat.eqb_spec b' b) as [Eb|Hb].
    + destruct (existsb (Nat.eqb b') r) eqn:E; [|reflexivity]. exfalso. apply H1.
      apply existsb_exists in E. destruct E as (y & Hy & Ey). apply Nat.eqb_eq in Ey. congruence.
    + destruct (Nat.eqb_spec b' x); [congruence|reflexivity].
  - cbn. rewrite IH by assumption. destruct (Nat.eqb_spec b' b) as [Eb|Hb]; [|reflexivity].
    destruct (Nat.eqb_spec b' x); [congruence|reflexivity].
Qed.

Lemma NoDup_remove1 b l : NoDup l -> NoDup (DhpHist.remove1 b l).
Proof.
  induction l as [|x r IH]; intros Hnd; cbn; [constructor|]. inversion Hnd; subst.
  destruct (Nat.eqb x b); [assumption|]. constructor; [|auto].
  intros Hin. apply H1. clear -Hin. induction r as [|y r IH]; cbn in *; [contradiction|].
  destruct (Nat.eqb y b); [right; exact Hin|]. destruct Hin as [->|Hin]; [left; reflexivity|right; auto].
Qed.

Lemma rel_step f h m te :
  flbad h = false -> relf f h m ->
  m_cbad (mstep (clsf f) m te) = false -> m_abad (mstep (clsf f) m te) = false ->
  relf f (hstep h te) (mstep (clsf f) m te) /\
  (forall f' b, classify (snd te) = HAlloc f' b -> f' = f -> existsb (Nat.eqb b) (freeh h f) = true).
Proof.
  intros Hfb [Hnd Hrel] Hc Ha. destruct te as [t e]. unfold mstep in *. cbn [snd fst] in *.
  destruct e as [k o ok|name args].
  - (* an access: the history is untouched, the monitor's custody set too *)
    split; [|intros f' b E; cbn in E; discriminate].
    assert (E : m_fr (mstep_ev m (clsf f (EvAcc k o ok))) = m_fr m).
    { destruct (clsf f (EvAcc k o ok)) as [n|n|n|n|] eqn:Ec; try reflexivity.
      - cbn in Ec. destruct k; try discriminate; destruct o as [|x [|y [|z [|? ?]]]]; try discriminate; destruct (_ && _)%bool; discriminate.
      - cbn. destruct (m_pd m n); reflexivity.
      - cbn in Ec. destruct k; try discriminate; destruct o as [|x [|y [|z [|? ?]]]]; try discriminate; destruct (_ && _)%bool; discriminate.
      - cbn in Ec. destruct k; try discriminate; destruct o as [|x [|y [|z [|? ?]]]]; try discriminate; destruct (_ && _)%bool; discriminate. }
    unfold relf. rewrite E. unfold hstep. cbn [snd classify freeh]. split; assumption.
  - unfold clsf in *. unfold hstep. cbn [snd fst].
    destruct (classify (EvCli name args)) as [s v|r|r|r b|f0 b|f0 b|f0 b|r|r|p|] eqn:Ecl; cbn [freeh mstep_ev] in *;
      try (split; [unfold relf; cbn [freeh]; split; assumption|intros f' b' E; discriminate]).
    + (* HAlloc f0 b *)
      destruct (fl_eqb f0 f) eqn:Ef.
      * assert (f0 = f) by (destruct f0, f; cbn in Ef; congruence). subst f0. cbn [mstep_ev] in *.
        destruct (m_fr m (S b)) eqn:Efr; [|cbn in Ha; discriminate].
        rewrite <- Hrel in Efr. rewrite Efr. cbv beta iota. unfold relf. cbn [freeh m_fr]. split.
        -- split; [unfold fupd; rewrite Ef; apply NoDup_remove1; exact Hnd|].
           intros b'. unfold fupd. rewrite Ef. rewrite existsb_remove1 by exact Hnd. cbn [m_fr]. unfold bset. cbn [Nat.eqb].
           destruct (Nat.eqb b' b); [reflexivity|apply Hrel].
        -- intros f' b' E _. injection E as _ <-. exact Efr.
      * cbn [mstep_ev]. split.
        -- unfold relf. destruct (existsb (Nat.eqb b) (freeh h f0)); cbv beta iota; cbn [freeh m_fr]; [|split; assumption].
           unfold fupd. assert (Ef' : fl_eqb f f0 = false) by (destruct f, f0; cbn in *; congruence). rewrite Ef'. split; assumption.
        -- intros f' b' E ->. injection E as -> _. rewrite (fl_eqb_refl f) in Ef. discriminate.
    + (* HNew *)
      split; [|intros f' b' E; discriminate]. destruct (fl_eqb f0 f); [|unfold relf; cbn [freeh]; split; assumption].
      cbn [mstep_ev] in *. destruct (Nat.eqb (S b) 0 || m_ex m (S b))%bool; [cbn in Hc; discriminate|]. unfold relf. cbn [m_fr freeh]. split; assumption.
    + (* HFree f0 b *)
      split; [|intros f' b' E; discriminate]. destruct (fl_eqb f0 f) eqn:Ef.
      * assert (f0 = f) by (destruct f0, f; cbn in Ef; congruence). subst f0. cbn [mstep_ev] in *.
        destruct (m_ex m (S b) && negb (m_fr m (S b)) && negb (m_pd m (S b)))%bool eqn:E; [|cbn in Hc; discriminate].
        apply andb_prop in E. destruct E as [E _]. apply andb_prop in E. destruct E as [_ E]. apply negb_true_iff in E.
        unfold relf. cbn [m_fr freeh]. unfold fupd. rewrite Ef. split.
        -- constructor; [|exact Hnd]. intros Hin. rewrite <- Hrel in E.
           assert (existsb (Nat.eqb b) (freeh h f) = true) by (apply existsb_exists; exists b; split; [exact Hin|apply Nat.eqb_refl]). congruence.
        -- intros b'. cbn [existsb]. unfold bset. cbn [Nat.eqb]. destruct (Nat.eqb_spec b' b) as [->|Hb]; [reflexivity|apply Hrel].
      * cbn [mstep_ev]. unfold relf. cbn [freeh]. unfold fupd. assert (Ef' : fl_eqb f f0 = false) by (destruct f, f0; cbn in *; congruence). rewrite Ef'. split; assumption.
Qed.

Lemma bridge_gen tr : forall h mh mr,
  flbad h = false -> relf FHp h mh -> relf FRt h mr ->
  m_cbad (fold_left (mstep (clsf FHp)) tr mh) = false -> m_cbad (fold_left (mstep (clsf FRt)) tr mr) = false ->
  m_abad (fold_left (mstep (clsf FHp)) tr mh) = false -> m_abad (fold_left (mstep (clsf FRt)) tr mr) = false ->
  flbad (fold_left hstep tr h) = false.
Proof.
  induction tr as [|te r IH]; intros h mh mr Hfb Rh Rr C1 C2 A1 A2; cbn [fold_left] in *; [exact Hfb|].
  assert (C1' : m_cbad (mstep (clsf FHp) mh te) = false).
  { destruct (m_cbad (mstep (clsf FHp) mh te)) eqn:E; [|reflexivity]. rewrite (cbad_fold (clsf FHp) r _ E) in C1. discriminate. }
  assert (C2' : m_cbad (mstep (clsf FRt) mr te) = false).
  { destruct (m_cbad (mstep (clsf FRt) mr te)) eqn:E; [|reflexivity]. rewrite (cbad_fold (clsf FRt) r _ E) in C2. discriminate. }
  assert (A1' : m_abad (mstep (clsf FHp) mh te) = false).
  { destruct (m_abad (mstep (clsf FHp) mh te)) eqn:E; [|reflexivity]. rewrite (abad_fold (clsf FHp) r _ E) in A1. discriminate. }
  assert (A2' : m_abad (mstep (clsf FRt) mr te) = false).
  { destruct (m_abad (mstep (clsf FRt) mr te)) eqn:E; [|reflexivity]. rewrite (abad_fold (clsf FRt) r _ E) in A2. discriminate. }
  destruct (rel_step FHp h mh te Hfb Rh C1' A1') as [Rh' Kh]. destruct (rel_step FRt h mr te Hfb Rr C2' A2') as [Rr' Kr].
  apply (IH (hstep h te) (mstep (clsf FHp) mh te) (mstep (clsf FRt) mr te)); auto.
  unfold hstep. destruct (classify (snd te)) as [s v|r0|r0|r0 b|f0 b|f0 b|f0 b|r0|r0|p|] eqn:Ecl; cbn [flbad]; auto.
  assert (E : existsb (Nat.eqb b) (freeh h f0) = true) by (destruct f0; [eapply Kh|eapply Kr]; eauto).
  rewrite E. cbn [flbad]. exact Hfb.
Qed.

(** BRIDGE: what the DHP proofs need from the two instance invariants *)
Theorem flbad_from_monitors tr :
  m_cbad (mrun (clsf FHp) mzero tr) = false -> m_cbad (mrun (clsf FRt) mzero tr) = false ->
  m_abad (mrun (clsf FHp) mzero tr) = false -> m_abad (mrun (clsf FRt) mzero tr) = false ->
  flbad (hist tr) = false.
Proof.
  intros C1 C2 A1 A2. unfold hist. eapply bridge_gen; eauto; try reflexivity; (split; [constructor|intros b; reflexivity]).
Qed.
