(** * FCDeque with op_clear: soundness of fc_apply / fc_process (LV.Model.FcDequeFull) for ALL request lists
      and deque contents, against the sequential deque extended with clear(). *)
From Coq Require Import ZArith List Bool PeanoNat Lia.
From LV Require Import Base.Lin Spec.Specs Proofs.LinProofs Model.FcBatch Proofs.FcBatchProofs Model.FcDequeFull.
Import ListNotations.

Set Implicit Arguments.

(** ** fc_apply is the sequential specification, clear included *)
Lemma pop_all_nil : forall fuel d, length d <= fuel -> pop_all fuel d = [].
Proof.
  induction fuel as [|fu IH]; intros d Hl.
  - destruct d; [reflexivity|cbn in Hl; lia].
  - destruct d as [|x d]; [reflexivity|]. cbn. apply IH. cbn in Hl. lia.
Qed.

Lemma dqf_okop_cases op : dqf_okop op = true -> op = 2 \/ op = 3 \/ op = 4 \/ op = 5 \/ op = 6 \/ op = 7 \/ op = 8.
Proof. do 9 (destruct op as [|op]; [cbn; try discriminate; tauto|]). cbn. discriminate. Qed.

Lemma dqf_okop_ge2 op : dqf_okop op = true -> 2 <= op.
Proof. intros H. destruct (dqf_okop_cases _ H) as [-> | [-> | [-> | [-> | [-> | [-> | ->]]]]]]; lia. Qed.

Lemma dq_okop_dqf op : dq_okop op = true -> dqf_okop op = true.
Proof. intros H. unfold dqf_okop. rewrite H. reflexivity. Qed.

Lemma dqf_apply_spec d op arg : dqf_okop op = true -> dqf_apply d op arg = dequef_step d (dqf_dec op arg).
Proof.
  intros H. destruct (dqf_okop_cases _ H) as [-> | [-> | [-> | [-> | [-> | [-> | ->]]]]]]; try reflexivity.
  unfold dqf_apply, dqf_dec. cbn [dqf_clear Nat.eqb dequef_step]. rewrite pop_all_nil; [reflexivity|lia].
Qed.

(** on the old request words the extended deque is the old one *)
Lemma dqf_dec_base op arg : dq_okop op = true -> dqf_dec op arg = FBase (dq_dec op arg).
Proof. intros H. destruct (dq_okop_cases _ H) as [-> | [-> | [-> | [-> | [-> | ->]]]]]; reflexivity. Qed.

(** ** a collided pair is "push, then pop" executed at the combiner's instant: the deque is unchanged *)
Lemma dqf_pair_run rho d rpush v rpop opush opop apop :
  rho rpush = (opush, v) -> rho rpop = (opop, apop) -> dq_pair_ok d opush opop = true ->
  run_comps DequeFull dqf_dec rho d (collide rpush v rpop) /\ final_comps DequeFull dqf_dec rho d (collide rpush v rpop) = d.
Proof.
  intros H1 H2 Hok. pose proof (@dq_pair_run rho d _ _ _ _ _ _ H1 H2 Hok) as Hold.
  unfold collide in *. cbn [run_comps final_comps] in *. unfold op_of in *. rewrite H1, H2 in *. cbn [fst snd] in *.
  destruct (dq_pair_ok_ops _ _ _ Hok) as [[-> | [-> | [-> | ->]]] [-> | ->]]; exact Hold.
Qed.

(** ** one iteration of fc_process is sound for the extended request set *)
Lemma dqf_visit_sound : visit_sound DequeFull held_of dqf_okop dqf_dec dqf_visit.
Proof.
  intros rho p c r op tid arg p' c' cs Hv Hr Hok Hag. unfold dqf_visit in Hv.
  destruct p as [[[q oq] aq]|].
  - destruct (agrees_held_some Hag) as [Hq Hokq].
    destruct (dqf_okop_cases _ Hok) as [-> | [-> | [-> | [-> | [-> | [-> | ->]]]]]];
      destruct (dqf_okop_cases _ Hokq) as [-> | [-> | [-> | [-> | [-> | [-> | ->]]]]]];
      destruct c as [|x0 c0]; cbn in Hv; inversion Hv; subst p' c' cs; clear Hv;
      try (vs_keep Hr Hok);
      try (vs_same Hag);
      try (cbn [map held_of collide fst snd]; split; [first [vs_nodup2 Hr Hq | vs_nodup2 Hq Hr]|];
           split; [intros qq_ [<-|[<-|[]]]; cbn; auto|];
           split; [eapply dqf_pair_run; [eassumption|eassumption|reflexivity]|];
           split; [eapply dqf_pair_run; [eassumption|eassumption|reflexivity]|];
           split; [intros ? ? ? []|intros ? []]).
  - destruct (dqf_okop_cases _ Hok) as [-> | [-> | [-> | [-> | [-> | [-> | ->]]]]]];
      cbn in Hv; inversion Hv; subst p' c' cs; clear Hv; first [vs_keep Hr Hok | vs_same Hag].
Qed.

(** fc_process never changes the deque *)
Lemma dq_visit_cont p d r op tid arg p1 d1 cs1 : dq_visit p d r op tid arg = (p1, d1, cs1) -> d1 = d.
Proof.
  intros Hv. unfold dq_visit in Hv. destruct p as [[[q oq] aq]|];
    repeat match type of Hv with context [if ?b then _ else _] => destruct b end; inversion Hv; reflexivity.
Qed.

Lemma dq_process_cont : forall reqs p d p' d' cs, dq_process p d reqs = (p', d', cs) -> d' = d.
Proof.
  induction reqs as [|[[[r op] tid] arg] rest IH]; intros p d p' d' cs Hrun; unfold dq_process in Hrun.
  - cbn in Hrun. inversion Hrun; reflexivity.
  - cbn [batch_run] in Hrun. destruct (dq_visit p d r op tid arg) as [[p1 d1] cs1] eqn:Hv.
    destruct (batch_run dq_visit p1 d1 rest) as [[p2 d2] cs2] eqn:Hr. inversion Hrun; subst.
    apply dq_visit_cont in Hv. subst d1. eapply IH; exact Hr.
Qed.

(** ** fc_process over a whole list of pending requests, clear requests among them.

    The responses written by one fc_process call are those of a legal sequential run of the completed requests
    from the current deque [d] (specification with clear), which leaves [d] unchanged; every completed request is
    one of the pending ones, none is completed twice, the request left in itPrev is not completed. *)
Theorem fcdequefull_process_sound : forall reqs d p' d' cs,
  NoDup (map rec_of reqs) -> Forall (fun x => dqf_okop (snd (fst (fst x))) = true) reqs ->
  dqf_process None d reqs = (p', d', cs) ->
  let rho := reqs_env reqs in
  d' = d /\
  legal (Sp:=DequeFull) d (map (fun x => (op_of DequeFull dqf_dec rho (fst x), snd x)) cs) /\
  final (Sp:=DequeFull) d (map (fun x => (op_of DequeFull dqf_dec rho (fst x), snd x)) cs) = d /\
  NoDup (map fst cs) /\
  (forall q, In q (map fst cs) -> In q (map rec_of reqs)) /\
  (forall x, In x (held_of p') -> ~ In (fst (fst x)) (map fst cs)).
Proof.
  intros reqs d p' d' cs Hnd Hall Hrun rho.
  pose proof (reqs_env_agrees dqf_okop Hnd Hall) as Hag.
  assert (H0 : agrees dqf_okop rho (held_of None)) by (intros ? ? ? []).
  destruct (batch_run_sound dqf_visit_sound None d Hrun Hag H0 Hnd) as (W1 & W2 & W3 & W4 & W5 & W6).
  { intros x []. }
  assert (Hd : d' = d) by (eapply dq_process_cont; exact Hrun).
  split; [exact Hd|]. split; [exact (proj1 (run_comps_legal DequeFull dqf_okop dqf_dec _ _ _) W3)|].
  split; [unfold rho; rewrite <- (final_comps_final DequeFull dqf_dec), W4; exact Hd|]. split; [exact W1|].
  split.
  - intros q Hq. destruct (W2 q Hq) as [H|[]]; exact H.
  - intros x Hx. apply (W6 x Hx).
Qed.

(** ** a clear request is never part of a collision: every collided pair is (a push word, a pop word), whatever
       request words are pending and whatever itPrev holds *)
Lemma dq_visit_pair_push_pop p d r op x : dq_visit_pair p d r op = Some x -> dqf_pair_push_pop x = true.
Proof.
  unfold dq_visit_pair. destruct p as [[[q oq] aq]|]; [|discriminate].
  destruct (dq_push_front op) eqn:E1; [|destruct (dq_push_back op) eqn:E2; [|destruct (dq_pop_front op) eqn:E3;
    [|destruct (dq_pop_back op) eqn:E4; [|discriminate]]]].
  - destruct (dq_pop_front oq) eqn:F1; cbn [orb].
    + intros H; inversion H; subst x. cbn. rewrite E1, F1. reflexivity.
    + destruct (is_nil d); cbn [andb]; [|discriminate]. destruct (dq_pop_back oq) eqn:F2; [|discriminate].
      intros H; inversion H; subst x. cbn. rewrite E1, F2. cbn. apply orb_true_r.
  - destruct (dq_pop_back oq) eqn:F1; cbn [orb].
    + intros H; inversion H; subst x. cbn. rewrite E2, F1. cbn. rewrite !orb_true_r. reflexivity.
    + destruct (is_nil d); cbn [andb]; [|discriminate]. destruct (dq_pop_front oq) eqn:F2; [|discriminate].
      intros H; inversion H; subst x. cbn. rewrite E2, F2. cbn. rewrite orb_true_r. reflexivity.
  - destruct (is_nil d).
    + destruct (dq_push_back oq) eqn:F1; [|discriminate]. intros H; inversion H; subst x. cbn. rewrite E3, F1. cbn.
      rewrite orb_true_r. reflexivity.
    + destruct (dq_push_front oq) eqn:F1; [|discriminate]. intros H; inversion H; subst x. cbn. rewrite E3, F1. reflexivity.
  - destruct (is_nil d).
    + destruct (dq_push_front oq) eqn:F1; [|discriminate]. intros H; inversion H; subst x. cbn. rewrite E4, F1. cbn.
      apply orb_true_r.
    + destruct (dq_push_back oq) eqn:F1; [|discriminate]. intros H; inversion H; subst x. cbn. rewrite E4, F1. cbn.
      rewrite !orb_true_r. reflexivity.
Qed.

Theorem fcdequefull_pairs_push_pop : forall reqs p d x, In x (dq_pairs p d reqs) -> dqf_pair_push_pop x = true.
Proof.
  induction reqs as [|[[[r op] tid] arg] rest IH]; intros p d x Hin; [destruct Hin|].
  cbn [dq_pairs] in Hin. destruct (dq_visit p d r op tid arg) as [[p1 d1] cs1] eqn:Hv.
  destruct (dq_visit_pair p d r op) as [y|] eqn:Hp; [destruct Hin as [<-|Hin]|]; try (eapply IH; eassumption).
  eapply dq_visit_pair_push_pop; exact Hp.
Qed.

Corollary fcdequefull_clear_never_collided : forall reqs p d rpush opush rpop opop,
  In (rpush, opush, rpop, opop) (dq_pairs p d reqs) -> dqf_clear opush = false /\ dqf_clear opop = false.
Proof.
  intros reqs p d rpush opush rpop opop Hin. pose proof (fcdequefull_pairs_push_pop _ _ _ _ Hin) as H. cbn in H.
  apply andb_true_iff in H. destruct H as [Hpush Hpop]. unfold dqf_clear, dq_push_front, dq_push_back, dq_pop_front, dq_pop_back in *.
  split.
  - destruct (Nat.eqb_spec opush 8) as [->|]; [cbn in Hpush; discriminate|reflexivity].
  - destruct (Nat.eqb_spec opop 8) as [->|]; [cbn in Hpop; discriminate|reflexivity].
Qed.

(** a clear request met by the iterator changes nothing: in particular itPrev survives it (there is no
    `case op_clear` in fc_process), so a push met before and a pop met after a clear request are collided *)
Lemma dqf_visit_clear p d r tid arg : dqf_visit p d r 8 tid arg = (p, d, []).
Proof. reflexivity. Qed.

Example dqf_collide_across_clear :
  dqf_process None [5%Z] [(1, 2, 0, 7%Z); (2, 8, 1, 0%Z); (3, 6, 2, 0%Z)] = (None, [5%Z], collide 1 7%Z 3).
Proof. reflexivity. Qed.
