(** * [Inv2] (HpLiveCopyInv) is preserved by every program of the HP model with the CLASSIC scan; hence it holds,
      together with [HpInv.Inv], in every reachable configuration. *)
From Coq Require Import ZArith List String Bool Lia PeanoNat.
From LV Require Import Base.Conc Base.Events Model.Hp Proofs.HpTrace Proofs.HpInv Proofs.HpSteps Proofs.HpLocal
  Proofs.HpSafe Proofs.HpProofs Proofs.HpLiveCopyRule Proofs.HpLiveCopyInv.
Import ListNotations.
Local Open Scope string_scope.
Local Open Scope list_scope.

Section Safe2.
  Variable c : cfgT.
  Hypothesis Hcl : cInplace c = false.

  Definition rs {R} (t : nat) (p : prog R) (l : view2T) (Q : R -> view2T -> Prop) : Prop :=
    rsafe G V ev Aux (Inv c) Aux2 view2T view2 (Inv2 c) t p l Q.
  Definition II (g : G) (tr : trace) : Prop := I1 G ev Aux (Inv c) g tr.

  Lemma rs_bind {A B} t (p : prog A) (q : A -> prog B) Q l :
    rs t p l (fun r l' => rs t (q r) l' Q) -> rs t (Conc.bind p q) l Q.
  Proof. apply rsafe_bind. Qed.

  Lemma II_facts g tr : II g tr ->
    (forall r j, slot_at tr r j = gslot g r j) /\
    (forall r j, r_owner (get_rec g r) = false -> gslot g r j = 0%Z) /\
    (forall r j, ~ In r (g_list g) -> gslot g r j = 0%Z) /\
    (forall r j, cH c <= j -> gslot g r j = 0%Z).
  Proof.
    intros (a1 & HI). split; [exact (i_slot _ _ _ _ HI)|]. split; [exact (i_zero_unowned _ _ _ _ HI)|].
    split; [exact (i_zero_unlisted _ _ _ _ HI)|exact (i_zero_hi _ _ _ _ HI)].
  Qed.

  (** ** quiet steps *)
  Lemma rs_qact {R} t (f : action) (k : V -> prog R) l Q :
    (forall g e, In e (snd (f g)) -> q3 e = true) -> v2_cp l = CNone ->
    (forall v, rs t (k v) l Q) -> rs t (Act f k) l Q.
  Proof.
    intros Hq Hcp Hk. unfold rs. cbn [rsafe]. intros g a tr HI Hv _ _. unfold view2 in Hv.
    exists a. split; [apply (inv2_quiet c g); [exact HI|apply Hq|now rewrite Hv]|].
    split; [apply frame2_refl|]. unfold view2. rewrite Hv. apply Hk.
  Qed.
  Lemma rs_qemit {R} t es (k : prog R) l Q :
    (forall e, In e es -> q3 e = true) -> v2_cp l = CNone -> rs t k l Q -> rs t (Emit es k) l Q.
  Proof.
    intros Hq Hcp Hk. unfold rs. cbn [rsafe]. intros g a tr HI Hv _ _. unfold view2 in Hv.
    exists a. split; [apply (inv2_quiet c g); [exact HI|apply Hq|now rewrite Hv]|].
    split; [apply frame2_refl|]. unfold view2. rewrite Hv. apply Hk.
  Qed.

  Ltac qa :=
    let g := fresh "g" in let e := fresh "e" in let He := fresh "He" in
    intros g e He; unfold a_cas_owner, a_cas_head in He; cbn in He;
    repeat match type of He with context [if ?b then _ else _] => destruct b; cbn in He end;
    repeat (destruct He as [He|He]; [subst e; reflexivity|]); contradiction.
  Ltac qe :=
    let e := fresh "e" in let He := fresh "He" in
    intros e He; cbn in He; repeat (destruct He as [He|He]; [subst e; reflexivity|]); contradiction.
  Ltac qact := apply rs_qact; [qa|reflexivity|].
  Ltac qemit := apply rs_qemit; [qe|reflexivity|].

  (** ** the scan *)
  Definition SV (acc : list Z) (td : option (list nat)) (cur : option (nat * nat)) : view2T :=
    mkV2 (Some (mkS2 acc td cur)) CNone.
  Definition cl (st : scan2) (n r : nat) (p : Z) (f : nat -> nat) : Prop :=
    In p (s_coll st) \/
    match s_todo st with
    | None => True
    | Some td => In r td \/ exists k, s_cur st = Some (r, k) /\ k <= f n
    end.
  Definition cur_done (cur : option (nat * nat)) : Prop := cur = None \/ exists r, cur = Some (r, cH c).

  Lemma scan_step g g' a tr t es st st' :
    Inv2 c g a tr -> a t = mkV2 (Some st) CNone -> (forall e, In e es -> q3 e = true) ->
    (forall s r p f, last_sb tr t = Some s -> s < List.length tr -> p <> 0%Z ->
       chain_w (tr ++ Conc.tag t es) s r p f -> chain_w tr s r p f -> cl st (List.length tr) r p f ->
       cl st' (List.length (tr ++ Conc.tag t es)) r p f) ->
    Inv2 c g' (upd2 a t (mkV2 (Some st') CNone)) (tr ++ Conc.tag t es).
  Proof.
    intros HI Hv Hq Hstep. apply (inv2_upd c g); [exact HI|intros e He; apply q3_q2; now apply Hq| |exact I].
    cbn [v2_scan]. intros st0 E. inversion E; subst st0.
    destruct (j_scan _ _ _ _ HI t st) as (s & Hs & Hc); [now rewrite Hv|].
    exists s. split; [rewrite last_sb_nosb; [exact Hs|intros e He; apply q3_nosb; now apply Hq]|].
    intros r p f Hp Hch. pose proof (chain_w_prefix _ _ _ _ _ _ Hch) as Hch0.
    apply (Hstep s r p f Hs (last_sb_lt _ _ _ Hs) Hp Hch Hch0). apply Hc; assumption.
  Qed.

  Lemma chain_mono_len (tr : trace) es s r p f :
    chain_w (tr ++ es) s r p f -> s <= List.length tr -> f (List.length tr) <= f (List.length (tr ++ es)).
  Proof. intros (_ & Hm) Hs. apply Hm; rewrite ?app_length; lia. Qed.

  Lemma rs_slots_loop t r' l' n : forall k acc (Q : list Z -> view2T -> Prop),
    (forall acc', Q acc' (SV acc' (Some l') (Some (r', k + n)))) ->
    rs t (slots_loop r' (seq k n) acc) (SV acc (Some l') (Some (r', k))) Q.
  Proof.
    induction n as [|n IH]; intros k acc Q HQ; cbn [seq slots_loop].
    - unfold rs. cbn [rsafe]. specialize (HQ acc). now rewrite Nat.add_0_r in HQ.
    - unfold rs. cbn [rsafe]. intros g a tr HI Hv Hb _. unfold view2 in Hv. cbn [a_ld_slot fst snd vZ].
      destruct (II_facts g tr Hb) as (Fs & _ & _ & _).
      set (v := gslot g r' k). set (acc' := if (v =? 0)%Z then acc else acc ++ [v]).
      exists (upd2 a t (SV acc' (Some l') (Some (r', S k)))). split; [|split; [apply frame_upd2|]].
      + apply (scan_step g g a tr t _ (mkS2 acc (Some l') (Some (r', k)))); [exact HI|exact Hv|intros e [<-|[]]; reflexivity|].
        intros s r p f Hs Hlt Hp Hch Hch0 Hc. unfold cl in *. cbn [s_coll s_todo s_cur] in *.
        assert (Hacc : In p acc -> In p acc') by (intros Hin; unfold acc'; destruct (v =? 0)%Z; [exact Hin|apply in_or_app; now left]).
        destruct Hc as [Hc|[Hc|(k0 & E & Hle)]]; [left; auto|right; now left|].
        inversion E; subst r k0.
        destruct (Nat.eq_dec (f (List.length tr)) k) as [Ek|Nk].
        * left. pose proof (chain_w_now _ _ _ _ _ Hch0 ltac:(lia)) as Hnow. rewrite Ek, Fs in Hnow. fold v in Hnow.
          unfold acc'. rewrite Hnow. destruct (Z.eqb_spec p 0); [congruence|]. apply in_or_app. right. now left.
        * right. right. exists (S k). split; [reflexivity|].
          pose proof (chain_mono_len _ _ _ _ _ _ Hch ltac:(lia)). lia.
      + unfold view2. rewrite upd2_same. fold v. fold acc'. apply IH. intros acc2. specialize (HQ acc2).
        now rewrite Nat.add_succ_r in HQ.
  Qed.

  Lemma rs_recs_loop t : forall l acc cur (Q : list Z -> view2T -> Prop),
    cur_done cur ->
    (forall acc' cur', cur_done cur' -> Q acc' (SV acc' (Some []) cur')) ->
    rs t (recs_loop c l acc) (SV acc (Some l) cur) Q.
  Proof.
    induction l as [|r' l' IH]; intros acc cur Q Hcd HQ; cbn [recs_loop].
    - unfold rs. cbn [rsafe]. now apply HQ.
    - unfold rs. cbn [rsafe]. intros g a tr HI Hv Hb _. unfold view2 in Hv. cbn [a_ld_owner fst snd vB].
      destruct (II_facts g tr Hb) as (Fs & Fo & _ & Fh).
      assert (Hcommon : forall s r p f, s < List.length tr -> p <> 0%Z -> chain_w tr s r p f ->
                cl (mkS2 acc (Some (r' :: l')) cur) (List.length tr) r p f ->
                In p acc \/ r = r' \/ In r l').
      { intros s r p f Hlt Hp Hch0 Hc. unfold cl in Hc. cbn [s_coll s_todo s_cur] in Hc.
        destruct Hc as [Hc|[[Hc|Hc]|(k0 & E & Hle)]]; [now left|right; left; congruence|right; now right|].
        exfalso. destruct Hcd as [->|(r0 & ->)]; [discriminate|]. inversion E; subst r0 k0.
        pose proof (chain_w_now _ _ _ _ _ Hch0 ltac:(lia)) as Hnow. rewrite Fs, Fh in Hnow by exact Hle. congruence. }
      destruct (r_owner (get_rec g r')) eqn:Eo.
      + exists (upd2 a t (SV acc (Some l') (Some (r', 0)))). split; [|split; [apply frame_upd2|]].
        * apply (scan_step g g a tr t _ (mkS2 acc (Some (r' :: l')) cur)); [exact HI|exact Hv|intros e [<-|[]]; reflexivity|].
          intros s r p f Hs Hlt Hp Hch Hch0 Hc. destruct (Hcommon s r p f Hlt Hp Hch0 Hc) as [H|[H|H]]; unfold cl; cbn [s_coll s_todo s_cur].
          -- now left.
          -- right. right. exists 0. split; [now rewrite H|lia].
          -- right. now left.
        * unfold view2. rewrite upd2_same. apply rs_bind. apply (rs_slots_loop t r' l' (cH c) 0 acc).
          intros acc'. cbn [Nat.add]. apply IH; [right; eauto|exact HQ].
      + exists (upd2 a t (SV acc (Some l') None)). split; [|split; [apply frame_upd2|]].
        * apply (scan_step g g a tr t _ (mkS2 acc (Some (r' :: l')) cur)); [exact HI|exact Hv|intros e [<-|[]]; reflexivity|].
          intros s r p f Hs Hlt Hp Hch Hch0 Hc. destruct (Hcommon s r p f Hlt Hp Hch0 Hc) as [H|[H|H]]; unfold cl; cbn [s_coll s_todo s_cur].
          -- now left.
          -- exfalso. subst r. pose proof (chain_w_now _ _ _ _ _ Hch0 ltac:(lia)) as Hnow.
             rewrite Fs, (Fo r' _ Eo) in Hnow. congruence.
          -- right. now left.
        * unfold view2. rewrite upd2_same. apply IH; [now left|exact HQ].
  Qed.

  Lemma firstn_app_exact {A} (l l' : list A) k : firstn (List.length l + k) (l ++ l') = l ++ firstn k l'.
  Proof. apply firstn_app_2. Qed.

  Lemma last_sb_dispose_prefix (tr : trace) t l k :
    last_sb (tr ++ firstn k (Conc.tag t (map ev_dispose l))) t = last_sb tr t.
  Proof.
    unfold Conc.tag. rewrite !firstn_map. fold (Conc.tag t (map ev_dispose (firstn k l))).
    apply last_sb_nosb. intros e He. apply in_map_iff in He. destruct He as (x & <- & _). reflexivity.
  Qed.

  Lemma rs_classic_scan t r (Q : list Z -> view2T -> Prop) :
    (forall kept st, Q kept (mkV2 (Some st) CNone)) -> rs t (classic_scan c r) (SV [] None None) Q.
  Proof.
    intros HQ. unfold classic_scan. unfold rs. cbn [rsafe]. intros g a tr HI Hv Hb _. unfold view2 in Hv.
    cbn [a_ld_head fst snd vR]. destruct (II_facts g tr Hb) as (Fs & _ & Fl & _).
    exists (upd2 a t (SV [] (Some (g_list g)) None)). split; [|split; [apply frame_upd2|]].
    { apply (scan_step g g a tr t _ (mkS2 [] None None)); [exact HI|exact Hv|intros e [<-|[]]; reflexivity|].
      intros s r0 p f Hs Hlt Hp Hch Hch0 _. unfold cl. cbn [s_coll s_todo s_cur]. right. left.
      destruct (in_dec Nat.eq_dec r0 (g_list g)) as [Hin|Hnin]; [exact Hin|exfalso].
      pose proof (chain_w_now _ _ _ _ _ Hch0 ltac:(lia)) as Hnow. rewrite Fs, (Fl r0 _ Hnin) in Hnow. congruence. }
    unfold view2. rewrite upd2_same. apply rs_bind. apply rs_recs_loop; [now left|].
    intros plist cur Hcd. qact. intros v2. cbv zeta. set (l := vL v2).
    unfold rs. cbn [rsafe]. intros g1 a1 tr1 HI1 Hv1 Hb1 _. unfold view2 in Hv1.
    destruct (II_facts g1 tr1 Hb1) as (Fs1 & _ & _ & Fh1).
    exists (upd2 a1 t (a1 t)). split; [|split; [apply frame_upd2|]].
    - destruct (j_scan _ _ _ _ HI1 t (mkS2 plist (Some []) cur)) as (s & Hs & Hc); [now rewrite Hv1|].
      assert (Hnosb : forall e, In e (map ev_dispose (classic_freed plist l)) -> is_cli_named "g_scan_begin" e = false).
      { intros e He. apply in_map_iff in He. destruct He as (x & <- & _). reflexivity. }
      apply (inv2_upd_gen c g1); [exact HI1| | | |].
      + intros st Hst. apply scan_ok_nosb; [exact Hnosb|]. now apply (j_scan _ _ _ _ HI1).
      + rewrite Hv1. exact I.
      + intros k p Hk s' Hs' Hp r0 (f & Hch).
        assert (Hin : In p (classic_freed plist l)).
        { apply nth_error_In in Hk. apply in_map_iff in Hk. destruct Hk as (x & E & Hx). inversion E; subst x. exact Hx. }
        rewrite firstn_app_exact in Hs'.
        assert (Es : s' = s) by (rewrite last_sb_dispose_prefix in Hs'; congruence).
        subst s'. replace (S (List.length tr1 + k)) with (List.length tr1 + S k) in Hch by lia. rewrite firstn_app_exact in Hch.
        pose proof (chain_w_prefix _ _ _ _ _ _ Hch) as Hch0. pose proof (last_sb_lt _ _ _ Hs) as Hlt.
        destruct (Hc r0 p f Hp Hch0) as [Hc1|Hc1]; cbn [s_coll s_todo s_cur] in Hc1.
        * apply (classic_freed_notin plist l p Hin). exact Hc1.
        * destruct Hc1 as [[]|(k0 & E & Hle)]. destruct Hcd as [->|(r1 & ->)]; [discriminate|]. inversion E; subst r1 k0.
          pose proof (chain_w_now _ _ _ _ _ Hch0 ltac:(lia)) as Hnow. rewrite Fs1, Fh1 in Hnow by exact Hle. congruence.
      + intros k Hk. exfalso. apply nth_error_In in Hk. apply in_map_iff in Hk. destruct Hk as (x & E & _). discriminate.
    - unfold view2. rewrite upd2_same, Hv1.
      change (rs t (Act (a_st_cur r (classic_kept plist l)) (fun _ => Ret (classic_kept plist l))) (SV plist (Some []) cur) Q).
      qact. intros _. unfold rs. cbn [rsafe]. apply HQ.
  Qed.

  Lemma rs_scan t r (Q : unit -> view2T -> Prop) : Q tt V0 -> rs t (scan c r) V0 Q.
  Proof.
    intros HQ. unfold scan. unfold rs. cbn [rsafe]. intros g a tr HI Hv _ _. unfold view2 in Hv. cbn [a_faa_scan fst snd].
    exists (upd2 a t (SV [] None None)). split; [|split; [apply frame_upd2|]].
    - apply (inv2_upd c g); [exact HI|intros e [<-|[<-|[]]]; reflexivity| |exact I].
      cbn [SV v2_scan]. intros st E. inversion E; subst st. exists (S (List.length tr)).
      split; [apply (last_sb_sb_evs tr t r)|]. intros r0 p f _ _. right. exact I.
    - unfold view2. rewrite upd2_same. apply rs_bind. rewrite Hcl. apply rs_classic_scan. intros kept st.
      unfold rs. cbn [rsafe]. intros g1 a1 tr1 HI1 Hv1 _ _. unfold view2 in Hv1.
      exists (upd2 a1 t V0). split; [|split; [apply frame_upd2|]].
      + apply (inv2_upd c g1); [exact HI1|intros e [<-|[]]; reflexivity|intros st0 E; discriminate|exact I].
      + unfold view2. rewrite upd2_same. exact HQ.
  Qed.

  (** ** the other programs *)
  Lemma rs_push t r p l (Q : option bool -> view2T -> Prop) :
    v2_cp l = CNone -> (forall o, Q o l) -> rs t (push c r p) l Q.
  Proof.
    intros Hcp HQ. unfold push. apply rs_qact; [qa|exact Hcp|]. intros v. cbv zeta.
    destruct (cR c <=? List.length (vL v))%nat.
    - apply rs_qemit; [qe|exact Hcp|]. apply HQ.
    - apply rs_qact; [qa|exact Hcp|]. intros _. apply HQ.
  Qed.

  Lemma rs_retire t r p (Q : unit -> view2T -> Prop) : Q tt V0 -> rs t (retire c r p) V0 Q.
  Proof.
    intros HQ. unfold retire. apply rs_bind. apply rs_push; [reflexivity|]. intros [[|]|]; try exact HQ. now apply rs_scan.
  Qed.

  Lemma rs_move_loop t r src (Q : unit -> view2T -> Prop) : Q tt V0 -> rs t (move_loop c r src) V0 Q.
  Proof.
    intros HQ. induction src as [|x tl IH]; cbn [move_loop]; [exact HQ|].
    apply rs_bind. apply rs_push; [reflexivity|]. intros [[|]|]; try exact IH.
    apply rs_bind. apply rs_scan. exact IH.
  Qed.

  Lemma rs_help_loop t r l (Q : unit -> view2T -> Prop) : Q tt V0 -> rs t (help_loop c r l) V0 Q.
  Proof.
    intros HQ. induction l as [|h l' IH]; cbn [help_loop]; [exact HQ|].
    destruct (Nat.eqb h r); [exact IH|]. qact. intros v. destruct (vB v); [exact IH|].
    qact. intros v1. destruct (vB v1); [exact IH|]. qact. intros v2. destruct (negb (vB v2)); [exact IH|].
    qact. intros v3. apply rs_bind. apply rs_move_loop. qact. intros _. qact. intros _. qact. intros _.
    apply rs_bind. apply rs_scan. exact IH.
  Qed.

  Lemma rs_help_scan t r (Q : unit -> view2T -> Prop) : Q tt V0 -> rs t (help_scan c r) V0 Q.
  Proof. intros HQ. unfold help_scan. qact. intros v. now apply rs_help_loop. Qed.

  Lemma rs_clear_loop t r js (Q : unit -> view2T -> Prop) : Q tt V0 -> rs t (clear_loop r js) V0 Q.
  Proof. intros HQ. induction js as [|j js IH]; cbn [clear_loop]; [exact HQ|]. qact. intros _. exact IH. Qed.

  Lemma rs_free_thread_data t r help (Q : unit -> view2T -> Prop) : Q tt V0 -> rs t (free_thread_data c r help) V0 Q.
  Proof.
    intros HQ. unfold free_thread_data. apply rs_bind. apply rs_clear_loop. apply rs_bind. apply rs_scan.
    apply rs_bind. assert (Htail : rs t (Emit [EvCli "g_det" [zn r]] (Act (a_st_owner r false) (fun _ => Ret tt))) V0 Q).
    { qemit. qact. intros _. exact HQ. }
    destruct help; [apply rs_help_scan; exact Htail|exact Htail].
  Qed.

  Lemma rs_reuse_loop t l (Q : option nat -> view2T -> Prop) : (forall o, Q o V0) -> rs t (reuse_loop l) V0 Q.
  Proof.
    intros HQ. induction l as [|r l' IH]; cbn [reuse_loop]; [apply HQ|].
    qact. intros v. destruct (vB v); [|exact IH]. qemit. qact. intros _. apply HQ.
  Qed.

  Lemma rs_push_loop t fuel : forall r exp (Q : bool -> view2T -> Prop), (forall b, Q b V0) -> rs t (push_loop fuel r exp) V0 Q.
  Proof.
    induction fuel as [|f IH]; intros r exp Q HQ; cbn [push_loop]; [apply HQ|].
    qact. intros v. destruct (vB v); [|now apply IH]. qemit. apply HQ.
  Qed.

  Lemma rs_alloc t (Q : option nat -> view2T -> Prop) : (forall o, Q o V0) -> rs t (alloc_thread_data c) V0 Q.
  Proof.
    intros HQ. unfold alloc_thread_data. qact. intros v. apply rs_bind. apply rs_reuse_loop. intros [r|]; [apply HQ|].
    qact. intros v1. qact. intros v2. apply rs_bind. apply rs_push_loop. intros b. apply HQ.
  Qed.

  Lemma rs_assign t r j p (Q : unit -> view2T -> Prop) : Q tt V0 -> rs t (assign r j p) V0 Q.
  Proof. intros HQ. unfold assign. qact. intros _. qact. intros _. exact HQ. Qed.
  Lemma rs_clear t r j (Q : unit -> view2T -> Prop) : Q tt V0 -> rs t (clear r j) V0 Q.
  Proof. intros HQ. unfold clear. qact. intros _. exact HQ. Qed.
  Lemma rs_protect_loop t fuel : forall r j k pcur (Q : option Z -> view2T -> Prop),
    (forall o, Q o V0) -> rs t (protect_loop fuel r j k pcur) V0 Q.
  Proof.
    induction fuel as [|f IH]; intros r j k pcur Q HQ; cbn [protect_loop]; [apply HQ|].
    qact. intros _. qact. intros _. qact. intros v. destruct (vZ v =? pcur)%Z; [apply HQ|now apply IH].
  Qed.
  Lemma rs_protect t r j k (Q : option Z -> view2T -> Prop) : (forall o, Q o V0) -> rs t (protect c r j k) V0 Q.
  Proof. intros HQ. unfold protect. qact. intros v. now apply rs_protect_loop. Qed.

  (** ** Guard::copy as a client operation: "copy j i" ... "copied" *)
  Lemma nth_error_snoc_last {A} (l : list A) x : nth_error (l ++ [x]) (List.length l) = Some x.
  Proof. rewrite nth_error_app2 by lia. now rewrite Nat.sub_diag. Qed.
  Lemma nth_error_app_old {A} (l l' : list A) m x : nth_error l m = Some x -> nth_error (l ++ l') m = Some x.
  Proof. intros H. rewrite nth_error_app1; [exact H|]. eapply nth_error_lt_length; eauto. Qed.

  Lemma rs_copy_op {R} t r j i (x0 : R) (Q : R -> view2T -> Prop) :
    Q x0 V0 ->
    rs t (Emit [cli "copy" [zn j; zn i]] (Conc.bind (copy r j i) (fun _ => Emit [cli "copied" []] (Ret x0)))) V0 Q.
  Proof.
    intros HQ. unfold rs. cbn [rsafe]. intros g a tr HI Hv _ _. unfold view2 in Hv.
    exists (upd2 a t (mkV2 None (CStart (List.length tr) j i))). split; [|split; [apply frame_upd2|]].
    { apply (inv2_upd c g); [exact HI|intros e [<-|[]]; reflexivity|intros st E; discriminate|].
      cbn [v2_cp cp_ok Conc.tag map]. split; [apply nth_error_snoc_last|].
      intros m e Hm Hn. apply nth_error_lt_length in Hn. rewrite app_length in Hn. cbn in Hn. lia. }
    unfold view2. rewrite upd2_same. unfold copy. cbn [Conc.bind]. cbn [rsafe].
    intros g1 a1 tr1 HI1 Hv1 Hb1 _. unfold view2 in Hv1. cbn [a_ld_slot fst snd vZ].
    destruct (II_facts g1 tr1 Hb1) as (Fs1 & _).
    pose proof (j_cp _ _ _ _ HI1 t) as Hcp1. rewrite Hv1 in Hcp1. cbn [v2_cp cp_ok] in Hcp1. destruct Hcp1 as (C1 & C2).
    set (c0 := List.length tr) in *. set (x := gslot g1 r i).
    exists (upd2 a1 t (mkV2 None (CLoaded c0 j i r (List.length tr1) x))). split; [|split; [apply frame_upd2|]].
    { apply (inv2_upd c g1); [exact HI1|intros e [<-|[]]; reflexivity|intros st E; discriminate|].
      cbn [v2_cp cp_ok Conc.tag map]. pose proof (nth_error_lt_length _ _ _ C1) as Hc0.
      split; [now apply nth_error_app_old|]. split; [exact Hc0|]. split; [apply nth_error_snoc_last|].
      split; [rewrite firstn_app_le by lia; rewrite firstn_all; unfold x; now rewrite Fs1|].
      intros m e Hm Hn. destruct (Nat.lt_ge_cases m (List.length tr1)) as [Hl|Hl].
      - rewrite nth_error_app1 in Hn by exact Hl. exfalso. eapply C2; eauto.
      - rewrite nth_error_app2 in Hn by exact Hl. destruct (m - List.length tr1) as [|m']; cbn in Hn; [|destruct m'; discriminate].
        inversion Hn; subst e. reflexivity. }
    unfold view2. rewrite upd2_same. unfold assign. cbn [Conc.bind rsafe].
    intros g2 a2 tr2 HI2 Hv2 _ _. unfold view2 in Hv2. cbn [a_st_slot fst snd].
    pose proof (j_cp _ _ _ _ HI2 t) as Hcp2. rewrite Hv2 in Hcp2. cbn [v2_cp cp_ok] in Hcp2.
    destruct Hcp2 as (D1 & D2 & D3 & D4 & D5). set (ld := List.length tr1) in *.
    exists (upd2 a2 t (mkV2 None (CStored c0 j i r ld x (S (List.length tr2))))). split; [|split; [apply frame_upd2|]].
    { apply (inv2_upd c g2); [exact HI2|intros e [<-|[<-|[]]]; reflexivity|intros st E; discriminate|].
      cbn [v2_cp cp_ok Conc.tag map]. pose proof (nth_error_lt_length _ _ _ D3) as Hld.
      split; [now apply nth_error_app_old|]. split; [exact D2|]. split; [lia|]. split; [now apply nth_error_app_old|].
      split; [rewrite firstn_app_le by lia; exact D4|].
      split; [rewrite nth_error_app2 by lia; replace (S (List.length tr2) - List.length tr2) with 1 by lia; reflexivity|].
      intros m e Hm Hn Hmw. destruct (Nat.lt_ge_cases m (List.length tr2)) as [Hl|Hl].
      - rewrite nth_error_app1 in Hn by exact Hl. eapply D5; eauto.
      - rewrite nth_error_app2 in Hn by exact Hl. destruct (m - List.length tr2) as [|m'] eqn:Em; cbn in Hn.
        + inversion Hn; subst e. reflexivity.
        + exfalso. destruct m'; [lia|]. destruct m'; discriminate. }
    unfold view2. rewrite upd2_same. cbn [rsafe].
    intros g3 a3 tr3 HI3 Hv3 _ _. unfold view2 in Hv3. cbn [a_faa_sync fst snd].
    pose proof (j_cp _ _ _ _ HI3 t) as Hcp3. rewrite Hv3 in Hcp3. cbn [v2_cp cp_ok] in Hcp3.
    destruct Hcp3 as (E1 & E2 & E3 & E4 & E5 & E6 & E7). set (w := S (List.length tr2)) in *.
    exists (upd2 a3 t (mkV2 None (CStored c0 j i r ld x w))). split; [|split; [apply frame_upd2|]].
    { apply (inv2_upd c g3); [exact HI3|intros e [<-|[]]; reflexivity|intros st E; discriminate|].
      cbn [v2_cp cp_ok Conc.tag map]. pose proof (nth_error_lt_length _ _ _ E4) as Hld. pose proof (nth_error_lt_length _ _ _ E6) as Hw.
      split; [now apply nth_error_app_old|]. split; [exact E2|]. split; [exact E3|]. split; [now apply nth_error_app_old|].
      split; [rewrite firstn_app_le by lia; exact E5|]. split; [now apply nth_error_app_old|].
      intros m e Hm Hn Hmw. destruct (Nat.lt_ge_cases m (List.length tr3)) as [Hl|Hl].
      - rewrite nth_error_app1 in Hn by exact Hl. eapply E7; eauto.
      - rewrite nth_error_app2 in Hn by exact Hl. destruct (m - List.length tr3) as [|m']; cbn in Hn; [|destruct m'; discriminate].
        inversion Hn; subst e. reflexivity. }
    unfold view2. rewrite upd2_same. cbn [rsafe].
    intros g4 a4 tr4 HI4 Hv4 _ _. unfold view2 in Hv4.
    pose proof (j_cp _ _ _ _ HI4 t) as Hcp4. rewrite Hv4 in Hcp4. cbn [v2_cp] in Hcp4.
    exists (upd2 a4 t V0). split; [|split; [apply frame_upd2|]].
    { apply (inv2_upd_gen c g4); [exact HI4|intros st E; discriminate|exact I| |].
      - intros k p Hk. exfalso. destruct k as [|[|k]]; cbn in Hk; discriminate.
      - intros k Hk. destruct k as [|k]; [|destruct k; discriminate]. rewrite Nat.add_0_r. rewrite firstn_app_le by lia. rewrite firstn_all.
        exists c0, j, i, r, ld, x, w. exact Hcp4. }
    unfold view2. rewrite upd2_same. cbn [rsafe]. exact HQ.
  Qed.

  (** ** client operations, threads *)
  Definition op_post2 (x : option local) (l : view2T) : Prop := l = V0.

  Ltac skipq := qemit; cbn [rsafe]; reflexivity.

  Lemma rs_run_op t lo o : rs t (run_op c lo o) V0 op_post2.
  Proof.
    assert (Hskip : rs t (Emit [cli "skip" []] (Ret (Some lo))) V0 op_post2) by (qemit; reflexivity).
    destruct o; cbn [run_op].
    - (* attach *) qemit. destruct (l_rec lo) as [r|].
      + qemit. reflexivity.
      + apply rs_bind. apply rs_alloc. intros [r|]; qemit; reflexivity.
    - destruct (l_rec lo) as [r|]; [|exact Hskip]. destruct (negb (op_valid c ODetach)); [exact Hskip|].
      qemit. apply rs_bind. apply rs_free_thread_data. qemit. reflexivity.
    - destruct (l_rec lo) as [r|]; [|exact Hskip]. destruct (negb (op_valid c (OProtect j k))); [exact Hskip|].
      qemit. apply rs_bind. apply rs_protect. intros [p|]; qemit; reflexivity.
    - destruct (l_rec lo) as [r|]; [|exact Hskip]. destruct (negb (op_valid c (OAssign j o))); [exact Hskip|].
      qemit. apply rs_bind. destruct (o =? 0)%Z; [apply rs_clear|apply rs_assign]; qemit; reflexivity.
    - destruct (l_rec lo) as [r|]; [|exact Hskip]. destruct (negb (op_valid c (OClear j))); [exact Hskip|].
      qemit. apply rs_bind. apply rs_clear. qemit. reflexivity.
    - destruct (l_rec lo) as [r|]; [|exact Hskip]. destruct (negb (op_valid c (OPublish k o))); [exact Hskip|].
      qemit. qact. intros v. destruct (vZ v =? 0)%Z; [reflexivity|]. qemit. apply rs_bind. apply rs_retire. qemit. reflexivity.
    - destruct (l_rec lo) as [r|]; [|exact Hskip]. destruct (negb (op_valid c (ORetire o))); [exact Hskip|].
      destruct ((o <=? 0)%Z || (ARENA <=? o)%Z); [exact Hskip|]. qemit. apply rs_bind. apply rs_retire. qemit. reflexivity.
    - destruct (l_rec lo) as [r|]; [|exact Hskip]. destruct (negb (op_valid c OScan)); [exact Hskip|].
      qemit. apply rs_bind. apply rs_scan. qemit. reflexivity.
    - destruct (l_rec lo) as [r|]; [|exact Hskip]. destruct (negb (op_valid c (OTouch j))); [exact Hskip|].
      qemit. reflexivity.
    - destruct (l_rec lo) as [r|]; [|exact Hskip]. destruct (negb (op_valid c (OCopy j i))); [exact Hskip|].
      apply rs_copy_op. reflexivity.
  Qed.

  Lemma rs_run_ops t os : forall lo, rs t (run_ops c lo os) V0 (fun _ _ => True).
  Proof.
    induction os as [|o rest IH]; intros lo; cbn [run_ops]; [exact I|].
    apply rs_bind. eapply rsafe_weaken; [|apply rs_run_op].
    intros [lo'|] l' Hp; unfold op_post2 in Hp; subst l'; [apply IH|exact I].
  Qed.

  Lemma rs_thread t os : rs t (thread_prog c os) V0 (fun _ _ => True).
  Proof. unfold thread_prog. qact. intros _. apply rs_run_ops. Qed.

  (** ** every reachable configuration *)
  Lemma init_ok2 ths :
    Conc.cfg_ok (view12 Aux lview view Aux2 view2T view2) (Inv12 G ev Aux (Inv c) Aux2 (Inv2 c)) (init_cfg c ths).
  Proof.
    apply (cfg_ok_pair G V ev Aux lview view (Inv c) Aux2 view2T view2 (Inv2 c) (init_cfg c ths) aux0 (fun _ => V0)).
    - apply inv_init.
    - apply inv2_init.
    - intros t p Hp. cbn [init_cfg Conc.threads] in Hp. rewrite nth_error_map in Hp.
      destruct (nth_error ths t); inversion Hp; subst. split; [apply safe_thread|apply rs_thread].
  Qed.

  Lemma reach_inv2 ths cf : Conc.reach (init_cfg c ths) cf ->
    exists a1 a2, Inv c (Conc.shared cf) a1 (Conc.trace cf) /\ Inv2 c (Conc.shared cf) a2 (Conc.trace cf).
  Proof.
    intros H. destruct (Conc.reach_Inv (init_ok2 ths) H) as ([a1 a2] & H1 & H2). exists a1, a2. split; assumption.
  Qed.
End Safe2.
