(** * SkipListNest: the nested-levels invariant [LevOK] as an Owicki-Gries invariant (Conc.safe), base rules.

    Ghost state: the level lists [aLs l] (one Coq list per level, [Lev g aLs], [Nested aLs]).
    Per-thread view: the (node, level) pairs the thread has seen linked ([vkn], learned by loads from cells of nodes it
    already knows to be on that level, carried through find_position), the serial number of its next node ([vser]) and the
    progress of its own insertion [vown = Some (new, a, c)]: the node [new] is linked on the levels < a, on no level >= a,
    and (c = Some x) the pointer in its level-a cell is x.
    Global: no cell is marked ([NM]: this file covers the accesses of insert / contains, which never mark), every listed
    node was allocated by its owner ([i_alloc]: freshness of new nodes).

    The rules of this file are one lemma per kind of access: [SF_nx] (no [next] cell written), [SF_ld] (load: the successor
    of a node known to be on level l is on level l), [SF_alloc] (node constructor), [SF_st_own] / [SF_cas_own] (writes to
    cells of the thread's own node on levels where it is not linked), [SF_cas_link] (the pred CAS of insert_at_position).
    Programs: Proofs/SkipListNestProg.v. *)
From Coq Require Import ZArith List String Bool Lia PeanoNat.
From LV Require Import Base.Conc Base.Events Model.SkipList Proofs.SkipListProofs Proofs.SkipListSub.
Import ListNotations.

(** ** state-level lemmas with explicit lists *)
Definition updL (Ls : nat -> list ptr) (l : nat) (L : list ptr) : nat -> list ptr := fun l' => if Nat.eqb l' l then L else Ls l'.

Lemma lev_link g Ls p l new b :
  Lev g Ls -> Nested Ls -> l < MAXH -> ~ In head (Ls l) ->
  (p = head \/ In p (Ls l)) -> new <> null -> new <> head -> new <> p -> ~ In new (Ls l) ->
  fst (nxt g new l) = fst (nxt g p l) ->
  (match l with O => True | S l' => In new (Ls l') end) ->
  exists L', Lev (setnx g p l (new, b)) (updL Ls l L') /\ Nested (updL Ls l L') /\ (forall q, In q L' <-> q = new \/ In q (Ls l)).
Proof.
  intros HL HN Hl Nh Hp N0 N1 N2 Nin Es Hbelow.
  pose proof (HL l Hl) as W. pose proof (walkl_nodup _ _ _ _ W) as ND.
  assert (Hex : exists L', walkl (setnx g p l (new, b)) l head L' /\ (forall q, In q L' <-> q = new \/ In q (Ls l))).
  { destruct Hp as [->|Hin].
    - exists (new :: Ls l). split.
      + cbn [walkl]. rewrite setnx_same. cbn [fst]. repeat split; auto.
        assert (W' : walkl g l new (Ls l)).
        { destruct (Ls l) as [|n r]; cbn [walkl] in *; [congruence|]. destruct W as (E & Nn & Wr). repeat split; auto. congruence. }
        apply walkl_setnx_other; [|exact W']. right. intros [X|X]; [congruence|contradiction].
      + intros q. cbn [In]. split; intros [H|H]; auto.
    - apply in_split in Hin. destruct Hin as (A & B & EL). rewrite EL in W, ND, Nin, Nh.
      apply walkl_split in W. destruct W as (Sg & Np & WB).
      apply NoDup_remove_2 in ND.
      exists (A ++ p :: new :: B). split.
      + apply walkl_split. split; [|split; [exact Np|]].
        * apply segl_setnx_other; [|exact Sg]. intros [X|X]; [apply Nh; rewrite <- X; apply in_or_app; right; now left|].
          apply ND. apply in_or_app. now left.
        * cbn [walkl]. rewrite setnx_same. cbn [fst]. repeat split; auto.
          assert (W' : walkl g l new B).
          { destruct B as [|n r]; cbn [walkl] in *; [congruence|]. destruct WB as (E & Nn & Wr). repeat split; auto. congruence. }
          apply walkl_setnx_other; [|exact W']. right. intros [X|X]; [congruence|]. apply ND. apply in_or_app. now right.
      + intros q. rewrite EL. rewrite !in_app_iff. cbn [In]. intuition (subst; auto). }
  destruct Hex as (L' & WL' & HL').
  exists L'. unfold updL. split; [|split; [|exact HL']].
  - intros l' Hl'. destruct (Nat.eqb_spec l' l) as [->|Nl]; [exact WL'|].
    apply walkl_setnx_other; [now left|apply HL; exact Hl'].
  - intros l' q Hl' Hq. destruct (Nat.eqb_spec (S l') l) as [E|Ne].
    + destruct (Nat.eqb_spec l' l) as [X|_]; [lia|]. apply HL' in Hq. destruct Hq as [->|Hq].
      * subst l. exact Hbelow.
      * apply HN; auto. now rewrite E.
    + destruct (Nat.eqb_spec l' l) as [->|Nl]; [|apply HN; auto]. apply HL'. right. apply HN; auto.
Qed.

Lemma walkl_next_in g l : forall L p0 p, walkl g l p0 L -> (p = p0 \/ In p L) -> fst (nxt g p l) = null \/ In (fst (nxt g p l)) L.
Proof.
  induction L as [|n r IH]; intros p0 p W Hp; cbn [walkl] in W.
  - destruct Hp as [->|[]]. now left.
  - destruct W as (E & N & W). destruct Hp as [->|Hp].
    + right. left. symmetry. exact E.
    + destruct (IH n p W ltac:(destruct Hp as [<-|Hp]; [now left|now right])) as [H|H]; [now left|right; now right].
Qed.

Lemma nested_down Ls : Nested Ls -> forall d l q, l + d < MAXH -> In q (Ls (l + d)) -> In q (Ls l).
Proof.
  intros HN. induction d as [|d IH]; intros l q Hl Hq; [now rewrite Nat.add_0_r in Hq|].
  apply IH; [lia|]. apply HN; [lia|]. now rewrite Nat.add_succ_r in Hq.
Qed.

Lemma mp_eqb_eq (a b : mptr) : mp_eqb a b = true -> a = b.
Proof.
  unfold mp_eqb. destruct a as [a1 a2], b as [b1 b2]. cbn. intros H. apply andb_true_iff in H. destruct H as [H1 H2].
  apply Nat.eqb_eq in H1. apply Bool.eqb_prop in H2. congruence.
Qed.

Lemma node_id_owner t ser k : t < 64 -> k < 8 -> owner_of (node_id t ser k) = t.
Proof.
  intros Ht Hk. unfold owner_of, node_id, mk_node.
  replace (2 + 8 * (ser * 64 + t) + k - 2) with (k + (ser * 64 + t) * 8) by lia.
  rewrite Nat.div_add by lia. rewrite (Nat.div_small k 8) by lia. cbn [Nat.add].
  rewrite Nat.add_comm, Nat.mod_add by lia. now apply Nat.mod_small.
Qed.
Lemma node_id_ser t ser k : t < 64 -> k < 8 -> ser_of (node_id t ser k) = ser.
Proof.
  intros Ht Hk. unfold ser_of, node_id, mk_node.
  replace (2 + 8 * (ser * 64 + t) + k - 2) with (k + (ser * 64 + t) * 8) by lia.
  rewrite Nat.div_add by lia. rewrite (Nat.div_small k 8) by lia. cbn [Nat.add].
  rewrite Nat.add_comm, Nat.div_add by lia. rewrite (Nat.div_small t 64) by lia. reflexivity.
Qed.

(** ** ghost state, views, invariant *)
Definition ownst := option (ptr * nat * option ptr).
Record nview := mkNV { vkn : list (ptr * nat); vser : nat; vown : ownst }.
Record naux := mkNA { aLs : nat -> list ptr; avw : nat -> nview }.
Definition nvw (a : naux) (t : nat) : nview := avw a t.
Definition mk_na (a : naux) (t : nat) (Ls' : nat -> list ptr) (lv' : nview) : naux :=
  mkNA Ls' (fun u => if Nat.eqb u t then lv' else avw a u).

Lemma nvw_same a t Ls' lv' : nvw (mk_na a t Ls' lv') t = lv'.
Proof. unfold nvw, mk_na. cbn. now rewrite Nat.eqb_refl. Qed.
Lemma nvw_other a t Ls' lv' u : u <> t -> nvw (mk_na a t Ls' lv') u = nvw a u.
Proof. unfold nvw, mk_na. cbn. intros H. destruct (Nat.eqb_spec u t); congruence. Qed.
Lemma frame_mk a t Ls' lv' : Conc.frame nvw t a (mk_na a t Ls' lv').
Proof. intros u Hu. now apply nvw_other. Qed.

Definition NM (g : G) : Prop := forall p l, snd (nxt g p l) = false.
Definition onl (Ls : nat -> list ptr) (l : nat) (p : ptr) : Prop := p = head \/ In p (Ls l).

Definition own_ok (g : G) (Ls : nat -> list ptr) (u n : nat) (o : ownst) : Prop :=
  match o with
  | None => True
  | Some (nw, a, c) => isnode nw /\ owner_of nw = u /\ ser_of nw < n /\
      (forall l, l < a -> In nw (Ls l)) /\ (forall l, a <= l -> ~ In nw (Ls l)) /\
      (forall x, c = Some x -> fst (nxt g nw a) = x)
  end.
Definition vw_ok (g : G) (Ls : nat -> list ptr) (u : nat) (lv : nview) : Prop :=
  (forall p l, In (p, l) (vkn lv) -> l < MAXH /\ (p = null \/ onl Ls l p)) /\ own_ok g Ls u (vser lv) (vown lv).

Record INV (g : G) (a : naux) : Prop := {
  i_lev : Lev g (aLs a);
  i_nest : Nested (aLs a);
  i_nm : NM g;
  i_alloc : forall l q, In q (aLs a l) -> isnode q /\ ser_of q < vser (avw a (owner_of q));
  i_views : forall u, vw_ok g (aLs a) u (avw a u) }.
Definition NInv (g : G) (a : naux) (tr : list (nat * ev)) : Prop := INV g a.

(** the view of another thread survives a step that (1) only adds nodes owned by others to the lists, (2) writes only cells of
    nodes of other owners or of nodes on the list of the written level *)
Lemma vw_ok_step g g' Ls Ls' u lv :
  vw_ok g Ls u lv ->
  (forall l q, In q (Ls l) -> In q (Ls' l)) ->
  (forall l q, In q (Ls' l) -> In q (Ls l) \/ owner_of q <> u) ->
  (forall p l, nxt g' p l = nxt g p l \/ owner_of p <> u \/ onl Ls l p) ->
  vw_ok g' Ls' u lv.
Proof.
  intros [Hk Ho] H1 H2 H3. split.
  - intros p l Hin. destruct (Hk p l Hin) as [Hl [Hp|[Hp|Hp]]]; (split; [exact Hl|]); [now left|right; now left|right; right; auto].
  - unfold own_ok in *. destruct (vown lv) as [[[nw a] c]|]; [|exact Logic.I].
    destruct Ho as (O1 & O2 & O3 & O4 & O5 & O6). repeat split; auto.
    + intros l Hl Hin. destruct (H2 l nw Hin) as [X|X]; [exact (O5 l Hl X)|congruence].
    + intros x Hx. destruct (H3 nw a) as [E|[E|[E|E]]].
      * rewrite E. auto.
      * congruence.
      * unfold isnode in O1. unfold head in E. lia.
      * exfalso. exact (O5 a (le_n _) E).
Qed.

Lemma vw_ok_ext g g' Ls u lv : nxt g' = nxt g -> vw_ok g Ls u lv -> vw_ok g' Ls u lv.
Proof.
  intros E H. eapply vw_ok_step; eauto. intros p l. left. now rewrite E.
Qed.

Lemma Lev_ext g g' Ls : nxt g' = nxt g -> Lev g Ls -> Lev g' Ls.
Proof. intros E H l Hl. eapply walkl_ext; [|apply H; exact Hl]. intros n. now rewrite E. Qed.

(** a step that writes no [next] cell; the thread may change its view *)
Lemma INV_view g g' a t lv' :
  INV g a -> nxt g' = nxt g -> vw_ok g (aLs a) t lv' -> vser (avw a t) <= vser lv' -> INV g' (mk_na a t (aLs a) lv').
Proof.
  intros Hi E Hv Hs. constructor; cbn [aLs avw mk_na].
  - eapply Lev_ext; eauto. apply Hi.
  - apply Hi.
  - intros p l. rewrite E. apply Hi.
  - intros l q Hin. destruct (i_alloc _ _ Hi l q Hin) as [H1 H2]. split; [exact H1|].
    destruct (Nat.eqb_spec (owner_of q) t) as [X|X]; [rewrite X in H2; lia|exact H2].
  - intros u. destruct (Nat.eqb_spec u t) as [->|X]; eapply vw_ok_ext; eauto. apply Hi.
Qed.

(** a step of thread t that writes the cell (p, l) *)
Lemma INV_cell g a t p l x Ls' lv' :
  INV g a -> snd x = false ->
  Lev (setnx g p l x) Ls' -> Nested Ls' ->
  (forall l' q, In q (aLs a l') -> In q (Ls' l')) ->
  (forall l' q, In q (Ls' l') -> In q (aLs a l') \/ (isnode q /\ owner_of q = t /\ ser_of q < vser lv')) ->
  (owner_of p = t \/ onl (aLs a) l p) ->
  vser (avw a t) <= vser lv' ->
  vw_ok (setnx g p l x) Ls' t lv' ->
  INV (setnx g p l x) (mk_na a t Ls' lv').
Proof.
  intros Hi Hx HL HN H1 H2 Hfoot Hs Hv. constructor; cbn [aLs avw mk_na]; auto.
  - intros p' l'. destruct (Nat.eq_dec p' p) as [->|Np].
    + destruct (Nat.eq_dec l' l) as [->|Nl]; [now rewrite setnx_same|]. rewrite setnx_other by congruence. apply Hi.
    + rewrite setnx_other by congruence. apply Hi.
  - intros l' q Hin. destruct (H2 l' q Hin) as [Hold|(N1 & N2 & N3)].
    + destruct (i_alloc _ _ Hi l' q Hold) as [A1 A2]. split; [exact A1|].
      destruct (Nat.eqb_spec (owner_of q) t) as [X|X]; [rewrite X in A2; lia|exact A2].
    + split; [exact N1|]. rewrite N2, Nat.eqb_refl. exact N3.
  - intros u. destruct (Nat.eqb_spec u t) as [->|X]; [exact Hv|].
    eapply vw_ok_step; [apply (i_views _ _ Hi u)|exact H1| |].
    + intros l' q Hin. destruct (H2 l' q Hin) as [Hold|(N1 & N2 & N3)]; [now left|right; congruence].
    + intros p' l'. destruct (Nat.eq_dec p' p) as [->|Np].
      * destruct (Nat.eq_dec l' l) as [->|Nl]; [|left; rewrite setnx_other by congruence; reflexivity].
        destruct Hfoot as [F|F]; [right; left; congruence|right; right; exact F].
      * left. rewrite setnx_other by congruence. reflexivity.
Qed.

(** ** the rule instantiated *)
Definition NSAFE {R} (t : nat) (p : prog R) (lv : nview) : Prop :=
  @Conc.safe G V ev naux nview nvw NInv R t p lv (fun _ _ => True).

(** [SF t n K O p]: p is safe for thread t from every view that knows the facts K, has next serial n and own-insertion state O *)
Definition SF {R} (t n : nat) (K : list (ptr * nat)) (O : ownst) (p : prog R) : Prop :=
  forall lv, incl K (vkn lv) -> vser lv = n -> vown lv = O -> NSAFE t p lv.

Lemma SF_weaken {R} t n K K' O (p : prog R) : incl K K' -> SF t n K O p -> SF t n K' O p.
Proof. intros Hi H lv HK. apply H. eapply incl_tran; eauto. Qed.

Lemma N_act {R} t f (k : V -> prog R) lv :
  (forall g a, INV g a -> nvw a t = lv ->
     exists Ls' lv', INV (fst (fst (f g))) (mk_na a t Ls' lv') /\ NSAFE t (k (snd (fst (f g)))) lv') ->
  NSAFE t (Act f k) lv.
Proof.
  intros H. unfold NSAFE. cbn [Conc.safe]. intros g a tr Hi Hv. destruct (H g a Hi Hv) as (Ls' & lv' & H1 & H2).
  exists (mk_na a t Ls' lv'). split; [exact H1|]. split; [apply frame_mk|]. now rewrite nvw_same.
Qed.

Lemma SF_ret {R} t n K O (r : R) : SF t n K O (Ret r).
Proof. intros lv _ _ _. exact Logic.I. Qed.

Lemma SF_emit {R} t n K O es (k : prog R) : SF t n K O k -> SF t n K O (Emit es k).
Proof.
  intros H lv HK Hn HO. unfold NSAFE. cbn [Conc.safe]. intros g a tr Hi Hv. exists a. split; [exact Hi|].
  split; [intros ? ?; reflexivity|]. rewrite Hv. now apply H.
Qed.

Lemma INV_same g a t : INV g a -> INV g (mk_na a t (aLs a) (avw a t)).
Proof. intros Hi. apply (INV_view g g a t (avw a t) Hi eq_refl); [apply Hi|apply le_n]. Qed.

Lemma SF_nx {R} t n K O f (k : V -> prog R) :
  (forall g, nxt (fst (fst (f g))) = nxt g) -> (forall v, SF t n K O (k v)) -> SF t n K O (Act f k).
Proof.
  intros Hf H lv HK Hn HO. apply N_act. intros g a Hi Hv. exists (aLs a), lv. split; [|now apply H].
  unfold nvw in Hv. subst lv. apply (INV_view g _ a t (avw a t) Hi (Hf g)); [apply Hi|apply le_n].
Qed.

(** what a thread knows about a pointer: it is the head, or a node it has seen linked at level l or above *)
Definition kn (K : list (ptr * nat)) (p : ptr) (l : nat) : Prop :=
  p = head \/ (p <> null /\ exists l', l <= l' /\ In (p, l') K).

Lemma kn_incl K K' p l : incl K K' -> kn K p l -> kn K' p l.
Proof. intros Hi [H|(H1 & l' & H2 & H3)]; [now left|right]. split; [exact H1|]. exists l'. split; auto. Qed.

Lemma kn_down K p l l' : l' <= l -> kn K p l -> kn K p l'.
Proof. intros Hl [H|(H1 & l2 & H2 & H3)]; [now left|right]. split; [exact H1|]. exists l2. split; [lia|exact H3]. Qed.

Lemma kn_onl g a t K p l : INV g a -> incl K (vkn (avw a t)) -> kn K p l -> onl (aLs a) l p.
Proof.
  intros Hi HK [H|(H1 & l' & H2 & H3)]; [now left|].
  destruct (proj1 (i_views _ _ Hi t) p l' (HK _ H3)) as [Hl [X|[X|X]]]; [congruence|now left|right].
  replace l' with (l + (l' - l)) in X, Hl by lia. eapply nested_down; eauto. apply Hi.
Qed.

Lemma fact_dec (Ls : nat -> list ptr) l q : {l < MAXH /\ (q = null \/ onl Ls l q)} + {~ (l < MAXH /\ (q = null \/ onl Ls l q))}.
Proof.
  destruct (lt_dec l MAXH) as [H|H]; [|right; tauto].
  destruct (Nat.eq_dec q null) as [E|E]; [left; tauto|].
  destruct (Nat.eq_dec q head) as [E1|E1]; [left; unfold onl; tauto|].
  destruct (in_dec Nat.eq_dec q (Ls l)) as [E2|E2]; [left; unfold onl; tauto|].
  right. unfold onl. tauto.
Qed.

(** a load: nothing is marked; the successor of a node known to be on level l is null or on level l *)
Lemma SF_ld {R} t n K O p l (k : V -> prog R) :
  (forall x K', incl K K' -> snd x = false -> (kn K p l -> l < MAXH -> In (fst x, l) K') -> SF t n K' O (k (VP x))) ->
  SF t n K O (Act (a_ld_next p l) k).
Proof.
  intros H lv HK Hn HO. apply N_act. intros g a Hi Hv. cbn [a_ld_next fst snd]. unfold nvw in Hv.
  set (x := nxt g p l). exists (aLs a).
  destruct (fact_dec (aLs a) l (fst x)) as [D|D].
  - exists (mkNV ((fst x, l) :: vkn lv) (vser lv) (vown lv)). split.
    + apply (INV_view g); auto; [|rewrite Hv; cbn; lia].
      destruct (i_views _ _ Hi t) as [V1 V2]. rewrite Hv in V1, V2. split; [|exact V2].
      intros p' l' [E|Hin]; [inversion E; subst p' l'; exact D|now apply V1].
    + apply (H x ((fst x, l) :: K)); [apply incl_tl, incl_refl|apply (i_nm _ _ Hi)|intros _ _; now left| |exact Hn|exact HO].
      cbn [vkn]. intros y [<-|Hy]; [now left|right; now apply HK].
  - exists lv. split; [subst lv; now apply INV_same|].
    apply (H x K); [apply incl_refl|apply (i_nm _ _ Hi)| |exact HK|exact Hn|exact HO].
    intros Hk Hl. exfalso. apply D. split; [exact Hl|].
    assert (Ho : onl (aLs a) l p) by (eapply kn_onl; eauto; now rewrite Hv).
    destruct (walkl_next_in g l (aLs a l) head p (i_lev _ _ Hi l Hl)) as [X|X]; [exact Ho|now left|right; right; exact X].
Qed.

(** the node constructor of my next node: it is on no list *)
Lemma SF_alloc {R} t n K O key (k : V -> prog R) :
  t < 64 -> key < 8 -> (forall v, SF t (S n) K (Some (node_id t n key, 0, None)) (k v)) ->
  SF t n K O (Act (a_st_unl (node_id t n key) 1 1) k).
Proof.
  intros Ht Hkey H lv HK Hn HO. apply N_act. intros g a Hi Hv. unfold nvw in Hv. set (new := node_id t n key).
  exists (aLs a), (mkNV (vkn lv) (S n) (Some (new, 0, None))). split; [|now apply H].
  cbn [a_st_unl fst snd]. apply (INV_view g); auto; [|rewrite Hv, Hn; cbn; lia].
  destruct (i_views _ _ Hi t) as [V1 V2]. rewrite Hv in V1. split; [exact V1|]. cbn [vown vser own_ok].
  repeat split.
  - apply mk_node_isnode.
  - now apply node_id_owner.
  - unfold new. rewrite node_id_ser by assumption. lia.
  - intros l Hl. lia.
  - intros l _ Hin. destruct (i_alloc _ _ Hi l new Hin) as [_ A]. unfold new in A.
    rewrite node_id_owner, node_id_ser in A by assumption. rewrite Hv, Hn in A. lia.
  - discriminate.
Qed.

(** a store to a cell of my node on a level where it is not linked *)
Lemma INV_own_write g a t lv nw b c l x :
  INV g a -> avw a t = lv -> vown lv = Some (nw, b, c) -> b <= l -> snd x = false ->
  INV (setnx g nw l x) (mk_na a t (aLs a) (mkNV (vkn lv) (vser lv) (Some (nw, b, if Nat.eqb l b then Some (fst x) else c)))).
Proof.
  intros Hi Hv HO Hl Hx. destruct (i_views _ _ Hi t) as [V1 V2]. rewrite Hv in V1, V2. rewrite HO in V2.
  destruct V2 as (O1 & O2 & O3 & O4 & O5 & O6).
  apply INV_cell; auto.
  - apply levok_offlist; [apply Hi|apply Hi|unfold isnode, head in *; lia|]. intros _. now apply O5.
  - apply Hi.
  - cbn [vser]. rewrite Hv. lia.
  - split; [exact V1|]. cbn [vown vser own_ok]. repeat split; auto.
    intros y Hy. destruct (Nat.eqb_spec l b) as [->|Nl].
    + inversion Hy; subst y. now rewrite setnx_same.
    + rewrite setnx_other by congruence. auto.
Qed.

Lemma SF_st_own {R} t n K nw b c l x (k : V -> prog R) :
  b <= l -> snd x = false ->
  (forall v, SF t n K (Some (nw, b, if Nat.eqb l b then Some (fst x) else c)) (k v)) ->
  SF t n K (Some (nw, b, c)) (Act (a_st_next nw l x) k).
Proof.
  intros Hl Hx H lv HK Hn HO. apply N_act. intros g a Hi Hv. unfold nvw in Hv.
  exists (aLs a), (mkNV (vkn lv) (vser lv) (Some (nw, b, if Nat.eqb l b then Some (fst x) else c))).
  split; [|now apply H]. cbn [a_st_next fst snd]. now apply (INV_own_write g a t lv nw b c l x).
Qed.

(** the own-link CAS of insert_at_position *)
Lemma SF_cas_own {R} t n K nw b c e d (k : V -> prog R) :
  snd d = false ->
  (forall cur, SF t n K (Some (nw, b, Some (fst d))) (k (VC true cur))) ->
  (forall cur, SF t n K (Some (nw, b, c)) (k (VC false cur))) ->
  SF t n K (Some (nw, b, c)) (Act (a_cas_next nw b e d) k).
Proof.
  intros Hd H1 H2 lv HK Hn HO. apply N_act. intros g a Hi Hv. unfold nvw in Hv. unfold a_cas_next.
  destruct (mp_eqb (nxt g nw b) e); cbn [fst snd].
  - exists (aLs a), (mkNV (vkn lv) (vser lv) (Some (nw, b, Some (fst d)))). split; [|now apply H1].
    pose proof (INV_own_write g a t lv nw b c b d Hi Hv HO (le_n _) Hd) as X. rewrite Nat.eqb_refl in X. exact X.
  - exists (aLs a), lv. split; [subst lv; now apply INV_same|now apply H2].
Qed.

(** the pred CAS of insert_at_position at level l *)
Lemma SF_cas_link {R} t n K nw l succ p (k : V -> prog R) :
  l < MAXH -> kn K p l ->
  (forall cur, SF t n K (Some (nw, S l, None)) (k (VC true cur))) ->
  (forall cur, SF t n K (Some (nw, l, Some succ)) (k (VC false cur))) ->
  SF t n K (Some (nw, l, Some succ)) (Act (a_cas_next p l (succ, false) (nw, false)) k).
Proof.
  intros Hl Hk H1 H2 lv HK Hn HO. apply N_act. intros g a Hi Hv. unfold nvw in Hv. unfold a_cas_next.
  destruct (mp_eqb (nxt g p l) (succ, false)) eqn:E; cbn [fst snd].
  2:{ exists (aLs a), lv. split; [subst lv; now apply INV_same|now apply H2]. }
  apply mp_eqb_eq in E.
  destruct (i_views _ _ Hi t) as [V1 V2]. rewrite Hv in V1, V2. rewrite HO in V2. destruct V2 as (O1 & O2 & O3 & O4 & O5 & O6).
  assert (Hp : onl (aLs a) l p) by (eapply kn_onl; eauto; now rewrite Hv).
  assert (Nh : forall l', ~ In head (aLs a l')).
  { intros l' X. destruct (i_alloc _ _ Hi l' head X) as [Y _]. unfold isnode, head in Y. lia. }
  destruct (lev_link g (aLs a) p l nw false (i_lev _ _ Hi) (i_nest _ _ Hi) Hl (Nh l) Hp) as (L' & HL' & HN' & Hin').
  - unfold isnode, null in *. lia.
  - unfold isnode, head in *. lia.
  - intros ->. destruct Hp as [X|X]; [unfold isnode, head in *; lia|exact (O5 l (le_n _) X)].
  - apply O5. lia.
  - rewrite (O6 succ eq_refl), E. reflexivity.
  - destruct l as [|l']; [exact Logic.I|]. apply O4. lia.
  - exists (updL (aLs a) l L'), (mkNV (vkn lv) (vser lv) (Some (nw, S l, None))). split; [|now apply H1].
    apply INV_cell; auto.
    + intros l' q Hq. unfold updL. destruct (Nat.eqb_spec l' l) as [->|]; [apply Hin'; now right|exact Hq].
    + intros l' q Hq. unfold updL in Hq. destruct (Nat.eqb_spec l' l) as [->|]; [|now left].
      apply Hin' in Hq. destruct Hq as [->|Hq]; [right; cbn [vser]; auto|now left].
    + cbn [vser]. rewrite Hv. lia.
    + split.
      * intros p' l' Hq. destruct (V1 p' l' Hq) as [A [B|[B|B]]]; (split; [exact A|]); [now left|right; now left|]. right. right.
        unfold updL. destruct (Nat.eqb_spec l' l) as [->|]; [apply Hin'; now right|exact B].
      * cbn [vown vser own_ok]. repeat split; auto.
        -- intros l' Hl'. unfold updL. destruct (Nat.eqb_spec l' l) as [->|]; [apply Hin'; now left|apply O4; lia].
        -- intros l' Hl'. unfold updL. destruct (Nat.eqb_spec l' l) as [->|]; [lia|apply O5; lia].
        -- discriminate.
Qed.
