(** * SkipListNestE2: rules for the accesses to m_nUnlink (node constructor, make_tower, level_unlinked). *)
From Coq Require Import ZArith List String Bool Lia PeanoNat.
From LV Require Import Base.Conc Base.Events Model.SkipList Proofs.SkipListProofs Proofs.SkipListSub Proofs.SkipListNest Proofs.SkipListNestE.
Import ListNotations.

Lemma upd1_same {A} (f : ptr -> A) p x : upd1 f p x p = x.
Proof. unfold upd1. now rewrite Nat.eqb_refl. Qed.
Lemma upd1_other {A} (f : ptr -> A) p x q : q <> p -> upd1 f p x q = f q.
Proof. unfold upd1. intros H. destruct (Nat.eqb_spec q p); congruence. Qed.

Definition g_stunl (g : G) (p : ptr) (z : Z) (h : nat) : G := mkG (nxt g) (upd1 (unl g) p z) (upd1 (hgt_of g) p h) (hgt g) (cnt g).

Lemma stepc_stunl g a t p z h lv' : ealk a p = 0 -> owner_of p = t -> stepc t g a (g_stunl g p z h) (setview a t lv').
Proof.
  intros Hp Ho. constructor; cbn [g_stunl setview ealk eanl eadn nxt unl hgt_of]; auto.
  - intros q Hq. assert (q <> p) by (intros ->; lia). unfold closed. cbn [g_stunl setview ealk eadn eanl hgt_of unl]. rewrite !upd1_other by assumption.
    split; [lia|]. split; [reflexivity|]. intros X. split; [exact X|lia].
  - intros q Hq. assert (q <> p) by congruence. rewrite !upd1_other by assumption. auto.
Qed.

Lemma EINV_stunl g a t p z h lv' :
  EINV g a -> ealk a p = 0 -> owner_of p = t -> 1 <= h <= MAXH ->
  evw_ok (g_stunl g p z h) (setview a t lv') t lv' -> wser (evw a t) <= wser lv' -> wowe lv' = wowe (evw a t) ->
  EINV (g_stunl g p z h) (setview a t lv').
Proof.
  intros Hi Hp Ho Hh Hv Hs Hw. pose proof (stepc_stunl g a t p z h lv' Hp Ho) as Hsc.
  destruct Hi as [I1 I2 I3 I4 I5 I6 I7 I8 I9 I10 I11 I12].
  assert (Adn : eadn a p = false) by (destruct (eadn a p) eqn:E; [specialize (I7 p E); lia|reflexivity]).
  constructor; unfold pend, rest in *; cbn [g_stunl setview eLs ealk eanl eadn eapl evw nxt unl hgt_of] in *; auto.
  - eapply Lev_ext; [|exact I1]; reflexivity.
  - intros q. destruct (Nat.eq_dec q p) as [->|N]; [rewrite upd1_same; specialize (I3 p); lia|rewrite upd1_other by exact N; apply I3].
  - intros q. destruct (Nat.eq_dec q p) as [->|N]; [rewrite upd1_same; exact Hh|rewrite upd1_other by exact N; apply I4].
  - intros q Hq. destruct (Nat.eq_dec q p) as [->|N]; [|rewrite upd1_other by exact N; now apply I5].
    intros _. destruct (I5 p Adn ltac:(specialize (I4 p); lia)) as [X Y]. auto.
  - intros q Hq. assert (N : q <> p) by (intros ->; lia). rewrite !upd1_other by exact N. now apply I6.
  - intros q Hq. destruct (I10 q Hq) as [A1 A2]. split; [exact A1|].
    destruct (Nat.eq_dec (owner_of q) t) as [X|X]; [rewrite X in *; rewrite setvw_same; lia|now rewrite setvw_other].
  - destruct I11 as [N1 N2]. split; [exact N1|]. intros u q. rewrite N2.
    destruct (Nat.eq_dec u t) as [->|X]; [rewrite setvw_same, Hw; tauto|rewrite setvw_other by exact X; tauto].
  - intros u. destruct (Nat.eq_dec u t) as [->|X]; [rewrite setvw_same; exact Hv|rewrite setvw_other by exact X].
    eapply evw_step; eauto.
Qed.

Lemma EF_alloc {R} t n K O W key (k : V -> prog R) :
  t < 64 -> key < 8 -> (forall v, EF t (S n) K (Some (node_id t n key, 0, None, 1)) W (k v)) ->
  EF t n K O W (Act (a_st_unl (node_id t n key) 1 1) k).
Proof.
  intros Ht Hkey H lv HK Hn HO HW. apply E_act. intros g a Hi Hv. set (new := node_id t n key).
  set (lv' := mkEV (wkn lv) (S n) (Some (new, 0, None, 1)) W).
  assert (Hown : owner_of new = t) by now apply node_id_owner.
  assert (Hser : ser_of new = n) by now apply node_id_ser.
  assert (Ha : ealk a new = 0).
  { destruct (Nat.eq_dec (ealk a new) 0) as [E|E]; [exact E|]. destruct (e_al _ _ Hi new ltac:(lia)) as [_ X].
    rewrite Hown, Hv, Hn, Hser in X. lia. }
  exists (setview a t lv'). split; [intros; now apply setview_other|]. split; [|rewrite setview_same; now apply H].
  cbn [a_st_unl fst snd]. change (EINV (g_stunl g new 1 1) (setview a t lv')).
  apply EINV_stunl; auto; [unfold MAXH; lia| |rewrite Hv, Hn; cbn; lia|rewrite Hv; cbn; auto].
  split.
  - intros f Hin. eapply fact_step; [apply stepc_stunl; auto|]. apply (proj1 (e_views _ _ Hi t)). now rewrite Hv.
  - cbn [lv' wown wser eown_ok g_stunl setview ealk eadn hgt_of unl]. rewrite !upd1_same. repeat split; auto.
    + apply mk_node_isnode.
    + lia.
    + destruct (eadn a new) eqn:E; [pose proof (e_n4 _ _ Hi new E); lia|reflexivity].
    + discriminate.
Qed.

Lemma EF_build {R} t n K nw c hb W h (k : V -> prog R) :
  1 <= h <= MAXH -> (forall v, EF t n K (Some (nw, 0, c, h)) W (k v)) ->
  EF t n K (Some (nw, 0, c, hb)) W (Act (a_st_unl nw (Z.of_nat h) h) k).
Proof.
  intros Hh H lv HK Hn HO HW. apply E_act. intros g a Hi Hv.
  set (lv' := mkEV (wkn lv) n (Some (nw, 0, c, h)) W).
  destruct (e_views _ _ Hi t) as [V1 V2]. rewrite Hv in V1, V2. rewrite HO in V2. destruct V2 as (O1 & O2 & O3 & O4 & O5 & O6 & O7 & O8).
  exists (setview a t lv'). split; [intros; now apply setview_other|]. split; [|rewrite setview_same; now apply H].
  cbn [a_st_unl fst snd]. change (EINV (g_stunl g nw (Z.of_nat h) h) (setview a t lv')).
  apply EINV_stunl; auto; [|rewrite Hv, Hn; cbn; lia|rewrite Hv; cbn; auto].
  split.
  - intros f Hin. eapply fact_step; [apply stepc_stunl; auto|]. now apply V1.
  - cbn [lv' wown wser eown_ok g_stunl setview ealk eadn hgt_of unl nxt]. rewrite !upd1_same. repeat split; auto. lia.
Qed.

(** *** level_unlinked *)
Definition notme (t : nat) (uq : nat * ptr) : bool := negb (Nat.eqb (fst uq) t).

Lemma filter_notin t : forall r : list (nat * ptr), ~ In t (map fst r) -> filter (notme t) r = r.
Proof.
  induction r as [|[u y] r IH]; intros H; [reflexivity|]. cbn [map fst In] in H. cbn [filter]. unfold notme at 1. cbn [fst].
  destruct (Nat.eqb_spec u t) as [E|E]; [tauto|]. cbn [negb]. f_equal. apply IH. tauto.
Qed.

Lemma cnt_filter t q : forall apl : list (nat * ptr), NoDup (map fst apl) -> In (t, q) apl -> forall x,
  count_occ Nat.eq_dec (map snd apl) x = count_occ Nat.eq_dec (map snd (filter (notme t) apl)) x + (if Nat.eq_dec x q then 1 else 0).
Proof.
  induction apl as [|[u y] r IH]; intros ND Hin x; [contradiction|]. cbn [map fst] in ND. inversion ND as [|? ? N1 N2]; subst.
  cbn [filter]. unfold notme at 1. cbn [fst]. destruct Hin as [E|Hin].
  - inversion E; subst u y. rewrite Nat.eqb_refl. cbn [negb]. rewrite (filter_notin t r N1). cbn [map snd count_occ].
    destruct (Nat.eq_dec q x), (Nat.eq_dec x q); try congruence; lia.
  - assert (Nu : u <> t). { intros ->. apply N1. apply in_map_iff. exists (t, q). auto. }
    destruct (Nat.eqb_spec u t) as [X|_]; [contradiction|]. cbn [negb map snd count_occ]. rewrite (IH N2 Hin x).
    destruct (Nat.eq_dec y x); lia.
Qed.

Lemma filter_in t (apl : list (nat * ptr)) u q : In (u, q) (filter (notme t) apl) <-> u <> t /\ In (u, q) apl.
Proof.
  rewrite filter_In. unfold notme. cbn [fst]. destruct (Nat.eqb_spec u t); cbn [negb]; split; intros H; try tauto; destruct H; try tauto; discriminate.
Qed.

Lemma nodup_filter t : forall apl : list (nat * ptr), NoDup (map fst apl) -> NoDup (map fst (filter (notme t) apl)).
Proof.
  induction apl as [|[u y] r IH]; intros ND; [constructor|]. cbn [map fst] in ND. inversion ND as [|? ? N1 N2]; subst.
  cbn [filter]. destruct (notme t (u, y)); [|auto]. cbn [map fst]. constructor; [|auto].
  intros Hin. apply N1. apply in_map_iff in Hin. destruct Hin as ([u' y'] & E & Hf). cbn in E. subst u'.
  apply filter_In in Hf. apply in_map_iff. exists (u, y'). tauto.
Qed.

Definition g_fas (g : G) (q : ptr) (z : Z) : G := mkG (nxt g) (upd1 (unl g) q (unl g q - z)%Z) (hgt_of g) (hgt g) (cnt g).

Lemma EF_fas_owed {R} t n K O q (k : V -> prog R) :
  (forall v, EF t n K O None (k v)) -> EF t n K O (Some q) (Act (a_fas_unl q 1) k).
Proof.
  intros H lv HK Hn HO HW. apply E_act. intros g a Hi Hv.
  set (lv' := mkEV (wkn lv) n O None).
  set (a' := mkEA (eLs a) (ealk a) (eanl a) (eadn a) (filter (notme t) (eapl a)) (setvw (evw a) t lv')).
  destruct (e_pl _ _ Hi) as [ND PL].
  assert (Hin : In (t, q) (eapl a)) by (apply PL; now rewrite Hv).
  pose proof (cnt_filter t q (eapl a) ND Hin) as Hc.
  assert (Hp1 : 1 <= pend a q). { unfold pend. rewrite (Hc q). destruct (Nat.eq_dec q q); [lia|congruence]. }
  assert (Ha : 1 <= ealk a q).
  { destruct (Nat.eq_dec (ealk a q) 0) as [E|E]; [|lia]. exfalso.
    assert (Adn : eadn a q = false) by (destruct (eadn a q) eqn:E1; [pose proof (e_n4 _ _ Hi q E1); lia|reflexivity]).
    destruct (e_n2' _ _ Hi q Adn ltac:(pose proof (e_hb _ _ Hi q); lia)). lia. }
  assert (Hcl : closed g a q).
  { apply rest_closed. unfold rest. destruct (eadn a q) eqn:E1; [reflexivity|].
    destruct (Nat.lt_ge_cases (ealk a q) (hgt_of g q)) as [X|X]; [destruct (e_n2' _ _ Hi q E1 X); lia|lia]. }
  assert (Hsc : stepc t g a (g_fas g q 1) a').
  { constructor; cbn [g_fas a' ealk eanl eadn nxt unl hgt_of]; auto.
    - intros q' Hq'. unfold closed. cbn [ealk eadn eanl hgt_of]. split; [|split; [reflexivity|intros X; split; [exact X|lia]]].
      destruct (Nat.eq_dec q' q) as [->|N]; [rewrite upd1_same; lia|rewrite upd1_other by exact N; lia].
    - intros q' Hq'. repeat split; auto. intros E0. assert (q' <> q) by (intros ->; lia). now rewrite upd1_other. }
  exists a'. split; [intros u Hu; cbn [a' evw]; now apply setvw_other|]. split; [|cbn [a' evw]; rewrite setvw_same; now apply H].
  cbn [a_fas_unl fst snd]. change (EINV (g_fas g q 1) a').
  destruct Hi as [I1 I2 I3 I4 I5 I6 I7 I8 I9 I10 I11 I12].
  assert (Hpd : forall x, pend a' x = pend a x - (if Nat.eq_dec x q then 1 else 0)).
  { intros x. unfold pend. cbn [a' eapl]. rewrite (Hc x). lia. }
  constructor; cbn [g_fas a' eLs ealk eanl eadn eapl evw nxt unl hgt_of]; auto.
  - eapply Lev_ext; [|exact I1]; reflexivity.
  - intros x A1 A2. destruct (I5 x A1 A2) as [X Y]. split; [exact X|]. rewrite Hpd. lia.
  - intros x Hx. change (rest (g_fas g q 1) a' x) with (rest g a x). rewrite Hpd. pose proof (I6 _ Hx) as E6.
    destruct (Nat.eq_dec x q) as [E|N]; [subst x; rewrite upd1_same|rewrite upd1_other by exact N]; rewrite E6; lia.
  - intros x Hx. destruct (I10 x Hx) as [A1 A2]. split; [exact A1|].
    destruct (Nat.eq_dec (owner_of x) t) as [X|X]; [rewrite X in *; rewrite setvw_same; rewrite Hv, Hn in A2; exact A2|now rewrite setvw_other].
  - split; [now apply nodup_filter|]. intros u x. rewrite filter_in.
    destruct (Nat.eq_dec u t) as [->|X]; [rewrite setvw_same; cbn [lv' wowe]; split; [tauto|discriminate]|].
    rewrite setvw_other by exact X. rewrite (PL u x). tauto.
  - intros u. destruct (Nat.eq_dec u t) as [->|X]; [rewrite setvw_same|rewrite setvw_other by exact X; eapply evw_step; eauto].
    specialize (I12 t). rewrite Hv in I12. destruct I12 as [V1 V2]. split.
    + intros f Hf. eapply fact_step; [exact Hsc|]. now apply V1.
    + cbn [lv' wown wser]. rewrite Hn, HO in V2. unfold eown_ok in *. destruct O as [[[[nw k0] c] hb]|]; [|exact Logic.I].
      cbn [a' ealk eadn g_fas hgt_of unl nxt]. destruct V2 as (O1 & O2 & O3 & O4 & O5 & O6 & O7 & O8). repeat split; auto.
      intros K0. assert (nw <> q) by (intros ->; lia). rewrite upd1_other by assumption. auto.
Qed.

(** the inserter gives up at level l: level_unlinked( height - l ) *)
Lemma EF_fas_giveup {R} t n K nw l c h W (k : V -> prog R) :
  1 <= l -> (forall v, EF t n K None W (k v)) -> EF t n K (Some (nw, l, c, h)) W (Act (a_fas_unl nw (Z.of_nat (h - l))) k).
Proof.
  intros Hl H lv HK Hn HO HW. apply E_act. intros g a Hi Hv.
  set (lv' := mkEV (wkn lv) n None W).
  set (a' := mkEA (eLs a) (ealk a) (eanl a) (updf (eadn a) nw true) (eapl a) (setvw (evw a) t lv')).
  destruct (e_views _ _ Hi t) as [V1 V2]. rewrite Hv in V1, V2. rewrite HO in V2. destruct V2 as (O1 & O2 & O3 & O4 & O5 & O6 & O7 & O8).
  assert (Hsc : stepc t g a (g_fas g nw (Z.of_nat (h - l))) a').
  { constructor; unfold a'; cbn [g_fas ealk eanl eadn nxt unl hgt_of]; auto.
    - intros q' Hq'. unfold closed. cbn [g_fas ealk eadn eanl hgt_of unl]. split; [|split; [reflexivity|]].
      + destruct (Nat.eq_dec q' nw) as [->|N]; [rewrite upd1_same; lia|rewrite upd1_other by exact N; lia].
      + intros X. split; [|lia]. destruct (Nat.eq_dec q' nw) as [->|N]; [left; apply updf_same|rewrite updf_other by exact N; exact X].
    - intros q' Hq'. assert (N : q' <> nw) by congruence. rewrite updf_other, upd1_other by exact N. auto. }
  exists a'. split; [intros u Hu; cbn [a' evw]; now apply setvw_other|]. split; [|cbn [a' evw]; rewrite setvw_same; now apply H].
  cbn [a_fas_unl fst snd]. change (EINV (g_fas g nw (Z.of_nat (h - l))) a').
  destruct Hi as [I1 I2 I3 I4 I5 I6 I7 I8 I9 I10 I11 I12].
  constructor; unfold pend in *; unfold a'; cbn [g_fas eLs ealk eanl eadn eapl evw nxt unl hgt_of]; auto.
  - eapply Lev_ext; [|exact I1]; reflexivity.
  - intros x A1 A2. destruct (Nat.eq_dec x nw) as [->|N]; [rewrite updf_same in A1; discriminate|rewrite updf_other in A1 by exact N; now apply I5].
  - intros x Hx. unfold rest. cbn [eadn ealk hgt_of].
    destruct (Nat.eq_dec x nw) as [->|N].
    + rewrite upd1_same, updf_same. rewrite (I6 _ Hx). unfold rest. rewrite O5, O6, O4. lia.
    + rewrite upd1_other, updf_other by exact N. now apply I6.
  - intros x Hx. destruct (Nat.eq_dec x nw) as [->|N]; [lia|rewrite updf_other in Hx by exact N; now apply I7].
  - intros x Hx. destruct (I10 x Hx) as [A1 A2]. split; [exact A1|].
    destruct (Nat.eq_dec (owner_of x) t) as [X|X]; [rewrite X in *; rewrite setvw_same; rewrite Hv, Hn in A2; exact A2|now rewrite setvw_other].
  - destruct I11 as [N1 N2]. split; [exact N1|]. intros u q. rewrite N2.
    destruct (Nat.eq_dec u t) as [->|X]; [rewrite setvw_same, Hv, HW; cbn; tauto|rewrite setvw_other by exact X; tauto].
  - intros u. destruct (Nat.eq_dec u t) as [->|X]; [rewrite setvw_same|rewrite setvw_other by exact X; eapply evw_step; eauto].
    split; [|exact Logic.I]. intros f Hf. eapply fact_step; [exact Hsc|]. now apply V1.
Qed.
