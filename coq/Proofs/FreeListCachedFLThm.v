(** * CachedFreeList<FreeList,4>: initial configuration and theorems for every schedule. *)
From Coq Require Import ZArith List String Bool Lia PeanoNat.
From LV Require Import Base.Conc Base.Events Model.FreeList Model.FreeListCached
  Proofs.FreeListBase Proofs.FreeListInv Proofs.FreeListSteps Proofs.FreeListSafe Proofs.FreeListThm
  Proofs.FreeListCachedTaggedThm Proofs.FreeListCachedFL.
Import ListNotations.
Local Open Scope Z_scope.
Local Open Scope string_scope.

Definition faux_init (k : nat) (ths : list (list op * list nat * nat)) : Aux :=
  let NR := List.length ths in
  mkA (fun n => if (Nat.eqb n 1 && Nat.leb 1 k)%bool then Held (NR + slot0 ths)
                else if on_init k n then OnList
                else match own_init (cths ths) n with Some t => Held t | None => Nil end)
      (rev (seq 2 (k - 1)))
      (fun _ => Idle)
      (fun t => if Nat.ltb t NR then nth t (helds (cths ths)) []
                else if (Nat.eqb t (NR + slot0 ths) && Nat.leb 1 k)%bool then [1%nat] else [])
      (own_init (cths ths)).

Lemma fchain_range K : forall m, (m + 1 <= K)%nat ->
  chain (next (init_range 2 K)) (if Nat.eqb m 0 then O else S m) (rev (seq 2 m)).
Proof.
  induction m as [|m IH]; intros Hk; [reflexivity|].
  rewrite rev_seq2_S. cbn [Nat.eqb chain]. split; [reflexivity|]. split; [lia|].
  assert (E : next (init_range 2 K) (2 + m) = if Nat.eqb m 0 then O else S m).
  { unfold init_range. cbn [next]. destruct m as [|m']; [reflexivity|].
    assert ((3 <=? 2 + S m')%nat = true) as -> by (apply Nat.leb_le; lia).
    assert ((2 + S m' <=? K)%nat = true) as -> by (apply Nat.leb_le; lia). reflexivity. }
  rewrite E. apply IH. lia.
Qed.

Section FInit.
  Variable fuel k : nat.
  Variable ths : list (list op * list nat * nat).
  Hypothesis Hwf : cwf_init k ths.
  Let NR := List.length ths.
  Let N := (NR + CACHE_SIZE)%nat.
  Hypothesis HN : Z.of_nat N + 1 < FLAG.

  Lemma fcnt_init n : cnt N (faux_init k ths) n = O.
  Proof. apply count_all_false. intros t _. reflexivity. Qed.

  Lemma FInvS_init : InvS N (valid_init k (cths ths)) (init_range 2 k) (faux_init k ths).
  Proof.
    destruct Hwf as [[Hnd Hgt] Hsl]. pose proof (slot0_lt k ths Hwf) as Hs0. constructor.
    - intros n. cbn [st faux_init]. unfold valid_init, on_init.
      destruct (Nat.eqb_spec n 1) as [->|Hn1]; cbn [andb].
      + destruct (Nat.leb_spec 1 k); cbn [andb orb]; [split; discriminate|].
        destruct (own_init (cths ths) 1%nat); split; try discriminate; reflexivity.
      + destruct (Nat.leb 1 n && Nat.leb n k)%bool; cbn [orb]; [split; discriminate|].
        destruct (own_init (cths ths) n); split; try discriminate; reflexivity.
    - intros n. rewrite fcnt_init. cbn [st faux_init refs init_range]. unfold on_init.
      destruct (Nat.eqb_spec n 1) as [->|Hn1]; cbn [andb].
      + destruct (Nat.leb 1 k) eqn:Ek; simpl; [reflexivity|].
        destruct (own_init (cths ths) 1%nat); reflexivity.
      + destruct (Nat.leb_spec 2 n), (Nat.leb_spec 1 n), (Nat.leb_spec n k); cbn [andb]; try lia; try reflexivity;
          destruct (own_init (cths ths) n); reflexivity.
    - intros n. unfold FreeListInv.st_ok. rewrite fcnt_init. cbn [st faux_init hl ph].
      destruct (Nat.eqb_spec n 1) as [->|Hn1]; cbn [andb].
      + destruct (Nat.leb_spec 1 k) as [Hk|Hk]; cbn [andb].
        * left. fold NR. destruct (Nat.ltb_spec (NR + slot0 ths) NR); [lia|]. rewrite Nat.eqb_refl. cbn. left; reflexivity.
        * unfold on_init. destruct (Nat.leb_spec 1 k); [lia|]. cbn [andb].
          destruct (own_init (cths ths) 1%nat) as [t|] eqn:E; [|reflexivity]. left. destruct (own_lt k ths Hwf _ _ E) as [Hl Hin].
          fold NR. destruct (Nat.ltb_spec t NR); [exact Hin|lia].
      + destruct (on_init k n); [exact I|]. destruct (own_init (cths ths) n) as [t|] eqn:E; [|reflexivity].
        left. destruct (own_lt k ths Hwf _ _ E) as [Hl Hin]. fold NR. destruct (Nat.ltb_spec t NR); [exact Hin|lia].
    - cbn [lst faux_init]. pose proof (fchain_range k (k - 1)) as Hc.
      assert (Hh : head (init_range 2 k) = if Nat.eqb (k - 1) 0 then O else S (k - 1)).
      { unfold init_range. cbn [head]. destruct (Nat.leb_spec 2 k); destruct (Nat.eqb_spec (k - 1) 0); try lia. }
      rewrite Hh. destruct k as [|k']; [reflexivity|]. apply Hc. lia.
    - cbn [lst faux_init]. apply NoDup_rev. apply seq_NoDup.
    - intros n. cbn [lst faux_init st]. rewrite <- in_rev, in_seq. unfold on_init.
      destruct (Nat.eqb_spec n 1) as [->|Hn1]; cbn [andb].
      + destruct (Nat.leb_spec 1 k); cbn [andb]; split; intros; try lia; try discriminate.
        destruct (own_init (cths ths) 1%nat); discriminate.
      + destruct (Nat.leb_spec 1 n), (Nat.leb_spec n k); cbn [andb]; split; intros; try lia; try reflexivity;
          destruct (own_init (cths ths) n); discriminate.
    - intros t. cbn. exact I.
    - intros t n Hin. cbn [hl faux_init] in Hin. cbn [st faux_init]. fold NR in Hin.
      destruct (Nat.ltb_spec t NR) as [Hl|Hl].
      + pose proof (held_gt k (cths ths) (conj Hnd Hgt) t n Hin) as Hg. unfold on_init.
        destruct (Nat.eqb_spec n 1) as [->|Hn1]; cbn [andb].
        * destruct (Nat.leb_spec 1 k); [lia|]. cbn [andb].
          apply (own_init_spec _ _ t Hnd) in Hin. rewrite Hin. reflexivity.
        * destruct (Nat.leb_spec 1 n), (Nat.leb_spec n k); cbn [andb]; try lia;
            apply (own_init_spec _ _ t Hnd) in Hin; rewrite Hin; reflexivity.
      + destruct (Nat.eqb_spec t (NR + slot0 ths)) as [->|Hne]; cbn [andb] in Hin; [|contradiction].
        destruct (Nat.leb_spec 1 k); [|contradiction]. destruct Hin as [<-|[]]. cbn [Nat.eqb andb].
        destruct (Nat.leb_spec 1 k); [reflexivity|lia].
    - intros t. cbn [hl faux_init]. fold NR. destruct (Nat.ltb t NR); [apply NoDup_concat_nth; exact Hnd|].
      destruct (Nat.eqb t (NR + slot0 ths) && Nat.leb 1 k)%bool; repeat constructor. intros [].
    - intros t Ht. cbn [ph hl faux_init]. split; [reflexivity|]. fold NR. unfold N in Ht.
      destruct (Nat.ltb_spec t NR); [lia|]. destruct (Nat.eqb_spec t (NR + slot0 ths)); [lia|reflexivity].
  Qed.

  Lemma finit_ok : Conc.cfg_ok (FreeListCachedFL.cview NR)
      (FreeListCachedFL.CInv NR (valid_init k (cths ths)) (own_init (cths ths)))
      (cinit_cfg G put get init_range fuel k ths).
  Proof.
    pose proof (slot0_lt k ths Hwf) as Hs0.
    exists (faux_init k ths). split.
    - cbn [Conc.shared Conc.trace cinit_cfg]. fold (slot0 ths). cbn [back cinit]. split; [apply FInvS_init|split].
      + split; [reflexivity|split].
        * intros n t. cbn [own hl faux_init]. fold NR. split.
          -- intros E. destruct (own_lt k ths Hwf _ _ E) as [Hl Hin]. split; [exact Hl|]. destruct (Nat.ltb_spec t NR); [exact Hin|lia].
          -- intros [Hl Hin]. destruct (Nat.ltb_spec t NR); [|lia]. apply own_init_spec; [apply Hwf|exact Hin].
        * intros t. reflexivity.
      + intros i Hi. cbn [ph hl faux_init cache cinit]. fold NR. split; [reflexivity|].
        destruct (Nat.ltb_spec (NR + i) NR); [lia|].
        assert (E : Nat.eqb (NR + i) (NR + slot0 ths) = Nat.eqb i (slot0 ths)).
        { destruct (Nat.eqb_spec i (slot0 ths)); [subst; apply Nat.eqb_refl|apply Nat.eqb_neq; lia]. }
        rewrite E. destruct (Nat.eqb i (slot0 ths) && Nat.leb 1 k)%bool; reflexivity.
    - intros t p Hp. cbn [cinit_cfg Conc.threads] in Hp. rewrite nth_error_map in Hp.
      destruct (nth_error ths t) as [[[os H] sl]|] eqn:E; [|discriminate]. injection Hp as <-.
      assert (Ht : (t < NR)%nat) by (apply nth_error_Some; congruence).
      assert (Hsl : (sl < CACHE_SIZE)%nat) by (apply (proj2 Hwf (os, H, sl)); eapply nth_error_In; eauto).
      assert (Hv : FreeListCachedFL.cview NR (faux_init k ths) t = (H, Idle)).
      { rewrite FreeListCachedFL.cview_lt by exact Ht. unfold view. cbn [hl ph faux_init]. fold NR.
        destruct (Nat.ltb_spec t NR); [|lia]. f_equal. unfold helds, cths. rewrite map_map.
        rewrite (nth_indep _ [] (snd (fst (os, H, sl)))) by (rewrite map_length; exact Ht).
        rewrite (map_nth (fun x => snd (fst x))). rewrite (nth_error_nth ths t (os, H, sl) E). reflexivity. }
      rewrite Hv. cbn [fst snd]. apply FreeListCachedFL.safe_cthread; auto. apply valid_zero. apply Hwf.
  Qed.
End FInit.

(** ** theorems *)
Section FTheorems.
  Variable fuel k : nat.
  Variable ths : list (list op * list nat * nat).
  Hypothesis Hwf : cwf_init k ths.
  Let NR := List.length ths.
  Hypothesis HN : Z.of_nat (List.length ths + CACHE_SIZE) + 1 < FLAG.

  Lemma freach_Inv c : Conc.reach (cinit_cfg G put get init_range fuel k ths) c ->
    exists a, FreeListCachedFL.CInv NR (valid_init k (cths ths)) (own_init (cths ths)) (Conc.shared c) a (Conc.trace c).
  Proof. intros Hr. exact (Conc.reach_Inv (finit_ok fuel k ths Hwf HN) Hr). Qed.

  Theorem cached_fl_no_double_get c :
    Conc.reach (cinit_cfg G put get init_range fuel k ths) c ->
    exists own, mon_run (own_init (cths ths)) (Conc.trace c) = Some own.
  Proof. intros Hr. destruct (freach_Inv c Hr) as (a & _ & (T1 & _) & _). eauto. Qed.

  Theorem cached_fl_unique_holder c :
    Conc.reach (cinit_cfg G put get init_range fuel k ths) c ->
    let g := Conc.shared c in
    exists own l,
      mon_run (own_init (cths ths)) (Conc.trace c) = Some own /\
      chain (next (back G g)) (head (back G g)) l /\ NoDup l /\
      (forall n, In n l -> valid_init k (cths ths) n = true /\ own n = None) /\
      (forall i, (i < CACHE_SIZE)%nat -> cache G g i <> O ->
         valid_init k (cths ths) (cache G g i) = true /\ own (cache G g i) = None /\ ~ In (cache G g i) l /\
         forall j, (j < CACHE_SIZE)%nat -> cache G g j = cache G g i -> j = i) /\
      (forall n, valid_init k (cths ths) n = true -> own n = None ->
         In n l \/ (exists i, (i < CACHE_SIZE)%nat /\ cache G g i = n) \/ exists t, opens t (Conc.trace c) <> 0).
  Proof.
    intros Hr g. destruct (freach_Inv c Hr) as (a & HS & HT & HL).
    pose proof HT as (T1 & T2 & T3).
    assert (Hslot : forall i, (i < CACHE_SIZE)%nat -> cache G g i <> O -> st a (cache G g i) = Held (NR + i)).
    { intros i Hi Hnz. destruct (HL i Hi) as [_ E]. fold g in E. destruct (Nat.eqb_spec (cache G g i) 0); [contradiction|].
      apply (S_held HS). rewrite E. left; reflexivity. }
    assert (Hopen : forall t, ph a t <> Idle -> opens t (Conc.trace c) <> 0).
    { intros t Hp. rewrite T3. destruct (ph a t); cbn; try lia. congruence. }
    exists (own a), (lst a). split; [exact T1|]. split; [apply (S_chain HS)|]. split; [apply (S_lnd HS)|]. split; [|split].
    - intros n Hin. apply (S_lin HS) in Hin. split.
      + destruct (valid_init k (cths ths) n) eqn:E; [reflexivity|]. apply (S_valid HS) in E. congruence.
      + destruct (own a n) as [t|] eqn:E; [|reflexivity]. apply T2 in E. destruct E as [_ E]. apply (S_held HS) in E. congruence.
    - intros i Hi Hnz. pose proof (Hslot i Hi Hnz) as Hst. split; [|split; [|split]].
      + destruct (valid_init k (cths ths) (cache G g i)) eqn:E; [reflexivity|]. apply (S_valid HS) in E. congruence.
      + destruct (own a (cache G g i)) as [t|] eqn:E; [|reflexivity]. apply T2 in E. destruct E as [Hl E].
        apply (S_held HS) in E. rewrite Hst in E. injection E as E. lia.
      + intros Hin. apply (S_lin HS) in Hin. congruence.
      + intros j Hj Ej. assert (cache G g j <> O) by congruence. pose proof (Hslot j Hj H) as Hst'.
        rewrite Ej, Hst in Hst'. injection Hst' as E. lia.
    - intros n Hv Ho. pose proof (S_st HS n) as Hst. unfold FreeListInv.st_ok in Hst.
      destruct (st a n) as [|t|t| | |t|t] eqn:Es.
      + apply (S_valid HS) in Es. congruence.
      + destruct Hst as [Hst|[Hst|Hst]].
        * destruct (Nat.lt_ge_cases t NR) as [Hl|Hl].
          -- assert (E : own a n = Some t) by (apply T2; split; assumption). congruence.
          -- right; left. destruct (Nat.lt_ge_cases t (NR + CACHE_SIZE)) as [Hl2|Hl2].
             ++ exists (t - NR)%nat. split; [lia|]. destruct (HL (t - NR)%nat ltac:(lia)) as [_ E].
                replace (NR + (t - NR))%nat with t in E by lia. fold g in E. rewrite E in Hst.
                destruct (Nat.eqb (cache G g (t - NR)) 0); [contradiction|]. destruct Hst as [<-|[]]. reflexivity.
             ++ rewrite (proj2 (S_out HS t Hl2)) in Hst. contradiction.
        * right; right. exists t. apply Hopen. congruence.
        * right; right. exists t. apply Hopen. congruence.
      + right; right. exists t. apply Hopen. congruence.
      + left. apply (S_lin HS). exact Es.
      + right; right. destruct (count_pos_ex _ _ Hst) as (t & Ht & Hf). exists t. apply Hopen.
        intros E. rewrite E in Hf. discriminate.
      + right; right. exists t. destruct Hst as [_ [Hst|[h Hst]]]; apply Hopen; congruence.
      + right; right. exists t. destruct Hst as [[h Hst]|Hst]; apply Hopen; congruence.
  Qed.

  Theorem cached_fl_no_loss c :
    Conc.reach (cinit_cfg G put get init_range fuel k ths) c -> quiescent (Conc.trace c) ->
    let g := Conc.shared c in
    exists own l,
      mon_run (own_init (cths ths)) (Conc.trace c) = Some own /\
      chain (next (back G g)) (head (back G g)) l /\ NoDup l /\
      (forall n, (In n l \/ (n <> O /\ exists i, (i < CACHE_SIZE)%nat /\ cache G g i = n))
                 <-> valid_init k (cths ths) n = true /\ own n = None).
  Proof.
    intros Hr Hq g. destruct (cached_fl_unique_holder c Hr) as (own & l & M & Hc & Hnd & H1 & H2 & H3).
    fold g in Hc, H2, H3. exists own, l. split; [exact M|]. split; [exact Hc|]. split; [exact Hnd|].
    intros n. split.
    - intros [Hin|[Hnz (i & Hi & E)]]; [apply H1; exact Hin|]. subst n. destruct (H2 i Hi Hnz) as (A & B & _). split; assumption.
    - intros [Hv Ho]. destruct (H3 n Hv Ho) as [Hin|[(i & Hi & E)|(t & Ht)]].
      + left; exact Hin.
      + right. split; [|exists i; split; assumption]. intros ->.
        rewrite (valid_zero k (cths ths) (proj1 Hwf)) in Hv. discriminate.
      + exfalso. apply Ht. apply Hq.
  Qed.
End FTheorems.
