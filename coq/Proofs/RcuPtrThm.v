(** * RcuPtr: the theorems about raw_ptr / exempt_ptr custody for every schedule. *)
From Coq Require Import ZArith List String Bool Lia PeanoNat.
From LV Require Import Base.Conc Base.Events Model.RcuGp Model.RcuPtr Proofs.RcuGpInv Proofs.RcuGpSafe Proofs.RcuPtrInv
  Proofs.RcuPtrSteps Proofs.RcuPtrBase Proofs.RcuPtrSafe.
Import ListNotations.
Local Open Scope string_scope.
Local Open Scope list_scope.
Local Open Scope Z_scope.

Lemma run_pops_safe2 fuel t os : forall s l, RelS s l -> safe2 t (run_pops true fuel t s os) l (@Conc.QTrue L2).
Proof.
  induction os as [|o r IH]; intros s l HR; cbn [run_pops].
  - apply p_finish_safe2; exact HR.
  - apply safe2_bind. eapply safe2_weaken; [|apply run_pop_safe2; exact HR].
    intros [s'|] l' HQ; cbn in HQ.
    + apply IH; exact HQ.
    + apply safe2_emit_inert; [inr|exact I].
Qed.

Lemma pthread_safe2 fuel t os : safe2 t (pthread true fuel t os) l20 (@Conc.QTrue L2).
Proof.
  unfold pthread. cbn [Conc.safe]. intros g a tr HI Hv. exists a. split.
  - unfold lift_act, a_begin. cbn [fst snd]. apply step_inert with (g := g); auto. apply inert_acc.
  - split; [apply frame2_refl|]. rewrite Hv. apply run_pops_safe2.
    unfold RelS. cbn. repeat split; auto; try (intros p []); try (intros X; congruence).
Qed.

Definition a20 : Aux2 := mkA2 (fun _ => l20) (fun _ => false) (fun _ => None).

Lemma at_nil i t P : ~ at_ [] i t P.
Proof. intros (e & H & _). destruct i; discriminate. Qed.

Lemma pinit_ok2 fuel ths : Conc.cfg_ok view2 Inv2 (pinit_cfg true fuel ths).
Proof.
  exists a20. split.
  - cbn [pinit_cfg Conc.shared Conc.trace]. split.
    + constructor; cbn; try discriminate; try contradiction; try lia; auto.
    + constructor; cbn; try discriminate; try contradiction.
      * intros p h u. split; [discriminate|]. intros H. exfalso. eapply at_nil; eauto.
      * intros r s H. exfalso. eapply at_nil; eauto.
      * intros k w p H. exfalso. eapply at_nil; eauto.
      * intros x r p H. exfalso. eapply at_nil; eauto.
  - intros t p Hp. cbn [pinit_cfg Conc.threads] in Hp. rewrite nth_error_map in Hp.
    destruct (nth_error (number O ths) t) as [x|] eqn:E; [|discriminate]. inversion Hp; subst p.
    apply nth_error_number in E. cbn in E. rewrite E. unfold view2. cbn. apply pthread_safe2.
Qed.

Lemma ptr_inv2 fuel ths c : Conc.reach (pinit_cfg true fuel ths) c -> exists g a, InvS g a /\ InvT a (Conc.trace c).
Proof. intros Hr. destruct (Conc.reach_Inv (pinit_ok2 fuel ths) Hr) as (a & IS & IT). eauto. Qed.

(** a node is taken into custody ("hold") at most once, by one thread *)
Theorem ptr_hold_unique fuel ths c :
  Conc.reach (pinit_cfg true fuel ths) c ->
  forall p u h u' h', at_ (Conc.trace c) u h (is_hold p) -> at_ (Conc.trace c) u' h' (is_hold p) -> u = u' /\ h = h'.
Proof.
  intros Hr p u h u' h' H1 H2. destruct (ptr_inv2 _ _ _ Hr) as (g & a & _ & IT).
  apply (O1 _ _ IT) in H1. apply (O1 _ _ IT) in H2. rewrite H1 in H2. inversion H2. auto.
Qed.

(** every "retire p" is issued by the holder of p, after its "release" of p, outside every read-side section *)
Theorem ptr_retire_by_holder_after_release fuel ths c :
  Conc.reach (pinit_cfg true fuel ths) c ->
  forall k w p, at_ (Conc.trace c) k w (is_retire p) ->
    exists u r, (u < r < k)%nat /\ at_ (Conc.trace c) u w (is_hold p) /\ at_ (Conc.trace c) r w (is_release p) /\
                outside_at (Conc.trace c) w r /\ outside_at (Conc.trace c) w k.
Proof.
  intros Hr k w p H. destruct (ptr_inv2 _ _ _ Hr) as (g & a & _ & IT). destruct (R1 _ _ IT k w p H) as (_ & X). exact X.
Qed.

(** a node referenced by a live raw_ptr chain / position chain / exempt_ptr is not disposed before its holder's
    release(), which happens outside the lock; and the disposal waits for every reader that was inside a section
    when the holder retired the node *)
Theorem ptr_held_until_release fuel ths c :
  Conc.reach (pinit_cfg true fuel ths) c ->
  forall p u h d w, at_ (Conc.trace c) u h (is_hold p) -> at_ (Conc.trace c) d w (is_dispose p) ->
    exists r k, (u < r < k)%nat /\ (k < d)%nat /\
      at_ (Conc.trace c) r h (is_release p) /\ at_ (Conc.trace c) k h (is_retire p) /\
      outside_at (Conc.trace c) h r /\ outside_at (Conc.trace c) h k /\
      forall rd s, open_at (Conc.trace c) rd s k -> exists b, (k < b < d)%nat /\ at_ (Conc.trace c) b rd is_runlock0.
Proof.
  intros Hr p u h d w Hh Hd.
  destruct (ptr_dispose_safe_all _ _ _ _ Hr w p d Hd) as (k & w' & Hk & Hret & Hall).
  destruct (ptr_retire_by_holder_after_release _ _ _ Hr k w' p Hret) as (u' & r & Hur & H1 & H2 & H3 & H4).
  destruct (ptr_hold_unique _ _ _ Hr p u h u' w' Hh H1) as (-> & ->).
  exists r, k. repeat split; auto; lia.
Qed.

Lemma touch_not_retire p q e : is_touch p e = true -> is_retire q e = true -> False.
Proof.
  unfold is_touch, is_retire, cli_is. destruct e as [|n [|x l]]; try discriminate. intros A B.
  apply andb_prop in A, B. destruct A as (A & _), B as (B & _). apply String.eqb_eq in A, B. congruence.
Qed.

Lemma touch_not_runlock p e : is_touch p e = true -> is_runlock0 e = true -> False.
Proof.
  unfold is_touch, is_runlock0, cli_is. destruct e as [|n [|x l]]; try discriminate. intros A B.
  apply andb_prop in A, B. destruct A as (A & _), B as (B & _). apply String.eqb_eq in A, B. congruence.
Qed.

(** no reader (find functor, dereference of raw_ptr::m_ptr inside the section of its get()) touches a node after
    the node has been disposed *)
Theorem ptr_no_touch_after_dispose fuel ths c :
  Conc.reach (pinit_cfg true fuel ths) c ->
  forall p x r d w, at_ (Conc.trace c) x r (is_touch p) -> at_ (Conc.trace c) d w (is_dispose p) -> (x < d)%nat.
Proof.
  intros Hr p x r d w Ht Hd. destruct (ptr_inv2 _ _ _ Hr) as (g & a & _ & IT).
  destruct (ptr_dispose_safe_all _ _ _ _ Hr w p d Hd) as (k & w' & Hk & Hret & Hall).
  destruct (R3 _ _ IT x r p Ht) as (s & Hs & S1' & S2' & S3').
  pose proof (S3' k w' Hret) as Hsk.
  destruct (Nat.lt_trichotomy x k) as [L|[E|G]]; [lia| |].
  - subst k. exfalso. destruct Ht as (e & He & Pe), Hret as (e' & He' & Pe'). rewrite He in He'. inversion He'; subst.
    eapply touch_not_retire; eauto.
  - destruct (Hall r s) as (b & Hb & Hrb).
    + split; [exact S1'|]. split; [exact Hsk|]. intros b Hb. apply S2'. lia.
    + destruct (Nat.lt_trichotomy b x) as [L|[E|G']]; [|subst b|lia].
      * exfalso. apply (S2' b); [lia|exact Hrb].
      * exfalso. destruct Ht as (e & He & Pe), Hrb as (e' & He' & Pe'). rewrite He in He'. inversion He'; subst.
        eapply touch_not_runlock; eauto.
Qed.

(** ** computed runs (non-vacuity, and what the NDEBUG code does when release() is called inside the lock) *)
Definition clis (r : list (nat * ev) * bool) : list (nat * ev) :=
  filter (fun x => match snd x with EvCli _ _ => true | _ => false end) (fst r).

(** thread 1 marks node 1 (erase), thread 0's get() unlinks it and takes it into its raw_ptr chain ("hold 1" by thread 0);
    thread 0 leaves the section, releases, retires; the disposal comes last *)
Definition help_sched : list nat := repeat 0%nat 15 ++ repeat 1%nat 12 ++ repeat 0%nat 60 ++ repeat 1%nat 60.
Definition help_run := run_case [1; 50] [[[1]; [5]; [3]; [7]; [4]; [9]]; [[1]; [10]]] help_sched 3000.

Lemma help_run_events :
  snd help_run = true /\
  map snd (filter (fun x => orb (is_hold 1 (snd x)) (orb (is_release 1 (snd x)) (orb (is_retire 1 (snd x)) (is_dispose 1 (snd x)))))
             (clis help_run))
  = [EvCli "hold" [1]; EvCli "release" [1]; EvCli "retire" [1]; EvCli "dispose" [1]] /\
  map fst (filter (fun x => is_cli "marked" (snd x)) (clis help_run)) = [1%nat] /\
  map fst (filter (fun x => is_hold 1 (snd x)) (clis help_run)) = [0%nat].
Proof. vm_compute. repeat split; reflexivity. Qed.

(** strict = false (what the NDEBUG build does): exempt_ptr::release() inside a read-side section calls retire_ptr =
    synchronize(), which spins on the caller's own record: "retire 1" is followed by "outoffuel", never by "dispose 1" *)
Definition deadlock_run (sfuel : Z) := run_case [0; sfuel] [[[1]; [5]; [11]; [3]; [13]]] [] 4000.

Lemma release_inside_lock_deadlocks :
  forall sfuel, In sfuel [5; 20; 80; 320] ->
    snd (deadlock_run sfuel) = true /\
    List.length (filter (fun x => is_retire 1 (snd x)) (clis (deadlock_run sfuel))) = 1%nat /\
    List.length (filter (fun x => is_dispose 1 (snd x)) (clis (deadlock_run sfuel))) = 0%nat /\
    List.length (filter (fun x => is_cli "outoffuel" (snd x)) (clis (deadlock_run sfuel))) = 1%nat.
Proof. intros sfuel [<-|[<-|[<-|[<-|[]]]]]; vm_compute; repeat split; reflexivity. Qed.

(** the same program with the contract respected (release after leaving the section) completes and disposes the node *)
Lemma release_outside_lock_completes :
  let r := run_case [0; 80] [[[1]; [5]; [11]; [3]; [4]; [13]]] [] 4000 in
  snd r = true /\ List.length (filter (fun x => is_dispose 1 (snd x)) (clis r)) = 1%nat /\
  List.length (filter (fun x => is_cli "outoffuel" (snd x)) (clis r)) = 0%nat.
Proof. vm_compute. repeat split; reflexivity. Qed.
