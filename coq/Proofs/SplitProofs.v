(** * Proofs about the sequential split-list model (LV.Model.SplitSeq), for ALL hash functions [bh], split-order
      encodings [rso]/[dso], capacities and load factors.

    Growth of the bucket table changes only [blog]/[smax]; bucket initialisation only inserts dummy nodes.  The
    list of regular keys, IN LIST ORDER, is unchanged by both; insert adds exactly one regular node, erase
    removes exactly one. *)
From Coq Require Import List NArith Arith Bool Lia Permutation.
From LV Require Import Model.CuckooSeq Model.SplitSeq.
Import ListNotations.

Lemma ord_ins_dummy l n : is_dummy n = true -> regular_keys (snd (ord_ins l n)) = regular_keys l.
Proof.
  intros Hd. induction l as [|y l IH]; simpl.
  - unfold regular_keys; simpl. now rewrite Hd.
  - destruct (node_lt y n).
    + destruct (ord_ins l n) as [r l'']; simpl in *. unfold regular_keys in *; simpl.
      destruct (is_dummy y); simpl; [exact IH|now rewrite IH].
    + destruct (node_eq y n); simpl; auto. unfold regular_keys; simpl. now rewrite Hd.
Qed.

Lemma ins_from_dummy l d n : is_dummy n = true -> regular_keys (snd (ins_from l d n)) = regular_keys l.
Proof.
  intros Hd. induction l as [|y l IH]; simpl; auto.
  destruct (is_dummy y && N.eqb (so y) d).
  - pose proof (ord_ins_dummy l n Hd) as H. destruct (ord_ins l n) as [r l'']; simpl in *.
    unfold regular_keys in *; simpl. destruct (is_dummy y); simpl; [exact H|now rewrite H].
  - destruct (ins_from l d n) as [r l'']; simpl in *.
    unfold regular_keys in *; simpl. destruct (is_dummy y); simpl; [exact IH|now rewrite IH].
Qed.

Lemma ord_ins_regular l n : is_dummy n = false ->
  if fst (ord_ins l n) then Permutation (regular_keys (snd (ord_ins l n))) (skey n :: regular_keys l)
  else snd (ord_ins l n) = l.
Proof.
  intros Hd. induction l as [|y l IH]; simpl.
  - unfold regular_keys; simpl. now rewrite Hd.
  - destruct (node_lt y n).
    + destruct (ord_ins l n) as [r l'']; simpl in *. destruct r.
      * unfold regular_keys in *; simpl. destruct (is_dummy y); simpl; [exact IH|].
        rewrite IH. apply perm_swap.
      * now rewrite IH.
    + destruct (node_eq y n); simpl; auto. unfold regular_keys; simpl. now rewrite Hd.
Qed.

Lemma ins_from_regular l d n : is_dummy n = false ->
  if fst (ins_from l d n) then Permutation (regular_keys (snd (ins_from l d n))) (skey n :: regular_keys l)
  else snd (ins_from l d n) = l.
Proof.
  intros Hd. induction l as [|y l IH]; simpl; auto.
  destruct (is_dummy y && N.eqb (so y) d).
  - pose proof (ord_ins_regular l n Hd) as H. destruct (ord_ins l n) as [r l'']; simpl in *. destruct r.
    + unfold regular_keys in *; simpl. destruct (is_dummy y); simpl; [exact H|]. rewrite H. apply perm_swap.
    + now rewrite H.
  - destruct (ins_from l d n) as [r l'']; simpl in *. destruct r.
    + unfold regular_keys in *; simpl. destruct (is_dummy y); simpl; [exact IH|]. rewrite IH. apply perm_swap.
    + now rewrite IH.
Qed.

Lemma node_eq_regular y n : is_dummy n = false -> node_eq y n = true -> is_dummy y = false /\ skey y = skey n.
Proof.
  unfold node_eq. intros Hd H. apply andb_prop in H. destruct H as [H H3]. apply andb_prop in H. destruct H as [_ H2].
  rewrite Hd in H2. destruct (is_dummy y); simpl in *; [discriminate|]. split; auto. now apply N.eqb_eq.
Qed.

Lemma ord_del_regular l n : is_dummy n = false ->
  if fst (ord_del l n) then Permutation (skey n :: regular_keys (snd (ord_del l n))) (regular_keys l)
  else snd (ord_del l n) = l.
Proof.
  intros Hd. induction l as [|y l IH]; simpl; auto.
  destruct (node_lt y n).
  - destruct (ord_del l n) as [r l'']; simpl in *. destruct r.
    + unfold regular_keys in *; simpl. destruct (is_dummy y); simpl; [exact IH|].
      rewrite perm_swap. now constructor.
    + now rewrite IH.
  - destruct (node_eq y n) eqn:E; simpl; auto.
    destruct (node_eq_regular y n Hd E) as [E1 E2]. unfold regular_keys; simpl. rewrite E1; simpl. now rewrite E2.
Qed.

Lemma del_from_regular l d n : is_dummy n = false ->
  if fst (del_from l d n) then Permutation (skey n :: regular_keys (snd (del_from l d n))) (regular_keys l)
  else snd (del_from l d n) = l.
Proof.
  intros Hd. induction l as [|y l IH]; simpl; auto.
  destruct (is_dummy y && N.eqb (so y) d).
  - pose proof (ord_del_regular l n Hd) as H. destruct (ord_del l n) as [r l'']; simpl in *. destruct r.
    + unfold regular_keys in *; simpl. destruct (is_dummy y); simpl; [exact H|]. rewrite perm_swap. now constructor.
    + now rewrite H.
  - destruct (del_from l d n) as [r l'']; simpl in *. destruct r.
    + unfold regular_keys in *; simpl. destruct (is_dummy y); simpl; [exact IH|]. rewrite perm_swap. now constructor.
    + now rewrite IH.
Qed.

Section Proofs.
  Variable bh : key -> N.
  Variable rso : key -> N.
  Variable dso : N -> N.

  Notation init_bucket := (init_bucket dso).
  Notation get_bucket := (get_bucket bh dso).

  (** bucket initialisation (any bucket, any recursion depth) leaves the regular keys — and their order — alone,
      and changes neither the bucket count nor the item count *)
  Theorem init_bucket_preserves fuel : forall t b,
    regular_keys (slist (init_bucket fuel t b)) = regular_keys (slist t) /\
    blog (init_bucket fuel t b) = blog t /\ sc (init_bucket fuel t b) = sc t /\
    smax (init_bucket fuel t b) = smax t /\ scap (init_bucket fuel t b) = scap t /\ slf (init_bucket fuel t b) = slf t.
  Proof.
    induction fuel as [|f IH]; intros t b; simpl.
    - destruct (existsb (N.eqb b) (binit t)); auto 10.
    - destruct (existsb (N.eqb b) (binit t)); [auto 10|].
      destruct (IH t (parent_bucket b)) as [A [B [C [D [E F]]]]].
      pose proof (ins_from_dummy (slist (init_bucket f t (parent_bucket b))) (dso (parent_bucket b))
                                 (mkN (dso b) true 0%N) eq_refl) as H.
      destruct (ins_from _ _ _) as [r l']; simpl in *. destruct r; simpl; auto 10.
      rewrite H. auto 10.
  Qed.

  (** growth of the bucket table: the list is untouched *)
  Theorem grow_preserves t : slist (grow t) = slist t /\ sc (grow t) = sc t.
  Proof. unfold grow. destruct (2 ^ blog t <? scap t); simpl; auto. Qed.

  (** growth followed by any number of lazy bucket initialisations *)
  Theorem growth_preserves t bs :
    regular_keys (slist (fold_left (fun t' b => init_bucket (S (N.size_nat b)) t' b) bs (grow t))) = regular_keys (slist t).
  Proof.
    destruct (grow_preserves t) as [G _]. rewrite <- G. generalize (grow t). clear G.
    induction bs as [|b bs IH]; intros s; [reflexivity|].
    cbn [fold_left]. rewrite IH. apply (init_bucket_preserves (S (N.size_nat b)) s b).
  Qed.

  Lemma inc_item_count_list t : slist (inc_item_count t) = slist t.
  Proof.
    unfold inc_item_count. destruct (smax t) as [n|]; [|reflexivity].
    destruct (S (sc t) <=? n); [reflexivity|]. unfold grow. cbn [blog scap slist].
    destruct (2 ^ blog t <? scap t); reflexivity.
  Qed.

  Theorem sp_insert_conserves t x r t' : sp_insert bh rso dso t x = (r, t') ->
    if r then Permutation (regular_keys (slist t')) (x :: regular_keys (slist t))
    else regular_keys (slist t') = regular_keys (slist t).
  Proof.
    unfold sp_insert, SplitSeq.get_bucket.
    set (b := bucket_no bh t x). destruct (init_bucket_preserves (S (N.size_nat b)) t b) as [A _].
    set (t1 := init_bucket (S (N.size_nat b)) t b) in *.
    pose proof (ins_from_regular (slist t1) (dso b) (mkN (rso x) false x) eq_refl) as H.
    destruct (ins_from _ _ _) as [ok l']; simpl in *.
    destruct ok; intros E; inversion E; subst; clear E.
    - rewrite inc_item_count_list; simpl. now rewrite H, A.
    - exact A.
  Qed.

  Theorem sp_erase_conserves t x r t' : sp_erase bh rso dso t x = (r, t') ->
    if r then Permutation (x :: regular_keys (slist t')) (regular_keys (slist t))
    else regular_keys (slist t') = regular_keys (slist t).
  Proof.
    unfold sp_erase, SplitSeq.get_bucket.
    set (b := bucket_no bh t x). destruct (init_bucket_preserves (S (N.size_nat b)) t b) as [A _].
    set (t1 := init_bucket (S (N.size_nat b)) t b) in *.
    pose proof (del_from_regular (slist t1) (dso b) (mkN (rso x) false x) eq_refl) as H.
    destruct (del_from _ _ _) as [ok l']; simpl in *.
    destruct ok; intros E; inversion E; subst; clear E; simpl.
    - now rewrite H, A.
    - exact A.
  Qed.

  Theorem sp_find_preserves t x : regular_keys (slist (snd (sp_find bh rso dso t x))) = regular_keys (slist t).
  Proof. unfold sp_find, SplitSeq.get_bucket. cbn [snd]. apply (init_bucket_preserves (S (N.size_nat (bucket_no bh t x))) t). Qed.
End Proofs.
