(** * The client loop of operation 20 (visit, erase_at, ++it), every operation, every thread program and the initial
      configuration of LV.Model.IterListIter are safe (Proofs/ConcRel.v) for the invariant / step relation of
      Proofs/IterListIterDefs.v. *)
From Coq Require Import ZArith List String Bool Lia PeanoNat.
From LV Require Import Base.Conc Base.Events Model.IterList Model.IterListIter Proofs.ConcRel Proofs.IterListIterDefs
                       Proofs.IterListIterOps Proofs.IterListIterOps2 Proofs.IterListIterIt.
Import ListNotations.

Set Implicit Arguments.

Section Prog.
  Variables (N X : nat).
  Hypothesis HX : X <> 0.
  Variable t : nat.

  Notation safeR := (@ConcRel.safeR G V ev Aux L W view (Inv N) (SR N X)).
  Notation prog := (Conc.prog G V ev).
  Notation C := (C X).
  Notation D := (D N X).
  Notation LV := (LV N X).

  (** ** end(): the walk that starts at the tail stops there *)
  Lemma act_ldd_tail R (k : V -> prog R) l w Q :
    (forall v, vptr v = 0 -> safeR t (k v) l w Q) -> safeR t (Act (a_ldd TAIL) k) l w Q.
  Proof.
    intros Hk g a tr [HI HT] Hv. exists a, w.
    assert (Hd : fst (fst (a_ldd TAIL g)) = g /\ snd (a_ldd TAIL g) = [EvAcc KLd (obj_data TAIL) true] /\
                 vptr (snd (fst (a_ldd TAIL g))) = fst (ndata g TAIL)).
    { unfold a_ldd. destruct (ndata g TAIL) as [i m]. cbn. auto. }
    destruct Hd as (E1 & E2 & E3). rewrite E1, E2.
    split; [split; assumption|]. split; [intros ? ?; reflexivity|].
    split; [apply SR_nx; [reflexivity|apply TR_same; auto using all_acc_quiet, all_acc1]|]. rewrite Hv. apply Hk. congruence.
  Qed.

  Lemma act_ldn_tail R (k : V -> prog R) l w Q :
    safeR t (k (mkV TAIL false 0)) l w Q -> safeR t (Act (a_ldn TAIL) k) l w Q.
  Proof.
    intros Hk g a tr [HI HT] Hv. exists a, w. cbn [a_ldn fst snd]. rewrite (i_tn HI).
    split; [split; assumption|]. split; [intros ? ?; reflexivity|].
    split; [apply SR_nx; [reflexivity|apply TR_same; auto using all_acc_quiet, all_acc1]|]. rewrite Hv. exact Hk.
  Qed.

  Definition Ptail (l : L) (w : W) : option V -> L -> W -> Prop :=
    fun r l' w' => l' = l /\ w' = w /\ match r with Some v => vptr v = 0 | None => True end.

  Lemma protect_loop_tail fuel : forall s v0 l w, safeR t (protect_loop fuel t s TAIL v0) l w (Ptail l w).
  Proof.
    induction fuel as [|f IH]; intros s v0 l w; cbn [protect_loop].
    - cbn. unfold Ptail. auto.
    - apply act_data; [auto with dact|]. intros _. apply act_data; [auto with dact|]. intros _.
      apply act_ldd_tail. intros v E. destruct (veqb v0 v); [cbn; unfold Ptail; auto|apply IH].
  Qed.

  Lemma end_safe fuel sf s l w :
    safeR t (it_ctor fuel sf t s TAIL) l w
      (fun r l' w' => l' = l /\ w' = w /\ match r with Some (c, _) => c = TAIL | None => True end).
  Proof.
    unfold it_ctor, protect. apply ConcRel.safeR_bind. apply act_ldd_tail. intros v1 _.
    eapply ConcRel.safeR_weaken; [|apply protect_loop_tail].
    intros [v|] l1 w1 (-> & -> & E); [|cbn; auto].
    rewrite E. cbn [Nat.eqb negb].
    destruct fuel as [|f]; cbn [it_next]; [cbn; auto|].
    apply act_ldn_tail. cbn [vptr]. rewrite Nat.eqb_refl.
    apply dbind; [auto with dact|]. intros _. cbn. auto.
  Qed.

  (** ** steps of the iterating thread that change its ghost value only *)
  Lemma emit_tr R es (k : prog R) l w w' Q :
    (forall g, TR N X g g es w w') -> safeR t k l w' Q -> safeR t (Emit es k) l w Q.
  Proof.
    intros HT Hk g a tr HI Hv. exists a, w'. split; [exact HI|]. split; [intros ? ?; reflexivity|].
    split; [apply SR_nx; [reflexivity|apply HT]|]. rewrite Hv. exact Hk.
  Qed.

  (** ** erase_at( it ) *)
  Definition Perase (l : L) (w : W) : option bool -> L -> W -> Prop :=
    fun r l' w' => l' = l /\ wph w' = true /\ wok w' = wok w /\ wvis w' = wvis w /\ wfnd w' = wfnd w /\ wcur w' = wcur w /\
      match r with
      | Some true => wrem w' = S (wrem w) /\ wgone w' = wgone w
      | Some false => wrem w' = wrem w /\ wgone w' = true
      | None => True
      end.

  Lemma erase_at_it fuel : forall ic s n x l w, wph w = true -> wcur w = (n, x) -> x <> 0 ->
    safeR t (erase_at_loop fuel ic t s n x) l w (Perase l w).
  Proof.
    induction fuel as [|f IH]; intros ic s n x l w Hw Hc Hx; cbn [erase_at_loop].
    - cbn. unfold Perase. repeat split; auto.
    - apply act_data; [auto with dact|]. intros _.
      intros g a tr [HI HT] Hv. unfold a_casd_v. destruct (ndata g n) as [i m] eqn:Ed.
      destruct (Nat.eqb i x && negb m) eqn:Ec; cbn [fst snd].
      + (* the CAS removes the item *)
        apply andb_prop in Ec. destruct Ec as [E1 E2]. apply Nat.eqb_eq in E1. apply negb_true_iff in E2. subst i m.
        exists a, (mkW true (wok w) (wvis w) (wfnd w) (wcur w) (S (wrem w)) (wgone w) (wfresh w) (wfk w)).
        split. { split; [exact HI|]. cbn [ndata]. apply tail_upd; auto. }
        split; [intros ? ?; reflexivity|].
        split.
        { apply SR_nx; [reflexivity|]. apply TR_erase; auto using all_acc1; rewrite Hc; cbn [fst snd ndata nnext]; auto.
          - apply updf_eq.
          - intros m' Hm'. apply updf_neq. exact Hm'. }
        rewrite Hv. cbn [vkey Z.eqb Pos.eqb].
        apply dbind; [auto with dact|]. intros _. apply dbind; [auto with dact|]. intros _.
        cbn. unfold Perase. cbn. repeat split; auto.
      + destruct (Nat.eq_dec i x) as [Ei|Ei].
        * (* marked by a neighbour insert: retry *)
          subst i. assert (Em : m = true) by (rewrite Nat.eqb_refl in Ec; destruct m; [reflexivity|discriminate]). subst m.
          exists a, w. split; [split; assumption|]. split; [intros ? ?; reflexivity|].
          split; [apply SR_nx; [reflexivity|apply TR_same; auto using all_acc_quiet, all_acc1]|].
          rewrite Hv. cbn [vkey vptr vmark Z.eqb]. apply act_data; [auto with dact|]. intros _.
          rewrite Nat.eqb_refl. cbn [negb orb]. apply IH; auto.
        * (* the node holds another item (or none) *)
          exists a, (mkW true (wok w) (wvis w) (wfnd w) (wcur w) (wrem w) true (wfresh w) (wfk w)).
          split; [split; assumption|]. split; [intros ? ?; reflexivity|].
          split.
          { apply SR_nx; [reflexivity|]. apply TR_gone; auto using all_acc1; rewrite Hc; cbn [fst snd]; auto. rewrite Ed. cbn. exact Ei. }
          rewrite Hv. cbn [vkey vptr vmark Z.eqb]. apply act_data; [auto with dact|]. intros _.
          destruct (Nat.eqb_spec i x) as [K|K]; [contradiction|]. cbn [negb orb].
          cbn. unfold Perase. cbn. repeat split; auto.
  Qed.

  (** ** operator*, "visit", erase_at *)
  Definition Pvisit (cur : nat) (l : L) : option unit -> L -> W -> Prop :=
    fun r l' w' => l' = l /\ match r with Some _ => wph w' = true /\ C l w' /\ D cur w' | None => True end.

  Lemma visit_elem_it sf ic s kdel cur v l w : wph w = true -> C l w -> vptr v <> 0 -> LV cur v w ->
    safeR t (visit_elem sf ic t s kdel cur v) l w (Pvisit cur l).
  Proof.
    intros Hw HC Hv0 (L1 & L2 & L3). unfold visit_elem.
    apply act_data; [auto with dact|]. intros _.
    set (w1 := mkW true (wok w) (vptr v :: wvis w) (cur, vptr v) (cur, vptr v) 0 false false (vkey v)).
    destruct (L1 Hv0) as (Hf & Hfr & Hfk).
    apply emit_tr with (w' := w1).
    { intros g. apply TR_visit; unfold w1; rewrite ?Hf, ?Hfk; cbn [fst snd]; auto. }
    assert (HC1 : C l w1) by (intros Hj Hok; right; apply HC; auto).
    assert (HD1 : D cur w1) by (intros En Hok; left; apply L2; auto).
    destruct (Z.eqb (vkey v) kdel); [|cbn; unfold Pvisit; auto].
    apply ConcRel.safeR_bind. eapply ConcRel.safeR_weaken; [|apply erase_at_it with (n := cur) (x := vptr v); auto].
    intros [b|] l2 w2 (-> & E1 & E2 & E3 & E4 & E5 & Hb); [|cbn; unfold Pvisit; auto].
    apply emit_tr with (w' := w2).
    { intros g. apply TR_erased with (b := b); auto.
      - rewrite E5. unfold w1. cbn. exact Hv0.
      - intros ->. destruct Hb as [Hb _]. rewrite Hb. reflexivity.
      - intros ->. destruct Hb as [Hb1 Hb2]. rewrite Hb1. auto. }
    cbn. unfold Pvisit. split; [reflexivity|]. split; [exact E1|]. split.
    - intros Hj Hok. rewrite E3. apply HC1; auto. rewrite <- E2. exact Hok.
    - intros En Hok. rewrite E3. apply HD1; auto. rewrite <- E2. exact Hok.
  Qed.

  (** ** the loop *)
  Definition ITD (l : L) (w : W) (cur : nat) (v : V) : Prop :=
    wph w = true /\ stage l = SPend cur /\ kn l cur /\ C l w /\
    ((vptr v = 0 /\ jd l = true /\ cur = TAIL) \/ (vptr v <> 0 /\ LV cur v w)).

  Definition Pdone : option unit -> L -> W -> Prop :=
    fun r l' w' => match r with Some _ => wph w' = true /\ (wok w' = true -> In X (wvis w')) | None => True end.

  Lemma iter_loop_it fuel : forall sf ic s kdel cur v l w, ITD l w cur v ->
    safeR t (iter_loop fuel sf ic t s kdel TAIL cur v) l w Pdone.
  Proof.
    induction fuel as [|f IH]; intros sf ic s kdel cur v l w (Hw & Hs & Hc & HC & Hd); cbn [iter_loop]; [cbn; exact I|].
    destruct (Nat.eqb_spec cur TAIL) as [Et|Et].
    - cbn. split; [exact Hw|]. destruct Hd as [(_ & Hj & _)|(Hv0 & _ & _ & L3)]; [apply HC; exact Hj|].
      exfalso. apply Hv0. apply L3. exact Et.
    - destruct Hd as [(_ & _ & K)|(Hv0 & Hlv)]; [contradiction|].
      apply ConcRel.safeR_bind. eapply ConcRel.safeR_weaken; [|apply visit_elem_it; eauto].
      intros [u|] l1 w1 (-> & Hr); [|cbn; exact I]. destruct Hr as (Hw1 & HC1 & HD1).
      apply ConcRel.safeR_bind. eapply ConcRel.safeR_weaken; [|apply it_next_it; eauto].
      intros [[cur' v']|] l2 w2 (Hs2 & Hr2); [|cbn; exact I].
      destruct Hr2 as (S2 & K2 & C2 & D2). apply IH. unfold ITD. split; [destruct Hs2 as (E & _); congruence|]. auto.
  Qed.

  Lemma iter_body_it fuel sf ic kdel s s2 l w : wph w = true -> stage l = SPend HEAD -> C l w ->
    safeR t (iter_body fuel sf ic t kdel s s2) l w Pdone.
  Proof.
    intros Hw Hs HC. unfold iter_body.
    apply ConcRel.safeR_bind. eapply ConcRel.safeR_weaken; [|apply it_ctor_it; eauto with lx].
    intros [[cur v]|] l1 w1 (Hs1 & Hr1); [|cbn; exact I].
    destruct Hr1 as (S1 & K1 & C1 & D1).
    apply ConcRel.safeR_bind. eapply ConcRel.safeR_weaken; [|apply end_safe].
    intros [[ecur ev0]|] l2 w2 (-> & -> & Ee); [|cbn; exact I]. subst ecur.
    apply ConcRel.safeR_bind. eapply ConcRel.safeR_weaken; [|apply iter_loop_it].
    2: { unfold ITD. split; [destruct Hs1 as (E & _); congruence|]. auto. }
    intros [u|] l3 w3 Hr3; [|cbn; exact I].
    apply dbind; [auto with dact|]. intros _. apply dbind; [auto with dact|]. intros _. cbn. exact Hr3.
  Qed.

  (** the iteration after its invocation event: the response is emitted with [TR_finish] *)
  Lemma iter_op_it fuel sf ic kdel ls l w : wph w = true -> stage l = SPend HEAD -> C l w ->
    safeR t (iter_op fuel sf ic t kdel ls) l w (fun r l' w' => match r with Some _ => wph w' = false | None => True end).
  Proof.
    intros Hw Hs HC. unfold iter_op.
    apply ConcRel.safeR_bind. eapply ConcRel.safeR_weaken; [|apply iter_body_it; eauto].
    intros [u|] l1 w1 Hr.
    - destruct Hr as [Hw1 Hok].
      apply emit_tr with (w' := mkW false (wok w1) (wvis w1) (wfnd w1) (wcur w1) (wrem w1) (wgone w1) (wfresh w1) (wfk w1)).
      + intros g. apply TR_finish; auto.
      + cbn. reflexivity.
    - (* out of fuel: the thread stops, its ghost value stays "iterating" *)
      unfold give_up. apply emit_quiet; [apply quiet_oof|]. cbn. exact I.
  Qed.
End Prog.
