(** * The MSPriorityQueue theorems for the capacities the real code has.

    After the fix "MSPriorityQueue uses only complete heap levels of a non-power-of-two buffer" capacity() is
    floor2(buffer size) - 1 = 2^k - 1 for every buffer; [MsPqBrcAll.slots_ok_all] / [shape_ok_all] prove the counter
    facts for every such capacity below 2^61 from the closed form of C26 (through the equality of the model's counter
    with the generated translation), so the boolean hypotheses [slots_ok cap = true] / [shape_ok cap = true] of the
    general theorems are discharged: no bounded sweep is involved. *)
From Coq Require Import ZArith List String Bool Lia PeanoNat Permutation.
From LV Require Import Base.Conc Base.Events Base.Lin Spec.Specs Model.MsPq
  Proofs.MsPqBrc Proofs.MsPqBrcAll Proofs.MsPqInv Proofs.MsPqProofs Proofs.MsPqHeap Proofs.MsPqSeq Proofs.MsPqPhase
  Proofs.MsPqBounds Proofs.MsPqPush Proofs.MsPqPop Proofs.MsPqStack.
Import ListNotations.

Definition rcap (k : nat) : nat := 2 ^ k - 1.

Theorem real_capacities k : k <= 61 -> slots_ok (rcap k) = true /\ shape_ok (rcap k) = true.
Proof. intros Hk. split; [apply slots_ok_all|apply shape_ok_all]; exact Hk. Qed.

Theorem mspq_conservation_real k bsz hf lf ths c :
  k <= 61 -> rcap k < bsz -> Conc.reach (init_cfg (rcap k) bsz hf lf ths) c ->
  exists held : list (nat * item),
    NoDup (map fst held) /\ (forall t x, In (t, x) held -> pend (Conc.trace c) t = true) /\
    Permutation (heap_items (rcap k) (Conc.shared c) ++ map snd held ++ given_back (Conc.trace c)) (invoked (Conc.trace c)).
Proof. intros Hk Hb. apply (mspq_conservation (rcap k) (slots_ok_all k Hk) bsz Hb). Qed.

Theorem mspq_push_fails_only_if_full_real k bsz hf lf ths c :
  k <= 61 -> rcap k < bsz -> Conc.reach (init_cfg (rcap k) bsz hf lf ths) c ->
  full_events_ok (rcap k) (Conc.trace c) /\ fails_ok (Conc.trace c) = true.
Proof. intros Hk Hb. apply (mspq_push_fails_only_if_full (rcap k) (slots_ok_all k Hk) bsz Hb). Qed.

Theorem mspq_no_oob_real k bsz hf lf ths c :
  k <= 61 -> rcap k < bsz -> Conc.reach (init_cfg (rcap k) bsz hf lf ths) c ->
  forall te, In te (Conc.trace c) -> is_cli "ub_oob" (snd te) = false.
Proof. intros Hk Hb. apply (mspq_no_oob_event (rcap k) (slots_ok_all k Hk) bsz Hb). Qed.

Theorem mspq_sequential_real k bsz hf lf os c :
  k <= 61 -> rcap k < bsz -> Conc.reach (init_cfg (rcap k) bsz hf lf [os]) c ->
  (exists fut, phist (Conc.trace c) ++ fut = spec_hist (rcap k) [] os) /\
  linearizable (BPQueue (rcap k)) (hist_of (rcap k) (Conc.trace c)).
Proof.
  intros Hk Hb Hr. split.
  - apply (mspq_sequential_refines (rcap k) (slots_ok_all k Hk) (shape_ok_all k Hk) bsz Hb hf lf os c Hr).
  - apply (mspq_phase_linearizable_partial (rcap k) (slots_ok_all k Hk) (shape_ok_all k Hk) bsz Hb hf lf os c Hr).
Qed.

Theorem mspq_push_phase_real k bsz hf lf ths c :
  k <= 61 -> rcap k < bsz -> Conc.reach (init_cfg (rcap k) bsz hf lf ths) c ->
  pop_invoked (Conc.trace c) = false -> (forall t, pend (Conc.trace c) t = false) ->
  Good (count (Conc.shared c)) (cellv (Conc.shared c)) (cellt (Conc.shared c)) /\
  Permutation (heap_items (rcap k) (Conc.shared c) ++ given_back (Conc.trace c)) (invoked (Conc.trace c)).
Proof. intros Hk Hb. apply (mspq_push_phase_heap (rcap k) (slots_ok_all k Hk) (shape_ok_all k Hk) bsz Hb). Qed.

Theorem mspq_two_phase_real k bsz hf lf ths c :
  k <= 61 -> rcap k < bsz -> Conc.reach (init_cfg (rcap k) bsz hf lf ths) c ->
  twophase (Conc.trace c) = true -> (forall t, pend (Conc.trace c) t = false) ->
  Good (count (Conc.shared c)) (cellv (Conc.shared c)) (cellt (Conc.shared c)) /\
  Permutation (heap_items (rcap k) (Conc.shared c) ++ given_back (Conc.trace c)) (invoked (Conc.trace c)).
Proof. intros Hk Hb. apply (mspq_two_phase_heap (rcap k) (slots_ok_all k Hk) (shape_ok_all k Hk) bsz Hb). Qed.

Theorem mspq_two_phase_linearizable_real k bsz hf lf ths c :
  k <= 61 -> rcap k < bsz -> Conc.reach (init_cfg (rcap k) bsz hf lf ths) c ->
  twophase (Conc.trace c) = true -> linearizable (BPQueue (rcap k)) (hist_of (rcap k) (Conc.trace c)).
Proof. intros Hk Hb. apply (mspq_two_phase_linearizable (rcap k) (slots_ok_all k Hk) (shape_ok_all k Hk) bsz Hb). Qed.
