(** * DhpLiveGxE: C02, second sentence for DHP -- towards the allocator discipline [cell_disc].  Part X-E: ownership of
      the guard blocks restated over the trace.  A third invariant [InvB3] on top of [InvA] x [InvG] (rule of
      DhpLiveGcRule): a guard block that a thread has taken from hp_allocator and not linked yet ([gpv] of the summary
      [gfold]; or created by new_gblock and not announced yet, ghost [xb_nb]) is in no free list, linked into no attached
      record, private to one thread and in nobody's limbo; the blocks of a record being detached (limbo: ghost
      [xb_lim], [xb_fr]) form the next_block_ chain from the detaching thread's cursor and belong to it alone.
      This file: definitions, what the C02 invariant [JA] gives, the node rules and the programs that do not touch
      guard blocks. *)
From Coq Require Import ZArith NArith List String Bool Lia PeanoNat.
From LV Require Import Base.Conc Base.Events Model.DhpLang Model.Dhp Proofs.DhpBase Proofs.DhpHist
  Proofs.DhpLangProofs Proofs.DhpInvA Proofs.DhpStepsA Proofs.DhpLiveA Proofs.DhpLiveB
  Proofs.DhpLiveGcRule Proofs.DhpLiveGcA Proofs.DhpLiveGcB Proofs.DhpLiveGcC Proofs.DhpLiveGcD Proofs.DhpLiveGxA.
Import ListNotations.
Local Open Scope string_scope.
Local Open Scope list_scope.

(** ** ghost state and the invariant *)
Record XB := mkXB { xb_nb : option nat; xb_lim : option (option nat * list nat); xb_fr : option nat }.
Definition xb0 : XB := mkXB None None None.
Record AuxB := mkAB { ab_g : GS; ab_x : nat -> XB }.
Definition viewB3 (a : AuxB) (t : nat) : VG * XB := (viewG (ab_g a) t, ab_x a t).

Definition latt (h : H) (b : nat) : Prop := exists r t k kb, att h r = Some (t, k) /\ In (b, kb) (linked h r).
Definition priv (st : GS) (x : nat -> XB) (u b : nat) : Prop := gpv st u = Some b \/ xb_nb (x u) = Some b.
Definition inlim (x : nat -> XB) (w b : nat) : Prop :=
  (exists o lb, xb_lim (x w) = Some (o, lb) /\ In b lb) \/ xb_fr (x w) = Some b.

Fixpoint bchain (g : G) (o : option nat) (l : list nat) : Prop :=
  match l with
  | [] => o = None
  | b :: l' => o = Some b /\ bchain g (gb_nextb (ggb g b)) l'
  end.

Record JB (g : G) (st : GS) (x : nat -> XB) (h : H) : Prop := {
  jb_priv : forall u b, priv st x u b ->
              b < List.length (gbs g) /\ ~ In b (freeh h FHp) /\ ~ latt h b /\
              (forall u', priv st x u' b -> u' = u) /\ (forall w, ~ inlim x w b);
  jb_lim : forall w o lb, xb_lim (x w) = Some (o, lb) -> bchain g o lb /\ NoDup lb /\
              (forall b, xb_fr (x w) = Some b -> ~ In b lb);
  jb_limb : forall w b, inlim x w b ->
              b < List.length (gbs g) /\ ~ In b (freeh h FHp) /\ (forall w', inlim x w' b -> w' = w) /\
              (forall r t k kb, att h r = Some (t, k) -> In (b, kb) (linked h r) -> t = w) }.

Definition InvB3 (c : cfg) (g : G) (a : AuxB) (tr : list (nat * ev)) : Prop :=
  ab_g a = gfold tr /\ (flbad (hist tr) = false -> cell_disc c tr -> JB g (gfold tr) (ab_x a) (hist tr)).

(** what the lower invariants give *)
Lemma I1_open c g tr : I1 (InvAG c) g tr -> flbad (hist tr) = false -> cell_disc c tr ->
  exists a1, JA c g a1 (hist tr) /\ TPropG tr /\ K c (gfold tr) (hist tr).
Proof.
  intros ((a1 & a2) & (HA & (E & HG))) Hf Hd. cbn [fst snd] in *. destruct (HA Hf) as (J & _). destruct (HG Hf Hd) as (T & _).
  exists a1. split; [exact J|]. split; [exact T|]. now apply K_good.
Qed.

Lemma JA_free c g a h b : JA c g a h -> In b (freeh h FHp) -> ~ latt h b /\ b < List.length (gbs g).
Proof.
  intros J Hin. destruct (ja_free _ _ _ _ J) as (F1 & _). apply F1 in Hin. split.
  - intros (r & t & k & kb & A & B). destruct (ja_att _ _ _ _ J r t k A) as (_&_&_&_&_&_&_&_&X). destruct (X b kb B) as (Y & _). congruence.
  - destruct (Nat.lt_ge_cases b (List.length (gbs g))) as [L|L]; [exact L|]. rewrite (ja_bnd _ _ _ _ J b L) in Hin. discriminate.
Qed.
Lemma JA_latt_uniq c g a h b r t k kb r' t' k' kb' : JA c g a h ->
  att h r = Some (t, k) -> In (b, kb) (linked h r) -> att h r' = Some (t', k') -> In (b, kb') (linked h r') -> r = r'.
Proof.
  intros J A B A' B'. destruct (ja_att _ _ _ _ J r t k A) as (_&_&_&_&_&_&_&_&X). destruct (ja_att _ _ _ _ J r' t' k' A') as (_&_&_&_&_&_&_&_&X').
  destruct (X b kb B) as (Y & _). destruct (X' b kb' B') as (Y' & _). congruence.
Qed.
Lemma JA_latt_len c g a h b : JA c g a h -> latt h b -> b < List.length (gbs g) /\ ~ In b (freeh h FHp).
Proof.
  intros J (r & t & k & kb & A & B). destruct (ja_att _ _ _ _ J r t k A) as (_&_&_&_&_&_&X&_&Y). split.
  - destruct (gchain_in c g _ _ b X) as (Z & _); [apply (in_map fst _ _ B)|exact Z].
  - intros Hin. destruct (ja_free _ _ _ _ J) as (F1 & _). apply F1 in Hin. destruct (Y b kb B) as (W & _). congruence.
Qed.
Lemma gchain_bchain c g : forall l o, gchain c g o l -> bchain g o l.
Proof. induction l as [|b l IH]; intros o Hc; cbn in *; [exact Hc|]. destruct Hc as (E & _ & _ & Hc). split; auto. Qed.
Lemma JA_chain c g a h r t k : JA c g a h -> att h r = Some (t, k) ->
  bchain g (r_ext (grec g r)) (map fst (linked h r)) /\ NoDup (map fst (linked h r)).
Proof. intros J A. destruct (ja_att _ _ _ _ J r t k A) as (_&_&_&_&_&_&X&Y&_). split; [eapply gchain_bchain; eauto|exact Y]. Qed.

Lemma bchain_ext g g' : forall l o, (forall b, In b l -> gb_nextb (ggb g' b) = gb_nextb (ggb g b)) -> bchain g o l -> bchain g' o l.
Proof.
  induction l as [|b l IH]; intros o He Hc; cbn in *; [exact Hc|]. destruct Hc as (E & Hc). split; [exact E|].
  rewrite (He b (or_introl eq_refl)). apply IH; [intros b' Hb'; apply He; now right|exact Hc].
Qed.

(** ** what the invariant reads *)
Lemma JB_ext g g' st st' x h h' : JB g st x h ->
  List.length (gbs g) <= List.length (gbs g') -> (forall b, b < List.length (gbs g) -> gb_nextb (ggb g' b) = gb_nextb (ggb g b)) ->
  (forall u, gpv st' u = gpv st u) -> (forall r, att h' r = att h r) -> (forall r, linked h' r = linked h r) ->
  freeh h' FHp = freeh h FHp -> JB g' st' x h'.
Proof.
  intros [J1 J2 J3] Hl Hn Hp Ha Hk Hf.
  assert (Hpr : forall u b, priv st' x u b <-> priv st x u b) by (intros u b; unfold priv; now rewrite Hp).
  assert (Hla : forall b, latt h' b <-> latt h b).
  { intros b. unfold latt. split; intros (r & t & k & kb & A & B); exists r, t, k, kb; [rewrite <- Ha, <- Hk|rewrite Ha, Hk]; auto. }
  constructor.
  - intros u b Hu. apply Hpr in Hu. destruct (J1 u b Hu) as (A1 & A2 & A3 & A4 & A5). rewrite Hf.
    split; [lia|]. split; [exact A2|]. split; [now rewrite Hla|]. split; [intros u' Hu'; apply A4; now apply Hpr|exact A5].
  - intros w o lb Hw. destruct (J2 w o lb Hw) as (A1 & A2 & A3). split; [|auto].
    eapply bchain_ext; [|exact A1]. intros b Hb. apply Hn. apply (J3 w b). left. eauto.
  - intros w b Hw. destruct (J3 w b Hw) as (A1 & A2 & A3 & A4). rewrite Hf. split; [lia|]. split; [exact A2|]. split; [exact A3|].
    intros r t k kb. rewrite Ha, Hk. apply A4.
Qed.

(** ** events that change neither the private blocks, nor attachment, nor the guard-block free list *)
Definition quietB (e : ev) : bool :=
  match classify e with
  | HAtt _ | HDet _ | HLink _ _ | HAlloc FHp _ | HFree FHp _ | HNew FHp _ => false
  | _ => true
  end.

Lemma quietB_gstep st u e : quietB e = true -> forall u', gpv (gstep st (u, e)) u' = gpv st u' /\ gtl (gstep st (u, e)) u' = gtl st u'.
Proof.
  intros Hq u'. unfold gstep. cbn [fst snd]. pose proof (gcls_classify e) as GC. unfold quietB in Hq.
  destruct (gcls e) as [a|a| |s x|r|r| |s|b| |] eqn:Eg; cbn [gpv gtl]; auto.
  - rewrite GC in Hq. discriminate.
  - rewrite GC in Hq. discriminate.
  - exfalso. destruct e as [k o ok|name args]; [destruct (gcls_acc_cases k o ok) as [E|E]; rewrite E in Eg; discriminate|].
    unfold gcls in Eg. destruct (String.eqb name "op"); [discriminate|]. destruct (String.eqb name "ret"); [discriminate|].
    destruct (String.eqb name "_relall"); [discriminate|].
    destruct (String.eqb name "_own"); [destruct args as [|? [|? [|? [|? ?]]]]; discriminate|].
    destruct (classify (EvCli name args)) as [| | | |f b0|f b0| | | | |]; try discriminate; destruct f; discriminate.
  - destruct GC as (r1 & b1 & E). rewrite E in Hq. discriminate.
Qed.

Lemma quietB_hstep h u e : quietB e = true ->
  (forall r, att (hstep h (u, e)) r = att h r) /\ (forall r, linked (hstep h (u, e)) r = linked h r) /\
  freeh (hstep h (u, e)) FHp = freeh h FHp.
Proof.
  intros Hq. unfold quietB in Hq. split; [|split].
  - intros r. rewrite att_hstep. cbn [snd]. destruct (classify e); try discriminate; reflexivity.
  - intros r. rewrite linked_hstep. cbn [snd]. destruct (classify e); try discriminate; reflexivity.
  - unfold hstep. cbn [snd fst]. destruct (classify e) as [| | | |f b|f b|f b| | | |]; try reflexivity; try discriminate.
    + destruct f; [discriminate|]. destruct (existsb (Nat.eqb b) (freeh h FRt)); reflexivity.
    + destruct f; [discriminate|]. reflexivity.
Qed.

Lemma quietB_fold t es : Forall (fun e => quietB e = true) es -> forall st h,
  (forall u, gpv (fold_left gstep (Conc.tag t es) st) u = gpv st u /\ gtl (fold_left gstep (Conc.tag t es) st) u = gtl st u) /\
  (forall r, att (fold_left hstep (Conc.tag t es) h) r = att h r) /\
  (forall r, linked (fold_left hstep (Conc.tag t es) h) r = linked h r) /\
  freeh (fold_left hstep (Conc.tag t es) h) FHp = freeh h FHp.
Proof.
  induction es as [|e es IH]; intros Hq st h; [cbn; auto|]. inversion Hq; subst.
  change (Conc.tag t (e :: es)) with ((t, e) :: Conc.tag t es). cbn [fold_left].
  destruct (IH H2 (gstep st (t, e)) (hstep h (t, e))) as (A1 & A2 & A3 & A4).
  destruct (quietB_hstep h t e H1) as (B2 & B3 & B4). split; [|split; [|split]].
  - intros u. destruct (A1 u) as (X1 & X2). destruct (quietB_gstep st t e H1 u) as (Y1 & Y2). split; congruence.
  - intros r. now rewrite A2.
  - intros r. now rewrite A3.
  - now rewrite A4.
Qed.

(** ** the node rules *)
Definition piB (g g' : G) : Prop :=
  List.length (gbs g') = List.length (gbs g) /\ forall b, gb_nextb (ggb g' b) = gb_nextb (ggb g b).
Lemma piB_refl g : piB g g. Proof. split; auto. Qed.

Lemma viewG_fold_same_other t es a u : u <> t -> viewG (fold_left gstep (Conc.tag t es) a) u = viewG a u.
Proof. intros N. now apply viewG_fold_other. Qed.

Section B.
  Variable c : cfg.
  Notation rdb := (rdsafe (InvAG c) viewB3 (InvB3 c)).
  Notation I1G := (I1 (InvAG c)).

  Definition setx (a : AuxB) (t : nat) (es : list ev) (xt : XB) : AuxB :=
    mkAB (fold_left gstep (Conc.tag t es) (ab_g a)) (fnu (ab_x a) t xt).

  Lemma frame_setx a t es xt : Conc.frame viewB3 t a (setx a t es xt).
  Proof. intros t' N. unfold viewB3, setx. cbn. rewrite viewG_fold_other by exact N. now rewrite fnu_other. Qed.

  Lemma InvB3_intro g g' a tr t es xt : InvB3 c g a tr ->
    (flbad (hist (tr ++ Conc.tag t es)) = false -> cell_disc c (tr ++ Conc.tag t es) ->
       flbad (hist tr) = false -> cell_disc c tr -> JB g (gfold tr) (ab_x a) (hist tr) ->
       JB g' (gfold (tr ++ Conc.tag t es)) (fnu (ab_x a) t xt) (hist (tr ++ Conc.tag t es))) ->
    InvB3 c g' (setx a t es xt) (tr ++ Conc.tag t es).
  Proof.
    intros (E & H) Hn. split; [cbn; rewrite E; now rewrite gfold_app|].
    intros Hf Hd. cbn [setx ab_x]. pose proof (flbad_prefix _ _ Hf) as F. pose proof (cell_disc_prefix _ _ _ Hd) as D. auto.
  Qed.

  Lemma rdb_act {X R} t (f : A X) (k : X -> @dprog G ev R) l Q (xt : G -> XB) :
    (forall g a tr, InvB3 c g a tr -> viewB3 a t = l -> I1G g tr -> I1G (fst (fst (f g))) (tr ++ Conc.tag t (snd (f g))) ->
       InvB3 c (fst (fst (f g))) (setx a t (snd (f g)) (xt g)) (tr ++ Conc.tag t (snd (f g))) /\
       rdb t (k (snd (fst (f g)))) (viewB3 (setx a t (snd (f g)) (xt g)) t) Q) ->
    rdb t (DAct f k) l Q.
  Proof.
    intros H. cbn [rdsafe]. intros g a tr Hi Hv Hb Ha. destruct (H g a tr Hi Hv Hb Ha) as (H1 & H2).
    exists (setx a t (snd (f g)) (xt g)). split; [exact H1|]. split; [apply frame_setx|exact H2].
  Qed.
  Lemma rdb_emit {R} t es (k : @dprog G ev R) l Q (xt : XB) :
    (forall g a tr, InvB3 c g a tr -> viewB3 a t = l -> I1G g tr -> I1G g (tr ++ Conc.tag t es) ->
       InvB3 c g (setx a t es xt) (tr ++ Conc.tag t es) /\ rdb t k (viewB3 (setx a t es xt) t) Q) ->
    rdb t (DEmit es k) l Q.
  Proof.
    intros H. cbn [rdsafe]. intros g a tr Hi Hv Hb Ha. destruct (H g a tr Hi Hv Hb Ha) as (H1 & H2).
    exists (setx a t es xt). split; [exact H1|]. split; [apply frame_setx|exact H2].
  Qed.
  Lemma rdb_loc {X R} t (f : G -> G * X) (k : X -> @dprog G ev R) l Q (xt : G -> XB) :
    (forall g a tr, InvB3 c g a tr -> viewB3 a t = l -> I1G g tr -> I1G (fst (f g)) tr ->
       InvB3 c (fst (f g)) (mkAB (ab_g a) (fnu (ab_x a) t (xt g))) tr /\
       rdb t (k (snd (f g))) (viewG (ab_g a) t, xt g) Q) ->
    rdb t (DLoc f k) l Q.
  Proof.
    intros H. cbn [rdsafe]. intros g a tr Hi Hv Hb Ha. destruct (H g a tr Hi Hv Hb Ha) as (H1 & H2).
    exists (mkAB (ab_g a) (fnu (ab_x a) t (xt g))). split; [exact H1|]. split.
    - intros t' N. unfold viewB3. cbn. now rewrite fnu_other.
    - unfold viewB3. cbn. rewrite fnu_same. exact H2.
  Qed.

  Lemma fnu_id {B} (f : nat -> B) t u : fnu f t (f t) u = f u.
  Proof. unfold fnu. destruct (Nat.eqb_spec u t); congruence. Qed.

  Lemma JB_same_x g st x x' h : (forall u, x' u = x u) -> JB g st x h -> JB g st x' h.
  Proof.
    intros He [J1 J2 J3].
    assert (Hpr : forall u b, priv st x' u b <-> priv st x u b) by (intros u b; unfold priv; now rewrite He).
    assert (Hli : forall w b, inlim x' w b <-> inlim x w b) by (intros w b; unfold inlim; now rewrite He).
    constructor.
    - intros u b Hu. apply Hpr in Hu. destruct (J1 u b Hu) as (A1 & A2 & A3 & A4 & A5). repeat split; auto.
      + intros u' Hu'. apply A4. now apply Hpr.
      + intros w Hw. apply (A5 w). now apply Hli.
    - intros w o lb. rewrite He. intros Hw. destruct (J2 w o lb Hw) as (A1 & A2 & A3). repeat split; auto.
    - intros w b Hw. apply Hli in Hw. destruct (J3 w b Hw) as (A1 & A2 & A3 & A4). repeat split; auto.
      intros w' Hw'. apply A3. now apply Hli.
  Qed.

  (** nodes that leave the guard blocks alone: the ghost state stays, the record and the private block of the view stay *)
  Definition RB (l l' : VG * XB) : Prop := w_tl (fst l') = w_tl (fst l) /\ w_pv (fst l') = w_pv (fst l) /\ snd l' = snd l.
  Lemma RB_refl l : RB l l. Proof. unfold RB. auto. Qed.
  Lemma RB_trans l1 l2 l3 : RB l1 l2 -> RB l2 l3 -> RB l1 l3.
  Proof. unfold RB. intros (A1&A2&A3) (B1&B2&B3). repeat split; congruence. Qed.

  Lemma InvB3_quiet g g' a tr t es : InvB3 c g a tr -> piB g g' -> Forall (fun e => quietB e = true) es ->
    InvB3 c g' (setx a t es (ab_x a t)) (tr ++ Conc.tag t es).
  Proof.
    intros Hi (P1 & P2) Hq. apply (InvB3_intro g); [exact Hi|]. intros _ _ _ _ J.
    rewrite gfold_app, hist_app. destruct (quietB_fold t es Hq (gfold tr) (hist tr)) as (A1 & A2 & A3 & A4).
    apply JB_same_x with (x := ab_x a); [intros u; apply fnu_id|].
    eapply JB_ext; [exact J| | | | | |]; auto; try lia. intros u. apply A1.
  Qed.

  Lemma RB_fold a t es : Forall (fun e => quietB e = true) es -> RB (viewB3 a t) (viewB3 (setx a t es (ab_x a t)) t).
  Proof.
    intros Hq. destruct (quietB_fold t es Hq (ab_g a) h0) as (A1 & _). destruct (A1 t) as (X1 & X2).
    unfold RB, viewB3, setx. cbn. rewrite fnu_same. auto.
  Qed.

  Lemma rdb_act_q {X R} t (f : A X) (k : X -> @dprog G ev R) l Q :
    (forall g, piB g (fst (fst (f g))) /\ Forall (fun e => quietB e = true) (snd (f g))) ->
    (forall x l', RB l l' -> rdb t (k x) l' Q) -> rdb t (DAct f k) l Q.
  Proof.
    intros Hf Hk. apply (rdb_act t f k l Q (fun _ => snd l)). intros g a tr Hi Hv _ _. destruct (Hf g) as (P & Hq).
    assert (Ex : snd l = ab_x a t) by (rewrite <- Hv; reflexivity). rewrite Ex. split; [now apply (InvB3_quiet g)|].
    apply Hk. rewrite <- Hv. now apply RB_fold.
  Qed.
  Lemma rdb_emit_q {R} t es (k : @dprog G ev R) l Q :
    Forall (fun e => quietB e = true) es -> (forall l', RB l l' -> rdb t k l' Q) -> rdb t (DEmit es k) l Q.
  Proof.
    intros Hq Hk. apply (rdb_emit t es k l Q (snd l)). intros g a tr Hi Hv _ _.
    assert (Ex : snd l = ab_x a t) by (rewrite <- Hv; reflexivity). rewrite Ex. split; [apply (InvB3_quiet g); auto using piB_refl|].
    apply Hk. rewrite <- Hv. now apply RB_fold.
  Qed.
  Lemma rdb_loc_q {X R} t (f : G -> G * X) (k : X -> @dprog G ev R) l Q :
    (forall g, piB g (fst (f g))) -> (forall x, rdb t (k x) l Q) -> rdb t (DLoc f k) l Q.
  Proof.
    intros Hf Hk. apply (rdb_loc t f k l Q (fun _ => snd l)). intros g a tr Hi Hv _ _.
    assert (Ex : snd l = ab_x a t) by (rewrite <- Hv; reflexivity). split.
    - destruct Hi as (E & H). split; [exact E|]. intros F D. cbn [ab_x]. rewrite Ex.
      apply JB_same_x with (x := ab_x a); [intros u; apply fnu_id|]. destruct (Hf g) as (P1 & P2).
      eapply JB_ext; [exact (H F D)| | | | | |]; auto; lia.
    - replace (viewG (ab_g a) t, snd l) with l; [apply Hk|]. rewrite <- Hv. reflexivity.
  Qed.

  Lemma rdb_xbind {X Y} t (p : P X) (q : X -> P Y) l Q :
    rdb t p l (fun o l' => match o with Some x => rdb t (q x) l' Q | None => Q None l' end) -> rdb t (xbind p q) l Q.
  Proof. intros H. unfold xbind. apply rdsafe_bind. eapply rdsafe_weaken; [|exact H]. intros [x|] l' K0; exact K0. Qed.

  Definition NeuB {R} (p : @dprog G ev R) : Prop := forall t l, rdb t p l (fun _ l' => RB l l').

  Lemma NeuB_ret {X} (x : X) : NeuB (ret x). Proof. intros t l. apply RB_refl. Qed.
  Lemma NeuB_dret {X} (x : X) : NeuB (@DRet G ev X x). Proof. intros t l. apply RB_refl. Qed.
  Lemma NeuB_dbind {X Y} (p : @dprog G ev X) (q : X -> @dprog G ev Y) : NeuB p -> (forall x, NeuB (q x)) -> NeuB (dbind p q).
  Proof.
    intros Hp Hq t l. apply rdsafe_bind. eapply rdsafe_weaken; [|apply Hp]. intros x l1 R1. cbn beta in R1.
    eapply rdsafe_weaken; [|apply Hq]. intros y l2 R2. cbn beta in R2. eapply RB_trans; eauto.
  Qed.
  Lemma NeuB_xbind {X Y} (p : P X) (q : X -> P Y) : NeuB p -> (forall x, NeuB (q x)) -> NeuB (xbind p q).
  Proof. intros Hp Hq. unfold xbind. apply NeuB_dbind; auto. intros [x|]; [apply Hq|apply NeuB_dret]. Qed.
  Lemma NeuB_act {X} (f : A X) : (forall g, piB g (fst (fst (f g))) /\ Forall (fun e => quietB e = true) (snd (f g))) -> NeuB (act f).
  Proof. intros Hf t l. unfold act. apply rdb_act_q; [exact Hf|]. intros x l' R1. exact R1. Qed.
  Lemma NeuB_emit es : Forall (fun e => quietB e = true) es -> NeuB (emit es).
  Proof. intros Hq t l. unfold emit. apply rdb_emit_q; [exact Hq|]. intros l' R1. exact R1. Qed.
  Lemma NeuB_loc {X} (f : G -> G * X) : (forall g, piB g (fst (f g))) -> NeuB (loc f).
  Proof. intros Hf t l. unfold loc. apply rdb_loc_q; [exact Hf|]. intros x. apply RB_refl. Qed.
  Lemma NeuB_fuel_out {X} : NeuB (@fuel_out X).
  Proof. intros t l. unfold fuel_out. apply rdb_emit_q; [repeat constructor|]. intros l' R1. exact R1. Qed.

  Lemma rdb_neu_seq {X Y} t (p : P X) (q : X -> P Y) l Q :
    NeuB p -> (forall x l', RB l l' -> rdb t (q x) l' Q) -> (forall l', RB l l' -> Q None l') -> rdb t (xbind p q) l Q.
  Proof.
    intros Hp Hq Hn. apply rdb_xbind. eapply rdsafe_weaken; [|apply Hp]. intros [x|] l' R1; [now apply Hq|now apply Hn].
  Qed.
End B.
