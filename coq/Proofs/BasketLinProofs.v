(** * BasketQueue model: linearizability w.r.t. the sequential FIFO queue, for every schedule.

    Linearization points:
      enqueue          the successful CAS of [tl->next] (appended, or - basket - inserted in hindsight before
                       the LPs of the nodes it overtakes, see [LV.Proofs.BasketLinEnq]);
      dequeue (value)  the successful CAS that marks the pointer leaving the boundary node: all nodes in front
                       of the marked one are deleted, so it takes the FIRST undeleted item;
      dequeue (empty)  the last load of [h->next] that returned null: [h] was head, hence deleted, and it is
                       the last node, so no undeleted node exists at that instant.  Whether the call answers
                       "empty" is only known after the re-validation of head, so the LP is inserted in
                       hindsight ([BasketLinInv.Lin_ins_emp]) at the end of the stretch of the annotated trace
                       in which the same number of items had been enqueued. *)
From Coq Require Import ZArith List String Bool Lia PeanoNat.
From LV Require Import Base.Conc Base.Events Base.Lin Spec.Specs Proofs.LinProofs Model.Basket
  Proofs.MSQueueBase Proofs.BasketBase Proofs.BasketInv Proofs.BasketProofs Proofs.BasketLinBase
  Proofs.BasketLinInv Proofs.BasketLinRules Proofs.BasketLinEnq.
Import ListNotations.
Local Open Scope string_scope.
Local Open Scope list_scope.

Lemma raw_keep g a tr t k o b : Inv2 g a tr -> Inv2 g a (tr ++ Conc.tag t [EvAcc k o b]).
Proof.
  intros (HI & HL). split; [apply Inv_acc; exact HI|].
  eapply Lin_same; eauto. rewrite hist_app. cbn. apply app_nil_r.
Qed.

Lemma frame2_refl t a : Conc.frame view2 t a a.
Proof. intros ? ?. reflexivity. Qed.

(** ** dequeue takes effect *)
Lemma Inv2_mark g a tr t inG idx hl iter j x k o bb :
  Inv2 g a tr ->
  views (base a) t = mkTV (PPend Deq) None mnull inG idx hl -> In (iter, j) idx ->
  nxt g iter = (Some x, false) ->
  exists a', Inv2 (set_next g iter (Some x, true)) a' (tr ++ Conc.tag t [EvAcc k o bb]) /\
             Conc.frame view2 t a a' /\
             view2 a' t = (mkTV (PLin (RVal (Some (val g x)))) None mnull [] ((x, S j) :: idx) hl, x0).
Proof.
  intros (HI & HL) Hv Hin Hnx. set (b0 := base a) in *.
  pose proof (Inv_mark _ _ _ _ _ _ _ _ _ _ HI Hv Hin Hnx) as HI'.
  destruct (I_views _ _ _ HI t) as (_ & _ & P3 & _). rewrite Hv in P3. cbn in P3.
  destruct (P3 iter j Hin) as (Ej & Hj).
  assert (Ejm : j = List.length (dpre b0)).
  { destruct (Nat.eq_dec j (List.length (dpre b0))) as [|Hne]; [assumption|exfalso].
    unfold GG in Ej. rewrite nth_error_app1 in Ej by lia. apply nth_error_In in Ej.
    apply (I_mpre _ _ _ HI) in Ej. rewrite Hnx in Ej. discriminate. }
  assert (Eb : iter = bnd b0).
  { unfold GG in Ej. rewrite Ejm, nth_error_app2, Nat.sub_diag in Ej by lia. cbn in Ej. congruence. }
  subst iter.
  assert (Er : exists r', live b0 = x :: r').
  { pose proof (linked_mid _ _ _ _ (I_linked _ _ _ HI)) as Hm. unfold nptr in Hm. rewrite Hnx in Hm. cbn in Hm.
    destruct (live b0) as [|y r']; [discriminate|]. injection Hm as <-. eauto. }
  destruct Er as (r' & Er).
  set (v' := mkTV (PLin (RVal (Some (val g x)))) None mnull [] ((x, S j) :: idx) hl).
  set (b' := auxset b0 (dpre b0 ++ [bnd b0]) x (List.tl (live b0)) (hidx b0) t v') in *.
  assert (HG : GG b' = GG b0).
  { unfold b', auxset, GG. cbn. rewrite Er. cbn. now rewrite <- app_assoc. }
  pose proof (lin_counts _ _ _ HL) as (Cn & Cd). fold b0 in Cn, Cd.
  pose proof (EE_split b0) as (S1 & S2). pose proof (EE_length b0) as S3.
  exists (mkA2 b' (ltr a ++ [BDeq t]) (updx (xvs a) t x0)). split; [split|split].
  - apply Inv_acc. exact HI'.
  - eapply (Lin_append g a tr _ b' _ _ t (BDeq t)); [exact HL| | | | | | |].
    + fold b0. rewrite Hv. cbn [tv_st bnext].
      assert (En : nth_error (map (val g) (EE b0)) (List.length (dpre b0)) = Some (val g x)).
      { rewrite S1, map_app, nth_error_app2 by (rewrite map_length; lia).
        rewrite map_length, S2, Nat.sub_diag, Er. reflexivity. }
      rewrite En. reflexivity.
    + reflexivity.
    + unfold EE. now rewrite HG.
    + unfold b'. cbn. rewrite app_length. cbn. lia.
    + intros u. unfold b'. cbn. destruct (Nat.eqb_spec u t) as [->|Hne]; [now rewrite updv_same|now rewrite updv_other].
    + rewrite hist_app. cbn. now rewrite !app_nil_r.
    + intros u. destruct (Nat.eq_dec u t) as [->|Hne]; [rewrite updx_same; apply xok_x0|].
      rewrite updx_other by exact Hne. eapply xok_app; [exact HG|cbn; congruence| |apply (L_x _ _ _ HL)].
      right. rewrite Er in S3. cbn in S3. lia.
  - intros t' Hne. unfold view2, b'. cbn. now rewrite updv_other, updx_other.
  - unfold view2, b'. cbn. now rewrite updv_same, updx_same.
Qed.

(** ** the "empty" answer is decided *)
Definition vemp : tview := mkTV (PLin (RVal None)) None mnull [] [] 0.

Lemma Inv2_emp g a tr t l m k o bb :
  Inv2 g a tr -> views (base a) t = l -> shD l -> x_ec (xvs a t) = Some m ->
  exists a', Inv2 g a' (tr ++ Conc.tag t [EvAcc k o bb]) /\ Conc.frame view2 t a a' /\ view2 a' t = (vemp, x0).
Proof.
  intros (HI & HL) Hv Hs Hec. set (b0 := base a) in *.
  exists (mkA2 (auxv b0 t vemp) (ins m (BEmp t) (ltr a)) (updx (xvs a) t x0)). split; [split|split].
  - eapply Inv_pev with (e := PEmp t); eauto.
    + rewrite Hv. apply Hs.
    + intros ff Hf. rewrite Hv in Hf. destruct Hs as (S1 & _). rewrite S1 in Hf. cbn [pstep]. rewrite Hf. reflexivity.
  - apply (Lin_ins_emp g a tr g (auxv b0 t vemp) _ t m HI HL).
    + fold b0. rewrite Hv. apply Hs.
    + exact Hec.
    + reflexivity.
    + reflexivity.
    + reflexivity.
    + intros u. cbn. destruct (Nat.eqb_spec u t) as [->|Hne]; [now rewrite updv_same|now rewrite updv_other].
    + rewrite hist_app. cbn. now rewrite app_nil_r.
  - intros t' Hne. unfold view2. cbn. now rewrite updv_other, updx_other.
  - unfold view2. cbn. now rewrite updv_same, updx_same.
Qed.

(** ** do_dequeue *)
Lemma safe2_deq_loop cf fuel : forall t s0 s1 s2 sg e f l x,
  shD l -> safe2 t (deq_loop cf fuel t s0 s1 s2 sg e f) (l, x) (lf Qdeq).
Proof.
  induction fuel as [|fu IH]; intros t s0 s1 s2 sg e f l x Hs; cbn [deq_loop]; [exact I|].
  apply Conc.safe_bind. eapply Conc.safe_weaken; [|apply safe2_protect_head].
  intros [h|] [l1 x1] Hl; [|exact I]. unfold lf in Hl; cbn [fst] in Hl. destruct Hl as (E1 & Hh1 & i & Hi1 & Hil1).
  apply Conc.safe_bind. eapply Conc.safe_weaken; [|apply safe2_protect_tail].
  intros [tl|] [l2 x2] Hl; [|exact I]. unfold lf in Hl; cbn [fst] in Hl. destruct Hl as (E2 & Htl2).
  pose proof E2 as (_ & _ & _ & Y4 & Y5 & Y6).
  apply Conc.safe_bind.
  eapply Conc.safe_weaken; [|apply (safe2_protect_m_idx fu t s2 h i l2 x2); [apply Y4; exact Hh1|apply Y5; exact Hi1]].
  intros [pn|] [l3 x3] (Hl & Hec); [|exact I]. cbn [fst snd] in Hl, Hec. destruct Hl as (E3 & Q1 & Q2).
  pose proof E3 as (_ & _ & _ & Z4 & Z5 & Z6).
  assert (Hs3 : shD l3) by (eapply shD_ext; [|exact E3]; eapply shD_ext; [|exact E2]; eapply shD_ext; eauto).
  assert (Hi3 : In (h, i) (tv_idx l3)) by (apply Z5, Y5; exact Hi1).
  assert (Hil3 : (i <= tv_hlow l3)%nat) by lia.
  assert (Htl3 : In tl (tv_inG l3)) by (apply Z4; exact Htl2).
  (* if ( h == m_pHead.load()) *)
  cbn [Conc.safe]. intros g a tr HI2 Hv2. cbn [a_ld_head fst snd vn].
  destruct (Nat.eqb_spec (head g) h) as [Eh|Hne]; cbn [negb].
  2:{ exists a. split; [apply raw_keep; exact HI2|]. split; [apply frame2_refl|]. rewrite Hv2. apply IH. exact Hs3. }
  destruct (Nat.eqb_spec h tl) as [Et|Hnt].
  - (* h == t *)
    destruct (fst pn) as [z|] eqn:Ep.
    + exists a. split; [apply raw_keep; exact HI2|]. split; [apply frame2_refl|]. rewrite Hv2.
      apply Conc.safe_bind. eapply Conc.safe_weaken; [|apply safe2_fixtail_loop; apply Q1; reflexivity].
      intros [pl|] [l4 x4] Hl; [|exact I]. unfold lf in Hl; cbn [fst] in Hl. destruct Hl as (E4 & Hpl).
      apply safe2_hp_clear.
      clear g a tr HI2 Hv2 Eh.
      apply safe2_act_keep; [apply plain_cas_tail|]. intros g a tr HI Hv. unfold a_cas_tail.
      destruct (Nat.eqb (tail g) tl); cbn [fst snd]; (split; [|apply IH; eapply shD_ext; eauto]).
      * apply Inv_acc. apply Inv_tail; [exact HI|]. eapply inG_GG; eauto.
      * apply Inv_acc. exact HI.
    + (* the queue is reported empty: the null load was the linearization point *)
      destruct (x_ec x3) as [m|] eqn:Em; [|exfalso; exact (Hec pn eq_refl Ep eq_refl)].
      apply view2_inv in Hv2. destruct Hv2 as (Hv & Hx).
      destruct (Inv2_emp g a tr t l3 m KLd obj_head true HI2 Hv Hs3) as (a' & A & B & C).
      { rewrite Hx. exact Em. }
      exists a'. split; [exact A|]. split; [exact B|]. rewrite C. cbn. split; reflexivity.
  - (* h != t: hop over the deleted nodes *)
    exists a. split; [apply raw_keep; exact HI2|]. split; [apply frame2_refl|]. rewrite Hv2.
    clear g a tr HI2 Hv2 Eh.
    apply Conc.safe_bind.
    eapply Conc.safe_weaken; [|apply (safe2_hop_loop fu t s2 sg h i tl h i pn 0 l3 x3); auto].
    intros [[[iter pn'] hops]|] [l4 x4] Hl; [|exact I]. unfold lf in Hl; cbn [fst] in Hl.
    destruct Hl as (E4 & R1 & (j & Hj4 & Hij) & Rexit).
    pose proof E4 as (_ & _ & _ & W4 & W5 & W6).
    assert (Hs4 : shD l4) by (eapply shD_ext; eauto).
    assert (Hi4 : In (h, i) (tv_idx l4)) by (apply W5; exact Hi3).
    apply safe2_act_v; [apply plain_ld_head|]. intros g a tr HI Hv. cbn [a_ld_head fst snd vn].
    exists l4. split; [eapply keep_view; eauto|]. split; [reflexivity|].
    destruct (Nat.eqb_spec (head g) h) as [Eh|Hne]; cbn [negb].
    2:{ apply safe2_hp_clear. apply IH. exact Hs4. }
    (* head is still h: its index is i, so the bound on head's index cannot exceed i *)
    destruct (idx_fact _ _ _ _ _ _ _ HI Hv Hi4) as (Ei & Li).
    destruct (idx_fact _ _ _ _ _ _ _ HI Hv Hj4) as (Ej & Lj).
    pose proof (head_idx _ _ _ _ _ HI Ei Eh) as Ehi.
    pose proof (hlow_fact _ _ _ _ _ HI Hv) as Hlow.
    assert (Hji : iter <> h -> (i < j)%nat).
    { intros Hd. destruct (Nat.eq_dec i j) as [->|]; [|lia]. congruence. }
    destruct (Nat.eqb_spec iter tl) as [Eit|Hnit].
    + (* all nodes up to tail are deleted: advance head *)
      apply Conc.safe_bind.
      eapply Conc.safe_weaken; [|apply (safe2_free_chain cf fu t e f h i iter j l4 x4); auto; apply Hji; congruence].
      intros [[e' f']|] l5 ->; [|exact I]. apply safe2_hp_clear. apply IH. exact Hs4.
    + destruct (fst pn') as [z|] eqn:Ep'; [|exact I].
      assert (Hunm : snd pn' = false).
      { destruct Rexit as [R|[R|[R|R]]]; [exact R|discriminate|contradiction|lia]. }
      clear g a tr HI Hv Eh Ei Li Ej Lj Ehi Hlow.
      (* the marking CAS: the linearization point *)
      cbn [Conc.safe]. intros g a tr HI2 Hv2. unfold a_cas_mark.
      destruct (mp_eqb (nxt g iter) pn') eqn:Ecas; cbn [fst snd vb vz].
      * apply mp_eqb_eq in Ecas.
        assert (Enx : nxt g iter = (Some z, false)) by (rewrite Ecas; destruct pn'; cbn in *; congruence).
        set (l5 := mkTV (PLin (RVal (Some (val g z)))) None mnull [] ((z, S j) :: tv_idx l4) (tv_hlow l4)).
        apply view2_inv in Hv2. destruct Hv2 as (Hv & Hx). rewrite (shD_view _ Hs4) in Hv.
        destruct (Inv2_mark g a tr t (tv_inG l4) (tv_idx l4) (tv_hlow l4) iter j z KCas (obj_next iter) true HI2 Hv Hj4 Enx)
          as (a' & A & B & C).
        exists a'. split; [exact A|]. split; [exact B|]. rewrite C. fold l5.
        destruct (Nat.leb 3 hops).
        -- apply Conc.safe_bind.
           eapply Conc.safe_weaken; [|apply (safe2_free_chain cf fu t e f h i z (S j) l5 x0); cbn; auto; lia].
           intros [[e' f']|] l6 ->; [|exact I]. apply safe2_hp_clear. split; reflexivity.
        -- apply safe2_hp_clear. split; reflexivity.
      * exists a. split; [apply raw_keep; exact HI2|]. split; [apply frame2_refl|]. rewrite Hv2.
        apply safe2_hp_clear. apply IH. exact Hs4.
Qed.

Lemma safe2_dequeue cf fuel t s0 s1 s2 sg e f x :
  safe2 t (dequeue cf fuel t s0 s1 s2 sg e f) (VDq, x) (lf Qdequeue).
Proof.
  unfold dequeue. apply Conc.safe_bind.
  eapply Conc.safe_weaken; [|apply safe2_deq_loop; repeat split].
  intros [|e' f'|z v e' f'] l Hl; cbn in Hl; [exact I| |].
  - unfold clear3. apply safe2_hp_clear. apply safe2_hp_clear. apply safe2_hp_clear. exact Hl.
  - apply safe2_with_ic. unfold clear3. apply safe2_hp_clear. apply safe2_hp_clear. apply safe2_hp_clear. exact Hl.
Qed.

(** ** client operations: invoke and response *)
Lemma Inv2_event g a tr t (ep : pev) (eb : bev) es s' :
  Inv2 g a tr ->
  tv_priv (views (base a) t) = None ->
  (forall f : pmap, f t = tv_st (views (base a) t) ->
     pstep (map (val g) (live (base a)), f) ep = Some (map (val g) (live (base a)), pupd f t s')) ->
  hist (Conc.tag t es) = perase [ep] -> perase [ep] = berase [eb] -> btid eb = t -> is_deq eb = false ->
  (forall E d, bnext E d (tv_st (views (base a) t)) eb = Some (E, d, s')) ->
  Inv2 g (mkA2 (auxv (base a) t (mkTV s' None mnull [] [] 0)) (ltr a ++ [eb]) (updx (xvs a) t x0)) (tr ++ Conc.tag t es).
Proof.
  intros (HI & HL) Hp Hstep He Hee Ht Hd Hn. split.
  - eapply Inv_pev; eauto.
  - eapply (Lin_append g a tr g _ _ _ t eb); [exact HL|apply Hn|exact Ht|reflexivity|reflexivity| | |].
    + intros u. cbn. destruct (Nat.eqb_spec u t) as [->|Hne]; [now rewrite updv_same|now rewrite updv_other].
    + rewrite hist_app, He, Hee. reflexivity.
    + intros u. destruct (Nat.eq_dec u t) as [->|Hne]; [rewrite updx_same; apply xok_x0|].
      rewrite updx_other by exact Hne. eapply xok_app; [reflexivity|congruence|now left|apply (L_x _ _ _ HL)].
Qed.

Definition Qop2 : option slots -> tview * xview -> Prop :=
  fun r l => match r with Some _ => l = (v_idle, x0) | None => True end.

Lemma safe2_emit_event {R} t es (k : prog R) l x (ep : pev) (eb : bev) s' Q :
  tv_priv l = None ->
  (forall q (f : pmap), f t = tv_st l -> pstep (q, f) ep = Some (q, pupd f t s')) ->
  hist (Conc.tag t es) = perase [ep] -> perase [ep] = berase [eb] -> btid eb = t -> is_deq eb = false ->
  (forall E d, bnext E d (tv_st l) eb = Some (E, d, s')) ->
  safe2 t k (mkTV s' None mnull [] [] 0, x0) Q ->
  safe2 t (Emit es k) (l, x) Q.
Proof.
  intros Hp Hstep He Hee Ht Hd Hn Hk. cbn [Conc.safe]. intros g a tr HI2 Hv. apply view2_inv in Hv. destruct Hv as (Hv & Hx).
  exists (mkA2 (auxv (base a) t (mkTV s' None mnull [] [] 0)) (ltr a ++ [eb]) (updx (xvs a) t x0)).
  split; [|split].
  - eapply Inv2_event; eauto; rewrite Hv; auto.
  - intros t' Hne. unfold view2. cbn. now rewrite updv_other, updx_other.
  - unfold view2. cbn. rewrite updv_same, updx_same. exact Hk.
Qed.

Lemma safe2_ret {R} t name args (r : res) (y : R) l x (Q : R -> tview * xview -> Prop) :
  tv_st l = PLin r -> tv_priv l = None ->
  hist (Conc.tag t [EvCli name args]) = [@HRes Fifo t r] ->
  Q y (v_idle, x0) ->
  safe2 t (Emit [EvCli name args] (Ret y)) (l, x) Q.
Proof.
  intros Hs Hp He HQ.
  eapply safe2_emit_event with (ep := PRes t r) (eb := BRes t r) (s' := PIdle); eauto.
  - intros q ff Hf. rewrite Hs in Hf. cbn [pstep]. rewrite Hf.
    assert (res_beq r r = true) as -> by (now apply res_beq_ok). reflexivity.
  - intros E d. rewrite Hs. cbn [bnext].
    assert (res_beq r r = true) as -> by (now apply res_beq_ok). reflexivity.
Qed.

Lemma safe2_outoffuel {R} t (y : R) l (Q : R -> tview * xview -> Prop) :
  (forall l', Q y l') -> safe2 t (Emit [EvCli "outoffuel" []] (Ret y)) l Q.
Proof.
  intros HQ. cbn [Conc.safe]. intros g a tr (HI & HL) Hv. exists a.
  split; [split|].
  - apply Inv_cli_other; [reflexivity|exact HI].
  - eapply Lin_same; eauto. rewrite hist_snoc. cbn. apply app_nil_r.
  - split; [apply frame2_refl|]. apply HQ.
Qed.

Lemma safe2_run_op cf fuel t sl o : safe2 t (run_op cf fuel t sl o) (v_idle, x0) Qop2.
Proof.
  destruct o as [v|]; cbn [run_op].
  - eapply safe2_emit_event with (ep := PInv t (Enq v)) (eb := BInv t (Enq v)) (s' := PPend (Enq v)); try reflexivity.
    { intros q ff Hf. cbn [pstep]. cbn in Hf. rewrite Hf. reflexivity. }
    apply Conc.safe_bind. eapply Conc.safe_weaken; [|apply safe2_enqueue].
    intros [cd|] [l x] Hl; cbn in Hl.
    + destruct cd as [c d]. destruct Hl as (L1 & L2). eapply safe2_ret with (r := RBool true); eauto; reflexivity.
    + apply safe2_outoffuel. intros; exact I.
  - eapply safe2_emit_event with (ep := PInv t Deq) (eb := BInv t Deq) (s' := PPend Deq); try reflexivity.
    { intros q ff Hf. cbn [pstep]. cbn in Hf. rewrite Hf. reflexivity. }
    apply Conc.safe_bind. eapply Conc.safe_weaken; [|apply safe2_dequeue].
    intros [[[[v|] e'] f']|] [l x] Hl; cbn in Hl.
    + destruct Hl as (L1 & L2). eapply safe2_ret with (r := RVal (Some v)); eauto; reflexivity.
    + destruct Hl as (L1 & L2). eapply safe2_ret with (r := RVal None); eauto; reflexivity.
    + apply safe2_outoffuel. intros; exact I.
Qed.

Lemma safe2_run_ops cf fuel t os : forall sl,
  safe2 t (run_ops cf fuel t sl os) (v_idle, x0) (@Conc.QTrue (tview * xview)).
Proof.
  induction os as [|o r IH]; intros sl; cbn [run_ops]; [exact I|].
  apply Conc.safe_bind. eapply Conc.safe_weaken; [|apply safe2_run_op].
  intros [sl'|] l Hl; cbn in Hl; [subst l; apply IH|exact I].
Qed.

Lemma safe2_thread cf fuel t os :
  safe2 t (thread_prog cf fuel t os) (v_idle, x0) (@Conc.QTrue (tview * xview)).
Proof.
  unfold thread_prog. apply safe2_act_keep; [apply plain_begin|]. intros g a tr HI Hv. cbn [a_begin fst snd].
  split; [apply Inv_acc; exact HI|apply safe2_run_ops].
Qed.

Definition aux20 : Aux2 := mkA2 aux0 [] (fun _ => x0).

Lemma Inv2_init : Inv2 init aux20 [].
Proof.
  split; [apply Inv_init|]. constructor; cbn.
  - exists (fun _ => PIdle). split; reflexivity.
  - reflexivity.
  - intros t. apply xok_x0.
Qed.

Lemma init_ok2 cf fuel ths : Conc.cfg_ok view2 Inv2 (init_cfg cf fuel ths).
Proof.
  exists aux20. split; [apply Inv2_init|].
  intros t p Hp. cbn [init_cfg Conc.threads] in Hp. rewrite nth_error_mapi_from in Hp.
  destruct (nth_error ths t) as [os|]; cbn in Hp; [|discriminate]. injection Hp as <-.
  apply safe2_thread.
Qed.

(** ** the theorems *)
Theorem basket_reach_inv2 cf fuel ths c :
  Conc.reach (init_cfg cf fuel ths) c -> exists a, Inv2 (Conc.shared c) a (Conc.trace c).
Proof. intros Hr. exact (Conc.reach_Inv (init_ok2 cf fuel ths) Hr). Qed.

(** For every reachable configuration (every schedule, any number of threads, any client programs, any loop
    fuel) there is an LP-annotated trace, valid for the sequential FIFO queue, whose history is the one read
    off the concrete trace, and which ends in the abstract queue "values of the undeleted nodes in chain
    order". *)
Theorem basket_lp_trace cf fuel ths c :
  Conc.reach (init_cfg cf fuel ths) c ->
  let g := Conc.shared c in
  exists (dp : list nat) (b : nat) (lv : list nat) (atr : list (aev Fifo)) (f : stmap),
    NoDup (dp ++ b :: lv) /\ linked (fun x => fst (nxt g x)) (dp ++ b :: lv) /\
    (forall x, In x dp -> snd (nxt g x) = true) /\ (forall x, In x (b :: lv) -> snd (nxt g x) = false) /\
    @lp_run Fifo (@lp_init Fifo) atr = Some (map (val g) lv, f) /\ erase atr = hist (Conc.trace c).
Proof.
  intros Hr g. destruct (basket_reach_inv2 _ _ _ _ Hr) as (a & HI & HL).
  destruct (L_run _ _ _ HL) as (f & R & _).
  destruct (brun_lp_trace _ _ R) as (atr & f' & A & B). cbn [bE bd] in A.
  exists (dpre (base a)), (bnd (base a)), (live (base a)), atr, f'.
  split; [apply (I_nodup _ _ _ HI)|]. split; [apply (I_linked _ _ _ HI)|].
  split; [apply (I_mpre _ _ _ HI)|]. split; [apply (I_mpost _ _ _ HI)|]. split.
  - rewrite A. do 2 f_equal. destruct (EE_split (base a)) as (S1 & S2).
    rewrite S1, map_app, skipn_app, skipn_all2 by (rewrite map_length; lia).
    rewrite map_length, S2, Nat.sub_diag. reflexivity.
  - rewrite B. apply (L_hist _ _ _ HL).
Qed.

Theorem basket_linearizable cf fuel ths c :
  Conc.reach (init_cfg cf fuel ths) c -> linearizable Fifo (hist (Conc.trace c)).
Proof.
  intros Hr. destruct (basket_lp_trace _ _ _ _ Hr) as (dp & b & lv & atr & f & _ & _ & _ & _ & A & <-).
  apply lp_valid_linearizable. eexists. exact A.
Qed.

(** ** the property's own sentences (consequences of linearizability, [LV.Proofs.LinProofs]) *)

(** "no item is invented" *)
Theorem basket_lin_no_invention cf fuel ths c :
  Conc.reach (init_cfg cf fuel ths) c ->
  forall i v, deq_returns (hist (Conc.trace c)) i (Some v) -> enqueued (hist (Conc.trace c)) v.
Proof. intros Hr. apply fifo_no_invention. eapply basket_linearizable; eauto. Qed.

(** "each enqueued item is dequeued at most once" (for client programs that enqueue distinct values) *)
Theorem basket_at_most_once cf fuel ths c :
  Conc.reach (init_cfg cf fuel ths) c ->
  distinct_enqueues (hist (Conc.trace c)) ->
  forall i1 i2 v, deq_returns (hist (Conc.trace c)) i1 (Some v) ->
                  deq_returns (hist (Conc.trace c)) i2 (Some v) -> i1 = i2.
Proof. intros Hr. apply fifo_at_most_once. eapply basket_linearizable; eauto. Qed.

(** "dequeue reports empty only if the queue was empty at some instant during the call" *)
Theorem basket_empty_only_if_empty cf fuel ths c :
  Conc.reach (init_cfg cf fuel ths) c ->
  exists lin, linearization Fifo (hist (Conc.trace c)) lin /\
    forall i, deq_returns (hist (Conc.trace c)) i None ->
      exists l1 a l2, lin = l1 ++ a :: l2 /\ l_inv a = i /\
        @final Fifo (sinit Fifo) (map (fun a : lop Fifo => (l_op a, l_res a)) l1) = [].
Proof.
  intros Hr. destruct (basket_linearizable _ _ _ _ Hr) as (lin & L). exists lin. split; [exact L|].
  intros i Hd. eapply fifo_empty_was_empty; eauto.
Qed.
