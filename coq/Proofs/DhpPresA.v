(** * DhpPresA: a running scan's bookkeeping ([scan_ok]) is stable under the steps of other threads. *)
From Coq Require Import ZArith NArith List String Bool Lia PeanoNat.
From LV Require Import Base.Conc Base.Events Model.DhpLang Model.Dhp Proofs.DhpBase Proofs.DhpHist
  Proofs.DhpLangProofs Proofs.DhpInvA Proofs.DhpStepsA Proofs.DhpScanA.
Import ListNotations.

Section Pres.
  Variable c : cfg.

  Lemma scan_ok_pres g g' h h' ss :
    scan_ok c g h ss -> hlen h <= hlen h' ->
    (forall s, (slotv h' s = slotv h s /\ lastw h' s = lastw h s) \/ (exists w, lastw h' s = Some w /\ hlen h <= w)) ->
    (pos_ok g (ss_pos ss) -> pos_ok g' (ss_pos ss)) ->
    (forall s k, live c h' s k -> k < ss_s0 ss -> live c h s k) ->
    (forall s k, live c h' s k -> k < ss_s0 ss -> ahead c g h (ss_pos ss) s -> ahead c g' h' (ss_pos ss) s) ->
    scan_ok c g' h' ss.
  Proof.
    intros (S1 & S0 & S2 & S3) Hlen Hsl Hpos Hlive Hah. unfold scan_ok.
    split; [lia|]. split; [auto|]. split.
    - intros s w Hs Hw Hlt Hv. destruct (Hsl s) as [(E1&E2)|(w' & E1 & E2)].
      + rewrite E1 in *. rewrite E2 in Hw. eauto.
      + rewrite E1 in Hw. inversion Hw; subst. lia.
    - intros s k Hl Hk. destruct (S3 s k (Hlive s k Hl Hk) Hk) as [X|X]; [now left|right; eauto].
  Qed.

  Lemma ahead_pres g g' h h' p s :
    (forall o r, after g o r -> after g' o r) ->
    (forall n, after g (tlist g) n -> r_next (grec g' n) = r_next (grec g n)) ->
    (forall r, srec h s r -> srec h' s r) ->
    (forall n o S b i, s = GE b i -> In b S -> gchain c g o S -> incl S (map fst (linked h n)) ->
                       gchain c g' o S /\ incl S (map fst (linked h' n))) ->
    pos_ok g p -> ahead c g h p s -> ahead c g' h' p s.
  Proof.
    intros Haf Hnx Hsr Hgc Hp Ha. destruct p as [|o|n j|n o j|n]; cbn in *; auto.
    - destruct Ha as (r & H1 & H2). exists r. auto.
    - rewrite (Hnx n Hp). destruct Ha as [H|[H|H]]; [left; exact H| |].
      + right; left. destruct H as (b & i & H1 & H2). exists b, i. auto.
      + right; right. destruct H as (r & H1 & H2). exists r. auto.
    - rewrite (Hnx n Hp). destruct Ha as [H|H].
      + left. destruct H as (b & i & S & H1 & H2 & H3 & H4).
        assert (Hin : In b S) by (destruct H4 as [(S' & -> & _)|(x & S' & -> & X)]; [now left|now right]).
        destruct (Hgc n o S b i H1 Hin H2 H3) as (G1 & G2). exists b, i, S. auto.
      + right. destruct H as (r & H1 & H2). exists r. auto.
    - rewrite (Hnx n Hp). destruct Ha as (r & H1 & H2). exists r. auto.
  Qed.

  Lemma pos_ok_pres g g' p : (forall o r, after g o r -> after g' o r) -> (tlist g' = tlist g \/ forall r, after g (tlist g) r -> after g' (tlist g') r) ->
    pos_ok g p -> pos_ok g' p.
  Proof.
    intros Haf Ht Hp. destruct Ht as [E|Ht].
    - destruct p as [|[n|]|n j|n o j|n]; cbn in *; auto; rewrite E; auto.
    - destruct p as [|[n|]|n j|n o j|n]; cbn in *; auto.
  Qed.

  (** ** growing the record / block tables *)
  Lemma grec_app g x r : r < List.length (recs g) -> grec (set_recs g (recs g ++ [x])) r = grec g r.
  Proof. intros H. unfold grec. cbn. now rewrite app_nth1. Qed.
  Lemma ggb_app g x b : b < List.length (gbs g) -> ggb (set_gbs g (gbs g ++ [x])) b = ggb g b.
  Proof. intros H. unfold ggb. cbn. now rewrite app_nth1. Qed.

  Lemma rchain_ext g g' o l : List.length (recs g) <= List.length (recs g') ->
    (forall r, In r l -> r_next (grec g' r) = r_next (grec g r)) -> rchain g o l -> rchain g' o l.
  Proof.
    intros HL. revert o; induction l as [|x l IH]; intros o He H; cbn in *; auto.
    destruct H as (H0 & H1 & H2). rewrite (He x (or_introl eq_refl)). repeat split; auto; try lia.
  Qed.

  Lemma gchain_ext g g' o l : List.length (gbs g) <= List.length (gbs g') ->
    (forall b, In b l -> gb_nextb (ggb g' b) = gb_nextb (ggb g b) /\ List.length (gb_slots (ggb g' b)) = List.length (gb_slots (ggb g b))) ->
    gchain c g o l -> gchain c g' o l.
  Proof.
    intros HL. revert o; induction l as [|x l IH]; intros o He H; cbn in *; auto.
    destruct H as (H0 & H1 & H2 & H3). destruct (He x (or_introl eq_refl)) as (E1 & E2). rewrite E1, E2.
    repeat split; auto; try lia.
  Qed.

  Lemma rchain_lt g o l : rchain g o l -> forall r, In r l -> r < List.length (recs g).
  Proof. revert o; induction l as [|x l IH]; intros o H r Hr; cbn in *; [contradiction|].
    destruct H as (_ & H1 & H2). destruct Hr as [->|Hr]; eauto. Qed.

  (** the usual shape of a step of another thread *)
  Lemma scan_ok_frame g g' h h' ss :
    hlen h <= hlen h' ->
    (forall s, (slotv h' s = slotv h s /\ lastw h' s = lastw h s) \/ (exists w, lastw h' s = Some w /\ hlen h <= w)) ->
    (forall o r, after g o r -> after g' o r) ->
    (tlist g' = tlist g \/ forall r, after g (tlist g) r -> after g' (tlist g') r) ->
    (forall n, after g (tlist g) n -> r_next (grec g' n) = r_next (grec g n)) ->
    (forall s k, live c h' s k -> k < ss_s0 ss ->
       live c h s k /\ (forall r, srec h s r -> srec h' s r) /\
       (forall n o S b i, s = GE b i -> In b S -> gchain c g o S -> incl S (map fst (linked h n)) ->
                          gchain c g' o S /\ incl S (map fst (linked h' n)))) ->
    scan_ok c g h ss -> scan_ok c g' h' ss.
  Proof.
    intros Hlen Hsl Haf Ht Hnx Hl S. eapply scan_ok_pres; eauto.
    - intros Hp. eapply pos_ok_pres; eauto.
    - intros s k Hlv Hk. destruct (Hl s k Hlv Hk) as (X & _). exact X.
    - intros s k Hlv Hk Ha. destruct (Hl s k Hlv Hk) as (_ & X1 & X2).
      destruct S as (_ & S0 & _). eapply ahead_pres; eauto.
  Qed.

  (** blocks on a chain that lies inside the linked list of a record are owned by that record *)
  Lemma chain_blocks_linked g a h n S b : JA c g a h -> incl S (map fst (linked h n)) -> In b S -> bown a b = BLinked n.
  Proof.
    intros J Hi Hb. apply Hi in Hb. apply in_map_iff in Hb. destruct Hb as ((b', kb) & E & Hin). cbn in E. subst b'.
    destruct (att h n) as [[t k]|] eqn:Ea.
    - destruct (ja_att _ _ _ _ J n t k Ea) as (_&_&_&_&_&_&_&_&X). destruct (X b kb Hin); auto.
    - rewrite (ja_unatt _ _ _ _ J n Ea) in Hin. contradiction.
  Qed.
End Pres.
