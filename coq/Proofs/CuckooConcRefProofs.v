(** * CuckooSet with the refinable mutex policy: the lock / ownership protocol holds for every schedule.

    Specifications of the whole model program ([Model/CuckooConc.v], [c_pol = Refinable]) against the policy-level
    invariant [CoreR] of [CuckooConcRefInv.v]; probe-set operations do not touch the policy words. *)
From Coq Require Import ZArith List Bool Lia PeanoNat.
From Coq Require Import String.
From LV Require Import Base.Conc Base.Events Model.CuckooConc Proofs.StripedConcSpec Proofs.CuckooConcInv Proofs.CuckooConcRefInv.
Import ListNotations.
Local Open Scope nat_scope.

Section Refinable.
  Variable cf : conf.
  Hypothesis Hpol : c_pol cf = Refinable.
  Hypothesis Hnl : 0 < c_nl cf.
  Notation L := (c_nl cf).
  Notation safe := (@Conc.safe G V ev RAux wview rview InvR).

  Definition optQ {A} (P : A -> wview -> Prop) : option A -> wview -> Prop :=
    fun r v => match r with Some x => P x v | None => True end.

  Lemma safe_bindo {A B} t (p : prog (option A)) (q : A -> prog (option B)) (Q : B -> wview -> Prop) l :
    safe t p l (optQ (fun x l' => safe t (q x) l' (optQ Q))) -> safe t (bindo p q) l (optQ Q).
  Proof.
    intros H. unfold bindo. apply Conc.safe_bind. eapply Conc.safe_weaken; [|exact H].
    intros [x|] l' Hx; cbn in *; auto.
  Qed.
  Lemma safe_thenu {B} t (p : prog unit) (q : prog B) (Q : B -> wview -> Prop) l :
    safe t p l (fun _ l' => safe t q l' Q) -> safe t (thenu p q) l Q.
  Proof. intros H. unfold thenu. apply Conc.safe_bind. exact H. Qed.
  Lemma safe_ret {R} t (r : R) (Q : R -> wview -> Prop) l : Q r l -> safe t (Ret r) l Q.
  Proof. intros H. exact H. Qed.
  Lemma safe_oret {R} t (r : R) (Q : R -> wview -> Prop) l : Q r l -> safe t (oret r) l (optQ Q).
  Proof. intros H. exact H. Qed.

  (** steps that touch neither the lock words nor the policy words *)
  Definition quiet (g g' : G) : Prop := same_locks g g' /\ same_pol g g'.
  Lemma quiet_refl g : quiet g g.
  Proof. repeat split. Qed.
  Lemma quiet_tabs g x : quiet g (set_tabs g x).
  Proof. repeat split. Qed.
  Lemma quiet_count g x : quiet g (set_count g x).
  Proof. repeat split. Qed.

  Lemma InvR_quiet g g' a tr tr' : InvR g a tr -> quiet g g' -> InvR g' a tr'.
  Proof. intros Hc [H1 H2]. eapply CoreR_same; eauto. Qed.

  Lemma safe_silent {R} t (f : action) (k : V -> prog R) (Q : R -> wview -> Prop) v :
    (forall g, quiet g (fst (fst (f g)))) ->
    (forall g a tr, InvR g a tr -> a t = v -> safe t (k (snd (fst (f g)))) v Q) ->
    safe t (Act f k) v Q.
  Proof.
    intros Hf Hk. cbn [Conc.safe]. intros g a tr Hi Hv. unfold rview in Hv.
    exists a. split; [eapply InvR_quiet; eauto|]. split; [apply rframe_refl|]. unfold rview. rewrite Hv. eapply Hk; eauto.
  Qed.

  Lemma probe_quiet tb h k g : quiet g (fst (fst (a_probe tb h k g))).
  Proof. unfold a_probe. destruct (bkt_get _ _); apply quiet_refl. Qed.
  Lemma place_quiet o tb h x lim g : quiet g (fst (fst (a_place o tb h x lim g))).
  Proof. unfold a_place. destruct (Nat.ltb _ _); [apply quiet_tabs|apply quiet_refl]. Qed.
  Lemma look_quiet tb h th g : quiet g (fst (fst (a_reloc_look tb h th g))).
  Proof. unfold a_reloc_look. destruct (Nat.ltb _ _); apply quiet_refl. Qed.
  Lemma partial_quiet o tb h x ps rtb rb g : quiet g (fst (fst (a_reloc_partial o tb h x ps rtb rb g))).
  Proof. unfold a_reloc_partial. destruct (Nat.ltb _ _); apply quiet_tabs. Qed.
  Lemma remove_quiet tb h k g : quiet g (fst (fst (a_remove tb h k g))).
  Proof. apply quiet_tabs. Qed.

  Definition post_quiet (post : post_t) : Prop := forall g, quiet g (post g).
  Lemma nopost_quiet : post_quiet nopost.
  Proof. intros g. apply quiet_refl. Qed.
  Lemma rm_first_quiet tb b : post_quiet (rm_first tb b).
  Proof. intros g. apply quiet_tabs. Qed.

  (** *** the six steps on a reentrant lock word *)
  Definition wlock (w : wview) (H' : list lk) (m' : micro) : wview :=
    mkW H' m' (w_own w) (w_anc w) (w_chk w) (w_gs w) (w_acc w) (w_mask w).
  Definition keep_val (H' : list lk) (x : option (nat * nat)) : option (nat * nat) :=
    match x with
    | Some (gen, i) => if in_dec lk_dec (gen, 0, i) H' then x else None
    | None => None
    end.
  Definition wrel (w : wview) (H' : list lk) (m' : micro) : wview :=
    mkW H' m' (w_own w) (keep_val H' (w_anc w)) (keep_val H' (w_chk w)) (w_gs w) (w_acc w) (w_mask w).

  Lemma keep_val_some H' x y : keep_val H' x = Some y -> x = Some y /\ In (fst y, 0, snd y) H'.
  Proof.
    destruct x as [[gen i]|]; cbn; [|discriminate]. destruct (in_dec lk_dec (gen, 0, i) H'); [|discriminate].
    intros E. inversion E; subst. auto.
  Qed.

  (** a lock the thread may take: of the lock arrays it last read *)
  Definition lk_ok (w : wview) (l : lk) : Prop := exists tb i, l = (fst (w_gs w), tb, i) /\ tb < 2 /\ i < snd (w_gs w).

  Lemma lk_ok_range g a t l : CoreR g a -> lk_ok (a t) l -> forall gg tb i, l = (gg, tb, i) -> gg <= cur g /\ tb < 2 /\ i < gsize g gg.
  Proof.
    intros Hc (tb0 & i0 & -> & H1 & H2) gg tb i E. inversion E; subst. destruct (r_gs Hc t) as [A B]. rewrite B. auto.
  Qed.

  (** what the owner must keep: the cells it locked for the resize *)
  Definition keeps (w : wview) (H' : list lk) : Prop :=
    (forall g0 sz j, w_own w = OLk g0 sz j -> forall i, i < j -> In (g0, 0, i) H') /\
    (forall g0 sz n b, w_own w = OIn g0 sz n b -> forall i, i < sz -> In (g0, 0, i) H').

  Lemma keeps_super g a t H' : CoreR g a -> (forall l, In l (w_held (a t)) -> In l H') -> keeps (a t) H'.
  Proof.
    intros Hc Hs. split.
    - intros g0 sz j E i Hi. apply Hs. destruct (r_scan Hc t g0 sz j E) as (_ & _ & _ & X). auto.
    - intros g0 sz n b E i Hi. apply Hs. destruct (r_inst Hc t g0 sz n b E) as (_ & _ & _ & X). auto.
  Qed.

  Lemma spin0_free g a l : CoreR g a -> rspin g l = 0 -> forall t0, ~ In l (w_held (a t0)).
  Proof. intros Hc H0 t0 Hin. pose proof (r_spin Hc t0 l Hin) as E. apply in_cnt in Hin. lia. Qed.

  Lemma same_pol_rspin g f : same_pol g (set_rspin g f).  Proof. repeat split. Qed.
  Lemma same_pol_rown g f : same_pol g (set_rown g f).  Proof. repeat split. Qed.

  Lemma val_super g a t (H' : list lk) : CoreR g a -> (forall l, In l (w_held (a t)) -> In l H') ->
    (forall x, w_anc (a t) = Some x -> w_anc (a t) = Some x /\ In (fst x, 0, snd x) H') /\
    (forall x, w_chk (a t) = Some x -> w_chk (a t) = Some x /\ In (fst x, 0, snd x) H').
  Proof.
    intros Hc Hs. split; intros [gen i] E; (split; [exact E|]); apply Hs.
    - apply (r_anc Hc t gen i E).
    - apply (r_chk Hc t gen i E).
  Qed.

  (** first acquisition: compare-exchange 0 -> 1 succeeded *)
  Lemma InvR_lock_take g a tr tr' t l :
    InvR g a tr -> lk_ok (a t) l -> w_mic (a t) = MNone -> rspin g l = 0 ->
    InvR (set_rspin g (updl (rspin g) l 1)) (rsetv a t (wlock (a t) (l :: w_held (a t)) (MTaken l))) tr'.
  Proof.
    intros Hc Hok Hm H0. unfold InvR in *.
    pose proof (spin0_free g a l Hc H0) as Hfree.
    destruct (val_super g a t (l :: w_held (a t)) Hc ltac:(intros; now right)) as [Va Vc].
    destruct (keeps_super g a t (l :: w_held (a t)) Hc ltac:(intros; now right)) as [Ks Ki].
    apply (CoreR_lock g _ a t _ Hc (same_pol_rspin g _)); cbn [rspin rown set_rspin w_held w_mic w_own w_gs w_acc w_mask w_anc w_chk wlock]; auto.
    - intros l' [<-|Hin].
      + rewrite updl_same, cnt_cons_same. split; [|intros t0 _; apply Hfree].
        assert (cnt (w_held (a t)) l = 0) by (apply (count_occ_not_In lk_dec); apply Hfree). lia.
      + assert (l' <> l) by (intros ->; eapply Hfree; eauto). rewrite updl_other, cnt_cons_other by auto.
        split; [apply (r_spin Hc t l' Hin)|]. intros t0 Hne H'. apply Hne. eapply (r_excl Hc); eauto.
    - intros l' Hn. destruct (lk_dec l' l) as [->|E]; [left; now left|]. rewrite updl_other in Hn by exact E.
      destruct (r_spin0 Hc l' Hn) as (t0 & Hin). destruct (Nat.eq_dec t0 t) as [->|Hne]; [left; now right|right; eauto].
    - intros l' t0 Hne Hin. assert (l' <> l) by (intros ->; eapply Hfree; eauto). now rewrite updl_other.
    - intros l' Hoth. destruct (r_rown Hc l') as [E|(t1 & E1 & E2 & E3 & E4)]; [now left|].
      destruct (Nat.eq_dec t1 t) as [->|Hne]; [|exfalso; eapply Hoth; eauto].
      right. split; auto. split; [now right|]. assert (l' <> l) by (intros ->; eapply Hfree; eauto). split; congruence.
    - intros l' [<-|Hin] M1 M2; [congruence|]. apply (r_rown2 Hc t l' Hin); rewrite Hm; discriminate.
    - intros l' [E|E]; [|discriminate]. injection E as E'. subst l'. rewrite cnt_cons_same.
      assert (cnt (w_held (a t)) l = 0) by (apply (count_occ_not_In lk_dec); apply Hfree). lia.
    - intros gg tb i [E|Hin]; [eapply lk_ok_range; eauto|]. eapply (r_range Hc); eauto.
  Qed.

  (** m_OwnerId.store( me ) *)
  Lemma InvR_lock_own g a tr tr' t l :
    InvR g a tr -> w_mic (a t) = MTaken l ->
    InvR (set_rown g (updl (rown g) l (S t))) (rsetv a t (wlock (a t) (w_held (a t)) MNone)) tr'.
  Proof.
    intros Hc Hm. unfold InvR in *.
    assert (Hc1 : cnt (w_held (a t)) l = 1) by (apply (r_mic Hc); now left).
    assert (Hin : In l (w_held (a t))) by (apply in_cnt; lia).
    assert (Hoth : forall t0, t0 <> t -> ~ In l (w_held (a t0))) by (intros t0 Hne H'; apply Hne; eapply (r_excl Hc); eauto).
    destruct (val_super g a t (w_held (a t)) Hc ltac:(auto)) as [Va Vc].
    destruct (keeps_super g a t (w_held (a t)) Hc ltac:(auto)) as [Ks Ki].
    apply (CoreR_lock g _ a t _ Hc (same_pol_rown g _)); cbn [rspin rown set_rown w_held w_mic w_own w_gs w_acc w_mask w_anc w_chk wlock]; auto.
    - intros l' Hin'. split; [apply (r_spin Hc t l' Hin')|]. intros t0 Hne H'. apply Hne. eapply (r_excl Hc); eauto.
    - intros l' Hn. destruct (r_spin0 Hc l' Hn) as (t0 & Hin0). destruct (Nat.eq_dec t0 t) as [->|Hne]; [now left|right; eauto].
    - intros l' t0 Hne Hin0. assert (l' <> l) by (intros ->; eapply Hoth; eauto). now rewrite updl_other.
    - intros l' Hoth'. destruct (lk_dec l' l) as [->|E].
      + rewrite updl_same. right. repeat split; auto; discriminate.
      + rewrite updl_other by exact E. destruct (r_rown Hc l') as [E0|(t1 & E1 & E2 & E3 & E4)]; [now left|].
        destruct (Nat.eq_dec t1 t) as [->|Hne]; [|exfalso; eapply Hoth'; eauto]. right. repeat split; auto; discriminate.
    - intros l' Hin' _ _. destruct (lk_dec l' l) as [->|E]; [now rewrite updl_same|]. rewrite updl_other by exact E.
      apply (r_rown2 Hc t l' Hin'); rewrite Hm; congruence.
    - intros l' [E|E]; discriminate.
    - intros gg tb i. apply (r_range Hc).
  Qed.

  (** nested acquisition: m_spin.fetch_add( 1 ) *)
  Lemma InvR_lock_again g a tr tr' t l :
    InvR g a tr -> w_mic (a t) = MNone -> In l (w_held (a t)) ->
    InvR (set_rspin g (updl (rspin g) l (S (rspin g l)))) (rsetv a t (wlock (a t) (l :: w_held (a t)) MNone)) tr'.
  Proof.
    intros Hc Hm Hin. unfold InvR in *.
    assert (Hoth : forall t0, t0 <> t -> ~ In l (w_held (a t0))) by (intros t0 Hne H'; apply Hne; eapply (r_excl Hc); eauto).
    destruct (val_super g a t (l :: w_held (a t)) Hc ltac:(intros; now right)) as [Va Vc].
    destruct (keeps_super g a t (l :: w_held (a t)) Hc ltac:(intros; now right)) as [Ks Ki].
    apply (CoreR_lock g _ a t _ Hc (same_pol_rspin g _)); cbn [rspin rown set_rspin w_held w_mic w_own w_gs w_acc w_mask w_anc w_chk wlock]; auto.
    - intros l' Hin'. destruct (lk_dec l' l) as [->|E].
      + rewrite updl_same, cnt_cons_same, (r_spin Hc t l Hin). split; auto.
      + rewrite updl_other, cnt_cons_other by auto. destruct Hin' as [E'|Hin']; [congruence|].
        split; [apply (r_spin Hc t l' Hin')|]. intros t0 Hne H'. apply Hne. eapply (r_excl Hc); eauto.
    - intros l' Hn. destruct (lk_dec l' l) as [->|E]; [left; now left|]. rewrite updl_other in Hn by exact E.
      destruct (r_spin0 Hc l' Hn) as (t0 & Hin0). destruct (Nat.eq_dec t0 t) as [->|Hne]; [left; now right|right; eauto].
    - intros l' t0 Hne Hin0. assert (l' <> l) by (intros ->; eapply Hoth; eauto). now rewrite updl_other.
    - intros l' Hoth'. destruct (r_rown Hc l') as [E|(t1 & E1 & E2 & E3 & E4)]; [now left|].
      destruct (Nat.eq_dec t1 t) as [->|Hne]; [|exfalso; eapply Hoth'; eauto]. right. repeat split; auto; try discriminate. now right.
    - intros l' Hin' _ _. assert (In l' (w_held (a t))) by (destruct Hin' as [<-|H']; auto).
      apply (r_rown2 Hc t l'); auto; rewrite Hm; discriminate.
    - intros l' [E|E]; discriminate.
    - intros gg tb i [E|Hin']; [|eapply (r_range Hc); eauto]. apply (r_range Hc t gg tb i). rewrite <- E. exact Hin.
  Qed.

  Lemma wrel_val (a : RAux) t (H' : list lk) m' :
    (forall x, w_anc (wrel (a t) H' m') = Some x -> w_anc (a t) = Some x /\ In (fst x, 0, snd x) H') /\
    (forall x, w_chk (wrel (a t) H' m') = Some x -> w_chk (a t) = Some x /\ In (fst x, 0, snd x) H').
  Proof. split; intros x E; cbn in E; now apply keep_val_some in E. Qed.

  (** unlock of a nested acquisition: m_spin.store( n - 1 ) *)
  Lemma InvR_unlock_dec g a tr tr' t l :
    InvR g a tr -> w_mic (a t) = MNone -> 1 < cnt (w_held (a t)) l ->
    InvR (set_rspin g (updl (rspin g) l (cnt (w_held (a t)) l - 1))) (rsetv a t (wrel (a t) (rem1 l (w_held (a t))) MNone)) tr'.
  Proof.
    intros Hc Hm Hn. unfold InvR in *.
    assert (Hin : In l (w_held (a t))) by (apply in_cnt; lia).
    assert (Hoth : forall t0, t0 <> t -> ~ In l (w_held (a t0))) by (intros t0 Hne H'; apply Hne; eapply (r_excl Hc); eauto).
    assert (Hsub : forall l', In l' (rem1 l (w_held (a t))) -> In l' (w_held (a t))) by (intros l' H'; apply in_rem1 in H'; destruct H' as [[_ H']|[-> _]]; auto).
    assert (Hsup : forall l', In l' (w_held (a t)) -> In l' (rem1 l (w_held (a t)))).
    { intros l' H'. apply in_rem1. destruct (lk_dec l' l) as [->|E]; [right; split; auto|left; auto]. }
    destruct (wrel_val a t (rem1 l (w_held (a t))) MNone) as [Va Vc].
    destruct (keeps_super g a t (rem1 l (w_held (a t))) Hc Hsup) as [Ks Ki].
    apply (CoreR_lock g _ a t _ Hc (same_pol_rspin g _)); cbn [rspin rown set_rspin w_held w_mic w_own w_gs w_acc w_mask wrel]; auto.
    - intros l' Hin'. apply Hsub in Hin'. destruct (lk_dec l' l) as [->|E].
      + rewrite updl_same, cnt_rem1_same. split; auto.
      + rewrite updl_other, cnt_rem1_other by auto. split; [apply (r_spin Hc t l' Hin')|].
        intros t0 Hne H'. apply Hne. eapply (r_excl Hc); eauto.
    - intros l' Hne0. destruct (lk_dec l' l) as [->|E]; [left; auto|]. rewrite updl_other in Hne0 by exact E.
      destruct (r_spin0 Hc l' Hne0) as (t0 & Hin0). destruct (Nat.eq_dec t0 t) as [->|Hne]; [left; auto|right; eauto].
    - intros l' t0 Hne Hin0. assert (l' <> l) by (intros ->; eapply Hoth; eauto). now rewrite updl_other.
    - intros l' Hoth'. destruct (r_rown Hc l') as [E|(t1 & E1 & E2 & E3 & E4)]; [now left|].
      destruct (Nat.eq_dec t1 t) as [->|Hne]; [|exfalso; eapply Hoth'; eauto]. right. repeat split; auto; discriminate.
    - intros l' Hin' _ _. apply (r_rown2 Hc t l'); auto; rewrite Hm; discriminate.
    - intros l' [E|E]; discriminate.
    - intros gg tb i Hin'. eapply (r_range Hc); eauto.
  Qed.

  (** last unlock, first half: m_OwnerId.store( 0 ) *)
  Lemma InvR_unlock_disown g a tr tr' t l :
    InvR g a tr -> w_mic (a t) = MNone -> cnt (w_held (a t)) l = 1 ->
    InvR (set_rown g (updl (rown g) l 0)) (rsetv a t (wlock (a t) (w_held (a t)) (MRel l))) tr'.
  Proof.
    intros Hc Hm Hn. unfold InvR in *.
    assert (Hin : In l (w_held (a t))) by (apply in_cnt; lia).
    assert (Hoth : forall t0, t0 <> t -> ~ In l (w_held (a t0))) by (intros t0 Hne H'; apply Hne; eapply (r_excl Hc); eauto).
    destruct (val_super g a t (w_held (a t)) Hc ltac:(auto)) as [Va Vc].
    destruct (keeps_super g a t (w_held (a t)) Hc ltac:(auto)) as [Ks Ki].
    apply (CoreR_lock g _ a t _ Hc (same_pol_rown g _)); cbn [rspin rown set_rown w_held w_mic w_own w_gs w_acc w_mask w_anc w_chk wlock]; auto.
    - intros l' Hin'. split; [apply (r_spin Hc t l' Hin')|]. intros t0 Hne H'. apply Hne. eapply (r_excl Hc); eauto.
    - intros l' Hne0. destruct (r_spin0 Hc l' Hne0) as (t0 & Hin0). destruct (Nat.eq_dec t0 t) as [->|Hne]; [now left|right; eauto].
    - intros l' t0 Hne Hin0. assert (l' <> l) by (intros ->; eapply Hoth; eauto). now rewrite updl_other.
    - intros l' Hoth'. destruct (lk_dec l' l) as [->|E]; [rewrite updl_same; now left|]. rewrite updl_other by exact E.
      destruct (r_rown Hc l') as [E0|(t1 & E1 & E2 & E3 & E4)]; [now left|].
      destruct (Nat.eq_dec t1 t) as [->|Hne]; [|exfalso; eapply Hoth'; eauto]. right. repeat split; auto; congruence.
    - intros l' Hin' M1 M2. assert (l' <> l) by congruence. rewrite updl_other by auto.
      apply (r_rown2 Hc t l'); auto; rewrite Hm; discriminate.
    - intros l' [E|E]; [discriminate|]. injection E as E'. subst l'. exact Hn.
    - intros gg tb i. apply (r_range Hc).
  Qed.

  (** last unlock, second half: m_spin.store( 0 ); the owner does not give up the cells of its resize *)
  Lemma InvR_unlock_free g a tr tr' t l :
    InvR g a tr -> w_mic (a t) = MRel l -> keeps (a t) (rem1 l (w_held (a t))) ->
    InvR (set_rspin g (updl (rspin g) l 0)) (rsetv a t (wrel (a t) (rem1 l (w_held (a t))) MNone)) tr'.
  Proof.
    intros Hc Hm [Ks Ki]. unfold InvR in *.
    assert (Hn : cnt (w_held (a t)) l = 1) by (apply (r_mic Hc); now right).
    assert (Hin : In l (w_held (a t))) by (apply in_cnt; lia).
    assert (Hoth : forall t0, t0 <> t -> ~ In l (w_held (a t0))) by (intros t0 Hne H'; apply Hne; eapply (r_excl Hc); eauto).
    assert (Hsub : forall l', In l' (rem1 l (w_held (a t))) -> In l' (w_held (a t))) by (intros l' H'; apply in_rem1 in H'; destruct H' as [[_ H']|[-> _]]; auto).
    assert (Hgone : ~ In l (rem1 l (w_held (a t)))) by (intros H'; apply in_rem1 in H'; destruct H' as [[H' _]|[_ H']]; [congruence|lia]).
    destruct (wrel_val a t (rem1 l (w_held (a t))) MNone) as [Va Vc].
    apply (CoreR_lock g _ a t _ Hc (same_pol_rspin g _)); cbn [rspin rown set_rspin w_held w_mic w_own w_gs w_acc w_mask wrel]; auto.
    - intros l' Hin'. assert (l' <> l) by (intros ->; contradiction). apply Hsub in Hin'.
      rewrite updl_other, cnt_rem1_other by auto. split; [apply (r_spin Hc t l' Hin')|].
      intros t0 Hne H'. apply Hne. eapply (r_excl Hc); eauto.
    - intros l' Hne0. destruct (lk_dec l' l) as [->|E]; [rewrite updl_same in Hne0; congruence|]. rewrite updl_other in Hne0 by exact E.
      destruct (r_spin0 Hc l' Hne0) as (t0 & Hin0). destruct (Nat.eq_dec t0 t) as [->|Hne]; [left; apply in_rem1; left; auto|right; eauto].
    - intros l' t0 Hne Hin0. assert (l' <> l) by (intros ->; eapply Hoth; eauto). now rewrite updl_other.
    - intros l' Hoth'. destruct (r_rown Hc l') as [E|(t1 & E1 & E2 & E3 & E4)]; [now left|].
      destruct (Nat.eq_dec t1 t) as [->|Hne]; [|exfalso; eapply Hoth'; eauto].
      assert (l' <> l) by (intros ->; rewrite Hm in E4; congruence). right. repeat split; auto; try discriminate. apply in_rem1. left. auto.
    - intros l' Hin' _ _. assert (l' <> l) by (intros ->; contradiction). apply Hsub in Hin'.
      apply (r_rown2 Hc t l'); auto; rewrite Hm; congruence.
    - intros l' [E|E]; discriminate.
    - intros gg tb i Hin'. eapply (r_range Hc); eauto.
  Qed.

  (** *** specifications of lock / try_lock / unlock *)
  Lemma rown_me_iff g a t l : CoreR g a -> w_mic (a t) = MNone -> (rown g l = S t <-> In l (w_held (a t))).
  Proof.
    intros Hc Hm. split.
    - intros E. destruct (r_rown Hc l) as [E0|(t1 & E1 & E2 & _)]; [lia|]. assert (t1 = t) by lia. now subst.
    - intros Hin. apply (r_rown2 Hc t l Hin); rewrite Hm; discriminate.
  Qed.

  Definition acquired (l : lk) (v v' : wview) : Prop := v' = wlock v (l :: w_held v) MNone.

  Lemma safe_faa t l post (Q : wview -> Prop) v :
    post_quiet post -> w_mic v = MNone -> In l (w_held v) -> Q (wlock v (l :: w_held v) MNone) ->
    safe t (Act (a_rspin_faa l post) (fun _ => oret tt)) v (optQ (fun _ => Q)).
  Proof.
    intros Hp Hm Hin HQ. cbn [Conc.safe]. intros g a tr Hi Hv. unfold rview in Hv. cbn [a_rspin_faa fst snd].
    eexists. split; [eapply InvR_quiet; [apply (InvR_lock_again g a tr tr t l Hi); rewrite Hv; auto|apply Hp]|].
    split; [apply rframe_setv|]. unfold rview. rewrite rsetv_same, Hv. apply safe_oret. exact HQ.
  Qed.

  Lemma safe_own t l post (Q : wview -> Prop) v :
    post_quiet post -> w_mic v = MTaken l -> Q (wlock v (w_held v) MNone) ->
    safe t (Act (a_rown_st l (S t) post) (fun _ => oret tt)) v (optQ (fun _ => Q)).
  Proof.
    intros Hp Hm HQ. cbn [Conc.safe]. intros g a tr Hi Hv. unfold rview in Hv. cbn [a_rown_st fst snd].
    eexists. split; [eapply InvR_quiet; [apply (InvR_lock_own g a tr tr t l Hi); rewrite Hv; auto|apply Hp]|].
    split; [apply rframe_setv|]. unfold rview. rewrite rsetv_same, Hv. apply safe_oret. exact HQ.
  Qed.

  Lemma safe_r_acq t l (Q : wview -> Prop) v : lk_ok v l -> w_mic v = MNone ->
    Q (wlock v (l :: w_held v) (MTaken l)) ->
    forall fuel, safe t (r_acq_outer fuel l) v (optQ (fun _ => Q)) /\ safe t (r_acq_inner fuel l) v (optQ (fun _ => Q)).
  Proof.
    intros Hok Hm HQ fuel. induction fuel as [|f IH]; split; cbn [r_acq_outer r_acq_inner]; try exact I.
    - cbn [Conc.safe]. intros g a tr Hi Hv. unfold rview in Hv. unfold a_rspin_cas.
      destruct (Nat.eqb_spec (rspin g l) 0) as [E|E]; cbn [fst snd].
      + eexists. split; [apply (InvR_lock_take g a tr _ t l Hi); rewrite ?Hv; auto|]. split; [apply rframe_setv|].
        unfold rview. rewrite rsetv_same, Hv. cbn [vn vnat Nat.eqb]. apply safe_oret. exact HQ.
      + exists a. split; [eapply InvR_quiet; [exact Hi|apply quiet_refl]|]. split; [apply rframe_refl|].
        unfold rview. rewrite Hv. cbn [vn vnat Nat.eqb]. apply IH.
    - apply safe_silent; [intros g; apply quiet_refl|]. intros g a tr _ _. cbn [a_rspin_ld fst snd vn vnat].
      destruct (Nat.eqb (rspin g l) 0); apply IH.
  Qed.

  Lemma safe_r_lock t l (post : post_t) (Q : wview -> Prop) fuel v :
    post_quiet post -> lk_ok v l -> w_mic v = MNone -> Q (wlock v (l :: w_held v) MNone) ->
    safe t (r_lock fuel (S t) l post) v (optQ (fun _ => Q)).
  Proof.
    intros Hp Hok Hm HQ. unfold r_lock. cbn [Conc.safe]. intros g a tr Hi Hv. unfold rview in Hv.
    cbn [a_rown_ld fst snd]. exists a.
    split; [eapply InvR_quiet; [exact Hi|apply quiet_refl]|]. split; [apply rframe_refl|]. unfold rview. rewrite Hv. cbn [vn vnat].
    assert (Hma : w_mic (a t) = MNone) by now rewrite Hv.
    pose proof (rown_me_iff g a t l Hi Hma) as Hiff. rewrite Hv in Hiff.
    destruct (Nat.eqb_spec (rown g l) (S t)) as [E|E].
    - apply safe_faa; auto. now apply Hiff.
    - apply safe_bindo. refine (proj1 (safe_r_acq t l _ v Hok Hm _ fuel)). apply safe_own; auto.
  Qed.

  Lemma safe_r_try_lock t l (Q : bool -> wview -> Prop) v :
    lk_ok v l -> w_mic v = MNone -> Q true (wlock v (l :: w_held v) MNone) -> Q false v ->
    safe t (r_try_lock (S t) l) v Q.
  Proof.
    intros Hok Hm HQ1 HQ0. unfold r_try_lock. cbn [Conc.safe]. intros g a tr Hi Hv. unfold rview in Hv.
    cbn [a_rown_ld fst snd]. exists a.
    split; [eapply InvR_quiet; [exact Hi|apply quiet_refl]|]. split; [apply rframe_refl|]. unfold rview. rewrite Hv. cbn [vn vnat].
    assert (Hma : w_mic (a t) = MNone) by now rewrite Hv.
    pose proof (rown_me_iff g a t l Hi Hma) as Hiff. rewrite Hv in Hiff.
    destruct (Nat.eqb_spec (rown g l) (S t)) as [E|E].
    - assert (K := safe_faa t l nopost (Q true) v nopost_quiet Hm (proj1 Hiff E) HQ1).
      cbn [Conc.safe] in K |- *. intros g1 a1 tr1 Hi1 Hv1. destruct (K g1 a1 tr1 Hi1 Hv1) as (a2 & K1 & K2 & K3).
      exists a2. split; auto.
    - cbn [Conc.safe]. clear g a tr Hi Hv Hma Hiff E. intros g a tr Hi Hv. unfold rview in Hv. unfold a_rspin_cas.
      destruct (Nat.eqb_spec (rspin g l) 0) as [E|E]; cbn [fst snd].
      + eexists. split; [apply (InvR_lock_take g a tr _ t l Hi); rewrite ?Hv; auto|]. split; [apply rframe_setv|].
        unfold rview. rewrite rsetv_same, Hv. cbn [vn vnat Nat.eqb].
        assert (K := safe_own t l nopost (Q true) (wlock v (l :: w_held v) (MTaken l)) nopost_quiet eq_refl HQ1).
        cbn [Conc.safe] in K |- *. intros g1 a1 tr1 Hi1 Hv1. destruct (K g1 a1 tr1 Hi1 Hv1) as (a2 & K1 & K2 & K3).
        exists a2. split; auto.
      + exists a. split; [eapply InvR_quiet; [exact Hi|apply quiet_refl]|]. split; [apply rframe_refl|].
        unfold rview. rewrite Hv. cbn [vn vnat Nat.eqb]. exact HQ0.
  Qed.

  (** unlock() *)
  Lemma safe_r_unlock t l (Q : wview -> Prop) v :
    w_mic v = MNone -> In l (w_held v) ->
    (cnt (w_held v) l = 1 -> keeps v (rem1 l (w_held v))) ->
    Q (wrel v (rem1 l (w_held v)) MNone) ->
    safe t (r_unlock l) v (fun _ => Q).
  Proof.
    intros Hm Hin Hcond HQ. unfold r_unlock. cbn [Conc.safe]. intros g a tr Hi Hv. unfold rview in Hv.
    cbn [a_rspin_ld fst snd]. exists a.
    split; [eapply InvR_quiet; [exact Hi|apply quiet_refl]|]. split; [apply rframe_refl|]. unfold rview. rewrite Hv. cbn [vn vnat].
    assert (Hs : rspin g l = cnt (w_held v) l) by (rewrite (r_spin Hi t l); rewrite Hv; auto).
    rewrite Hs. assert (Hpos : 0 < cnt (w_held v) l) by (now apply in_cnt).
    destruct (Nat.ltb_spec 1 (cnt (w_held v) l)) as [Hgt|Hle].
    - cbn [Conc.safe]. clear g a tr Hi Hv Hs. intros g a tr Hi Hv. unfold rview in Hv. cbn [a_rspin_st fst snd].
      eexists. split; [|split; [apply rframe_setv|]].
      + replace (cnt (w_held v) l - 1) with (cnt (w_held (a t)) l - 1) by now rewrite Hv.
        apply (InvR_unlock_dec g a tr _ t l Hi); rewrite Hv; auto.
      + unfold rview. rewrite rsetv_same, Hv. exact HQ.
    - assert (H1 : cnt (w_held v) l = 1) by lia. specialize (Hcond H1).
      cbn [Conc.safe]. clear g a tr Hi Hv Hs. intros g a tr Hi Hv. unfold rview in Hv. cbn [a_rown_st fst snd nopost].
      eexists. split; [apply (InvR_unlock_disown g a tr _ t l Hi); rewrite Hv; auto|]. split; [apply rframe_setv|].
      unfold rview. rewrite rsetv_same, Hv. cbn [Conc.safe]. clear g a tr Hi Hv.
      intros g a tr Hi Hv. unfold rview in Hv. cbn [a_rspin_st fst snd].
      eexists. split; [apply (InvR_unlock_free g a tr _ t l Hi); rewrite Hv; cbn [wlock w_mic w_held w_own]; auto|]. split; [apply rframe_setv|].
      unfold rview. rewrite rsetv_same, Hv. cbn [wlock wrel w_held w_own w_anc w_chk w_gs w_acc w_mask]. exact HQ.
  Qed.

  (** *** m_access, the capacity word, the owner word *)
  Definition lgen (l : lk) : nat := fst (fst l).

  Lemma quiet_access_same g : access g = true -> quiet g (set_access g true).
  Proof. intros E. repeat split. cbn. now rewrite E. Qed.

  (** what a thread learns when it takes m_access *)
  Definition gs_ok (v : wview) (gs : nat * nat) : Prop :=
    0 < snd gs /\ forall g0 s n b, w_own v = OIn g0 s n b -> fst gs <> g0.

  Lemma gs_ok_cur g a t : CoreR g a -> gs_ok (a t) (cur g, gsize g (cur g)).
  Proof.
    intros Hc. destruct (r_cap Hc) as (_ & _ & _ & Cpos). split; [apply Cpos; lia|].
    intros g0 s n b E. destruct (r_inst Hc t g0 s n b E) as (_ & X & _). cbn. lia.
  Qed.

  Lemma safe_acc_lock t (Q : nat * nat -> wview -> Prop) v : w_acc v = false ->
    (forall gs, gs_ok v gs -> Q gs (wset_gs v gs true)) ->
    forall fuel, safe t (acc_lock_outer fuel) v (optQ Q) /\ safe t (acc_lock_inner fuel) v (optQ Q).
  Proof.
    intros Ha HQ fuel. induction fuel as [|f IH]; split; cbn [acc_lock_outer acc_lock_inner]; try exact I.
    - cbn [Conc.safe]. intros g a tr Hi Hv. unfold rview in Hv. unfold a_access_xchg. cbn [fst snd].
      destruct (access g) eqn:E; cbn [b2n vn vm vs Nat.eqb].
      + exists a. split; [eapply InvR_quiet; [exact Hi|now apply quiet_access_same]|]. split; [apply rframe_refl|].
        unfold rview. rewrite Hv. apply IH.
      + eexists. split; [apply (CoreR_gs g (set_access g true) a t (cur g, gsize g (cur g)) true Hi);
                           [repeat split|reflexivity|reflexivity|reflexivity|reflexivity|reflexivity|reflexivity|cbn; lia|reflexivity| | |]|].
        * intros _. split; auto. split; auto. intros t0 _. apply (proj2 (proj2 (r_acc Hi)) E).
        * discriminate.
        * auto.
        * split; [apply rframe_setv|]. unfold rview. rewrite rsetv_same, Hv. apply safe_oret. apply HQ. rewrite <- Hv. eapply gs_ok_cur; eauto.
    - apply safe_silent; [intros g; apply quiet_refl|]. intros g a tr _ _. cbn [a_access_ld fst snd vn vnat].
      destruct (Nat.eqb (b2n (access g)) 0); apply IH.
  Qed.

  (** m_nCapacity.load() while m_access is held: the size of the arrays just read *)
  Lemma safe_pcap_ld_acc {R} t (k : V -> prog R) (Q : R -> wview -> Prop) v :
    w_acc v = true ->
    (forall vc, vn vc = snd (w_gs v) -> safe t (k vc) v Q) ->
    safe t (Act a_pcap_ld k) v Q.
  Proof.
    intros Ha Hk. cbn [Conc.safe]. intros g a tr Hi Hv. unfold rview in Hv. exists a.
    split; [eapply InvR_quiet; [exact Hi|apply quiet_refl]|]. split; [apply rframe_refl|]. unfold rview. rewrite Hv.
    apply Hk. cbn [a_pcap_ld fst snd vn]. destruct (proj1 (r_acc Hi) t ltac:(now rewrite Hv)) as [_ E].
    destruct (r_gs Hi t) as [_ E2]. rewrite <- Hv, <- E2, E. apply (r_cap Hi).
  Qed.

  Lemma safe_access_st {R} t (k : V -> prog R) (Q : R -> wview -> Prop) v :
    w_acc v = true -> safe t (k (vnat 0)) (wset_gs v (w_gs v) false) Q -> safe t (Act a_access_st k) v Q.
  Proof.
    intros Ha Hk. cbn [Conc.safe]. intros g a tr Hi Hv. unfold rview in Hv. cbn [a_access_st fst snd].
    assert (Hat : w_acc (a t) = true) by now rewrite Hv.
    destruct (r_acc Hi) as (B1 & B2 & B3). destruct (r_gs Hi t) as [G1 G2].
    assert (Hoth : forall t0, t0 <> t -> w_acc (a t0) = false).
    { intros t0 Hne. destruct (w_acc (a t0)) eqn:E; auto. exfalso. apply Hne. now apply B2. }
    eexists. split; [apply (CoreR_gs g (set_access g false) a t (w_gs (a t)) false Hi);
                       [repeat split|reflexivity|reflexivity|reflexivity|reflexivity|reflexivity|reflexivity|exact G1|exact G2| | |]|].
    - discriminate.
    - intros _. split; auto.
    - intros t0 Hne E. rewrite (Hoth t0 Hne) in E. discriminate.
    - split; [apply rframe_setv|]. unfold rview. rewrite rsetv_same, Hv. exact Hk.
  Qed.

  Lemma safe_wait_owner {R} t (p : prog (option R)) (Q : R -> wview -> Prop) v :
    safe t p v (optQ Q) -> forall fuel, safe t (bindo (wait_owner fuel (S t)) (fun _ => p)) v (optQ Q).
  Proof.
    intros Hp fuel. apply safe_bindo. induction fuel as [|f IH]; cbn [wait_owner]; [exact I|].
    apply safe_silent; [intros g; apply quiet_refl|]. intros g a tr _ _. cbn [a_owner_ld fst snd vn vnat].
    destruct (free_or_mine (owner g) (S t)); [apply safe_oret; exact Hp|exact IH].
  Qed.

  (** the re-check of acquire(): the owner word, then the capacity *)
  Lemma safe_owner_check {R} t gen i (k : V -> prog R) (Q : R -> wview -> Prop) v :
    In (gen, 0, i) (w_held v) ->
    (forall vo, free_or_mine (vn vo) (S t) = true -> safe t (k vo) (wset_val v (w_anc v) (Some (gen, i))) Q) ->
    (forall vo, free_or_mine (vn vo) (S t) = false -> safe t (k vo) v Q) ->
    safe t (Act a_owner_ld k) v Q.
  Proof.
    intros Hin Hyes Hno. cbn [Conc.safe]. intros g a tr Hi Hv. unfold rview in Hv. cbn [a_owner_ld fst snd].
    destruct (free_or_mine (owner g) (S t)) eqn:E.
    - eexists. split; [apply (CoreR_val g a t (w_anc (a t)) (Some (gen, i)) Hi)|].
      + intros g1 i1 E1. apply (r_anc Hi t g1 i1 E1).
      + intros g1 i1 E1. injection E1 as <- <-. split; [now rewrite Hv|]. intros _ R0 HR.
        rewrite (free_or_mine_others g a t Hi E R0 HR). cbn. tauto.
      + split; [apply rframe_setv|]. unfold rview. rewrite rsetv_same, Hv. apply Hyes. exact E.
    - exists a. split; [exact Hi|]. split; [apply rframe_refl|]. unfold rview. rewrite Hv. apply Hno. exact E.
  Qed.

  Lemma safe_cap_check {R} t gen i sz (k : V -> prog R) (Q : R -> wview -> Prop) v :
    w_chk v = Some (gen, i) -> w_gs v = (gen, sz) ->
    (forall vc, vn vc = sz -> safe t (k vc) (wset_val v (Some (gen, i)) None) Q) ->
    (forall vc, vn vc <> sz -> safe t (k vc) (wset_val v (w_anc v) None) Q) ->
    safe t (Act a_pcap_ld k) v Q.
  Proof.
    intros Hk Hg Hyes Hno. cbn [Conc.safe]. intros g a tr Hi Hv. unfold rview in Hv. cbn [a_pcap_ld fst snd].
    destruct (r_chk Hi t gen i ltac:(now rewrite Hv)) as [C1 C2].
    destruct (r_gs Hi t) as [G1 G2]. rewrite Hv, Hg in G1, G2. cbn [fst snd] in G1, G2.
    destruct (Nat.eq_dec (pcap g) sz) as [E|E].
    - assert (Eg : gen = cur g) by (eapply cap_gen; eauto; lia).
      eexists. split; [apply (CoreR_val g a t (Some (gen, i)) None Hi)|].
      + intros g1 i1 E1. injection E1 as <- <-. split; auto.
      + discriminate.
      + split; [apply rframe_setv|]. unfold rview. rewrite rsetv_same, Hv. apply Hyes. exact E.
    - eexists. split; [apply (CoreR_val g a t (w_anc (a t)) None Hi)|].
      + intros g1 i1 E1. apply (r_anc Hi t g1 i1 E1).
      + discriminate.
      + split; [apply rframe_setv|]. unfold rview. rewrite rsetv_same, Hv. apply Hno. exact E.
  Qed.

  (** *** unlocking a pair of cells *)
  Definition nl (v : wview) (l : lk) : Prop :=
    (forall g0 s j, w_own v <> OLk g0 s j) /\ (forall g0 s n b i, w_own v = OIn g0 s n b -> l <> (g0, 0, i)).

  Lemma keeps_rem v l (H0 : list lk) : keeps v H0 -> nl v l -> keeps v (rem1 l H0).
  Proof.
    intros [K1 K2] [N1 N2]. split.
    - intros g0 sz j E. exfalso. eapply N1; eauto.
    - intros g0 sz n b E i Hi. apply in_rem1. left. split; [apply not_eq_sym; eapply N2; eauto|eapply K2; eauto].
  Qed.

  Lemma safe_unlock2 t l0 l1 (Q : wview -> Prop) v :
    w_mic v = MNone -> In l0 (w_held v) -> In l1 (rem1 l0 (w_held v)) ->
    keeps v (w_held v) -> nl v l0 -> nl v l1 ->
    Q (wrel (wrel v (rem1 l0 (w_held v)) MNone) (rem1 l1 (rem1 l0 (w_held v))) MNone) ->
    safe t (unlock2 (l0, l1)) v (fun _ => Q).
  Proof.
    intros Hm H0 H1 Hk N0 N1 HQ. unfold unlock2. cbn [fst snd]. apply safe_thenu.
    apply safe_r_unlock; auto; [intros _; now apply keeps_rem|].
    apply safe_r_unlock; auto. intros _. cbn [wrel w_held w_own]. apply keeps_rem; auto. now apply keeps_rem.
  Qed.


  (** *** the state of a thread between critical sections: a client without locks, or the resizer with the cells
      of the old lock arrays *)
  Definition rest (w : wview) (H : list lk) (o : ostate) : Prop :=
    w_held w = H /\ w_mic w = MNone /\ w_own w = o /\ w_anc w = None /\ w_chk w = None /\ w_acc w = false.
  Definition okbase (H : list lk) (o : ostate) : Prop :=
    (o = ONone /\ H = []) \/
    (exists g0 sz n b, o = OIn g0 sz n b /\ (forall l, In l H -> exists i, l = (g0, 0, i)) /\ forall i, i < sz -> In (g0, 0, i) H).
  Definition fresh (o : ostate) (l : lk) : Prop := forall g0 s n b, o = OIn g0 s n b -> lgen l <> g0.

  Lemma okbase_keeps H o v : okbase H o -> w_own v = o -> (forall l, In l H -> In l (w_held v)) -> keeps v (w_held v).
  Proof.
    intros Hb Eo Hs. split.
    - intros g1 s1 j E. rewrite Eo in E. destruct Hb as [[-> _]|(g0 & sz & n & b & -> & _)]; discriminate.
    - intros g1 s1 n1 b1 E i Hi. rewrite Eo in E. destruct Hb as [[-> _]|(g0 & sz & n & b & -> & B1 & B2)]; [discriminate|].
      injection E as <- <- <- <-. apply Hs. auto.
  Qed.
  Lemma okbase_nl H o v l : okbase H o -> w_own v = o -> fresh o l -> nl v l.
  Proof.
    intros Hb Eo Hf. split.
    - intros g1 s1 j E. rewrite Eo in E. destruct Hb as [[-> _]|(g0 & sz & n & b & -> & _)]; discriminate.
    - intros g1 s1 n1 b1 i E. rewrite Eo in E. intros ->. eapply Hf; eauto.
  Qed.
  Lemma okbase_notin H o l : okbase H o -> fresh o l -> ~ In l H.
  Proof.
    intros [[-> ->]|(g0 & sz & n & b & -> & B1 & B2)] Hf Hin; [destruct Hin|].
    destruct (B1 l Hin) as (i & ->). eapply Hf; eauto.
  Qed.

  (** release of a pair of cells taken on top of [H2] *)
  Lemma safe_pair_exit {R} t (c2 : cells) (H2 : list lk) (Q : R -> wview -> Prop) (p : prog R) v :
    w_held v = snd c2 :: fst c2 :: H2 -> w_mic v = MNone -> fst c2 <> snd c2 ->
    keeps v (w_held v) -> nl v (fst c2) -> nl v (snd c2) ->
    (forall v', w_held v' = H2 -> w_mic v' = MNone -> w_own v' = w_own v -> w_acc v' = w_acc v -> w_gs v' = w_gs v -> w_mask v' = w_mask v ->
        (w_chk v = None -> w_chk v' = None) ->
        (forall x, w_anc v' = Some x -> w_anc v = Some x /\ In (fst x, 0, snd x) H2) -> safe t p v' Q) ->
    safe t (thenu (unlock2 c2) p) v Q.
  Proof.
    intros Hh Hm Hne Hk N0 N1 Hp. destruct c2 as [l0 l1]. cbn [fst snd] in *. apply safe_thenu.
    assert (E0 : rem1 l0 (w_held v) = l1 :: H2).
    { rewrite Hh. cbn [rem1]. destruct (lk_dec l1 l0); [congruence|]. destruct (lk_dec l0 l0); congruence. }
    assert (E1 : rem1 l1 (l1 :: H2) = H2) by (cbn; destruct (lk_dec l1 l1); congruence).
    apply safe_unlock2; auto.
    - rewrite Hh. right. now left.
    - rewrite E0. now left.
    - rewrite E0, E1. apply Hp; cbn [wrel w_held w_mic w_own w_acc w_gs w_mask w_chk w_anc]; auto.
      + intros E. rewrite E. reflexivity.
      + intros x E. apply keep_val_some in E. destruct E as [E X]. apply keep_val_some in E. destruct E as [E _]. auto.
  Qed.

  (** inside the critical section of a pair of cells returned by acquire() *)
  Definition incs (w : wview) (cl : cells) (H : list lk) (o : ostate) : Prop :=
    w_held w = snd cl :: fst cl :: H /\ w_mic w = MNone /\ w_own w = o /\ w_chk w = None /\ w_acc w = false /\
    fresh o (fst cl) /\ fresh o (snd cl) /\ fst cl <> snd cl /\ (forall x, w_anc w = Some x -> (fst x, 0, snd x) = fst cl).

  Lemma safe_cs_exit {R} t cl H o (Q : R -> wview -> Prop) (p : prog R) v :
    okbase H o -> incs v cl H o -> (forall v', rest v' H o -> w_mask v' = w_mask v -> safe t p v' Q) ->
    safe t (thenu (unlock2 cl) p) v Q.
  Proof.
    intros Hb (C1 & C2 & C3 & C4 & C5 & C6 & C7 & C8 & C9) Hp.
    apply (safe_pair_exit t cl H); [exact C1|exact C2|exact C8| | | |].
    - eapply okbase_keeps; eauto. intros l Hl. rewrite C1. right. now right.
    - eapply okbase_nl; eauto.
    - eapply okbase_nl; eauto.
    - intros v' B1 B2 B3 B4 B5 B6 B7 B8. apply Hp; auto. repeat split; auto; try congruence.
      destruct (w_anc v') as [x|] eqn:E; auto. exfalso. destruct (B8 x eq_refl) as [X1 X2].
      rewrite (C9 x X1) in X2. apply (okbase_notin H o (fst cl) Hb C6 X2).
  Qed.

  (** *** acquire() of the refinable policy *)
  Lemma mod_lt_pos h sz : 0 < sz -> h mod sz < sz.
  Proof. intros. apply Nat.mod_upper_bound. lia. Qed.

  Lemma safe_rf_acquire t h0 h1 H o (Q : cells -> wview -> Prop) :
    okbase H o ->
    (forall cl v', incs v' cl H o -> Q cl v') ->
    forall fuel v, rest v H o -> safe t (rf_acquire fuel (S t) h0 h1) v (optQ Q).
  Proof.
    intros Hb HQ fuel. induction fuel as [|f IH]; intros v Hr; cbn [rf_acquire]; [exact I|].
    pose proof Hr as (R1 & R2 & R3 & R4 & R5 & R6).
    apply safe_bindo. refine (proj1 (safe_acc_lock t _ v R6 _ (S f))).
    intros gs [Gpos Gfr]. destruct gs as [gen sz]. cbn [fst snd] in *.
    set (v1 := wset_gs v (gen, sz) true).
    apply safe_pcap_ld_acc; [reflexivity|]. intros vc Hvc. cbn [v1 wset_gs w_gs snd] in Hvc.
    apply safe_access_st; [reflexivity|]. cbn [wset_gs w_gs w_held w_mic w_own w_anc w_chk w_mask v1].
    set (v2 := mkW (w_held v) (w_mic v) (w_own v) (w_anc v) (w_chk v) (gen, sz) false (w_mask v)).
    assert (Hr2 : rest v2 H o) by (repeat split; auto).
    apply safe_wait_owner.
    apply safe_silent; [intros g; apply quiet_refl|]. intros g a tr _ _. cbn [a_pcap_ld fst snd vn].
    destruct (Nat.eqb (vn vc) (pcap g)); [|apply IH; exact Hr2].
    set (l0 := (gen, 0, h0 mod sz)). set (l1 := (gen, 1, h1 mod sz)).
    assert (Hok0 : lk_ok v2 l0) by (exists 0, (h0 mod sz); repeat split; auto; apply mod_lt_pos; auto).
    apply safe_bindo. apply safe_r_lock; [apply nopost_quiet|exact Hok0|exact R2|].
    set (v3 := wlock v2 (l0 :: w_held v2) MNone).
    assert (Hok1 : lk_ok v3 l1) by (exists 1, (h1 mod sz); repeat split; auto; apply mod_lt_pos; auto).
    apply safe_bindo. apply safe_r_lock; [apply nopost_quiet|exact Hok1|reflexivity|].
    set (v4 := wlock v3 (l1 :: w_held v3) MNone).
    assert (Hh4 : w_held v4 = l1 :: l0 :: H) by (cbn; now rewrite R1).
    assert (Hne : l0 <> l1) by (unfold l0, l1; congruence).
    assert (Hf0 : fresh o l0) by (intros g0 s n b E; cbn; apply (Gfr g0 s n b); congruence).
    assert (Hf1 : fresh o l1) by (intros g0 s n b E; cbn; apply (Gfr g0 s n b); congruence).
    (* leaving without the cells: try again *)
    assert (Hretry : forall vv, w_held vv = l1 :: l0 :: H -> w_mic vv = MNone -> w_own vv = o -> w_anc vv = None -> w_chk vv = None -> w_acc vv = false ->
              safe t (thenu (unlock2 (l0, l1)) (rf_acquire f (S t) h0 h1)) vv (optQ Q)).
    { intros vv B1 B2 B3 B4 B5 B6. apply (safe_cs_exit t (l0, l1) H o); [exact Hb| |intros v' Hr' _; apply IH; exact Hr'].
      repeat split; auto. rewrite B4. discriminate. }
    apply (safe_owner_check t gen (h0 mod sz)); [cbn [wlock w_held]; right; now left| |].
    - intros vo Evo. rewrite Evo.
      apply (safe_cap_check t gen (h0 mod sz) sz); [reflexivity|reflexivity| |].
      + intros vc3 E3. rewrite E3, Hvc, Nat.eqb_refl. apply safe_oret. apply HQ.
        repeat split; auto. cbn. intros x E. injection E as <-. reflexivity.
      + intros vc3 E3. rewrite Hvc. destruct (Nat.eqb_spec sz (vn vc3)) as [E|E]; [congruence|].
        apply Hretry; auto.
    - intros vo Evo. rewrite Evo. apply Hretry; auto.
  Qed.


  (** m_nCapacity.load() of scoped_cell_trylock: the thread notes the arrays it will lock in *)
  Lemma safe_pcap_ld_gs {R} t (k : V -> prog R) (Q : R -> wview -> Prop) v :
    (forall vc, gs_ok v (vm vc, vn vc) -> safe t (k vc) (wset_gs v (vm vc, vn vc) (w_acc v)) Q) ->
    safe t (Act a_pcap_ld k) v Q.
  Proof.
    intros Hk. cbn [Conc.safe]. intros g a tr Hi Hv. unfold rview in Hv. cbn [a_pcap_ld fst snd].
    destruct (r_acc Hi) as (B1 & B2 & B3). destruct (r_cap Hi) as (Cp & _).
    eexists. split; [apply (CoreR_gs g g a t (cur g, pcap g) (w_acc (a t)) Hi);
                       [repeat split|reflexivity|reflexivity|reflexivity|reflexivity|reflexivity|reflexivity|cbn; lia|cbn; now rewrite Cp| | |]|].
    - intros E. destruct (B1 t E) as [X Y]. split; auto. split; auto. intros t0 Hne.
      destruct (w_acc (a t0)) eqn:E0; auto. exfalso. apply Hne. now apply B2.
    - intros E. split; [now apply B3|]. intros t0 _. now apply B3.
    - intros t0 _ E. apply (B1 t0 E).
    - split; [apply rframe_setv|]. unfold rview. rewrite rsetv_same, Hv. apply (Hk (mkV (pcap g) (cur g) 0 [])). cbn [vm vn].
      rewrite Cp, <- Hv. eapply gs_ok_cur; eauto.
  Qed.

  Lemma safe_cell_trylock t h0 h1 post (Q : option cells -> wview -> Prop) v :
    post_quiet post -> w_mic v = MNone ->
    (forall gs, gs_ok v gs -> Q None (wset_gs v gs (w_acc v))) ->
    (forall gs, gs_ok v gs ->
       let l0 := (fst gs, 0, h0 mod snd gs) in let l1 := (fst gs, 1, h1 mod snd gs) in
       Q (Some (l0, l1)) (wlock (wlock (wset_gs v gs (w_acc v)) (l0 :: w_held v) MNone) (l1 :: l0 :: w_held v) MNone)) ->
    safe t (cell_trylock (c_pol cf) (c_fuel cf) L (S t) h0 h1 post) v (optQ Q).
  Proof.
    intros Hp Hm HN HS. rewrite Hpol. cbn [cell_trylock]. apply safe_pcap_ld_gs. intros vc Hgs.
    pose proof Hgs as [Gpos _]. cbn [fst snd] in Gpos.
    apply Conc.safe_bind. apply safe_r_try_lock.
    - exists 0, (h0 mod vn vc). repeat split; auto. apply mod_lt_pos; auto.
    - exact Hm.
    - apply safe_bindo. apply safe_r_lock; [exact Hp| |reflexivity|].
      + exists 1, (h1 mod vn vc). repeat split; auto. apply mod_lt_pos; auto.
      + apply safe_oret. apply (HS (vm vc, vn vc) Hgs).
    - apply safe_oret. apply (HN (vm vc, vn vc) Hgs).
  Qed.

  (** *** relocate *)
  Lemma incs_gs v cl H o gs : incs v cl H o -> incs (wset_gs v gs (w_acc v)) cl H o.
  Proof. intros (C1 & C2 & C3 & C4 & C5 & C6 & C7 & C8 & C9). repeat split; auto. Qed.

  Lemma safe_reloc_attempt t tb goal H o : okbase H o ->
    forall v, rest v H o -> safe t (reloc_attempt cf (S t) tb goal) v (optQ (fun _ v' => rest v' H o)).
  Proof.
    intros Hb v Hr. unfold reloc_attempt. rewrite Hpol. cbn [cell_lock]. apply safe_bindo.
    apply (safe_rf_acquire t (fst goal) (snd goal) H o); [exact Hb| |exact Hr].
    intros cl v1 Hin.
    assert (Hexit : forall r vv, incs vv cl H o -> safe t (thenu (unlock2 cl) (oret r)) vv (optQ (fun (_ : nat * (nat * (nat * nat))) v' => rest v' H o))).
    { intros r vv Hvv. apply (safe_cs_exit t cl H o); [exact Hb|exact Hvv|]. intros v' Hr' _. apply safe_oret. exact Hr'. }
    apply safe_silent; [intros g; apply look_quiet|]. intros g a tr _ _.
    destruct (Nat.eqb (vn (snd (fst (a_reloc_look tb (hsel goal tb) (c_th cf) g)))) 1); [apply Hexit; exact Hin|].
    destruct (vl (snd (fst (a_reloc_look tb (hsel goal tb) (c_th cf) g)))) as [|x rest0]; [apply Hexit; exact Hin|].
    pose proof Hin as (C1 & C2 & C3 & C4 & C5 & C6 & C7 & C8 & C9).
    apply safe_bindo. rewrite <- Hpol. apply safe_cell_trylock; [apply rm_first_quiet|exact C2| |].
    - intros gs _. apply Hexit. now apply incs_gs.
    - intros gs [Gpos Gfr] l0 l1.
      set (v5 := wlock (wlock (wset_gs v1 gs (w_acc v1)) (l0 :: w_held v1) MNone) (l1 :: l0 :: w_held v1) MNone).
      assert (Hf0 : fresh o l0) by (intros g0 s n b E; cbn; apply (Gfr g0 s n b); congruence).
      assert (Hf1 : fresh o l1) by (intros g0 s n b E; cbn; apply (Gfr g0 s n b); congruence).
      assert (Hexit2 : forall r, safe t (thenu (unlock2 (l0, l1)) (thenu (unlock2 cl) (oret r))) v5 (optQ (fun (_ : nat * (nat * (nat * nat))) v' => rest v' H o))).
      { intros r. apply (safe_pair_exit t (l0, l1) (w_held v1)); [reflexivity|reflexivity|unfold l0, l1; cbn; congruence| | | |].
        - eapply okbase_keeps; [exact Hb|exact C3|]. intros l Hl. cbn [v5 wlock w_held]. right. right. rewrite C1. right. now right.
        - eapply okbase_nl; [exact Hb|exact C3|exact Hf0].
        - eapply okbase_nl; [exact Hb|exact C3|exact Hf1].
        - intros v' B1 B2 B3 B4 B5 B6 B7 B8. apply Hexit.
          split; [rewrite B1; exact C1|]. split; [exact B2|]. split; [rewrite B3; exact C3|]. split; [apply B7; exact C4|].
          split; [rewrite B4; exact C5|]. split; [exact C6|]. split; [exact C7|]. split; [exact C8|].
          intros y E. destruct (B8 y E) as [X _]. apply C9. exact X. }
      apply safe_silent; [intros g1; apply place_quiet|]. intros g1 a1 tr1 _ _.
      destruct (Nat.eqb (vn (snd (fst (a_place (c_ord cf) (other tb) (hsel (hashes cf (key_of x)) (other tb)) x (c_th cf) g1)))) 1); [apply Hexit2|].
      apply safe_silent; [intros g2; apply partial_quiet|]. intros g2 a2 tr2 _ _.
      destruct (Nat.eqb _ 1); apply Hexit2.
  Qed.

  Lemma safe_reloc_round t tb goal H o : okbase H o ->
    forall fuel v, rest v H o -> safe t (reloc_round cf fuel (S t) tb goal) v (optQ (fun _ v' => rest v' H o)).
  Proof.
    intros Hb fuel. induction fuel as [|f IH]; intros v Hr; cbn [reloc_round]; [exact I|].
    apply safe_bindo. eapply Conc.safe_weaken; [|eapply safe_reloc_attempt; eauto].
    intros [r|] v' Hq; cbn [optQ] in *; auto.
    destruct (Nat.eqb (fst r) 3); [apply IH; exact Hq|apply safe_oret; exact Hq].
  Qed.

  Lemma safe_relocate t H o : okbase H o ->
    forall rounds tb goal v, rest v H o -> safe t (relocate cf rounds (S t) tb goal) v (optQ (fun _ v' => rest v' H o)).
  Proof.
    intros Hb rounds. induction rounds as [|n IH]; intros tb goal v Hr; cbn [relocate].
    - apply safe_oret. exact Hr.
    - apply safe_bindo. eapply Conc.safe_weaken; [|eapply safe_reloc_round; eauto].
      intros [r|] v' Hq; cbn [optQ] in *; auto.
      destruct (fst r) as [|[|n0]]; [apply safe_oret; exact Hq|apply IH; exact Hq|apply safe_oret; exact Hq].
  Qed.


  (** *** resize *)
  Lemma safe_emit {R} t es (k : prog R) (Q : R -> wview -> Prop) v : safe t k v Q -> safe t (Emit es k) v Q.
  Proof.
    intros Hk. cbn [Conc.safe]. intros g a tr Hi Hv. exists a. split; [exact Hi|]. split; [apply rframe_refl|]. unfold rview in *. now rewrite Hv.
  Qed.

  Ltac step_place := apply safe_silent; [intros ?g; apply place_quiet|]; intros ?g ?a ?tr _ _; destruct (Nat.eqb _ 1).

  Lemma safe_reinsert t x H o : okbase H o ->
    forall v, rest v H o -> safe t (reinsert cf (S t) x) v (optQ (fun _ v' => rest v' H o)).
  Proof.
    intros Hb v Hr. unfold reinsert.
    assert (Hrel : forall tb goal, safe t (bindo (relocate cf relocate_limit (S t) tb goal) (fun _ => oret tt)) v (optQ (fun _ v' => rest v' H o))).
    { intros tb goal. apply safe_bindo. eapply Conc.safe_weaken; [|eapply safe_relocate; eauto].
      intros [r|] v' Hq; cbn [optQ] in *; [apply safe_oret; exact Hq|exact I]. }
    assert (Hdone : safe t (oret tt) v (optQ (fun _ v' => rest v' H o))) by (apply safe_oret; exact Hr).
    cbv zeta.
    apply safe_silent; [intros g; apply probe_quiet|]. intros g a tr _ _.
    destruct (Nat.eqb _ 1).
    - step_place; [exact Hdone|]. step_place; [exact Hdone|]. step_place; [apply Hrel|]. step_place; [apply Hrel|].
      apply safe_emit. exact Hdone.
    - apply safe_silent; [intros g1; apply probe_quiet|]. intros g1 a1 tr1 _ _.
      step_place; [exact Hdone|]. step_place; [exact Hdone|]. step_place; [apply Hrel|]. step_place; [apply Hrel|].
      apply safe_emit. exact Hdone.
  Qed.

  Lemma safe_reinsert_all t H o : okbase H o ->
    forall xs v, rest v H o -> safe t (reinsert_all cf (S t) xs) v (optQ (fun _ v' => rest v' H o)).
  Proof.
    intros Hb xs. induction xs as [|x r IH]; intros v Hr; cbn [reinsert_all]; [apply safe_oret; exact Hr|].
    apply safe_bindo. eapply Conc.safe_weaken; [|eapply safe_reinsert; eauto].
    intros [u|] v' Hq; cbn [optQ] in *; auto.
  Qed.

  (** lock_all / unlock_all on the cells of table 0 of generation g0 *)
  Definition indg (g0 sz i : nat) (l : lk) : nat :=
    match l with (gg, 0, j) => if (Nat.eqb gg g0 && Nat.leb i j && Nat.ltb j sz)%bool then 1 else 0 | _ => 0 end.

  Lemma indg_here g0 sz i : i < sz -> indg g0 sz i (g0, 0, i) = 1.
  Proof. intros H. unfold indg. rewrite Nat.eqb_refl. destruct (Nat.leb_spec i i); destruct (Nat.ltb_spec i sz); cbn; lia. Qed.
  Lemma indg_step g0 sz i l : l <> (g0, 0, i) -> indg g0 sz i l = indg g0 sz (S i) l.
  Proof.
    intros Hne. destruct l as [[gg tb] j]. unfold indg. destruct tb; auto. destruct (Nat.eqb_spec gg g0) as [->|E]; cbn [andb]; auto.
    assert (j <> i) by congruence.
    destruct (Nat.leb_spec i j); destruct (Nat.leb_spec (S i) j); destruct (Nat.ltb_spec j sz); cbn; lia.
  Qed.
  Lemma indg_end g0 sz l : indg g0 sz sz l = 0.
  Proof.
    destruct l as [[gg tb] j]. unfold indg. destruct tb; auto. destruct (Nat.eqb gg g0); cbn [andb]; auto.
    destruct (Nat.leb_spec sz j); destruct (Nat.ltb_spec j sz); cbn; lia.
  Qed.

  Lemma indg_past g0 sz i : indg g0 sz (S i) (g0, 0, i) = 0.
  Proof. unfold indg. rewrite Nat.eqb_refl. destruct (Nat.leb_spec (S i) i); cbn; auto. lia. Qed.

  Lemma safe_lock_all t fuel g0 sz (Q : wview -> Prop) : forall n i v, i + n = sz -> w_mic v = MNone -> w_gs v = (g0, sz) ->
    (forall H', (forall l, cnt H' l = cnt (w_held v) l + indg g0 sz i l) -> Q (wlock v H' MNone)) ->
    safe t (lock_all fuel (S t) g0 n i) v (optQ (fun _ => Q)).
  Proof.
    induction n as [|n IH]; intros i v Hn Hm Hg HQ; cbn [lock_all].
    - apply safe_oret. assert (E : v = wlock v (w_held v) MNone) by (destruct v; cbn in *; now rewrite Hm). rewrite E. apply HQ.
      intros l. assert (i = sz) by lia. subst i. rewrite indg_end. cbn. lia.
    - apply safe_bindo. apply safe_r_lock; [apply nopost_quiet| |exact Hm|].
      { exists 0, i. rewrite Hg. cbn. repeat split; auto; lia. }
      apply IH; [lia|reflexivity|exact Hg|].
      intros H' HH'. cbn [wlock w_held w_own w_anc w_chk w_gs w_acc w_mask] in *. apply HQ.
      intros l. rewrite HH'. destruct (lk_dec l (g0, 0, i)) as [->|Hne].
      + rewrite cnt_cons_same, indg_here, indg_past by lia. lia.
      + rewrite cnt_cons_other by auto. rewrite (indg_step g0 sz i l Hne). lia.
  Qed.

  Lemma cnt_zero_nil (H : list lk) : (forall l, cnt H l = 0) -> H = [].
  Proof. intros E. destruct H as [|l H]; auto. specialize (E l). rewrite cnt_cons_same in E. lia. Qed.

  Lemma safe_unlock_all t g0 sz (Q : wview -> Prop) : forall n i v, i + n = sz -> w_mic v = MNone -> w_own v = ONone ->
    w_anc v = None -> w_chk v = None -> w_acc v = false ->
    (forall l, cnt (w_held v) l = indg g0 sz i l) ->
    (forall v', rest v' [] ONone -> Q v') ->
    safe t (unlock_all g0 n i) v (fun _ => Q).
  Proof.
    induction n as [|n IH]; intros i v Hn Hm Ho Ha Hk Hacc Hc HQ; cbn [unlock_all].
    - apply safe_ret. assert (Hnil : w_held v = []).
      { apply cnt_zero_nil. intros l. rewrite Hc. assert (i = sz) by lia. subst i. apply indg_end. }
      apply HQ. repeat split; auto.
    - assert (Hci : cnt (w_held v) (g0, 0, i) = 1) by (rewrite Hc; apply indg_here; lia).
      apply safe_thenu. apply safe_r_unlock; auto.
      + apply in_cnt. lia.
      + intros _. split; intros g1 s1 x; rewrite Ho; discriminate.
      + apply IH; cbn [wrel w_held w_mic w_own w_acc w_anc w_chk]; auto; [lia|now rewrite Ha|now rewrite Hk|].
        intros l. destruct (lk_dec l (g0, 0, i)) as [->|Hne].
        * rewrite cnt_rem1_same, Hci, indg_past. reflexivity.
        * rewrite cnt_rem1_other, Hc by auto. apply indg_step. exact Hne.
  Qed.


  (** acquire_resize(): owner word, capacity re-check, then every cell of table 0 *)
  Definition resizing (w : wview) (g0 sz j : nat) : Prop :=
    w_own w = OLk g0 sz j /\ w_gs w = (g0, sz) /\ w_mic w = MNone /\ w_anc w = None /\ w_chk w = None /\ w_acc w = false /\
    0 < sz /\ forall l, cnt (w_held w) l = indg g0 sz 0 l.

  Lemma others_none g a t : CoreR g a -> w_own (a t) <> ONone -> forall t0, t0 <> t -> w_own (a t0) = ONone.
  Proof.
    intros Hc Ho t0 Hne. destruct (w_own (a t0)) eqn:E; auto; exfalso; apply Hne; eapply (own_unique g a); eauto; rewrite E; discriminate.
  Qed.

  Lemma safe_rf_acquire_resize t (Q : nat * nat -> wview -> Prop) :
    (forall gs v', resizing v' (fst gs) (snd gs) 0 -> Q gs v') ->
    forall fuel v, rest v [] ONone -> safe t (rf_acquire_resize fuel (S t)) v (optQ Q).
  Proof.
    intros HQ fuel. induction fuel as [|f IH]; intros v Hr; cbn [rf_acquire_resize]; [exact I|].
    pose proof Hr as (R1 & R2 & R3 & R4 & R5 & R6).
    apply safe_bindo. refine (proj1 (safe_acc_lock t _ v R6 _ (S f))).
    intros gs [Gpos Gfr]. destruct gs as [gen sz]. cbn [fst snd] in *.
    apply safe_pcap_ld_acc; [reflexivity|]. intros vc Hvc. cbn [wset_gs w_gs snd] in Hvc.
    apply safe_access_st; [reflexivity|]. cbn [wset_gs w_gs w_held w_mic w_own w_anc w_chk w_mask].
    set (v2 := mkW (w_held v) (w_mic v) (w_own v) (w_anc v) (w_chk v) (gen, sz) false (w_mask v)).
    assert (Hr2 : rest v2 [] ONone) by (repeat split; auto).
    (* the compare-exchange on the owner word *)
    cbn [Conc.safe]. intros g a tr Hi Hv. unfold rview in Hv. unfold a_owner_cas.
    destruct (Nat.eqb_spec (owner g) 0) as [E0|E0]; cbn [fst snd vn vnat Nat.eqb].
    2:{ exists a. split; [exact Hi|]. split; [apply rframe_refl|]. unfold rview. rewrite Hv. apply IH. exact Hr2. }
    eexists. split; [apply (CoreR_own g (set_owner g (2 * S t + 1)) a t OCas (w_mask (a t)) Hi);
                       [repeat split|reflexivity|reflexivity|reflexivity|reflexivity|reflexivity|reflexivity| | | | | | | |]|].
    { intros t0 _. apply (r_own0 Hi E0). }
    { intros _. reflexivity. }
    { discriminate. }
    { discriminate. }
    { discriminate. }
    { intros []. }
    { intros g0 s n b E. rewrite Hv in E. cbn in E. rewrite R3 in E. discriminate. }
    { intros []. }
    split; [apply rframe_setv|]. unfold rview. rewrite rsetv_same, Hv.
    set (v3 := wset_own v2 OCas (w_mask v2)).
    (* the capacity re-check *)
    clear g a tr Hi Hv E0. cbn [Conc.safe]. intros g a tr Hi Hv. unfold rview in Hv. cbn [a_pcap_ld fst snd vn].
    assert (Hown : w_own (a t) = OCas) by now rewrite Hv.
    assert (Hoth : forall t0, t0 <> t -> w_own (a t0) = ONone) by (apply (others_none g a t Hi); rewrite Hown; discriminate).
    assert (Hog : owner g = 2 * S t + 1) by (apply (r_own1 Hi t); rewrite Hown; discriminate).
    destruct (r_gs Hi t) as [G1 G2]. rewrite Hv in G1, G2. cbn in G1, G2.
    rewrite Hvc. destruct (Nat.eqb_spec sz (pcap g)) as [Ec|Ec].
    - assert (Eg : gen = cur g) by (eapply cap_gen; eauto; lia).
      eexists. split; [apply (CoreR_own g g a t (OLk gen sz 0) (w_mask (a t)) Hi);
                         [repeat split|reflexivity|reflexivity|reflexivity|reflexivity|reflexivity|reflexivity|exact Hoth| | | | | | |]|].
      { intros _. exact Hog. }
      { discriminate. }
      { intros g0 s j E. injection E as <- <- <-. split; [lia|]. split; [auto|]. split; [exact Eg|]. intros i Hi0. lia. }
      { discriminate. }
      { cbn. intros E. lia. }
      { intros g0 s n b E. rewrite Hown in E. discriminate. }
      { cbn. intros E. lia. }
      split; [apply rframe_setv|]. unfold rview. rewrite rsetv_same, Hv.
      apply safe_bindo. apply (safe_lock_all t _ gen sz); [lia|cbn; exact R2|reflexivity|].
      intros H' HH'. apply safe_oret. apply HQ. cbn [fst snd]. repeat split; auto.
      intros l. rewrite HH'. cbn. rewrite R1. reflexivity.
    - exists a. split; [exact Hi|]. split; [apply rframe_refl|]. unfold rview. rewrite Hv.
      (* the arrays were replaced: give the owner word back and start again *)
      clear g a tr Hi Hv Hown Hoth Hog G1 G2 Ec. cbn [Conc.safe]. intros g a tr Hi Hv. unfold rview in Hv. cbn [a_owner_st0 fst snd].
      assert (Hown : w_own (a t) = OCas) by now rewrite Hv.
      assert (Hoth : forall t0, t0 <> t -> w_own (a t0) = ONone) by (apply (others_none g a t Hi); rewrite Hown; discriminate).
      eexists. split; [apply (CoreR_own g (set_owner g 0) a t ONone (w_mask (a t)) Hi);
                         [repeat split|reflexivity|reflexivity|reflexivity|reflexivity|reflexivity|reflexivity|exact Hoth| | | | | | |]|].
      { congruence. }
      { reflexivity. }
      { discriminate. }
      { discriminate. }
      { intros []. }
      { intros g0 s n b E. rewrite Hown in E. discriminate. }
      { intros []. }
      split; [apply rframe_setv|]. unfold rview. rewrite rsetv_same, Hv. apply IH. repeat split; auto.
  Qed.


  Lemma indg_pos g0 sz i l : 0 < indg g0 sz i l -> exists j, l = (g0, 0, j) /\ j < sz.
  Proof.
    destruct l as [[gg tb] j]. unfold indg. destruct tb; [|lia]. destruct (Nat.eqb_spec gg g0) as [->|E]; cbn [andb]; [|lia].
    destruct (Nat.leb i j); cbn [andb]; [|lia]. destruct (Nat.ltb_spec j sz); [|lia]. intros _. exists j. auto.
  Qed.
  Lemma indg0_here g0 sz i : i < sz -> indg g0 sz 0 (g0, 0, i) = 1.
  Proof. intros H. unfold indg. rewrite Nat.eqb_refl. cbn [andb Nat.leb]. destruct (Nat.ltb_spec i sz); [reflexivity|lia]. Qed.

  (** release_resize(): the owner word first, then the cells *)
  Lemma safe_resize_unlock t g0 sz v :
    (w_own v = OLk g0 sz sz \/ exists n, w_own v = OIn g0 sz n true) ->
    w_mic v = MNone -> w_anc v = None -> w_chk v = None -> w_acc v = false ->
    (forall l, cnt (w_held v) l = indg g0 sz 0 l) ->
    safe t (thenu (resize_unlock Refinable (g0, sz)) (oret tt)) v (optQ (fun _ v' => rest v' [] ONone)).
  Proof.
    intros Ho Hm Ha Hk Hacc Hc. apply safe_thenu. cbn [resize_unlock fst snd].
    cbn [Conc.safe]. intros g a tr Hi Hv. unfold rview in Hv. cbn [a_owner_st0 fst snd].
    assert (Hne : w_own (a t) <> ONone) by (rewrite Hv; destruct Ho as [->|(n & ->)]; discriminate).
    eexists. split; [apply (CoreR_own g (set_owner g 0) a t ONone (w_mask (a t)) Hi);
                       [repeat split|reflexivity|reflexivity|reflexivity|reflexivity|reflexivity|reflexivity|apply (others_none g a t Hi Hne)| | | | | | |]|].
    { congruence. }
    { reflexivity. }
    { discriminate. }
    { discriminate. }
    { intros []. }
    { intros g1 s n b E. rewrite Hv in E. destruct Ho as [Ho|(n' & Ho)]; rewrite Ho in E; [discriminate|]. now injection E as _ _ _ <-. }
    { intros []. }
    split; [apply rframe_setv|]. unfold rview. rewrite rsetv_same, Hv.
    apply (safe_unlock_all t g0 sz _ sz 0); auto.
  Qed.

  Lemma safe_install {R} t g0 sz n (k : V -> prog R) (Q : R -> wview -> Prop) v :
    w_own v = OLk g0 sz sz -> w_acc v = true -> w_anc v = None -> w_chk v = None -> n = 2 * S (w_mask v) ->
    (forall gen', safe t (k (vnat 0)) (mkW (w_held v) (w_mic v) (OIn g0 sz n false) None None (gen', n) true (w_mask v)) Q) ->
    safe t (Act (a_pcap_st_install n) k) v Q.
  Proof.
    intros Ho Ha Hn Hk Hnn HK. cbn [Conc.safe]. intros g a tr Hi Hv. unfold rview in Hv. cbn [a_pcap_st_install fst snd].
    eexists. split; [apply (CoreR_install g a t g0 sz n Hi); rewrite Hv; auto|].
    split; [apply rframe_setv|]. unfold rview. rewrite rsetv_same, Hv. apply HK.
  Qed.

  Lemma safe_alloc {R} t g0 sz n (k : V -> prog R) (Q : R -> wview -> Prop) v :
    w_own v = OIn g0 sz n false ->
    (forall xs, safe t (k (mkV 0 0 0 xs)) (wset_own v (OIn g0 sz n true) (n - 1)) Q) ->
    safe t (Act (a_mask_st_alloc n) k) v Q.
  Proof.
    intros Ho HK. cbn [Conc.safe]. intros g a tr Hi Hv. unfold rview in Hv. unfold a_mask_st_alloc. cbn [fst snd].
    eexists. split; [apply (CoreR_alloc g a t g0 sz n _ Hi); rewrite Hv; exact Ho|].
    split; [apply rframe_setv|]. unfold rview. rewrite rsetv_same, Hv. apply HK.
  Qed.

  Lemma safe_resize t v : rest v [] ONone -> safe t (resize cf (S t)) v (optQ (fun _ v' => rest v' [] ONone)).
  Proof.
    intros Hr. unfold resize. apply safe_silent; [intros g; apply quiet_refl|]. intros g00 a00 tr00 _ _. cbn [a_mask_ld fst snd vn vnat].
    generalize (S (mask g00)) as nold. clear g00 a00 tr00. intros nold.
    apply safe_bindo. rewrite Hpol. cbn [resize_lock policy_resize].
    apply safe_rf_acquire_resize; [|exact Hr]. intros [g0 sz] v1 Hz. cbn [fst snd] in Hz. destruct Hz as (Z1 & Z2 & Z3 & Z4 & Z5 & Z6 & Z7 & Z8).
    (* the second load of the bucket mask: every cell is locked, the thread is the exclusive owner *)
    cbn [Conc.safe]. intros g a tr Hi Hv. unfold rview in Hv. cbn [a_mask_ld fst snd vn vnat].
    assert (Hown : w_own (a t) = OLk g0 sz 0) by now rewrite Hv.
    destruct (r_scan Hi t g0 sz 0 Hown) as (_ & S2 & S3 & _).
    assert (Hlocks : forall i, i < sz -> In (g0, 0, i) (w_held (a t))).
    { intros i Hi0. rewrite Hv. apply in_cnt. rewrite Z8, indg0_here by exact Hi0. lia. }
    assert (Hconf : forall t0 gen i, t0 <> t -> In (gen, 0, i) (w_held (a t0)) -> gen <> cur g).
    { intros t0 gen i Hne Hin Eg. destruct (r_range Hi _ _ _ _ Hin) as (_ & _ & B3). apply Hne.
      eapply (r_excl Hi); [exact Hin|]. rewrite Eg, <- S3. apply Hlocks. rewrite Eg, <- S3, <- S2 in B3. exact B3. }
    eexists. split; [apply (CoreR_own g g a t (OLk g0 sz sz) (mask g) Hi);
                       [repeat split|reflexivity|reflexivity|reflexivity|reflexivity|reflexivity|reflexivity| | | | | | | |]|].
    { apply (others_none g a t Hi). rewrite Hown. discriminate. }
    { intros _. apply (r_own1 Hi t). rewrite Hown. discriminate. }
    { discriminate. }
    { intros g1 s j E. injection E as <- <- <-. split; [lia|]. split; [exact S2|]. split; [exact S3|]. exact Hlocks. }
    { discriminate. }
    { intros _ t0 Hne. split.
      - destruct (w_anc (a t0)) as [[gen i]|] eqn:E; auto. exfalso. destruct (r_anc Hi t0 gen i E) as (B1 & B2 & _).
        eapply Hconf; eauto.
      - intros gen i E. destruct (r_chk Hi t0 gen i E) as (B1 & _). eapply Hconf; eauto. }
    { intros g1 s n b E. rewrite Hown in E. discriminate. }
    { reflexivity. }
    split; [apply rframe_setv|]. unfold rview. rewrite rsetv_same, Hv.
    set (v2 := wset_own v1 (OLk g0 sz sz) (mask g)).
    assert (Hunl : forall vv, (w_own vv = OLk g0 sz sz \/ exists n, w_own vv = OIn g0 sz n true) -> w_held vv = w_held v1 -> w_mic vv = MNone ->
              w_anc vv = None -> w_chk vv = None -> w_acc vv = false ->
              safe t (thenu (resize_unlock Refinable (g0, sz)) (oret tt)) vv (optQ (fun _ v' => rest v' [] ONone))).
    { intros vv B1 B2 B3 B4 B5 B6. apply safe_resize_unlock; auto. intros l. rewrite B2. apply Z8. }
    destruct (Nat.eqb_spec (S (mask g)) nold) as [En|En]; [|apply Hunl; auto].
    subst nold. set (m := mask g) in *. clearbody m. set (n := 2 * S m).
    (* resize of the policy: new lock arrays, under m_access *)
    apply safe_bindo. apply safe_bindo. refine (proj1 (safe_acc_lock t _ v2 Z6 _ (c_fuel cf))). intros gs _.
    apply (safe_install t g0 sz n); [reflexivity|reflexivity|exact Z4|exact Z5|reflexivity|]. intros gen'.
    cbn [wset_gs wset_own w_held w_mic w_own w_anc w_chk w_gs w_acc w_mask v2].
    apply safe_access_st; [reflexivity|]. cbn [wset_gs w_held w_mic w_own w_anc w_chk w_gs w_acc w_mask].
    cbv beta. apply safe_oret. cbv beta.
    (* the new tables *)
    apply (safe_alloc t g0 sz n); [reflexivity|]. intros xs. cbn [wset_own w_held w_mic w_own w_anc w_chk w_gs w_acc w_mask vl].
    apply safe_bindo.
    eapply Conc.safe_weaken; [|apply (safe_reinsert_all t (w_held v1) (OIn g0 sz n true))].
    - intros [u|] v' Hq; cbn [optQ] in *; auto. destruct Hq as (Q1 & Q2 & Q3 & Q4 & Q5 & Q6).
      apply Hunl; auto. right. eexists; eauto.
    - right. exists g0, sz, n, true. split; [reflexivity|]. split.
      + intros l Hl. apply in_cnt in Hl. rewrite Z8 in Hl. destruct (indg_pos _ _ _ _ Hl) as (j & -> & _). eauto.
      + intros i Hi0. apply in_cnt. rewrite Z8, indg0_here by exact Hi0. lia.
    - repeat split; auto.
  Qed.


  (** *** client operations *)
  Definition idle (v : wview) : Prop := rest v [] ONone.
  Lemma ok_idle : okbase [] ONone.
  Proof. left. auto. Qed.

  Ltac qstep := apply safe_silent;
    [intros ?g; first [apply place_quiet|apply probe_quiet|apply remove_quiet|apply quiet_count|apply look_quiet|apply partial_quiet|apply quiet_refl]|];
    intros ?g ?a ?tr _ _.

  Lemma safe_do_insert t upd x : forall fuel v, idle v ->
    safe t (do_insert cf fuel (S t) upd x) v (optQ (fun _ v' => idle v')).
  Proof.
    induction fuel as [|f IH]; intros v Hr; cbn [do_insert]; [exact I|].
    apply safe_bindo. rewrite Hpol. cbn [cell_lock].
    apply (safe_rf_acquire t _ _ [] ONone); [apply ok_idle| |exact Hr].
    intros cl v1 Hin.
    assert (Hexit : forall (r : nat * nat), safe t (thenu (unlock2 cl) (oret r)) v1 (optQ (fun _ v' => idle v'))).
    { intros r. apply (safe_cs_exit t cl [] ONone); [apply ok_idle|exact Hin|]. intros v' Hr' _. apply safe_oret. exact Hr'. }
    assert (Hdone : forall (r : nat * nat), safe t (Act a_count_faa (fun _ => thenu (unlock2 cl) (oret r))) v1 (optQ (fun _ v' => idle v'))).
    { intros r. qstep. apply Hexit. }
    assert (Hreloc : forall (r : nat * nat) tb goal,
              safe t (Act a_count_faa (fun _ => thenu (unlock2 cl)
                 (bindo (relocate cf relocate_limit (S t) tb goal) (fun ok =>
                    if ok then oret r else bindo (resize cf (S t)) (fun _ => oret r))))) v1 (optQ (fun _ v' => idle v'))).
    { intros r tb goal. qstep. apply (safe_cs_exit t cl [] ONone); [apply ok_idle|exact Hin|]. intros v' Hr' _.
      apply safe_bindo. eapply Conc.safe_weaken; [|apply (safe_relocate t [] ONone ok_idle); exact Hr'].
      intros [ok|] v2 Hq; cbn [optQ] in *; [|exact I]. destruct ok; [apply safe_oret; exact Hq|].
      apply safe_bindo. eapply Conc.safe_weaken; [|apply safe_resize; exact Hq].
      intros [u|] v3 Hq3; cbn [optQ] in *; [apply safe_oret; exact Hq3|exact I]. }
    assert (Hagain : safe t (thenu (unlock2 cl) (bindo (resize cf (S t)) (fun _ => do_insert cf f (S t) upd x))) v1 (optQ (fun _ v' => idle v'))).
    { apply (safe_cs_exit t cl [] ONone); [apply ok_idle|exact Hin|]. intros v' Hr' _.
      apply safe_bindo. eapply Conc.safe_weaken; [|apply safe_resize; exact Hr'].
      intros [u|] v3 Hq3; cbn [optQ] in *; [apply IH; exact Hq3|exact I]. }
    assert (Hplaces : forall (r : nat * nat), safe t
      (Act (a_place (c_ord cf) 0 (fst (hashes cf (key_of x))) x (c_th cf)) (fun v0 =>
         if Nat.eqb (vn v0) 1 then Act a_count_faa (fun _ => thenu (unlock2 cl) (oret r)) else
         Act (a_place (c_ord cf) 1 (snd (hashes cf (key_of x))) x (c_th cf)) (fun v1 =>
           if Nat.eqb (vn v1) 1 then Act a_count_faa (fun _ => thenu (unlock2 cl) (oret r)) else
           Act (a_place (c_ord cf) 0 (fst (hashes cf (key_of x))) x (c_ps cf)) (fun w0 =>
             if Nat.eqb (vn w0) 1 then
               Act a_count_faa (fun _ => thenu (unlock2 cl)
                 (bindo (relocate cf relocate_limit (S t) 0 (hashes cf (match vl w0 with y :: _ => key_of y | [] => key_of x end))) (fun ok =>
                    if ok then oret r else bindo (resize cf (S t)) (fun _ => oret r))))
             else
             Act (a_place (c_ord cf) 1 (snd (hashes cf (key_of x))) x (c_ps cf)) (fun w1 =>
               if Nat.eqb (vn w1) 1 then
                 Act a_count_faa (fun _ => thenu (unlock2 cl)
                   (bindo (relocate cf relocate_limit (S t) 1 (hashes cf (match vl w1 with y :: _ => key_of y | [] => key_of x end))) (fun ok =>
                      if ok then oret r else bindo (resize cf (S t)) (fun _ => oret r))))
               else thenu (unlock2 cl) (bindo (resize cf (S t)) (fun _ => do_insert cf f (S t) upd x)))))))
      v1 (optQ (fun _ v' => idle v'))).
    { intros r. qstep. destruct (Nat.eqb _ 1); [apply Hdone|]. qstep. destruct (Nat.eqb _ 1); [apply Hdone|].
      qstep. destruct (Nat.eqb _ 1); [apply Hreloc|]. qstep. destruct (Nat.eqb _ 1); [apply Hreloc|]. exact Hagain. }
    unfold contains. qstep. destruct (Nat.eqb _ 1); [cbn [Nat.ltb Nat.leb]; apply Hexit|].
    qstep. destruct (Nat.eqb _ 1); [cbn [Nat.ltb Nat.leb]; apply Hexit|]. cbn [Nat.ltb Nat.leb].
    destruct upd as [[|]|]; [apply Hplaces|apply Hexit|apply Hplaces].
  Qed.

  Lemma safe_run_op t o v : idle v -> safe t (run_op cf t o) v (optQ (fun _ v' => idle v')).
  Proof.
    intros Hr. unfold run_op.
    set (c := nth 0 o 0). set (k := nth 1 o 0). set (x := nth 2 o 0). set (y := nth 3 o 0).
    destruct (op_of_code c y) as [co|]; [|apply safe_oret; exact Hr].
    apply safe_emit.
    assert (Hfin : forall (r : nat * nat) v', idle v' ->
              safe t (Emit [EvCli "ret"%string (zl [c; fst r; r2_of_code c k (fst r) (snd r)])] (oret tt)) v' (optQ (fun _ v'' => idle v''))).
    { intros r v' Hv'. apply safe_emit. apply safe_oret. exact Hv'. }
    assert (Hcs : forall (cont : cells -> nat -> nat -> prog (option (nat * nat))),
              (forall cl tb own v1, incs v1 cl [] ONone -> safe t (cont cl tb own) v1 (optQ (fun _ v' => idle v'))) ->
              safe t (bindo (cell_lock (c_pol cf) (c_fuel cf) L (S t) (fst (hashes cf k)) (snd (hashes cf k))) (fun cl =>
                        bindo (contains (hashes cf k) k (cont cl)) (fun r => Emit [EvCli "ret"%string (zl [c; fst r; r2_of_code c k (fst r) (snd r)])] (oret tt))))
                   v (optQ (fun _ v' => idle v'))).
    { intros cont Hcont. apply safe_bindo. rewrite Hpol. cbn [cell_lock].
      apply (safe_rf_acquire t _ _ [] ONone); [apply ok_idle| |exact Hr].
      intros cl v1 Hin. apply safe_bindo.
      assert (Hc' : forall tb own, safe t (cont cl tb own) v1 (optQ (fun r l' => safe t (Emit [EvCli "ret"%string (zl [c; fst r; r2_of_code c k (fst r) (snd r)])] (oret tt)) l' (optQ (fun _ v'' => idle v''))))).
      { intros tb own. eapply Conc.safe_weaken; [|apply Hcont; exact Hin]. intros [r|] v' Hq; cbn [optQ] in *; [apply Hfin; exact Hq|exact I]. }
      unfold contains. qstep. destruct (Nat.eqb _ 1); [apply Hc'|]. qstep. destruct (Nat.eqb _ 1); apply Hc'. }
    assert (Hexit : forall cl (r : nat * nat) v1, incs v1 cl [] ONone -> safe t (thenu (unlock2 cl) (oret r)) v1 (optQ (fun _ v' => idle v'))).
    { intros cl r v1 Hin. apply (safe_cs_exit t cl [] ONone); [apply ok_idle|exact Hin|]. intros v' Hr' _. apply safe_oret. exact Hr'. }
    destruct co as [|allow| | |].
    - apply safe_bindo. eapply Conc.safe_weaken; [|apply safe_do_insert; exact Hr].
      intros [r|] v' Hq; cbn [optQ] in *; [apply Hfin; exact Hq|exact I].
    - apply safe_bindo. eapply Conc.safe_weaken; [|apply safe_do_insert; exact Hr].
      intros [r|] v' Hq; cbn [optQ] in *; [apply Hfin; exact Hq|exact I].
    - apply (Hcs (fun cl tb own => if (Nat.ltb tb 2 && Nat.eqb own t)%bool
                 then Act (a_remove tb (hsel (hashes cf k) tb) k) (fun _ => Act a_count_fas (fun _ => thenu (unlock2 cl) (oret (1, 0))))
                 else thenu (unlock2 cl) (oret (0, 0)))).
      intros cl tb own v1 Hin. destruct (Nat.ltb tb 2 && Nat.eqb own t)%bool; [|apply Hexit; exact Hin].
      qstep. qstep. apply Hexit; exact Hin.
    - apply (Hcs (fun cl tb own => if (Nat.ltb tb 2 && true)%bool
                 then Act (a_remove tb (hsel (hashes cf k) tb) k) (fun _ => Act a_count_fas (fun _ => thenu (unlock2 cl) (oret (1, 0))))
                 else thenu (unlock2 cl) (oret (0, 0)))).
      intros cl tb own v1 Hin. destruct (Nat.ltb tb 2 && true)%bool; [|apply Hexit; exact Hin].
      qstep. qstep. apply Hexit; exact Hin.
    - apply (Hcs (fun cl tb _ => thenu (unlock2 cl) (oret (b2n (Nat.ltb tb 2), 0)))).
      intros cl tb own v1 Hin. apply Hexit; exact Hin.
  Qed.

  Lemma safe_run_ops t os : forall v, idle v -> safe t (run_ops cf t os) v (fun _ _ => True).
  Proof.
    induction os as [|o r IH]; intros v Hv; cbn [run_ops]; [exact I|].
    apply Conc.safe_bind. eapply Conc.safe_weaken; [|apply safe_run_op; auto].
    intros [u|] v' H; cbn [optQ] in H.
    - apply IH; auto.
    - apply safe_emit. exact I.
  Qed.

  Lemma safe_thread t os v : idle v -> safe t (thread_prog cf t os) v (@Conc.QTrue wview).
  Proof.
    intros Hv. unfold thread_prog. apply safe_silent; [intros g; apply quiet_refl|].
    intros g a tr _ _. eapply Conc.safe_weaken; [|apply safe_run_ops; auto]. intros; exact I.
  Qed.


  (** ** the initial configuration *)
  Definition ra0 : RAux := fun _ => mkW [] MNone ONone None None (0, L) false 0.

  Lemma nth_error_mapi {A B} (f : nat -> A -> B) : forall l i t, nth_error (mapi f i l) t = option_map (f (i + t)) (nth_error l t).
  Proof.
    induction l as [|x r IH]; intros i [|t]; cbn; auto.
    - now rewrite Nat.add_0_r.
    - rewrite IH. now rewrite Nat.add_succ_r.
  Qed.

  Lemma init_ok ths : Conc.cfg_ok rview InvR (init_cfg cf ths).
  Proof.
    exists ra0. split.
    - cbn [init_cfg Conc.shared Conc.trace]. unfold InvR. constructor; cbn [ra0 init w_held w_mic w_own w_anc w_chk w_gs w_acc w_mask rspin rown owner pcap access cur ngen gsize mask fst snd].
      + intros l H. exfalso. apply H. reflexivity.
      + intros t l [].
      + intros t t' l [].
      + intros l. now left.
      + intros t l [].
      + intros t l [E|E]; discriminate.
      + intros t gg tb i [].
      + intros t H. exfalso. apply H. reflexivity.
      + auto.
      + now left.
      + discriminate.
      + discriminate.
      + discriminate.
      + discriminate.
      + split; [reflexivity|]. split; [reflexivity|]. split; [intros g1 g2 H1 H2; lia|intros gg _; exact Hnl].
      + intros t. split; [lia|reflexivity].
      + split; [discriminate|]. split; [discriminate|auto].
      + left. lia.
      + intros t [].
    - intros t p Hp. cbn [init_cfg Conc.threads] in Hp. rewrite nth_error_mapi in Hp.
      destruct (nth_error ths t) as [os|]; inversion Hp; subst. cbn [Nat.add].
      apply safe_thread. repeat split.
  Qed.

  (** ** theorems *)

  (** the lock / ownership protocol of cuckoo::refinable<> holds at every reachable configuration *)
  Theorem cuckoo_refinable_protocol_thm ths (c : Conc.config G V ev) :
    Conc.reach (init_cfg cf ths) c -> exists a : RAux, CoreR (Conc.shared c) a.
  Proof. intros Hr. destruct (Conc.reach_Inv (init_ok ths) Hr) as (a & Hi). exists a. exact Hi. Qed.

  Theorem cuckoo_refinable_owner_excludes_thm ths (c : Conc.config G V ev) :
    Conc.reach (init_cfg cf ths) c ->
    exists a : RAux,
      let g := Conc.shared c in
      (forall l, rspin g l <> 0 <-> exists t, In l (w_held (a t))) /\
      (forall t t' l, In l (w_held (a t)) -> In l (w_held (a t')) -> t = t') /\
      (forall t, w_own (a t) <> ONone -> owner g = 2 * S t + 1) /\
      (owner g = 0 -> forall t, w_own (a t) = ONone) /\
      pcap g = gsize g (cur g) /\
      (forall t gen i, w_anc (a t) = Some (gen, i) ->
          In (gen, 0, i) (w_held (a t)) /\ gen = cur g /\ i < pcap g /\ forall R, R <> t -> ~ exclusive (w_own (a R))) /\
      (forall t g0 sz j, w_own (a t) = OLk g0 sz j ->
          g0 = cur g /\ sz = pcap g /\ j <= sz /\ forall i, i < j -> In (g0, 0, i) (w_held (a t))) /\
      (forall t g0 sz n b, w_own (a t) = OIn g0 sz n b ->
          g0 < cur g /\ n = pcap g /\ forall i, i < sz -> In (g0, 0, i) (w_held (a t))).
  Proof.
    intros Hr. destruct (cuckoo_refinable_protocol_thm ths c Hr) as (a & Hc). exists a. cbv zeta.
    destruct (r_cap Hc) as (Cp & _).
    split; [|split; [|split; [|split; [|split; [|split; [|split]]]]]].
    - intros l. split; [apply (r_spin0 Hc)|]. intros (t & Hin). rewrite (r_spin Hc t l Hin). apply in_cnt in Hin. lia.
    - apply (r_excl Hc).
    - apply (r_own1 Hc).
    - apply (r_own0 Hc).
    - exact Cp.
    - intros t gen i E. destruct (r_anc Hc t gen i E) as (A1 & A2 & A3). split; auto. split; auto. split; auto.
      destruct (r_range Hc _ _ _ _ A1) as (_ & _ & X). rewrite Cp, <- A2. exact X.
    - intros t g0 sz j E. destruct (r_scan Hc t g0 sz j E) as (A1 & A2 & A3 & A4). split; auto. split; [rewrite Cp, <- A3; exact A2|]. auto.
    - intros t g0 sz n b E. destruct (r_inst Hc t g0 sz n b E) as (A1 & A2 & A3 & A4). auto.
  Qed.

  (** ... and a cell validated by acquire() stays a cell of the current lock arrays, taken, while other threads run *)
  Theorem cuckoo_refinable_valid_stable_thm ths (c : Conc.config G V ev) :
    Conc.reach (init_cfg cf ths) c ->
    exists a : RAux, CoreR (Conc.shared c) a /\
      forall t' c', Conc.step_cfg c t' = Some c' ->
        forall t gen i, t <> t' -> w_anc (a t) = Some (gen, i) ->
          cur (Conc.shared c') = cur (Conc.shared c) /\ rspin (Conc.shared c') (gen, 0, i) <> 0 /\
          forall R, ~ (exclusive (w_own (a R)) /\ R <> t).
  Proof.
    intros Hr. pose proof (Conc.reach_inv (init_ok ths) Hr) as Hok.
    pose proof Hok as (a & Hi & Hts). exists a. split; [exact Hi|].
    intros t' c' Hs t gen i Hne Ha.
    unfold Conc.step_cfg in Hs.
    destruct (nth_error (Conc.threads c) t') as [p|] eqn:Hp; [|discriminate].
    unfold Conc.step_thread in Hs. destruct p as [r|es k|f k]; try discriminate.
    pose proof (Hts t' _ Hp) as Hsafe. cbn [Conc.safe] in Hsafe.
    destruct (Hsafe _ _ _ Hi eq_refl) as (a1 & H1 & H2 & H3).
    destruct (f (Conc.shared c)) as [[g' v] es] eqn:Hf. cbn [fst snd] in *.
    destruct (Conc.settle (k v)) as [es' p'] eqn:Hk.
    inversion Hs; subst c'; clear Hs. cbn [Conc.shared].
    assert (Hv : a1 t = a t) by (apply H2; exact Hne).
    destruct (r_anc Hi t gen i Ha) as (A1 & A2 & A3).
    destruct (r_anc H1 t gen i ltac:(now rewrite Hv)) as (B1 & B2 & B3).
    split; [congruence|]. split.
    - rewrite (r_spin H1 t _ B1). apply in_cnt in B1. lia.
    - intros R [Hx HR]. eapply A3; eauto.
  Qed.

  (** the critical sections exclude each other: authority over a probe set (validated by acquire() and holding the
      cell of its stripe in the current arrays, or being the exclusive owner) belongs to at most one thread *)
  Definition cell_auth (g : G) (w : wview) (tb b : nat) : Prop :=
    ((exists i, w_anc w = Some (cur g, i)) /\ In (cur g, tb, b mod pcap g) (w_held w)) \/ exclusive (w_own w).

  Theorem cuckoo_refinable_cs_exclusive_thm ths (c : Conc.config G V ev) :
    Conc.reach (init_cfg cf ths) c ->
    exists a : RAux, CoreR (Conc.shared c) a /\
      forall t t' tb b, cell_auth (Conc.shared c) (a t) tb b -> cell_auth (Conc.shared c) (a t') tb b -> t = t'.
  Proof.
    intros Hr. destruct (cuckoo_refinable_protocol_thm ths c Hr) as (a & Hc). exists a. split; [exact Hc|].
    intros t t' tb b [[(i & Ha) Hl]|Hx] [[(i' & Ha') Hl']|Hx'].
    - eapply (r_excl Hc); eauto.
    - destruct (Nat.eq_dec t' t) as [|Hne]; auto. exfalso. destruct (r_anc Hc t _ _ Ha) as (_ & _ & X). eapply X; eauto.
    - destruct (Nat.eq_dec t t') as [|Hne]; auto. exfalso. destruct (r_anc Hc t' _ _ Ha') as (_ & _ & X). eapply X; eauto.
    - eapply (excl_unique _ a); eauto.
  Qed.

End Refinable.
