(** * C28_NumSplit — the GENERATED cds::algo::number_splitter<Int> functions (Gen_feldman) meet [splitter_spec]
    for Int = short, unsigned short, int, unsigned, long, unsigned long, for every count accepted by
    [is_correct] (count < bit width of Int). *)
Require Import ZArith Lia List Bool.
Require Import LV.Base.CInt LV.Model.FeldmanPath LV.Proofs.C28_Digits LV.Proofs.C28_Path.
Import ListNotations.
Local Open Scope Z_scope.

Module G := LV.Gen.Gen_feldman.

(** ** helpers *)

Lemma slice_at0 v c : slice v 0 c = v mod 2 ^ c.
Proof. unfold slice. now rewrite Z.pow_0_r, Z.div_1_r. Qed.

Lemma mod_mod_le x a c : 0 <= c <= a -> (x mod 2 ^ a) mod 2 ^ c = x mod 2 ^ c.
Proof. intros. rewrite <- (slice_at0 (x mod 2 ^ a) c), <- (slice_at0 x c). apply slice_mod; lia. Qed.

Lemma land_mask x c : 0 <= c -> Z.land x (2 ^ c - 1) = x mod 2 ^ c.
Proof. intros. rewrite <- Z.land_ones by lia. f_equal. rewrite Z.ones_equiv. lia. Qed.

Lemma shr_slice n s c : 0 <= s -> (Z.shiftr n s) mod 2 ^ c = slice n s c.
Proof. intros. unfold slice. now rewrite Z.shiftr_div_pow2. Qed.

Lemma pow2_ge1 c : 0 <= c -> 1 <= 2 ^ c.
Proof. intros. pose proof (pow2_pos' c). lia. Qed.

Lemma pow2_lt c w : 0 <= c < w -> 2 ^ c < 2 ^ w.
Proof. intros. apply Z.pow_lt_mono_r; lia. Qed.

Lemma pow2_le c w : 0 <= c <= w -> 2 ^ c <= 2 ^ w.
Proof. intros. apply Z.pow_le_mono_r; lia. Qed.

Lemma shl_u_one t c : isigned t = false -> 0 <= c < ibits t -> c_shl t 1 c = Some (2 ^ c).
Proof.
  intros Hs Hc. rewrite c_shl_u_ok by (auto; apply shift_ok_spec; lia).
  rewrite Z.shiftl_mul_pow2, Z.mul_1_l by lia. f_equal. apply Z.mod_small.
  split; [pose proof (pow2_pos' c); lia | apply pow2_lt; lia].
Qed.

Lemma shl_i32_one c : 0 <= c < 31 -> c_shl i32 1 c = Some (2 ^ c).
Proof.
  intros Hc. rewrite c_shl_s_ok; try reflexivity; try lia.
  - now rewrite Z.shiftl_mul_pow2, Z.mul_1_l by lia.
  - apply shift_ok_spec. simpl. lia.
  - rewrite Z.shiftl_mul_pow2, Z.mul_1_l by lia. simpl ibits. apply pow2_lt. lia.
Qed.

Lemma mod_inj_range M a b lo : 0 < M -> lo <= a < lo + M -> lo <= b < lo + M -> a mod M = b mod M -> a = b.
Proof.
  intros HM Ha Hb E.
  pose proof (Z.div_mod a M ltac:(lia)). pose proof (Z.div_mod b M ltac:(lia)).
  assert (a - b = M * (a / M - b / M)) by lia.
  assert (- M < a - b < M) by lia.
  assert (a / M - b / M = 0) by nia. lia.
Qed.

(** the common shape of the specification *)
Definition ns_inv (W : Z) (num : Z) (shift : Z) (h : Z) : Prop := num = h /\ 0 <= shift <= W.

Ltac ns_basic :=
  repeat match goal with
  | H : in_range _ _ |- _ => unfold in_range, imin, imax in H; simpl in H
  end.

(** ** number_splitter<unsigned long> *)

Lemma ns_u64_cut_spec h s c : 0 <= s -> 0 < c < 64 -> s + c <= 64 ->
  G.ns_u64_cut (G.mk_ns_u64 h s) c = Some (slice (h mod 2 ^ 64) s c, G.mk_ns_u64 h (s + c)).
Proof.
  intros Hs Hc Hsc. unfold G.ns_u64_cut. cbn [G.ns_u64_number_ G.ns_u64_shift_].
  rewrite c_shr_ok by (apply shift_ok_spec; simpl; lia).
  rewrite shl_u_one by (simpl; auto; lia). cbn [obind].
  f_equal. f_equal.
  - unfold c_and, usub. simpl ibits.
    rewrite (Z.mod_small (2 ^ c - 1)) by (pose proof (pow2_ge1 c); pose proof (pow2_lt c 64); lia).
    rewrite land_mask, shr_slice by lia. symmetry. apply slice_mod; lia.
  - f_equal. unfold uadd. simpl ibits. apply Z.mod_small. lia.
Qed.

Lemma ns_u32_cut_spec h s c : 0 <= s -> 0 < c < 32 -> s + c <= 32 ->
  G.ns_u32_cut (G.mk_ns_u32 h s) c = Some (slice (h mod 2 ^ 32) s c, G.mk_ns_u32 h (s + c)).
Proof.
  intros Hs Hc Hsc. unfold G.ns_u32_cut. cbn [G.ns_u32_number_ G.ns_u32_shift_].
  rewrite c_shr_ok by (apply shift_ok_spec; simpl; lia).
  rewrite shl_u_one by (simpl; auto; lia). cbn [obind].
  f_equal. f_equal.
  - unfold c_and, usub. simpl ibits.
    rewrite (Z.mod_small (2 ^ c - 1)) by (pose proof (pow2_ge1 c); pose proof (pow2_lt c 32); lia).
    rewrite land_mask, shr_slice by lia. symmetry. apply slice_mod; lia.
  - f_equal. unfold uadd. simpl ibits. apply Z.mod_small. lia.
Qed.

Lemma cast_unsigned t x : isigned t = false -> cast t x = x mod 2 ^ ibits t.
Proof. intros. unfold cast. now apply wrap_unsigned. Qed.

(** signed: the mask is applied to the value converted to the unsigned counterpart, the result converted back *)
Lemma cast_signed_small t x : isigned t = true -> 1 < ibits t -> 0 <= x < 2 ^ (ibits t - 1) -> cast t x = x.
Proof.
  intros Hs Hb Hx. unfold cast. apply wrap_id; [lia|]. unfold in_range, imin, imax. rewrite Hs.
  pose proof (pow2_pos' (ibits t - 1)). lia.
Qed.

Lemma ns_i64_cut_spec h s c : 0 <= s -> 0 < c < 64 -> s + c <= 64 ->
  G.ns_i64_cut (G.mk_ns_i64 h s) c = Some (slice (h mod 2 ^ 64) s c, G.mk_ns_i64 h (s + c)).
Proof.
  intros Hs Hc Hsc. unfold G.ns_i64_cut. cbn [G.ns_i64_number_ G.ns_i64_shift_].
  rewrite c_shr_ok by (apply shift_ok_spec; simpl; lia).
  rewrite shl_u_one by (simpl; auto; lia). cbn [obind].
  f_equal. f_equal.
  - unfold c_and, usub. simpl ibits.
    rewrite (Z.mod_small (2 ^ c - 1)) by (pose proof (pow2_ge1 c); pose proof (pow2_lt c 64); lia).
    rewrite land_mask by lia. rewrite (cast_unsigned u64) by reflexivity. simpl ibits.
    rewrite mod_mod_le, shr_slice by lia.
    rewrite cast_signed_small; [symmetry; apply slice_mod; lia | reflexivity | simpl; lia |].
    simpl ibits. pose proof (slice_range h s c ltac:(lia)). pose proof (pow2_le c 63). lia.
  - f_equal. unfold uadd. simpl ibits. apply Z.mod_small. lia.
Qed.

Lemma ns_i32_cut_spec h s c : 0 <= s -> 0 < c < 32 -> s + c <= 32 ->
  G.ns_i32_cut (G.mk_ns_i32 h s) c = Some (slice (h mod 2 ^ 32) s c, G.mk_ns_i32 h (s + c)).
Proof.
  intros Hs Hc Hsc. unfold G.ns_i32_cut. cbn [G.ns_i32_number_ G.ns_i32_shift_].
  rewrite c_shr_ok by (apply shift_ok_spec; simpl; lia).
  rewrite shl_u_one by (simpl; auto; lia). cbn [obind].
  f_equal. f_equal.
  - unfold c_and, usub. simpl ibits.
    rewrite (Z.mod_small (2 ^ c - 1)) by (pose proof (pow2_ge1 c); pose proof (pow2_lt c 32); lia).
    rewrite land_mask by lia. rewrite (cast_unsigned u32) by reflexivity. simpl ibits.
    rewrite mod_mod_le, shr_slice by lia.
    rewrite cast_signed_small; [symmetry; apply slice_mod; lia | reflexivity | simpl; lia |].
    simpl ibits. pose proof (slice_range h s c ltac:(lia)). pose proof (pow2_le c 31). lia.
  - f_equal. unfold uadd. simpl ibits. apply Z.mod_small. lia.
Qed.

(** 16-bit: the operands are promoted to int; the mask is (unsigned short)1 << count, computed in int *)
Lemma ssub_i32_pow c : 0 <= c < 31 -> ssub i32 (2 ^ c) 1 = Some (2 ^ c - 1).
Proof.
  intros. unfold ssub. apply checked_some. unfold in_range, imin, imax. simpl.
  pose proof (pow2_ge1 c). pose proof (pow2_lt c 31). change (2 ^ 31) with 2147483648 in *. lia.
Qed.

Lemma ns_u16_cut_spec h s c : 0 <= s -> 0 < c < 16 -> s + c <= 16 ->
  G.ns_u16_cut (G.mk_ns_u16 h s) c = Some (slice (h mod 2 ^ 16) s c, G.mk_ns_u16 h (s + c)).
Proof.
  intros Hs Hc Hsc. unfold G.ns_u16_cut. cbn [G.ns_u16_number_ G.ns_u16_shift_].
  rewrite c_shr_ok by (apply shift_ok_spec; simpl; lia).
  rewrite shl_i32_one by lia. cbn [obind]. rewrite ssub_i32_pow by lia. cbn [obind].
  f_equal. f_equal.
  - unfold c_and. rewrite land_mask, shr_slice by lia.
    rewrite (cast_unsigned u16) by reflexivity. simpl ibits.
    rewrite Z.mod_small by (pose proof (slice_range h s c ltac:(lia)); pose proof (pow2_le c 16); lia).
    symmetry. apply slice_mod; lia.
  - f_equal. unfold uadd. simpl ibits. apply Z.mod_small. lia.
Qed.

Lemma ns_i16_cut_spec h s c : 0 <= s -> 0 < c < 16 -> s + c <= 16 ->
  G.ns_i16_cut (G.mk_ns_i16 h s) c = Some (slice (h mod 2 ^ 16) s c, G.mk_ns_i16 h (s + c)).
Proof.
  intros Hs Hc Hsc. unfold G.ns_i16_cut. cbn [G.ns_i16_number_ G.ns_i16_shift_].
  rewrite c_shr_ok by (apply shift_ok_spec; simpl; lia).
  rewrite shl_i32_one by lia. cbn [obind]. rewrite ssub_i32_pow by lia. cbn [obind].
  f_equal. f_equal.
  - unfold c_and. rewrite land_mask, shr_slice by lia.
    rewrite cast_signed_small; [symmetry; apply slice_mod; lia | reflexivity | simpl; lia |].
    simpl ibits. pose proof (slice_range h s c ltac:(lia)). pose proof (pow2_le c 15). lia.
  - f_equal. unfold uadd. simpl ibits. apply Z.mod_small. lia.
Qed.

(** ** the six specifications *)

Lemma is_correct_lt (W c : Z) : Some (c_lt c W) = Some true -> c < W.
Proof. unfold c_lt. intros [= E]. now apply Z.ltb_lt. Qed.

Lemma ns_u64_spec : splitter_spec ns_u64_splitter 64 (in_range u64) (fun h => h mod 2 ^ 64)
  (fun c => G.ns_u64_is_correct c = Some true)
  (fun h s => G.ns_u64_number_ s = h /\ 0 <= G.ns_u64_shift_ s <= 64) G.ns_u64_shift_.
Proof.
  constructor.
  - reflexivity.
  - intros h Hv. apply Z.mod_pos_bound. reflexivity.
  - intros h1 h2 Hv1 Hv2 E. ns_basic. eapply (mod_inj_range _ h1 h2 0); [| | | exact E]; lia.
  - intros h1 h2 _ _. apply Z.eqb_eq.
  - intros c Hc. exact Hc.
  - intros h Hv. split; [split; [reflexivity | simpl; lia] | reflexivity].
  - intros h s Hv [Hn Hs] Hlt. cbn [sp_init_at ns_u64_splitter G.ns_u64_number_ G.ns_u64_shift_].
    rewrite (cast_unsigned u32) by reflexivity. simpl ibits. rewrite Z.mod_small by lia. auto.
  - intros h s [Hn Hs]. exact Hs.
  - intros h s Hv [Hn Hs]. reflexivity.
  - intros h s Hv [Hn Hs]. reflexivity.
  - intros h s c Hv [Hn Hs] Hok Hc Hsc. destruct s as [num sh]. cbn [G.ns_u64_number_ G.ns_u64_shift_] in *. subst num.
    apply is_correct_lt in Hok. change (umul u64 8 8) with 64 in Hok.
    eexists. split; [apply ns_u64_cut_spec; lia|]. split; [split; [reflexivity | simpl; lia] | reflexivity].
Qed.

Lemma ns_i64_spec : splitter_spec ns_i64_splitter 64 (in_range i64) (fun h => h mod 2 ^ 64)
  (fun c => G.ns_i64_is_correct c = Some true)
  (fun h s => G.ns_i64_number_ s = h /\ 0 <= G.ns_i64_shift_ s <= 64) G.ns_i64_shift_.
Proof.
  constructor.
  - reflexivity.
  - intros h Hv. apply Z.mod_pos_bound. reflexivity.
  - intros h1 h2 Hv1 Hv2 E. ns_basic. eapply (mod_inj_range _ h1 h2 (-9223372036854775808)); [| | | exact E]; lia.
  - intros h1 h2 _ _. apply Z.eqb_eq.
  - intros c Hc. exact Hc.
  - intros h Hv. split; [split; [reflexivity | simpl; lia] | reflexivity].
  - intros h s Hv [Hn Hs] Hlt. cbn [sp_init_at ns_i64_splitter G.ns_i64_number_ G.ns_i64_shift_].
    rewrite (cast_unsigned u32) by reflexivity. simpl ibits. rewrite Z.mod_small by lia. auto.
  - intros h s [Hn Hs]. exact Hs.
  - intros h s Hv [Hn Hs]. reflexivity.
  - intros h s Hv [Hn Hs]. reflexivity.
  - intros h s c Hv [Hn Hs] Hok Hc Hsc. destruct s as [num sh]. cbn [G.ns_i64_number_ G.ns_i64_shift_] in *. subst num.
    apply is_correct_lt in Hok. change (umul u64 8 8) with 64 in Hok.
    eexists. split; [apply ns_i64_cut_spec; lia|]. split; [split; [reflexivity | simpl; lia] | reflexivity].
Qed.

Lemma ns_u32_spec : splitter_spec ns_u32_splitter 32 (in_range u32) (fun h => h mod 2 ^ 32)
  (fun c => G.ns_u32_is_correct c = Some true)
  (fun h s => G.ns_u32_number_ s = h /\ 0 <= G.ns_u32_shift_ s <= 32) G.ns_u32_shift_.
Proof.
  constructor.
  - reflexivity.
  - intros h Hv. apply Z.mod_pos_bound. reflexivity.
  - intros h1 h2 Hv1 Hv2 E. ns_basic. eapply (mod_inj_range _ h1 h2 0); [| | | exact E]; lia.
  - intros h1 h2 _ _. apply Z.eqb_eq.
  - intros c Hc. exact Hc.
  - intros h Hv. split; [split; [reflexivity | simpl; lia] | reflexivity].
  - intros h s Hv [Hn Hs] Hlt. cbn [sp_init_at ns_u32_splitter G.ns_u32_number_ G.ns_u32_shift_].
    rewrite (cast_unsigned u32) by reflexivity. simpl ibits. rewrite Z.mod_small by lia. auto.
  - intros h s [Hn Hs]. exact Hs.
  - intros h s Hv [Hn Hs]. reflexivity.
  - intros h s Hv [Hn Hs]. reflexivity.
  - intros h s c Hv [Hn Hs] Hok Hc Hsc. destruct s as [num sh]. cbn [G.ns_u32_number_ G.ns_u32_shift_] in *. subst num.
    apply is_correct_lt in Hok. change (umul u64 4 8) with 32 in Hok.
    eexists. split; [apply ns_u32_cut_spec; lia|]. split; [split; [reflexivity | simpl; lia] | reflexivity].
Qed.

Lemma ns_i32_spec : splitter_spec ns_i32_splitter 32 (in_range i32) (fun h => h mod 2 ^ 32)
  (fun c => G.ns_i32_is_correct c = Some true)
  (fun h s => G.ns_i32_number_ s = h /\ 0 <= G.ns_i32_shift_ s <= 32) G.ns_i32_shift_.
Proof.
  constructor.
  - reflexivity.
  - intros h Hv. apply Z.mod_pos_bound. reflexivity.
  - intros h1 h2 Hv1 Hv2 E. ns_basic. eapply (mod_inj_range _ h1 h2 (-2147483648)); [| | | exact E]; lia.
  - intros h1 h2 _ _. apply Z.eqb_eq.
  - intros c Hc. exact Hc.
  - intros h Hv. split; [split; [reflexivity | simpl; lia] | reflexivity].
  - intros h s Hv [Hn Hs] Hlt. cbn [sp_init_at ns_i32_splitter G.ns_i32_number_ G.ns_i32_shift_].
    rewrite (cast_unsigned u32) by reflexivity. simpl ibits. rewrite Z.mod_small by lia. auto.
  - intros h s [Hn Hs]. exact Hs.
  - intros h s Hv [Hn Hs]. reflexivity.
  - intros h s Hv [Hn Hs]. reflexivity.
  - intros h s c Hv [Hn Hs] Hok Hc Hsc. destruct s as [num sh]. cbn [G.ns_i32_number_ G.ns_i32_shift_] in *. subst num.
    apply is_correct_lt in Hok. change (umul u64 4 8) with 32 in Hok.
    eexists. split; [apply ns_i32_cut_spec; lia|]. split; [split; [reflexivity | simpl; lia] | reflexivity].
Qed.

Lemma ns_u16_spec : splitter_spec ns_u16_splitter 16 (in_range u16) (fun h => h mod 2 ^ 16)
  (fun c => G.ns_u16_is_correct c = Some true)
  (fun h s => G.ns_u16_number_ s = h /\ 0 <= G.ns_u16_shift_ s <= 16) G.ns_u16_shift_.
Proof.
  constructor.
  - reflexivity.
  - intros h Hv. apply Z.mod_pos_bound. reflexivity.
  - intros h1 h2 Hv1 Hv2 E. ns_basic. eapply (mod_inj_range _ h1 h2 0); [| | | exact E]; lia.
  - intros h1 h2 _ _. apply Z.eqb_eq.
  - intros c Hc. exact Hc.
  - intros h Hv. split; [split; [reflexivity | simpl; lia] | reflexivity].
  - intros h s Hv [Hn Hs] Hlt. cbn [sp_init_at ns_u16_splitter G.ns_u16_number_ G.ns_u16_shift_].
    rewrite (cast_unsigned u32) by reflexivity. simpl ibits. rewrite Z.mod_small by lia. auto.
  - intros h s [Hn Hs]. exact Hs.
  - intros h s Hv [Hn Hs]. reflexivity.
  - intros h s Hv [Hn Hs]. reflexivity.
  - intros h s c Hv [Hn Hs] Hok Hc Hsc. destruct s as [num sh]. cbn [G.ns_u16_number_ G.ns_u16_shift_] in *. subst num.
    apply is_correct_lt in Hok. change (umul u64 2 8) with 16 in Hok.
    eexists. split; [apply ns_u16_cut_spec; lia|]. split; [split; [reflexivity | simpl; lia] | reflexivity].
Qed.

Lemma ns_i16_spec : splitter_spec ns_i16_splitter 16 (in_range i16) (fun h => h mod 2 ^ 16)
  (fun c => G.ns_i16_is_correct c = Some true)
  (fun h s => G.ns_i16_number_ s = h /\ 0 <= G.ns_i16_shift_ s <= 16) G.ns_i16_shift_.
Proof.
  constructor.
  - reflexivity.
  - intros h Hv. apply Z.mod_pos_bound. reflexivity.
  - intros h1 h2 Hv1 Hv2 E. ns_basic. eapply (mod_inj_range _ h1 h2 (-32768)); [| | | exact E]; lia.
  - intros h1 h2 _ _. apply Z.eqb_eq.
  - intros c Hc. exact Hc.
  - intros h Hv. split; [split; [reflexivity | simpl; lia] | reflexivity].
  - intros h s Hv [Hn Hs] Hlt. cbn [sp_init_at ns_i16_splitter G.ns_i16_number_ G.ns_i16_shift_].
    rewrite (cast_unsigned u32) by reflexivity. simpl ibits. rewrite Z.mod_small by lia. auto.
  - intros h s [Hn Hs]. exact Hs.
  - intros h s Hv [Hn Hs]. reflexivity.
  - intros h s Hv [Hn Hs]. reflexivity.
  - intros h s c Hv [Hn Hs] Hok Hc Hsc. destruct s as [num sh]. cbn [G.ns_i16_number_ G.ns_i16_shift_] in *. subst num.
    apply is_correct_lt in Hok. change (umul u64 2 8) with 16 in Hok.
    eexists. split; [apply ns_i16_cut_spec; lia|]. split; [split; [reflexivity | simpl; lia] | reflexivity].
Qed.
