(** * The programs of LV.Model.Feldman in the relational proof rule (Proofs/ConcRel.v): the proofs of FeldmanStepSafe.v
      with one more obligation per access - the step relation [Rel2] between the shared state before and after:
        - a slot that holds an array node never changes,
        - a converting slot changes only into an array node,
        - a step that changes the flag bits of some slot preserves the set of hashes present.
    The thread-local ghost value [w] of the rule is a parameter that these programs leave alone ([HSR]); programs that
    use it (the iterators) can be mixed with them.  Every lemma has the statement of its namesake in FeldmanStepSafe.v. *)
From Coq Require Import ZArith NArith List Bool Arith PeanoNat Lia String.
From LV Require Import Base.Conc Base.Events Model.Feldman Proofs.FeldmanStepInv Proofs.FeldmanStepSafe Proofs.FeldmanStepThm Proofs.ConcRel.
Import ListNotations.

Set Implicit Arguments.

Section SafeR.
  Variables (hbits abits W : nat) (hs : list N).
  Hypothesis Hh : 0 < hbits.
  Hypothesis Ha : 0 < abits.

  Notation hash := (Feldman.hash hs).
  Notation cut := Feldman.cut.
  Notation bits_of := (Feldman.bits_of hbits abits).
  Notation Inv := (@FeldmanStepInv.Inv hbits abits hs).
  Notation prog := (Conc.prog G V ev).
  Notation present := (FeldmanStepThm.present hs).

  (** the step relation *)
  Definition Rel2 (g g' : G) : Prop :=
    (forall a i, sbits (arr g a i) = 2 -> arr g' a i = arr g a i) /\
    (forall a i, sbits (arr g a i) = 1 -> arr g' a i = arr g a i \/ sbits (arr g' a i) = 2) /\
    ((exists a i, sbits (arr g a i) <> sbits (arr g' a i)) -> forall h, present g' h <-> present g h).

  Lemma Rel2_samearr g g' : arr g' = arr g -> Rel2 g g'.
  Proof.
    intros E. split; [|split].
    - intros a i _. now rewrite E.
    - intros a i _. left. now rewrite E.
    - intros (a & i & H). exfalso. apply H. now rewrite E.
  Qed.
  Lemma Rel2_refl g : Rel2 g g.
  Proof. apply Rel2_samearr. reflexivity. Qed.

  (** one slot changes *)
  Lemma Rel2_slot g g' a i s :
    arr g' = set_slot (arr g) a i s ->
    (sbits (arr g a i) = 2 -> False) ->
    (sbits (arr g a i) = 1 -> sbits s = 2) ->
    (sbits (arr g a i) <> sbits s -> forall h, present g' h <-> present g h) ->
    Rel2 g g'.
  Proof.
    intros E H2 H1 H3. split; [|split].
    - intros x j Hb. rewrite E. destruct (set_slot_cases (arr g) a i s x j) as [[Ex ->]|[_ ->]]; [|reflexivity].
      inversion Ex; subst. exfalso. auto.
    - intros x j Hb. rewrite E. destruct (set_slot_cases (arr g) a i s x j) as [[Ex ->]|[_ ->]]; [|left; reflexivity].
      inversion Ex; subst. right. auto.
    - intros (x & j & Hne). apply H3. rewrite E in Hne.
      destruct (set_slot_cases (arr g) a i s x j) as [[Ex Hv]|[_ Hv]]; rewrite Hv in Hne; [inversion Ex; subst; exact Hne|congruence].
  Qed.

  Variable WG : Type.
  Variable SR : nat -> G -> G -> list (nat * ev) -> list ev -> WG -> WG -> Prop.
  Variable w : WG.
  Hypothesis HSR : forall t g g' tr es, Rel2 g g' -> SR t g g' tr es w w.

  Notation safeR := (@ConcRel.safeR G V ev Aux L WG view Inv SR).

  Definition safe {R} (t : nat) (p : prog R) (l : L) (Q : R -> L -> Prop) : Prop :=
    safeR t p l w (fun r l' w' => Q r l' /\ w' = w).

  Lemma safe_act_intro {R} t f (k : V -> prog R) l (Q : R -> L -> Prop) :
    (forall g A tr, Inv g A tr -> view A t = l ->
       exists A', Inv (fst (fst (f g))) A' (tr ++ Conc.tag t (snd (f g))) /\ Conc.frame view t A A' /\ Rel2 g (fst (fst (f g))) /\
                  safe t (k (snd (fst (f g)))) (view A' t) Q) ->
    safe t (Act f k) l Q.
  Proof.
    intros H. unfold safe. cbn [ConcRel.safeR]. intros g A tr HI Hv. destruct (H g A tr HI Hv) as (A' & H1 & H2 & H3 & H4).
    exists A', w. split; [exact H1|]. split; [exact H2|]. split; [apply HSR; exact H3|exact H4].
  Qed.

  Lemma safe_emit_intro {R} t es (k : prog R) l (Q : R -> L -> Prop) :
    (forall g A tr, Inv g A tr -> view A t = l ->
       exists A', Inv g A' (tr ++ Conc.tag t es) /\ Conc.frame view t A A' /\ safe t k (view A' t) Q) ->
    safe t (Emit es k) l Q.
  Proof.
    intros H. unfold safe. cbn [ConcRel.safeR]. intros g A tr HI Hv. destruct (H g A tr HI Hv) as (A' & H1 & H2 & H4).
    exists A', w. split; [exact H1|]. split; [exact H2|]. split; [apply HSR; apply Rel2_refl|exact H4].
  Qed.

  Lemma safe_bind {A B} t (p : prog A) (q : A -> prog B) (Q : B -> L -> Prop) l :
    safe t p l (fun r l' => safe t (q r) l' Q) -> safe t (Conc.bind p q) l Q.
  Proof.
    intros H. unfold safe. apply ConcRel.safeR_bind. eapply ConcRel.safeR_weaken; [|exact H].
    intros r l' w' [H1 ->]. exact H1.
  Qed.

  Lemma safe_weaken {R} t (p : prog R) (Q Q' : R -> L -> Prop) :
    (forall r l, Q r l -> Q' r l) -> forall l, safe t p l Q -> safe t p l Q'.
  Proof.
    intros HQ l H. unfold safe. eapply ConcRel.safeR_weaken; [|exact H]. intros r l' w' [H1 H2]. split; auto.
  Qed.

  Lemma safe_ret {R} t (r : R) l (Q : R -> L -> Prop) : Q r l -> safe t (Ret r) l Q.
  Proof. intros H. split; [exact H|reflexivity]. Qed.

  (** an access that leaves the shared state alone *)
  Lemma safe_same {R} t (f : G -> G * V * list ev) (k : V -> prog R) l (Q : R -> L -> Prop) :
    (forall g, fst (fst (f g)) = g) ->
    (forall g A tr, Inv g A tr -> view A t = l ->
       exists A', Inv g A' tr /\ Conc.frame view t A A' /\ safe t (k (snd (fst (f g)))) (view A' t) Q) ->
    safe t (Act f k) l Q.
  Proof.
    intros Hf H. apply safe_act_intro. intros g A tr HI Hv. destruct (H g A tr HI Hv) as (A' & H1 & H2 & H3).
    exists A'. rewrite Hf. split; [eapply Inv_trace; exact H1|]. split; [exact H2|]. split; [apply Rel2_refl|exact H3].
  Qed.

  Lemma safe_nop {R} t kd o (k : V -> prog R) l (Q : R -> L -> Prop) :
    safe t (k v0) l Q -> safe t (Act (a_nop kd o) k) l Q.
  Proof.
    intros H. apply safe_same; [reflexivity|]. intros g A tr HI Hv. exists A. split; [exact HI|]. split; [apply frame_refl|].
    cbn. rewrite Hv. exact H.
  Qed.

  Lemma safe_cnt {R} t kd d (k : V -> prog R) l (Q : R -> L -> Prop) :
    safe t (k v0) l Q -> safe t (Act (a_cnt kd d) k) l Q.
  Proof.
    intros H. apply safe_act_intro. intros g A tr HI Hv. exists A. cbn [a_cnt fst snd].
    split; [eapply Inv_trace; apply Inv_count; exact HI|]. split; [apply frame_refl|]. split; [apply Rel2_samearr; reflexivity|]. rewrite Hv. exact H.
  Qed.

  Lemma safe_emit {R} t es (k : prog R) l (Q : R -> L -> Prop) : safe t k l Q -> safe t (Emit es k) l Q.
  Proof.
    intros H. apply safe_emit_intro. intros g A tr HI Hv. exists A. split; [eapply Inv_trace; exact HI|]. split; [apply frame_refl|].
    rewrite Hv. exact H.
  Qed.

  (** ** what a traversing thread knows *)
  Definition posP (h : N) (p : pos) (l : L) : Prop :=
    ph l = PIdle /\ ka l = parr p /\ kpre l = (h mod 2 ^ N.of_nat (ko l))%N /\
    poff p = ko l + bits_of (parr p) /\ pidx p = cut h (ko l) (bits_of (parr p)).

  Definition idP (k id : nat) (l : L) : Prop := kid l = id /\ kidk l = k.

  Definition QIdle {R} : R -> L -> Prop := fun _ l => ph l = PIdle.

  Lemma posP_know_item h p l a b : posP h p l -> posP h p (know_item l a b).
  Proof. unfold posP, know_item; cbn. tauto. Qed.
  Lemma idP_know_item k id l a b : idP k id l -> idP k id (know_item l a b).
  Proof. unfold idP, know_item; cbn. tauto. Qed.

  Lemma start_posP h l : ph l = PIdle -> posP h (start hbits h) (know l 0 0 0%N).
  Proof.
    intros H. unfold posP, start, know; cbn. repeat split; auto.
    rewrite N.mod_1_r. reflexivity.
  Qed.

  (** item observed by a load *)
  Definition itm (s : slot) : nat := if Nat.eqb (sptr s) 0 || Nat.eqb (sbits s) 2 then 0 else sptr s.

  (** ** traverse *)
  Lemma safe_traverse t h k id sf : forall p l, posP h p l -> idP k id l ->
    safe t (traverse abits sf h p) l
      (fun r l' => match r with
                   | None => ph l' = PIdle
                   | Some (p', v) => posP h p' l' /\ idP k id l' /\ sbits (vslot v) = 0
                   end).
  Proof.
    induction sf as [|sf IH]; intros p l HP HID; cbn [traverse].
    - apply safe_ret. apply HP.
    - apply safe_same; [reflexivity|]. intros g A tr HI Hv. cbn [a_ld fst snd vslot].
      destruct HP as (P1 & P2 & P3 & P4 & P5).
      pose proof (i_known HI t) as HK. unfold view in Hv. rewrite Hv in HK. rewrite P2 in HK.
      destruct (arr g (parr p) (pidx p)) as [c b] eqn:Hs. cbn [sbits sptr].
      destruct (Nat.eqb_spec b 2) as [->|Hb2].
      + (* array node: go down *)
        destruct (i_child HI _ _ HK Hs) as (C1 & C2 & C3).
        exists (set_view A t (know (views A t) c (ko l + bits_of (parr p)) (kpre l + N.of_nat (pidx p) * 2 ^ N.of_nat (ko l))%N)).
        split; [apply Inv_know; [exact HI|exact C1]|]. split; [apply frame_set_view|].
        rewrite view_set_same. apply IH.
        * assert (Hbc : bits_of c = abits) by (unfold Feldman.bits_of; destruct (Nat.eqb_spec c 0); [congruence|reflexivity]).
          unfold posP, know; cbn. rewrite Hv, Hbc.
          repeat split; auto; try lia; try (rewrite P3, P5, mod_extend, cut_N; reflexivity); try (rewrite P4; reflexivity).
        * unfold idP, know in *; cbn. rewrite Hv. exact HID.
      + destruct (Nat.eqb_spec b 1) as [->|Hb1].
        * exists A. split; [exact HI|]. split; [apply frame_refl|]. unfold view. rewrite Hv. apply IH; [repeat split; auto|exact HID].
        * exists A. split; [exact HI|]. split; [apply frame_refl|]. unfold view. rewrite Hv. apply safe_ret.
          split; [repeat split; auto|]. split; [exact HID|]. cbn.
          destruct (le_lt_dec 2 b) as [Hge|Hlt]; [|lia].
          destruct (i_arrslot HI _ _ Hs Hge) as [-> _]. congruence.
  Qed.

  (** ** protect: the view afterwards remembers the key of the item the returned value points to *)
  Definition protP (h : N) (p : pos) (k id : nat) (l0 : L) : option V -> L -> Prop :=
    fun r l' => match r with
                | None => ph l' = PIdle
                | Some v => posP h p l' /\ idP k id l' /\ kit l' = itm (vslot v) /\ (itm (vslot v) <> 0 -> kkey l' = vkey v)
                end.

  Lemma load_item_fact g A tr t p l :
    Inv g A tr -> views A t = l -> ka l = parr p ->
    let s := arr g (parr p) (pidx p) in
    (itm s <> 0 -> itm s <= nitem g /\ ikey g (itm s) = ikey g (sptr s)).
  Proof.
    intros HI Hv Hk s Hn. pose proof (i_known HI t) as HK. rewrite Hv, Hk in HK.
    unfold itm in *. destruct s as [c b] eqn:Hs; cbn [sptr sbits] in *.
    destruct (Nat.eqb_spec c 0); [cbn in Hn; congruence|]. destruct (Nat.eqb_spec b 2); [cbn in Hn; congruence|]. cbn.
    destruct (i_data HI _ _ HK Hs n0 n) as (_ & Hle & _). split; [exact Hle|reflexivity].
  Qed.

  Lemma safe_protect_arr t h k id s sf : forall p l, posP h p l -> idP k id l ->
    safe t (protect_arr sf t s p) l (protP h p k id l).
  Proof.
    induction sf as [|sf IH]; intros p l HP HID; cbn [protect_arr].
    - apply safe_ret. apply HP.
    - apply safe_same; [reflexivity|]. intros g A tr HI Hv. cbn [a_ld fst snd].
      set (sl := arr g (parr p) (pidx p)).
      set (l1 := know_item l (itm sl) (ikey g (sptr sl))).
      exists (set_view A t l1). split.
      { apply Inv_view_fields; try (unfold view in Hv; rewrite Hv; reflexivity); [exact HI|].
        cbn [kit kkey kid kidk l1 know_item]. split.
        - intros Hn. eapply (load_item_fact t p HI Hv); [apply HP|exact Hn].
        - unfold view in Hv. rewrite <- Hv. apply (i_items HI t). }
      split; [apply frame_set_view|]. rewrite view_set_same.
      apply safe_nop. apply safe_nop.
      apply safe_same; [reflexivity|]. intros g2 A2 tr2 HI2 Hv2. cbn [a_ld fst snd vslot].
      exists A2. split; [exact HI2|]. split; [apply frame_refl|]. rewrite Hv2.
      destruct (slot_eqb (arr g2 (parr p) (pidx p)) sl).
      + apply safe_ret. cbn [protP vslot vkey]. split; [apply posP_know_item; exact HP|]. split; [apply idP_know_item; exact HID|].
        split; reflexivity.
      + eapply safe_weaken; [|apply IH; [apply posP_know_item; exact HP|apply idP_know_item; exact HID]].
        intros r l'. unfold protP. destruct r; auto.
  Qed.

  Lemma safe_protect t h k id s sf : forall p l, posP h p l -> idP k id l ->
    safe t (protect sf t s p) l (protP h p k id l).
  Proof.
    intros p l HP HID. unfold protect.
    assert (LOOP : forall sf cur l1, posP h p l1 -> idP k id l1 -> kit l1 = itm (vslot cur) -> (itm (vslot cur) <> 0 -> kkey l1 = vkey cur) ->
                   safe t (protect_loop sf t s p cur) l1 (protP h p k id l)).
    { clear sf. induction sf as [|sf IH]; intros cur l1 HP1 HID1 K1 K2; cbn [protect_loop].
      - apply safe_ret. apply HP1.
      - apply safe_nop. apply safe_nop.
        apply safe_same; [reflexivity|]. intros g A tr HI Hv. cbn [a_ld fst snd vslot].
        set (sl := arr g (parr p) (pidx p)).
        set (l2 := know_item l1 (itm sl) (ikey g (sptr sl))).
        exists (set_view A t l2). split.
        { apply Inv_view_fields; try (unfold view in Hv; rewrite Hv; reflexivity); [exact HI|].
          cbn [kit kkey kid kidk l2 know_item]. split.
          - intros Hn. eapply (load_item_fact t p HI Hv); [apply HP1|exact Hn].
          - unfold view in Hv. rewrite <- Hv. apply (i_items HI t). }
        split; [apply frame_set_view|]. rewrite view_set_same.
        destruct (slot_eqb sl (vslot cur)).
        + apply safe_ret. cbn [protP vslot vkey]. split; [apply posP_know_item; exact HP1|]. split; [apply idP_know_item; exact HID1|].
          split; reflexivity.
        + apply IH; [apply posP_know_item; exact HP1|apply idP_know_item; exact HID1|reflexivity|reflexivity]. }
    apply safe_same; [reflexivity|]. intros g A tr HI Hv. cbn [a_ld fst snd].
    set (sl := arr g (parr p) (pidx p)).
    set (l1 := know_item l (itm sl) (ikey g (sptr sl))).
    exists (set_view A t l1). split.
    { apply Inv_view_fields; try (unfold view in Hv; rewrite Hv; reflexivity); [exact HI|].
      cbn [kit kkey kid kidk l1 know_item]. split.
      - intros Hn. eapply (load_item_fact t p HI Hv); [apply HP|exact Hn].
      - unfold view in Hv. rewrite <- Hv. apply (i_items HI t). }
    split; [apply frame_set_view|]. rewrite view_set_same.
    apply LOOP; [apply posP_know_item; exact HP|apply idP_know_item; exact HID|reflexivity|reflexivity].
  Qed.

  (** ** a CAS on a data slot at the thread's position: insert / replace (new item [id]) or erase (null) *)
  Lemma safe_data_cas {R} t k id p e q (kont : V -> prog R) l (Q : R -> L -> Prop) :
    posP (hash k) p l -> sbits e = 0 -> (q = 0 \/ (q = id /\ id <> 0 /\ idP k id l)) ->
    (forall v, safe t (kont v) l Q) ->
    safe t (Act (a_cas (parr p) (pidx p) e (mkSlot q 0)) kont) l Q.
  Proof.
    intros HP He Hq Hk. apply safe_act_intro. intros g A tr HI Hv. unfold a_cas.
    destruct (slot_eqb (arr g (parr p) (pidx p)) e) eqn:E; cbn [fst snd].
    - apply slot_eqb_eq in E. exists A. split; [|split; [apply frame_refl|split; [|rewrite Hv; apply Hk]]];
        [|apply Rel2_slot with (a := parr p) (i := pidx p) (s := mkSlot q 0);
          [reflexivity|rewrite E, He; discriminate|rewrite E, He; discriminate|rewrite E, He; cbn; intros X; exfalso; apply X; reflexivity]].
      eapply Inv_trace.
      destruct HP as (P1 & P2 & P3 & P4 & P5).
      pose proof (i_known HI t) as HK. unfold view in Hv. rewrite Hv, P2 in HK.
      destruct e as [pp bb]; cbn in He; subst bb.
      change (mkG (set_slot (arr g) (parr p) (pidx p) (mkSlot q 0)) (narr g) (nitem g) (ikey g) (count g))
        with (with_arr g (set_slot (arr g) (parr p) (pidx p) (mkSlot q 0))).
      eapply (Inv_data_cas Hh Ha); [exact HI|exact E|exact HK|].
      destruct Hq as [->|(-> & Hid0 & Hid1 & Hid2)]; [left; reflexivity|right].
      destruct (i_items HI t) as [_ K]. rewrite Hv, Hid1 in K. destruct (K Hid0) as [K1 K2]. split; [|exact K1].
      unfold fits. rewrite K2, Hid2. split; [symmetry; exact P3|exact P5].
    - exists A. split; [eapply Inv_trace; exact HI|]. split; [apply frame_refl|]. split; [apply Rel2_refl|]. rewrite Hv. apply Hk.
  Qed.

  Lemma safe_retire {R} t (k : unit -> prog R) l (Q : R -> L -> Prop) :
    safe t (k tt) l Q -> safe t (Conc.bind (retire t) k) l Q.
  Proof. intros H. unfold retire. cbn [Conc.bind]. apply safe_nop. apply safe_nop. exact H. Qed.

  (** ** expand_slot *)
  Lemma safe_expand t h k id p cur l :
    posP h p l -> idP k id l -> sbits (vslot cur) = 0 -> sptr (vslot cur) <> 0 ->
    kit l = sptr (vslot cur) -> kkey l = vkey cur ->
    safe t (expand_slot abits hs p cur) l (fun _ l' => posP h p l' /\ idP k id l').
  Proof.
    intros HP HID Hb Hp0 Hkit Hkkey. unfold expand_slot. apply safe_act_intro. intros g A tr HI Hv. unfold a_cas_conv.
    destruct (vslot cur) as [pp bb] eqn:Hcur. cbn in Hb, Hp0, Hkit. subst bb.
    destruct HP as (P1 & P2 & P3 & P4 & P5).
    destruct (slot_eqb (arr g (parr p) (pidx p)) (mkSlot pp 0)) eqn:E; cbn [fst snd vok vid sptr].
    - apply slot_eqb_eq in E.
      pose proof (i_known HI t) as HK. unfold view in Hv. rewrite Hv, P2 in HK.
      exists (set_view A t (set_ph (views A t) (PConv (parr p) (pidx p) pp (narr g)))).
      split; [eapply Inv_trace; eapply (Inv_conv Hh Ha); eauto; rewrite Hv; exact P1|]. split; [apply frame_set_view|].
      split.
      { apply Rel2_slot with (a := parr p) (i := pidx p) (s := mkSlot pp 1);
          [reflexivity|rewrite E; discriminate|rewrite E; discriminate|].
        intros _ hh. apply (@conv_preserves hs g (parr p) (pidx p) pp E). }
      rewrite view_set_same. rewrite Hv. generalize (narr g). intros n.
      (* the store into the pending array node *)
      apply safe_act_intro. clear g A tr HI E HK Hv. intros g A tr HI Hv. cbn [a_st fst snd].
      unfold view in Hv.
      assert (Hph : ph (views A t) = PConv (parr p) (pidx p) pp n) by (rewrite Hv; reflexivity).
      pose proof (i_known HI t) as HK. rewrite Hv in HK. cbn [set_ph ka ko kpre] in HK. rewrite P2 in HK.
      destruct (i_items HI t) as [KI _]. rewrite Hv in KI. cbn [set_ph kit kkey] in KI. rewrite Hkit in KI. destruct (KI Hp0) as [_ KI2].
      exists (set_view A t (set_ph (views A t) (PStored (parr p) (pidx p) pp n))).
      split.
      { eapply Inv_trace.
        replace (cut (hash (vkey cur)) (poff p) abits) with (cut (hash (ikey g pp)) (ko l + bits_of (parr p)) abits)
          by (rewrite KI2, Hkkey, P4; reflexivity).
        change (mkG (set_slot (arr g) n (cut (hash (ikey g pp)) (ko l + bits_of (parr p)) abits) (mkSlot pp 0)) (narr g) (nitem g) (ikey g) (count g))
          with (with_arr g (set_slot (arr g) n (cut (hash (ikey g pp)) (ko l + bits_of (parr p)) abits) (mkSlot pp 0))).
        eapply (Inv_store Hh Ha); eauto. }
      split; [apply frame_set_view|].
      split.
      { pose proof (i_pend_conv HI _ Hph) as Hnull.
        eapply Rel2_slot; [reflexivity|rewrite Hnull; discriminate|rewrite Hnull; discriminate|rewrite Hnull; cbn; intros X; exfalso; apply X; reflexivity]. }
      rewrite view_set_same. rewrite Hv.
      (* the linking CAS *)
      apply safe_act_intro. clear g A tr HI Hv Hph HK KI KI2. intros g A tr HI Hv. unfold view in Hv. unfold a_cas.
      assert (Hph : ph (views A t) = PStored (parr p) (pidx p) pp n) by (rewrite Hv; reflexivity).
      destruct (i_pend HI t (or_intror Hph)) as (Hs & _).
      rewrite Hs. cbn [sptr]. replace (slot_eqb (mkSlot pp 1) (mkSlot pp 1)) with true by (symmetry; apply slot_eqb_eq; reflexivity).
      cbn [fst snd].
      pose proof (i_known HI t) as HK. rewrite Hv in HK. cbn [set_ph ka ko kpre] in HK. rewrite P2 in HK.
      exists (set_view (set_pfx A n (child (ko l) (kpre l) (bits_of (parr p)) (pidx p))) t (set_ph (views A t) PIdle)).
      split.
      { eapply Inv_trace.
        change (mkG (set_slot (arr g) (parr p) (pidx p) (mkSlot n 2)) (narr g) (nitem g) (ikey g) (count g))
          with (with_arr g (set_slot (arr g) (parr p) (pidx p) (mkSlot n 2))).
        eapply (Inv_link Hh Ha); eauto. }
      split.
      { intros u Hu. unfold view. cbn. destruct (Nat.eqb_spec u t); [congruence|reflexivity]. }
      split.
      { eapply Rel2_slot; [reflexivity|rewrite Hs; discriminate|reflexivity|].
        intros _ hh. apply (@link_preserves hbits abits hs g A tr t _ _ _ _ HI Hph). }
      unfold view at 1. cbn [views set_view set_pfx]. rewrite Nat.eqb_refl. rewrite Hv. cbn [set_ph ph ka ko kpre kit kkey kid kidk].
      apply safe_ret. cbn. rewrite ?Nat.eqb_refl. cbn. split; [repeat split; auto|]. exact HID.
    - exists A. split; [eapply Inv_trace; exact HI|]. split; [apply frame_refl|]. split; [apply Rel2_refl|]. rewrite Hv. apply safe_ret.
      split; [repeat split; auto|exact HID].
  Qed.

  Notation QI := (fun (_ : out) (l' : L) => ph l' = PIdle).

  Lemma itm_data s : sbits s = 0 -> sptr s <> 0 -> itm s = sptr s.
  Proof.
    intros H1 H2. unfold itm. rewrite H1. destruct (Nat.eqb_spec (sptr s) 0); [congruence|reflexivity].
  Qed.

  (** ** insert / update loop *)
  Lemma safe_upd_loop t is_update allow g0 k id sf : id <> 0 -> forall fuel p l,
    posP (hash k) p l -> idP k id l ->
    safe t (upd_loop abits W hs fuel sf is_update allow t g0 k id p) l QI.
  Proof.
    intros Hid. induction fuel as [|fuel IH]; intros p l HP HID; cbn [upd_loop].
    - apply safe_ret. apply HP.
    - apply safe_bind. eapply safe_weaken; [|eapply safe_traverse with (h:=hash k) (k:=k) (id:=id); eauto].
      intros [[p' v]|] l1 H1; [|apply safe_ret; exact H1]. destruct H1 as (HP1 & HID1 & Hb).
      apply safe_bind. eapply safe_weaken; [|eapply safe_protect_arr with (h:=hash k) (k:=k) (id:=id); eauto].
      intros [v'|] l2 H2; [|apply safe_ret; exact H2]. destruct H2 as (HP2 & HID2 & K1 & K2).
      destruct (slot_eqb (vslot v') (vslot v)) eqn:E; cbn [negb].
      2:{ apply IH; assumption. }
      apply slot_eqb_eq in E.
      destruct (Nat.eqb_spec (sptr (vslot v)) 0) as [Hz|Hnz]; cbn [negb].
      + (* empty slot *)
        destruct allow; [|apply safe_ret; apply HP2].
        assert (vslot v = snull) as Hsn by (destruct (vslot v) as [a b]; cbn in *; subst; reflexivity).
        eapply safe_data_cas with (k:=k) (id:=id); [exact HP2|reflexivity|right; auto|].
        intros c. destruct (vok c).
        * apply safe_cnt. apply safe_ret. apply HP2.
        * apply IH; assumption.
      + destruct (N.eqb (hash (vkey v')) (hash k)).
        * destruct is_update; [|apply safe_ret; apply HP2].
          eapply safe_data_cas with (k:=k) (id:=id); [exact HP2|exact Hb|right; auto|].
          intros c. destruct (vok c).
          -- apply safe_retire. apply safe_ret. apply HP2.
          -- apply IH; assumption.
        * destruct allow; [|apply safe_ret; apply HP2].
          destruct (Nat.ltb (poff p') W); [|apply safe_ret; apply HP2].
          apply safe_bind. eapply safe_weaken; [|eapply safe_expand with (h:=hash k) (k:=k) (id:=id); eauto].
          -- intros _ l3 (HP3 & HID3). apply IH; assumption.
          -- rewrite E. exact Hb.
          -- rewrite E. exact Hnz.
          -- rewrite K1. apply itm_data; rewrite E; assumption.
          -- apply K2. rewrite itm_data; rewrite E; assumption.
  Qed.

  Lemma safe_erase_loop t g0 k sf : forall fuel p l,
    posP (hash k) p l ->
    safe t (erase_loop abits hs fuel sf t g0 k p) l QI.
  Proof.
    induction fuel as [|fuel IH]; intros p l HP; cbn [erase_loop].
    - apply safe_ret. apply HP.
    - assert (HID : idP (kidk l) (kid l) l) by (split; reflexivity).
      apply safe_bind. eapply safe_weaken; [|eapply safe_traverse with (h:=hash k) (k:=kidk l) (id:=kid l); eauto].
      intros [[p' v]|] l1 H1; [|apply safe_ret; exact H1]. destruct H1 as (HP1 & HID1 & Hb).
      apply safe_bind. eapply safe_weaken; [|eapply safe_protect with (h:=hash k) (k:=kidk l) (id:=kid l); eauto].
      intros [v'|] l2 H2; [|apply safe_ret; exact H2]. destruct H2 as (HP2 & HID2 & K1 & K2).
      destruct (slot_eqb (vslot v') (vslot v)) eqn:E; cbn [negb].
      2:{ apply IH; assumption. }
      destruct (Nat.eqb_spec (sptr (vslot v)) 0) as [Hz|Hnz]; cbn [negb]; [apply safe_ret; apply HP2|].
      destruct (N.eqb (hash (vkey v')) (hash k)); [|apply safe_ret; apply HP2].
      eapply safe_data_cas with (k:=k) (id:=0); [exact HP2|exact Hb|left; reflexivity|].
      intros c. destruct (vok c).
      + apply safe_retire. apply safe_cnt. apply safe_ret. apply HP2.
      + apply IH; assumption.
  Qed.

  Lemma safe_find_loop t g0 k sf : forall fuel p l,
    posP (hash k) p l ->
    safe t (find_loop abits hs fuel sf t g0 k p) l QI.
  Proof.
    induction fuel as [|fuel IH]; intros p l HP; cbn [find_loop].
    - apply safe_ret. apply HP.
    - assert (HID : idP (kidk l) (kid l) l) by (split; reflexivity).
      apply safe_bind. eapply safe_weaken; [|eapply safe_traverse with (h:=hash k) (k:=kidk l) (id:=kid l); eauto].
      intros [[p' v]|] l1 H1; [|apply safe_ret; exact H1]. destruct H1 as (HP1 & HID1 & Hb).
      apply safe_bind. eapply safe_weaken; [|eapply safe_protect with (h:=hash k) (k:=kidk l) (id:=kid l); eauto].
      intros [v'|] l2 H2; [|apply safe_ret; exact H2]. destruct H2 as (HP2 & HID2 & K1 & K2).
      destruct (slot_eqb (vslot v') (vslot v)) eqn:E; cbn [negb].
      2:{ apply IH; assumption. }
      apply safe_ret. apply HP2.
  Qed.

  (** resetting what the thread knows to the head array at an [Emit] *)
  Lemma safe_emit_head {R} t es (k : prog R) l (Q : R -> L -> Prop) :
    safe t k (know l 0 0 0%N) Q -> safe t (Emit es k) l Q.
  Proof.
    intros H. apply safe_emit_intro. intros g A tr HI Hv. unfold view in Hv.
    exists (set_view A t (know (views A t) 0 0 0%N)).
    split; [eapply Inv_trace; apply Inv_know; [exact HI|apply (i_head HI)]|]. split; [apply frame_set_view|].
    rewrite view_set_same, Hv. exact H.
  Qed.

  Definition QI' : option bool -> L -> Prop := fun _ l => ph l = PIdle.

  Lemma safe_give_up t l : ph l = PIdle -> safe t give_up l QI'.
  Proof. intros H. unfold give_up. apply safe_emit. apply safe_ret. exact H. Qed.

  Lemma safe_run_op fuel t o gs l : ph l = PIdle -> safe t (run_op hbits abits W hs fuel t o gs) l QI'.
  Proof.
    intros HPh. unfold run_op.
    destruct o as [|code [|kz [|x r]]]; try (apply safe_ret; exact HPh).
    set (k := Z.to_nat kz). set (c := Z.to_nat code).
    destruct (Nat.eqb c 1 || Nat.eqb c 3 || Nat.eqb c 4).
    - apply safe_emit_head.
      (* the new item *)
      apply safe_act_intro. intros g A tr HI Hv. cbn [a_gst_new fst snd vid]. unfold view in Hv.
      set (id := S (nitem g)).
      set (l1 := know_id (know l 0 0 0%N) id k).
      exists (set_view A t l1). split.
      { eapply Inv_trace. apply Inv_view_fields; try (rewrite Hv; reflexivity).
        - apply (Inv_new_item Hh Ha). exact HI.
        - cbn [l1 know_id know kit kkey kid kidk nitem ikey]. split.
          + intros Hn. destruct (i_items HI t) as [K _]. rewrite Hv in K. cbn [know kit kkey] in K. destruct (K Hn) as [K1 K2].
            split; [lia|]. unfold id. destruct (Nat.eqb_spec (kit l) (S (nitem g))); [lia|exact K2].
          + intros _. split; [unfold id; lia|]. unfold id. rewrite Nat.eqb_refl. reflexivity. }
      split; [apply frame_set_view|]. split; [apply Rel2_samearr; reflexivity|]. rewrite view_set_same. cbn beta.
      unfold a_sync. apply safe_nop. apply safe_bind.
      eapply safe_weaken; [|apply safe_upd_loop; [unfold id; lia| |split; reflexivity]].
      + intros [[x y]|] l2 H2; [|apply safe_give_up; exact H2].
        apply safe_nop. apply safe_nop. apply safe_emit. apply safe_ret. exact H2.
      + unfold l1, know_id, know, posP, start; cbn. repeat split; auto. rewrite N.mod_1_r. reflexivity.
    - destruct (Nat.eqb c 7).
      + apply safe_emit_head. apply safe_bind.
        eapply safe_weaken; [|apply safe_erase_loop; apply start_posP; exact HPh].
        intros [[x y]|] l2 H2; [|apply safe_give_up; exact H2].
        apply safe_nop. apply safe_emit. apply safe_ret. exact H2.
      + apply safe_emit_head. apply safe_bind.
        eapply safe_weaken; [|apply safe_find_loop; apply start_posP; exact HPh].
        intros [[x y]|] l2 H2; [|apply safe_give_up; exact H2].
        apply safe_nop. apply safe_emit. apply safe_ret. exact H2.
  Qed.

  Lemma safe_run_ops fuel t : forall os gs l, ph l = PIdle ->
    safe t (run_ops hbits abits W hs fuel t os gs) l (fun _ l' => ph l' = PIdle).
  Proof.
    induction os as [|o r IH]; intros gs l H; cbn [run_ops]; [apply safe_ret; exact H|].
    apply safe_bind. eapply safe_weaken; [|apply safe_run_op; exact H].
    intros [gs'|] l' H'; [apply IH; exact H'|apply safe_ret; exact H'].
  Qed.

  Lemma safe_thread fuel t os l : ph l = PIdle ->
    safe t (thread_prog hbits abits W hs fuel t os) l (@Conc.QTrue L).
  Proof.
    intros H. unfold thread_prog. apply safe_same; [reflexivity|]. intros g A tr HI Hv.
    exists A. split; [exact HI|]. split; [apply frame_refl|]. rewrite Hv.
    eapply safe_weaken; [|apply safe_run_ops; exact H]. intros; exact I.
  Qed.

  (** ** the initial configuration *)
  Definition l0 : L := mkL PIdle 0 0 0%N 0 0 0 0 [].
  Definition A0 : Aux := mkAux (fun a => if Nat.eqb a 0 then Some (0, 0%N) else None) (fun _ => l0).

  Lemma Inv_init : Inv init A0 [].
  Proof.
    constructor; cbn [init A0 pfx views arr narr nitem ikey l0 ph ka ko kpre kit kid].
    - split; [reflexivity|lia].
    - intros a o pre H. destruct (Nat.eqb_spec a 0) as [->|]; [|discriminate]. inversion H; subst. repeat split; auto; try lia; try (cbn; lia).
    - intros a o pre H Hn. destruct (Nat.eqb_spec a 0); [congruence|discriminate].
    - intros pa po ppre i c _ H. discriminate.
    - intros a o pre i p b _ H _ Hp. inversion H; congruence.
    - intros a a' x H1 H2. destruct (Nat.eqb_spec a 0); destruct (Nat.eqb_spec a' 0); congruence.
    - intros a i c b H Hb. inversion H; subst. lia.
    - intros t a i p n [H|H]; discriminate.
    - intros t a i p n H; discriminate.
    - intros t a i p n H; discriminate.
    - intros t t' a i p n a' i' p' n' _ [H|H]; discriminate.
    - intros n _ _ j. reflexivity.
    - intros t. reflexivity.
    - intros t. split; intros H; congruence.
    - intros t n x H. cbn in H. contradiction.
  Qed.

  Lemma nth_thread_progs fuel : forall ths t0 t p,
    nth_error (thread_progs hbits abits W hs fuel t0 ths) t = Some p ->
    exists os, p = thread_prog hbits abits W hs fuel (t0 + t) os.
  Proof.
    induction ths as [|os r IH]; intros t0 t p H; cbn [thread_progs] in H.
    - destruct t; discriminate.
    - destruct t as [|t]; cbn in H.
      + inversion H; subst. exists os. rewrite Nat.add_0_r. reflexivity.
      + destruct (IH (S t0) t p H) as (os' & ->). exists os'. f_equal. lia.
  Qed.

  Lemma init_okR fuel ths : ConcRel.okR view Inv SR (init_cfg hbits abits W hs fuel ths) A0 (fun _ => w).
  Proof.
    split; [exact Inv_init|].
    intros t p Hp. cbn [init_cfg Conc.threads] in Hp. destruct (nth_thread_progs _ _ _ _ Hp) as (os & ->).
    cbn [Nat.add]. eapply ConcRel.safeR_weaken; [|apply safe_thread; reflexivity]. intros; exact I.
  Qed.
End SafeR.

(** ** the slot life cycle, for every step of every execution: data -> converting -> array node, an array-node slot is final,
       and no step that changes flag bits changes the set of hashes present *)
Theorem feldman_step_rel (hbits abits W : nat) (hs : list N) : 0 < hbits -> 0 < abits ->
  forall fuel ths c t c',
    Conc.reach (init_cfg hbits abits W hs fuel ths) c -> Conc.step_cfg c t = Some c' ->
    Rel2 hs (Conc.shared c) (Conc.shared c').
Proof.
  intros Hh Ha fuel ths c t c' Hr Hs.
  pose (SR := fun (_ : nat) (g g' : G) (_ : list (nat * ev)) (_ : list ev) (_ _ : unit) => Rel2 hs g g').
  assert (HSR : forall t g g' tr es, Rel2 hs g g' -> SR t g g' tr es tt tt) by (intros; assumption).
  assert (H0 : ConcRel.cfg_okR view (FeldmanStepInv.Inv hbits abits hs) SR (init_cfg hbits abits W hs fuel ths)).
  { exists A0, (fun _ => tt). apply (@init_okR hbits abits W hs Hh Ha unit SR tt HSR fuel ths). }
  destruct (@ConcRel.reach_step_SR G V ev Aux L unit view (FeldmanStepInv.Inv hbits abits hs) SR _ c t c' H0 Hr Hs) as (tr & es & w1 & w2 & H).
  exact H.
Qed.
Print Assumptions feldman_step_rel.
