(** * DhpLiveGxK: C02, second sentence for DHP -- the allocator discipline [cell_disc].  Part X-K: the invariant [InvC3],
      the nodes and programs that acquire, create, publish and release thread records: reuse_recs, push_rec, help_recs,
      help_scan, and the first half of alloc_thread_data. *)
From Coq Require Import ZArith NArith List String Bool Lia PeanoNat.
From LV Require Import Base.Conc Base.Events Model.DhpLang Model.Dhp Proofs.DhpBase Proofs.DhpHist
  Proofs.DhpLangProofs Proofs.DhpInvA Proofs.DhpStepsA Proofs.DhpQuietA Proofs.DhpLiveA Proofs.DhpLiveB
  Proofs.DhpLiveGcRule Proofs.DhpLiveGcA Proofs.DhpLiveGcB Proofs.DhpLiveGcC Proofs.DhpLiveGcD Proofs.DhpLiveGxA Proofs.DhpLiveGxE Proofs.DhpLiveGxF
  Proofs.DhpLiveGxG Proofs.DhpLiveGxH Proofs.DhpLiveGxI Proofs.DhpLiveGxJ.
Import ListNotations.
Local Open Scope string_scope.
Local Open Scope list_scope.

(** ** what the lower invariants give about records and cells *)
Lemma rec_of_att c g a1 h r t k : JA c g a1 h -> att h r = Some (t, k) -> r_tid (grec g r) = Datatypes.S t /\ r < List.length (recs g).
Proof. intros J A. destruct (ja_att _ _ _ _ J r t k A) as (_ & X1 & X2 & _). auto. Qed.
Lemma others_not_r c st h t r : K c st h -> gtl st t = Some r -> forall u, u <> t -> gtl st u <> Some r.
Proof. intros HK Ht u N Hu. destruct (k_at _ _ _ HK _ _ Ht) as (k & A). destruct (k_at _ _ _ HK _ _ Hu) as (k' & A'). congruence. Qed.
Lemma ownc_excl c g a1 h u t s : JA c g a1 h -> ownc c h u s -> ownc c h t s -> u = t.
Proof.
  intros J. destruct s as [r i|b i]; cbn.
  - intros ((k & A) & _) ((k' & A') & _). congruence.
  - intros ((r & k & kb & A & B) & _) ((r' & k' & kb' & A' & B') & _). assert (r = r') by (eapply JA_latt_uniq; eauto). subst r'. congruence.
Qed.
Lemma ownc_latt c h u b i : ownc c h u (GE b i) -> latt h b.
Proof. intros ((r & k & kb & A & B) & _). exists r, u, k, kb. auto. Qed.

Definition RK (l l' : VG * XC) : Prop :=
  w_op (fst l') = w_op (fst l) /\ w_tl (fst l') = w_tl (fst l) /\ w_mp (fst l') = w_mp (fst l) /\ w_pv (fst l') = w_pv (fst l) /\
  sameCh (snd l) (snd l').
Lemma RK_refl l : RK l l. Proof. unfold RK, sameCh. auto 10. Qed.
Lemma RK_trans l1 l2 l3 : RK l1 l2 -> RK l2 l3 -> RK l1 l3.
Proof. unfold RK, sameCh. intros (A1&A2&A3&A4&A5&A6&A7&A8) (B1&B2&B3&B4&B5&B6&B7&B8). repeat split; congruence. Qed.
Lemma RC_RK l l' : RC l l' -> RK l l'.
Proof. intros (A1&A2&A3&A4&A5). unfold RK, sameCh. rewrite A5. auto 10. Qed.

Section Rec.
  Variable c : cfg.
  Notation rdc := (rdsafe (InvAGB c) viewC3 (InvC3 c)).
  Notation I1B := (I1 (InvAGB c)).

  Lemma JCh_setx g st x h t xt : sameCh (x t) xt -> JCh c g st x h -> JCh c g st (fnu x t xt) h.
  Proof.
    intros Hs. apply JCh_same_x. intros u. unfold fnu. destruct (Nat.eqb_spec u t) as [->|N]; [exact Hs|unfold sameCh; auto].
  Qed.

  (** a node that writes thread-record words only (its events are plain accesses) *)
  Lemma InvC3_recnode g g' a tr t es xt : InvC3 c g a tr -> I1B g tr -> I1B g' (tr ++ Conc.tag t es) ->
    Forall (fun e => quietC e = true) es -> sameCh (ac_x a t) xt ->
    (forall a1, JC c g (gfold tr) (ac_x a) (hist tr) -> JA c g a1 (hist tr) -> K c (gfold tr) (hist tr) ->
       JR g' (fnu (ac_x a) t xt) /\ JCh c g' (gfold tr) (ac_x a) (hist tr)) ->
    InvC3 c g' (setc a t es xt) (tr ++ Conc.tag t es).
  Proof.
    intros Hi Hb Ha Hq Hs Hn. apply (InvC3_step c g); auto.
    - intros a1 F HG J J1 T HK HT HL. now apply PhiD_quietC.
    - intros a1 a1' F HG J J1 HK HT HL _ _ _ _ _. destruct (Hn a1 J J1 HK) as (JR' & JC'). rewrite gfold_app, hist_app.
      destruct (quietC_fold t es Hq (gfold tr) (hist tr)) as (A1 & A2 & A3). constructor; [exact JR'|]. apply JCh_setx; [exact Hs|].
      eapply JCh_quiet; [exact JC'|apply piC_refl| |exact A2|exact A3]. intros u. destruct (A1 u) as (X1 & X2 & X3 & X4). auto.
  Qed.
  Lemma InvC3_recloc g g' a tr t xt : InvC3 c g a tr -> I1B g tr -> sameCh (ac_x a t) xt ->
    (forall a1, JC c g (gfold tr) (ac_x a) (hist tr) -> JA c g a1 (hist tr) -> K c (gfold tr) (hist tr) ->
       JR g' (fnu (ac_x a) t xt) /\ JCh c g' (gfold tr) (ac_x a) (hist tr)) ->
    InvC3 c g' (mkAC (ac_g a) (fnu (ac_x a) t xt)) tr.
  Proof.
    intros Hi Hb Hs Hn. apply (InvC3_loc c g); auto. intros a1 F HG J J1 T HK HT HL. destruct (Hn a1 J J1 HK) as (JR' & JC').
    constructor; [exact JR'|]. now apply JCh_setx.
  Qed.

  Lemma sameCh_setR xt hd nw cu : sameCh xt (setR xt hd nw cu).
  Proof. unfold sameCh, setR. cbn. auto. Qed.
  Lemma fnu_other_eq {B} (f : nat -> B) t v : forall u, u <> t -> fnu f t v u = f u.
  Proof. intros u N. now apply fnu_other. Qed.

  Lemma view_setc_q a t es xt : Forall (fun e => quietC e = true) es ->
    w_op (fst (viewC3 (setc a t es xt) t)) = w_op (fst (viewC3 a t)) /\ w_tl (fst (viewC3 (setc a t es xt) t)) = w_tl (fst (viewC3 a t)) /\
    w_mp (fst (viewC3 (setc a t es xt) t)) = w_mp (fst (viewC3 a t)) /\ w_pv (fst (viewC3 (setc a t es xt) t)) = w_pv (fst (viewC3 a t)) /\
    snd (viewC3 (setc a t es xt) t) = xt.
  Proof.
    intros Hq. destruct (quietC_fold t es Hq (ac_g a) h0) as (A1 & _). destruct (A1 t) as (X1 & X2 & X3 & X4).
    unfold viewC3, setc. cbn. rewrite fnu_same. auto.
  Qed.

  (** the cursor is (re)loaded from thread_list_ *)
  Lemma rK_ld_tlist {R} t (k : option nat -> @dprog G ev R) l Q :
    (forall h l', RK l l' -> xc_hold (snd l') = xc_hold (snd l) -> xc_new (snd l') = xc_new (snd l) -> xc_cur (snd l') = h -> rdc t (k h) l' Q) ->
    rdc t (DAct a_ld_tlist k) l Q.
  Proof.
    intros Hk. apply (rdc_act c t _ k l Q (fun g => setR (snd l) (xc_hold (snd l)) (xc_new (snd l)) (tlist g))). intros g a tr Hi Hv Hb Ha.
    assert (Ex : snd l = ac_x a t) by (rewrite <- Hv; reflexivity). cbn [a_ld_tlist fst snd]. split.
    - apply (InvC3_recnode g); auto; [repeat constructor; apply quietC_acc|rewrite <- Ex; apply sameCh_setR|].
      intros a1 [J0 JC0] J1 HK. split; [|exact JC0]. eapply (JR_cur g _ _ t (tlist g) J0); try (rewrite fnu_same; cbn; rewrite ?Ex; reflexivity).
      + apply fnu_other_eq. + intros n E. now left.
    - destruct (view_setc_q a t (acc KLd obj_tlist true) (setR (snd l) (xc_hold (snd l)) (xc_new (snd l)) (tlist g))) as (V1 & V2 & V3 & V4 & V5);
        [repeat constructor; apply quietC_acc|].
      apply Hk; rewrite ?V5; cbn; try reflexivity; [unfold RK; rewrite V1, V2, V3, V4, V5, <- Hv; repeat split; auto; apply sameCh_setR].
  Qed.

  (** the cursor moves along next_ *)
  Lemma rK_cur_next {R} t h (k : option nat -> @dprog G ev R) l Q :
    (forall nx l', RK l l' -> xc_hold (snd l') = xc_hold (snd l) -> xc_new (snd l') = xc_new (snd l) -> xc_cur (snd l') = nx -> rdc t (k nx) l' Q) ->
    rdc t (DLoc (fun g => (g, r_next (grec g h))) k) l Q.
  Proof.
    intros Hk. apply (rdc_loc c t _ k l Q (fun g => setR (snd l) (xc_hold (snd l)) (xc_new (snd l)) (r_next (grec g h)))). intros g a tr Hi Hv Hb _.
    assert (Ex : snd l = ac_x a t) by (rewrite <- Hv; reflexivity). cbn [fst snd]. split.
    - apply (InvC3_recloc g); auto; [rewrite <- Ex; apply sameCh_setR|].
      intros a1 [J0 JC0] J1 HK. split; [|exact JC0]. eapply (JR_cur g _ _ t (r_next (grec g h)) J0); try (rewrite fnu_same; cbn; rewrite ?Ex; reflexivity).
      + apply fnu_other_eq. + intros n E. right. eauto.
    - apply Hk; cbn; try reflexivity; try (unfold RK; cbn; rewrite <- Hv; cbn; repeat split; auto; apply sameCh_setR).
  Qed.

  (** thread_id_ of the record under the cursor is acquired (or not) *)
  Lemma rK_cas_tid {R} t h (k : bool -> @dprog G ev R) l Q : xc_cur (snd l) = Some h -> xc_init (snd l) = None ->
    (forall l', RK l l' -> snd l' = snd l -> rdc t (k false) l' Q) ->
    (forall l', RK l l' -> xc_hold (snd l') = h :: xc_hold (snd l) -> xc_new (snd l') = xc_new (snd l) ->
                xc_cur (snd l') = xc_cur (snd l) -> rdc t (k true) l' Q) ->
    rdc t (DAct (a_cas_tid h 0 (Datatypes.S t)) k) l Q.
  Proof.
    intros Hc Hin Hk0 Hk1.
    apply (rdc_act c t _ k l Q (fun g => if Nat.eqb (r_tid (grec g h)) 0 then setR (snd l) (h :: xc_hold (snd l)) (xc_new (snd l)) (xc_cur (snd l)) else snd l)).
    intros g a tr Hi Hv Hb Ha. assert (Ex : snd l = ac_x a t) by (rewrite <- Hv; reflexivity). unfold a_cas_tid in *.
    destruct (Nat.eqb_spec (r_tid (grec g h)) 0) as [E0|N0]; cbn [fst snd] in *.
    - assert (Hq : Forall (fun e => quietC e = true) (acc KCas (obj_rec h 0) true)) by (repeat constructor; apply quietC_acc).
      split.
      + apply (InvC3_recnode g); auto; [rewrite <- Ex; apply sameCh_setR|]. intros a1 [J0 JC0] J1 HK.
        assert (Hh : h < List.length (recs g)) by (apply (jr_cur _ _ J0 t h); rewrite <- Ex; exact Hc). split.
        * eapply (JR_tid g _ _ t h _ J0); try (rewrite fnu_same; cbn; rewrite ?Ex; reflexivity).
          -- apply fnu_other_eq.
          -- intros u N Hu. destruct (jr_hold _ _ J0 u h Hu) as (_ & E). rewrite E0 in E. discriminate.
          -- intros r0. rewrite fnu_same. cbn. intros [<-|Hr0]; [left; auto|]. destruct (Nat.eq_dec r0 h) as [->|Nr]; [left; auto|right; rewrite <- Ex; auto].
          -- intros w Hw _. exfalso. destruct (jr_new _ _ J0 w h Hw) as (_ & _ & _ & A4 & _). apply (A4 t). rewrite <- Ex. exact Hc.
        * apply JCh_tid; [exact JC0|]. intros t' Hi'. destruct (Nat.eq_dec t' t) as [->|N]; [rewrite <- Ex, Hin in Hi'; discriminate|left; congruence].
      + destruct (view_setc_q a t (acc KCas (obj_rec h 0) true) (setR (snd l) (h :: xc_hold (snd l)) (xc_new (snd l)) (xc_cur (snd l))) Hq) as (V1 & V2 & V3 & V4 & V5).
        apply Hk1; rewrite ?V5; cbn; try reflexivity; try (unfold RK; rewrite V1, V2, V3, V4, V5, <- Hv; repeat split; auto; apply sameCh_setR).
    - assert (Hq : Forall (fun e => quietC e = true) (acc KCas (obj_rec h 0) false)) by (repeat constructor; apply quietC_acc).
      split.
      + rewrite Ex. apply (InvC3_quiet c g); auto. apply piX_refl.
      + destruct (view_setc_q a t (acc KCas (obj_rec h 0) false) (snd l) Hq) as (V1 & V2 & V3 & V4 & V5).
        apply Hk0; [|exact V5]. unfold RK. rewrite V1, V2, V3, V4, V5, <- Hv. unfold sameCh. repeat split; auto.
  Qed.

  (** thread_id_ of a held record is reset *)
  Lemma rK_release {R} t r (k : unit -> @dprog G ev R) l Q : In r (xc_hold (snd l)) ->
    (forall l', RK l l' -> xc_hold (snd l') = remove Nat.eq_dec r (xc_hold (snd l)) -> xc_new (snd l') = xc_new (snd l) ->
                xc_cur (snd l') = xc_cur (snd l) -> rdc t (k tt) l' Q) ->
    rdc t (DAct (a_st_tid r 0) k) l Q.
  Proof.
    intros Hin Hk.
    apply (rdc_act c t _ k l Q (fun g => setR (snd l) (remove Nat.eq_dec r (xc_hold (snd l))) (xc_new (snd l)) (xc_cur (snd l)))).
    intros g a tr Hi Hv Hb Ha. assert (Ex : snd l = ac_x a t) by (rewrite <- Hv; reflexivity). cbn [a_st_tid fst snd].
    assert (Hq : Forall (fun e => quietC e = true) (acc KSt (obj_rec r 0) true)) by (repeat constructor; apply quietC_acc).
    split.
    - apply (InvC3_recnode g); auto; [rewrite <- Ex; apply sameCh_setR|]. intros a1 [J0 JC0] J1 HK.
      assert (Hr : In r (xc_hold (ac_x a t))) by (rewrite <- Ex; exact Hin). destruct (jr_hold _ _ J0 t r Hr) as (Hl & Ht). split.
      + eapply (JR_tid g _ _ t r _ J0); try (rewrite fnu_same; cbn; rewrite ?Ex; reflexivity).
        * apply fnu_other_eq.
        * intros u N Hu. destruct (jr_hold _ _ J0 u r Hu) as (_ & E). rewrite Ht in E. injection E as E. now apply N.
        * intros r0. rewrite fnu_same. cbn. intros Hr0. apply in_remove in Hr0. right. rewrite <- Ex. tauto.
        * intros w _ Hr0. rewrite fnu_same in Hr0. cbn in Hr0. apply in_remove in Hr0. now destruct Hr0.
      + apply JCh_tid; [exact JC0|]. intros t' _. left. discriminate.
    - destruct (view_setc_q a t (acc KSt (obj_rec r 0) true) (setR (snd l) (remove Nat.eq_dec r (xc_hold (snd l))) (xc_new (snd l)) (xc_cur (snd l))) Hq) as (V1 & V2 & V3 & V4 & V5).
      apply Hk; rewrite ?V5; cbn; try reflexivity; try (unfold RK; rewrite V1, V2, V3, V4, V5, <- Hv; repeat split; auto; apply sameCh_setR).
  Qed.

  (** thread_id_ of the record just created is set *)
  Lemma rK_st_tid_new {R} t r (k : unit -> @dprog G ev R) l Q : xc_new (snd l) = Some r -> xc_init (snd l) = None ->
    (forall l', RK l l' -> xc_hold (snd l') = r :: xc_hold (snd l) -> xc_new (snd l') = xc_new (snd l) ->
                xc_cur (snd l') = xc_cur (snd l) -> rdc t (k tt) l' Q) ->
    rdc t (DAct (a_st_tid r (Datatypes.S t)) k) l Q.
  Proof.
    intros Hn Hin Hk.
    apply (rdc_act c t _ k l Q (fun g => setR (snd l) (r :: xc_hold (snd l)) (xc_new (snd l)) (xc_cur (snd l)))).
    intros g a tr Hi Hv Hb Ha. assert (Ex : snd l = ac_x a t) by (rewrite <- Hv; reflexivity). cbn [a_st_tid fst snd].
    assert (Hq : Forall (fun e => quietC e = true) (acc KSt (obj_rec r 0) true)) by (repeat constructor; apply quietC_acc).
    split.
    - apply (InvC3_recnode g); auto; [rewrite <- Ex; apply sameCh_setR|]. intros a1 [J0 JC0] J1 HK.
      assert (Hnw : xc_new (ac_x a t) = Some r) by (rewrite <- Ex; exact Hn). destruct (jr_new _ _ J0 t r Hnw) as (A1 & A2 & A3 & A4 & A5 & A6). split.
      + eapply (JR_tid g _ _ t r _ J0); try (rewrite fnu_same; cbn; rewrite ?Ex; reflexivity).
        * apply fnu_other_eq.
        * exact A5.
        * intros r0. rewrite fnu_same. cbn. intros [<-|Hr0]; [left; auto|]. destruct (Nat.eq_dec r0 r) as [->|Nr]; [left; auto|right; rewrite <- Ex; auto].
        * intros w Hw _. now apply A6.
      + apply JCh_tid; [exact JC0|]. intros t' Hi'. destruct (Nat.eq_dec t' t) as [->|N]; [rewrite <- Ex, Hin in Hi'; discriminate|left; congruence].
    - destruct (view_setc_q a t (acc KSt (obj_rec r 0) true) (setR (snd l) (r :: xc_hold (snd l)) (xc_new (snd l)) (xc_cur (snd l))) Hq) as (V1 & V2 & V3 & V4 & V5).
      apply Hk; rewrite ?V5; cbn; try reflexivity; try (unfold RK; rewrite V1, V2, V3, V4, V5, <- Hv; repeat split; auto; apply sameCh_setR).
  Qed.

  (** a record is created *)
  Lemma rK_new_rec {R} t (k : nat -> @dprog G ev R) l Q :
    (forall r l', RK l l' -> xc_hold (snd l') = xc_hold (snd l) -> xc_new (snd l') = Some r -> xc_cur (snd l') = xc_cur (snd l) -> rdc t (k r) l' Q) ->
    rdc t (DLoc (new_rec c) k) l Q.
  Proof.
    intros Hk. apply (rdc_loc c t _ k l Q (fun g => setR (snd l) (xc_hold (snd l)) (Some (List.length (recs g))) (xc_cur (snd l)))).
    intros g a tr Hi Hv Hb _. assert (Ex : snd l = ac_x a t) by (rewrite <- Hv; reflexivity). cbn [new_rec fst snd]. split.
    - apply (InvC3_recloc g); auto; [rewrite <- Ex; apply sameCh_setR|]. intros a1 [J0 JC0] J1 HK. split.
      + eapply (JR_new_rec g _ _ t _ J0); try (rewrite fnu_same; cbn; rewrite ?Ex; reflexivity); [reflexivity|apply fnu_other_eq].
      + apply JCh_new_rec; [exact JC0|cbn; apply repeat_length|reflexivity| |].
        * intros t0 r0 Ht0. destruct (k_at _ _ _ HK _ _ Ht0) as (k0 & A). now destruct (rec_of_att _ _ _ _ _ _ _ J1 A).
        * intros u r0 i ((k0 & A) & _). now destruct (rec_of_att _ _ _ _ _ _ _ J1 A).
    - apply Hk; cbn; try reflexivity; try (unfold RK; cbn; rewrite <- Hv; cbn; repeat split; auto; apply sameCh_setR).
  Qed.

  Lemma piC_rs_next g r old : piC g (upd_rec g r (rs_next old)).
  Proof.
    split; [apply len_upd_rec|]. split; [reflexivity|]. split; [|intros b; reflexivity]. intros r'. rewrite grec_upd_rec_any.
    destruct (Nat.eqb r' r && Nat.ltb r (List.length (recs g))) eqn:E; [|auto]. apply andb_true_iff in E. destruct E as (E & _). apply Nat.eqb_eq in E. subst. auto.
  Qed.

  (** push_rec: next_ of the new record is written *)
  Lemma rK_rs_next {R} t r old (k : unit -> @dprog G ev R) l Q : xc_new (snd l) = Some r -> xc_cur (snd l) = old ->
    rdc t (k tt) l Q -> rdc t (DLoc (fun g => (upd_rec g r (rs_next old), tt)) k) l Q.
  Proof.
    intros Hn Hc Hk. apply (rdc_loc c t _ k l Q (fun _ => snd l)). intros g a tr Hi Hv Hb _.
    assert (Ex : snd l = ac_x a t) by (rewrite <- Hv; reflexivity). cbn [fst snd]. split.
    - apply (InvC3_recloc g); auto; [rewrite Ex; unfold sameCh; auto|]. intros a1 [J0 JC0] J1 HK. split.
      + apply JR_same_x with (x := ac_x a); [intros u; rewrite Ex, fnu_id; auto|]. eapply JR_rs_next; [exact J0|rewrite <- Ex; exact Hn|now rewrite <- Ex].
      + eapply JCh_quiet; [exact JC0|apply piC_rs_next| | |]; auto.
    - replace (viewG (ac_g a) t, snd l) with l; [exact Hk|]. rewrite <- Hv. reflexivity.
  Qed.

  (** push_rec: the CAS on thread_list_ *)
  Lemma rK_cas_tlist {R} t r old (k : bool * option nat -> @dprog G ev R) l Q : xc_new (snd l) = Some r ->
    (forall l', RK l l' -> xc_hold (snd l') = xc_hold (snd l) -> xc_new (snd l') = None -> rdc t (k (true, old)) l' Q) ->
    (forall o l', RK l l' -> xc_hold (snd l') = xc_hold (snd l) -> xc_new (snd l') = Some r -> xc_cur (snd l') = o -> rdc t (k (false, o)) l' Q) ->
    rdc t (DAct (a_cas_tlist old (Some r)) k) l Q.
  Proof.
    intros Hn Hk1 Hk0.
    apply (rdc_act c t _ k l Q (fun g => if oeqb (tlist g) old then setR (snd l) (xc_hold (snd l)) None (xc_cur (snd l))
                                           else setR (snd l) (xc_hold (snd l)) (xc_new (snd l)) (tlist g))).
    intros g a tr Hi Hv Hb Ha. assert (Ex : snd l = ac_x a t) by (rewrite <- Hv; reflexivity). unfold a_cas_tlist in *.
    destruct (oeqb (tlist g) old) eqn:Eo; cbn [fst snd] in *.
    - assert (Hq : Forall (fun e => quietC e = true) (acc KCas obj_tlist true)) by (repeat constructor; apply quietC_acc).
      split.
      + apply (InvC3_recnode g); auto; [rewrite <- Ex; apply sameCh_setR|]. intros a1 [J0 JC0] J1 HK. split.
        * eapply (JR_publish g _ _ t r J0); try (rewrite fnu_same; cbn; rewrite ?Ex; reflexivity); [rewrite <- Ex; exact Hn|apply fnu_other_eq].
        * eapply JCh_quiet; [exact JC0| | | |]; auto. unfold piC. repeat split; auto.
      + destruct (view_setc_q a t _ (setR (snd l) (xc_hold (snd l)) None (xc_cur (snd l))) Hq) as (V1 & V2 & V3 & V4 & V5).
        apply Hk1; rewrite ?V5; cbn; try reflexivity; try (unfold RK; rewrite V1, V2, V3, V4, V5, <- Hv; repeat split; auto; apply sameCh_setR).
    - assert (Hq : Forall (fun e => quietC e = true) (acc KCas obj_tlist false)) by (repeat constructor; apply quietC_acc).
      split.
      + apply (InvC3_recnode g); auto; [rewrite <- Ex; apply sameCh_setR|]. intros a1 [J0 JC0] J1 HK. split; [|exact JC0].
        eapply (JR_cur g _ _ t (tlist g) J0); try (rewrite fnu_same; cbn; rewrite ?Ex; reflexivity); [apply fnu_other_eq|intros n E; now left].
      + destruct (view_setc_q a t _ (setR (snd l) (xc_hold (snd l)) (xc_new (snd l)) (tlist g)) Hq) as (V1 & V2 & V3 & V4 & V5).
        apply Hk0; rewrite ?V5; cbn; try reflexivity; try (unfold RK; rewrite V1, V2, V3, V4, V5, <- Hv; repeat split; auto; apply sameCh_setR). exact Hn.
  Qed.

  (** ** the programs *)
  Definition Qpush (l : VG * XC) : option unit -> VG * XC -> Prop := fun o l' =>
    match o with Some _ => RK l l' /\ xc_hold (snd l') = xc_hold (snd l) /\ xc_new (snd l') = None | None => True end.

  Lemma S_push_rec t r : forall fuel old l, xc_new (snd l) = Some r -> xc_cur (snd l) = old -> rdc t (push_rec fuel r old) l (Qpush l).
  Proof.
    induction fuel as [|fuel IH]; intros old l Hn Hc; cbn [push_rec].
    { unfold fuel_out. apply rdc_emit_q; [repeat constructor|]. intros l' _. exact I. }
    unfold xbind at 1. unfold loc at 1. cbn [dbind]. apply (rK_rs_next t r old); [exact Hn|exact Hc|].
    unfold xbind at 1. unfold act at 1. cbn [dbind]. apply (rK_cas_tlist t r old); [exact Hn| |].
    - intros l1 R1 H1 N1. cbn [fst rdsafe ret Qpush]. auto.
    - intros o l1 R1 H1 N1 C1. cbn [fst snd]. eapply rdsafe_weaken; [|apply (IH o l1 N1 C1)].
      intros [?u|] l2 K2; [|exact I]. destruct K2 as (R2 & H2 & N2). split; [eapply RK_trans; eauto|]. split; congruence.
  Qed.

  Definition Qreuse (l : VG * XC) : option (option nat) -> VG * XC -> Prop := fun o l' =>
    match o with
    | Some oh => RK l l' /\ xc_new (snd l') = xc_new (snd l) /\ (forall r, In r (xc_hold (snd l)) -> In r (xc_hold (snd l'))) /\
                 match oh with Some h => In h (xc_hold (snd l')) | None => True end
    | None => True
    end.

  Lemma S_reuse_recs t : forall fuel node l, xc_cur (snd l) = node -> xc_init (snd l) = None ->
    rdc t (reuse_recs fuel (Datatypes.S t) node) l (Qreuse l).
  Proof.
    induction fuel as [|fuel IH]; intros node l Hc Hi; destruct node as [h|]; cbn [reuse_recs]; try (cbn; split; [apply RK_refl|auto]; fail).
    { unfold fuel_out. apply rdc_emit_q; [repeat constructor|]. intros l' _. exact I. }
    unfold xbind at 1. unfold act at 1. cbn [dbind]. apply (rK_cas_tid t h); [exact Hc|exact Hi| |].
    - intros l1 R1 E1. unfold xbind at 1. unfold loc at 1. cbn [dbind]. apply (rK_cur_next t h). intros nx l2 R2 H2 N2 C2.
      eapply rdsafe_weaken; [|apply (IH nx l2 C2)].
      + intros [oh|] l3 K3; [|exact I]. destruct K3 as (R3 & N3 & H3 & O3). split; [eapply RK_trans; [exact R1|eapply RK_trans; eauto]|].
        split; [rewrite N3, N2, E1; reflexivity|]. split; [|exact O3]. intros r0 Hr0. apply H3. rewrite H2, E1. exact Hr0.
      + destruct R2 as (_ & _ & _ & _ & (E & _)). destruct R1 as (_ & _ & _ & _ & (E' & _)). congruence.
    - intros l1 R1 H1 N1 C1. apply rdc_neu_seq; [apply NeuC_act; apply c_st_free| |intros; exact I]. intros _ l2 R2. cbn [rdsafe ret Qreuse].
      destruct R2 as (A1 & A2 & A3 & A4 & A5). split; [eapply RK_trans; [exact R1|apply RC_RK; unfold RC; auto]|]. rewrite A5.
      split; [exact N1|]. split; [intros r0 Hr0; rewrite H1; now right|rewrite H1; now left].
  Qed.

  Definition Qhelp (me : nat) (l : VG * XC) : option unit -> VG * XC -> Prop := fun o l' =>
    match o with Some _ => RK l l' /\ xc_new (snd l') = xc_new (snd l) /\ (In me (xc_hold (snd l)) -> In me (xc_hold (snd l'))) | None => True end.

  Lemma S_help_recs t me : forall fuel node l, xc_cur (snd l) = node -> xc_init (snd l) = None ->
    rdc t (help_recs c fuel me (Datatypes.S t) node) l (Qhelp me l).
  Proof.
    induction fuel as [|fuel IH]; intros node l Hc Hi; destruct node as [h|]; cbn [help_recs]; try (cbn; split; [apply RK_refl|auto]; fail).
    { unfold fuel_out. apply rdc_emit_q; [repeat constructor|]. intros l' _. exact I. }
    assert (Hcont : forall l1, RK l l1 -> xc_new (snd l1) = xc_new (snd l) -> (In me (xc_hold (snd l)) -> In me (xc_hold (snd l1))) ->
              rdc t (nx <- loc (fun g => (g, r_next (grec g h))) ;; help_recs c fuel me (Datatypes.S t) nx) l1 (Qhelp me l)).
    { intros l1 R1 N1 M1. unfold xbind at 1. unfold loc at 1. cbn [dbind]. apply (rK_cur_next t h). intros nx l2 R2 H2 N2 C2.
      eapply rdsafe_weaken; [|apply (IH nx l2 C2)].
      - intros [?u|] l3 K3; [|exact I]. destruct K3 as (R3 & N3 & M3). split; [eapply RK_trans; [exact R1|eapply RK_trans; eauto]|].
        split; [congruence|]. intros Hm. apply M3. rewrite H2. now apply M1.
      - destruct R2 as (_ & _ & _ & _ & (E & _)). destruct R1 as (_ & _ & _ & _ & (E' & _)). congruence. }
    destruct (Nat.eqb_spec h me) as [Eh|Nh]; [apply Hcont; [apply RK_refl|reflexivity|auto]|].
    apply rdc_neu_seq; [apply NeuC_act; apply c_ld_free| |intros; exact I]. intros fr l1 R1.
    assert (E1 : snd l1 = snd l) by (now destruct R1 as (_ & _ & _ & _ & E)). apply RC_RK in R1.
    destruct fr; [apply Hcont; [exact R1|now rewrite E1|now rewrite E1]|].
    apply rdc_neu_seq; [apply NeuC_act; apply c_ld_tid| |intros; exact I]. intros owner l2 R2.
    assert (E2 : snd l2 = snd l) by (destruct R2 as (_ & _ & _ & _ & E); congruence). apply RC_RK in R2.
    assert (R02 : RK l l2) by (eapply RK_trans; eauto).
    destruct (negb (Nat.eqb owner 0)); [apply Hcont; [exact R02|now rewrite E2|now rewrite E2]|].
    unfold xbind at 1. unfold act at 1. cbn [dbind]. apply (rK_cas_tid t h); [rewrite E2; exact Hc|rewrite E2; exact Hi| |].
    - intros l3 R3 E3. cbn [negb]. apply Hcont; [eapply RK_trans; eauto|congruence|congruence].
    - intros l3 R3 H3 N3 C3. cbn [negb].
      assert (Hn : forall {X} (pp : P X), NeuC c pp -> forall l4, RK l l4 -> snd l4 = snd l3 ->
                forall Y (q : X -> P Y) Q, (forall x l5, RK l l5 -> snd l5 = snd l3 -> rdc t (q x) l5 Q) -> (forall l5, Q None l5) -> rdc t (xbind pp q) l4 Q).
      { intros X pp Hp l4 R4 E4 Y q Q Hq HN. apply rdc_neu_seq; auto. intros x l5 R5. apply Hq.
        - eapply RK_trans; [exact R4|now apply RC_RK]. - destruct R5 as (_ & _ & _ & _ & E). congruence. }
      assert (R03 : RK l l3) by (eapply RK_trans; eauto).
      apply (Hn _ _ (NeuC_act c _ (c_faa_sync h)) l3 R03 eq_refl); [|intros; exact I]. intros _ l4 R4 E4.
      apply (Hn _ (loc (fun g => (g, r_head (grec g h))))); [apply NeuC_loc; intros; apply piX_refl|exact R4|exact E4| |intros; exact I]. intros hd l5 R5 E5.
      apply (Hn _ _ (C_move_blocks c me h (c_spin c) hd) l5 R5 E5); [|intros; exact I]. intros _ l6 R6 E6.
      apply (Hn _ _ (C_rt_fini c h) l6 R6 E6); [|intros; exact I]. intros _ l7 R7 E7.
      apply (Hn _ _ (NeuC_act c _ (c_st_free h true)) l7 R7 E7); [|intros; exact I]. intros _ l8 R8 E8.
      unfold xbind at 1. unfold act at 1. cbn [dbind]. apply (rK_release t h); [rewrite E8, H3; now left|]. intros l9 R9 H9 N9 C9.
      apply Hcont; [eapply RK_trans; eauto|rewrite N9, E8, N3, E2; reflexivity|].
      intros Hm. rewrite H9, E8, H3. apply in_in_remove; [congruence|]. right. rewrite E2. exact Hm.
  Qed.

  Lemma S_help_scan t me l : xc_init (snd l) = None -> rdc t (help_scan c me (Datatypes.S t)) l (Qhelp me l).
  Proof.
    intros Hi. unfold help_scan. unfold xbind at 1. unfold act at 1. cbn [dbind]. apply rK_ld_tlist. intros h l1 R1 H1 N1 C1.
    apply rdc_xbind. eapply rdsafe_weaken; [|apply (S_help_recs t me (c_spin c) h l1 C1)].
    - intros [?u|] l2 K2; [|exact I]. destruct K2 as (R2 & N2 & M2). eapply rdsafe_weaken; [|apply (C_scan c me)].
      intros [?v|] l3 R3; [|exact I]. cbn. split; [eapply RK_trans; [exact R1|eapply RK_trans; [exact R2|now apply RC_RK]]|].
      destruct R3 as (_ & _ & _ & _ & E3). rewrite E3. split; [congruence|]. intros Hm. apply M2. now rewrite H1.
    - destruct R1 as (_ & _ & _ & _ & (E & _)). congruence.
  Qed.
End Rec.
