(** * Soundness of the fc_process / fc_apply functions of LV.Model.FcBatch for ALL request lists and
      container contents. *)
From Coq Require Import ZArith List Bool PeanoNat Lia.
From LV Require Import Base.Lin Spec.Specs Proofs.LinProofs Model.FcBatch.
Import ListNotations.

Set Implicit Arguments.

Lemma NoDup_app_disj {A} (l1 l2 : list A) :
  NoDup l1 -> NoDup l2 -> (forall x, In x l1 -> In x l2 -> False) -> NoDup (l1 ++ l2).
Proof.
  induction l1 as [|a l1 IH]; intros H1 H2 Hd; cbn; auto.
  inversion H1; subst. constructor.
  - intros Hin. apply in_app_or in Hin. destruct Hin as [Hin|Hin]; [contradiction|].
    apply (Hd a); [left; reflexivity|exact Hin].
  - apply IH; auto. intros x Hx1 Hx2. apply (Hd x); [right; exact Hx1|exact Hx2].
Qed.

(** ** what the kernel needs from a container's fc_process iteration *)
Section Sound.
  Variable S : Spec.
  Variable P : Type.
  Variable pheld : P -> list (nat * nat * Z).     (* requests remembered by the loop (itPrev) *)
  Variable okop : nat -> bool.
  Variable dec : nat -> Z -> Op S.
  Variable visit : P -> St S -> nat -> nat -> nat -> Z -> P * St S * list (nat * Res S).

  (** the request word and argument currently stored in each record *)
  Definition env := nat -> nat * Z.
  Definition agrees (rho : env) (l : list (nat * nat * Z)) : Prop :=
    forall q o a, In (q, o, a) l -> rho q = (o, a) /\ okop o = true.

  Definition op_of (rho : env) (q : nat) : Op S := dec (fst (rho q)) (snd (rho q)).

  (** the completed requests, executed one after the other from [c], return exactly the responses written *)
  Fixpoint run_comps (rho : env) (c : St S) (cs : list (nat * Res S)) : Prop :=
    match cs with
    | [] => True
    | (q, rs) :: rest => snd (sstep S c (op_of rho q)) = rs /\ run_comps rho (fst (sstep S c (op_of rho q))) rest
    end.
  Fixpoint final_comps (rho : env) (c : St S) (cs : list (nat * Res S)) : St S :=
    match cs with
    | [] => c
    | (q, _) :: rest => final_comps rho (fst (sstep S c (op_of rho q))) rest
    end.

  Definition visit_sound : Prop :=
    forall rho p c r op tid arg p' c' cs,
      visit p c r op tid arg = (p', c', cs) ->
      rho r = (op, arg) -> okop op = true -> agrees rho (pheld p) ->
      NoDup (map fst cs) /\
      (forall q, In q (map fst cs) -> q = r \/ In q (map (fun x => fst (fst x)) (pheld p))) /\
      run_comps rho c cs /\ final_comps rho c cs = c' /\
      agrees rho (pheld p') /\
      (forall x, In x (pheld p') -> (x = (r, op, arg) \/ In x (pheld p)) /\ ~ In (fst (fst x)) (map fst cs)).

  Lemma run_comps_app rho c cs1 cs2 :
    run_comps rho c (cs1 ++ cs2) <-> run_comps rho c cs1 /\ run_comps rho (final_comps rho c cs1) cs2.
  Proof. revert c; induction cs1 as [|[q rs] cs1 IH]; intros c; cbn; [tauto|]. rewrite IH. tauto. Qed.

  Lemma final_comps_app rho c cs1 cs2 :
    final_comps rho c (cs1 ++ cs2) = final_comps rho (final_comps rho c cs1) cs2.
  Proof. revert c; induction cs1 as [|[q rs] cs1 IH]; intros c; cbn; auto. Qed.

  (** [run_comps] is [Lin.legal] of the sequence of (operation, response) pairs *)
  Lemma run_comps_legal rho c cs :
    run_comps rho c cs <-> legal c (map (fun x => (op_of rho (fst x), snd x)) cs).
  Proof. revert c; induction cs as [|[q rs] cs IH]; intros c; cbn; [tauto|]. rewrite IH. tauto. Qed.

  Lemma final_comps_final rho c cs :
    final_comps rho c cs = final c (map (fun x => (op_of rho (fst x), snd x)) cs).
  Proof. revert c; induction cs as [|[q rs] cs IH]; intros c; cbn; auto. Qed.

  (** *** fc_process over a whole list of pending requests *)
  Definition rec_of (x : nat * nat * nat * Z) : nat := fst (fst (fst x)).
  Definition req_agrees (rho : env) (reqs : list (nat * nat * nat * Z)) : Prop :=
    forall r op tid arg, In (r, op, tid, arg) reqs -> rho r = (op, arg) /\ okop op = true.

  Theorem batch_run_sound (Hv : visit_sound) : forall reqs rho p c p' c' cs,
    batch_run visit p c reqs = (p', c', cs) ->
    req_agrees rho reqs -> agrees rho (pheld p) ->
    NoDup (map rec_of reqs) ->
    (forall x, In x (pheld p) -> ~ In (fst (fst x)) (map rec_of reqs)) ->
    NoDup (map fst cs) /\
    (forall q, In q (map fst cs) -> In q (map rec_of reqs) \/ In q (map (fun x => fst (fst x)) (pheld p))) /\
    run_comps rho c cs /\ final_comps rho c cs = c' /\
    agrees rho (pheld p') /\
    (forall x, In x (pheld p') ->
       ((exists tid, In (fst (fst x), snd (fst x), tid, snd x) reqs) \/ In x (pheld p)) /\ ~ In (fst (fst x)) (map fst cs)).
  Proof.
    induction reqs as [|[[[r op] tid] arg] rest IH]; intros rho p c p' c' cs Hrun Hreq Hag Hnd Hdisj.
    - cbn in Hrun. inversion Hrun; subst. cbn.
      split; [constructor|]. split; [intros q []|]. split; [exact I|]. split; [reflexivity|].
      split; [exact Hag|]. intros x Hx. split; [right; exact Hx|intros []].
    - cbn [batch_run] in Hrun.
      destruct (visit p c r op tid arg) as [[p1 c1] cs1] eqn:Hvis.
      destruct (batch_run visit p1 c1 rest) as [[p2 c2] cs2] eqn:Hrest.
      inversion Hrun; subst p' c' cs; clear Hrun.
      destruct (Hreq r op tid arg (or_introl eq_refl)) as [Hr Hok].
      destruct (Hv rho p c r op tid arg p1 c1 cs1 Hvis Hr Hok Hag) as (V1 & V2 & V3 & V4 & V5 & V6).
      cbn [map rec_of fst] in Hnd. apply NoDup_cons_iff in Hnd. destruct Hnd as [Hnotin Hnd'].
      assert (Hreq' : req_agrees rho rest).
      { intros r0 op0 tid0 arg0 Hin. apply (Hreq r0 op0 tid0 arg0). right; exact Hin. }
      assert (Hdisj' : forall x, In x (pheld p1) -> ~ In (fst (fst x)) (map rec_of rest)).
      { intros x Hx Hin. destruct (V6 x Hx) as [[->|Hold] _].
        - cbn in Hin. apply Hnotin. exact Hin.
        - apply (Hdisj x Hold). cbn. right; exact Hin. }
      destruct (IH rho p1 c1 p2 c2 cs2 Hrest Hreq' V5 Hnd' Hdisj') as (W1 & W2 & W3 & W4 & W5 & W6).
      assert (Hsep : forall q, In q (map fst cs1) -> In q (map fst cs2) -> False).
      { intros q H1 H2. destruct (W2 q H2) as [Hin|Hin].
        - destruct (V2 q H1) as [->|Hh].
          + apply Hnotin; exact Hin.
          + apply in_map_iff in Hh. destruct Hh as (x & Hx1 & Hx2). subst q.
            apply (Hdisj x Hx2). cbn. right; exact Hin.
        - apply in_map_iff in Hin. destruct Hin as (x & Hx1 & Hx2). subst q.
          destruct (V6 x Hx2) as [_ Hno]. apply Hno; exact H1. }
      split; [rewrite map_app; apply NoDup_app_disj; auto|].
      split.
      { intros q Hq. rewrite map_app in Hq. apply in_app_or in Hq. destruct Hq as [Hq|Hq].
        - destruct (V2 q Hq) as [->|Hh]; [left; cbn; auto|right; exact Hh].
        - destruct (W2 q Hq) as [Hin|Hin]; [left; cbn; right; exact Hin|].
          apply in_map_iff in Hin. destruct Hin as (x & Hx1 & Hx2). subst q.
          destruct (V6 x Hx2) as [[->|Hold] _]; [left; cbn; auto|right; apply in_map_iff; exists x; split; [reflexivity|exact Hold]]. }
      split; [apply run_comps_app; split; [exact V3|rewrite V4; exact W3]|].
      split; [rewrite final_comps_app, V4; exact W4|].
      split; [exact W5|].
      intros x H. split.
      + destruct (W6 x H) as [[(tid0 & Hin)|Hin] Hno].
        * left. exists tid0. right; exact Hin.
        * destruct (V6 x Hin) as [[->|Hold] _]; [left; exists tid; left; reflexivity|right; exact Hold].
      + intros Hin. rewrite map_app in Hin. apply in_app_or in Hin.
        destruct (W6 x H) as [Hor Hno]. destruct Hin as [Hin|Hin]; [|apply Hno; exact Hin].
        destruct Hor as [(tid0 & Hin2)|Hin2].
        * destruct (V2 _ Hin) as [Heq|Hh].
          -- apply Hnotin. rewrite <- Heq. apply in_map_iff. eexists; split; [|exact Hin2]. reflexivity.
          -- apply in_map_iff in Hh. destruct Hh as (y & Hy1 & Hy2).
             apply (Hdisj y Hy2). cbn. right. rewrite Hy1. apply in_map_iff. eexists; split; [|exact Hin2]. reflexivity.
        * destruct (V6 x Hin2) as [_ Hno2]. apply Hno2; exact Hin.
  Qed.
End Sound.

(** ** the containers *)
Definition held_of (p : itprev) : list (nat * nat * Z) := match p with Some x => [x] | None => [] end.

Lemma agrees_held_some okop rho q oq aq :
  agrees okop rho (held_of (Some (q, oq, aq))) -> rho q = (oq, aq) /\ okop oq = true.
Proof. intros H. apply (H q oq aq). left; reflexivity. Qed.

(** *** fc_apply is the sequential specification *)
Lemma dq_okop_cases op : dq_okop op = true -> op = 2 \/ op = 3 \/ op = 4 \/ op = 5 \/ op = 6 \/ op = 7.
Proof. do 8 (destruct op as [|op]; [cbn; try discriminate; tauto|]). cbn. discriminate. Qed.

Lemma dq_apply_spec d op arg : dq_okop op = true -> dq_apply d op arg = deque_step d (dq_dec op arg).
Proof.
  intros H. destruct (dq_okop_cases _ H) as [-> | [-> | [-> | [-> | [-> | ->]]]]]; reflexivity.
Qed.

Lemma q_okop_cases op : q_okop op = true -> op = 2 \/ op = 3 \/ op = 4.
Proof. do 5 (destruct op as [|op]; [cbn; try discriminate; tauto|]). cbn. discriminate. Qed.

Lemma q_apply_spec q op arg : q_okop op = true -> q_apply q op arg = fifo_step q (q_dec op arg).
Proof. intros H. destruct (q_okop_cases _ H) as [-> | [-> | ->]]; reflexivity. Qed.

Lemma s_okop_cases op : s_okop op = true -> op = 2 \/ op = 3 \/ op = 4.
Proof. do 5 (destruct op as [|op]; [cbn; try discriminate; tauto|]). cbn. discriminate. Qed.

Lemma s_apply_spec s op arg : s_okop op = true -> s_apply s op arg = stack_step s (s_dec op arg).
Proof. intros H. destruct (s_okop_cases _ H) as [-> | [-> | ->]]; reflexivity. Qed.

Lemma pq_apply_spec s op arg : s_okop op = true -> pq_apply s op arg = pq_step s (s_dec op arg).
Proof. intros H. destruct (s_okop_cases _ H) as [-> | [-> | ->]]; reflexivity. Qed.

(** *** FCDeque: a collided pair is "push, then pop" executed at the combiner's instant *)
Definition dq_pair_ok (d : list Z) (opush opop : nat) : bool :=
  (dq_push_front opush && dq_pop_front opop) || (dq_push_back opush && dq_pop_back opop) ||
  (is_nil d && ((dq_push_front opush && dq_pop_back opop) || (dq_push_back opush && dq_pop_front opop))).

Lemma deque_push_back_pop_back d v : deque_step (d ++ [v]) PopBack = (d, RVal (Some v)).
Proof. cbn. rewrite rev_unit. now rewrite rev_involutive. Qed.

Lemma dq_pair_ok_ops d opush opop : dq_pair_ok d opush opop = true ->
  (opush = 2 \/ opush = 3 \/ opush = 4 \/ opush = 5) /\ (opop = 6 \/ opop = 7).
Proof.
  unfold dq_pair_ok. intros H.
  assert (Hpop : dq_pop_front opop = true \/ dq_pop_back opop = true).
  { destruct (dq_pop_front opop), (dq_pop_back opop); auto.
    destruct (is_nil d), (dq_push_front opush), (dq_push_back opush); cbn in H; discriminate. }
  assert (Hpush : dq_push_front opush = true \/ dq_push_back opush = true).
  { destruct (dq_push_front opush), (dq_push_back opush); auto.
    destruct (is_nil d), (dq_pop_front opop), (dq_pop_back opop); cbn in H; discriminate. }
  split.
  - destruct Hpush as [Hp|Hp]; unfold dq_push_front, dq_push_back in Hp; apply orb_true_iff in Hp;
      destruct Hp as [Hp|Hp]; apply Nat.eqb_eq in Hp; auto.
  - destruct Hpop as [Hp|Hp]; apply Nat.eqb_eq in Hp; auto.
Qed.

Lemma dq_pair_run rho d rpush v rpop opush opop apop :
  rho rpush = (opush, v) -> rho rpop = (opop, apop) -> dq_pair_ok d opush opop = true ->
  run_comps Deque dq_dec rho d (collide rpush v rpop) /\ final_comps Deque dq_dec rho d (collide rpush v rpop) = d.
Proof.
  intros H1 H2 Hok. unfold collide. cbn [run_comps final_comps]. unfold op_of. rewrite H1, H2. cbn [fst snd].
  destruct (dq_pair_ok_ops _ _ _ Hok) as [[-> | [-> | [-> | ->]]] [-> | ->]];
    change (sstep Deque) with deque_step; cbn [dq_dec dq_push_front dq_push_back dq_pop_front dq_pop_back Nat.eqb orb];
    try (cbn; tauto);
    try (change (deque_step d (PushBack v)) with (d ++ [v], RBool true); cbn [fst snd];
         rewrite deque_push_back_pop_back; cbn; tauto);
    try (destruct d; [cbn; tauto|cbn in Hok; discriminate]).
Qed.

Ltac vs_keep Hr Hok :=
  cbn [map held_of collide fst snd]; split; [constructor|]; split; [intros ? []|]; split; [exact I|]; split; [reflexivity|];
  split; [intros qq_ oo_ aa_ [EE_|[]]; inversion EE_; subst; split; assumption
         |intros xx_ [<-|[]]; split; [left; reflexivity|intros []]].

Ltac vs_same Hag :=
  cbn [map collide fst snd]; split; [constructor|]; split; [intros ? []|]; split; [exact I|]; split; [reflexivity|];
  split; [exact Hag|intros xx_ Hxx_; split; [right; exact Hxx_|intros []]].

Ltac vs_nodup2 Ha Hb :=
  constructor; [intros [E|[]]; rewrite E in Ha; rewrite Ha in Hb; discriminate
               |constructor; [intros []|constructor]].

Lemma dq_visit_sound : visit_sound Deque held_of dq_okop dq_dec dq_visit.
Proof.
  intros rho p c r op tid arg p' c' cs Hv Hr Hok Hag.
  destruct p as [[[q oq] aq]|].
  - destruct (agrees_held_some Hag) as [Hq Hokq].
    destruct (dq_okop_cases _ Hok) as [-> | [-> | [-> | [-> | [-> | ->]]]]];
      destruct (dq_okop_cases _ Hokq) as [-> | [-> | [-> | [-> | [-> | ->]]]]];
      destruct c as [|x0 c0]; cbn in Hv; inversion Hv; subst p' c' cs; clear Hv;
      try (vs_keep Hr Hok);
      try (cbn [map held_of collide fst snd]; split; [first [vs_nodup2 Hr Hq | vs_nodup2 Hq Hr]|];
           split; [intros qq_ [<-|[<-|[]]]; cbn; auto|];
           split; [eapply dq_pair_run; [eassumption|eassumption|reflexivity]|];
           split; [eapply dq_pair_run; [eassumption|eassumption|reflexivity]|];
           split; [intros ? ? ? []|intros ? []]).
  - destruct (dq_okop_cases _ Hok) as [-> | [-> | [-> | [-> | [-> | ->]]]]];
      cbn in Hv; inversion Hv; subst p' c' cs; clear Hv; vs_keep Hr Hok.
Qed.

(** *** FCQueue: an enqueue and a dequeue are collided only when the queue is empty *)
Lemma q_pair_run rho renq v rdeq oenq odeq adeq :
  rho renq = (oenq, v) -> rho rdeq = (odeq, adeq) -> q_enq oenq = true -> q_deq odeq = true ->
  run_comps Fifo q_dec rho [] (collide renq v rdeq) /\ final_comps Fifo q_dec rho [] (collide renq v rdeq) = [].
Proof.
  intros H1 H2 He Hd. unfold collide. cbn [run_comps final_comps]. unfold op_of. rewrite H1, H2. cbn [fst snd].
  unfold q_dec. rewrite He. apply Nat.eqb_eq in Hd. subst odeq. cbn. tauto.
Qed.

Lemma q_visit_sound : visit_sound Fifo held_of q_okop q_dec q_visit.
Proof.
  intros rho p c r op tid arg p' c' cs Hv Hr Hok Hag.
  unfold q_visit in Hv. rewrite Hok in Hv.
  destruct c as [|x0 c0]; cbn [is_nil] in Hv.
  2:{ inversion Hv; subst p' c' cs; clear Hv. vs_same Hag. }
  destruct p as [[[q oq] aq]|].
  - destruct (agrees_held_some Hag) as [Hq Hokq].
    destruct (q_okop_cases _ Hok) as [-> | [-> | ->]];
      destruct (q_okop_cases _ Hokq) as [-> | [-> | ->]];
      cbn in Hv; inversion Hv; subst p' c' cs; clear Hv;
      try (vs_keep Hr Hok);
      try (cbn [map held_of collide fst snd]; split; [first [vs_nodup2 Hr Hq | vs_nodup2 Hq Hr]|];
           split; [intros qq_ [<-|[<-|[]]]; cbn; auto|];
           split; [eapply q_pair_run; [eassumption|eassumption|reflexivity|reflexivity]|];
           split; [eapply q_pair_run; [eassumption|eassumption|reflexivity|reflexivity]|];
           split; [intros ? ? ? []|intros ? []]).
  - inversion Hv; subst p' c' cs; clear Hv. vs_keep Hr Hok.
Qed.

(** *** FCStack: a push and a pop are collided whatever the stack holds *)
Lemma s_pair_run rho s rpush v rpop opush opop apop :
  rho rpush = (opush, v) -> rho rpop = (opop, apop) -> s_push opush = true -> s_pop opop = true ->
  run_comps Stack s_dec rho s (collide rpush v rpop) /\ final_comps Stack s_dec rho s (collide rpush v rpop) = s.
Proof.
  intros H1 H2 He Hd. unfold collide. cbn [run_comps final_comps]. unfold op_of. rewrite H1, H2. cbn [fst snd].
  unfold s_dec. rewrite He. apply Nat.eqb_eq in Hd. subst opop. cbn. tauto.
Qed.

Lemma s_visit_sound : visit_sound Stack held_of s_okop s_dec s_visit.
Proof.
  intros rho p c r op tid arg p' c' cs Hv Hr Hok Hag.
  unfold s_visit in Hv. rewrite Hok in Hv.
  destruct p as [[[q oq] aq]|].
  - destruct (agrees_held_some Hag) as [Hq Hokq].
    destruct (s_okop_cases _ Hok) as [-> | [-> | ->]];
      destruct (s_okop_cases _ Hokq) as [-> | [-> | ->]];
      cbn in Hv; inversion Hv; subst p' c' cs; clear Hv;
      try (vs_keep Hr Hok);
      try (cbn [map held_of collide fst snd]; split; [first [vs_nodup2 Hr Hq | vs_nodup2 Hq Hr]|];
           split; [intros qq_ [<-|[<-|[]]]; cbn; auto|];
           split; [eapply s_pair_run; [eassumption|eassumption|reflexivity|reflexivity]|];
           split; [eapply s_pair_run; [eassumption|eassumption|reflexivity|reflexivity]|];
           split; [intros ? ? ? []|intros ? []]).
  - inversion Hv; subst p' c' cs; clear Hv. vs_keep Hr Hok.
Qed.

(** FCPriorityQueue has no fc_process *)
Lemma no_visit_sound S okop dec : @visit_sound S itprev held_of okop dec (fun p c _ _ _ _ => (p, c, [])).
Proof.
  intros rho p c r op tid arg p' c' cs Hv Hr Hok Hag. inversion Hv; subst p' c' cs; clear Hv. vs_same Hag.
Qed.

(** ** The theorems about FCDeque::fc_process, for ALL lists of pending requests and ALL deque contents.

    [reqs] = the pending requests met by the iterator, in publication-list order: (record, request word,
    owner thread, argument); [rho] gives each record's request word and argument (the requests of one pass
    sit in different records).  [cs] = the responses written, in operation_done order. *)
Definition reqs_env (reqs : list (nat * nat * nat * Z)) : env :=
  fun q => match find (fun x => Nat.eqb (rec_of x) q) reqs with
           | Some (_, op, _, arg) => (op, arg)
           | None => (0, 0%Z)
           end.

Lemma reqs_env_agrees okop reqs :
  NoDup (map rec_of reqs) -> Forall (fun x => okop (snd (fst (fst x))) = true) reqs ->
  req_agrees okop (reqs_env reqs) reqs.
Proof.
  intros Hnd Hall r op tid arg Hin. unfold reqs_env.
  induction reqs as [|[[[r0 op0] tid0] arg0] rest IH]; [destruct Hin|].
  cbn [find rec_of fst]. cbn [map rec_of fst] in Hnd. apply NoDup_cons_iff in Hnd. destruct Hnd as [Hn Hnd].
  inversion Hall as [|? ? Hok0 Hall']; subst. destruct Hin as [E|Hin].
  - inversion E; subst. rewrite Nat.eqb_refl. cbn in Hok0. auto.
  - destruct (Nat.eqb_spec r0 r) as [->|Hne].
    + exfalso. apply Hn. apply in_map_iff. exists (r, op, tid, arg). split; [reflexivity|exact Hin].
    + apply IH; auto.
Qed.

(** the responses written by one fc_process call are those of a legal sequential run of the completed
    requests from the current deque [d], which leaves [d] unchanged; every completed request is one of the
    pending ones, none is completed twice, and the request left in itPrev is not completed *)
Theorem fcdeque_process_sound : forall reqs d p' d' cs,
  NoDup (map rec_of reqs) -> Forall (fun x => dq_okop (snd (fst (fst x))) = true) reqs ->
  dq_process None d reqs = (p', d', cs) ->
  let rho := reqs_env reqs in
  d' = d /\
  legal (Sp:=Deque) d (map (fun x => (op_of Deque dq_dec rho (fst x), snd x)) cs) /\
  final (Sp:=Deque) d (map (fun x => (op_of Deque dq_dec rho (fst x), snd x)) cs) = d /\
  NoDup (map fst cs) /\
  (forall q, In q (map fst cs) -> In q (map rec_of reqs)) /\
  (forall x, In x (held_of p') -> ~ In (fst (fst x)) (map fst cs)).
Proof.
  intros reqs d p' d' cs Hnd Hall Hrun rho.
  pose proof (reqs_env_agrees dq_okop Hnd Hall) as Hag.
  assert (H0 : agrees dq_okop rho (held_of None)) by (intros ? ? ? []).
  destruct (batch_run_sound dq_visit_sound None d Hrun Hag H0 Hnd) as (W1 & W2 & W3 & W4 & W5 & W6).
  { intros x []. }
  assert (Hd : d' = d).
  { clear -Hrun. unfold dq_process in Hrun. revert Hrun. generalize (@None (nat * nat * Z)) as p.
    revert d p' d' cs. induction reqs as [|[[[r op] tid] arg] rest IH]; intros d p' d' cs p Hrun.
    - cbn in Hrun. inversion Hrun; reflexivity.
    - cbn [batch_run] in Hrun. destruct (dq_visit p d r op tid arg) as [[p1 d1] cs1] eqn:Hv.
      destruct (batch_run dq_visit p1 d1 rest) as [[p2 d2] cs2] eqn:Hr. inversion Hrun; subst.
      assert (d1 = d).
      { unfold dq_visit in Hv. destruct p as [[[q oq] aq]|];
          repeat match type of Hv with context [if ?b then _ else _] => destruct b end; inversion Hv; reflexivity. }
      subst d1. eapply IH; eauto. }
  split; [exact Hd|]. split; [exact (proj1 (run_comps_legal Deque dq_okop dq_dec _ _ _) W3)|].
  split; [unfold rho; rewrite <- (final_comps_final Deque dq_dec), W4; exact Hd|]. split; [exact W1|].
  split.
  - intros q Hq. destruct (W2 q Hq) as [H|[]]; exact H.
  - intros x Hx. apply (W6 x Hx).
Qed.

(** a push at one end is collided with a pop at the other end only when the deque is empty *)
Definition dq_cross (x : nat * nat * nat * nat) : bool :=
  let '(_, opush, _, opop) := x in
  (dq_push_front opush && dq_pop_back opop) || (dq_push_back opush && dq_pop_front opop).

Theorem fcdeque_cross_end_only_if_empty : forall reqs p d x,
  In x (dq_pairs p d reqs) -> dq_cross x = true -> d = [].
Proof.
  induction reqs as [|[[[r op] tid] arg] rest IH]; intros p d x Hin Hc; [destruct Hin|].
  cbn [dq_pairs] in Hin.
  destruct (dq_visit p d r op tid arg) as [[p1 d1] cs1] eqn:Hv.
  assert (d1 = d).
  { unfold dq_visit in Hv. destruct p as [[[q oq] aq]|];
      repeat match type of Hv with context [if ?b then _ else _] => destruct b end; inversion Hv; reflexivity. }
  subst d1.
  destruct (dq_visit_pair p d r op) as [y|] eqn:Hp; [destruct Hin as [<-|Hin]|]; try (eapply IH; eassumption).
  unfold dq_visit_pair in Hp. destruct p as [[[q oq] aq]|]; [|discriminate].
  destruct d as [|z d0]; [reflexivity|exfalso]. cbn [is_nil andb orb] in Hp.
  unfold dq_cross in Hc.
  destruct (dq_push_front op) eqn:E1; destruct (dq_push_back op) eqn:E2;
    destruct (dq_pop_front op) eqn:E3; destruct (dq_pop_back op) eqn:E4;
    destruct (dq_push_front oq) eqn:F1; destruct (dq_push_back oq) eqn:F2;
    destruct (dq_pop_front oq) eqn:F3; destruct (dq_pop_back oq) eqn:F4;
    cbn in Hp; try discriminate; inversion Hp; subst y; cbn in Hc;
    rewrite ?E1, ?E2, ?E3, ?E4, ?F1, ?F2, ?F3, ?F4 in Hc; cbn in Hc; try discriminate.
  all: unfold dq_push_front, dq_push_back, dq_pop_front, dq_pop_back in *;
       repeat match goal with H : (_ || _) = true |- _ => apply orb_true_iff in H; destruct H end;
       repeat match goal with H : Nat.eqb _ _ = true |- _ => apply Nat.eqb_eq in H end; congruence.
Qed.

(** [dq_pairs] lists exactly the collisions performed: two responses per pair, in order *)
Lemma dq_pairs_responses : forall reqs p d p' d' cs,
  dq_process p d reqs = (p', d', cs) -> length cs = 2 * length (dq_pairs p d reqs).
Proof.
  induction reqs as [|[[[r op] tid] arg] rest IH]; intros p d p' d' cs Hrun.
  - cbn in Hrun. inversion Hrun. reflexivity.
  - unfold dq_process in Hrun. cbn [batch_run dq_pairs] in *.
    destruct (dq_visit p d r op tid arg) as [[p1 d1] cs1] eqn:Hv.
    destruct (batch_run dq_visit p1 d1 rest) as [[p2 d2] cs2] eqn:Hr. inversion Hrun; subst.
    rewrite app_length, (IH _ _ _ _ _ Hr).
    unfold dq_visit in Hv. unfold dq_visit_pair.
    destruct p as [[[q oq] aq]|];
      repeat match type of Hv with context [if ?b then _ else _] => destruct b eqn:? end;
      inversion Hv; subst; cbn [length collide]; try lia; cbn in *; try discriminate; lia.
Qed.
