(** * BasketQueue linearizability: enqueue.

    Linearization point of an enqueue: its successful CAS on [tl->next].
      - null -> new node: the node becomes the last one, the LP is appended to the annotated trace;
      - s -> new node (basket): the node enters right after [tl], BEFORE [s] and everything behind it; the LP
        is inserted into the annotated trace just before the LP of the enqueue of [s]
        ([BasketLinInv.Lin_ins_enq]).  This is sound because the thread saw [tl->next == null] earlier in the
        same call ([x_bk]), so every node behind [tl] was linearized after this call was invoked, and because
        the pointer to [s] is unmarked, so [s] has not been dequeued. *)
From Coq Require Import ZArith List String Bool Lia PeanoNat.
From LV Require Import Base.Conc Base.Events Base.Lin Spec.Specs Proofs.LinProofs Model.Basket
  Proofs.MSQueueBase Proofs.BasketBase Proofs.BasketInv Proofs.BasketProofs Proofs.BasketLinBase
  Proofs.BasketLinInv Proofs.BasketLinRules.
Import ListNotations.
Local Open Scope string_scope.
Local Open Scope list_scope.

Definition vlin (n : nat) : tview := mkTV (PLin (RBool true)) None mnull [n] [] 0.

Lemma tl_snoc {A} (X : list A) n : X <> [] -> List.tl (X ++ [n]) = List.tl X ++ [n].
Proof. destruct X; [congruence|reflexivity]. Qed.

(** ** the node becomes the last one *)
Lemma Inv2_link_end g a tr t v n inG idx hl tl b k o bb :
  Inv2 g a tr ->
  views (base a) t = mkTV (PPend (Enq v)) (Some n) mnull inG idx hl -> In tl inG ->
  nxt g tl = (None, b) ->
  exists a', Inv2 (set_next g tl (Some n, false)) a' (tr ++ Conc.tag t [EvAcc k o bb]) /\
             Conc.frame view2 t a a' /\ view2 a' t = (vlin n, x0).
Proof.
  intros (HI & HL) Hv Hin Hnx. set (b0 := base a) in *.
  pose proof (Inv_link_end _ _ _ _ _ _ _ _ _ _ _ HI Hv Hin Hnx) as HI'.
  destruct (I_views _ _ _ HI t) as (P1 & _). rewrite Hv in P1. cbn in P1.
  destruct (P1 n eq_refl) as (A & B & C & D). injection D as D.
  set (b' := auxset b0 (dpre b0) (bnd b0) (live b0 ++ [n]) (hidx b0) t (vlin n)) in *.
  assert (HG : GG b' = GG b0 ++ [n]).
  { unfold b', auxset, GG. cbn. now rewrite <- app_assoc. }
  pose proof (lin_counts _ _ _ HL) as (Cn & Cd). fold b0 in Cn, Cd.
  exists (mkA2 b' (ltr a ++ [BEnq t]) (updx (xvs a) t x0)). split; [split|split].
  - apply Inv_acc. exact HI'.
  - eapply (Lin_append g a tr _ b' _ _ t (BEnq t)); [exact HL| | | | | | |].
    + fold b0. rewrite Hv. cbn [tv_st bnext]. reflexivity.
    + reflexivity.
    + unfold EE. rewrite HG, tl_snoc by (unfold GG; destruct (dpre b0); discriminate).
      rewrite map_app. cbn. now rewrite D.
    + reflexivity.
    + intros u. unfold b'. cbn. destruct (Nat.eqb_spec u t) as [->|Hne]; [now rewrite updv_same|now rewrite updv_other].
    + rewrite hist_app. cbn. now rewrite !app_nil_r.
    + intros u. destruct (Nat.eq_dec u t) as [->|Hne]; [rewrite updx_same; apply xok_x0|].
      rewrite updx_other by exact Hne. eapply xok_app_snoc; [exact HG| |congruence|apply (L_x _ _ _ HL)].
      rewrite GG_length. fold b0. lia.
  - intros t' Hne. unfold view2, b'. cbn. now rewrite updv_other, updx_other.
  - unfold view2, b'. cbn. now rewrite updv_same, updx_same.
Qed.

(** ** the node enters the basket *)
Lemma link_basket_shape g a tr t v n s inG idx hl tl :
  Inv g a tr ->
  views a t = mkTV (PPend (Enq v)) (Some n) (Some s, false) inG idx hl -> In tl inG ->
  nxt g tl = (Some s, false) ->
  exists k P Q,
    Inv (set_next g tl (Some n, false))
        (auxset a (dpre a) (bnd a) (firstn k (live a) ++ n :: skipn k (live a)) (hidx a) t (vlin n)) tr /\
    GG a = P ++ tl :: Q /\
    dpre a ++ bnd a :: (firstn k (live a) ++ n :: skipn k (live a)) = P ++ tl :: n :: Q /\
    (List.length (dpre a) <= List.length P)%nat.
Proof.
  intros HI Hv Hin Hnx.
  destruct (Inv_link_basket _ _ _ _ _ _ _ _ _ _ _ HI Hv Hin Hnx) as (k & HI'). exists k.
  destruct (I_views _ _ _ HI t) as (P1 & P2 & _). rewrite Hv in P1, P2. cbn in P1, P2.
  destruct (P1 n eq_refl) as (A & B & C & D).
  set (P0 := dpre a ++ bnd a :: firstn k (live a)). set (Q0 := skipn k (live a)).
  assert (EG : GG a = P0 ++ Q0).
  { unfold GG, P0, Q0. rewrite <- app_assoc. cbn. now rewrite firstn_skipn. }
  assert (EG' : dpre a ++ bnd a :: (firstn k (live a) ++ n :: Q0) = P0 ++ n :: Q0).
  { unfold P0, Q0. rewrite <- app_assoc. reflexivity. }
  assert (HP0 : P0 <> []) by (unfold P0; destruct (dpre a); discriminate).
  destruct (exists_last HP0) as (P & z & EP).
  assert (Ez : z = tl).
  { pose proof (I_linked _ _ _ HI') as Hl. unfold GG in Hl. cbn [auxset dpre bnd live] in Hl.
    assert (Hl' : linked (nptr (set_next g tl (Some n, false))) (P ++ z :: n :: Q0)).
    { replace (P ++ z :: n :: Q0) with (P0 ++ n :: Q0) by (rewrite EP, <- app_assoc; reflexivity).
      rewrite <- EG'. exact Hl. }
    pose proof (linked_mid _ _ _ _ Hl') as Hm. cbn in Hm.
    destruct (Nat.eq_dec z tl) as [|Hne]; [assumption|exfalso].
    unfold nptr in Hm. cbn in Hm. unfold upd in Hm. destruct (Nat.eqb_spec z tl); [contradiction|].
    apply B. eapply linked_succ; [apply (I_linked _ _ _ HI)| |exact Hm].
    rewrite EG, EP. apply in_or_app. left. apply in_or_app. right. now left. }
  subst z. exists P, Q0. split; [exact HI'|]. split; [|split].
  - rewrite EG, EP, <- app_assoc. reflexivity.
  - rewrite EG', EP, <- app_assoc. reflexivity.
  - assert (List.length P0 = S (List.length P)) by (rewrite EP, app_length; cbn; lia).
    unfold P0 in H. rewrite app_length in H. cbn in H. lia.
Qed.

Lemma Inv2_link_basket g a tr t v n s inG idx hl tl k o bb :
  Inv2 g a tr ->
  views (base a) t = mkTV (PPend (Enq v)) (Some n) (Some s, false) inG idx hl -> In tl inG ->
  x_bk (xvs a t) = Some tl ->
  nxt g tl = (Some s, false) ->
  exists a', Inv2 (set_next g tl (Some n, false)) a' (tr ++ Conc.tag t [EvAcc k o bb]) /\
             Conc.frame view2 t a a' /\ view2 a' t = (vlin n, x0).
Proof.
  intros (HI & HL) Hv Hin Hbk Hnx. set (b0 := base a) in *.
  destruct (link_basket_shape _ _ _ _ _ _ _ _ _ _ _ HI Hv Hin Hnx) as (kk & P & Q & HI' & EG & EG' & HP).
  destruct (I_views _ _ _ HI t) as (P1 & _). rewrite Hv in P1. cbn in P1.
  destruct (P1 n eq_refl) as (A & B & C & D). injection D as D.
  set (b' := auxset b0 (dpre b0) (bnd b0) (firstn kk (live b0) ++ n :: skipn kk (live b0)) (hidx b0) t (vlin n)) in *.
  exists (mkA2 b' (ins (List.length P) (BEnq t) (ltr a)) (updx (xvs a) t x0)). split; [split|split].
  - apply Inv_acc. exact HI'.
  - eapply (Lin_ins_enq g a tr _ b' _ t v tl n P Q); eauto.
    + fold b0. now rewrite Hv.
    + apply (I_nodup _ _ _ HI).
    + intros u. unfold b'. cbn. destruct (Nat.eqb_spec u t) as [->|Hne]; [now rewrite updv_same|now rewrite updv_other].
    + rewrite hist_app. cbn. now rewrite app_nil_r.
  - intros t' Hne. unfold view2, b'. cbn. now rewrite updv_other, updx_other.
  - unfold view2, b'. cbn. now rewrite updv_same, updx_same.
Qed.

(** both kinds of successful CAS on [tl->next] *)
Lemma Inv2_link g a tr t v n l x tl pn k o bb :
  Inv2 g a tr -> view2 a t = (l, x) -> shE v n l -> tv_pnx l = pn -> snd pn = false -> In tl (tv_inG l) ->
  (fst pn <> None -> x_bk x = Some tl) ->
  nxt g tl = pn ->
  exists a', Inv2 (set_next g tl (Some n, false)) a' (tr ++ Conc.tag t [EvAcc k o bb]) /\
             Conc.frame view2 t a a' /\ view2 a' t = (vlin n, x0).
Proof.
  intros HI2 Hv2 Hs Hp Hm Hin Hbk Hnx. apply view2_inv in Hv2. destruct Hv2 as (Hv & Hx).
  rewrite (shE_view _ _ _ Hs) in Hv. rewrite Hp in Hv.
  destruct pn as [[s|] m]; cbn in Hm; subst m.
  - eapply Inv2_link_basket; eauto. rewrite Hx. apply Hbk. discriminate.
  - eapply Inv2_link_end; eauto.
Qed.

Lemma safe2_try_again fuel : forall t s1 tl n v l x,
  shE v n l -> In tl (tv_inG l) -> x_bk x = Some tl ->
  safe2 t (try_again fuel t s1 tl n) (l, x) (lf (Qtry v n)).
Proof.
  induction fuel as [|f IH]; intros t s1 tl n v l x Hs Hin Hbk; cbn [try_again]; [exact I|].
  apply Conc.safe_bind. eapply Conc.safe_weaken; [|apply safe2_gprotect_m; exact Hin].
  intros [pn|] [l1 x1] (Hl & Hx); [|exact I]. cbn [fst snd] in Hl, Hx. subst x1. destruct Hl as (E1 & _).
  pose proof (shE_ext _ _ _ _ Hs E1) as Hs1.
  assert (Hin1 : In tl (tv_inG l1)) by (apply E1; exact Hin).
  apply safe2_ld_keep; [apply plain_ld_tail|apply ld_tail_plain|]. intros r.
  destruct (negb (Nat.eqb (vn r) tl)); [exact Hs1|].
  apply safe2_ld_keep; [apply plain_ld_next|apply ld_next_plain|]. intros r2.
  destruct (mp_eqb (vm r2) pn && negb (snd pn)) eqn:Ec; [|exact Hs1].
  apply andb_prop in Ec. destruct Ec as [_ Em]. apply negb_true_iff in Em.
  (* pNew->m_pNext.store( pNext ) *)
  apply safe2_act_v; [apply plain_st_next|]. intros g a tr HI Hv. cbn [a_st_next fst snd].
  exists (mkTV (PPend (Enq v)) (Some n) pn (tv_inG l1) (tv_idx l1) (tv_hlow l1)). split.
  { apply Inv_acc. rewrite (shE_view _ _ _ Hs1) in Hv. eapply Inv_st_next_priv; eauto. }
  split; [cbn; symmetry; apply Hs1|].
  clear g a tr HI Hv.
  set (l2 := mkTV (PPend (Enq v)) (Some n) pn (tv_inG l1) (tv_idx l1) (tv_hlow l1)).
  assert (Hs2 : shE v n l2) by (split; reflexivity).
  (* t->m_pNext.compare_exchange_weak( pNext, pNew ): the linearization point *)
  cbn [Conc.safe]. intros g a tr HI2 Hv2. unfold a_cas_next.
  destruct (mp_eqb (nxt g tl) pn) eqn:Ecas; cbn [fst snd vb].
  - apply mp_eqb_eq in Ecas.
    destruct (Inv2_link g a tr t v n l2 x tl pn KCas (obj_next tl) true HI2 Hv2 Hs2) as (a' & A & B & C); auto.
    exists a'. split; [exact A|]. split; [exact B|]. rewrite C. cbn. split; reflexivity.
  - exists a. destruct HI2 as (HI & HL). split; [split|split].
    + apply Inv_acc. exact HI.
    + eapply Lin_same; eauto. rewrite hist_app. cbn. apply app_nil_r.
    + intros ? ?. reflexivity.
    + rewrite Hv2. apply (IH t s1 tl n v l2 x Hs2 Hin1 Hbk).
Qed.

Lemma safe2_enq_loop cf fuel : forall t s0 s1 c d n v l x,
  shE v n l -> safe2 t (enq_loop cf fuel t s0 s1 c d n) (l, x) (lf Qenq).
Proof.
  induction fuel as [|f IH]; intros t s0 s1 c d n v l x Hs; cbn [enq_loop]; [exact I|].
  apply Conc.safe_bind. eapply Conc.safe_weaken; [|apply safe2_gprotect_tail].
  intros [tl|] [l1 x1] Hl; [|exact I]. cbn [lf fst] in Hl. destruct Hl as (E1 & Hin1).
  pose proof (shE_ext _ _ _ _ Hs E1) as Hs1.
  (* pNext = t->m_pNext.load(); a null is remembered: the basket is open from here on *)
  apply safe2_act_x; [apply plain_ld_next|]. intros g a2 tr HI2 Hv Hx. pose proof HI2 as (HI & HL).
  cbn [a_ld_next fst snd vm]. set (a := base a2) in *.
  set (x2 := match fst (nxt g tl) with None => mkX (Some tl) (x_ec x1) | Some _ => x1 end).
  exists (addG l1 (olist (fst (nxt g tl)))), x2. split.
  { eapply step_addG; eauto. eapply succ_in_GG; eauto. eapply inG_GG; eauto. }
  split; [reflexivity|]. split.
  { pose proof (L_x _ _ _ HL t) as (A & B). rewrite Hx in A, B. unfold x2.
    destruct (fst (nxt g tl)) eqn:En; [split; assumption|]. split; [|exact B].
    cbn. intros tl' Etl. injection Etl as <-.
    assert (Htl : In tl (GG a)) by (eapply inG_GG; eauto).
    split; [exact Htl|]. intros i Ei.
    pose proof (last_index _ _ _ _ _ HI2 Ei En) as Elast.
    pose proof (lin_counts _ _ _ HL) as (Cn & _). fold a in Elast, Cn.
    apply nopost_few. lia. }
  assert (Hs2 : shE v n (addG l1 (olist (fst (nxt g tl))))) by (eapply shE_ext; [exact Hs1|apply ext_addG]).
  assert (Hin2 : In tl (tv_inG (addG l1 (olist (fst (nxt g tl)))))) by (cbn; apply in_or_app; now right).
  unfold x2. clear x2.
  destruct (nxt g tl) as [[p0|] b0] eqn:Enx; cbn [fst olist] in *.
  - (* tail is misplaced *)
    set (l2 := addG l1 [p0]) in *. clear g a2 a tr HI2 HI HL Hv Hx Enx.
    assert (Hretry : forall c' d', safe2 t (hp_clear t c (hp_clear t d (enq_loop cf f t s0 s1 c' d' n))) (l2, x1) (lf Qenq)).
    { intros c' d'. apply safe2_hp_clear. apply safe2_hp_clear. apply (IH _ _ _ _ _ _ v). exact Hs2. }
    apply safe2_hp_assign.
    apply safe2_ld_keep; [apply plain_ld_tail|apply ld_tail_plain|]. intros r2.
    destruct (negb (Nat.eqb (vn r2) tl)); [apply Hretry|].
    apply safe2_ld_keep; [apply plain_ld_next|apply ld_next_plain|]. intros r3.
    destruct (negb (mp_eqb (vm r3) (Some p0, b0))); [apply Hretry|].
    apply Conc.safe_bind. eapply Conc.safe_weaken; [|apply safe2_adv_loop; cbn; now left].
    intros [[bb pl]|] [l3 x3] Hl; [|exact I]. cbn [lf fst] in Hl. destruct Hl as (E3 & Hin3).
    pose proof (shE_ext _ _ _ _ Hs2 E3) as Hs3.
    assert (Hretry3 : forall c' d', safe2 t (hp_clear t c (hp_clear t d (enq_loop cf f t s0 s1 c' d' n))) (l3, x3) (lf Qenq)).
    { intros c' d'. apply safe2_hp_clear. apply safe2_hp_clear. apply (IH _ _ _ _ _ _ v). exact Hs3. }
    destruct bb; [|apply Hretry3].
    apply safe2_act_keep; [apply plain_cas_tail|]. intros g a tr HI Hv. unfold a_cas_tail.
    destruct (Nat.eqb (tail g) tl); cbn [fst snd]; (split; [|apply Hretry3]).
    + apply Inv_acc. apply Inv_tail; [exact HI|]. eapply inG_GG; eauto.
    + apply Inv_acc. exact HI.
  - (* t is the last node: try to link *)
    set (l2 := addG l1 []) in *. set (x2 := mkX (Some tl) (x_ec x1)).
    clear g a2 a tr HI2 HI HL Hv Hx Enx.
    apply safe2_act_v; [apply plain_st_next|]. intros g a tr HI Hv. cbn [a_st_next fst snd].
    exists (mkTV (PPend (Enq v)) (Some n) mnull (tv_inG l2) (tv_idx l2) (tv_hlow l2)). split.
    { apply Inv_acc. rewrite (shE_view _ _ _ Hs2) in Hv. eapply Inv_st_next_priv; eauto. }
    split; [cbn; symmetry; apply Hs2|].
    clear g a tr HI Hv.
    set (l3 := mkTV (PPend (Enq v)) (Some n) mnull (tv_inG l2) (tv_idx l2) (tv_hlow l2)).
    assert (Hs3 : shE v n l3) by (split; reflexivity).
    cbn [Conc.safe]. intros g a tr HI2 Hv2. unfold a_cas_next.
    destruct (mp_eqb (nxt g tl) (None, b0)) eqn:Ecas; cbn [fst snd vb].
    + apply mp_eqb_eq in Ecas. pose proof Hv2 as Hv3. apply view2_inv in Hv3. destruct Hv3 as (Hv & Hx).
      destruct (Inv2_link_end g a tr t v n (tv_inG l2) (tv_idx l2) (tv_hlow l2) tl b0 KCas (obj_next tl) true HI2 Hv Hin2 Ecas)
        as (a' & A & B & C).
      exists a'. split; [exact A|]. split; [exact B|]. rewrite C.
      apply safe2_act_keep; [apply plain_cas_tail|]. clear g a tr HI2 Hv2 Ecas Hv Hx a' A B C.
      intros g a tr HI Hv. unfold a_cas_tail.
      destruct (Nat.eqb (tail g) tl); cbn [fst snd]; (split; [|split; reflexivity]).
      * apply Inv_acc. apply Inv_tail; [exact HI|]. eapply inG_GG; eauto. cbn. now left.
      * apply Inv_acc. exact HI.
    + exists a. destruct HI2 as (HI & HL). split; [split|split].
      * apply Inv_acc. exact HI.
      * eapply Lin_same; eauto. rewrite hist_app. cbn. apply app_nil_r.
      * intros ? ?. reflexivity.
      * rewrite Hv2.
        apply Conc.safe_bind. eapply Conc.safe_weaken; [|apply (safe2_try_again f t s1 tl n v l3 x2 Hs3 Hin2); reflexivity].
        intros [[|]|] [l4 x4] Hl; cbn [lf fst Qtry] in Hl; [exact Hl| |exact I].
        apply (IH _ _ _ _ _ _ v). exact Hl.
Qed.

Lemma safe2_enqueue cf fuel t s0 s1 c d v x :
  safe2 t (enqueue cf fuel t s0 s1 c d v) (VPE v, x) (lf Qenq).
Proof.
  unfold enqueue. apply safe2_act_v; [apply plain_alloc|]. intros g a tr HI Hv.
  exists (mkTV (PPend (Enq v)) (Some (nalloc g)) mnull [] [] 0). split.
  { apply Inv_acc. eapply Inv_alloc; eauto. }
  split; [reflexivity|].
  cbn [a_alloc fst snd vn]. apply Conc.safe_bind.
  eapply Conc.safe_weaken; [|apply (safe2_enq_loop cf fuel t s0 s1 c d (nalloc g) v); split; reflexivity].
  intros [cd|] l Hl; cbn in Hl; [|exact I].
  apply safe2_with_ic. apply safe2_hp_clear. apply safe2_hp_clear. exact Hl.
Qed.
