(** * SkipListSub: "every level of the skip list is a sub-list of the level below" — the state-level theory.

    Everything in this file is about a single shared state [g : G] of Model/SkipList.v (no schedules): the level lists as
    Coq lists ([walkl]), the ordered sub-list relation ([sub]), and

    - [sub_of_membership]: under the order invariant [I] (every link in key order, Proofs/SkipListProofs.v, proved for every
      schedule) MEMBERSHIP implies ORDER: if every node of level l+1 is on level l and every node of level l is on level 0,
      then the level-(l+1) list is a sub-list of the level-l list in the same order, and both are strictly sorted;
    - [live_sub_level0]: the same for the unmarked nodes of a level against the live nodes of level 0;
    - the per-access preservation lemmas of the nested-levels invariant [LevOK] ([levok_same_ptrs] for marking CASes,
      [levok_offlist] for writes to cells of nodes that are not on that level's list, [levok_link] for the link CAS of
      insert_at_position, [levok_unlink] for the unlink CASes of help_remove / try_remove_at), each with the facts the
      executing thread has to know as explicit hypotheses;
    - a decidable check [levokb] of [LevOK] with its soundness lemma, and [run_chk], which evaluates it after EVERY step
      of a scheduled run of the model (used for the validation Examples of Properties_C18_Skip.v). *)
From Coq Require Import ZArith List String Bool Lia PeanoNat.
From LV Require Import Base.Conc Base.Events Model.SkipList Proofs.SkipListProofs.
Import ListNotations.
Local Open Scope Z_scope.

(** ** the list of level [l] from [p]: exactly [L], null-terminated (marks are ignored) *)
Fixpoint walkl (g : G) (l : nat) (p : ptr) (L : list ptr) : Prop :=
  match L with
  | [] => fst (nxt g p l) = null
  | n :: r => fst (nxt g p l) = n /\ n <> null /\ walkl g l n r
  end.

(** ordered sub-list (subsequence) *)
Inductive sub {A : Type} : list A -> list A -> Prop :=
| sub_nil : forall b, sub [] b
| sub_skip : forall x a b, sub a b -> sub a (x :: b)
| sub_take : forall x a b, sub a b -> sub (x :: a) (x :: b).

Lemma sub_refl {A} (a : list A) : sub a a.
Proof. induction a as [|x a IH]; [apply sub_nil|apply sub_take, IH]. Qed.

Lemma sub_incl {A} (a b : list A) : sub a b -> incl a b.
Proof.
  induction 1 as [b|x a b H IH|x a b H IH]; intros y Hy; [contradiction|right; auto|].
  destruct Hy as [<-|Hy]; [now left|right; auto].
Qed.

Lemma sub_length {A} (a b : list A) : sub a b -> (List.length a <= List.length b)%nat.
Proof. induction 1; cbn [List.length]; lia. Qed.

Lemma walkl_fun g l : forall L p L', walkl g l p L -> walkl g l p L' -> L = L'.
Proof.
  induction L as [|n r IH]; intros p [|n' r']; cbn [walkl]; intros H H'; auto.
  - destruct H' as (E & N & _). congruence.
  - destruct H as (E & N & _). congruence.
  - destruct H as (E & N & W). destruct H' as (E' & N' & W'). assert (X : n' = n) by congruence. rewrite X in *. f_equal. eapply IH; eauto.
Qed.

Lemma walkl_suffix g l : forall A p x B, walkl g l p (A ++ x :: B) -> walkl g l x B.
Proof.
  induction A as [|a A IH]; intros p x B H; cbn [app walkl] in H; [tauto|]. destruct H as (_ & _ & H). eauto.
Qed.

Lemma walkl_nodup g l : forall L p, walkl g l p L -> NoDup L.
Proof.
  induction L as [|n r IH]; intros p H; [constructor|]. cbn [walkl] in H. destruct H as (E & N & W).
  constructor; [|eauto]. intros Hin. apply in_split in Hin. destruct Hin as (r1 & r2 & ->).
  pose proof (walkl_suffix _ _ _ _ _ _ W) as W2. pose proof (walkl_fun _ _ _ _ _ W W2) as X.
  apply (f_equal (@List.length ptr)) in X. rewrite app_length in X. cbn [List.length] in X. lia.
Qed.

Lemma walkl_notnull g l : forall L p, walkl g l p L -> ~ In null L.
Proof.
  induction L as [|n r IH]; intros p H Hin; [contradiction|]. cbn [walkl] in H. destruct H as (E & N & W).
  destruct Hin as [X|X]; [congruence|]. eapply IH; eauto.
Qed.

Lemma walkl_chain g l : forall L p n, walkl g l p L -> (List.length L <= n)%nat -> chain g l p n = L.
Proof.
  induction L as [|a r IH]; intros p n H Hn; cbn [walkl List.length] in *.
  - destruct n; cbn [chain]; [reflexivity|]. cbv zeta. rewrite H. reflexivity.
  - destruct n as [|n]; [lia|]. destruct H as (H1 & H2 & H3). cbn [chain]. cbv zeta. rewrite H1.
    destruct (Nat.eqb_spec a null) as [E|_]; [contradiction|]. rewrite (IH a n H3) by lia. reflexivity.
Qed.

Lemma chain_length g l : forall n p, (List.length (chain g l p n) <= n)%nat.
Proof.
  induction n as [|n IH]; intros p; cbn [chain]; [cbn; lia|]. cbv zeta.
  destruct (Nat.eqb (fst (nxt g p l)) null); cbn [List.length]; [lia|]. specialize (IH (fst (nxt g p l))). lia.
Qed.

(** a chain that is shorter than its fuel ended at null *)
Lemma chain_walkl g l : forall n p, (List.length (chain g l p n) < n)%nat -> walkl g l p (chain g l p n).
Proof.
  induction n as [|n IH]; intros p H; cbn [chain] in *; [cbn in H; lia|]. cbv zeta in *.
  destruct (Nat.eqb_spec (fst (nxt g p l)) null) as [E|E]; [exact E|].
  cbn [List.length] in H. cbn [walkl]. repeat split; auto. apply IH. lia.
Qed.

Lemma walkl_ext g g' l : (forall n, fst (nxt g' n l) = fst (nxt g n l)) -> forall L p, walkl g l p L -> walkl g' l p L.
Proof. intros E. induction L as [|n r IH]; intros p; cbn [walkl]; rewrite E; [tauto|]. intros (H1 & H2 & H3). auto. Qed.

(** *** order facts of a level list under [I] *)
Lemma walkl_sorted g l : I g -> forall L p, (p = head \/ isnode p) -> walkl g l p L ->
  Forall isnode L /\ weakly_inc (map key_of L).
Proof.
  intros Hi L p Hp W. rewrite <- (walkl_chain g l L p (List.length L) W (le_n _)).
  destruct (chain_sortedL g l Hi (List.length L) p Hp) as [F S]. split; [|exact S].
  eapply Forall_impl; [|exact F]. intros q Hq. apply Hq.
Qed.

Lemma walkl_sorted0 g : I g -> forall L p, (p = head \/ isnode p) -> walkl g 0 p L -> strictly_inc (map key_of L).
Proof.
  intros Hi L p Hp W. rewrite <- (walkl_chain g 0 L p (List.length L) W (le_n _)).
  apply (chain_sorted0 g Hi (List.length L) p Hp).
Qed.

Lemma strictly_inc_key_inj : forall L x y, strictly_inc (map key_of L) -> In x L -> In y L -> key_of x = key_of y -> x = y.
Proof.
  induction L as [|a r IH]; intros x y S Hx Hy E; [contradiction|]. cbn [map strictly_inc] in S. destruct S as [F S].
  rewrite Forall_map, Forall_forall in F.
  destruct Hx as [<-|Hx], Hy as [<-|Hy]; auto.
  - specialize (F _ Hy). cbn in F. lia.
  - specialize (F _ Hx). cbn in F. lia.
Qed.

(** weakly sorted + no node twice + the keys of different nodes differ = strictly sorted *)
Lemma weakly_strictly : forall L, weakly_inc (map key_of L) -> NoDup L ->
  (forall x y, In x L -> In y L -> key_of x = key_of y -> x = y) -> strictly_inc (map key_of L).
Proof.
  induction L as [|a r IH]; intros W N K; [exact Logic.I|]. cbn [map weakly_inc strictly_inc] in *. destruct W as [F W].
  inversion N as [|? ? Na Nr]; subst. split.
  - rewrite Forall_map, Forall_forall in *. intros y Hy. specialize (F _ Hy). cbn in F.
    destruct (Z.eq_dec (key_of a) (key_of y)) as [E|E]; [|lia].
    exfalso. apply Na. rewrite (K a y); auto; [now left|now right].
  - apply IH; auto. intros x y Hx Hy. apply K; now right.
Qed.

(** inclusion between strictly sorted lists is an ordered sub-list *)
Lemma sub_of_incl_sorted : forall B A, strictly_inc (map key_of A) -> strictly_inc (map key_of B) -> incl A B -> sub A B.
Proof.
  induction B as [|b B IH]; intros A SA SB Hi.
  - destruct A as [|a A]; [constructor|]. destruct (Hi a (or_introl eq_refl)).
  - destruct A as [|a A]; [constructor|]. cbn [map strictly_inc] in SA, SB. destruct SA as [FA SA]. destruct SB as [FB SB].
    rewrite Forall_map, Forall_forall in FA, FB.
    destruct (Nat.eq_dec a b) as [->|Nab].
    + apply sub_take. apply IH; auto. intros y Hy. destruct (Hi y (or_intror Hy)) as [<-|H]; [|exact H].
      specialize (FA _ Hy). cbn in FA. lia.
    + apply sub_skip. apply IH; auto; [cbn [map strictly_inc]; split; [rewrite Forall_map, Forall_forall; exact FA|exact SA]|].
      assert (Hab : key_of b < key_of a).
      { destruct (Hi a (or_introl eq_refl)) as [X|X]; [congruence|]. apply (FB _ X). }
      intros y [<-|Hy].
      * destruct (Hi a (or_introl eq_refl)) as [X|X]; [congruence|exact X].
      * destruct (Hi y (or_intror Hy)) as [<-|X]; [|exact X]. specialize (FA _ Hy). cbn in FA. lia.
Qed.

(** ** membership implies order *)
Theorem level_strictly_sorted g l L L0 :
  I g -> walkl g 0 head L0 -> walkl g l head L -> incl L L0 -> strictly_inc (map key_of L).
Proof.
  intros Hi W0 W Hin. apply weakly_strictly.
  - apply (walkl_sorted g l Hi L head); auto.
  - eapply walkl_nodup; eauto.
  - intros x y Hx Hy. apply (strictly_inc_key_inj L0); auto. apply (walkl_sorted0 g Hi L0 head); auto.
Qed.

Theorem sub_of_membership g l L1 Ll L0 :
  I g -> walkl g 0 head L0 -> walkl g l head Ll -> walkl g (S l) head L1 ->
  incl L1 Ll -> incl Ll L0 -> sub L1 Ll /\ strictly_inc (map key_of L1) /\ strictly_inc (map key_of Ll).
Proof.
  intros Hi W0 Wl W1 H1 H0.
  assert (Sl : strictly_inc (map key_of Ll)) by (eapply level_strictly_sorted; eauto).
  assert (S1 : strictly_inc (map key_of L1)) by (eapply (level_strictly_sorted g (S l)); eauto; eapply incl_tran; eauto).
  split; [|split]; auto. apply sub_of_incl_sorted; auto.
Qed.

(** the unmarked nodes of a level *)
Definition live (g : G) (l : nat) (L : list ptr) : list ptr := filter (fun q => negb (snd (nxt g q l))) L.

Lemma strictly_inc_filter (f : ptr -> bool) : forall L, strictly_inc (map key_of L) -> strictly_inc (map key_of (filter f L)).
Proof.
  induction L as [|a r IH]; intros S; [exact Logic.I|]. cbn [map strictly_inc] in S. destruct S as [F S]. cbn [filter].
  destruct (f a); [|auto]. cbn [map strictly_inc]. split; [|auto].
  rewrite Forall_map, Forall_forall in *. intros y Hy. apply F. apply filter_In in Hy. tauto.
Qed.

Lemma weakly_inc_filter (f : ptr -> bool) : forall L, weakly_inc (map key_of L) -> weakly_inc (map key_of (filter f L)).
Proof.
  induction L as [|a r IH]; intros S; [exact Logic.I|]. cbn [map weakly_inc] in S. destruct S as [F S]. cbn [filter].
  destruct (f a); [|auto]. cbn [map weakly_inc]. split; [|auto].
  rewrite Forall_map, Forall_forall in *. intros y Hy. apply F. apply filter_In in Hy. tauto.
Qed.

(** the unmarked nodes of level l against the live nodes of level 0: membership (proved for every schedule:
    skip_unmarked_level_on_level0) gives the ordered sub-list *)
Theorem live_sub_level0 g l L L0 :
  I g -> walkl g 0 head L0 -> walkl g l head L ->
  (forall q, In q L -> snd (nxt g q l) = false -> snd (nxt g q 0) = false /\ In q L0) ->
  sub (live g l L) (live g 0 L0) /\ strictly_inc (map key_of (live g l L)).
Proof.
  intros Hi W0 W Hm.
  assert (S0 : strictly_inc (map key_of L0)) by (apply (walkl_sorted0 g Hi L0 head); auto).
  assert (Hinc : incl (live g l L) (live g 0 L0)).
  { intros q Hq. apply filter_In in Hq. destruct Hq as [Hq Hu]. apply negb_true_iff in Hu.
    destruct (Hm q Hq Hu) as [H0 HL]. apply filter_In. split; [exact HL|now rewrite H0]. }
  assert (SL : strictly_inc (map key_of (live g l L))).
  { apply weakly_strictly.
    - apply weakly_inc_filter. apply (walkl_sorted g l Hi L head); auto.
    - apply NoDup_filter. eapply walkl_nodup; eauto.
    - intros x y Hx Hy. apply (strictly_inc_key_inj L0); auto.
      + apply Hinc in Hx. apply filter_In in Hx. tauto.
      + apply Hinc in Hy. apply filter_In in Hy. tauto. }
  split; [|exact SL]. apply sub_of_incl_sorted; auto. now apply strictly_inc_filter.
Qed.

(** ** the nested-levels invariant and its preservation by the accesses that write a [next] cell *)
Definition Lev (g : G) (Ls : nat -> list ptr) : Prop := forall l, (l < MAXH)%nat -> walkl g l head (Ls l).
Definition Nested (Ls : nat -> list ptr) : Prop := forall l q, (S l < MAXH)%nat -> In q (Ls (S l)) -> In q (Ls l).
Definition LevOK (g : G) : Prop := exists Ls, Lev g Ls /\ Nested Ls.

(** what [LevOK] means, in the words of the property: every level is a null-terminated list and (given the order invariant)
    an ordered sub-list of the level below; all levels are strictly sorted *)
Theorem levok_sublists g : I g -> LevOK g ->
  exists Ls, Lev g Ls /\
    (forall l, (S l < MAXH)%nat -> sub (Ls (S l)) (Ls l)) /\ (forall l, (l < MAXH)%nat -> strictly_inc (map key_of (Ls l))).
Proof.
  intros Hi (Ls & HL & HN). exists Ls. split; [exact HL|].
  assert (H0 : forall l, (l < MAXH)%nat -> incl (Ls l) (Ls 0%nat)).
  { induction l as [|l IH]; intros Hl; [apply incl_refl|]. intros q Hq. apply IH; [lia|]. apply HN; auto. }
  assert (M0 : (0 < MAXH)%nat) by (unfold MAXH; lia).
  split.
  - intros l Hl. eapply (sub_of_membership g l (Ls (S l)) (Ls l) (Ls 0%nat)); eauto; try (apply HL; lia).
    + intros q Hq. apply HN; auto.
    + apply H0. lia.
  - intros l Hl. eapply (level_strictly_sorted g l (Ls l) (Ls 0%nat)); eauto.
Qed.

Definition setnx (g : G) (p : ptr) (l : nat) (x : mptr) : G := mkG (upd2 (nxt g) p l x) (unl g) (hgt_of g) (hgt g) (cnt g).

Lemma setnx_same g p l x : nxt (setnx g p l x) p l = x.
Proof. cbn. apply upd2_same. Qed.
Lemma setnx_other g p l x p' l' : (p', l') <> (p, l) -> nxt (setnx g p l x) p' l' = nxt g p' l'.
Proof. cbn. apply upd2_other. Qed.

(** a write to a cell of another level, or of a node that is not on the list, leaves the list alone *)
Lemma walkl_setnx_other g p l x l' : forall L p0, (l' <> l \/ ~ In p (p0 :: L)) -> walkl g l' p0 L -> walkl (setnx g p l x) l' p0 L.
Proof.
  induction L as [|n r IH]; intros p0 Hd; cbn [walkl].
  - rewrite setnx_other; [tauto|]. intros X. injection X as X1 X2. destruct Hd as [Hd|Hd]; [congruence|]. apply Hd. now left.
  - rewrite setnx_other.
    + intros (H1 & H2 & H3). repeat split; auto. apply IH; auto. destruct Hd as [Hd|Hd]; [now left|right]. intros X. apply Hd. now right.
    + intros X. injection X as X1 X2. destruct Hd as [Hd|Hd]; [congruence|]. apply Hd. now left.
Qed.

(** (1) marking CASes (tr_mark_one, tr_lp) and every other access that keeps all pointers: the lists do not change *)
Theorem levok_same_ptrs g g' : (forall p l, fst (nxt g' p l) = fst (nxt g p l)) -> LevOK g -> LevOK g'.
Proof.
  intros E (Ls & HL & HN). exists Ls. split; [|exact HN]. intros l Hl. eapply walkl_ext; [|apply HL; exact Hl]. intros n. apply E.
Qed.

Theorem levok_mark g q l : LevOK g -> LevOK (setnx g q l (fst (nxt g q l), true)).
Proof.
  apply levok_same_ptrs. intros p l'. destruct (Nat.eq_dec p q) as [->|Np].
  - destruct (Nat.eq_dec l' l) as [->|Nl]; [now rewrite setnx_same|]. rewrite setnx_other by congruence. reflexivity.
  - rewrite setnx_other by congruence. reflexivity.
Qed.

(** (2) stores and CASes on a cell of a node that is NOT on the list of that level (insert_at_position before the node is
    linked at the level: the clearing stores, the level-0 store, the own-link CAS) *)
Theorem levok_offlist g Ls p l x :
  Lev g Ls -> Nested Ls -> p <> head -> ((l < MAXH)%nat -> ~ In p (Ls l)) -> Lev (setnx g p l x) Ls.
Proof.
  intros HL HN Hp Hn l' Hl'. apply walkl_setnx_other; [|apply HL; exact Hl'].
  destruct (Nat.eq_dec l' l) as [->|N]; [right|now left]. intros [X|X]; [congruence|]. now apply Hn.
Qed.

Fixpoint segl (g : G) (l : nat) (p : ptr) (A : list ptr) (q : ptr) : Prop :=
  match A with
  | [] => fst (nxt g p l) = q
  | n :: r => fst (nxt g p l) = n /\ n <> null /\ segl g l n r q
  end.

Lemma walkl_split g l : forall A p x B, walkl g l p (A ++ x :: B) <-> segl g l p A x /\ x <> null /\ walkl g l x B.
Proof.
  induction A as [|a A IH]; intros p x B; cbn [app walkl segl]; [tauto|]. rewrite IH. tauto.
Qed.

Lemma segl_setnx_other g p l x : forall A p0 q, ~ In p (p0 :: A) -> segl g l p0 A q -> segl (setnx g p l x) l p0 A q.
Proof.
  induction A as [|n r IH]; intros p0 q Hd; cbn [segl].
  - rewrite setnx_other; [tauto|]. intros X. injection X as X1. apply Hd. now left.
  - rewrite setnx_other.
    + intros (H1 & H2 & H3). repeat split; auto. apply IH; auto. intros X. apply Hd. now right.
    + intros X. injection X as X1. apply Hd. now left.
Qed.

(** (3) the link CAS of insert_at_position at level l: [p] is the head or on the level-l list, its cell and the cell of the
    new node point to the same successor, the new node is not yet on the level-l list and (for l > 0) is on the list below *)
Theorem levok_link g Ls p l new b :
  Lev g Ls -> Nested Ls -> (l < MAXH)%nat -> ~ In head (Ls l) ->
  (p = head \/ In p (Ls l)) -> new <> null -> new <> head -> new <> p -> ~ In new (Ls l) ->
  fst (nxt g new l) = fst (nxt g p l) ->
  (match l with O => True | S l' => In new (Ls l') end) ->
  LevOK (setnx g p l (new, b)).
Proof.
  intros HL HN Hl Nh Hp N0 N1 N2 Nin Es Hbelow.
  pose proof (HL l Hl) as W. pose proof (walkl_nodup _ _ _ _ W) as ND.
  (* the new list of level l *)
  assert (Hex : exists L', walkl (setnx g p l (new, b)) l head L' /\ (forall q, In q L' <-> q = new \/ In q (Ls l))).
  { destruct Hp as [->|Hin].
    - exists (new :: Ls l). split.
      + cbn [walkl]. rewrite setnx_same. cbn [fst]. repeat split; auto.
        assert (W' : walkl g l new (Ls l)).
        { destruct (Ls l) as [|n r]; cbn [walkl] in *; [congruence|]. destruct W as (E & Nn & Wr). repeat split; auto. congruence. }
        apply walkl_setnx_other; [|exact W']. right. intros [X|X]; [congruence|contradiction].
      + intros q. cbn [In]. split; intros [H|H]; auto.
    - apply in_split in Hin. destruct Hin as (A & B & EL). rewrite EL in W, ND, Nin, Nh.
      apply walkl_split in W. destruct W as (Sg & Np & WB).
      apply NoDup_remove_2 in ND.
      exists (A ++ p :: new :: B). split.
      + apply walkl_split. split; [|split; [exact Np|]].
        * apply segl_setnx_other; [|exact Sg]. intros [X|X]; [apply Nh; rewrite <- X; apply in_or_app; right; now left|].
          apply ND. apply in_or_app. now left.
        * cbn [walkl]. rewrite setnx_same. cbn [fst]. repeat split; auto.
          assert (W' : walkl g l new B).
          { destruct B as [|n r]; cbn [walkl] in *; [congruence|]. destruct WB as (E & Nn & Wr). repeat split; auto. congruence. }
          apply walkl_setnx_other; [|exact W']. right. intros [X|X]; [congruence|]. apply ND. apply in_or_app. now right.
      + intros q. rewrite EL. rewrite !in_app_iff. cbn [In]. intuition (subst; auto). }
  destruct Hex as (L' & WL' & HL').
  exists (fun l' => if Nat.eqb l' l then L' else Ls l'). split.
  - intros l' Hl'. destruct (Nat.eqb_spec l' l) as [->|Nl]; [exact WL'|].
    apply walkl_setnx_other; [now left|apply HL; exact Hl'].
  - intros l' q Hl' Hq. destruct (Nat.eqb_spec (S l') l) as [E|Ne].
    + (* the level above l' is l: the new node is on l' *)
      destruct (Nat.eqb_spec l' l) as [X|_]; [lia|]. apply HL' in Hq. destruct Hq as [->|Hq].
      * subst l. exact Hbelow.
      * apply HN; auto. now rewrite E.
    + destruct (Nat.eqb_spec l' l) as [->|Nl]; [|apply HN; auto]. apply HL'. right. apply HN; auto.
Qed.

(** (4) the unlink CASes (help_remove, fast path of try_remove_at) at level l: [p] is the head or on the level-l list, its
    successor [q] is swung to [q]'s successor, and [q] is not on the list of the level above *)
Theorem levok_unlink g Ls p l q b :
  Lev g Ls -> Nested Ls -> (l < MAXH)%nat -> ~ In head (Ls l) ->
  (p = head \/ In p (Ls l)) -> fst (nxt g p l) = q -> q <> null ->
  ((S l < MAXH)%nat -> ~ In q (Ls (S l))) ->
  LevOK (setnx g p l (fst (nxt g q l), b)).
Proof.
  intros HL HN Hl Nh Hp Eq Nq Nup.
  pose proof (HL l Hl) as W. pose proof (walkl_nodup _ _ _ _ W) as ND.
  assert (Hex : exists L', walkl (setnx g p l (fst (nxt g q l), b)) l head L' /\ (forall x, In x L' <-> x <> q /\ In x (Ls l))).
  { destruct Hp as [->|Hin].
    - destruct (Ls l) as [|n r] eqn:EL; cbn [walkl] in W; [congruence|]. destruct W as (E & Nn & Wr).
      rewrite Eq in E. subst n. inversion ND as [|? ? Nq' NDr]; subst.
      exists r. split.
      + destruct r as [|n2 r2]; cbn [walkl] in *.
        * rewrite setnx_same. cbn [fst]. exact Wr.
        * rewrite setnx_same. cbn [fst]. destruct Wr as (E2 & N2 & W2). repeat split; auto.
          apply walkl_setnx_other; [|exact W2]. right. intros [X|X]; [apply Nh; rewrite <- X; right; now left|].
          apply Nh. right. now right.
      + intros x. cbn [In]. split.
        * intros Hx. split; [intros ->; contradiction|now right].
        * intros (Hx & [X|X]); [congruence|exact X].
    - apply in_split in Hin. destruct Hin as (A & B & EL). rewrite EL in W, ND, Nh.
      apply walkl_split in W. destruct W as (Sg & Np & WB).
      destruct B as [|n r]; cbn [walkl] in WB; [congruence|]. destruct WB as (E & Nn & Wr).
      rewrite Eq in E. subst n.
      assert (NDp : ~ In p (A ++ q :: r)) by (now apply NoDup_remove_2 in ND).
      assert (NDq : ~ In q (A ++ p :: r)).
      { replace (A ++ p :: q :: r) with ((A ++ [p]) ++ q :: r) in ND by (rewrite <- app_assoc; reflexivity).
        apply NoDup_remove_2 in ND. rewrite <- app_assoc in ND. exact ND. }
      exists (A ++ p :: r). split.
      + apply walkl_split. split; [|split; [exact Np|]].
        * apply segl_setnx_other; [|exact Sg]. intros [X|X]; [apply Nh; rewrite <- X; apply in_or_app; right; now left|].
          apply NDp. apply in_or_app. now left.
        * destruct r as [|n2 r2]; cbn [walkl] in *.
          -- rewrite setnx_same. cbn [fst]. exact Wr.
          -- rewrite setnx_same. cbn [fst]. destruct Wr as (E2 & N2 & W2). repeat split; auto.
             apply walkl_setnx_other; [|exact W2]. right. intros [X|X].
             ++ apply NDp. apply in_or_app. right. right. now left.
             ++ apply NDp. apply in_or_app. right. right. now right.
      + intros x. rewrite EL. rewrite !in_app_iff. cbn [In]. split.
        * intros Hx. split; [intros ->; apply NDq; rewrite in_app_iff; cbn [In]; tauto|tauto].
        * intros (Hx & [X|[X|[X|X]]]); auto; congruence. }
  destruct Hex as (L' & WL' & HL').
  exists (fun l' => if Nat.eqb l' l then L' else Ls l'). split.
  - intros l' Hl'. destruct (Nat.eqb_spec l' l) as [->|Nl]; [exact WL'|].
    apply walkl_setnx_other; [now left|apply HL; exact Hl'].
  - intros l' x Hl' Hx. destruct (Nat.eqb_spec (S l') l) as [E|Ne].
    + destruct (Nat.eqb_spec l' l) as [X|_]; [lia|]. apply HL' in Hx. apply HN; auto. rewrite E. tauto.
    + destruct (Nat.eqb_spec l' l) as [->|Nl]; [|apply HN; auto]. apply HL'. split; [|apply HN; auto].
      intros ->. now apply Nup.
Qed.

(** ** a decidable check of [LevOK] *)
Definition lev_list_n (N : nat) (g : G) (l : nat) : list ptr := chain g l head N.
Definition levokb_n (N : nat) (g : G) : bool :=
  forallb (fun l => Nat.ltb (List.length (lev_list_n N g l)) N) (seq 0 MAXH) &&
  forallb (fun l => forallb (fun q => existsb (Nat.eqb q) (lev_list_n N g l)) (lev_list_n N g (S l))) (seq 0 (MAXH - 1)).

Lemma levokb_n_sound N g : levokb_n N g = true -> LevOK g.
Proof.
  unfold levokb_n. intros H. apply andb_true_iff in H. destruct H as [H1 H2]. rewrite forallb_forall in H1, H2.
  exists (lev_list_n N g). split.
  - intros l Hl. unfold lev_list_n. apply chain_walkl. apply Nat.ltb_lt. apply (H1 l). apply in_seq. lia.
  - intros l q Hl Hq. assert (Hin : In l (seq 0 (MAXH - 1))) by (apply in_seq; lia).
    specialize (H2 l Hin). rewrite forallb_forall in H2. specialize (H2 q Hq). apply existsb_exists in H2.
    destruct H2 as (x & Hx & E). apply Nat.eqb_eq in E. now subst x.
Qed.

Definition LEVFUEL : nat := 40.
Definition lev_list (g : G) (l : nat) : list ptr := lev_list_n LEVFUEL g l.
Definition levokb (g : G) : bool := levokb_n LEVFUEL g.

Theorem levokb_sound g : levokb g = true -> LevOK g.
Proof. apply levokb_n_sound. Qed.

(** no cell of a listed node is marked (what a quiescent point is expected to satisfy) *)
Definition nomarkb (g : G) : bool :=
  forallb (fun l => forallb (fun q => negb (snd (nxt g q l))) (lev_list g l)) (seq 0 MAXH).

(** [run_chk chk]: [Conc.run] that evaluates [chk] on the state after every step (and on the first) *)
Fixpoint run_chk (chk : G -> bool) (fuel : nat) (i : nat) (sched : list nat) (c : Conc.config G V ev) : bool * nat :=
  if negb (chk (Conc.shared c)) then (false, i) else
  match fuel with
  | O => (true, i)
  | S fuel' =>
      let (entry, rest) := match sched with [] => (i, []) | e :: r => (e, r) end in
      match Conc.pick (Conc.threads c) entry with
      | None => (true, i)
      | Some t =>
          match Conc.step_cfg c t with
          | Some c' => run_chk chk fuel' (S i) rest c'
          | None => (true, i)
          end
      end
  end.

Definition run_case_chk (chk : G -> bool) (cfg : list Z) (ths : list (list (list Z))) (sched : list nat) (fuel : nat) : bool * nat :=
  run_chk chk fuel 0 sched (init_cfg 60 (prefill_nodes cfg) (map decode_ops ths)).

(** pseudo-random bursty schedules for [n] threads (linear congruential generator; burst lengths 1..9), and a sweep that
    returns the seeds (with the step number) at which [chk] failed *)
Fixpoint gen_sched (n : nat) (nth : Z) (s : Z) (cur : Z) (left : Z) (acc : list nat) : list nat :=
  match n with
  | O => rev acc
  | S n' =>
      let s' := (s * 1103515245 + 12345) mod 2147483648 in
      if left <=? 0 then gen_sched n' nth s' ((s' / 65536) mod nth) (1 + (s' / 1024) mod 9) (Z.to_nat ((s' / 65536) mod nth) :: acc)
      else gen_sched n' nth s' cur (left - 1) (Z.to_nat cur :: acc)
  end.
Definition sweep_chk (chk : G -> bool) (cfg : list Z) (ths : list (list (list Z))) (seeds : list Z) : list (Z * nat) :=
  flat_map (fun sd =>
    let r := run_case_chk chk cfg ths (gen_sched 3000 (Z.of_nat (List.length ths)) sd 0 0 []) 6000 in
    if fst r then [] else [(sd, snd r)]) seeds.
