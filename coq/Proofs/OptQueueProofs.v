(** * Linearizability of the OptimisticQueue model for every schedule, any number of threads.

    Linearization points:
      enqueue          the successful CAS of [tail]                                    ([Inv_tailcas])
      dequeue (value)  the successful CAS of [head] to [pFirstNodePrev], which was checked to satisfy
                       [pFirstNodePrev->next == pHead]: it is a linked node (prev pointers never dangle)
                       whose next pointer is the head, hence the successor of head     ([Inv_headcas])
      dequeue (empty)  the last load of [tail] in [protect(1, m_pTail)] if it returned the node the thread
                       read as head: at that instant the node is head and last, the queue is empty.  The
                       re-validation of [head] afterwards may fail, so this is a tentative LP
                       ([Inv_cand_set] / [Inv_confirm] / [Inv_discard], see MSQueueBase). *)
From Coq Require Import ZArith List String Bool Lia PeanoNat.
From LV Require Import Base.Conc Base.Events Base.Lin Spec.Specs Proofs.LinProofs Model.OptQueue
  Proofs.MSQueueBase Proofs.OptQueueInv.
Import ListNotations.
Local Open Scope string_scope.
Local Open Scope list_scope.

Notation safe := (@Conc.safe G V ev Aux tview view Inv).

Lemma view_auxset a d r t v : view (auxset a d r t v) t = v.
Proof. unfold view, auxset. cbn. apply updv_same. Qed.
Lemma frame_auxset a d r t v : Conc.frame view t a (auxset a d r t v).
Proof. intros t' H. unfold view, auxset. cbn. now apply updv_other. Qed.
Lemma frame_refl t a : Conc.frame view t a a.
Proof. intros ? ?. reflexivity. Qed.

Lemma safe_act {R} t (f : act) (k : V -> prog R) l Q :
  (forall g a tr, Inv g a tr -> views a t = l ->
     exists d r v', Inv (fst (fst (f g))) (auxset a d r t v') (tr ++ Conc.tag t (snd (f g))) /\
                    safe t (k (snd (fst (f g)))) v' Q) ->
  safe t (Act f k) l Q.
Proof.
  intros H. cbn [Conc.safe]. intros g a tr HI Hv. destruct (H g a tr HI Hv) as (d & r & v' & A & B).
  exists (auxset a d r t v'). split; [exact A|]. split; [apply frame_auxset|].
  rewrite view_auxset. exact B.
Qed.

(** a step after which the thread's view is what it was *)
Lemma safe_act_keep {R} t (f : act) (k : V -> prog R) l Q :
  (forall g a tr, Inv g a tr -> views a t = l ->
     Inv (fst (fst (f g))) a (tr ++ Conc.tag t (snd (f g))) /\ safe t (k (snd (fst (f g)))) l Q) ->
  safe t (Act f k) l Q.
Proof.
  intros H. cbn [Conc.safe]. intros g a tr HI Hv. destruct (H g a tr HI Hv) as (A & B).
  exists a. split; [exact A|]. split; [apply frame_refl|]. rewrite Hv. exact B.
Qed.

Lemma safe_emit {R} t es (k : prog R) l Q :
  (forall g a tr, Inv g a tr -> views a t = l ->
     exists d r v', Inv g (auxset a d r t v') (tr ++ Conc.tag t es) /\ safe t k v' Q) ->
  safe t (Emit es k) l Q.
Proof.
  intros H. cbn [Conc.safe]. intros g a tr HI Hv. destruct (H g a tr HI Hv) as (d & r & v' & A & B).
  exists (auxset a d r t v'). split; [exact A|]. split; [apply frame_auxset|].
  rewrite view_auxset. exact B.
Qed.

Lemma safe_touch {R} t k o (p : prog R) l Q :
  safe t p l Q -> safe t (Act (touch k o) (fun _ => p)) l Q.
Proof.
  intros H. apply safe_act_keep. intros g a tr HI Hv. cbn [touch fst snd]. split; [apply Inv_acc; exact HI|exact H].
Qed.

Lemma safe_with_ic {R} cf t k d (p : prog R) l Q : safe t p l Q -> safe t (with_ic cf k d p) l Q.
Proof.
  intros H. unfold with_ic. destruct (c_ic cf); [|exact H].
  apply safe_act_keep. intros g a tr HI Hv. cbn [a_cnt fst snd].
  split; [apply Inv_acc; apply Inv_cnt; exact HI|exact H].
Qed.

Lemma safe_retire {R} cf t h (p : prog R) l Q : safe t p l Q -> safe t (retire cf t h p) l Q.
Proof.
  intros H. unfold retire. destruct (c_hp cf && negb (Nat.eqb h 0)); [|exact H].
  apply safe_touch. apply safe_touch. exact H.
Qed.

Lemma safe_clear2 {R} t s0 s1 (p : prog R) l Q : safe t p l Q -> safe t (clear2 t s0 s1 p) l Q.
Proof. intros H. unfold clear2. apply safe_touch. apply safe_touch. exact H. Qed.

Lemma safe_clear3 {R} t s0 s1 s2 (p : prog R) l Q : safe t p l Q -> safe t (clear3 t s0 s1 s2 p) l Q.
Proof. intros H. unfold clear3. apply safe_touch. apply safe_clear2. exact H. Qed.

(** a load (or a failed CAS) after which the thread replaces the facts it remembers *)
Lemma step_setv g a tr t l v' k o b :
  Inv g a tr -> views a t = l ->
  tv_st v' = tv_st l -> tv_priv v' = tv_priv l -> tv_pnx v' = tv_pnx l -> tv_cand v' = tv_cand l ->
  (tv_ok g a l -> (forall h, tv_hd v' = Some h -> In h (done a ++ [head g])) /\
                  (forall m, In m (tv_kin v') -> In m (LL g a)) /\
                  (forall p h, tv_pf v' = Some (p, h) -> In p (LL g a) /\ nxt g p = Some h)) ->
  Inv g (auxset a (done a) (rest a) t v') (tr ++ Conc.tag t [EvAcc k o b]).
Proof.
  intros HI Hv E1 E2 E3 E4 Hf. apply Inv_acc.
  pose proof (I_views _ _ _ HI t) as Hok. rewrite Hv in Hok. destruct (Hf Hok) as (F1 & F2 & F3).
  apply Inv_setv; try rewrite Hv; auto.
Qed.

(** ** views at the program points *)
Definition VPE (v : Z) : tview := mkTV (@Pending Fifo (Enq v)) None None None [] None false.
Definition VE (v : Z) (n : nat) (pnx : option nat) : tview :=
  mkTV (@Pending Fifo (Enq v)) (Some n) pnx None [] None false.
Definition VLE' (v : Z) (n : nat) : tview := mkTV (@Linearized Fifo (Enq v) (RBool true)) None None None [n] None false.
Definition VLE (v : Z) : tview := mkTV (@Linearized Fifo (Enq v) (RBool true)) None None None [] None false.
Definition VD (hd : option nat) (kin : list nat) (pf : option (nat * nat)) (c : bool) : tview :=
  mkTV (@Pending Fifo Deq) None None hd kin pf c.
Definition VEmp : tview := mkTV empty_lin None None None [] None false.
Definition VGot (v : Z) : tview := mkTV (@Linearized Fifo Deq (RVal (Some v))) None None None [] None false.

(** ** enqueue *)

(** protect( 0, m_pTail ) of enqueue: nothing is learned (the CAS re-checks tail) *)
Lemma safe_protect_tail_plain fuel : forall t s l,
  safe t (protect_tail fuel t s) l (fun r l' => match r with Some _ => l' = l | None => True end).
Proof.
  unfold protect_tail.
  induction fuel as [|f IH]; intros t s l; cbn [protect_n]; [exact I|].
  apply safe_act_keep. intros g a tr HI Hv. cbn [a_ld_tail fst snd vn]. split; [apply Inv_acc; exact HI|].
  set (r := tail g). clearbody r. clear g a tr HI Hv.
  apply safe_touch. apply safe_touch.
  apply safe_act_keep. intros g a tr HI Hv. cbn [a_ld_tail fst snd vn]. split; [apply Inv_acc; exact HI|].
  destruct (Nat.eqb (tail g) r); [reflexivity|apply IH].
Qed.

Definition Qenq (v : Z) : bool -> tview -> Prop := fun ok l => if ok then l = VLE v else True.

Lemma safe_enq_loop cf fuel : forall t s0 v n pnx,
  safe t (enq_loop cf fuel t s0 n) (VE v n pnx) (Qenq v).
Proof.
  induction fuel as [|f IH]; intros t s0 v n pnx; cbn [enq_loop]; [exact I|].
  apply Conc.safe_bind. eapply Conc.safe_weaken; [|apply safe_protect_tail_plain].
  intros [tl|] l Hl; [subst l|exact I].
  (* pNew->m_pNext.store( pTail ) *)
  apply safe_act. intros g a tr HI Hv. cbn [a_st_next fst snd].
  exists (done a), (rest a), (VE v n (Some tl)). split.
  { apply Inv_acc. eapply Inv_st_next_priv; eauto. }
  clear g a tr HI Hv.
  (* m_pTail.compare_exchange_strong( pTail, pNew ) *)
  apply safe_act. intros g a tr HI Hv. unfold a_cas_tail.
  destruct (Nat.eqb_spec (tail g) tl) as [Et|Hne]; cbn [fst snd vb].
  - exists (done a), (rest a ++ [n]), (VLE' v n). split.
    { apply Inv_acc. eapply Inv_tailcas; eauto. }
    clear g a tr HI Hv Et.
    (* pTail->m_pPrev.store( pNew ) *)
    apply safe_act. intros g a tr HI Hv. cbn [a_st_prev fst snd].
    exists (done a), (rest a), (VLE v). split; [|apply safe_with_ic; reflexivity].
    pose proof (I_views _ _ _ HI t) as (_ & _ & F3 & _). rewrite Hv in F3. cbn in F3.
    eapply step_setv with (g := mkG (head g) (tail g) (nxt g) (upd (prv g) tl (Some n)) (val g) (nalloc g) (cnt g));
      eauto; try reflexivity.
    + apply Inv_st_prev; [exact HI|]. intros x E. injection E as <-. apply F3. now left.
    + intros _. repeat split; cbn; try (intros; discriminate). intros m [].
  - exists (done a), (rest a), (VE v n (Some tl)). split; [|apply IH].
    eapply step_setv; eauto; try reflexivity. intros _. repeat split; cbn; try (intros; discriminate). intros m [].
Qed.

Lemma safe_enqueue cf fuel t s0 s1 v :
  safe t (enqueue cf fuel t s0 s1 v) (VPE v) (Qenq v).
Proof.
  unfold enqueue. apply safe_act. intros g a tr HI Hv.
  exists (done a), (rest a), (VE v (nalloc g) None). split.
  { apply Inv_acc. eapply Inv_alloc; eauto. }
  cbn [a_alloc fst snd vn]. set (n := nalloc g). clearbody n. clear g a tr HI Hv.
  apply safe_act_keep. intros g a tr HI Hv. cbn [a_st_prev fst snd]. split.
  { apply Inv_acc. apply Inv_st_prev; [exact HI|]. intros; discriminate. }
  apply safe_touch. apply safe_touch.
  apply Conc.safe_bind. eapply Conc.safe_weaken; [|apply safe_enq_loop].
  intros [|] l Hl; cbn in Hl; [subst l|exact I].
  apply safe_clear2. reflexivity.
Qed.

(** ** dequeue *)
Lemma safe_protect_head_d fuel : forall t s hd kin pf,
  safe t (protect_head fuel t s) (VD hd kin pf false)
       (fun r l => match r with Some h => l = VD (Some h) [] None false | None => True end).
Proof.
  unfold protect_head.
  induction fuel as [|f IH]; intros t s hd kin pf; cbn [protect_n]; [exact I|].
  apply safe_act_keep. intros g a tr HI Hv. cbn [a_ld_head fst snd vn]. split; [apply Inv_acc; exact HI|].
  set (r := head g). clearbody r. clear g a tr HI Hv.
  apply safe_touch. apply safe_touch.
  apply safe_act. intros g a tr HI Hv. cbn [a_ld_head fst snd vn].
  exists (done a), (rest a), (VD (Some (head g)) [] None false). split.
  { eapply step_setv; eauto; try reflexivity. intros _. repeat split; cbn; try (intros; discriminate).
    - intros h E. injection E as <-. apply in_or_app. right. now left.
    - intros m []. }
  destruct (Nat.eqb_spec (head g) r) as [->|Hne]; [reflexivity|apply IH].
Qed.

(** protect( 1, m_pTail ) of dequeue: the last load is the tentative LP if it returns my head *)
Lemma safe_protect_tail_d fuel : forall t s h kin,
  safe t (protect_tail fuel t s) (VD (Some h) kin None false)
       (fun r l => match r with Some tl => l = VD (Some h) [tl] None (Nat.eqb tl h) | None => True end).
Proof.
  unfold protect_tail.
  induction fuel as [|f IH]; intros t s h kin; cbn [protect_n]; [exact I|].
  apply safe_act_keep. intros g a tr HI Hv. cbn [a_ld_tail fst snd vn]. split; [apply Inv_acc; exact HI|].
  set (r := tail g). clearbody r. clear g a tr HI Hv.
  apply safe_touch. apply safe_touch.
  apply safe_act. intros g a tr HI Hv. cbn [a_ld_tail fst snd vn].
  destruct (Nat.eqb_spec (tail g) r) as [Er|Hne].
  - destruct (Nat.eqb_spec (tail g) h) as [Eh|Hnh].
    + exists (done a), (rest a), (VD (Some h) [h] None true). split.
      { apply Inv_acc. eapply Inv_cand_set; eauto. }
      cbn. replace (Nat.eqb r h) with true by (symmetry; apply Nat.eqb_eq; congruence).
      replace r with h by congruence. reflexivity.
    + exists (done a), (rest a), (VD (Some h) [tail g] None false). split.
      { eapply step_setv; eauto; try reflexivity. intros (_ & F2 & _). repeat split; cbn; try (intros; discriminate); auto.
        intros m [<-|[]]. eapply tail_in_LL; eauto. }
      subst r. cbn. destruct (Nat.eqb_spec (tail g) h); [contradiction|reflexivity].
  - exists (done a), (rest a), (VD (Some h) [] None false). split; [|apply IH].
    eapply step_setv; eauto; try reflexivity. intros (_ & F2 & _). repeat split; cbn; try (intros; discriminate); auto.
    intros m [].
Qed.

Definition olist (p : option nat) : list nat := match p with Some x => [x] | None => [] end.

(** protect( 2, pHead->m_pPrev ): a non-null prev pointer points to a linked node *)
Lemma safe_protect_prev_d fuel : forall t s h hn tl c,
  safe t (protect_prev fuel t s hn) (VD (Some h) [tl] None c)
       (fun r l => match r with Some pp => l = VD (Some h) (olist pp ++ [tl]) None c | None => True end).
Proof.
  unfold protect_prev.
  induction fuel as [|f IH]; intros t s h hn tl c; cbn [protect_p]; [exact I|].
  apply safe_act_keep. intros g a tr HI Hv. cbn [a_ld_prev fst snd vp]. split; [apply Inv_acc; exact HI|].
  set (r := prv g hn). clearbody r. clear g a tr HI Hv.
  apply safe_touch. apply safe_touch.
  apply safe_act. intros g a tr HI Hv. cbn [a_ld_prev fst snd vp].
  destruct (opt_eqb (prv g hn) r) eqn:Eo.
  - exists (done a), (rest a), (VD (Some h) (olist (prv g hn) ++ [tl]) None c). split.
    { eapply step_setv; eauto; try reflexivity. intros (_ & F2 & F3 & _). repeat split; cbn; try (intros; discriminate); auto.
      intros m Hm. apply in_app_or in Hm. destruct Hm as [Hm|Hm]; [|apply F3; exact Hm].
      destruct (prv g hn) as [x|] eqn:E; [|destruct Hm]. destruct Hm as [<-|[]]. eapply I_prv; eauto. }
    assert (r = prv g hn) as ->; [|reflexivity].
    destruct (prv g hn), r; cbn in Eo; try discriminate; auto. apply Nat.eqb_eq in Eo. congruence.
  - exists (done a), (rest a), (VD (Some h) [tl] None c). split; [|apply IH].
    eapply step_setv; eauto; try reflexivity. intros (_ & F2 & F3 & _). repeat split; cbn; try (intros; discriminate); auto.
Qed.

(** ** fix_list *)
Lemma safe_protect_next_f fuel : forall t s cur hd kin,
  In cur kin ->
  safe t (protect_next fuel t s cur) (VD hd kin None false)
       (fun r l => match r with
                   | Some (Some c) => l = VD hd (c :: kin) None false
                   | Some None => l = VD hd kin None false
                   | None => True
                   end).
Proof.
  unfold protect_next.
  induction fuel as [|f IH]; intros t s cur hd kin Hc; cbn [protect_p]; [exact I|].
  apply safe_act_keep. intros g a tr HI Hv. cbn [a_ld_next fst snd vp]. split; [apply Inv_acc; exact HI|].
  set (r := nxt g cur). clearbody r. clear g a tr HI Hv.
  apply safe_touch. apply safe_touch.
  apply safe_act. intros g a tr HI Hv. cbn [a_ld_next fst snd vp].
  destruct (opt_eqb (nxt g cur) r) eqn:Eo.
  - assert (r = nxt g cur) as ->.
    { destruct (nxt g cur), r; cbn in Eo; try discriminate; auto. apply Nat.eqb_eq in Eo. congruence. }
    exists (done a), (rest a), (VD hd (olist (nxt g cur) ++ kin) None false). split.
    { eapply step_setv; eauto; try reflexivity. intros (_ & F2 & F3 & _). repeat split; cbn; try (intros; discriminate); auto.
      intros m Hm. apply in_app_or in Hm. destruct Hm as [Hm|Hm]; [|apply F3; exact Hm].
      destruct (nxt g cur) as [x|] eqn:E; [|destruct Hm]. destruct Hm as [<-|[]].
      apply in_rev. eapply linked_succ; [apply (I_linked _ _ _ HI)| |exact E].
      apply in_rev. rewrite rev_involutive. apply F3. exact Hc. }
    destruct (nxt g cur); reflexivity.
  - exists (done a), (rest a), (VD hd kin None false). split; [|apply IH; exact Hc].
    eapply step_setv; eauto; try reflexivity. intros (_ & F2 & F3 & _). repeat split; cbn; try (intros; discriminate); auto.
Qed.

Definition Qfix : option bool -> tview -> Prop :=
  fun r l => match r with Some _ => exists hd kin, l = VD hd kin None false | None => True end.

Lemma safe_fix_loop fuel : forall t f0 f1 h cur hd kin,
  In cur kin -> safe t (fix_loop fuel t f0 f1 h cur) (VD hd kin None false) Qfix.
Proof.
  induction fuel as [|f IH]; intros t f0 f1 h cur hd kin Hc; cbn [fix_loop]; [exact I|].
  destruct (Nat.eqb cur h); [cbn; eauto|].
  apply Conc.safe_bind. eapply Conc.safe_weaken; [|apply safe_protect_next_f; exact Hc].
  intros [[c|]|] l Hl; [subst l|subst l|exact I].
  - apply safe_act_keep. intros g a tr HI Hv. cbn [a_ld_head fst snd vn]. split; [apply Inv_acc; exact HI|].
    destruct (negb (Nat.eqb (head g) h)); [cbn; eauto|].
    clear g a tr HI Hv.
    apply safe_act_keep. intros g a tr HI Hv. cbn [a_st_prev fst snd]. split.
    { apply Inv_acc. apply Inv_st_prev; [exact HI|]. intros x E. injection E as <-.
      pose proof (I_views _ _ _ HI t) as (_ & _ & F3 & _). rewrite Hv in F3. apply F3. cbn. right. exact Hc. }
    apply safe_touch. apply safe_touch. apply IH. now left.
  - apply safe_act_keep. intros g a tr HI Hv. cbn [a_ld_head fst snd vn]. split; [apply Inv_acc; exact HI|].
    destruct (negb (Nat.eqb (head g) h)); [cbn; eauto|exact I].
Qed.

Lemma safe_fix_list fuel t f0 f1 tl h hd kin :
  In tl kin -> safe t (fix_list fuel t f0 f1 tl h) (VD hd kin None false) Qfix.
Proof.
  intros Hc. unfold fix_list. apply Conc.safe_bind. eapply Conc.safe_weaken; [|apply safe_fix_loop; exact Hc].
  intros [b|] l Hl; [|exact I]. destruct Hl as (hd' & kin' & ->).
  apply safe_clear2. cbn. eauto.
Qed.

(** ** do_dequeue *)
Definition Qdeq : dres -> tview -> Prop :=
  fun d l => match d with DFuel => True | DEmpty _ _ => l = VEmp | DGot _ _ v _ _ => l = VGot v end.

Lemma safe_deq_loop fuel : forall t s0 s1 s2 f0 f1 hd kin pf,
  safe t (deq_loop fuel t s0 s1 s2 f0 f1) (VD hd kin pf false) Qdeq.
Proof.
  induction fuel as [|f IH]; intros t s0 s1 s2 f0 f1 hd kin pf; cbn [deq_loop]; [exact I|].
  apply Conc.safe_bind. eapply Conc.safe_weaken; [|apply safe_protect_head_d].
  intros [h|] l Hl; [subst l|exact I].
  apply Conc.safe_bind. eapply Conc.safe_weaken; [|apply safe_protect_tail_d].
  intros [tl|] l Hl; [subst l|exact I].
  apply Conc.safe_bind. eapply Conc.safe_weaken; [|apply safe_protect_prev_d].
  intros [pp|] l Hl; [subst l|exact I].
  (* the retry after fix_list, from any view without candidate in which tail is known to be linked *)
  assert (Hfix : forall kin', In tl kin' ->
            safe t (Conc.bind (fix_list f t f0 f1 tl h) (fun x =>
                      match x with None => Ret DFuel | Some _ => deq_loop f t s0 s1 s2 f1 f0 end))
                 (VD (Some h) kin' None false) Qdeq).
  { intros kin' Hk. apply Conc.safe_bind. eapply Conc.safe_weaken; [|apply safe_fix_list; exact Hk].
    intros [b|] l Hl; [|exact I]. destruct Hl as (hd' & kin'' & ->). apply IH. }
  (* if ( pHead == m_pHead.load()) *)
  apply safe_act. intros g a tr HI Hv. cbn [a_ld_head fst snd vn].
  destruct (Nat.eqb_spec (head g) h) as [Eh|Hne]; cbn [negb].
  2:{ exists (done a), (rest a), (VD None [] None false). split; [|apply IH].
      apply Inv_acc. eapply Inv_discard; eauto. }
  destruct (Nat.eqb_spec tl h) as [Et|Hnt].
  - (* pTail == pHead: empty; the candidate taken at the tail load is confirmed *)
    exists (done a), (rest a), VEmp. split; [|reflexivity].
    apply Inv_acc. eapply Inv_confirm; eauto.
  - exists (done a), (rest a), (VD (Some h) (olist pp ++ [tl]) None false). split.
    { eapply step_setv; eauto; try reflexivity. intros (_ & F2 & F3 & _). repeat split; cbn; try (intros; discriminate); auto. }
    clear g a tr HI Hv Eh.
    destruct pp as [p|]; cbn [olist app].
    2:{ apply Hfix. now left. }
    (* pFirstNodePrev->m_pNext.load() != pHead ? *)
    apply safe_act. intros g a tr HI Hv. cbn [a_ld_next fst snd vp].
    destruct (opt_eqb (nxt g p) (Some h)) eqn:Eo.
    + assert (En : nxt g p = Some h).
      { destruct (nxt g p); cbn in Eo; [|discriminate]. apply Nat.eqb_eq in Eo. congruence. }
      exists (done a), (rest a), (VD (Some h) [p; tl] (Some (p, h)) false). split.
      { eapply step_setv; eauto; try reflexivity. intros (_ & F2 & F3 & _).
        split; [exact F2|split; [exact F3|]]. cbn. intros p0 h0 E. injection E as <- <-.
        split; [apply F3; now left|exact En]. }
      clear g a tr HI Hv Eo En.
      (* m_pHead.compare_exchange_weak( pHead, pFirstNodePrev ) *)
      apply safe_act. intros g a tr HI Hv. unfold a_cas_head.
      destruct (Nat.eqb_spec (head g) h) as [Eh|Hne]; cbn [fst snd vb vz].
      * exists (done a ++ [h]), (List.tl (rest a)), (VGot (val g p)). split; [|reflexivity].
        apply Inv_acc. eapply Inv_headcas; eauto.
      * exists (done a), (rest a), (VD None [] None false). split; [|apply IH].
        apply Inv_acc. eapply Inv_discard; eauto.
    + exists (done a), (rest a), (VD (Some h) [p; tl] None false). split.
      { eapply step_setv; eauto; try reflexivity. intros (_ & F2 & F3 & _). repeat split; cbn; try (intros; discriminate); auto. }
      apply Hfix. right. now left.
Qed.

Definition Qdequeue : option (option Z * nat * nat) -> tview -> Prop :=
  fun r l => match r with
             | None => True
             | Some (None, _, _) => l = VEmp
             | Some (Some v, _, _) => l = VGot v
             end.

Lemma safe_dequeue cf fuel t s0 s1 s2 f0 f1 :
  safe t (dequeue cf fuel t s0 s1 s2 f0 f1) (VD None [] None false) Qdequeue.
Proof.
  unfold dequeue. apply Conc.safe_bind. eapply Conc.safe_weaken; [|apply safe_deq_loop].
  intros [|g0 g1|h p v g0 g1] l Hl; cbn in Hl; [exact I|subst l|subst l].
  - apply safe_clear3. reflexivity.
  - apply safe_with_ic. apply safe_retire. apply safe_clear3. reflexivity.
Qed.

(** ** client operations *)
Definition Qop : option slots -> tview -> Prop :=
  fun r l => match r with Some _ => l = v_idle | None => True end.

Lemma safe_ret {R} t name args (r : res) (o : qop) (x : R) l (Q : R -> tview -> Prop) :
  tv_st l = @Linearized Fifo o r -> tv_priv l = None -> tv_cand l = false ->
  hev_of t (EvCli name args) = [@HRes Fifo t r] ->
  Q x v_idle ->
  safe t (Emit [EvCli name args] (Ret x)) l Q.
Proof.
  intros Hs Hp Hc He HQ. apply safe_emit. intros g a tr HI Hv.
  exists (done a), (rest a), v_idle. split; [|exact HQ].
  eapply Inv_event with (e := @ARes Fifo t r) (s' := @Idle Fifo); eauto; try (rewrite Hv; assumption).
  intros f Hf. rewrite Hv, Hs in Hf. eapply step_res. exact Hf.
Qed.

Lemma safe_outoffuel {R} t (x : R) l (Q : R -> tview -> Prop) :
  (forall l', Q x l') -> safe t (Emit [EvCli "outoffuel" []] (Ret x)) l Q.
Proof.
  intros HQ. cbn [Conc.safe]. intros g a tr HI Hv. exists a.
  split; [apply Inv_cli_other; [reflexivity|exact HI]|]. split; [apply frame_refl|]. apply HQ.
Qed.

Lemma safe_run_op cf fuel t sl o : safe t (run_op cf fuel t sl o) v_idle Qop.
Proof.
  destruct o as [v|]; cbn [run_op].
  - apply safe_emit. intros g a tr HI Hv. exists (done a), (rest a), (VPE v). split.
    { eapply Inv_event with (e := @AInv Fifo t (Enq v)) (s' := @Pending Fifo (Enq v)); eauto;
        try (rewrite Hv; reflexivity).
      intros f Hf. rewrite Hv in Hf. apply step_inv. exact Hf. }
    apply Conc.safe_bind. eapply Conc.safe_weaken; [|apply safe_enqueue].
    intros [|] l Hl; cbn in Hl.
    + subst l. eapply safe_ret with (r := RBool true) (o := Enq v); reflexivity.
    + apply safe_outoffuel. intros; exact I.
  - apply safe_emit. intros g a tr HI Hv. exists (done a), (rest a), (VD None [] None false). split.
    { eapply Inv_event with (e := @AInv Fifo t Deq) (s' := @Pending Fifo Deq); eauto;
        try (rewrite Hv; reflexivity).
      intros f Hf. rewrite Hv in Hf. apply step_inv. exact Hf. }
    apply Conc.safe_bind. eapply Conc.safe_weaken; [|apply safe_dequeue].
    intros [[[[v|] g0] g1]|] l Hl; cbn in Hl.
    + subst l. eapply safe_ret with (r := RVal (Some v)) (o := Deq); reflexivity.
    + subst l. eapply safe_ret with (r := RVal None) (o := Deq); reflexivity.
    + apply safe_outoffuel. intros; exact I.
Qed.

Lemma safe_run_ops cf fuel t os : forall sl, safe t (run_ops cf fuel t sl os) v_idle (@Conc.QTrue tview).
Proof.
  induction os as [|o r IH]; intros sl; cbn [run_ops]; [exact I|].
  apply Conc.safe_bind. eapply Conc.safe_weaken; [|apply safe_run_op].
  intros [sl'|] l Hl; cbn in Hl; [subst l; apply IH|exact I].
Qed.

Lemma safe_thread cf fuel t os : safe t (thread_prog cf fuel t os) v_idle (@Conc.QTrue tview).
Proof.
  unfold thread_prog. apply safe_act_keep. intros g a tr HI Hv. cbn [a_begin fst snd].
  split; [apply Inv_acc; exact HI|apply safe_run_ops].
Qed.

Lemma nth_error_mapi_from {A B} (f : nat -> A -> B) l : forall i t,
  nth_error (mapi_from f i l) t = option_map (f (i + t)%nat) (nth_error l t).
Proof.
  induction l as [|x r IH]; intros i [|t]; cbn; auto.
  - now rewrite Nat.add_0_r.
  - rewrite IH. now rewrite Nat.add_succ_r.
Qed.

Lemma init_ok cf fuel ths : Conc.cfg_ok view Inv (init_cfg cf fuel ths).
Proof.
  exists aux0. split; [apply Inv_init|].
  intros t p Hp. cbn [init_cfg Conc.threads] in Hp. rewrite nth_error_mapi_from in Hp.
  destruct (nth_error ths t) as [os|]; cbn in Hp; [|discriminate]. injection Hp as <-.
  apply safe_thread.
Qed.

(** ** the theorems *)
Theorem optq_reach_inv cf fuel ths c :
  Conc.reach (init_cfg cf fuel ths) c -> exists a, Inv (Conc.shared c) a (Conc.trace c).
Proof. intros Hr. exact (Conc.reach_Inv (init_ok cf fuel ths) Hr). Qed.

Theorem optq_lp_trace cf fuel ths c :
  Conc.reach (init_cfg cf fuel ths) c ->
  exists atr : list (aev Fifo), lp_valid Fifo atr /\ erase atr = hist (Conc.trace c).
Proof.
  intros Hr. destruct (optq_reach_inv _ _ _ _ Hr) as (a & HI).
  destruct (spec_valid _ _ _ _ (I_spec _ _ _ HI)) as (atr & f & A & _ & C).
  exists atr. split; [|exact C]. eexists. exact A.
Qed.

Theorem optqueue_linearizable cf fuel ths c :
  Conc.reach (init_cfg cf fuel ths) c -> linearizable Fifo (hist (Conc.trace c)).
Proof.
  intros Hr. destruct (optq_lp_trace _ _ _ _ Hr) as (atr & Hv & <-).
  apply lp_valid_linearizable. exact Hv.
Qed.

(** structure at every instant: the linked nodes form one duplicate-free list in enqueue order ending at tail,
    the next pointers run backwards through it, prev pointers never dangle, and the values after head are
    exactly the abstract queue of the linearization (no loss, no duplication) *)
Theorem optq_chain cf fuel ths c :
  Conc.reach (init_cfg cf fuel ths) c ->
  let g := Conc.shared c in
  exists (dn rs : list nat) (atr : list (aev Fifo)) (f : stmap),
    NoDup (dn ++ head g :: rs) /\ linked (nxt g) (rev (dn ++ head g :: rs)) /\
    (exists l', dn ++ head g :: rs = l' ++ [tail g]) /\
    (forall n x, prv g n = Some x -> In x (dn ++ head g :: rs)) /\
    @lp_run Fifo (@lp_init Fifo) atr = Some (map (val g) rs, f) /\ erase atr = hist (Conc.trace c).
Proof.
  intros Hr g. destruct (optq_reach_inv _ _ _ _ Hr) as (a & HI).
  destruct (spec_valid _ _ _ _ (I_spec _ _ _ HI)) as (atr & f & A & _ & C).
  exists (done a), (rest a), atr, f. repeat split; auto.
  - apply (I_nodup _ _ _ HI).
  - apply (I_linked _ _ _ HI).
  - apply (I_last _ _ _ HI).
  - apply (I_prv _ _ _ HI).
Qed.
