(** * DhpFlBInv: the block / record part of the C03 invariant of LV.Proofs.DhpInvB WITHOUT its pointer part.

    [JB] of LV.Proofs.DhpInvB = JO (thread records and their owners) /\ JK (retired blocks) /\ JR (retired arrays) /\
    JW (pointers: every retired, not yet disposed pointer is in one place), and [InvB] is stated under "the client
    retires every object at most once" because JW is false otherwise.  The ownership of retired BLOCKS (JO, JK, JR)
    does not depend on the pointers stored in them.  This file shadows [JW] by a trivial record and [retired_tr] by
    the empty list, so that [JB] / [InvB] keep their shape (and the copies LV.Proofs.DhpFlB... of the proof files
    DhpQuietB ... DhpMainC keep their text, minus the JW parts) while meaning
        flbad (hist tr) = false -> JO /\ JK /\ JR        for EVERY client program.
    Used by LV.Proofs.DhpFlKnot to read "a retired block given back to the allocator is not currently free". *)
From Coq Require Import ZArith NArith List String Bool Lia PeanoNat.
From LV Require Import Base.Conc Base.Events Model.DhpLang Model.Dhp Proofs.DhpBase Proofs.DhpSeq Proofs.DhpSeqThm Proofs.DhpHist Proofs.DhpInvB.
Import ListNotations.

Definition retired_tr (tr : list (nat * ev)) : list nat := [].
Lemma retired_tr_app tr tr' : retired_tr (tr ++ tr') = retired_tr tr ++ retired_tr tr'.
Proof. reflexivity. Qed.
Lemma NoDup_retired tr : NoDup (retired_tr tr). Proof. constructor. Qed.

Record JW (g : G) (a : AuxB) (ds rt : list nat) : Prop := { jw_1 : True; jw_2 : True; jw_3 : True; jw_4 : True; jw_5 : True }.
Lemma JW_triv g a ds rt : JW g a ds rt. Proof. constructor; exact I. Qed.

Section InvB.
  Variable c : cfg.

  Record JB (g : G) (a : AuxB) (tr : list (nat * ev)) : Prop := {
    jb_o : JO g a;
    jb_k : JK c g a (freeh (hist tr) FRt);
    jb_r : JR c g a;
    jb_w : JW g a (disposed_tr tr) (retired_tr tr) }.

  Definition InvB (g : G) (a : AuxB) (tr : list (nat * ev)) : Prop :=
    flbad (hist tr) = false -> NoDup (retired_tr tr) -> JB g a tr.
End InvB.

Lemma JB_piB c g g' a tr : piB g g' -> JB c g a tr -> JB c g' a tr.
Proof.
  intros P [JO1 JK1 JR1 JW1]. pose proof P as (A0&A1&A2&A3&A4). constructor.
  - apply JO_frame with (g := g) (a := a); auto. intros r. destruct (A3 r) as (X1&X2&_). auto.
  - apply JK_frame with (g := g) (a := a); auto. intros b. destruct (A4 b) as (X1&X2). rewrite X2. auto.
  - apply JR_frame with (g := g) (a := a); auto.
    all: try lia.
    all: try solve [intros r; destruct (A3 r) as (X1&X2&X3&X4&X5&X6); auto].
    all: try solve [intros b r Hb _; destruct (A4 b) as (X1&X2); rewrite X2; auto].
    all: try solve [intros t; repeat split; reflexivity].
  - apply JW_triv.
Qed.
