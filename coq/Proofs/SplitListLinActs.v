(** * SplitListLinActs: the proof rule [Conc.safe] (invariant [InvS] of LV.Proofs.SplitListLinSim) for every atomic access
      of the split-list model: list accesses by transfer from the rules of the anchored Michael-list development,
      the accesses the split list adds as stutter steps, bucket-table load / store, client and ghost events. *)
From Coq Require Import ZArith List String Bool Lia PeanoNat.
From LV Require Import Base.Conc Base.Events Base.Lin Spec.Specs Proofs.LinProofs.
From LV Require Import Model.MichaelList Proofs.MichaelListBase Proofs.MichaelListInv Proofs.MichaelListSteps
                       Proofs.MichaelListLin Proofs.MichaelListActs Proofs.MichaelListProofs
                       Proofs.MichaelListFullInv Proofs.MichaelListFullActs Proofs.MichaelListFullProofs
                       Proofs.MichaelListFromActs.
From LV Require Model.SplitList.
From LV Require Import Proofs.SplitListLinProj Proofs.SplitListLinSim.
Import ListNotations.
Local Open Scope Z_scope.

Lemma setl_getl d L : setl d L (getl d L) = L.
Proof. destruct L, d; reflexivity. Qed.

Lemma spec_op_scode code k :
  spec_op (scode code) k 0 = if Z.eqb code 1 then SInsert k else if Z.eqb code 7 then SErase k else SContains k.
Proof. unfold scode. destruct (Z.eqb code 1); [reflexivity|]. destruct (Z.eqb code 7); reflexivity. Qed.

(** the heap of the projection after a write to the next cell / allocation of node [m <> 0] *)
Lemma hp_upd g g' m x0 : m <> 0%nat -> (forall x, SL.heap g' x = SL.upd_heap (SL.heap g) m x0 x) ->
  forall x, hp g' x = upd_heap (hp g) m (cvn x0) x.
Proof.
  intros Hm H x. unfold hp, upd_heap. rewrite !H. unfold SL.upd_heap.
  destruct (Nat.eqb_spec x m) as [->|Hx].
  - destruct (Nat.eqb_spec m 0); [contradiction|reflexivity].
  - destruct (Nat.eqb_spec x 0) as [->|]; [|reflexivity].
    destruct (Nat.eqb_spec 0 m); [congruence|reflexivity].
Qed.

Section Acts.
Variables (hs : list Z) (ak : Z -> bool).
Hypothesis ak_okey : forall h k, 0 <= k < 256 -> ak (SL.okey h k) = false.

Notation safeA := (@Conc.safe G V ev aux2 lview2 view2 (InvA ak)).
Notation safeS := (@Conc.safe SL.G SL.V ev AuxS LS viewS (InvS hs ak)).

(** ** simulation of the list accesses *)
Lemma sim_ld g n : n <> 0%nat ->
  (forall x, heap (proj (fst (fst (SL.a_ld (SL.LNext n) g)))) x = heap (fst (fst (a_ld n (proj g)))) x) /\
  nalloc (proj (fst (fst (SL.a_ld (SL.LNext n) g)))) = nalloc (fst (fst (a_ld n (proj g)))) /\
  cv (snd (fst (SL.a_ld (SL.LNext n) g))) = snd (fst (a_ld n (proj g))) /\
  SL.table (fst (fst (SL.a_ld (SL.LNext n) g))) = SL.table g /\ SL.log2 (fst (fst (SL.a_ld (SL.LNext n) g))) = SL.log2 g /\
  acc_only (snd (SL.a_ld (SL.LNext n) g)) /\ acc_only (snd (a_ld n (proj g))).
Proof.
  intros Hn. unfold SL.a_ld, a_ld, rd. cbn [SL.rd proj heap fst snd]. rewrite (hp_nz g n Hn). cbn [cvn nnext nmark fst snd].
  repeat split; try apply acc_only_1. unfold cv. cbn [SL.vptr SL.vmark SL.vkey]. rewrite hp_key. reflexivity.
Qed.

Lemma sim_cas g m ep np nm : m <> 0%nat ->
  (forall x, heap (proj (fst (fst (SL.a_cas (SL.LNext m) ep np nm g)))) x = heap (fst (fst (a_cas m ep np nm (proj g)))) x) /\
  nalloc (proj (fst (fst (SL.a_cas (SL.LNext m) ep np nm g)))) = nalloc (fst (fst (a_cas m ep np nm (proj g)))) /\
  cv (snd (fst (SL.a_cas (SL.LNext m) ep np nm g))) = snd (fst (a_cas m ep np nm (proj g))) /\
  SL.table (fst (fst (SL.a_cas (SL.LNext m) ep np nm g))) = SL.table g /\
  SL.log2 (fst (fst (SL.a_cas (SL.LNext m) ep np nm g))) = SL.log2 g /\
  acc_only (snd (SL.a_cas (SL.LNext m) ep np nm g)) /\ acc_only (snd (a_cas m ep np nm (proj g))) /\
  (snd (fst (SL.a_cas (SL.LNext m) ep np nm g)) = SL.vok true \/ snd (fst (SL.a_cas (SL.LNext m) ep np nm g)) = SL.vok false).
Proof.
  intros Hm. unfold SL.a_cas, a_cas, rd. cbn [SL.rd proj heap fst snd]. rewrite (hp_nz g m Hm). cbn [cvn nnext nmark fst snd].
  destruct (Nat.eqb (SL.nnext (SL.heap g m)) ep && negb (SL.nmark (SL.heap g m))); cbn [fst snd].
  - repeat split; try apply acc_only_1; auto.
    intros x. unfold wr. cbn [proj heap SL.set_heap SL.heap nkey].
    rewrite (hp_upd g _ m (SL.mkNode (SL.nkey (SL.heap g m)) np nm) Hm) by (intros; reflexivity).
    rewrite hp_key. reflexivity.
  - repeat split; try apply acc_only_1; auto.
Qed.

Lemma sim_alloc g kk p ob :
  let gS := SL.set_heap g (SL.upd_heap (SL.heap g) (S (SL.nalloc g)) (SL.mkNode kk p false)) (S (SL.nalloc g)) in
  let rS := (gS, SL.mkV (S (SL.nalloc g)) false kk 0, [EvAcc KSt ob true]) in
  (forall x, heap (proj (fst (fst rS))) x = heap (fst (fst (a_alloc_st kk p (proj g)))) x) /\
  nalloc (proj (fst (fst rS))) = nalloc (fst (fst (a_alloc_st kk p (proj g)))) /\
  cv (snd (fst rS)) = snd (fst (a_alloc_st kk p (proj g))) /\
  SL.table (fst (fst rS)) = SL.table g /\ SL.log2 (fst (fst rS)) = SL.log2 g /\
  acc_only (snd rS) /\ acc_only (snd (a_alloc_st kk p (proj g))).
Proof.
  cbv zeta. unfold a_alloc_st. cbn [fst snd proj heap nalloc SL.set_heap SL.heap SL.nalloc SL.table SL.log2].
  repeat split; try apply acc_only_1.
  intros x. rewrite (hp_upd g _ (S (SL.nalloc g)) (SL.mkNode kk p false)) by (intros; try reflexivity; lia). reflexivity.
Qed.

Lemma sim_st_next g n p : n <> 0%nat ->
  (forall x, heap (proj (fst (fst (SL.a_st_next n p g)))) x = heap (fst (fst (a_st_next n p (proj g)))) x) /\
  nalloc (proj (fst (fst (SL.a_st_next n p g)))) = nalloc (fst (fst (a_st_next n p (proj g)))) /\
  cv (snd (fst (SL.a_st_next n p g))) = snd (fst (a_st_next n p (proj g))) /\
  SL.table (fst (fst (SL.a_st_next n p g))) = SL.table g /\ SL.log2 (fst (fst (SL.a_st_next n p g))) = SL.log2 g /\
  acc_only (snd (SL.a_st_next n p g)) /\ acc_only (snd (a_st_next n p (proj g))).
Proof.
  intros Hn. unfold SL.a_st_next, a_st_next, LNext, wr. cbn [fst snd proj heap nalloc SL.set_heap SL.heap SL.nalloc SL.table SL.log2].
  repeat split; try apply acc_only_1.
  - intros x. rewrite (hp_upd g _ n (SL.mkNode (SL.nkey (SL.heap g n)) p false) Hn) by (intros; reflexivity).
    rewrite hp_key. reflexivity.
  - unfold cv. cbn [SL.vptr SL.vmark SL.vkey]. rewrite hp_key. reflexivity.
Qed.

Lemma fact_nz g a gtr v lv c n kk :
  InvA ak g a gtr -> view2 a v = (lv, c) -> In (FPub n kk) (lv_facts lv) -> n <> 0%nat.
Proof. intros HI Hv Hf. pose proof (fact_of_view _ _ _ _ _ _ _ _ HI Hv Hf) as K. cbn in K. tauto. Qed.

(** ** the rules for the list accesses, for the client ([d = false]) or the dummy-inserting ([d = true]) virtual thread *)
Lemma safeS_ld {R} t d n kl kp o (k : SL.V -> SL.prog R) L lv c Q :
  getl d L = (lv, c) ->
  In (FPub n kl) (lv_facts lv) -> known_ptr (lv_facts lv) kp -> open_read (lv_st lv) o ->
  (forall v, (ak kl = true -> SL.vmark v = false) ->
     safeS t (k v) (setl d L (mkLV (newfacts n (cv v) ++ lv_facts lv) (lv_own lv)
                                   (obs_st o (obs_rule (Some kl) kp (op_key o) (cv v)) (lv_st lv)), c)) Q) ->
  safeS t (Act (SL.a_ld (SL.LNext n)) k) L Q.
Proof.
  intros HL Hn Hkp Hop Hk.
  eapply safeS_act with (fM := a_ld n) (ES := fun _ => True)
    (P := fun v l' => (ak kl = true -> vmark v = false) /\
                      l' = (mkLV (newfacts n v ++ lv_facts lv) (lv_own lv) (obs_st o (obs_rule (Some kl) kp (op_key o) v) (lv_st lv)), c)).
  - rewrite HL. eapply safeA_ld with (ck := Some kl); [right; exists kl; auto|exact Hkp|exact Hop|].
    intros v Hv. cbn [Conc.safe]. split; [|reflexivity]. intros Hak. apply Hv. right. exists kl. auto.
  - intros g a gtr HI Hv. rewrite HL in Hv. pose proof (fact_nz _ _ _ _ _ _ _ _ HI Hv Hn) as Hnz.
    destruct (sim_ld g n Hnz) as (E1 & E2 & E3 & E4 & E5 & E6 & E7). repeat split; assumption.
  - intros v l' [H1 ->] _. apply Hk. exact H1.
Qed.

Lemma safeS_cas_help {R} t d m km c0 nx o (k : SL.V -> SL.prog R) L lv cd Q :
  getl d L = (lv, cd) ->
  In (FPub m km) (lv_facts lv) -> km < op_key o -> In (FFrozen c0 nx) (lv_facts lv) -> open_read (lv_st lv) o ->
  safeS t (k (SL.vok true)) (setl d L (mkLV (lv_facts lv) (lv_own lv) (if Nat.eqb nx 0 then lin_read o false (lv_st lv) else lv_st lv), cd)) Q ->
  safeS t (k (SL.vok false)) L Q ->
  safeS t (Act (SL.a_cas (SL.LNext m) c0 nx false) k) L Q.
Proof.
  intros HL Hm Hlt Hfz Hop Hk1 Hk0.
  eapply safeS_act with (fM := a_cas m c0 nx false) (ES := fun v => v = SL.vok true \/ v = SL.vok false)
    (P := fun v l' => (v = vok true /\ l' = (mkLV (lv_facts lv) (lv_own lv) (if Nat.eqb nx 0 then lin_read o false (lv_st lv) else lv_st lv), cd))
                      \/ (v = vok false /\ l' = (lv, cd))).
  - rewrite HL. eapply safeA_cas_help with (o := o); [right; exists km; exact Hm|right; exists km; auto|exact Hfz|exact Hop|..]; cbn [Conc.safe]; auto.
  - intros g a gtr HI Hv. rewrite HL in Hv. pose proof (fact_nz _ _ _ _ _ _ _ _ HI Hv Hm) as Hnz.
    destruct (sim_cas g m c0 nx false Hnz) as (E1 & E2 & E3 & E4 & E5 & E6 & E7 & E8). repeat split; assumption.
  - intros v l' [[Hv ->]|[Hv ->]] [->| ->]; try discriminate; [exact Hk1|].
    rewrite <- HL, setl_getl. exact Hk0.
Qed.

Lemma safeS_cas_unlink {R} t d m km c0 nx (k : SL.V -> SL.prog R) L lv cd Q :
  getl d L = (lv, cd) ->
  In (FPub m km) (lv_facts lv) -> In (FFrozen c0 nx) (lv_facts lv) ->
  safeS t (k (SL.vok true)) L Q -> safeS t (k (SL.vok false)) L Q ->
  safeS t (Act (SL.a_cas (SL.LNext m) c0 nx false) k) L Q.
Proof.
  intros HL Hm Hfz Hk1 Hk0.
  eapply safeS_act with (fM := a_cas m c0 nx false) (ES := fun v => v = SL.vok true \/ v = SL.vok false)
    (P := fun v l' => (v = vok true \/ v = vok false) /\ l' = (lv, cd)).
  - rewrite HL. apply safeA_cas_unlink; [right; exists km; exact Hm|exact Hfz|..]; cbn [Conc.safe]; auto.
  - intros g a gtr HI Hv. rewrite HL in Hv. pose proof (fact_nz _ _ _ _ _ _ _ _ HI Hv Hm) as Hnz.
    destruct (sim_cas g m c0 nx false Hnz) as (E1 & E2 & E3 & E4 & E5 & E6 & E7 & E8). repeat split; assumption.
  - intros v l' [_ ->] [->| ->]; rewrite <- HL, setl_getl; assumption.
Qed.

Lemma safeS_cas_mark {R} t d c0 kc nx (k : SL.V -> SL.prog R) L lv cd Q :
  getl d L = (lv, cd) ->
  In (FPub c0 kc) (lv_facts lv) -> ak kc = false -> open_read (lv_st lv) (SErase kc) ->
  safeS t (k (SL.vok true)) (setl d L (mkLV (FFrozen c0 nx :: lv_facts lv) (lv_own lv) (@Linearized SetSpec (SErase kc) (RBool true)), cd)) Q ->
  safeS t (k (SL.vok false)) L Q ->
  safeS t (Act (SL.a_cas (SL.LNext c0) nx nx true) k) L Q.
Proof.
  intros HL Hc Hak Hst Hk1 Hk0.
  eapply safeS_act with (fM := a_cas c0 nx nx true) (ES := fun v => v = SL.vok true \/ v = SL.vok false)
    (P := fun v l' => (v = vok true /\ l' = (mkLV (FFrozen c0 nx :: lv_facts lv) (lv_own lv) (@Linearized SetSpec (SErase kc) (RBool true)), cd))
                      \/ (v = vok false /\ l' = (lv, cd))).
  - rewrite HL. eapply safeA_cas_mark; [exact Hc|exact Hak|exact Hst|..]; cbn [Conc.safe]; auto.
  - intros g a gtr HI Hv. rewrite HL in Hv. pose proof (fact_nz _ _ _ _ _ _ _ _ HI Hv Hc) as Hnz.
    destruct (sim_cas g c0 nx nx true Hnz) as (E1 & E2 & E3 & E4 & E5 & E6 & E7 & E8). repeat split; assumption.
  - intros v l' [[Hv ->]|[Hv ->]] [->| ->]; try discriminate; [exact Hk1|].
    rewrite <- HL, setl_getl. exact Hk0.
Qed.

Lemma safeS_cas_link {R} t d m km pc n kk o (k : SL.V -> SL.prog R) L lv cd Q :
  getl d L = (lv, cd) ->
  In (FPub m km) (lv_facts lv) -> km < kk ->
  (pc = 0%nat \/ exists kc, In (FPub pc kc) (lv_facts lv) /\ kk < kc) ->
  lv_own lv = Some (n, kk, pc) -> open_read (lv_st lv) o -> ins_op o kk ->
  safeS t (k (SL.vok true)) (setl d L (mkLV (FPub n kk :: lv_facts lv) None (@Linearized SetSpec o (ins_res o)), cd)) Q ->
  safeS t (k (SL.vok false)) L Q ->
  safeS t (Act (SL.a_cas (SL.LNext m) pc n false) k) L Q.
Proof.
  intros HL Hm Hlt Hkc Hown Hst Hop Hk1 Hk0.
  eapply safeS_act with (fM := a_cas m pc n false) (ES := fun v => v = SL.vok true \/ v = SL.vok false)
    (P := fun v l' => (v = vok true /\ l' = (mkLV (FPub n kk :: lv_facts lv) None (@Linearized SetSpec o (ins_res o)), cd))
                      \/ (v = vok false /\ l' = (lv, cd))).
  - rewrite HL. eapply safeA_cas_link with (kk := kk) (o := o);
      [right; exists km; exact Hm|right; exists km; auto|exact Hkc|exact Hown|exact Hst|exact Hop|..]; cbn [Conc.safe]; auto.
  - intros g a gtr HI Hv. rewrite HL in Hv. pose proof (fact_nz _ _ _ _ _ _ _ _ HI Hv Hm) as Hnz.
    destruct (sim_cas g m pc n false Hnz) as (E1 & E2 & E3 & E4 & E5 & E6 & E7 & E8). repeat split; assumption.
  - intros v l' [[Hv ->]|[Hv ->]] [->| ->]; try discriminate; [exact Hk1|].
    rewrite <- HL, setl_getl. exact Hk0.
Qed.

Lemma safeS_alloc_st {R} t d kk p (k : SL.V -> SL.prog R) L lv cd Q :
  getl d L = (lv, cd) ->
  (forall n, n <> 0%nat -> safeS t (k (SL.mkV n false kk 0)) (setl d L (mkLV (lv_facts lv) (Some (n, kk, p)) (lv_st lv), cd)) Q) ->
  safeS t (Act (SL.a_alloc_st kk p) k) L Q.
Proof.
  intros HL Hk.
  eapply safeS_act with (fM := a_alloc_st kk p) (ES := fun v => exists n, n <> 0%nat /\ v = SL.mkV n false kk 0)
    (P := fun v l' => exists n, v = mkV n false kk /\ l' = (mkLV (lv_facts lv) (Some (n, kk, p)) (lv_st lv), cd)).
  - rewrite HL. apply safeA_alloc_st. intros n. cbn [Conc.safe]. eauto.
  - intros g a gtr HI Hv. unfold SL.a_alloc_st.
    destruct (sim_alloc g kk p (SL.obj_next (S (SL.nalloc g)))) as (E1 & E2 & E3 & E4 & E5 & E6 & E7).
    repeat split; try assumption. eexists; split; [|reflexivity]. lia.
  - intros v l' (n & Hv & ->) (n' & Hn' & ->). unfold cv in Hv. cbn in Hv. inversion Hv; subst n'. apply Hk. exact Hn'.
Qed.

(** new( .. ) aux_node_type(): the allocation of the dummy node, m_pNext = nullptr *)
Lemma safeS_new_aux {R} t d kk (k : SL.V -> SL.prog R) L lv cd Q :
  getl d L = (lv, cd) ->
  (forall n, n <> 0%nat -> safeS t (k (SL.mkV n false kk 0)) (setl d L (mkLV (lv_facts lv) (Some (n, kk, 0%nat)) (lv_st lv), cd)) Q) ->
  safeS t (Act (SL.a_new_aux kk) k) L Q.
Proof.
  intros HL Hk.
  eapply safeS_act with (fM := a_alloc_st kk 0) (ES := fun v => exists n, n <> 0%nat /\ v = SL.mkV n false kk 0)
    (P := fun v l' => exists n, v = mkV n false kk /\ l' = (mkLV (lv_facts lv) (Some (n, kk, 0%nat)) (lv_st lv), cd)).
  - rewrite HL. apply safeA_alloc_st. intros n. cbn [Conc.safe]. eauto.
  - intros g a gtr HI Hv. unfold SL.a_new_aux.
    destruct (sim_alloc g kk 0 (SL.obj_flnext (S (SL.nalloc g)))) as (E1 & E2 & E3 & E4 & E5 & E6 & E7).
    repeat split; try assumption. eexists; split; [|reflexivity]. lia.
  - intros v l' (n & Hv & ->) (n' & Hn' & ->). unfold cv in Hv. cbn in Hv. inversion Hv; subst n'. apply Hk. exact Hn'.
Qed.

Lemma safeS_st_next {R} t d n kk nx p (k : SL.V -> SL.prog R) L lv cd Q :
  getl d L = (lv, cd) -> lv_own lv = Some (n, kk, nx) ->
  (forall v, SL.vptr v = n -> safeS t (k v) (setl d L (mkLV (lv_facts lv) (Some (n, kk, p)) (lv_st lv), cd)) Q) ->
  safeS t (Act (SL.a_st_next n p) k) L Q.
Proof.
  intros HL Hown Hk.
  eapply safeS_act with (fM := a_st_next n p) (ES := fun _ => True)
    (P := fun v l' => vptr v = n /\ l' = (mkLV (lv_facts lv) (Some (n, kk, p)) (lv_st lv), cd)).
  - rewrite HL. eapply safeA_st_next; [exact Hown|]. intros v Hv. cbn [Conc.safe]. auto.
  - intros g a gtr HI Hv. rewrite HL in Hv. pose proof (own_of_view _ _ _ _ _ _ _ _ _ _ HI Hv Hown) as Hnz.
    destruct (sim_st_next g n p Hnz) as (E1 & E2 & E3 & E4 & E5 & E6 & E7). repeat split; assumption.
  - intros v l' [Hv ->] _. apply Hk. exact Hv.
Qed.

(** ** the local head cell of a call site: always the bucket's dummy node, unmarked *)
Lemma safeS_ld_cell {R} t d t' s aux kh (k : SL.V -> SL.prog R) L lv c Q :
  getl d L = (lv, c) -> In (FPub aux kh) (lv_facts lv) ->
  safeS t (k (SL.mkV aux false kh 0)) L Q ->
  safeS t (Act (SL.a_ld (SL.LCell t' s aux)) k) L Q.
Proof.
  intros HL Hf Hk. apply safeS_stutter with (E := fun v => v = SL.mkV aux false kh 0).
  - intros g a gtr HI Hv Hlog. specialize (Hv d). rewrite HL in Hv.
    pose proof (fact_of_view _ _ _ _ _ _ _ _ HI Hv Hf) as (Hnz & _ & Hkey). cbn [proj heap] in Hkey. rewrite hp_key in Hkey.
    unfold SL.a_ld. cbn [SL.rd fst snd]. repeat split; auto; [apply acc_only_1|]. rewrite Hkey. reflexivity.
  - intros v ->. exact Hk.
Qed.

(** ** accesses that carry no list state *)
Lemma safeS_plain {R} t (fS : SL.act) (k : SL.V -> SL.prog R) L Q :
  (forall g, (forall x, SL.heap (fst (fst (fS g))) x = SL.heap g x) /\ SL.nalloc (fst (fst (fS g))) = SL.nalloc g /\
             SL.table (fst (fst (fS g))) = SL.table g /\ SL.log2 (fst (fst (fS g))) = SL.log2 g /\ acc_only (snd (fS g))) ->
  (forall v, safeS t (k v) L Q) -> safeS t (Act fS k) L Q.
Proof.
  intros Hf Hk. apply safeS_stutter with (E := fun _ => True).
  - intros g a gtr _ _ Hlog. destruct (Hf g) as (E1 & E2 & E3 & E4 & E5). rewrite E4. repeat split; auto.
  - intros v _. apply Hk.
Qed.

Lemma safeS_ld_log2 {R} t (k : SL.V -> SL.prog R) L Q :
  (forall l, (l <= 62)%nat -> safeS t (k (SL.vn (Z.of_nat l))) L Q) -> safeS t (Act SL.a_ld_log2 k) L Q.
Proof.
  intros Hk. apply safeS_stutter with (E := fun v => exists l, (l <= 62)%nat /\ v = SL.vn (Z.of_nat l)).
  - intros g a gtr _ _ Hlog. cbn. repeat split; auto; [apply acc_only_1|]. eauto.
  - intros v (l & Hl & ->). apply Hk. exact Hl.
Qed.

Lemma safeS_cas_log2 {R} t e (k : SL.V -> SL.prog R) L Q :
  (S e <= 62)%nat -> (forall v, safeS t (k v) L Q) -> safeS t (Act (SL.a_cas_log2 e) k) L Q.
Proof.
  intros He Hk. apply safeS_stutter with (E := fun _ => True).
  - intros g a gtr _ _ Hlog. unfold SL.a_cas_log2. destruct (Nat.eqb (SL.log2 g) e); cbn; repeat split; auto; apply acc_only_1.
  - intros v _. apply Hk.
Qed.

(** ** the bucket table *)
Lemma safeS_ld_tab {R} t b (k : SL.V -> SL.prog R) L Q :
  (forall p, (p = 0%nat -> b <> 0%nat) -> safeS t (k (SL.mkV p false 0 0))
               (if Nat.eqb p 0 then L else mkLS (addf (FPub p (SL.dkey b)) (lc L)) (addf (FPub p (SL.dkey b)) (ld L))) Q) ->
  safeS t (Act (SL.a_ld_tab b) k) L Q.
Proof.
  intros Hk. cbn [Conc.safe]. intros g A tr [(a & gtr & HI & Hv & HT & HH) Hlog] HvS. unfold viewS in HvS.
  unfold SL.a_ld_tab. cbn [fst snd].
  assert (Hk' : SL.table g b = 0%nat -> b <> 0%nat) by (intros E ->; exact (proj2 Hlog E)).
  specialize (Hk (SL.table g b) Hk').
  assert (HH' : HistOK hs ak (tr ++ Conc.tag t [EvAcc KLd (SL.obj_tab b) true]) gtr).
  { destruct HH as (H1 & H2 & H3). split; [|split; [exact H2|apply tr_ok_acc; [apply acc_only_1|exact H3]]].
    rewrite split_hist_acc by apply acc_only_1. exact H1. }
  destruct (Nat.eqb_spec (SL.table g b) 0) as [Ez|Enz].
  - exists A. split; [split; [|exact Hlog]|split; [intros u _; reflexivity|unfold viewS; rewrite HvS; exact Hk]].
    exists a, gtr. split; [exact HI|]. split; [exact Hv|]. split; [exact HT|exact HH'].
  - destruct (HT b Enz) as [Hf _].
    destruct (view2 a (vb b)) as [lvb cb] eqn:Evb. cbn [fst] in Hf.
    pose proof (fact_of_view _ _ _ _ _ _ _ _ HI Evb Hf) as Hfok.
    destruct (InvA_addfacts ak (proj g) (FPub (SL.table g b) (SL.dkey b)) [vt t false; vt t true] a gtr HI Hfok) as (a2 & gtr2 & HI2 & K1 & K2 & K3).
    { constructor; [intros [X|[]]; apply vt_inj in X; destruct X; discriminate|]. constructor; [intros []|constructor]. }
    set (f := FPub (SL.table g b) (SL.dkey b)) in *.
    exists (updS A t (mkLS (addf f (lc L)) (addf f (ld L)))). split; [split; [|exact Hlog]|split; [apply frameS_upd|rewrite viewS_upd_same; exact Hk]].
    exists a2, gtr2. split; [exact HI2|]. split; [|split].
    + intros t' d'. unfold updS. destruct (Nat.eqb_spec t' t) as [->|Ht].
      * rewrite K1 by (destruct d'; cbn; auto). rewrite Hv, HvS. destruct d'; reflexivity.
      * rewrite K2; [apply Hv|]. intros [X|[X|[]]]; apply vt_inj in X; destruct X; congruence.
    + intros b' Hb'. rewrite K2; [apply HT; exact Hb'|]. intros [X|[X|[]]]; exact (vt_vb _ _ _ X).
    + destruct HH' as (H1 & H2 & H3). split; [rewrite K3; exact H1|split; [rewrite K3; exact H2|exact H3]].
Qed.

Lemma safeS_st_tab {R} t b n (k : SL.V -> SL.prog R) L lv cd Q :
  ld L = (lv, cd) -> In (FPub n (SL.dkey b)) (lv_facts lv) -> Z.of_nat b < 2 ^ 63 ->
  safeS t (k SL.v0) (mkLS (addf (FPub n (SL.dkey b)) (lc L)) (ld L)) Q ->
  safeS t (Act (SL.a_st_tab b n) k) L Q.
Proof.
  intros HL Hf Hb63 Hk. cbn [Conc.safe]. intros g A tr [(a & gtr & HI & Hv & HT & HH) Hlog] HvS. unfold viewS in HvS.
  unfold SL.a_st_tab. cbn [fst snd].
  set (g' := SL.mkG (SL.heap g) (SL.nalloc g) (fun x => if Nat.eqb x b then n else SL.table g x) (SL.log2 g) (SL.maxcnt g) (SL.count g) (SL.auxcnt g) (SL.flhead g)).
  assert (Hvd : view2 a (vt t true) = (lv, cd)) by (rewrite Hv, HvS; exact HL).
  pose proof (fact_of_view _ _ _ _ _ _ _ _ HI Hvd Hf) as Hfok.
  set (f := FPub n (SL.dkey b)) in *.
  destruct (InvA_addfacts ak (proj g) f [vt t false; vb b] a gtr HI Hfok) as (a2 & gtr2 & HI2 & K1 & K2 & K3).
  { constructor; [intros [X|[]]; exact (vt_vb _ _ _ (eq_sym X))|]. constructor; [intros []|constructor]. }
  exists (updS A t (mkLS (addf f (lc L)) (ld L))). split; [split|split; [apply frameS_upd|rewrite viewS_upd_same; exact Hk]].
  2:{ split; [exact (proj1 Hlog)|]. unfold g'. cbn [SL.table]. destruct (Nat.eqb_spec 0 b) as [E|E]; [|exact (proj2 Hlog)].
      unfold f in Hfok. cbn [fact_ok] in Hfok. tauto. }
  exists a2, gtr2. split; [exact HI2|]. split; [|split].
  - intros t' d'. unfold updS. destruct (Nat.eqb_spec t' t) as [->|Ht].
    + destruct d'; cbn [getl ld lc].
      * rewrite K2; [rewrite Hv, HvS; reflexivity|]. intros [X|[X|[]]]; [apply vt_inj in X; destruct X; discriminate|exact (vt_vb _ _ _ (eq_sym X))].
      * rewrite K1 by (left; reflexivity). rewrite Hv, HvS. reflexivity.
    + rewrite K2; [apply Hv|]. intros [X|[X|[]]]; [apply vt_inj in X; destruct X; congruence|exact (vt_vb _ _ _ (eq_sym X))].
  - intros b' Hb'. unfold g' in Hb' |- *. cbn [SL.table] in Hb' |- *. destruct (Nat.eq_dec b' b) as [E|Hne].
    + subst b'. rewrite Nat.eqb_refl. rewrite K1 by (right; left; reflexivity). cbn [addf fst lv_facts]. split; [left; reflexivity|exact Hb63].
    + rewrite (proj2 (Nat.eqb_neq b' b) Hne) in Hb' |- *. rewrite K2; [apply HT; exact Hb'|]. intros [X|[X|[]]]; [exact (vt_vb _ _ _ X)|apply vb_inj in X; congruence].
  - destruct HH as (H1 & H2 & H3). split; [rewrite split_hist_acc by apply acc_only_1; rewrite K3; exact H1|].
    split; [rewrite K3; exact H2|apply tr_ok_acc; [apply acc_only_1|exact H3]].
Qed.

(** ** client events and the ghost events of the dummy-inserting virtual thread *)
Lemma safeS_emit_inv {R} t code kk (k : SL.prog R) L lv cd Q :
  lc L = (lv, cd) -> lv_st lv = @Idle SetSpec -> 0 <= kk < 256 ->
  safeS t k (setl false L (mkLV (lv_facts lv) (lv_own lv) (@Pending SetSpec (spec_op (scode code) (SL.okey (SL.hash hs kk) kk) 0)), scode code)) Q ->
  safeS t (Emit [SL.ev_inv code kk] k) L Q.
Proof.
  intros HL Hi Hkk Hk.
  eapply safeS_emit with (d := false) (esM := [EvCli "inv" [scode code; SL.okey (SL.hash hs kk) kk; 0; 0]]); [| |exact Hk].
  - cbn [getl]. rewrite HL. apply safeA_emit_inv; [exact Hi|]. cbn [Conc.safe]. reflexivity.
  - intros g a gtr tr0 HI Hv (H1 & H2 & H3). cbn [Conc.tag map]. unfold HistOK. rewrite full_hist_inv. destruct (vt_mod t) as [M1 M2]. split; [|split].
    + unfold split_hist in *. rewrite fold_left_app, H1. cbn [fold_left sstep_h SL.ev_inv String.eqb Ascii.eqb Bool.eqb].
      rewrite cproj_app. cbn [cproj]. rewrite M1, M2. reflexivity.
    + apply Forall_app. split; [exact H2|]. constructor; [|constructor]. cbn [class_ok]. split; [|intros X; contradiction].
      intros _. rewrite spec_op_scode. exists (SL.okey (SL.hash hs kk) kk). split; [|apply ak_okey; exact Hkk].
      destruct (Z.eqb code 1); [auto|]. destruct (Z.eqb code 7); auto.
    + intros u c0 k0 Hin. apply in_app_or in Hin. destruct Hin as [Hin|[Hin|[]]]; [eapply H3; exact Hin|].
      unfold SL.ev_inv in Hin. inversion Hin; subst. exact Hkk.
Qed.

Lemma safeS_emit_ret {R} t b o (k : SL.prog R) L lv cd Q :
  lc L = (lv, cd) -> lv_st lv = @Linearized SetSpec o (RBool b) -> res_of o (SL.zb b) 0 = RBool b -> Z.eqb cd 6 = false ->
  safeS t k (setl false L (mkLV (lv_facts lv) (lv_own lv) (@Idle SetSpec), cd)) Q ->
  safeS t (Emit [SL.ev_ret b] k) L Q.
Proof.
  intros HL Hs Hr Hc Hk.
  eapply safeS_emit with (d := false) (esM := [EvCli "ret" [SL.zb b; 0]]); [| |exact Hk].
  - cbn [getl]. rewrite HL. eapply safeA_emit_ret; [exact Hs|exact Hr|rewrite Hc; reflexivity|]. cbn [Conc.safe]. reflexivity.
  - intros g a gtr tr0 [HI _] Hv (H1 & H2 & H3). cbn [getl] in Hv. rewrite HL in Hv. destruct (view2_split _ _ _ _ Hv) as [Hv1 Hv2].
    cbn [Conc.tag map]. unfold HistOK. rewrite (full_hist_ret _ _ _ _ o (RBool b) _ _ HI); [|rewrite Hv1; exact Hs|rewrite Hv2, Hc; reflexivity].
    rewrite Hr. destruct (vt_mod t) as [M1 M2]. split; [|split].
    + unfold split_hist in *. rewrite fold_left_app, H1. cbn [fold_left sstep_h SL.ev_ret String.eqb Ascii.eqb Bool.eqb].
      rewrite cproj_app. cbn [cproj]. rewrite M1, M2. destruct b; reflexivity.
    + apply Forall_app. split; [exact H2|]. constructor; [exact I|constructor].
    + apply tr_ok_other; [reflexivity|exact H3].
Qed.

Lemma safeS_ghost_inv {R} t dk fS (k : SL.V -> SL.prog R) L lv cd Q :
  ld L = (lv, cd) -> lv_st lv = @Idle SetSpec -> ak dk = true ->
  safeS t (Act fS k) (setl true L (mkLV (lv_facts lv) (lv_own lv) (@Pending SetSpec (SInsert dk)), 1)) Q ->
  safeS t (Act fS k) L Q.
Proof.
  intros HL Hi Hak Hk.
  eapply safeS_ghost with (d := true) (esM := [EvCli "inv" [1; dk; 0; 0]]); [| |exact Hk].
  - cbn [getl]. rewrite HL. apply (safeA_emit_inv ak (vt t true) 1 dk 0 0); [exact Hi|]. cbn [Conc.safe]. reflexivity.
  - intros g a gtr tr0 HI Hv (H1 & H2 & H3). cbn [Conc.tag map]. unfold HistOK. rewrite full_hist_inv. pose proof (vd_mod t) as M. split; [|split; [|exact H3]].
    + rewrite cproj_app. cbn [cproj]. destruct (Nat.eqb_spec (vt t true mod 3) 0); [contradiction|]. rewrite app_nil_r. exact H1.
    + apply Forall_app. split; [exact H2|]. constructor; [|constructor]. cbn [class_ok]. split; [intros X; contradiction|].
      intros _. exists dk. split; [reflexivity|exact Hak].
Qed.

Lemma safeS_ghost_ret {R} t dk b fS (k : SL.V -> SL.prog R) L lv cd Q :
  ld L = (lv, cd) -> lv_st lv = @Linearized SetSpec (SInsert dk) (RBool b) -> Z.eqb cd 6 = false ->
  safeS t (Act fS k) (setl true L (mkLV (lv_facts lv) (lv_own lv) (@Idle SetSpec), cd)) Q ->
  safeS t (Act fS k) L Q.
Proof.
  intros HL Hs Hc Hk.
  assert (Hr : res_of (SInsert dk) (SL.zb b) 0 = RBool b) by (destruct b; reflexivity).
  eapply safeS_ghost with (d := true) (esM := [EvCli "ret" [SL.zb b; 0]]); [| |exact Hk].
  - cbn [getl]. rewrite HL. eapply safeA_emit_ret; [exact Hs|exact Hr|rewrite Hc; reflexivity|]. cbn [Conc.safe]. reflexivity.
  - intros g a gtr tr0 [HI _] Hv (H1 & H2 & H3). cbn [getl] in Hv. rewrite HL in Hv. destruct (view2_split _ _ _ _ Hv) as [Hv1 Hv2].
    cbn [Conc.tag map]. unfold HistOK. rewrite (full_hist_ret _ _ _ _ (SInsert dk) (RBool b) _ _ HI); [|rewrite Hv1; exact Hs|rewrite Hv2, Hc; reflexivity].
    pose proof (vd_mod t) as M. split; [|split; [|exact H3]].
    + rewrite cproj_app. cbn [cproj]. destruct (Nat.eqb_spec (vt t true mod 3) 0); [contradiction|]. rewrite app_nil_r. exact H1.
    + apply Forall_app. split; [exact H2|]. constructor; [exact I|constructor].
Qed.

End Acts.
