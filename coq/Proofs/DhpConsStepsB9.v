(** DhpConsStepsB9: copy of LV.Proofs.DhpStepsB9 over the two-directional pointer invariant of LV.Proofs.DhpConsInv (conservation);
    the text differs from the original where the JW part of a goal is proved. *)
(** * DhpStepsB9: free_thread_data cuts the blocks behind the current block off a retired array that stays. *)
From Coq Require Import ZArith NArith List String Bool Lia PeanoNat.
From LV Require Import Base.Conc Base.Events Model.DhpLang Model.Dhp Proofs.DhpBase Proofs.DhpSeq Proofs.DhpSeqThm Proofs.DhpHist
  Proofs.DhpLangProofs Proofs.DhpAllocA Proofs.DhpInvB Proofs.DhpConsInv Proofs.DhpConsQuietB Proofs.DhpConsQuietB2 Proofs.DhpConsRulesB Proofs.DhpConsStepsB1 Proofs.DhpConsStepsB3
  Proofs.DhpConsStepsB4 Proofs.DhpConsStepsB6.
Import ListNotations.

Fixpoint idx (b : nat) (l : list nat) : nat :=
  match l with [] => 0 | x :: l' => if Nat.eqb x b then 0 else S (idx b l') end.

Lemma idx_nth b : forall l j, NoDup l -> nth_error l j = Some b -> idx b l = j.
Proof.
  induction l as [|x l IH]; intros j Hn Hj; [destruct j; discriminate|]. inversion Hn; subst. cbn. destruct j as [|j]; cbn in Hj.
  - inversion Hj; subst. now rewrite Nat.eqb_refl.
  - destruct (Nat.eqb_spec x b) as [->|N]; [exfalso; apply H1; eapply nth_error_In; eauto|]. f_equal. now apply IH.
Qed.

Lemma nth_error_firstn_lt {A} (l : list A) : forall n j, j < n -> nth_error (firstn n l) j = nth_error l j.
Proof. induction l as [|x l IH]; intros n j H; destruct n, j; cbn; auto; try lia. apply IH. lia. Qed.
Lemma NoDup_app_l (l1 l2 : list nat) : NoDup (l1 ++ l2) -> NoDup l1.
Proof. induction l1 as [|x l1 IH]; intros H; [constructor|]. cbn in H. inversion H; subst. constructor; auto. intros K. apply H2. apply in_or_app. now left. Qed.
Lemma NoDup_app_disj (l1 l2 : list nat) : NoDup (l1 ++ l2) -> forall x, In x l1 -> ~ In x l2.
Proof.
  induction l1 as [|y l1 IH]; intros H x Hx; [contradiction|]. cbn in H. inversion H; subst. destruct Hx as [->|Hx]; [|now apply IH].
  intros K. apply H2. apply in_or_app. now right.
Qed.

Section StepsB9.
  Variable c : cfg.
  Notation RB := (c_RB c).
  Hypothesis HRB : 1 <= RB.
  Hypothesis Htail : c_oldtail c = false.

  Ltac vwt t := let t' := fresh "t'" in intros t'; cbn; unfold fn; destruct (Nat.eqb_spec t' t) as [->|]; cbn; auto.

  Lemma flat_length_cells g l : (forall b, In b l -> List.length (rb_cells (grb g b)) = RB) -> List.length (flat g l) = List.length l * RB.
  Proof.
    induction l as [|x l IH]; intros H; [reflexivity|]. unfold flat in *. cbn. rewrite app_length, IH by (intros; apply H; now right).
    rewrite H by now left. lia.
  Qed.

  Lemma is_chain_cut g : forall ch o j cb, is_chain c g o ch -> NoDup ch -> nth_error ch j = Some cb ->
    is_chain c (upd_rb g cb (bs_next None)) o (firstn (S j) ch) /\
    is_chain c (upd_rb g cb (bs_next None)) (rb_next (grb g cb)) (skipn (S j) ch).
  Proof.
    induction ch as [|x ch IH]; intros o j cb H Hn Hj; [destruct j; discriminate|].
    cbn in H. destruct H as (H0 & H1 & H2 & H3). inversion Hn; subst.
    assert (Elen : List.length (rbs (upd_rb g cb (bs_next None))) = List.length (rbs g)) by (unfold upd_rb; cbn; apply upd_nth_length).
    destruct j as [|j]; cbn in Hj.
    - inversion Hj; subst x. cbn [firstn skipn]. split.
      + cbn. rewrite Elen. rewrite grb_upd_rb_same by exact H1. destruct (grb g cb); cbn in *. auto.
      + apply is_chain_frame with (g := g); [lia| |exact H3]. intros b Hb. rewrite grb_upd_rb_other; auto. intros ->. contradiction.
    - assert (N : cb <> x) by (intros ->; apply H5; eapply nth_error_In; eauto).
      destruct (IH (rb_next (grb g x)) j cb H3 H6 Hj) as (A & B). split; [|exact B].
      change (firstn (S (S j)) (x :: ch)) with (x :: firstn (S j) ch). cbn. rewrite Elen. rewrite grb_upd_rb_other by exact N. auto.
  Qed.

  Definition trunc_k (a : AuxB) (r : nat) (g : G) : nat :=
    match r_cb (grec g r) with Some cb => S (idx cb (rch a r)) | None => 0 end.

  Definition aux_trunc (a : AuxB) (t r : nat) (g : G) (fb : option nat) : AuxB :=
    mkAuxB (fn (bvs a) t (set_limbo (bvs a t) (Some (fb, skipn (trunc_k a r g) (rch a r)))))
           (fun b => if memb b (skipn (trunc_k a r g) (rch a r)) then RPriv t else rbown a b) (wh a)
           (fn (rch a) r (firstn (trunc_k a r g) (rch a r))) (rw a) (moved a) (dead a) (tl a).

  Definition trunc_f (r : nat) : G -> G * option nat := fun g =>
    match r_cb (grec g r) with
    | Some cb => let nb := rb_next (grb g cb) in
                 (match nb with
                  | Some _ => let g1 := upd_rb g cb (bs_next None) in
                              if c_oldtail c then g1
                              else upd_rec g1 r (fun x => rs_ret (r_cb x) (r_cc x) (r_head x) (Some cb) (r_bcount x) x)
                  | None => g end, nb)
    | None => (g, None)
    end.

  (** the cases where nothing is cut: the ghost state changes only by an empty private chain *)
  Lemma trunc_nop g a tr t r :
    vb_limbo (bvs a t) = None -> skipn (trunc_k a r g) (rch a r) = [] -> firstn (trunc_k a r g) (rch a r) = rch a r ->
    JB c g a tr -> JB c g (aux_trunc a t r g None) tr.
  Proof.
    intros Hl Es Ef [O1 K0 R1 W1]. pose proof K0 as [K1 K2 K3 K4 K5]. unfold aux_trunc. rewrite Es, Ef. constructor.
    - eapply JO_frame with (g := g) (a := a); eauto. vwt t.
    - constructor; cbn [bvs rbown]; auto.
      + intros t' b fl. unfold fn. destruct (Nat.eqb_spec t' t) as [->|Nt]; cbn; [|apply K4].
        intros E. destruct (K4 t b fl E) as (Y1 & Y2 & Y3). split; auto. split; auto. intros o lb E' H. inversion E'; subst. contradiction.
      + intros t' o lb. unfold fn. destruct (Nat.eqb_spec t' t) as [->|Nt]; cbn; [|apply K5].
        intros E. inversion E; subst. cbn. split; auto. split; [constructor|intros b []].
    - eapply JR_frame with (g := g) (a := a); eauto.
      all: try solve [intros r'; cbn; unfold fn; destruct (Nat.eqb_spec r' r) as [->|]; auto].
      all: try solve [vwt t].
    - eapply JW_frame with (g := g) (a := a); eauto.
      all: try solve [intros r' _; apply ec_ext; cbn; auto; unfold fn; destruct (Nat.eqb_spec r' r) as [->|]; auto].
      all: try solve [vwt t].
      all: try solve [intros r'; cbn; split; auto; split; auto; unfold fn; destruct (Nat.eqb_spec r' r) as [->|]; auto].
      all: try solve [intros r'; cbn; unfold fn; destruct (Nat.eqb_spec r' r) as [->|]; auto].
  Qed.

  Lemma S_truncate g a tr t r :
    In r (vb_own (bvs a t)) -> vb_limbo (bvs a t) = None -> vb_blk (bvs a t) = None -> vb_dead (bvs a t) <> Some r ->
    vb_cur (bvs a t) = None -> vb_full (bvs a t) = None -> (forall ob, vb_move (bvs a t) <> Some (r, ob)) ->
    JB c g a tr -> JB c (fst (trunc_f r g)) (aux_trunc a t r g (snd (trunc_f r g))) tr.
  Proof.
    intros Hr Hl Hb Hd Hc Hf Hm J.
    assert (Hcase : rch a r = [] \/ rch a r <> []) by (destruct (rch a r); [left|right]; congruence).
    destruct Hcase as [Ech|Hne].
    { destruct (JB_rec1 c g a tr t r J Hr Hd Ech) as (_ & Hcb & _ & _). unfold trunc_f. rewrite Hcb. cbn [fst snd].
      apply trunc_nop; auto; rewrite Ech; [apply skipn_nil|apply firstn_nil]. }
    destruct (JB_rec2 c g a tr t r J Hr Hne) as (Hlt & Hal & I & Hrb & Hmw & _).
    pose proof I as [Ir Ich Ind Ine Itl Iw (j & i & Icb & Ij & Icc & Ewji & Hnorm)].
    destruct (nth_error (rch a r) j) as [cb|] eqn:Ej; [|apply nth_error_None in Ej; lia].
    destruct (is_chain_nth c g _ _ j cb Ich Ej) as (Enx & Hcblt & Hcbc).
    assert (Ek : trunc_k a r g = S j) by (unfold trunc_k; rewrite Icb; f_equal; apply idx_nth; auto).
    unfold trunc_f. rewrite Icb. cbn zeta. destruct (rb_next (grb g cb)) as [nb|] eqn:Enb; cbn [fst snd].
    2:{ symmetry in Enx. apply nth_error_None in Enx. apply trunc_nop; auto; rewrite Ek; [apply skipn_all2; lia|apply firstn_all2; lia]. }
    rewrite Htail.
    assert (HSj : S j < List.length (rch a r)) by (apply nth_error_Some; rewrite <- Enx; discriminate).
    assert (Hi : i < RB) by (destruct Hnorm as [X|(_ & X)]; [exact X|lia]).
    remember (firstn (S j) (rch a r)) as pre eqn:Epre. remember (skipn (S j) (rch a r)) as suf eqn:Esuf.
    assert (Eps : rch a r = pre ++ suf) by (subst pre suf; symmetry; apply firstn_skipn).
    assert (Elp : List.length pre = S j) by (rewrite Epre, firstn_length_le; lia).
    assert (Enp : nth_error pre j = Some cb) by (rewrite Epre, nth_error_firstn_lt by lia; exact Ej).
    assert (Hnp : NoDup pre) by (rewrite Eps in Ind; eapply NoDup_app_l; eauto).
    assert (Hns : NoDup suf) by (rewrite Eps in Ind; eapply NoDup_app_r; eauto).
    assert (Hdisj : forall b, In b pre -> ~ In b suf) by (rewrite Eps in Ind; apply NoDup_app_disj; auto).
    assert (Hpin : forall b, In b pre -> In b (rch a r)) by (intros b H; rewrite Eps; apply in_or_app; now left).
    assert (Hsin : forall b, In b suf -> In b (rch a r)) by (intros b H; rewrite Eps; apply in_or_app; now right).
    assert (Hcbp : In cb pre) by (apply nth_error_In with (n := j); exact Enp).
    destruct (is_chain_cut g _ _ j cb Ich Ind Ej) as (C1 & C2). rewrite <- Epre in C1. rewrite <- Esuf in C2. rewrite Enb in C2.
    set (g1 := upd_rb g cb (bs_next None)) in *.
    set (g' := upd_rec g1 r (fun x => rs_ret (r_cb x) (r_cc x) (r_head x) (Some cb) (r_bcount x) x)).
    assert (El : List.length (recs g') = List.length (recs g)) by (unfold g', upd_rec; cbn; apply upd_nth_length).
    assert (Elb : List.length (rbs g') = List.length (rbs g)) by (unfold g', g1, upd_rec, upd_rb; cbn; apply upd_nth_length).
    assert (Eo : forall r', r' <> r -> grec g' r' = grec g r') by (intros r' N; unfold g'; rewrite grec_upd_rec_other; auto).
    assert (Es : grec g' r = (fun x => rs_ret (r_cb x) (r_cc x) (r_head x) (Some cb) (r_bcount x) x) (grec g r)).
    { unfold g'. rewrite grec_upd_rec_same; [reflexivity|exact Ir]. }
    assert (Ebo : forall b, b <> cb -> grb g' b = grb g b) by (intros b N; unfold g'; rewrite grb_upd_rec; unfold g1; rewrite grb_upd_rb_other; auto).
    assert (Ecl : forall b, rb_cells (grb g' b) = rb_cells (grb g b)).
    { intros b. unfold g'. rewrite grb_upd_rec. unfold g1. destruct (Nat.eq_dec b cb) as [->|N]; [|rewrite grb_upd_rb_other; auto].
      rewrite grb_upd_rb_same by exact Hcblt. destruct (grb g cb); reflexivity. }
    assert (Ech' : forall o l, is_chain c g1 o l -> is_chain c g' o l) by (intros o l H; apply is_chain_frame with (g := g1); auto).
    assert (Hexcl : forall t' r0 ob, vb_move (bvs a t') = Some (r0, ob) -> r0 <> r).
    { intros t' r0 ob H ->. destruct J as [O1 _ [_ _ R3 _ _ _] _]. destruct (R3 t' r ob H) as (Z & _). assert (t = t') by (eapply JO_excl; eauto). subst t'. eapply Hm; eauto. }
    assert (I' : Rinv c g' r pre (rw a r)).
    { assert (Efl : r_head (grec g' r) = r_head (grec g r) /\ r_tail (grec g' r) = Some cb /\ r_cb (grec g' r) = r_cb (grec g r) /\
                    r_cc (grec g' r) = r_cc (grec g r)) by (rewrite Es; destruct (grec g r); cbn; auto).
      destruct Efl as (F1 & F2 & F3 & F4).
      constructor.
      - rewrite El. exact Ir.
      - rewrite F1. apply Ech'. exact C1.
      - exact Hnp.
      - intros E. rewrite E in Elp. discriminate.
      - rewrite F2, Elp. replace (S j - 1) with j by lia. now rewrite Enp.
      - rewrite Elp. nia.
      - exists j, i. rewrite F3, F4, Elp, Enp. repeat split; auto. }
    assert (Hcont : content g' pre (rw a r) = content g (rch a r) (rw a r)).
    { unfold content. rewrite (flat_cells_ext g g' pre) by (intros; apply Ecl).
      replace (flat g (rch a r)) with (flat g pre ++ flat g suf) by (rewrite <- flat_app, <- Eps; reflexivity).
      assert (Elen : List.length (flat g pre) = List.length pre * RB).
      { apply flat_length_cells. intros b Hb'. eapply is_chain_cells; eauto. }
      rewrite Elp in Elen.
      rewrite firstn_app. replace (rw a r - List.length (flat g pre)) with 0 by nia. cbn [firstn]. now rewrite app_nil_r. }
    destruct J as [O1 K0 R0 W1]. pose proof K0 as [K1 K2 K3 K4 K5]. pose proof R0 as [R1 R2 R3 R4 R5 R6].
    assert (Hsuf : forall b, In b suf -> rbown a b = RRec r /\ b <> cb).
    { intros b Hb'. split; [apply Hrb; auto|]. intros ->. eapply Hdisj; eauto. }
    assert (Hnot : forall b, (rbown a b <> RRec r) -> memb b suf = false).
    { intros b H. apply memb_nIn. intros K. apply H. now apply Hsuf. }
    unfold aux_trunc. rewrite Ek, <- Epre, <- Esuf. constructor.
    - apply JO_frame with (g := g) (a := a); auto.
      + intros r'. destruct (Nat.eq_dec r' r) as [->|N]; [rewrite Es; destruct (grec g r); cbn; auto|rewrite Eo by exact N; auto].
      + vwt t.
    - constructor; cbn [bvs rbown].
      + intros b L. rewrite Elb in L. rewrite Hnot; auto. rewrite (K1 b L). discriminate.
      + intros b L. rewrite Elb in L. rewrite Ecl. auto.
      + split; [|apply K3]. intros b. destruct (memb b suf) eqn:M; [|apply K3].
        apply memb_In in M. destruct (Hsuf b M) as (X & _). split; [intros H; apply K3 in H; congruence|discriminate].
      + intros t' b fl. unfold fn. destruct (Nat.eqb_spec t' t) as [->|Nt]; cbn; [rewrite Hb; discriminate|].
        intros E. destruct (K4 t' b fl E) as (Y1 & Y2 & Y3). rewrite Hnot by congruence. rewrite Ebo; auto.
        intros ->. rewrite (Hrb cb (Hpin cb Hcbp)) in Y1. discriminate.
      + intros t' o lb. unfold fn. destruct (Nat.eqb_spec t' t) as [->|Nt]; cbn.
        * intros E. inversion E; subst o lb. split; [apply Ech'; exact C2|]. split; auto. intros b Hb'. apply memb_In in Hb'. now rewrite Hb'.
        * intros E. destruct (K5 t' o lb E) as (Y1 & Y2 & Y3). split; [|split; auto].
          -- apply is_chain_frame with (g := g); [lia| |exact Y1]. intros b Hb'. rewrite Ebo; auto.
             intros ->. specialize (Y3 cb Hb'). rewrite (Hrb cb (Hpin cb Hcbp)) in Y3. discriminate.
          -- intros b Hb'. rewrite Hnot; auto. rewrite (Y3 b Hb'). discriminate.
    - constructor; cbn [bvs rbown rch rw moved dead].
      + intros r' Hr'. rewrite El in Hr'. destruct (Nat.eq_dec r' r) as [->|N].
        * right. rewrite fn_same. split; auto. split; auto. split; [|split; [auto|left; rewrite Elp; nia]].
          intros b Hb'. rewrite (proj2 (memb_nIn b suf)); auto.
        * rewrite (fn_other (rch a) _ _ _ N). rewrite Eo by exact N.
          destruct (R1 r' Hr') as [K|(Q0 & Q2 & Q3 & Q4 & Q5)]; [left; exact K|right].
          split; auto. split; [|split; [|split; auto]].
          -- apply Rinv_frame with (g := g); auto; try lia; [rewrite Eo by exact N; auto|].
             intros b Hb'. rewrite Ebo; auto. intros ->. specialize (Q3 cb Hb'). rewrite (Hrb cb (Hpin cb Hcbp)) in Q3. congruence.
          -- intros b Hb'. rewrite Hnot; auto. rewrite (Q3 b Hb'). congruence.
          -- destruct Q5 as [Q5|(t' & Q5)]; [left; exact Q5|right; exists t']. revert Q5. unfold fn. destruct (Nat.eqb_spec t' t) as [->|]; cbn; auto.
      + intros r' Hm'. destruct (R2 r' Hm') as (t' & ob & K). exists t', ob. unfold fn. destruct (Nat.eqb_spec t' t) as [->|]; cbn; auto.
      + intros t' r' ob Hm'. assert (Hm'' : vb_move (bvs a t') = Some (r', ob)) by (revert Hm'; unfold fn; destruct (Nat.eqb_spec t' t) as [->|]; auto).
        destruct (R3 t' r' ob Hm'') as (Y1 & Y2). assert (N : r' <> r) by (eapply Hexcl; eauto). rewrite (fn_other (rch a) _ _ _ N). split.
        * unfold fn. destruct (Nat.eqb_spec t' t) as [->|]; auto.
        * intros b' Eb' Hc'. apply Y2; auto. revert Hc'. unfold fn. destruct (Nat.eqb_spec t' t) as [->|]; auto.
      + intros t' b' i' n Hc'. assert (Hc'' : vb_cur (bvs a t') = Some (b', i', n)) by (revert Hc'; unfold fn; destruct (Nat.eqb_spec t' t) as [->|]; auto).
        destruct (R4 t' b' i' n Hc'') as (r0 & ob & j' & Y0 & Y). assert (N : r0 <> r) by (eapply Hexcl; eauto).
        exists r0, ob, j'. split; [unfold fn; destruct (Nat.eqb_spec t' t) as [->|]; auto|].
        rewrite (fn_other (rch a) _ _ _ N). rewrite Eo by exact N. exact Y.
      + split.
        * intros t' r' Hdd. assert (Hd' : vb_dead (bvs a t') = Some r') by (revert Hdd; unfold fn; destruct (Nat.eqb_spec t' t) as [->|]; auto).
          destruct (proj1 R5 t' r' Hd') as (Y1 & Y2). split; auto. unfold fn. destruct (Nat.eqb_spec t' t) as [->|]; auto.
        * intros r' Hdd. destruct (proj2 R5 r' Hdd) as (t' & K). exists t'. unfold fn. destruct (Nat.eqb_spec t' t) as [->|]; auto.
      + intros t' r' Hf'. assert (Hf'' : vb_full (bvs a t') = Some r') by (revert Hf'; unfold fn; destruct (Nat.eqb_spec t' t) as [->|]; auto).
        destruct (R6 t' r' Hf'') as (Y1 & Y2). split; [unfold fn; destruct (Nat.eqb_spec t' t) as [->|]; auto|].
        destruct (Nat.eq_dec r' r) as [->|N]; [rewrite fn_same; intros E0; rewrite E0 in Elp; discriminate|rewrite fn_other by exact N; exact Y2].
    - apply JW_frame with (g := g) (a := a) (rt := retired_tr tr) (tr := tr); [exact El| |reflexivity|vwt t|auto|auto| | |apply incl_refl|reflexivity|auto|exact W1].
      + intros r' Hr'. destruct (Nat.eq_dec r' r) as [->|N].
        * unfold ec; cbn [moved rch rw]; rewrite fn_same; now rewrite Hcont.
        * apply ec_ext; cbn [rch rw moved]; auto; rewrite fn_other by exact N; reflexivity.
      + intros r'. cbn [moved rw rch]. split; auto. split; auto. unfold fn. destruct (Nat.eqb_spec r' r) as [->|]; auto. intros E; contradiction.
      + intros r'. cbn [rch]. unfold fn. destruct (Nat.eqb_spec r' r) as [->|]; auto. intros E0. rewrite E0 in Elp. discriminate.
  Qed.
End StepsB9.
