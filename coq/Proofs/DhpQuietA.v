(** * DhpQuietA: the parts of the model the C02 invariant cannot see — the two free lists, the retired
      arrays, the client's source words — are [quietP] programs. *)
From Coq Require Import ZArith NArith List String Bool Lia PeanoNat.
From LV Require Import Base.Conc Base.Events Model.DhpLang Model.Dhp Proofs.DhpBase Proofs.DhpHist
  Proofs.DhpLangProofs Proofs.DhpInvA Proofs.DhpStepsA.
Import ListNotations.

Lemma qev_alloc_rt b : qev (ev_alloc FRt b). Proof. unfold qev. now rewrite classify_alloc. Qed.
Lemma qev_free_rt b : qev (ev_free FRt b). Proof. unfold qev. now rewrite classify_free. Qed.
Lemma qev_new f b : qev (ev_new f b). Proof. unfold qev. now rewrite classify_new. Qed.
Lemma qev_cli_op args : qev (EvCli "op" args). Proof. exact I. Qed.
Lemma qev_cli_ret args : qev (EvCli "ret" args). Proof. exact I. Qed.
Lemma qev_cli_skip args : qev (EvCli "skip" args). Proof. exact I. Qed.
Lemma qev_cli_fuel args : qev (EvCli "outoffuel" args). Proof. exact I. Qed.
Lemma qev_cli_err args : qev (EvCli "modelerror" args). Proof. exact I. Qed.
Lemma qev_own s : qev (ev_own s). Proof. exact I. Qed.
Lemma qev_rel s : qev (ev_rel s). Proof. exact I. Qed.
Lemma qev_relall : qev ev_relall. Proof. exact I. Qed.

#[export] Hint Resolve qev_alloc_rt qev_free_rt qev_new qev_cli_op qev_cli_ret qev_cli_skip qev_cli_fuel qev_cli_err
  qev_own qev_rel qev_relall qev_acc : qdb.
#[export] Hint Resolve q_begin q_ld_tlist q_ld_tid q_ld_free q_st_free q_faa_sync q_ld_ext q_ld_slot q_ld_src q_st_src
  q_ld_head q_cas_head q_ld_refs q_st_refs q_cas_refs q_faa_refs q_fas_refs q_ld_flnext q_st_flnext : qdb.
#[export] Hint Resolve quietG_refl quietG_upd_rb quietG_set_oob : qdb.

Ltac qp_known := fail.
Ltac qp :=
  repeat first
    [ qp_known
    | apply quietP_ret | apply quietP_fuel_out
    | apply quietP_xbind; [|intros]
    | apply quietP_act; solve [auto with qdb]
    | apply quietP_emit; solve [repeat constructor; auto with qdb]
    | apply quietP_loc; let g := fresh "g" in intros g; cbn [fst snd]; solve [auto with qdb]
    | match goal with
      | |- quietP (if ?b then _ else _) => destruct b
      | |- quietP (match ?o with Some _ => _ | None => _ end) => destruct o
      end ].

(** ** free lists *)
Lemma q_add_knowing sp : forall f n head, quietP (add_knowing sp f n head).
Proof. induction sp as [|sp IH]; intros f n head; cbn [add_knowing]; qp. apply IH. Qed.

Lemma q_fl_add sp f n : quietP (fl_add sp f n).
Proof. unfold fl_add. qp. apply q_add_knowing. Qed.

Lemma q_fl_put sp f n : quietP (fl_put sp f n).
Proof. unfold fl_put. qp. apply q_fl_add. Qed.

Lemma q_fl_get_loop sp : forall f head, quietP (fl_get_loop sp f head).
Proof.
  induction sp as [|sp IH]; intros f head; destruct head as [h|]; cbn [fl_get_loop]; qp; try apply IH; try apply q_fl_add.
Qed.

Lemma q_fl_get sp f : quietP (fl_get sp f).
Proof. unfold fl_get. qp. apply q_fl_get_loop. Qed.

Ltac qp_known ::=
  match goal with
  | |- quietP (fl_put _ _ _) => apply q_fl_put
  | |- quietP (fl_get _ _) => apply q_fl_get
  | |- quietP (fl_add _ _ _) => apply q_fl_add
  end.

(** ** retired allocator and retired array *)
Lemma quietG_new_rblock c g : quietG g (fst (new_rblock c g)).
Proof. unfold new_rblock. cbn. split; [unfold piA; repeat split; reflexivity|intros []; reflexivity]. Qed.
Lemma quietG_upd_rec_ret g r cb cc hd tl bc : quietG g (upd_rec g r (rs_ret cb cc hd tl bc)).
Proof. apply quietG_upd_rec. intros []; auto. Qed.
Lemma quietG_upd_rec_cur g r cb cc : quietG g (upd_rec g r (rs_cur cb cc)).
Proof. apply quietG_upd_rec. intros []; auto. Qed.
Lemma quietG_upd_rec_fun_ret g r (F : rec -> option nat * nat * option nat * option nat * nat) :
  quietG g (upd_rec g r (fun x => let '(cb, cc, hd, tl, bc) := F x in rs_ret cb cc hd tl bc x)).
Proof. apply quietG_upd_rec. intros x. destruct (F x) as [[[[cb cc] hd] tl] bc]. destruct x; auto. Qed.

Lemma quietG_rt_do_extend c r b g : quietG g (fst (rt_do_extend c r b g)).
Proof.
  unfold rt_do_extend. set (g1 := match r_tail (grec g r) with Some tl => upd_rb g tl (bs_next (Some b)) | None => g end).
  assert (H1 : quietG g g1) by (unfold g1; destruct (r_tail (grec g r)); auto with qdb).
  fold g1. destruct (c_old c || _); cbn [fst]; (eapply quietG_trans; [exact H1|apply quietG_upd_rec_ret]).
Qed.

Lemma quietG_rt_push c r p g : quietG g (fst (rt_push c r p g)).
Proof.
  unfold rt_push. destruct (r_cb (grec g r)) as [b|]; [|cbn [fst]; apply quietG_set_oob].
  set (g1 := if Nat.ltb (r_cc (grec g r)) (c_RB c) then upd_rb g b (fun y => bs_cells (upd_nth (rb_cells y) (r_cc (grec g r)) (fun _ => p)) y) else set_oob g true).
  assert (H1 : quietG g g1) by (unfold g1; destruct (Nat.ltb _ _); auto with qdb).
  fold g1. destruct (Nat.eqb (S (r_cc (grec g r))) (c_RB c)); [destruct (rb_next (grb g1 b))|]; cbn [fst]; (eapply quietG_trans; [exact H1|apply quietG_upd_rec_cur]).
Qed.

Lemma quietG_retire_data c r pl b : forall n i g racc cnt, quietG g (fst (fst (retire_data c r pl b i n g racc cnt))).
Proof.
  induction n as [|n IH]; intros i g racc cnt; cbn [retire_data]; [apply quietG_refl|].
  destruct (memb _ pl); [|apply IH]. eapply quietG_trans; [apply quietG_rt_push|apply IH].
Qed.

Lemma quietG_stage2_blocks c r pl lastb lastc : forall fuel block g racc f rc,
  quietG g (fst (fst (fst (stage2_blocks c fuel r pl block lastb lastc g racc f rc)))).
Proof.
  induction fuel as [|fuel IH]; intros block g racc f rc; destruct block as [b|]; cbn [stage2_blocks]; try apply quietG_refl.
  pose proof (quietG_retire_data c r pl b (if oeqb (Some b) lastb then lastc else c_RB c) 0 g racc 0) as K.
  destruct (retire_data c r pl b 0 _ g racc 0) as [[g1 racc1] c1]. cbn [fst] in K.
  destruct (oeqb (Some b) lastb); cbn [fst]; [exact K|]. eapply quietG_trans; [exact K|apply IH].
Qed.

Lemma quietG_stage2 c r pl g : quietG g (fst (stage2 c r pl g)).
Proof.
  unfold stage2.
  pose proof (quietG_stage2_blocks c r pl (r_cb (grec g r)) (r_cc (grec g r)) (S (List.length (rbs g))) (r_head (grec g r))
                (upd_rec g r (rs_cur (r_head (grec g r)) 0)) [] 0 0) as K.
  destruct (stage2_blocks _ _ _ _ _ _ _ _ _ _ _) as [[[g1 racc] f] rc]. cbn [fst] in *.
  eapply quietG_trans; [apply quietG_upd_rec_cur|exact K].
Qed.

#[export] Hint Resolve quietG_new_rblock quietG_upd_rec_ret quietG_upd_rec_cur quietG_rt_do_extend quietG_rt_push quietG_stage2 : qdb.

Lemma q_rt_alloc c : quietP (rt_alloc c).
Proof. unfold rt_alloc. qp. Qed.

Lemma q_rt_free c b : quietP (rt_free c b).
Proof. unfold rt_free. qp. Qed.

Ltac qp_known ::=
  match goal with
  | |- quietP (fl_put _ _ _) => apply q_fl_put
  | |- quietP (fl_get _ _) => apply q_fl_get
  | |- quietP (fl_add _ _ _) => apply q_fl_add
  | |- quietP (rt_alloc _) => apply q_rt_alloc
  | |- quietP (rt_free _ _) => apply q_rt_free
  end.

Lemma q_rt_init c r : quietP (rt_init c r).
Proof. unfold rt_init. qp. Qed.

Lemma q_free_rblocks c fuel : forall p, quietP (free_rblocks c fuel p).
Proof. induction fuel as [|f IH]; intros [b|]; cbn [free_rblocks]; qp; apply IH. Qed.

Lemma q_rt_fini c r : quietP (rt_fini c r).
Proof. unfold rt_fini. qp. apply q_free_rblocks. Qed.

Lemma q_rt_extend c r : quietP (rt_extend c r).
Proof. unfold rt_extend. qp. Qed.

Ltac qp_known ::=
  match goal with
  | |- quietP (fl_put _ _ _) => apply q_fl_put
  | |- quietP (fl_get _ _) => apply q_fl_get
  | |- quietP (fl_add _ _ _) => apply q_fl_add
  | |- quietP (rt_alloc _) => apply q_rt_alloc
  | |- quietP (rt_free _ _) => apply q_rt_free
  | |- quietP (rt_init _ _) => apply q_rt_init
  | |- quietP (rt_fini _ _) => apply q_rt_fini
  | |- quietP (rt_extend _ _) => apply q_rt_extend
  | |- quietP (free_rblocks _ _ _) => apply q_free_rblocks
  end.
