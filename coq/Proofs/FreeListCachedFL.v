(** * CachedFreeList<FreeList, 4> (model LV.Model.FreeListCached over LV.Model.FreeList).
    Same construction as LV.Proofs.FreeListCachedTagged: cache slot i = idle place-holder thread NR+i of the
    backing list's invariant, whose held list is the slot's content. *)
From Coq Require Import ZArith List String Bool Lia PeanoNat.
From LV Require Import Base.Conc Base.Events Model.FreeList Model.FreeListCached
  Proofs.FreeListBase Proofs.FreeListInv Proofs.FreeListSteps Proofs.FreeListSafe.
Import ListNotations.
Local Open Scope Z_scope.
Local Open Scope string_scope.

Notation CGf := (CG G).

Section Transfer.
  Variable N : nat.
  Variable valid0 : nat -> bool.
  Notation InvS := (InvS N valid0).

  Lemma cnt_same a a' : (forall t m, has_ref (ph a' t) m = has_ref (ph a t) m) -> forall m, cnt N a' m = cnt N a m.
  Proof. intros H m. unfold cnt. apply count_ext. intros t _. apply H. Qed.

  (** a node moves between a thread (phase [p] -> [p']) and the idle place holder t2 (held list [H2] -> [H2']) *)
  Lemma transfer g a t t2 n p' H2' s' :
    InvS g a -> (t2 < N)%nat -> t <> t2 -> ph a t2 = Idle ->
    (forall m, has_ref p' m = false) -> (forall m, has_ref (ph a t) m = false) ->
    (* put: PPut n -> Busy, [] -> [n], Held t -> Held t2;  take: Busy -> PRet n, [n] -> [], Held t2 -> Held t *)
    ((ph a t = PPut n /\ p' = Busy /\ hl a t2 = [] /\ H2' = [n] /\ s' = Held t2) \/
     (ph a t = Busy /\ p' = PRet n /\ hl a t2 = [n] /\ H2' = [] /\ s' = Held t)) ->
    InvS g (mkA (upd (st a) n s') (lst a) (upd (ph a) t p') (upd (hl a) t2 H2') (own a)).
  Proof.
    intros Hi Ht2 Hne Hp2 Hr' Hr Hcase.
    assert (Hcnt : forall m, cnt N (mkA (upd (st a) n s') (lst a) (upd (ph a) t p') (upd (hl a) t2 H2') (own a)) m = cnt N a m).
    { apply cnt_same. intros tq m. cbn. unfold upd. destruct (Nat.eqb_spec tq t) as [->|_]; [rewrite Hr', Hr|]; reflexivity. }
    assert (Hst : exists towner, st a n = Held towner /\ (towner = t \/ towner = t2) /\ ~ In n (hl a t) /\
                  (s' = Held t \/ s' = Held t2)).
    { destruct Hcase as [(E1 & _ & E3 & _ & E5)|(E1 & _ & E3 & _ & E5)].
      - pose proof (S_ph Hi t) as Hx. rewrite E1 in Hx. cbn in Hx. destruct Hx as [Hx1 Hx2]. exists t. tauto.
      - assert (E : st a n = Held t2) by (apply (S_held Hi); rewrite E3; left; reflexivity).
        exists t2. repeat split; auto. intros Hin. apply (S_held Hi) in Hin. congruence. }
    destruct Hst as (tw & Hstn & Htw & Hnin & Hs').
    assert (Hfl : flag_of s' = flag_of (st a n) /\ base_of s' = base_of (st a n)).
    { rewrite Hstn. destruct Hs' as [-> | ->]; split; reflexivity. }
    constructor; cbn [st lst ph hl].
    - intros m. unfold upd. destruct (Nat.eqb_spec m n) as [->|Hm]; [|apply (S_valid Hi)].
      split; [destruct Hs' as [-> | ->]; discriminate|]. intros Hv. apply (S_valid Hi) in Hv. congruence.
    - intros m. rewrite Hcnt. unfold upd. destruct (Nat.eqb_spec m n) as [->|Hm]; [|apply (S_refs Hi)].
      destruct Hfl as [-> ->]. apply (S_refs Hi).
    - intros m. unfold FreeListInv.st_ok. rewrite Hcnt. cbn [st ph hl].
      pose proof (S_st Hi m) as Ho. unfold FreeListInv.st_ok in Ho.
      unfold upd at 1. destruct (Nat.eqb_spec m n) as [->|Hm].
      + destruct Hcase as [(E1 & -> & E3 & -> & ->)|(E1 & -> & E3 & -> & ->)].
        * left. rewrite upd_same. left; reflexivity.
        * right; right. apply upd_same.
      + destruct (st a m) as [|tm|tm| | |tm|tm] eqn:Es; auto.
        * (* Held tm *)
          destruct (Nat.eq_dec tm t2) as [->|H2].
          -- exfalso. rewrite Hp2 in Ho. destruct Ho as [Ho|[Ho|Ho]]; try discriminate.
             destruct Hcase as [(_ & _ & E3 & _)|(_ & _ & E3 & _)]; rewrite E3 in Ho; [contradiction|].
             destruct Ho as [Ho|[]]. congruence.
          -- rewrite (upd_other (hl a) t2 H2' tm H2). destruct (Nat.eq_dec tm t) as [->|H1].
             ++ destruct Ho as [Ho|[Ho|Ho]]; [left; exact Ho| |];
                  destruct Hcase as [(E1 & _)|(E1 & _)]; rewrite E1 in Ho; congruence.
             ++ rewrite (upd_other (ph a) t p' tm H1). exact Ho.
        * destruct (Nat.eq_dec tm t) as [->|H1]; [|rewrite (upd_other (ph a) t p' tm H1); exact Ho].
          destruct Hcase as [(E1 & _)|(E1 & _)]; rewrite E1 in Ho; discriminate.
        * destruct Ho as [Hc Ho]. split; [exact Hc|].
          destruct (Nat.eq_dec tm t) as [->|H1]; [|rewrite (upd_other (ph a) t p' tm H1); exact Ho].
          destruct Hcase as [(E1 & _)|(E1 & _)]; rewrite E1 in Ho; destruct Ho as [Ho|[h Ho]]; discriminate.
        * destruct (Nat.eq_dec tm t) as [->|H1]; [|rewrite (upd_other (ph a) t p' tm H1); exact Ho].
          destruct Hcase as [(E1 & _)|(E1 & _)]; rewrite E1 in Ho; destruct Ho as [[h Ho]|Ho]; discriminate.
    - apply (S_chain Hi).
    - apply (S_lnd Hi).
    - intros m. unfold upd. destruct (Nat.eqb_spec m n) as [->|Hm]; [|apply (S_lin Hi)].
      split; [|destruct Hs' as [-> | ->]; discriminate]. intros Hin. apply (S_lin Hi) in Hin. congruence.
    - intros tq. pose proof (S_ph Hi tq) as Ho.
      destruct (Nat.eq_dec tq t) as [->|Hq].
      + rewrite (upd_same (ph a) t p'), (upd_other (hl a) t2 H2' t Hne).
        destruct Hcase as [(_ & -> & _)|(_ & -> & _ & _ & ->)]; cbn; [exact I|]. rewrite upd_same. split; [reflexivity|exact Hnin].
      + rewrite (upd_other (ph a) t p' tq Hq).
        assert (Hcl : forall m X, st a m = X -> st_owner X = Some tq -> tq <> t2 -> upd (st a) n s' m = X).
        { intros m X E1 E2 H2. unfold upd. destruct (Nat.eqb_spec m n) as [->|Hm]; [|exact E1].
          rewrite Hstn in E1. subst X. cbn in E2. injection E2 as <-. destruct Htw; congruence. }
        destruct (Nat.eq_dec tq t2) as [->|H2]; [rewrite Hp2; exact I|].
        rewrite (upd_other (hl a) t2 H2' tq H2).
        destruct (ph a tq) as [| |m|m|m|m x|m|m|m|m h|m h|m] eqn:Ep; cbn in *; try exact Ho.
        * destruct Ho as [Ho1 Ho2]. split; [eapply Hcl; eauto|exact Ho2].
        * destruct Ho as [Ho1 Ho2]. split; [eapply Hcl; eauto|exact Ho2].
        * eapply Hcl; eauto.
        * eapply Hcl; eauto.
        * destruct Ho as [Ho1 Ho2]. split; [eapply Hcl; eauto|exact Ho2].
        * destruct Ho as [Ho1 Ho2]. split; [eapply Hcl; eauto|exact Ho2].
        * eapply Hcl; eauto.
    - intros tq m Hin. unfold upd in Hin. unfold upd. destruct (Nat.eqb_spec tq t2) as [->|H2].
      + destruct Hcase as [(_ & _ & _ & -> & ->)|(_ & _ & _ & -> & _)]; [|contradiction].
        destruct Hin as [<-|[]]. now rewrite Nat.eqb_refl.
      + pose proof (S_held Hi tq m Hin) as E. destruct (Nat.eqb_spec m n) as [->|Hm]; [|exact E].
        rewrite Hstn in E. injection E as <-. destruct Htw as [-> | ->]; [contradiction|congruence].
    - intros tq. unfold upd. destruct (Nat.eqb_spec tq t2); [|apply (S_hnd Hi)].
      destruct Hcase as [(_ & _ & _ & -> & _)|(_ & _ & _ & -> & _)]; repeat constructor. intros [].
    - intros tq Hq. assert (H2 : tq <> t2) by lia. destruct (Nat.eq_dec tq t) as [->|H1].
      + destruct (S_out Hi t Hq) as [E _]. destruct Hcase as [(E1 & _)|(E1 & _)]; congruence.
      + rewrite !upd_other by assumption. apply (S_out Hi); exact Hq.
  Qed.
End Transfer.

Section CF.
  Variable NR : nat.                         (* client threads *)
  Let N := (NR + CACHE_SIZE)%nat.            (* + one place holder per cache slot *)
  Hypothesis HN : Z.of_nat N + 1 < FLAG.
  Variable valid0 : nat -> bool.
  Hypothesis Hv0 : valid0 O = false.
  Variable own0 : omap.

  Notation InvS := (InvS N valid0).
  Notation InvT := (InvT own0 NR).
  Notation InvI := (Inv N valid0 own0 NR).
  Notation safeI := (@Conc.safe G V ev Aux (list nat * phase) view InvI).

  Lemma HNR : (NR <= N)%nat.
  Proof. unfold N. lia. Qed.

  Definition Link (g : CGf) (a : Aux) : Prop :=
    forall i, (i < CACHE_SIZE)%nat ->
      ph a (NR + i) = Idle /\ hl a (NR + i) = (if Nat.eqb (cache G g i) 0 then [] else [cache G g i]).

  Definition CInv (g : CGf) (a : Aux) (tr : list (nat * ev)) : Prop :=
    InvS (back G g) a /\ InvT a tr /\ Link g a.

  Definition cview (a : Aux) (t : nat) : list nat * phase :=
    if Nat.ltb t NR then view a t else ([], Idle).

  Notation safeC := (@Conc.safe CGf V ev Aux (list nat * phase) cview CInv).

  Lemma cview_lt a t : (t < NR)%nat -> cview a t = view a t.
  Proof. intros H. unfold cview. destruct (Nat.ltb_spec t NR); [reflexivity|lia]. Qed.
  Lemma cframe_of a a' t : Conc.frame view t a a' -> Conc.frame cview t a a'.
  Proof. intros Hf t' Hne. unfold cview. destruct (Nat.ltb t' NR); [apply Hf; exact Hne|reflexivity]. Qed.
  Lemma cframe_ph a a' t : (forall t', (t' < NR)%nat -> t' <> t -> view a' t' = view a t') -> Conc.frame cview t a a'.
  Proof. intros Hf t' Hne. unfold cview. destruct (Nat.ltb_spec t' NR); [apply Hf; assumption|reflexivity]. Qed.

  Lemma link_frame (g g' : CGf) a a' t :
    Link g a -> (t < NR)%nat -> Conc.frame view t a a' -> (forall i, cache G g' i = cache G g i) -> Link g' a'.
  Proof.
    intros HL Ht Hf Hc i Hi. assert (Hne : (NR + i)%nat <> t) by lia.
    pose proof (Hf _ Hne) as E. unfold view in E. injection E as E1 E2. rewrite E1, E2, Hc. apply HL; exact Hi.
  Qed.

  Lemma safe_lift R (p : prog R) : forall t l Q, (t < NR)%nat -> safeI t p l Q -> safeC t (lift G p) l Q.
  Proof.
    induction p as [r|es k IH|f k IH]; intros t l Q Ht Hs; cbn [lift Conc.safe] in *.
    - exact Hs.
    - intros g a tr (A & B & C) Hv. rewrite cview_lt in Hv by exact Ht.
      destruct (Hs (back G g) a tr (conj A B) Hv) as (a' & [H1a H1b] & H2 & H3).
      exists a'. split; [|split; [apply cframe_of; exact H2|rewrite cview_lt by exact Ht; apply IH; auto]].
      split; [exact H1a|split; [exact H1b|]]. eapply link_frame; eauto.
    - intros g a tr (A & B & C) Hv. rewrite cview_lt in Hv by exact Ht.
      destruct (Hs (back G g) a tr (conj A B) Hv) as (a' & [H1a H1b] & H2 & H3).
      destruct (f (back G g)) as [[g0 v] es] eqn:Ef. cbn [fst snd] in *.
      exists a'. split; [|split; [apply cframe_of; exact H2|rewrite cview_lt by exact Ht; apply IH; auto]].
      split; [exact H1a|split; [exact H1b|]]. eapply link_frame; eauto.
  Qed.

  Lemma outer_emit t es l l' R (kO : cprog G R) Q :
    (t < NR)%nat -> safeI t (Emit es (Ret tt)) l (fun _ x => x = l') ->
    safeC t kO l' Q -> safeC t (Emit es kO) l Q.
  Proof.
    intros Ht Hs Hk. cbn [Conc.safe] in *. intros g a tr (A & B & C) Hv. rewrite cview_lt in Hv by exact Ht.
    destruct (Hs (back G g) a tr (conj A B) Hv) as (a' & [H1a H1b] & H2 & H3).
    exists a'. split; [|split; [apply cframe_of; exact H2|rewrite cview_lt by exact Ht; rewrite H3; exact Hk]].
    split; [exact H1a|split; [exact H1b|]]. eapply link_frame; eauto.
  Qed.

  Lemma InvT_cache_ev a a' tr t kd o ok :
    InvT a tr -> own a' = own a ->
    (forall t', (t' < NR)%nat -> hl a' t' = hl a t') ->
    (forall t', is_idle (ph a' t') = is_idle (ph a t')) ->
    InvT a' (tr ++ Conc.tag t [EvAcc kd o ok]).
  Proof.
    intros (T1 & T2 & T3) Ho Hh Hi. split; [|split].
    - rewrite mon_run_app, T1, Ho. reflexivity.
    - intros n t'. rewrite Ho, T2. split; intros [A B]; (split; [exact A|]); [rewrite Hh by exact A|rewrite <- Hh by exact A]; exact B.
    - intros t'. rewrite opens_app, Hi, T3. cbn. destruct (Nat.eqb t t'); lia.
  Qed.

  Lemma rule_ld_cache t i l R (k : V -> cprog G R) Q :
    (forall v, safeC t (k v) l Q) -> safeC t (Act (ca_ld_cache G i) k) l Q.
  Proof.
    intros Hk. cbn [Conc.safe]. intros g a tr (A & B & C) Hv. cbn [ca_ld_cache fst snd].
    exists a. split; [|split; [intros ? ?; reflexivity|rewrite Hv; apply Hk]].
    split; [exact A|split; [|exact C]]. eapply InvT_cache_ev; eauto.
  Qed.

  Ltac open_c Ht g a tr A B C Hv Hh Hp :=
    cbn [Conc.safe]; intros g a tr (A & B & C) Hv; rewrite cview_lt in Hv by exact Ht; unfold view in Hv; injection Hv as Hh Hp.

  Definition aux_cput (a : Aux) (t i n : nat) : Aux :=
    mkA (upd (st a) n (Held (NR + i))) (lst a) (upd (ph a) t Busy) (upd (hl a) (NR + i) [n]) (own a).
  Definition aux_ctake (a : Aux) (t i n : nat) : Aux :=
    mkA (upd (st a) n (Held t)) (lst a) (upd (ph a) t (PRet n)) (upd (hl a) (NR + i) []) (own a).

  Lemma rule_cas_cache_put t i H n R (k : V -> cprog G R) Q :
    (t < NR)%nat -> (i < CACHE_SIZE)%nat ->
    safeC t (k (O, 0)) (H, Busy) Q ->
    (forall c, c <> O -> safeC t (k (c, 0)) (H, PPut n) Q) ->
    safeC t (Act (ca_cas_cache G i O n) k) (H, PPut n) Q.
  Proof.
    intros Ht Hi Ks Kf. open_c Ht g a tr A B C Hv Hh Hp.
    unfold ca_cas_cache. destruct (Nat.eqb_spec (cache G g i) 0) as [E|E]; cbn [fst snd].
    - exists (aux_cput a t i n). split; [|split].
      + destruct (C i Hi) as [Ci1 Ci2]. rewrite E in Ci2. cbn in Ci2.
        pose proof (S_ph A t) as Hx. rewrite Hp in Hx. cbn in Hx. destruct Hx as [Hst _].
        assert (Hnz : n <> O). { intros ->. rewrite (st_zero N valid0 Hv0 _ a A) in Hst. discriminate. }
        split; [|split].
        * cbn [back set_cache]. apply transfer with (g := back G g); auto; try (unfold N; lia).
          -- rewrite Hp. reflexivity.
          -- left. repeat split; auto.
        * eapply InvT_cache_ev; eauto.
          -- intros t' Ht'. cbn. apply upd_other. lia.
          -- intros t'. cbn. unfold upd. destruct (Nat.eqb_spec t' t) as [->|_]; [rewrite Hp|]; reflexivity.
        * intros j Hj. cbn [aux_cput ph hl cache set_cache]. destruct (Nat.eq_dec j i) as [->|Hji].
          -- rewrite upd_other by lia. rewrite upd_same, Nat.eqb_refl. split; [exact Ci1|].
             destruct (Nat.eqb_spec n 0); [contradiction|reflexivity].
          -- rewrite !upd_other by lia. destruct (Nat.eqb_spec j i); [contradiction|]. apply C; exact Hj.
      + apply cframe_ph. intros t' Hlt Hne. unfold view. cbn. rewrite !upd_other by lia. reflexivity.
      + rewrite cview_lt by exact Ht. unfold view. cbn. rewrite upd_same, upd_other by lia. rewrite Hh, E. exact Ks.
    - exists a. split; [|split; [intros ? ?; reflexivity|]].
      + split; [exact A|split; [|exact C]]. eapply InvT_cache_ev; eauto.
      + rewrite cview_lt by exact Ht. unfold view. rewrite Hh, Hp. apply Kf. exact E.
  Qed.

  Lemma rule_cas_cache_take t i H c R (k : V -> cprog G R) Q :
    (t < NR)%nat -> (i < CACHE_SIZE)%nat -> c <> O ->
    safeC t (k (c, 0)) (H, PRet c) Q ->
    (forall x, x <> c -> safeC t (k (x, 0)) (H, Busy) Q) ->
    safeC t (Act (ca_cas_cache G i c O) k) (H, Busy) Q.
  Proof.
    intros Ht Hi Hcz Ks Kf. open_c Ht g a tr A B C Hv Hh Hp.
    unfold ca_cas_cache. destruct (Nat.eqb_spec (cache G g i) c) as [E|E]; cbn [fst snd].
    - exists (aux_ctake a t i c). split; [|split].
      + destruct (C i Hi) as [Ci1 Ci2]. rewrite E in Ci2. destruct (Nat.eqb_spec c 0) as [|_]; [contradiction|].
        split; [|split].
        * cbn [back set_cache]. apply transfer with (g := back G g); auto; try (unfold N; lia).
          -- rewrite Hp. reflexivity.
          -- right. repeat split; auto.
        * eapply InvT_cache_ev; eauto.
          -- intros t' Ht'. cbn. apply upd_other. lia.
          -- intros t'. cbn. unfold upd. destruct (Nat.eqb_spec t' t) as [->|_]; [rewrite Hp|]; reflexivity.
        * intros j Hj. cbn [aux_ctake ph hl cache set_cache]. destruct (Nat.eq_dec j i) as [->|Hji].
          -- rewrite upd_other by lia. rewrite upd_same, Nat.eqb_refl. split; [exact Ci1|reflexivity].
          -- rewrite !upd_other by lia. destruct (Nat.eqb_spec j i); [contradiction|]. apply C; exact Hj.
      + apply cframe_ph. intros t' Hlt Hne. unfold view. cbn. rewrite !upd_other by lia. reflexivity.
      + rewrite cview_lt by exact Ht. unfold view. cbn. rewrite upd_same, upd_other by lia. rewrite Hh, E. exact Ks.
    - exists a. split; [|split; [intros ? ?; reflexivity|]].
      + split; [exact A|split; [|exact C]]. eapply InvT_cache_ev; eauto.
      + rewrite cview_lt by exact Ht. unfold view. rewrite Hh, Hp. apply Kf. exact E.
  Qed.

  (** *** the programs of the wrapper *)
  Lemma safe_cput fuel t slot H n : (t < NR)%nat -> (slot < CACHE_SIZE)%nat ->
    safeC t (cput G put fuel slot n) (H, PPut n) (Qdone H).
  Proof.
    intros Ht Hs. unfold cput. apply rule_cas_cache_put; auto.
    - cbn. unfold Qdone. reflexivity.
    - intros c Hc. cbn [vnode fst]. destruct (Nat.eqb_spec c 0) as [E|_]; [contradiction|].
      apply safe_lift; [exact Ht|]. apply (safe_put N HN valid0 Hv0 own0 NR HNR).
  Qed.

  Lemma safe_take_cell t i H fail : (t < NR)%nat -> (i < CACHE_SIZE)%nat ->
    safeC t fail (H, Busy) (Qget H) -> safeC t (take_cell G i fail) (H, Busy) (Qget H).
  Proof.
    intros Ht Hi Hf. unfold take_cell. apply rule_ld_cache. intros v. cbv zeta.
    destruct (Nat.eqb_spec (vnode v) 0) as [E|Hnz]; [exact Hf|].
    apply rule_cas_cache_take; auto.
    - cbn [vnode fst]. rewrite Nat.eqb_refl. cbn. destruct (vnode v); [contradiction|reflexivity].
    - intros x Hx. cbn [vnode fst] in *. destruct (Nat.eqb_spec x (vnode v)) as [E|_]; [contradiction|]. exact Hf.
  Qed.

  Lemma safe_scan t H last : (t < NR)%nat ->
    safeC t last (H, Busy) (Qget H) ->
    forall rem i, (i + rem <= CACHE_SIZE)%nat -> safeC t (scan G rem i last) (H, Busy) (Qget H).
  Proof.
    intros Ht Hl. induction rem as [|r IH]; intros i Hi; cbn [scan]; [exact Hl|].
    apply safe_take_cell; auto; [lia|]. apply IH. lia.
  Qed.

  Lemma safe_lift_get fuel t H : (t < NR)%nat -> safeC t (lift G (get fuel)) (H, Busy) (Qget H).
  Proof. intros Ht. apply safe_lift; [exact Ht|]. apply (safe_get N HN valid0 Hv0 own0 NR HNR). Qed.

  Lemma safe_cget fuel t slot H : (t < NR)%nat -> (slot < CACHE_SIZE)%nat ->
    safeC t (cget G get fuel slot) (H, Busy) (Qget H).
  Proof.
    intros Ht Hs. unfold cget. apply safe_take_cell; auto.
    apply Conc.safe_bind. eapply Conc.safe_weaken; [|apply safe_lift_get; exact Ht].
    intros r l Hl. destruct r as [[|n]|]; cbn in Hl.
    - subst l. apply safe_scan; auto. apply safe_lift_get; exact Ht.
    - subst l. cbn. reflexivity.
    - cbn. exact I.
  Qed.

  Lemma c_emit_plain t H p p' e R (k : cprog G R) Q :
    (t < NR)%nat -> node_of p = None -> node_of p' = None ->
    (forall o, mon_ev o t e = Some o) ->
    (if is_idle p then 0 else 1) + ev_open e = (if is_idle p' then 0 else 1) ->
    safeC t k (H, p') Q -> safeC t (Emit [e] k) (H, p) Q.
  Proof.
    intros Ht Hc Hp' Hm Ho Hk. eapply outer_emit; [exact Ht| |exact Hk].
    apply (rule_emit_plain N valid0 Hv0 own0 NR HNR) with (p' := p'); auto; [unfold N; lia|]. cbn. reflexivity.
  Qed.

  Lemma c_emit_oof t l : (t < NR)%nat -> safeC t (Emit [EvCli "outoffuel" []] (Ret tt)) l (@Conc.QTrue _).
  Proof.
    intros Ht. cbn [Conc.safe]. intros g a tr (A & (T1 & T2 & T3) & C) Hv.
    exists a. split; [|split; [intros ? ?; reflexivity|exact I]].
    split; [exact A|split; [|exact C]]. split; [|split].
    - rewrite mon_run_app, T1. reflexivity.
    - exact T2.
    - intros t'. rewrite opens_app, T3. cbn. destruct (Nat.eqb t t'); lia.
  Qed.

  Lemma safe_crun_ops fuel t slot : (t < NR)%nat -> (slot < CACHE_SIZE)%nat ->
    forall os H, safeC t (crun_ops G put get fuel slot os H) (H, Idle) (@Conc.QTrue _).
  Proof.
    intros Ht Hs. induction os as [|o r IH]; intros H; cbn [crun_ops]; [exact I|].
    destruct o as [|i].
    - apply c_emit_plain with (p' := Busy); auto. apply Conc.safe_bind.
      eapply Conc.safe_weaken; [|apply safe_cget; auto].
      intros res l Hl. destruct res as [[|n]|]; cbn in Hl.
      + subst l. apply c_emit_plain with (p' := Idle); auto.
      + subst l. eapply outer_emit; [exact Ht| |apply IH].
        apply (rule_emit_ret_get N valid0 own0 NR HNR); [exact Ht|]. cbn. reflexivity.
      + apply c_emit_oof; exact Ht.
    - destruct (nth_error H i) as [n|] eqn:Hi.
      + eapply outer_emit; [exact Ht| |].
        * eapply (rule_emit_inv_put N valid0 own0 NR HNR); [unfold N; lia|exact Ht|exact Hi|]. cbn. reflexivity.
        * apply Conc.safe_bind. eapply Conc.safe_weaken; [|apply safe_cput; auto].
          intros ok l Hl. destruct ok.
          -- rewrite (Hl eq_refl). apply c_emit_plain with (p' := Idle); auto.
          -- apply c_emit_oof; exact Ht.
      + apply c_emit_plain with (p' := Idle); auto.
  Qed.

  Lemma safe_cthread fuel t slot os H : (t < NR)%nat -> (slot < CACHE_SIZE)%nat ->
    safeC t (cthread_prog G put get fuel slot os H) (H, Idle) (@Conc.QTrue _).
  Proof.
    intros Ht Hs. unfold cthread_prog. cbn [Conc.safe]. intros g a tr (A & (T1 & T2 & T3) & C) Hv. cbn [ca_begin fst snd].
    exists a. split; [|split; [intros ? ?; reflexivity|rewrite Hv; apply safe_crun_ops; auto]].
    split; [exact A|split; [|exact C]]. split; [|split].
    - rewrite mon_run_app, T1. reflexivity.
    - exact T2.
    - intros t'. rewrite opens_app, T3. cbn. destruct (Nat.eqb t t'); lia.
  Qed.
End CF.
