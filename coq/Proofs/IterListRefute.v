(** * IterListRefute: "no key is ever present twice / the keys are in order" is FALSE for IterableList.
      A concrete schedule of four threads on the step model LV.Model.IterList (the model is tied to
      cds/intrusive/impl/iterable_list.h by step correspondence; the same programs and schedule run on the real
      cds::intrusive::IterableList<gc::HP> in `bin/check C13`, corpus/C13/iter_null_prev_aba.json, with the same result).

      link_data() re-uses an empty predecessor node only after find_prev( pHead, val ) returned that node ("ABA check
      for a null prev"), but find_prev walks nodes that are not frozen: a node it has already passed can be re-used by
      another insert for a larger key.

        T0: insert 5, 6, 7, 20; erase 5, 6, 7            chain  X(empty) -> R(empty) -> P(empty) -> C(20)
        T1: insert 10: inserting_search -> pPrev = P (empty), pCur = C;  preempted before link_data
        T2: insert 17 (re-uses P), insert 15 (re-uses R, pCur = P), erase 17           X(e) -> R(15) -> P(e) -> C(20)
        T1: marks C, marks P, P->next == C, find_prev( 10 ) passes X (empty);  preempted
        T3: insert 12: position (X, R), its find_prev( 12 ) == X, re-uses X; erase 15    X(12) -> R(e) -> P(e) -> C(20)
        T1: find_prev goes on: R empty, P empty, C(20) >= 10 -> returns P == pPrev; stores 10 into P
                                                                                      X(12) -> R(e) -> P(10) -> C(20)
        T1: contains 10 = false;  insert 10 = true                        X(10) ... : 10, 12, 10, 20 *)
From Coq Require Import ZArith List String Bool PeanoNat.
From LV Require Import Base.Conc Base.Events Model.IterList Proofs.IterListDefs Proofs.LazyListDefs.
Import ListNotations.
Local Open Scope Z_scope.

Definition aba_threads : list (list (list Z)) :=
  [ [[1;5;0;0]; [1;6;0;0]; [1;7;0;0]; [1;20;0;0]; [4;5;0;0]; [4;6;0;0]; [4;7;0;0]];
    [[1;10;0;0]; [9;10;0;0]; [1;10;0;0]];
    [[1;17;0;0]; [1;15;0;0]; [4;17;0;0]];
    [[1;12;0;0]; [4;15;0;0]] ].

Definition aba_sched (tail : nat) : list nat :=
  repeat 0%nat 162 ++ repeat 1%nat 33 ++ repeat 2%nat 140 ++ repeat 1%nat 13 ++ repeat 3%nat 53 ++ repeat 1%nat tail.

Lemma reach_trans (c0 c1 c2 : Conc.config G V ev) : Conc.reach c0 c1 -> Conc.reach c1 c2 -> Conc.reach c0 c2.
Proof. intros H1 H2. induction H2; [exact H1|]. econstructor 2; eauto. Qed.

(** the responses of thread [t] in a trace *)
Definition rets_of (t : nat) (tr : list (nat * ev)) : list (list Z) :=
  flat_map (fun te => match te with
                      | (u, EvCli name args) => if Nat.eqb u t && String.eqb name "ret" then [args] else []
                      | _ => []
                      end) tr.

(** after the 423 scheduled steps the first insert( 10 ) of T1 has returned true: 12, 10, 20 *)
Lemma iter_aba_run1 :
  let r := Conc.run 423 0 (aba_sched 22) (init_cfg 64 400 false aba_threads) in
  Conc.reach (init_cfg 64 400 false aba_threads) (fst r) /\
  iter_keys (Conc.shared (fst r)) = [12; 10; 20] /\
  rets_of 1 (Conc.trace (fst r)) = [[1; 0]].
Proof. cbv zeta. split; [apply Conc.run_reach|]. vm_compute. split; reflexivity. Qed.

(** at the end: every thread finished, T1 got insert 10 = true, contains 10 = false, insert 10 = true, and the key 10
    is in the list twice *)
Lemma iter_aba_run2 :
  let r := Conc.run 423 0 (aba_sched 22) (init_cfg 64 400 false aba_threads) in
  let r2 := Conc.run 5000 423 [] (fst r) in
  snd r2 = true /\
  Conc.reach (init_cfg 64 400 false aba_threads) (fst r2) /\
  iter_keys (Conc.shared (fst r2)) = [10; 12; 10; 20] /\
  rets_of 1 (Conc.trace (fst r2)) = [[1; 0]; [0; 0]; [1; 0]].
Proof.
  cbv zeta. split; [vm_compute; reflexivity|]. split.
  - eapply reach_trans; [apply Conc.run_reach|apply Conc.run_reach].
  - vm_compute. split; reflexivity.
Qed.

Theorem iter_order_violation_reachable :
  exists c, Conc.reach (init_cfg 64 400 false aba_threads) c /\ iter_keys (Conc.shared c) = [12; 10; 20].
Proof. eexists. split; [apply iter_aba_run1|apply iter_aba_run1]. Qed.

Theorem iter_duplicate_key_reachable :
  exists c, Conc.reach (init_cfg 64 400 false aba_threads) c /\ iter_keys (Conc.shared c) = [10; 12; 10; 20] /\
            rets_of 1 (Conc.trace c) = [[1; 0]; [0; 0]; [1; 0]].
Proof. eexists. split; [apply iter_aba_run2|apply iter_aba_run2]. Qed.

(** the statement that was to be proved for IterableList is false *)
Theorem iter_sorted_nodup_refuted :
  ~ (forall (fuel sf : nat) (ic : bool) (ths : list (list (list Z))) c,
       Conc.reach (init_cfg fuel sf ic ths) c -> increasing (iter_keys (Conc.shared c))).
Proof.
  intros H. destruct iter_order_violation_reachable as (c & Hr & Hk).
  specialize (H _ _ _ _ _ Hr). rewrite Hk in H. cbn [increasing] in H. destruct H as [H _]. revert H. apply Z.lt_asymm. reflexivity.
Qed.
