(** * DhpFlX: the client side of the open-world free-list theorem, the part that does not need ownership:
      every block named by a shared pointer field, held in a free list or known to a thread has been announced
      ("_new") and initialised (the node constructor's store), once and for all; a half-created block is known to
      its creator only.  Consequence (trace property [TPx]): every "_free f b" names an existing, initialised block
      and every "_new f b" a block that did not exist -- two of the three client obligations [m_cbad] of
      LV.Proofs.FreeListOpenRules (the third, "not currently free", needs ownership: JA / JB, see LV.Proofs.DhpFlKnot).
      This file: the invariant [InvX f] and its [dsafe] rules; LV.Proofs.DhpFlXSp: every DHP thread keeps it. *)
From Coq Require Import ZArith NArith List String Bool Lia PeanoNat.
From LV Require Import Base.Conc Base.Events Model.FreeList Model.DhpLang Model.Dhp Proofs.DhpBase Proofs.DhpHist
  Proofs.DhpLangProofs Proofs.FreeListBase Proofs.FreeListInv Proofs.FreeListOpen Proofs.FreeListOpenRules Proofs.FreeListOpenDhp Proofs.FreeListOpenDhpRules
  Proofs.FreeListOpenDhpThm Proofs.FreeListOpenDhpBridge Proofs.DhpCertBase.
Import ListNotations.

Record XV := mkXV { xf : option (nat * bool); xk : list nat }.
Definition xv0 : XV := mkXV None [].
Record AuxX := mkAuxX { xvs : nat -> XV; xok : nat -> bool }.
Definition viewX (a : AuxX) (t : nat) : XV := xvs a t.

Definition updf {B} (f : nat -> B) (k : nat) (v : B) : nat -> B := fun x => if Nat.eqb x k then v else f x.
Lemma updf_same {B} (f : nat -> B) k v : updf f k v k = v. Proof. unfold updf. now rewrite Nat.eqb_refl. Qed.
Lemma updf_other {B} (f : nat -> B) k v x : x <> k -> updf f k v x = f x.
Proof. intros H. unfold updf. destruct (Nat.eqb_spec x k); [contradiction|reflexivity]. Qed.

Lemma app_split_cases {A} (tr : list A) : forall es tr1 x tr2, tr ++ es = tr1 ++ x :: tr2 ->
  (exists tr2', tr = tr1 ++ x :: tr2') \/ (exists pre post, tr1 = tr ++ pre /\ es = pre ++ x :: post).
Proof.
  induction tr as [|y tr IH]; intros es tr1 x tr2 E; cbn in E.
  - right. exists tr1, tr2. auto.
  - destruct tr1 as [|z tr1]; cbn in E; inversion E; subst.
    + left. exists tr. reflexivity.
    + destruct (IH _ _ _ _ H1) as [(tr2' & ->)|(pre & post & -> & ->)]; [left; exists tr2'; reflexivity|right; exists pre, post; auto].
Qed.

Section X.
  Variable f : fl.
  Notation mrunf := (mrun (clsf f) mzero).

  Record JX (g : Dhp.G) (a : AuxX) (m : mst) : Prop := {
    x_ok : forall b, xok a b = true -> b < flen g f /\ m_ex m (S b) = true /\ m_pd m (S b) = false;
    x_ex : forall b, m_ex m (S b) = true -> b < flen g f;
    x_fr : forall t nb st, xf (xvs a t) = Some (nb, st) -> nb < flen g f /\ xok a nb = false /\ m_ex m (S nb) = st;
    x_un : forall t t' nb st st', xf (xvs a t) = Some (nb, st) -> xf (xvs a t') = Some (nb, st') -> t = t';
    x_kn : forall t b, In b (xk (xvs a t)) -> xok a b = true;
    x_sh : forall b, shp f g b -> xok a b = true;
    x_fl : forall b, m_fr m (S b) = true -> xok a b = true }.

  Definition TPx (tr : list (nat * ev)) : Prop :=
    forall tr1 t e tr2, tr = tr1 ++ (t, e) :: tr2 ->
      (forall b, clsf f e = FFree (S b) -> m_ex (mrunf tr1) (S b) = true /\ m_pd (mrunf tr1) (S b) = false) /\
      (forall nb, clsf f e = FNew (S nb) -> m_ex (mrunf tr1) (S nb) = false).

  Definition InvX (g : Dhp.G) (a : AuxX) (tr : list (nat * ev)) : Prop :=
    m_abad (mrunf tr) = false -> JX g a (mrunf tr) /\ TPx tr.

  Lemma abad_prefix tr tr' : m_abad (mrunf (tr ++ tr')) = false -> m_abad (mrunf tr) = false.
  Proof.
    rewrite mrun_app. intros H. destruct (m_abad (mrunf tr)) eqn:E; [|reflexivity].
    rewrite (abad_fold (clsf f) tr' _ E) in H. discriminate.
  Qed.

  (** events of the free-list algorithm and of everything else: the monitor keeps m_ex, m_fr and the flags; m_pd
      may lose elements *)
  Definition qI (es : list ev) : Prop := forall e, In e es -> clsf f e = FNone \/ exists n, clsf f e = FInit n.
  Definition mle (m m' : mst) : Prop :=
    m_ex m' = m_ex m /\ m_fr m' = m_fr m /\ (forall n, m_pd m' n = true -> m_pd m n = true) /\ m_abad m' = m_abad m /\ m_cbad m' = m_cbad m.
  Lemma mle_refl m : mle m m. Proof. repeat split; auto. Qed.
  Lemma qI_fold t es : qI es -> forall m, mle m (fold_left (mstep (clsf f)) (Conc.tag t es) m).
  Proof.
    induction es as [|e es IH]; intros Hq m; cbn; [apply mle_refl|].
    assert (H1 : mle m (mstep (clsf f) m (t, e))).
    { unfold mstep. cbn [snd]. destruct (Hq e (or_introl eq_refl)) as [->|(n & ->)]; [apply mle_refl|]. cbn.
      destruct (m_pd m n) eqn:E; [|apply mle_refl]. repeat split; auto. cbn. intros k. unfold bset. destruct (Nat.eqb k n); [discriminate|auto]. }
    specialize (IH (fun x Hx => Hq x (or_intror Hx)) (mstep (clsf f) m (t, e))).
    destruct H1 as (A1 & A2 & A3 & A4 & A5), IH as (B1 & B2 & B3 & B4 & B5).
    split; [exact (eq_trans B1 A1)|]. split; [exact (eq_trans B2 A2)|]. split; [intros n H; apply A3; apply B3; exact H|].
    split; [exact (eq_trans B4 A4)|exact (eq_trans B5 A5)].
  Qed.
  Lemma qE_qI es : qE f es -> qI es.
  Proof. intros H e He. left. now apply H. Qed.

  Definition xG (g g' : Dhp.G) : Prop := flen g f <= flen g' f /\ forall b, shp f g' b -> shp f g b.
  Lemma qG_xG g g' : qG f g g' -> xG g g'.
  Proof. intros [[_ A] B]. split; auto. Qed.
  Lemma xG_refl g : xG g g. Proof. split; auto. Qed.

  Lemma JX_frame g g' a m m' : xG g g' -> mle m m' -> JX g a m -> JX g' a m'.
  Proof.
    intros [G1 G2] (M1 & M2 & M3 & _ & _) [X1 X2 X3 X4 X5 X6 X7]. constructor; auto.
    - intros b Hb. destruct (X1 b Hb) as (Y1 & Y2 & Y3). rewrite M1. split; [lia|]. split; auto.
      destruct (m_pd m' (S b)) eqn:E; auto. apply M3 in E. congruence.
    - intros b. rewrite M1. intros H. specialize (X2 b H). lia.
    - intros t nb st H. destruct (X3 t nb st H) as (Y1 & Y2 & Y3). rewrite M1. split; [lia|auto].
    - intros b. rewrite M2. apply X7.
  Qed.

  Lemma TPx_ext tr t es : TPx tr -> qI es -> TPx (tr ++ Conc.tag t es).
  Proof.
    intros H Hq tr1 t' e tr2 E. destruct (app_split_cases _ _ _ _ _ E) as [(tr2' & E')|(pre & post & E1 & E2)]; [eapply H; eauto|].
    assert (Hin : In (t', e) (Conc.tag t es)) by (rewrite E2; apply in_or_app; right; now left).
    unfold Conc.tag in Hin. apply in_map_iff in Hin. destruct Hin as (e0 & E0 & Hin). inversion E0; subst.
    destruct (Hq e Hin) as [K|(n & K)]; split; intros b Hb; rewrite K in Hb; discriminate.
  Qed.

  (** the step of a node that leaves the instance alone, or of an access of its free-list algorithm *)
  Lemma InvX_quiet g g' a tr t es : InvX g a tr -> xG g g' -> qI es -> InvX g' a (tr ++ Conc.tag t es).
  Proof.
    intros HI Hg Hq Hab. destruct (HI (abad_prefix _ _ Hab)) as [J T]. split; [|now apply TPx_ext].
    rewrite mrun_app. eapply JX_frame; eauto. now apply qI_fold.
  Qed.

  Notation dsafeX := (@dsafe Dhp.G ev AuxX XV viewX InvX).

  Lemma dX_emit_q {R} t es (k : @dprog Dhp.G ev R) l Q : qI es -> dsafeX t k l Q -> dsafeX t (DEmit es k) l Q.
  Proof.
    intros He Hk. cbn [dsafe]. intros g d tr HI Hv. exists d. split; [eapply InvX_quiet; eauto; apply xG_refl|].
    split; [apply frame_refl|unfold viewX in *; rewrite Hv;exact Hk].
  Qed.
  Lemma dX_loc_q {R X} t (fn : Dhp.G -> Dhp.G * X) (k : X -> @dprog Dhp.G ev R) l Q :
    (forall g, xG g (fst (fn g))) -> (forall x, dsafeX t (k x) l Q) -> dsafeX t (DLoc fn k) l Q.
  Proof.
    intros Hg Hk. cbn [dsafe]. intros g d tr HI Hv. exists d. split.
    - pose proof (InvX_quiet g (fst (fn g)) d tr t [] HI (Hg g)) as K. cbn in K. rewrite app_nil_r in K. apply K. intros e [].
    - split; [apply frame_refl|unfold viewX in *; rewrite Hv;apply Hk].
  Qed.
  Lemma dX_act_q {R X} t (fa : Dhp.A X) (k : X -> @dprog Dhp.G ev R) l Q :
    (forall g, xG g (fst (fst (fa g))) /\ qI (snd (fa g))) -> (forall x, dsafeX t (k x) l Q) -> dsafeX t (DAct fa k) l Q.
  Proof.
    intros Hg Hk. cbn [dsafe]. intros g d tr HI Hv. destruct (Hg g) as [G1 G2]. exists d.
    split; [eapply InvX_quiet; eauto|]. split; [apply frame_refl|unfold viewX in *; rewrite Hv;apply Hk].
  Qed.

  (** ** the steps that change the ghost state; all of them are rules with the new view made explicit *)
  Definition setx (a : AuxX) (t : nat) (v : XV) : AuxX := mkAuxX (updf (xvs a) t v) (xok a).
  Lemma frame_setx a t v ok' : Conc.frame viewX t a (mkAuxX (updf (xvs a) t v) ok').
  Proof. intros t' Ht. unfold viewX. cbn. now apply updf_other. Qed.

  (** learning block pointers that are read from shared fields (or any set of blocks known to be initialised) *)
  Lemma JX_learn g a m t (bs : list nat) : (forall b, In b bs -> xok a b = true) -> JX g a m ->
    JX g (setx a t (mkXV (xf (xvs a t)) (bs ++ xk (xvs a t)))) m.
  Proof.
    intros Hb [X1 X2 X3 X4 X5 X6 X7]. constructor; cbn [setx xvs xok]; auto.
    - intros t' nb st. unfold updf. destruct (Nat.eqb_spec t' t) as [->|]; cbn; apply X3.
    - intros t1 t2 nb st st'. unfold updf. destruct (Nat.eqb_spec t1 t) as [->|], (Nat.eqb_spec t2 t) as [->|]; cbn; apply X4.
    - intros t' b. unfold updf. destruct (Nat.eqb_spec t' t) as [->|]; cbn; [|apply X5]. intros H. apply in_app_or in H. destruct H; [auto|eapply X5; eauto].
  Qed.

  Definition olist (o : option nat) : list nat := match o with Some b => [b] | None => [] end.

  Lemma dX_loc_read {R} t (fn : Dhp.G -> Dhp.G * option nat) (k : option nat -> @dprog Dhp.G ev R) l Q :
    (forall g, xG g (fst (fn g)) /\ forall b, snd (fn g) = Some b -> shp f g b) ->
    (forall o, dsafeX t (k o) (mkXV (xf l) (olist o ++ xk l)) Q) -> dsafeX t (DLoc fn k) l Q.
  Proof.
    intros Hg Hk. cbn [dsafe]. intros g a tr HI Hv. unfold viewX in Hv. destruct (Hg g) as [G1 G2].
    exists (setx a t (mkXV (xf (xvs a t)) (olist (snd (fn g)) ++ xk (xvs a t)))). split; [|split; [apply frame_setx|]].
    - intros Hab. destruct (HI Hab) as [J T]. split; auto. apply JX_learn.
      + intros b Hb. destruct (snd (fn g)) as [b0|] eqn:E; [|contradiction]. destruct Hb as [<-|[]]. destruct J as [_ _ _ _ _ X6 _]. apply X6. now apply G2.
      + eapply JX_frame; eauto. apply mle_refl.
    - unfold viewX. cbn [setx xvs]. rewrite updf_same, Hv. apply Hk.
  Qed.
  Lemma dX_act_read {R} t (fa : Dhp.A (option nat)) (k : option nat -> @dprog Dhp.G ev R) l Q :
    (forall g, fst (fst (fa g)) = g /\ qI (snd (fa g)) /\ forall b, snd (fst (fa g)) = Some b -> shp f g b) ->
    (forall o, dsafeX t (k o) (mkXV (xf l) (olist o ++ xk l)) Q) -> dsafeX t (DAct fa k) l Q.
  Proof.
    intros Hg Hk. cbn [dsafe]. intros g a tr HI Hv. unfold viewX in Hv. destruct (Hg g) as (G0 & G1 & G2).
    exists (setx a t (mkXV (xf (xvs a t)) (olist (snd (fst (fa g))) ++ xk (xvs a t)))). split; [|split; [apply frame_setx|]].
    - intros Hab. pose proof (InvX_quiet g g a tr t _ HI (xG_refl g) G1 Hab) as [J T]. rewrite G0. split; auto. apply JX_learn; auto.
      intros b Hb. destruct (snd (fst (fa g))) as [b0|] eqn:E; [|contradiction]. destruct Hb as [<-|[]]. destruct J as [_ _ _ _ _ X6 _]. apply X6. now apply G2.
    - unfold viewX. cbn [setx xvs]. rewrite updf_same, Hv. apply Hk.
  Qed.

  (** writing known block pointers into shared fields *)
  Lemma dX_loc_write {R X} t (fn : Dhp.G -> Dhp.G * X) (k : X -> @dprog Dhp.G ev R) l Q :
    (forall g, flen g f <= flen (fst (fn g)) f /\ forall b, shp f (fst (fn g)) b -> shp f g b \/ In b (xk l)) ->
    (forall x, dsafeX t (k x) l Q) -> dsafeX t (DLoc fn k) l Q.
  Proof.
    intros Hg Hk. cbn [dsafe]. intros g a tr HI Hv. unfold viewX in Hv. destruct (Hg g) as [G1 G2]. exists a. split; [|split; [apply frame_refl|unfold viewX in *; rewrite Hv;apply Hk]].
    intros Hab. destruct (HI Hab) as [[X1 X2 X3 X4 X5 X6 X7] T]. split; auto. constructor; auto.
    - intros b Hb. destruct (X1 b Hb) as (Y1 & Y2). split; [lia|auto].
    - intros b Hb. specialize (X2 b Hb). lia.
    - intros t' nb st H. destruct (X3 t' nb st H) as (Y1 & Y2). split; [lia|auto].
    - intros b Hb. destruct (G2 b Hb) as [H|H]; [auto|]. apply (X5 t). now rewrite Hv.
  Qed.
  Lemma dX_act_write {R X} t (fa : Dhp.A X) (k : X -> @dprog Dhp.G ev R) l Q :
    (forall g, flen g f <= flen (fst (fst (fa g))) f /\ qI (snd (fa g)) /\ forall b, shp f (fst (fst (fa g))) b -> shp f g b \/ In b (xk l)) ->
    (forall x, dsafeX t (k x) l Q) -> dsafeX t (DAct fa k) l Q.
  Proof.
    intros Hg Hk. cbn [dsafe]. intros g a tr HI Hv. unfold viewX in Hv. destruct (Hg g) as (G1 & Gq & G2). exists a. split; [|split; [apply frame_refl|unfold viewX in *; rewrite Hv;apply Hk]].
    intros Hab. pose proof (InvX_quiet g g a tr t _ HI (xG_refl g) Gq Hab) as [[X1 X2 X3 X4 X5 X6 X7] T]. split; auto. constructor; auto.
    - intros b Hb. destruct (X1 b Hb) as (Y1 & Y2). split; [lia|auto].
    - intros b Hb. specialize (X2 b Hb). lia.
    - intros t' nb st H. destruct (X3 t' nb st H) as (Y1 & Y2). split; [lia|auto].
    - intros b Hb. destruct (G2 b Hb) as [H|H]; [auto|]. apply (X5 t). now rewrite Hv.
  Qed.

  Lemma mrun_snoc tr t e : mrunf (tr ++ Conc.tag t [e]) = mstep_ev (mrunf tr) (clsf f e).
  Proof. rewrite mrun_app. reflexivity. Qed.
  Lemma cls_free b : clsf f (ev_free f b) = FFree (S b).
  Proof. unfold clsf. rewrite classify_free. destruct f; reflexivity. Qed.
  Lemma cls_alloc b : clsf f (ev_alloc f b) = FAlloc (S b).
  Proof. unfold clsf. rewrite classify_alloc. destruct f; reflexivity. Qed.
  Lemma cls_new b : clsf f (ev_new f b) = FNew (S b).
  Proof. unfold clsf. rewrite classify_new. destruct f; reflexivity. Qed.

  Lemma TPx_snoc tr t e : TPx tr ->
    (forall b, clsf f e = FFree (S b) -> m_ex (mrunf tr) (S b) = true /\ m_pd (mrunf tr) (S b) = false) ->
    (forall nb, clsf f e = FNew (S nb) -> m_ex (mrunf tr) (S nb) = false) -> TPx (tr ++ Conc.tag t [e]).
  Proof.
    intros H H1 H2 tr1 t' e' tr2 E. destruct (app_split_cases _ _ _ _ _ E) as [(tr2' & E')|(pre & post & E1 & E2)]; [eapply H; eauto|].
    cbn in E2. destruct pre as [|x pre]; cbn in E2; [|destruct pre; inversion E2]. inversion E2; subst. rewrite app_nil_r. split; assumption.
  Qed.

  (** "_alloc f b": the block comes out of the free list, hence is initialised *)
  Lemma dX_emit_alloc {R} t b (k : @dprog Dhp.G ev R) l Q :
    dsafeX t k (mkXV (xf l) (b :: xk l)) Q -> dsafeX t (DEmit [ev_alloc f b] k) l Q.
  Proof.
    intros Hk. cbn [dsafe]. intros g a tr HI Hv. unfold viewX in Hv.
    exists (setx a t (mkXV (xf (xvs a t)) ([b] ++ xk (xvs a t)))). split; [|split; [apply frame_setx|]].
    - intros Hab. destruct (HI (abad_prefix _ _ Hab)) as [J T]. rewrite mrun_snoc, cls_alloc in *. cbn [mstep_ev] in *.
      destruct (m_fr (mrunf tr) (S b)) eqn:Efr; [|cbn in Hab; discriminate]. split.
      + apply JX_learn; [intros b0 [<-|[]]; destruct J as [_ _ _ _ _ _ X7]; now apply X7|].
        destruct J as [X1 X2 X3 X4 X5 X6 X7]. constructor; cbn [m_ex m_pd m_fr]; auto.
        intros b0. unfold bset. destruct (Nat.eqb (S b0) (S b)); [discriminate|apply X7].
      + apply TPx_snoc; auto; intros x Hx; rewrite cls_alloc in Hx; discriminate.
    - unfold viewX. cbn [setx xvs]. rewrite updf_same, Hv. exact Hk.
  Qed.

  (** "_free f b" of a block known to be initialised *)
  Lemma dX_emit_free {R} t b (k : @dprog Dhp.G ev R) l Q :
    In b (xk l) -> dsafeX t k l Q -> dsafeX t (DEmit [ev_free f b] k) l Q.
  Proof.
    intros Hb Hk. cbn [dsafe]. intros g a tr HI Hv. unfold viewX in Hv. exists a. split; [|split; [apply frame_refl|unfold viewX in *; rewrite Hv;exact Hk]].
    intros Hab. assert (Hab0 : m_abad (mrunf tr) = false) by (apply (abad_prefix _ _ Hab)). destruct (HI Hab0) as [J T].
    assert (Hok : xok a b = true) by (destruct J as [_ _ _ _ X5 _ _]; apply (X5 t); now rewrite Hv).
    destruct (x_ok _ _ _ J b Hok) as (Y1 & Y2 & Y3). split.
    - rewrite mrun_snoc, cls_free. cbn [mstep_ev]. destruct J as [X1 X2 X3 X4 X5 X6 X7].
      destruct (_ && _ && _)%bool; constructor; cbn [m_ex m_pd m_fr]; auto.
      intros b0. unfold bset. destruct (Nat.eqb_spec (S b0) (S b)) as [E|_]; [injection E as ->; auto|apply X7].
    - apply TPx_snoc; auto; intros x Hx; rewrite cls_free in Hx; [injection Hx as <-; auto|discriminate].
  Qed.

  (** creation of a block: the DLoc new_gblock / new_rblock *)
  Lemma dX_loc_fresh {R} t (fn : Dhp.G -> Dhp.G * nat) (k : nat -> @dprog Dhp.G ev R) l Q :
    (forall g, xG g (fst (fn g)) /\ snd (fn g) = flen g f /\ flen g f < flen (fst (fn g)) f) ->
    (forall nb, dsafeX t (k nb) (mkXV (Some (nb, false)) (xk l)) Q) -> dsafeX t (DLoc fn k) l Q.
  Proof.
    intros Hg Hk. cbn [dsafe]. intros g a tr HI Hv. unfold viewX in Hv. destruct (Hg g) as (G1 & G2 & G3).
    exists (setx a t (mkXV (Some (snd (fn g), false)) (xk (xvs a t)))). split; [|split; [apply frame_setx|]].
    - intros Hab. destruct (HI Hab) as [J T]. split; auto. apply (JX_frame g (fst (fn g)) a _ _ G1 (mle_refl _)) in J.
      destruct J as [X1 X2 X3 X4 X5 X6 X7]. destruct (HI Hab) as [[Z1 Z2 Z3 _ _ _ _] _].
      constructor; cbn [setx xvs xok]; auto.
      + intros t' nb st. unfold updf. destruct (Nat.eqb_spec t' t) as [->|]; cbn; [|apply X3]. intros E. inversion E; subst nb st. rewrite G2. split; [lia|]. split.
        * destruct (xok a (flen g f)) eqn:Eo; auto. destruct (Z1 _ Eo). lia.
        * destruct (m_ex (mrunf tr) (S (flen g f))) eqn:Ee; auto. specialize (Z2 _ Ee). lia.
      + intros t1 t2 nb st st'. unfold updf. destruct (Nat.eqb_spec t1 t) as [->|], (Nat.eqb_spec t2 t) as [->|]; cbn; auto.
        * intros E1 E2. inversion E1; subst. destruct (Z3 _ _ _ E2). lia.
        * intros E1 E2. inversion E2; subst. destruct (Z3 _ _ _ E1). lia.
        * apply X4.
      + intros t' b. unfold updf. destruct (Nat.eqb_spec t' t) as [->|]; cbn; apply X5.
    - unfold viewX. cbn [setx xvs]. rewrite updf_same, Hv. apply Hk.
  Qed.

  (** "_new f nb" *)
  Lemma dX_emit_new {R} t nb (k : @dprog Dhp.G ev R) ks Q :
    dsafeX t k (mkXV (Some (nb, true)) ks) Q -> dsafeX t (DEmit [ev_new f nb] k) (mkXV (Some (nb, false)) ks) Q.
  Proof.
    intros Hk. cbn [dsafe]. intros g a tr HI Hv. unfold viewX in Hv.
    exists (setx a t (mkXV (Some (nb, true)) ks)). split; [|split; [apply frame_setx|]].
    - intros Hab. assert (Hab0 : m_abad (mrunf tr) = false) by (apply (abad_prefix _ _ Hab)). destruct (HI Hab0) as [J T].
      destruct (x_fr _ _ _ J t nb false ltac:(rewrite Hv; reflexivity)) as (Y1 & Y2 & Y3). split.
      + rewrite mrun_snoc, cls_new. cbn [mstep_ev Nat.eqb orb]. rewrite Y3. destruct J as [X1 X2 X3 X4 X5 X6 X7].
        constructor; cbn [m_ex m_pd m_fr setx xvs xok]; auto.
        * intros b Hb. destruct (X1 b Hb) as (Z1 & Z2 & Z3). assert (N : b <> nb) by (intros ->; congruence). unfold bset.
          destruct (Nat.eqb_spec (S b) (S nb)) as [E|_]; [congruence|auto].
        * intros b. unfold bset. destruct (Nat.eqb_spec (S b) (S nb)) as [E|_]; [injection E as ->; auto|apply X2].
        * intros t' n st. unfold updf. destruct (Nat.eqb_spec t' t) as [->|Nt]; cbn.
          -- intros E. inversion E; subst n st. split; auto. split; auto. unfold bset. now rewrite Nat.eqb_refl.
          -- intros E. destruct (X3 t' n st E) as (Z1 & Z2 & Z3). split; auto. split; auto. unfold bset.
             destruct (Nat.eqb_spec (S n) (S nb)) as [E0|_]; [|auto]. injection E0 as ->. exfalso. apply Nt. eapply X4; eauto. rewrite Hv. reflexivity.
        * intros t1 t2 n st st'. unfold updf. destruct (Nat.eqb_spec t1 t) as [->|N1], (Nat.eqb_spec t2 t) as [->|N2]; cbn; auto.
          -- intros E1 E2. inversion E1; subst. symmetry. eapply X4; eauto. rewrite Hv. reflexivity.
          -- intros E1 E2. inversion E2; subst. eapply X4; eauto. rewrite Hv. reflexivity.
          -- apply X4.
        * intros t' b. unfold updf. destruct (Nat.eqb_spec t' t) as [->|]; cbn; [|apply X5]. intros H. apply (X5 t). now rewrite Hv.
      + apply TPx_snoc; auto; intros x Hx; rewrite cls_new in Hx; [discriminate|injection Hx as <-; exact Y3].
    - unfold viewX. cbn [setx xvs]. rewrite updf_same. exact Hk.
  Qed.

  (** the node constructor's store to m_freeListNext of the announced block *)
  Lemma dX_act_init {R} t nb v (k : unit -> @dprog Dhp.G ev R) ks Q :
    dsafeX t (k tt) (mkXV None (nb :: ks)) Q -> dsafeX t (DAct (a_st_flnext f nb v) k) (mkXV (Some (nb, true)) ks) Q.
  Proof.
    intros Hk. cbn [dsafe]. intros g a tr HI Hv. unfold viewX in Hv. cbn [a_st_flnext fst snd].
    exists (mkAuxX (updf (xvs a) t (mkXV None (nb :: ks))) (updf (xok a) nb true)). split; [|split; [apply frame_setx|]].
    - intros Hab. assert (Hab0 : m_abad (mrunf tr) = false) by (apply (abad_prefix _ _ Hab)). destruct (HI Hab0) as [J T].
      destruct (x_fr _ _ _ J t nb true ltac:(rewrite Hv; reflexivity)) as (Y1 & Y2 & Y3).
      assert (Ecls : clsf f (EvAcc KSt (obj_node f nb 1) true) = FInit (S nb)) by (destruct f; cbn; unfold zn; rewrite Nat2Z.id; reflexivity).
      assert (Elen : flen (fl_set_next g f nb v) f = flen g f) by (destruct f; cbn; unfold upd_gb, upd_rb; cbn; apply upd_nth_length).
      assert (Eshp : forall b, shp f (fl_set_next g f nb v) b -> shp f g b).
      { apply pS_shp. destruct f; cbn [fl_set_next]; [apply pS_upd_gb|apply pS_upd_rb]; intros []; apply keepo_refl. }
      split.
      + unfold acc. rewrite mrun_snoc, Ecls. destruct J as [X1 X2 X3 X4 X5 X6 X7].
        assert (Hm : let m' := mstep_ev (mrunf tr) (FInit (S nb)) in m_ex m' = m_ex (mrunf tr) /\ m_fr m' = m_fr (mrunf tr) /\
                     m_pd m' (S nb) = false /\ (forall n, m_pd m' n = true -> m_pd (mrunf tr) n = true)).
        { cbn [mstep_ev]. destruct (m_pd (mrunf tr) (S nb)) eqn:E; cbn [m_ex m_fr m_pd]; repeat split; auto.
          - unfold bset. now rewrite Nat.eqb_refl. - intros n. unfold bset. destruct (Nat.eqb n (S nb)); [discriminate|auto]. }
        destruct Hm as (M1 & M2 & M3 & M4). set (m' := mstep_ev (mrunf tr) (FInit (S nb))) in *.
        constructor; cbn [xvs xok]; rewrite ?Elen, ?M1, ?M2.
        * intros b. unfold updf. destruct (Nat.eqb_spec b nb) as [->|N]; [intros _; split; [exact Y1|]; split; [exact Y3|exact M3]|].
          intros Hb. destruct (X1 b Hb) as (Z1 & Z2 & Z3). split; auto. split; auto. destruct (m_pd m' (S b)) eqn:E; auto. apply M4 in E. congruence.
        * exact X2.
        * intros t' n st. unfold updf at 1. destruct (Nat.eqb_spec t' t) as [->|Nt]; cbn; [discriminate|].
          intros E. destruct (X3 t' n st E) as (Z1 & Z2 & Z3). split; auto. split; auto.
          rewrite updf_other; auto. intros ->. apply Nt. eapply X4; eauto. rewrite Hv. reflexivity.
        * intros t1 t2 n st st'. unfold updf. destruct (Nat.eqb_spec t1 t) as [->|N1], (Nat.eqb_spec t2 t) as [->|N2]; cbn; auto; try discriminate. apply X4.
        * intros t' b. unfold updf at 1. destruct (Nat.eqb_spec t' t) as [->|]; cbn.
          -- intros [<-|H]; [apply updf_same|]. unfold updf. destruct (Nat.eqb b nb); auto. apply (X5 t). now rewrite Hv.
          -- intros H. unfold updf. destruct (Nat.eqb b nb); auto. eapply X5; eauto.
        * intros b Hb. unfold updf. destruct (Nat.eqb b nb); auto.
        * intros b Hb. unfold updf. destruct (Nat.eqb b nb); auto.
      + unfold acc. apply TPx_snoc; auto; intros x Hx; rewrite Ecls in Hx; discriminate.
    - unfold viewX. cbn [xvs]. rewrite updf_same. exact Hk.
  Qed.
End X.
