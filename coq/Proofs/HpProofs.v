(** * HP: the invariant holds in every reachable configuration; the trace theorems of C01 / C03 (HP half). *)
From Coq Require Import ZArith List String Bool Lia PeanoNat.
From LV Require Import Base.Conc Base.Events Model.Hp Proofs.HpTrace Proofs.HpInv Proofs.HpSteps Proofs.HpLocal
  Proofs.HpSafe.
Import ListNotations.
Local Open Scope string_scope.
Local Open Scope list_scope.

Lemma inv_init c : Inv c (init c) aux0 [].
Proof.
  assert (Hg : forall r, get_rec (init c) r = dead_rec) by (intros r; unfold get_rec, init; cbn; now destruct r).
  apply mkInv; cbn.
  - intros r j. unfold gslot. now rewrite Hg.
  - intros r j _. unfold gslot. now rewrite Hg.
  - intros r j _. unfold gslot. now rewrite Hg.
  - intros r j _. unfold gslot. now rewrite Hg.
  - intros r [].
  - intros t r H. discriminate.
  - intros t r [].
  - intros t t' r [H|[]]. discriminate.
  - intros t. split; [constructor|]. intros r H. discriminate.
  - intros t r j H. discriminate.
  - intros r H. lia.
  - intros t r [].
  - intros t cl [].
  - intros t. constructor.
  - intros r x H. discriminate.
  - intros p. reflexivity.
  - intros t sv H. discriminate.
  - intros d t p s H. destruct d; discriminate.
  - intros e t r kept s H. destruct e; discriminate.
  - intros t _. split; reflexivity.
  - intros r p H. destruct r; cbn in H; destruct H.
  - intros t sv r s H. discriminate.
  - intros d t p H. destruct d; discriminate.
  - intros t sv H. discriminate.
  - intros (_ & Hhp & _) r. left. destruct r; cbn; lia.
  - intros _ p. reflexivity.
  - intros i u e H. destruct i; discriminate.
  - intros t. reflexivity.
  - intros t e0 H. discriminate.
  - intros t r j x ok H. discriminate.
  - intros k. reflexivity.
Qed.

Lemma init_ok c ths : Conc.cfg_ok view (Inv c) (init_cfg c ths).
Proof.
  exists aux0. split; [apply inv_init|].
  intros t p Hp. cbn [init_cfg Conc.threads] in Hp. rewrite nth_error_map in Hp.
  destruct (nth_error ths t); inversion Hp; subst. apply safe_thread.
Qed.

Lemma reach_inv c ths cf : Conc.reach (init_cfg c ths) cf -> exists a, Inv c (Conc.shared cf) a (Conc.trace cf).
Proof. intros H. eapply Conc.reach_Inv; [apply init_ok|exact H]. Qed.

(** ** C01, first sentence.
    For every configuration, every client program, every schedule: if the event at index [d] of the trace is a
    call of the disposer on [p] by thread [t], and [s] is the index of the fetch_add that opened the scan of [t]
    this call belongs to (its last [g_scan_begin] before [d]), then no hazard slot (r,j) held [p] at every step
    from [s] to [d].  ([held] for an earlier start is stronger, so the same holds for every earlier [s].)
    With the in-place scan the client must not retire an object twice ([retire_once]): the in-place scan marks
    one of two equal cells only, see [inplace_double_retire] in Properties_C01. *)
Theorem hp_no_dispose_while_guarded c ths cf :
  Conc.reach (init_cfg c ths) cf ->
  forall d t p s,
    nth_error (Conc.trace cf) d = Some (t, ev_dispose p) ->
    last_sb (firstn d (Conc.trace cf)) t = Some s ->
    (cInplace c = true -> retire_once (firstn d (Conc.trace cf))) ->
    p <> 0%Z ->
    forall r j, ~ held (firstn (S d) (Conc.trace cf)) s r j p.
Proof. intros H. destruct (reach_inv _ _ _ H) as (a & HI). exact (i_safe _ _ _ _ HI). Qed.

(** ** C03 (HP): no object is given to its disposer more often than it was passed to retire() *)
Theorem hp_dispose_at_most_once c ths cf :
  Conc.reach (init_cfg c ths) cf ->
  forall p, (cnt "dispose" p (Conc.trace cf) <= cnt "retire" p (Conc.trace cf))%Z.
Proof.
  intros H p. destruct (reach_inv _ _ _ H) as (a & HI). rewrite (i_bal _ _ _ _ HI p).
  pose proof (cnt_nonneg "overflow" p (Conc.trace cf)). pose proof (pend_upto_nonneg p (Conc.shared cf) a (List.length (g_recs (Conc.shared cf)))).
  unfold pend. lia.
Qed.

Corollary hp_dispose_once c ths cf :
  Conc.reach (init_cfg c ths) cf -> retire_once (Conc.trace cf) ->
  forall p, (cnt "dispose" p (Conc.trace cf) <= 1)%Z.
Proof. intros H Hr p. pose proof (hp_dispose_at_most_once _ _ _ H p). specialize (Hr p). lia. Qed.

(** ** C03 (HP), third sentence.
    Every cell a scan leaves in the retired array (the [kept] list of its [g_scan_end] event) was read from some
    hazard slot at some step of that scan.  The cells the scan examined are exactly freed ++ kept as multisets
    ([classic_split], [inplace_split]); so a retired object in the scanner's array that no guard holds at any
    step of the pass is given to its disposer by that pass. *)
Theorem hp_scan_frees_unguarded c ths cf :
  Conc.reach (init_cfg c ths) cf ->
  forall e t r kept s,
    nth_error (Conc.trace cf) e = Some (t, ev_scan_end r kept) ->
    last_sb (firstn e (Conc.trace cf)) t = Some s ->
    forall p, In p kept -> seen_in (Conc.trace cf) s e p.
Proof. intros H. destruct (reach_inv _ _ _ H) as (a & HI). exact (i_kept _ _ _ _ HI). Qed.

(** ** C01, second sentence: the part that is about the SMR scheme.
    Whatever a scan gives to the disposer had been passed to retire() before that scan began ... *)
Theorem hp_dispose_after_retire c ths cf :
  Conc.reach (init_cfg c ths) cf ->
  forall d t p, nth_error (Conc.trace cf) d = Some (t, ev_dispose p) ->
    exists s, last_sb (firstn d (Conc.trace cf)) t = Some s /\ retired_before (Conc.trace cf) s p.
Proof. intros H. destruct (reach_inv _ _ _ H) as (a & HI). exact (i_pre _ _ _ _ HI). Qed.

(** ... hence: if an object is disposed at step [d] although hazard slot (r,j) has held it at every step from
    [g0] to [d], then the object had already been retired before [g0], i.e. before the guard was set.
    (A guard that is set, by protect's load / store / re-load validation or by copying a guarded pointer, while
    the object is still reachable from the validated source cannot come after retire() if the client retires
    objects only after unlinking them: that last step is the client discipline of [hp_guarded_ptr_live_statement].) *)
Theorem hp_guard_set_after_retire c ths cf :
  Conc.reach (init_cfg c ths) cf ->
  forall d t p g0 r j,
    nth_error (Conc.trace cf) d = Some (t, ev_dispose p) -> p <> 0%Z ->
    (cInplace c = true -> retire_once (firstn d (Conc.trace cf))) ->
    held (firstn (S d) (Conc.trace cf)) g0 r j p ->
    retired_before (Conc.trace cf) g0 p.
Proof.
  intros H d t p g0 r j Hd Hp Hro Hh.
  destruct (hp_dispose_after_retire _ _ _ H d t p Hd) as (s & Hs & Hr).
  destruct (Nat.le_gt_cases g0 s) as [Hle|Hgt].
  - exfalso. apply (hp_no_dispose_while_guarded _ _ _ H d t p s Hd Hs Hro Hp r j).
    eapply held_weaken; [exact Hle|exact Hh].
  - eapply retired_before_mono; [|exact Hr]. lia.
Qed.

(** ** the retired arrays never overflow under the documented preconditions:
    at most P records in thread_list_ (at most P threads ever attached at the same time is NOT enough in general,
    see the report: help_scan can hold a second record; the hypothesis is on the list itself), capacity R > H*P,
    no object retired twice.  [ovf_cond] is evaluated in the configuration reached (the list only grows). *)
Theorem hp_no_overflow c ths cf :
  Conc.reach (init_cfg c ths) cf ->
  List.length (g_list (Conc.shared cf)) <= cP c -> cH c * cP c < cR c -> retire_once (Conc.trace cf) ->
  forall p, cnt "overflow" p (Conc.trace cf) = 0%Z.
Proof.
  intros H H1 H2 H3. destruct (reach_inv _ _ _ H) as (a & HI). apply (i_noovf _ _ _ _ HI). repeat split; assumption.
Qed.

(** ** second sentence: reduction of the full statement to three facts about the client's guard.
    If, for the guard in question, (a) slot (r,j) has held [p] from some step [g0] up to the step [v] at which
    protect returned, (b) [p] had not been passed to retire() before [g0], (c) nothing is stored into slot (r,j)
    between [v] and a disposer call on [p] at [d] -- then that disposer call cannot exist. *)
Definition slot_write (r j : nat) (e : ev) : bool :=
  match e with
  | EvCli n [a; b; _] => (String.eqb n "g_slot" && (Z.eqb a (zn r) && Z.eqb b (zn j)))%bool
  | _ => false
  end.

Lemma slot_upd_nowrite r j e cur : slot_write r j e = false -> slot_upd r j e cur = cur.
Proof.
  destruct e as [k o b|n args]; [reflexivity|]. cbn. destruct args as [|x [|y [|z [|w rest]]]]; try reflexivity.
  intros ->. reflexivity.
Qed.

Lemma slot_at_firstn_S (tr : trace) i te r j :
  nth_error tr i = Some te -> slot_at (firstn (S i) tr) r j = slot_upd r j (snd te) (slot_at (firstn i tr) r j).
Proof.
  intros H. assert (E : firstn (S i) tr = firstn i tr ++ [te]).
  { revert tr H. induction i as [|i IH]; intros [|x tr] H; cbn in *; try discriminate.
    - inversion H; reflexivity.
    - f_equal. now apply IH. }
  rewrite E. apply slot_at_snoc.
Qed.

Lemma slot_at_nowrites (tr : trace) r j n : forall k,
  (forall i te, n <= i < n + k -> nth_error tr i = Some te -> slot_write r j (snd te) = false) ->
  slot_at (firstn (n + k) tr) r j = slot_at (firstn n tr) r j.
Proof.
  induction k as [|k IH]; intros H; [now rewrite Nat.add_0_r|].
  rewrite Nat.add_succ_r. destruct (nth_error tr (n + k)) as [te|] eqn:E.
  - rewrite (slot_at_firstn_S tr (n + k) te r j E). rewrite slot_upd_nowrite by (eapply H; [|exact E]; lia).
    apply IH. intros i te' Hi. apply H. lia.
  - apply nth_error_None in E. rewrite !firstn_all2 by lia.
    rewrite <- (firstn_all2 tr (n:=n + k)) at 1 by lia. apply IH. intros i te' Hi. apply H. lia.
Qed.

Lemma held_extend (tr : trace) g0 r j p n m :
  held (firstn n tr) g0 r j p -> g0 <= n -> n <= m -> n <= List.length tr ->
  (forall i te, n <= i < m -> nth_error tr i = Some te -> slot_write r j (snd te) = false) ->
  held (firstn m tr) g0 r j p.
Proof.
  intros Hh Hg Hnm Hn Hw i Hi. rewrite firstn_length in Hi.
  rewrite firstn_firstn. replace (Nat.min i m) with i by lia.
  destruct (Nat.le_gt_cases i n) as [Hle|Hgt].
  - specialize (Hh i). rewrite firstn_length, firstn_firstn in Hh. replace (Nat.min i n) with i in Hh by lia.
    apply Hh. lia.
  - replace i with (n + (i - n)) by lia. rewrite slot_at_nowrites.
    + specialize (Hh n). rewrite firstn_length, firstn_firstn in Hh. replace (Nat.min n n) with n in Hh by lia.
      apply Hh. lia.
    + intros i' te Hi' E. eapply Hw; [|exact E]. lia.
Qed.

Theorem hp_guarded_ptr_live_from_slot_facts c ths cf :
  Conc.reach (init_cfg c ths) cf ->
  forall v d t p g0 r j,
    v < d -> p <> 0%Z ->
    (cInplace c = true -> retire_once (firstn d (Conc.trace cf))) ->
    nth_error (Conc.trace cf) d = Some (t, ev_dispose p) ->
    (* (a) *) g0 <= S v -> held (firstn (S v) (Conc.trace cf)) g0 r j p ->
    (* (b) *) ~ retired_before (Conc.trace cf) g0 p ->
    (* (c) *) (forall i te, S v <= i < S d -> nth_error (Conc.trace cf) i = Some te -> slot_write r j (snd te) = false) ->
    False.
Proof.
  intros H v d t p g0 r j Hvd Hp Hro Hd Hg Hheld Hnr Hnw.
  apply Hnr. eapply (hp_guard_set_after_retire c ths cf H d t p g0 r j Hd Hp Hro).
  eapply held_extend; [exact Hheld|exact Hg|lia| |exact Hnw].
  assert (d < List.length (Conc.trace cf)) by (apply nth_error_Some; congruence). lia.
Qed.
