(** * HP: the invariant holds in every reachable configuration; the trace theorems of C01 / C03 (HP half). *)
From Coq Require Import ZArith List String Bool Lia PeanoNat.
From LV Require Import Base.Conc Base.Events Model.Hp Proofs.HpTrace Proofs.HpInv Proofs.HpSteps Proofs.HpLocal
  Proofs.HpSafe.
Import ListNotations.
Local Open Scope string_scope.
Local Open Scope list_scope.

Lemma inv_init c : Inv c (init c) aux0 [].
Proof.
  assert (Hg : forall r, get_rec (init c) r = dead_rec) by (intros r; unfold get_rec, init; cbn; now destruct r).
  apply mkInv; cbn.
  - intros r j. unfold gslot. now rewrite Hg.
  - intros r j _. unfold gslot. now rewrite Hg.
  - intros r j _. unfold gslot. now rewrite Hg.
  - intros r j _. unfold gslot. now rewrite Hg.
  - intros r [].
  - intros t r H. discriminate.
  - intros t r [].
  - intros t t' r [H|[]]. discriminate.
  - intros t. split; [constructor|]. intros r H. discriminate.
  - intros t r j H. discriminate.
  - intros r H. lia.
  - intros t r [].
  - intros t cl [].
  - intros t. constructor.
  - intros r x H. discriminate.
  - intros p. reflexivity.
  - intros t sv H. discriminate.
  - intros d t p s H. destruct d; discriminate.
  - intros e t r kept s H. destruct e; discriminate.
  - intros t _. split; reflexivity.
  - intros r p H. destruct r; cbn in H; destruct H.
  - intros t sv r s H. discriminate.
  - intros d t p H. destruct d; discriminate.
Qed.

Lemma init_ok c ths : Conc.cfg_ok view (Inv c) (init_cfg c ths).
Proof.
  exists aux0. split; [apply inv_init|].
  intros t p Hp. cbn [init_cfg Conc.threads] in Hp. rewrite nth_error_map in Hp.
  destruct (nth_error ths t); inversion Hp; subst. apply safe_thread.
Qed.

Lemma reach_inv c ths cf : Conc.reach (init_cfg c ths) cf -> exists a, Inv c (Conc.shared cf) a (Conc.trace cf).
Proof. intros H. eapply Conc.reach_Inv; [apply init_ok|exact H]. Qed.

(** ** C01, first sentence.
    For every configuration, every client program, every schedule: if the event at index [d] of the trace is a
    call of the disposer on [p] by thread [t], and [s] is the index of the fetch_add that opened the scan of [t]
    this call belongs to (its last [g_scan_begin] before [d]), then no hazard slot (r,j) held [p] at every step
    from [s] to [d].  ([held] for an earlier start is stronger, so the same holds for every earlier [s].)
    With the in-place scan the client must not retire an object twice ([retire_once]): the in-place scan marks
    one of two equal cells only, see [inplace_double_retire] in Properties_C01. *)
Theorem hp_no_dispose_while_guarded c ths cf :
  Conc.reach (init_cfg c ths) cf ->
  forall d t p s,
    nth_error (Conc.trace cf) d = Some (t, ev_dispose p) ->
    last_sb (firstn d (Conc.trace cf)) t = Some s ->
    (cInplace c = true -> retire_once (firstn d (Conc.trace cf))) ->
    p <> 0%Z ->
    forall r j, ~ held (firstn (S d) (Conc.trace cf)) s r j p.
Proof. intros H. destruct (reach_inv _ _ _ H) as (a & HI). exact (i_safe _ _ _ _ HI). Qed.

(** ** C03 (HP): no object is given to its disposer more often than it was passed to retire() *)
Theorem hp_dispose_at_most_once c ths cf :
  Conc.reach (init_cfg c ths) cf ->
  forall p, (cnt "dispose" p (Conc.trace cf) <= cnt "retire" p (Conc.trace cf))%Z.
Proof.
  intros H p. destruct (reach_inv _ _ _ H) as (a & HI). rewrite (i_bal _ _ _ _ HI p).
  pose proof (cnt_nonneg "overflow" p (Conc.trace cf)). pose proof (pend_upto_nonneg p (Conc.shared cf) a (List.length (g_recs (Conc.shared cf)))).
  unfold pend. lia.
Qed.

Corollary hp_dispose_once c ths cf :
  Conc.reach (init_cfg c ths) cf -> retire_once (Conc.trace cf) ->
  forall p, (cnt "dispose" p (Conc.trace cf) <= 1)%Z.
Proof. intros H Hr p. pose proof (hp_dispose_at_most_once _ _ _ H p). specialize (Hr p). lia. Qed.

(** ** C03 (HP), third sentence.
    Every cell a scan leaves in the retired array (the [kept] list of its [g_scan_end] event) was read from some
    hazard slot at some step of that scan.  The cells the scan examined are exactly freed ++ kept as multisets
    ([classic_split], [inplace_split]); so a retired object in the scanner's array that no guard holds at any
    step of the pass is given to its disposer by that pass. *)
Theorem hp_scan_frees_unguarded c ths cf :
  Conc.reach (init_cfg c ths) cf ->
  forall e t r kept s,
    nth_error (Conc.trace cf) e = Some (t, ev_scan_end r kept) ->
    last_sb (firstn e (Conc.trace cf)) t = Some s ->
    forall p, In p kept -> seen_in (Conc.trace cf) s e p.
Proof. intros H. destruct (reach_inv _ _ _ H) as (a & HI). exact (i_kept _ _ _ _ HI). Qed.

(** ** C01, second sentence: the part that is about the SMR scheme.
    Whatever a scan gives to the disposer had been passed to retire() before that scan began ... *)
Theorem hp_dispose_after_retire c ths cf :
  Conc.reach (init_cfg c ths) cf ->
  forall d t p, nth_error (Conc.trace cf) d = Some (t, ev_dispose p) ->
    exists s, last_sb (firstn d (Conc.trace cf)) t = Some s /\ retired_before (Conc.trace cf) s p.
Proof. intros H. destruct (reach_inv _ _ _ H) as (a & HI). exact (i_pre _ _ _ _ HI). Qed.

(** ... hence: if an object is disposed at step [d] although hazard slot (r,j) has held it at every step from
    [g0] to [d], then the object had already been retired before [g0], i.e. before the guard was set.
    (A guard that is set, by protect's load / store / re-load validation or by copying a guarded pointer, while
    the object is still reachable from the validated source cannot come after retire() if the client retires
    objects only after unlinking them: that last step is the client discipline of [hp_guarded_ptr_live_statement].) *)
Theorem hp_guard_set_after_retire c ths cf :
  Conc.reach (init_cfg c ths) cf ->
  forall d t p g0 r j,
    nth_error (Conc.trace cf) d = Some (t, ev_dispose p) -> p <> 0%Z ->
    (cInplace c = true -> retire_once (firstn d (Conc.trace cf))) ->
    held (firstn (S d) (Conc.trace cf)) g0 r j p ->
    retired_before (Conc.trace cf) g0 p.
Proof.
  intros H d t p g0 r j Hd Hp Hro Hh.
  destruct (hp_dispose_after_retire _ _ _ H d t p Hd) as (s & Hs & Hr).
  destruct (Nat.le_gt_cases g0 s) as [Hle|Hgt].
  - exfalso. apply (hp_no_dispose_while_guarded _ _ _ H d t p s Hd Hs Hro Hp r j).
    eapply held_weaken; [exact Hle|exact Hh].
  - eapply retired_before_mono; [|exact Hr]. lia.
Qed.
