(** * signal_buffered: the membar hook and the delivery pseudo-thread touch neither the gp state nor buffer / epoch;
      the theorems of the buffered development apply. *)
From Coq Require Import ZArith List String Bool Lia PeanoNat.
From LV Require Import Base.Conc Base.Events Model.RcuGp Model.RcuBuf Model.RcuSignal Proofs.RcuGpInv Proofs.RcuGpExtra
  Proofs.RcuBufInv Proofs.RcuBufSafe Proofs.RcuBufProd.
Import ListNotations.
Local Open Scope string_scope.
Local Open Scope list_scope.
Local Open Scope Z_scope.

Ltac sig_act :=
  let g := fresh "g" in
  intros g; cbv beta delta [a_head_ld a_tid_ld a_mb_st a_mb_ld a_deliver acc];
  repeat match goal with |- context [match ?c with _ => _ end] => destruct c end;
  cbn; first [ (split; [repeat split; reflexivity|eexists; split; [reflexivity|split; [apply plain_acc|reflexivity]]])
             | (repeat (split; [reflexivity|]); eexists _, _, _; reflexivity) ].

Lemma both_mb_send l : core (mb_send l) /\ gpn (mb_send l).
Proof.
  induction l as [|m r (IH1 & IH2)]; cbn [mb_send core gpn]; [split; exact I|].
  split; (split; [sig_act|]); intros x; destruct (vz x =? 0); cbn [core gpn]; auto; (split; [sig_act|]); intros _; assumption.
Qed.

Lemma both_mb_wait_rec fuel m : core (mb_wait_rec fuel m) /\ gpn (mb_wait_rec fuel m).
Proof.
  induction fuel as [|f (IH1 & IH2)]; cbn [mb_wait_rec core gpn]; [split; exact I|].
  split; (split; [sig_act|]); intros x; destruct (vz x =? 0); cbn [core gpn]; auto;
    (split; [sig_act|]); intros b; destruct (vz b =? 0); cbn [core gpn]; auto.
Qed.

Lemma both_mb_wait fuel l : core (mb_wait fuel l) /\ gpn (mb_wait fuel l).
Proof.
  induction l as [|m r (IH1 & IH2)]; cbn [mb_wait core gpn]; [split; exact I|].
  destruct (both_mb_wait_rec fuel m) as (W1 & W2).
  split; (split; [sig_act|]); intros x; destruct (vz x =? 0); auto.
  - apply core_bind; [exact W1|]. intros [|]; cbn [core]; auto.
  - apply gpn_bind; [exact W2|]. intros [|]; cbn [gpn]; auto.
Qed.

Lemma both_force_membar fuel : core (force_membar fuel) /\ gpn (force_membar fuel).
Proof.
  unfold force_membar. cbn [core gpn]. split; (split; [sig_act|]); intros v.
  - apply core_bind; [apply both_mb_send|]. intros _. cbn [core]. split; [sig_act|]. intros v'. apply both_mb_wait.
  - apply gpn_bind; [apply both_mb_send|]. intros _. cbn [gpn]. split; [sig_act|]. intros v'. apply both_mb_wait.
Qed.

Lemma both_kernel fuel : core (kernel fuel) /\ gpn (kernel fuel).
Proof.
  induction fuel as [|f (IH1 & IH2)]; cbn [kernel core gpn]; [split; exact I|].
  split; (split; [sig_act|]); intros _; assumption.
Qed.

Section Shb.
  Variables (sfuel rf kfuel : nat) (cap : Z) (cnt : bool) (ths : list (list bop)) (c : Conc.config G V ev).
  Hypothesis Hr : Conc.reach (sinit_cfg sfuel rf kfuel cap cnt ths) c.

  Lemma shb_extra12 : Forall (fun p : Conc.thread G V ev => core p /\ gpn p) [kernel kfuel].
  Proof. constructor; [apply both_kernel|constructor]. Qed.
  Lemma shb_extra : Forall (@core unit) [kernel kfuel].
  Proof. constructor; [apply both_kernel|constructor]. Qed.

  Theorem shb_synchronize_waits_all : sync_waits (Conc.trace c).
  Proof. eapply x_sync_waits; [apply both_force_membar|apply both_force_membar|apply shb_extra12|exact Hr]. Qed.

  Theorem shb_dispose_safe_all : dispose_safe (Conc.trace c).
  Proof. eapply x_dispose_safe; [apply both_force_membar|apply both_force_membar|apply shb_extra12|exact Hr]. Qed.

  Theorem shb_dispose_at_most_once_all : forall p, (ndisp p (Conc.trace c) <= nret p (Conc.trace c))%nat.
  Proof. eapply x_dispose_at_most_once; [apply both_force_membar|apply shb_extra|exact Hr]. Qed.

  Theorem shb_destruct_drains_all : all_done (List.length ths) (Conc.trace c) ->
    forall n p, ndisp p (full_trace n c) = nret p (full_trace n c).
  Proof. eapply x_destruct_drains; [apply both_force_membar|apply shb_extra|exact Hr]. Qed.
End Shb.
