(** * SkipListFullActs2: the level-0 CASes (linearization points of the updates, helping of failed erases), the client
      events and node allocation against [Inv2]. *)
From Coq Require Import ZArith List String Bool Lia PeanoNat.
From LV Require Import Base.Conc Base.Events Base.Lin Spec.Specs Proofs.LinProofs.
From LV Require Import Model.SkipList Proofs.SkipListProofs Proofs.SkipListLin Proofs.SkipListFullInv Proofs.SkipListFullActs.
From LV Require Proofs.MichaelListInv Proofs.MichaelListLin Proofs.MichaelListFullInv.
Import ListNotations.
Local Open Scope Z_scope.

Lemma IS_atr g a t pub L lv atr atr' : IS g (mk_a a t pub L lv atr) -> IS g (mk_a a t pub L lv atr').
Proof. intros [h1 h2 h3 h4 h5 h6 h7 h8 h9]. constructor; auto. Qed.

Section WithNodes.
Variable nodes : cfg0.
Local Notation SAFE := (SAFE nodes).

(** level-0 link CAS of insert_at_position: the linearization point of a successful insert *)
Lemma S_cas0_link {R} t pred succ new key (k : V -> prog R) lv :
  known2 lv pred -> vown (fst lv) = Some (new, (succ, false)) -> below key pred -> key_of new = key ->
  MF.open_read (vst (fst lv)) (SInsert key) -> xwatch (snd lv) = None ->
  (forall cur, SAFE t (k (VC false cur)) (ld1 0 cur lv)) ->
  SAFE t (k (VC true (succ, false)))
       (mkLV (new :: vkn (fst lv)) (vfz (fst lv)) None (vser (fst lv)) (@Linearized SetSpec (SInsert key) (RBool true)), snd lv) ->
  SAFE t (Act (a_cas_next pred 0 (succ, false) (new, false)) k) lv.
Proof.
  intros Hk Ho Hb Hkey Hst Hwn Hfail Hok. subst key. apply S_act. intros g a tr Hi Hv. pose proof Hi as (Hs & He & Hil). unfold a_cas_next.
  destruct (mp_eqb (nxt g pred 0) (succ, false)) eqn:E; cbn [fst snd].
  2:{ exists (apub (b_base a)), (aL (b_base a)), (ld1 0 (nxt g pred 0) lv), (aatr (b_base a)), (b_wl a). split; [now apply cas_fail_step|apply Hfail]. }
  apply mp_eqb_eq in E. rewrite E.
  pose proof (ok2_view g a t Hs He) as [O1 O2]. rewrite Hv in O1, O2.
  pose proof O1 as (K & F & O & Fr). pose proof O as O'. rewrite Ho in O'. destruct O' as (W1 & W2 & W3 & W4).
  assert (Hp : pred = head \/ apub (b_base a) pred = true).
  { destruct Hk as [->|Hk]; [now left|right]. rewrite Forall_forall in K. auto. }
  assert (Hl : lnk 0 pred new).
  { right. split; [exact W1|]. destruct Hb as [->|(B1 & B2)]; [now left|right]. split; [exact B1|lia]. }
  set (lv' := (mkLV (new :: vkn (fst lv)) (vfz (fst lv)) None (vser (fst lv)) (@Linearized SetSpec (SInsert (key_of new)) (RBool true)), snd lv)).
  set (pub' := fun n => Nat.eqb n new || apub (b_base a) n).
  change (mkG (upd2 (nxt g) pred 0 (new, false)) (unl g) (hgt_of g) (hgt g) (cnt g)) with (setnx g pred 0 (new, false)).
  set (g' := setnx g pred 0 (new, false)).
  assert (Npred : new <> pred) by (intros ->; destruct Hp as [Ep|Ep]; [unfold isnode, head in *; lia|congruence]).
  assert (Hpub : forall n, apub (b_base a) n = true -> pub' n = true) by (intros n En; unfold pub'; rewrite En; apply orb_true_r).
  assert (Hpn : forall n, pub' n = true -> apub (b_base a) n = false -> n = new).
  { intros n E1 E2. unfold pub' in E1. rewrite E2, orb_false_r in E1. now apply Nat.eqb_eq in E1. }
  assert (Hv' : lv_ok g' pub' t (fst lv')).
  { split; [|split; [|split]]; cbn [vkn vfz vown vser lv' fst].
    - constructor; [unfold pub'; now rewrite Nat.eqb_refl|]. eapply Forall_impl; [|exact K]. intros n En. auto.
    - rewrite Forall_forall in *. intros [c nx] Hin. destruct (F _ Hin) as (F1 & F2). cbn [fst snd] in *.
      split; [auto|]. unfold g'. rewrite setnx_other0; [exact F2|]. intros ->. rewrite E in F2. discriminate.
    - exact Logic.I.
    - intros n H1 H2 H3. destruct (Fr n H1 H2 H3) as [F1 F2]. split; [|discriminate].
      unfold pub'. rewrite F1, orb_false_r. apply Nat.eqb_neq. intros ->. eapply F2; eauto. }
  assert (Hown : vown (view (b_base a) t) = Some (new, (succ, false))) by (cbn [view2] in Hv; rewrite <- Hv in Ho; exact Ho).
  destruct (IS_link g (b_base a) t pred succ new (fst lv') [] Hs Hp E Hown Hl Hv') as (L' & HIS0 & HL').
  assert (Hx' : x_ok g' pub' t lv').
  { destruct O2 as (X1 & X2 & X3 & X4 & X5). split; [|split; [|split; [|split]]]; cbn [lv' fst snd].
    - intros d Hd. congruence.
    - eapply Forall_impl; [|exact X2]. intros [q l] (A & B). cbn [fst snd] in *. auto.
    - eapply Forall_impl; [|exact X3]. intros [c l] (A & B & C). cbn [fst snd] in *. repeat split; auto.
      unfold g'. rewrite setnx_other; [exact C|]. intros X. inversion X; subst. lia.
    - eapply Forall_impl; [|exact X4]. intros [q l] (A & B). cbn [fst snd] in *. auto.
    - intros n h En. destruct (X5 n h En) as (Y1 & Y2 & Y3 & Y4). repeat split; auto. left.
      destruct Y4 as [Y4|(v0 & Y4)]; [auto|]. rewrite Ho in Y4. inversion Y4; subst. unfold pub'. now rewrite Nat.eqb_refl. }
  destruct (inv_step2x nodes g g' a t pub' L' lv' (b_wl a) tr (Conc.tag t [EvAcc KCas (o_next pred 0) true])) as (atr' & Hinv).
  - intros atr'. split; [cbn [b_base mk_a2]; eapply IS_atr; exact HIS0|].
    apply EX_cell; [exact He|exact Hpub| |right; apply (e_hof _ _ He)|intros X; lia|intros _ X; discriminate|exact Hx'| |apply incl_refl].
    + intros n E1 E2. rewrite (Hpn n E1 E2). fold g'. unfold g'. rewrite setnx_other0 by exact Npred. now rewrite W4.
    + intros Hw. cbn [lv' snd] in Hw. congruence.
  - intros Hi2. apply (IL2_lp nodes g g' a t pub' L' lv' (b_wl a) tr KCas (o_next pred 0) true (SInsert (key_of new)) Hi2 He).
    + rewrite Hv. exact Hst.
    + reflexivity.
    + reflexivity.
    + intros n Hn. unfold g'. destruct (Nat.eq_dec n pred) as [->|Np]; [now rewrite setnx_same, E|now rewrite setnx_other0].
    + intros S HS.
      assert (Nin : ~ In new (aL (b_base a))) by (intros X; apply (s_Lpub _ _ Hs) in X; congruence).
      destruct (abs_link g (b_base a) pred succ new S L' Hs E W4 Npred Nin HS HL') as [A1 A2].
      * intros L0 W0 _. apply (walk_sorted _ (s_I _ _ HIS0) L0 head (or_introl eq_refl) W0).
      * apply (s_walk _ _ HIS0).
      * cbn [set_step]. rewrite A2. cbn [fst snd]. split; [exact A1|]. unfold stof. cbn [lv' fst snd]. now rewrite Hwn.
  - exact Hil.
  - exists pub', L', lv', atr', (b_wl a). split; [exact Hinv|exact Hok].
Qed.

(** level-0 mark CAS of try_remove_at: the linearization point of a successful erase and of the failed erases that watch
    the node; a failed CAS that finds the node marked by somebody else learns that the own erase was linearized *)
Lemma S_cas0_mark {R} t del p key h (k : V -> prog R) lv :
  In del (vkn (fst lv)) -> key_of del = key -> snd p = false -> lnk 0 del (fst p) ->
  MF.open_read (vst (fst lv)) (SErase key) -> xwatch (snd lv) = Some del ->
  In (del, h) (xhe (snd lv)) -> (forall l, (1 <= l < h)%nat -> In (del, l) (xfzu (snd lv))) ->
  (forall cur, lnk 0 del (fst cur) ->
     SAFE t (k (VC false cur))
       (if snd cur then set_st2 (ld1 0 cur lv) (@Linearized SetSpec (SErase key) (RBool false)) None else ld1 0 cur lv)) ->
  SAFE t (k (VC true p))
       (mkLV (vkn (fst lv)) ((del, fst p) :: vfz (fst lv)) (vown (fst lv)) (vser (fst lv)) (@Linearized SetSpec (SErase key) (RBool true)),
        set_watch (snd lv) None) ->
  SAFE t (Act (a_cas_next del 0 p (fst p, true)) k) lv.
Proof.
  intros Hk Hkey Hm Hl Hst Hwt Hhe Hfz Hfail Hok. subst key. apply S_act. intros g a tr Hi Hv. pose proof Hi as (Hs & He & Hil). unfold a_cas_next.
  pose proof (ok2_view g a t Hs He) as Hok2. rewrite Hv in Hok2. pose proof Hok2 as [O1 O2].
  pose proof O1 as (K & F & O & Fr).
  assert (Hp : apub (b_base a) del = true) by (rewrite Forall_forall in K; auto).
  destruct (mp_eqb (nxt g del 0) p) eqn:E; cbn [fst snd].
  2:{ set (c := nxt g del 0). destruct (same_ld1 0 c lv) as [V1 V2]. pose proof (ok2_ld1 g a t del 0%nat lv Hs He Hok2) as [Q1 Q2]. fold c in Q1, Q2.
      exists (apub (b_base a)), (aL (b_base a)),
        (if snd c then set_st2 (ld1 0 c lv) (@Linearized SetSpec (SErase (key_of del)) (RBool false)) None else ld1 0 c lv),
        (aatr (b_base a)), (b_wl a).
      split; [|apply Hfail; apply (s_I _ _ Hs)]. destruct (snd c) eqn:Ec; [|now apply cas_fail_step].
      eapply inv_step2; [| | |exact Hil].
      - cbn [b_base mk_a2 set_st2 fst]. apply (IS_view g g (b_base a) t _ (aatr (b_base a)) Hs eq_refl (s_HB _ _ Hs)). now apply lv_ok_set.
      - apply (EX_view g); auto using incl_refl; [|cbn; congruence]. apply x_ok_set; [exact Q2|discriminate].
      - intros Hi2. apply IL2_keep with (g := g); auto.
        + rewrite Hv. unfold stof. cbn [set_st2 set_watch set_st snd fst xwatch vst]. rewrite Hwt. fold c. now rewrite Ec.
        + rewrite Hv. cbn [set_st2 set_st fst vst]. now rewrite (tgof_open _ _ Hst).
        + rewrite Hv. cbn [set_st2 set_st fst vst]. now rewrite (pinv_of_open _ _ Hst). }
  apply mp_eqb_eq in E. rewrite E.
  assert (Hd : nxt g del 0 = (fst p, false)) by (rewrite E; destruct p; cbn in *; congruence).
  assert (HinL : In del (aL (b_base a))) by (apply (s_inL _ _ Hs); [exact Hp|now rewrite Hd]).
  set (lv' := (mkLV (vkn (fst lv)) ((del, fst p) :: vfz (fst lv)) (vown (fst lv)) (vser (fst lv)) (@Linearized SetSpec (SErase (key_of del)) (RBool true)),
               set_watch (snd lv) None)).
  change (mkG (upd2 (nxt g) del 0 (fst p, true)) (unl g) (hgt_of g) (hgt g) (cnt g)) with (setnx g del 0 (fst p, true)).
  set (g' := setnx g del 0 (fst p, true)).
  assert (HIS : forall atr', IS g' (mk_a (b_base a) t (apub (b_base a)) (aL (b_base a)) (fst lv') atr')).
  { intros atr'. apply IS_cell; [exact Hs|exact Hl|apply (s_closed_ptr g (b_base a) del Hs (fst p) Hd)| | | | |].
    + intros _. right. cbn [fst]. now rewrite Hd.
    + intros _ ->. apply (s_node _ _ Hs) in Hp. unfold isnode, head in Hp. lia.
    + intros _ _ X. discriminate.
    + apply lv_ok_others; [exact Hs|intros _; left; now rewrite Hd|intros _; right; left; exact Hp].
    + split; [exact K|]. split; [|split].
      * constructor; [cbn [fst snd]; split; [exact Hp|now rewrite setnx_same]|].
        rewrite Forall_forall in *. intros [c nx] Hin. destruct (F _ Hin) as (F1 & F2). cbn [fst snd] in *. split; [exact F1|].
        rewrite setnx_other0; [exact F2|]. intros ->. rewrite Hd in F2. discriminate.
      * cbn [vown lv' fst]. unfold own_ok in *. destruct (vown (fst lv)) as [[n v]|]; [|exact Logic.I]. destruct O as (W1 & W2 & W3 & W4).
        repeat split; auto. rewrite setnx_other0; [exact W4|]. intros ->. congruence.
      * exact Fr. }
  assert (Hx' : x_ok g' (apub (b_base a)) t lv').
  { destruct O2 as (X1 & X2 & X3 & X4 & X5). split; [|split; [|split; [|split]]]; cbn [lv' fst snd set_watch xwatch xhl xfzu xhe xoh vown].
    - intros d Hd'. discriminate.
    - exact X2.
    - eapply Forall_impl; [|exact X3]. intros [c l] (A & B & C). cbn [fst snd] in *. repeat split; auto.
      unfold g'. rewrite setnx_other; [exact C|]. intros X. inversion X; subst. lia.
    - exact X4.
    - exact X5. }
  destruct (inv_step2x nodes g g' a t (apub (b_base a)) (aL (b_base a)) lv' (b_wl a) tr (Conc.tag t [EvAcc KCas (o_next del 0) true])) as (atr' & Hinv).
  - intros atr'. split; [cbn [b_base mk_a2]; apply HIS|].
    apply EX_cell; [exact He|auto|intros n E1 E2; congruence| |intros X; lia| |exact Hx'|cbn; congruence|apply incl_refl].
    + cbn [fst]. pose proof (e_h1 _ _ He del 0%nat) as X. now rewrite Hd in X.
    + intros _ _ _ l' Hl'. destruct O2 as (_ & _ & X3 & X4 & _). rewrite Forall_forall in X3, X4.
      destruct (X4 _ Hhe) as [_ Xh]. cbn [fst snd] in Xh. rewrite Xh in Hl'.
      destruct (X3 _ (Hfz l' Hl')) as (_ & _ & Xm). exact Xm.
  - intros Hi2. apply (IL2_mark nodes g a t del (fst p) lv' (b_wl a) tr KCas (o_next del 0) true Hs Hi2 He); auto.
    rewrite Hv. exact Hst.
  - exact Hil.
  - exists (apub (b_base a)), (aL (b_base a)), lv', atr', (b_wl a). split; [exact Hinv|exact Hok].
Qed.

(** level-0 unlink CAS (help_remove / try_remove_at): a marked node leaves the chain, the abstract set is unchanged *)
Lemma S_cas0_unlink {R} t pred cur succ (k : V -> prog R) lv :
  known2 lv pred -> In (cur, succ) (vfz (fst lv)) -> lnk 0 pred succ ->
  (forall ok c, lnk 0 pred (fst c) -> SAFE t (k (VC ok c)) (ld1 0 c lv)) ->
  SAFE t (Act (a_cas_next pred 0 (cur, false) (succ, false)) k) lv.
Proof.
  intros Hk Hfz Hl H. apply S_act. intros g a tr Hi Hv. pose proof Hi as (Hs & He & Hil). unfold a_cas_next.
  destruct (mp_eqb (nxt g pred 0) (cur, false)) eqn:E; cbn [fst snd].
  2:{ exists (apub (b_base a)), (aL (b_base a)), (ld1 0 (nxt g pred 0) lv), (aatr (b_base a)), (b_wl a). split; [now apply cas_fail_step|apply H; apply (s_I _ _ Hs)]. }
  apply mp_eqb_eq in E. rewrite E.
  pose proof (ok2_view g a t Hs He) as Hok2. rewrite Hv in Hok2. pose proof Hok2 as [O1 O2].
  pose proof O1 as (K & F & O & Fr).
  rewrite Forall_forall in F. destruct (F _ Hfz) as (Hpc & Hcur). cbn [fst snd] in *.
  assert (Hp : pred = head \/ apub (b_base a) pred = true).
  { destruct Hk as [->|Hk]; [now left|right]. rewrite Forall_forall in K. auto. }
  assert (Nc : cur <> null) by (apply (s_node _ _ Hs) in Hpc; unfold isnode, null in *; lia).
  change (mkG (upd2 (nxt g) pred 0 (succ, false)) (unl g) (hgt_of g) (hgt g) (cnt g)) with (setnx g pred 0 (succ, false)).
  set (g' := setnx g pred 0 (succ, false)).
  set (lv' := ld1 0 (cur, false) lv). destruct (same_ld1 0 (cur, false) lv) as [V1 V2]. fold lv' in V1, V2.
  assert (Hv' : lv_ok g' (apub (b_base a)) t (fst lv')).
  { unfold lv', ld1, addhl. cbn [fst]. destruct (Nat.eqb cur null); cbn [fst addkn2]; (apply lv_ok_addkn; [|now right]);
    (apply lv_ok_stable with (pub := apub (b_base a)); auto; [congruence| |]).
    - intros _ c nx Hin ->. destruct (frozen_marked _ _ _ _ _ _ O1 Hin) as [X _]. rewrite E in X. discriminate.
    - intros _ v X. unfold own_ok in O. rewrite X in O. destruct O as (W1 & W2 & _).
      destruct Hp as [->|Hp]; [unfold isnode, head in *; lia|congruence].
    - intros _ c nx Hin ->. destruct (frozen_marked _ _ _ _ _ _ O1 Hin) as [X _]. rewrite E in X. discriminate.
    - intros _ v X. unfold own_ok in O. rewrite X in O. destruct O as (W1 & W2 & _).
      destruct Hp as [->|Hp]; [unfold isnode, head in *; lia|congruence]. }
  destruct (IS_unlink g (b_base a) t pred cur succ (fst lv') (aatr (b_base a)) Hs Hp E Nc Hcur Hl Hv') as (L' & HIS & HL').
  assert (Hcl : forall n, apub (b_base a) n = true -> snd (nxt g' n 0) = snd (nxt g n 0)).
  { intros n Hn. unfold g'. destruct (Nat.eq_dec n pred) as [->|Np]; [now rewrite setnx_same, E|now rewrite setnx_other0]. }
  exists (apub (b_base a)), L', lv', (aatr (b_base a)), (b_wl a). split; [|apply (H true (cur, false)); rewrite <- E; apply (s_I _ _ Hs)].
  eapply inv_step2; [exact HIS| | |exact Hil].
  - apply EX_cell; [exact He|auto|intros n E1 E2; congruence| |intros X; lia|intros _ X; discriminate| | |apply incl_refl].
    + right. apply (e_hof _ _ He).
    + assert (X : x_ok g (apub (b_base a)) t lv').
      { unfold lv'. pose proof (ok2_ld1 g a t pred 0%nat lv Hs He Hok2) as [_ Q2]. now rewrite E in Q2. }
      eapply x_ok_cell; eauto. intros X1. lia.
    + intros Hw. apply (e_wl _ _ He). rewrite V2, <- Hv in Hw. exact Hw.
  - intros Hi2. apply IL2_keep with (g := g); auto.
    + rewrite Hv. unfold stof. rewrite V1, V2. destruct (xwatch (snd lv)) as [d|] eqn:Ew; [|reflexivity].
      destruct O2 as (X1 & _). destruct (X1 d Ew) as [Hd _]. now rewrite (Hcl d Hd).
    + now rewrite Hv, V1.
    + now rewrite Hv, V1.
    + intros S HS. eapply abs_unlink; eauto.
Qed.

(** ** client events *)
Lemma S_emit_gen {R} t es (k : prog R) lv lv1 :
  (forall g a tr, Inv2 nodes g a tr -> view2 a t = lv ->
     exists atr', Inv2 nodes g (mk_a2 a t (apub (b_base a)) (aL (b_base a)) lv1 atr' (b_wl a)) (tr ++ Conc.tag t es)) ->
  SAFE t k lv1 -> SAFE t (Emit es k) lv.
Proof.
  intros H Hk. unfold SAFE, SkipListFullActs.SAFE. cbn [Conc.safe]. intros g a tr Hi Hv. destruct (H g a tr Hi Hv) as (atr' & H1).
  exists (mk_a2 a t (apub (b_base a)) (aL (b_base a)) lv1 atr' (b_wl a)). split; [exact H1|]. split; [apply frame2_mk|]. now rewrite view2_mk_same.
Qed.

Lemma IS_EX_set g a t lv s atr' :
  IS g (b_base a) -> EX g a -> view2 a t = lv ->
  IS g (b_base (mk_a2 a t (apub (b_base a)) (aL (b_base a)) (set_st2 lv s None) atr' (b_wl a))) /\
  EX g (mk_a2 a t (apub (b_base a)) (aL (b_base a)) (set_st2 lv s None) atr' (b_wl a)).
Proof.
  intros Hs He Hv. pose proof (ok2_view g a t Hs He) as [O1 O2]. rewrite Hv in O1, O2. split.
  - cbn [b_base mk_a2 set_st2 fst]. apply (IS_view g g (b_base a) t _ atr' Hs eq_refl (s_HB _ _ Hs)). now apply lv_ok_set.
  - apply (EX_view g); auto using incl_refl; [|cbn; congruence]. apply x_ok_set; [exact O2|discriminate].
Qed.

Lemma stof_none g lv : xwatch (snd lv) = None -> stof g lv = emap (vst (fst lv)).
Proof. intros H. unfold stof. now rewrite H. Qed.

Lemma views_set (a : aux2) g t lv s atr' (st : nat -> status SetSpec) :
  view2 a t = lv -> (forall u, st u = stof g (view2 a u)) -> emap s = s ->
  forall u, upd st t s u = stof g (view2 (mk_a2 a t (apub (b_base a)) (aL (b_base a)) (set_st2 lv s None) atr' (b_wl a)) u).
Proof.
  intros Hv H Hs u. destruct (Nat.eq_dec u t) as [->|Nu]; [rewrite view2_mk_same, upd_same; unfold stof; cbn; now rewrite Hs|].
  rewrite view2_mk_other by exact Nu. rewrite upd_other by exact Nu. apply H.
Qed.

Lemma vtg_set (a : aux2) t lv s atr' u :
  view2 a t = lv -> vtg (mk_a2 a t (apub (b_base a)) (aL (b_base a)) (set_st2 lv s None) atr' (b_wl a)) u = upd_tg (vtg a) t (tgof s) u.
Proof.
  intros Hv. unfold vtg, upd_tg. destruct (Nat.eqb_spec u t) as [->|Nu]; [now rewrite view2_mk_same|now rewrite view2_mk_other].
Qed.

Lemma pinv_one_inv u t c k : pinv u [(t, EvCli "inv" [c; k])] = if Nat.eqb t u then [(c, k)] else [].
Proof. cbn. destruct (Nat.eqb t u); reflexivity. Qed.

(** the invocation of an operation *)
Lemma S_emit_inv_gen {R} t c key (k : prog R) lv :
  op_code (enc_op c key 0 0) = (c, key) -> (c_noex nodes = true -> cok c = true) -> vst (fst lv) = @Idle SetSpec -> xwatch (snd lv) = None ->
  SAFE t k (set_st2 lv (@Pending SetSpec (enc_op c key 0 0)) None) -> SAFE t (Emit (ev_inv c key) k) lv.
Proof.
  intros Hc Hnx Hst Hw Hk. set (o0 := enc_op c key 0 0) in *. apply S_emit_gen with (lv1 := set_st2 lv (@Pending SetSpec o0) None); [|exact Hk].
  intros g a tr (Hs & He & Hil) Hv. exists (aatr (b_base a) ++ [@AInv SetSpec t o0]).
  destruct (IS_EX_set g a t lv (@Pending SetSpec o0) (aatr (b_base a) ++ [@AInv SetSpec t o0]) Hs He Hv) as [A B].
  split; [exact A|]. split; [exact B|]. destruct Hil as [Hil|Hex]; [left|right; now apply exhausted_app].
  destruct Hil as [(S & st & H1 & H2 & H3) H4 H5 H6]. constructor; cbn [b_base mk_a2 aatr aL mk_a].
  - exists S, (upd st t (@Pending SetSpec o0)). split; [|split; [|exact H3]].
    + rewrite (MI.lp_run_snoc _ _ _ H1). cbn [lp_step]. rewrite H2, Hv, (stof_none g lv Hw), Hst. reflexivity.
    + now apply views_set.
  - unfold ev_inv. cbn [Conc.tag map]. rewrite erase_app, H4. cbn [erase]. rewrite <- app_assoc. f_equal.
    rewrite history_h_snoc by (intros X; discriminate). cbn [hev1h String.eqb Ascii.eqb Bool.eqb]. f_equal.
    + apply history_h_ext. intros u. rewrite (vtg_set a t lv _ _ u Hv). unfold upd_tg, vtg. destruct (Nat.eqb_spec u t) as [->|]; [|reflexivity].
      now rewrite Hv, Hst.
    + unfold vtg. rewrite view2_mk_same. reflexivity.
  - intros u. unfold ev_inv. cbn [Conc.tag map]. rewrite pinv_snoc. cbn [is_res_of String.eqb Ascii.eqb Bool.eqb andb]. rewrite andb_false_r.
    rewrite pinv_one_inv, H5. destruct (Nat.eqb_spec t u) as [<-|Nu].
    + rewrite view2_mk_same, Hv, Hst. cbn [pinv_of set_st2 set_st fst vst app]. now rewrite Hc.
    + rewrite view2_mk_other by congruence. apply app_nil_r.
  - intros Hx u xy. unfold ev_inv. cbn [Conc.tag map]. rewrite pinv_snoc. cbn [is_res_of String.eqb Ascii.eqb Bool.eqb andb]. rewrite andb_false_r.
    rewrite pinv_one_inv. intros Hin. apply in_app_or in Hin. destruct Hin as [Hin|Hin]; [eapply H6; eauto|].
    destruct (Nat.eqb t u); [destruct Hin as [<-|[]]; cbn [fst]; auto|destruct Hin].
Qed.

Lemma S_emit_inv {R} t c key (k : prog R) lv :
  cok c = true -> vst (fst lv) = @Idle SetSpec -> xwatch (snd lv) = None ->
  SAFE t k (set_st2 lv (@Pending SetSpec (sp_op c key)) None) -> SAFE t (Emit (ev_inv c key) k) lv.
Proof.
  intros Hc Hst Hw Hk. rewrite <- (enc_op_cok c key 0 0 Hc) in Hk. apply S_emit_inv_gen; auto.
  rewrite (enc_op_cok c key 0 0 Hc). unfold cok in Hc. unfold sp_op.
  destruct (Z.eqb_spec c 1) as [->|]; [reflexivity|]. destruct (Z.eqb_spec c 6) as [->|]; [reflexivity|].
  destruct (Z.eqb_spec c 10) as [->|]; [reflexivity|discriminate].
Qed.

(** the response of an operation: the status says which result was linearized *)
Lemma S_emit_res_gen {R} t o r o' r' ra b (k : prog R) lv :
  vst (fst lv) = @Linearized SetSpec o r -> xwatch (snd lv) = None -> emap (@Linearized SetSpec o r) = @Linearized SetSpec o' r' ->
  enc_res (fst (op_code o)) ra = r' ->
  enc_op (fst (op_code o)) (snd (op_code o)) ra b =
    enc_op (fst (op_code o)) (snd (op_code o)) (fst (tgof (@Linearized SetSpec o r))) (snd (tgof (@Linearized SetSpec o r))) ->
  SAFE t k (set_st2 lv (@Idle SetSpec) None) -> SAFE t (Emit (ev_res ra b) k) lv.
Proof.
  intros Hst Hw Hem Hres Hop Hk. apply S_emit_gen with (lv1 := set_st2 lv (@Idle SetSpec) None); [|exact Hk].
  intros g a tr (Hs & He & Hil) Hv. exists (aatr (b_base a) ++ [@ARes SetSpec t r']).
  destruct (IS_EX_set g a t lv (@Idle SetSpec) (aatr (b_base a) ++ [@ARes SetSpec t r']) Hs He Hv) as [A B].
  split; [exact A|]. split; [exact B|]. destruct Hil as [Hil|Hex]; [left|right; now apply exhausted_app].
  destruct Hil as [(S & st & H1 & H2 & H3) H4 H5 H6].
  assert (Est : st t = @Linearized SetSpec o' r') by (rewrite H2, Hv, (stof_none g lv Hw), Hst; exact Hem).
  assert (Hpi : pinv t tr = [op_code o]) by (rewrite H5, Hv, Hst; reflexivity).
  set (e := (t, EvCli "res" [ra; b])).
  assert (Hrk : resok (vtg a) tr e).
  { cbn [resok e]. intros _. rewrite Hpi. constructor; [|constructor]. unfold vtg. rewrite Hv, Hst. exact Hop. }
  constructor; cbn [b_base mk_a2 aatr aL mk_a].
  - exists S, (upd st t (@Idle SetSpec)). split; [|split; [|exact H3]].
    + rewrite (MI.lp_run_snoc _ _ _ H1). cbn [lp_step]. rewrite Est, res_eqb_refl. reflexivity.
    + now apply views_set.
  - unfold ev_res. cbn [Conc.tag map]. fold e. rewrite erase_app, H4. cbn [erase]. rewrite <- app_assoc. f_equal.
    assert (Hnp : pinv t (tr ++ [e]) = []) by (rewrite pinv_snoc; cbn [is_res_of e]; rewrite Nat.eqb_refl; reflexivity).
    rewrite (history_h_ext _ _ (fun u => vtg_set a t lv (@Idle SetSpec) _ u Hv)).
    rewrite history_h_nopend by exact Hnp. rewrite history_h_snoc by exact Hrk. f_equal.
    cbn [hev1h e String.eqb Ascii.eqb Bool.eqb]. assert (Hpi2 : pinv t tr = [(fst (op_code o), snd (op_code o))]) by (rewrite Hpi; destruct (op_code o); reflexivity).
    rewrite (pend_after_pinv t _ _ tr (fun _ => 0) Hpi2). now rewrite Hres.
  - intros u. unfold ev_res. cbn [Conc.tag map]. fold e. rewrite pinv_snoc. cbn [is_res_of e pinv String.eqb Ascii.eqb Bool.eqb andb]. rewrite andb_true_r, app_nil_r.
    destruct (Nat.eqb_spec t u) as [<-|Nu]; [now rewrite view2_mk_same|]. rewrite view2_mk_other by congruence. apply H5.
  - intros Hx u xy. unfold ev_res. cbn [Conc.tag map]. fold e. rewrite pinv_snoc. cbn [is_res_of e pinv String.eqb Ascii.eqb Bool.eqb andb]. rewrite andb_true_r, app_nil_r.
    destruct (Nat.eqb t u); [intros []|now apply H6].
Qed.

Lemma S_emit_res {R} t o ra b (k : prog R) lv :
  cok (fst (op_code o)) = true -> vst (fst lv) = @Linearized SetSpec o (RBool (ra =? 1)) -> xwatch (snd lv) = None ->
  SAFE t k (set_st2 lv (@Idle SetSpec) None) -> SAFE t (Emit (ev_res ra b) k) lv.
Proof.
  intros Hc Hst Hw Hk. apply S_emit_res_gen with (o := o) (r := RBool (ra =? 1)) (o' := o) (r' := RBool (ra =? 1)); auto.
  - destruct o; reflexivity.
  - now apply enc_res_cok.
  - now rewrite !(enc_op_cok _ _ _ _ Hc).
Qed.

Lemma S_out_of_fuel {R} t s (k : TL -> prog R) lv :
  SAFE t (k s) (set_st2 lv (@Idle SetSpec) None) -> SAFE t (out_of_fuel s k) lv.
Proof.
  intros Hk. unfold out_of_fuel. apply S_emit_gen with (lv1 := set_st2 lv (@Idle SetSpec) None); [|apply Hk].
  intros g a tr (Hs & He & Hil) Hv. exists (aatr (b_base a)).
  destruct (IS_EX_set g a t lv (@Idle SetSpec) (aatr (b_base a)) Hs He Hv) as [A B].
  split; [exact A|]. split; [exact B|]. right. exists t. apply in_or_app. right. now left.
Qed.

(** the constructor of my next node: the node becomes my not-yet-linked node of height 1 *)
Lemma S_alloc {R} t key (k : V -> prog R) lv :
  (t < 64)%nat -> (key < 8)%nat ->
  (forall v w, SAFE t (k v) ((mkLV (vkn (fst lv)) (vfz (fst lv)) (Some (node_id t (vser (fst lv)) key, w)) (S (vser (fst lv))) (vst (fst lv))),
                             mkX (xwatch (snd lv)) (xhl (snd lv)) (xfzu (snd lv)) (xhe (snd lv)) (Some (node_id t (vser (fst lv)) key, 1%nat)))) ->
  SAFE t (Act (a_st_unl (node_id t (vser (fst lv)) key) 1 1) k) lv.
Proof.
  intros Ht Hkey H. apply S_act. intros g a tr (Hs & He & Hl) Hv. set (new := node_id t (vser (fst lv)) key).
  set (lv' := ((mkLV (vkn (fst lv)) (vfz (fst lv)) (Some (new, nxt g new 0)) (S (vser (fst lv))) (vst (fst lv))),
               mkX (xwatch (snd lv)) (xhl (snd lv)) (xfzu (snd lv)) (xhe (snd lv)) (Some (new, 1%nat)))).
  exists (apub (b_base a)), (aL (b_base a)), lv', (aatr (b_base a)), (b_wl a). split; [|apply H].
  cbn [a_st_unl fst snd]. pose proof (ok2_view g a t Hs He) as [O1 O2]. rewrite Hv in O1, O2. destruct O1 as (K & F & O & Fr).
  assert (Hnew : isnode new) by apply mk_node_isnode.
  destruct (Fr new Hnew (node_id_owner _ _ _ Ht Hkey) ltac:(unfold new; rewrite node_id_ser by assumption; lia)) as [Fp _].
  set (g' := mkG (nxt g) (upd1 (unl g) new 1) (upd1 (hgt_of g) new 1%nat) (hgt g) (cnt g)).
  eapply inv_step2; [| | |exact Hl].
  - cbn [b_base mk_a2 lv' fst]. apply (IS_view g g' (b_base a) t _ (aatr (b_base a)) Hs); [reflexivity| |].
    + intros p'. cbn [hgt_of g']. unfold upd1. destruct (Nat.eqb p' new); [unfold MAXH; lia|apply (s_HB _ _ Hs)].
    + eapply lv_ok_ext; [reflexivity|]. split; [exact K|]. split; [exact F|]. split.
      * cbn [vown own_ok]. repeat split; auto. apply node_id_owner; assumption.
      * intros n H1 H2 H3. cbn [vser] in H3. destruct (Fr n H1 H2 ltac:(lia)) as [F1 F2]. split; [exact F1|].
        intros w E. cbn [vown] in E. inversion E; subst n. unfold new in H3. rewrite node_id_ser in H3 by assumption. lia.
  - apply EX_stunl; auto using incl_refl; [now apply node_id_owner| |].
    + destruct O2 as (X1 & X2 & X3 & X4 & X5).
      assert (Hq : forall q, apub (b_base a) q = true -> hgt_of g' q = hgt_of g q).
      { intros q Hq. cbn [hgt_of g']. unfold upd1. destruct (Nat.eqb_spec q new); [congruence|reflexivity]. }
      split; [|split; [|split; [|split]]]; cbn [lv' fst snd xwatch xhl xfzu xhe xoh vst vown]; auto.
      * eapply Forall_impl; [|exact X2]. intros [q l] (A & B). cbn [fst snd] in *. split; [exact A|]. now rewrite Hq.
      * eapply Forall_impl; [|exact X4]. intros [q l] (A & B). cbn [fst snd] in *. split; [exact A|]. now rewrite Hq.
      * intros n0 h0 E. inversion E; subst n0 h0. repeat split; auto; [now apply node_id_owner| |right; eauto].
        cbn [hgt_of g']. unfold upd1. now rewrite Nat.eqb_refl.
    + intros Hw. apply (e_wl _ _ He). cbn [lv' snd xwatch] in Hw. rewrite <- Hv in Hw. exact Hw.
  - intros Hil. apply IL2_keep with (g := g); auto; rewrite Hv; reflexivity.
Qed.

End WithNodes.
