(** * MSPriorityQueue under the phase discipline: the layer that follows the SPECIFICATION state through push phases.

    [SInv] = [SBook] (bookkeeping, holds unconditionally) + [SLive] (in force while no pop is pending and the
    discipline holds, [dq tr = false]): the trace annotated with the linearization points is a valid LP trace of
    BPQueue, the specification state has as many elements as the item counter says and, with the items handed back so
    far and the pushes not yet added, it is a permutation of the priorities pushed.  [SBook] ties the scan of the trace
    ([MsPqPhasesPop.scan_of]: pending pushes, pending pops, discipline broken) to the threads' views, to [pend], and to
    the scan of the HISTORY ([MsPqPhase.phase_scan], the hypothesis of the property; [hscan_from] is the same scan
    returning its final state).  When the last pending pop returns, [SLive] is re-established from what the pop layer
    knows ([SInv_ret_pop], hypothesis [spec_quiescent]); at quiescent points it hands [spec_quiescent] to the pop
    layer ([SInv_quiescent]).  Combined with the heap invariants in LV.Proofs.MsPqPhasesStack. *)
From Coq Require Import ZArith List String Bool Lia PeanoNat Permutation.
From LV Require Import Base.Conc Base.Events Base.Lin Spec.Specs Model.MsPq Proofs.LinProofs
  Proofs.MsPqBrc Proofs.MsPqInv Proofs.MsPqSteps Proofs.MsPqProofs Proofs.MsPqHeap Proofs.MsPqPhase Proofs.MsPqPush
  Proofs.MsPqPushLin Proofs.MsPqPhasesPush Proofs.MsPqPhasesPop.
Require LV.Proofs.MsPqStack.
Import ListNotations.
Local Open Scope string_scope.
Local Open Scope list_scope.

Notation safe_prod := MsPqStack.safe_prod.
Notation viewP := MsPqStack.viewP.
Notation InvP := MsPqStack.InvP.
Notation nio := MsPqStack.nio.
Notation rem := MsPqStack.rem.

(** ** the scan of the history (MsPqPhase.phase_scan) with its final state *)
Fixpoint hscan_from {cap} (P Q : list nat) (h : history (BPQueue cap)) : option (list nat * list nat) :=
  match h with
  | [] => Some (P, Q)
  | HInv t o :: r =>
      match (o : pop_op) with
      | Push _ => match Q with [] => hscan_from (t :: P) Q r | _ => None end
      | Pop => match P with [] => hscan_from P (t :: Q) r | _ => None end
      end
  | HRes t _ :: r => hscan_from (del_tid t P) (del_tid t Q) r
  end.

Lemma phase_scan_hscan {cap} (h : history (BPQueue cap)) : forall P Q,
  phase_scan P Q h = true -> exists PQ, hscan_from P Q h = Some PQ.
Proof.
  induction h as [|e h IH]; intros P Q H; cbn [phase_scan hscan_from] in *; [eauto|].
  destruct e as [t o|t r].
  - destruct o as [x|].
    + destruct Q; [apply IH; exact H|discriminate].
    + destruct P; [apply IH; exact H|discriminate].
  - apply IH. exact H.
Qed.

Lemma hscan_app {cap} (h h' : history (BPQueue cap)) : forall P Q,
  hscan_from P Q (h ++ h') = match hscan_from P Q h with Some (P', Q') => hscan_from P' Q' h' | None => None end.
Proof.
  induction h as [|e h IH]; intros P Q; cbn [app hscan_from]; [reflexivity|].
  destruct e as [t o|t r].
  - destruct o as [x|].
    + destruct Q; [apply IH|reflexivity].
    + destruct P; [apply IH|reflexivity].
  - apply IH.
Qed.

Lemma del_notin t l : ~ In t l -> del t l = l.
Proof.
  intros H. unfold del. induction l as [|u l IH]; [reflexivity|]. cbn [filter].
  destruct (Nat.eqb_spec u t) as [->|N]; cbn [negb].
  - exfalso. apply H. left. reflexivity.
  - rewrite IH; [reflexivity|]. intros K. apply H. right. exact K.
Qed.

Lemma sn_nio es : forallb sn es = true -> forallb nio es = true.
Proof. intros H. exact H. Qed.

Lemma quiet1_sn es : forallb quiet1 es = true -> forallb sn es = true.
Proof. intros H. apply sn_nio. apply MsPqStack.quiet1_nio. exact H. Qed.

Lemma hist_nio cap t es : forallb nio es = true -> hist_of cap (Conc.tag t es) = [].
Proof.
  induction es as [|e es IH]; cbn [forallb]; [reflexivity|]. rewrite andb_true_iff. intros [He Hes].
  unfold hist_of, Conc.tag in *. cbn [map flat_map]. rewrite (IH Hes), app_nil_r.
  destruct e as [| n args]; [reflexivity|]. cbn in He. rewrite negb_true_iff, !orb_false_iff in He. destruct He as [[[H1 H2] H3] H4].
  unfold hev_of. cbn [snd]. rewrite H1, H2, H3, H4. reflexivity.
Qed.

Lemma hist_app cap tr tr' : hist_of cap (tr ++ tr') = hist_of cap tr ++ hist_of cap tr'.
Proof. apply flat_map_app. Qed.

Section SL.
  Variable cap : nat.
  Variable bsz : nat.
  Notation Sp := (BPQueue cap).

  Record slv := mkSl { slin : nat;     (* 0 idle, 1 invoked, 2 linearized "true", 3 linearized "false" *)
                       sp : Z;         (* the priority being pushed *)
                       svp : bool }.   (* this thread is inside a pop *)
  Record SAux := mkSA { sv : nat -> slv; ul : list (nat * Z) }.   (* [ul]: the pushes not (yet) added *)
  Definition sview (a : SAux) (t : nat) : slv := sv a t.
  Definition upds (a : SAux) (t : nat) (v : slv) (l : list (nat * Z)) : SAux :=
    mkSA (fun u => if Nat.eqb u t then v else sv a u) l.
  Lemma sv_upds_same a t v l : sv (upds a t v l) t = v.
  Proof. cbn. rewrite Nat.eqb_refl. reflexivity. Qed.
  Lemma sv_upds_other a t v l u : u <> t -> sv (upds a t v l) u = sv a u.
  Proof. cbn. intros H. destruct (Nat.eqb_spec u t); congruence. Qed.
  Lemma sframe a t v l : Conc.frame sview t a (upds a t v l).
  Proof. intros u Hu. unfold sview. apply sv_upds_other. exact Hu. Qed.
  Lemma sframe_refl a t : Conc.frame sview t a a.
  Proof. intros u Hu. reflexivity. Qed.

  Definition stat_s (st : status Sp) (v : slv) : Prop :=
    match slin v with
    | 0 => st = Lin.Idle
    | 1 => st = Pending (Push (sp v) : Op Sp)
    | 2 => st = Linearized (Push (sp v) : Op Sp) (RBool true : Res Sp)
    | _ => st = Linearized (Push (sp v) : Op Sp) (RBool false : Res Sp)
    end.
  Definition inul (v : slv) : Prop := slin v = 1 \/ slin v = 3.

  (** the bookkeeping: holds of every reachable configuration, whatever the history *)
  Record SBook (a : SAux) (tr : list (nat * ev)) : Prop := mkSB {
    b1 : NoDup (map fst (ul a));
    b2 : forall t p, In (t, p) (ul a) <-> inul (sv a t) /\ sp (sv a t) = p;
    b3 : forall t, slin (sv a t) <> 0 <-> In t (pp (scan_of tr));
    b4 : forall t, svp (sv a t) = true <-> In t (qq (scan_of tr));
    b5 : forall t, slin (sv a t) <> 0 \/ svp (sv a t) = true -> pend tr t = true;
    b6 : forall P Q, hscan_from [] [] (hist_of cap tr) = Some (P, Q) ->
           bad (scan_of tr) = false /\ pp (scan_of tr) = P /\ qq (scan_of tr) = Q }.

  Definition SLive (g : G) (a : SAux) (tr : list (nat * ev)) : Prop :=
    (0 <= bc (ctr g))%Z /\
    exists (s : St Sp) (stt : nat -> status Sp),
      lp_run lp_init (atrace cap tr) = Some (s, stt) /\ List.length s = count g /\ (forall t, stat_s (stt t) (sv a t)) /\
      Permutation (s ++ map prio (given_back tr) ++ map snd (ul a)) (map prio (invoked tr)).
  Definition SInv (g : G) (a : SAux) (tr : list (nat * ev)) : Prop :=
    SBook a tr /\ (dq tr = false -> SLive g a tr).
  Notation safe := (@Conc.safe G V ev SAux slv sview SInv).

  (** *** the bookkeeping under events that are neither invocations nor responses *)
  Lemma SBook_sn a a' tr t es :
    forallb sn es = true -> (forall u, u <> t -> sv a' u = sv a u) ->
    (slin (sv a' t) <> 0 <-> slin (sv a t) <> 0) -> svp (sv a' t) = svp (sv a t) ->
    NoDup (map fst (ul a')) -> (forall u p, In (u, p) (ul a') <-> inul (sv a' u) /\ sp (sv a' u) = p) ->
    SBook a tr -> SBook a' (tr ++ Conc.tag t es).
  Proof.
    intros Hes Hoth Hl Hp Hnd Hul B. constructor; rewrite ?(scan_neutral_app tr t es Hes).
    - exact Hnd.
    - exact Hul.
    - intros u. destruct (Nat.eq_dec u t) as [->|N]; [rewrite Hl|rewrite Hoth by exact N]; apply (b3 _ _ B).
    - intros u. destruct (Nat.eq_dec u t) as [->|N]; [rewrite Hp|rewrite Hoth by exact N]; apply (b4 _ _ B).
    - intros u Hu. rewrite (MsPqStack.pend_app_nio tr t es u (sn_nio es Hes)). apply (b5 _ _ B).
      destruct (Nat.eq_dec u t) as [->|N]; [rewrite Hl, Hp in Hu|rewrite Hoth in Hu by exact N]; exact Hu.
    - intros P Q. rewrite hist_app, (hist_nio cap t es (sn_nio es Hes)), app_nil_r. apply (b6 _ _ B).
  Qed.

  Lemma SBook_same a tr t es : forallb sn es = true -> SBook a tr -> SBook a (tr ++ Conc.tag t es).
  Proof. intros Hes B. apply (SBook_sn a a tr t es Hes); auto; try tauto. apply (b1 _ _ B). apply (b2 _ _ B). Qed.

  Lemma dq_sn tr t es : forallb sn es = true -> dq (tr ++ Conc.tag t es) = dq tr.
  Proof. intros H. unfold dq. rewrite (scan_neutral_app tr t es H). reflexivity. Qed.

  Lemma SInv_quiet g g' a tr t es :
    ctr g' = ctr g -> forallb quiet1 es = true -> SInv g a tr -> SInv g' a (tr ++ Conc.tag t es).
  Proof.
    intros Hc Hq [B L]. pose proof (quiet1_sn es Hq) as Hs. destruct (quiet_tag cap t es Hq) as [Q1 _].
    destruct (MsPqStack.nio_tag t es (sn_nio es Hs)) as (N1 & N2 & _ & _). split; [apply SBook_same; assumption|].
    rewrite (dq_sn tr t es Hs). intros Hf. destruct (L Hf) as (Hb & s & stt & Hrun & Hlen & Hst & HM).
    split; [rewrite Hc; exact Hb|]. exists s, stt.
    rewrite atrace_app, Q1, app_nil_r, MsPqStack.invoked_app, MsPqStack.given_back_app, N1, N2, !app_nil_r. unfold count. rewrite Hc.
    split; [exact Hrun|]. split; [exact Hlen|]. split; [exact Hst|exact HM].
  Qed.

  (** while this thread is inside a pop nothing is claimed about the specification state: programs that emit only
      scan-neutral events are safe *)
  Lemma svp_dq a tr t : SBook a tr -> svp (sv a t) = true -> dq tr = true.
  Proof. intros B H. unfold dq. rewrite (ne_in _ _ (proj1 (b4 _ _ B t) H)). apply orb_true_r. Qed.

  Lemma ssafe_dead {R} (p : prog R) : forall t l (Q : R -> slv -> Prop),
    quietp p -> svp l = true -> (forall r, Q r l) -> safe t p l Q.
  Proof.
    induction p as [r|es k IH|f k IH]; intros t l Q Hq Hv HQ; cbn [Conc.safe quietp] in *; [apply HQ| |].
    - destruct Hq as [Hq1 Hq2]. intros g a tr [B L] Hvw. exists a. unfold sview in Hvw.
      split; [split; [apply SBook_same; assumption|]|].
      + rewrite (dq_sn tr t es Hq1), (svp_dq a tr t B ltac:(rewrite Hvw; exact Hv)). discriminate.
      + split; [apply sframe_refl|]. unfold sview. rewrite Hvw. apply IH; assumption.
    - destruct Hq as [Hq1 Hq2]. intros g a tr [B L] Hvw. exists a. unfold sview in Hvw.
      split; [split; [apply SBook_same; [apply Hq1|assumption]|]|].
      + rewrite (dq_sn tr t _ (Hq1 g)), (svp_dq a tr t B ltac:(rewrite Hvw; exact Hv)). discriminate.
      + split; [apply sframe_refl|]. unfold sview. rewrite Hvw. apply IH; [apply Hq2|assumption|assumption].
  Qed.

  Definition optS {R} (Q : R -> slv -> Prop) : option R -> slv -> Prop := fun r l => match r with Some x => Q x l | None => True end.

  Lemma ssafe_stop {R} t c l (Q : R -> slv -> Prop) : safe t (@stop_err R c) l (optS Q).
  Proof.
    unfold stop_err. destruct c as [|[|c]]; cbn [Conc.safe]; intros g a tr Hi Hv; exists a;
      (split; [apply (SInv_quiet g); [reflexivity|reflexivity|exact Hi]|split; [apply sframe_refl|exact I]]).
  Qed.
  Lemma ssafe_checked {R} t v (k : prog (option R)) l (Q : R -> slv -> Prop) :
    safe t k l (optS Q) -> safe t (checked v k) l (optS Q).
  Proof. intros H. unfold checked. destruct (verr v); [exact H|apply ssafe_stop]. Qed.

  Lemma ssafe_lock {R} lf t l bd (k : V -> prog (option R)) P (Q : R -> slv -> Prop) :
    (forall g a tr, SInv g a tr -> sview a t = P ->
       exists a', SInv (fst (fst (bd (set_lockbit g l true)))) a'
                       (tr ++ Conc.tag t (EvAcc KXchg (obj_lock l) true :: snd (bd (set_lockbit g l true)))) /\
                  Conc.frame sview t a a' /\
                  safe t (k (unbusy (snd (fst (bd (set_lockbit g l true)))))) (sview a' t) (optS Q)) ->
    safe t (lock_ lf l bd k) P (optS Q).
  Proof.
    intros H. unfold lock_, obind. apply Conc.safe_bind.
    set (Qmid := fun (r : option V) (l' : slv) =>
           safe t (match r with Some x => checked x (k x) | None => Ret None end) l' (optS Q)).
    change (safe t (lock_outer lf l bd) P Qmid).
    assert (Both : safe t (lock_outer lf l bd) P Qmid /\ safe t (lock_inner lf l bd) P Qmid).
    { induction lf as [|f [IHo IHi]]; [split; exact I|]. split.
      - cbn [lock_outer Conc.safe]. intros g a tr Hi Hv. unfold a_lock. destruct (lockbit g l).
        + exists a. cbn [fst snd]. split; [apply (SInv_quiet g); [reflexivity|reflexivity|exact Hi]|]. split; [apply sframe_refl|].
          cbn [vbusy vbusyV]. rewrite Hv. exact IHi.
        + destruct (H g a tr Hi Hv) as (a' & K1 & K2 & K3).
          destruct (bd (set_lockbit g l true)) as [[g' v] es]. cbn [fst snd] in *.
          exists a'. split; [exact K1|]. split; [exact K2|]. cbn [vbusy unbusy Conc.safe]. apply ssafe_checked. exact K3.
      - cbn [lock_inner Conc.safe]. intros g a tr Hi Hv. unfold a_load. cbn [fst snd]. exists a.
        split; [apply (SInv_quiet g); [reflexivity|reflexivity|exact Hi]|]. split; [apply sframe_refl|]. rewrite Hv.
        destruct (lockbit g l); cbn [vbusy vbusyV v0]; assumption. }
    apply Both.
  Qed.

  Lemma ssafe_lock_neutral {R} lf t l bd (k : V -> prog (option R)) P (Q : R -> slv -> Prop) :
    neutral bd -> (forall v, safe t (k v) P (optS Q)) -> safe t (lock_ lf l bd k) P (optS Q).
  Proof.
    intros Hn Hk. apply ssafe_lock. intros g a tr Hi Hv. destruct (Hn (set_lockbit g l true)) as [N1 N2].
    exists a. split; [apply (SInv_quiet g); [rewrite N1; apply ctr_lockbit|cbn [forallb quiet1]; exact N2|exact Hi]|].
    split; [apply sframe_refl|]. rewrite Hv. apply Hk.
  Qed.

  Lemma ssafe_unlock_neutral {R} t l bd (k : V -> prog (option R)) P (Q : R -> slv -> Prop) :
    neutral bd -> (forall v, safe t (k v) P (optS Q)) -> safe t (unlock_ l bd k) P (optS Q).
  Proof.
    intros Hn Hk. unfold unlock_, unlock. cbn [Conc.bind Conc.safe]. intros g a tr Hi Hv.
    destruct (Hn g) as [N1 N2]. unfold a_unlock. destruct (bd g) as [[g' v] es]. cbn [fst snd] in *.
    exists a. split; [apply (SInv_quiet g); [rewrite ctr_lockbit; exact N1|cbn [forallb quiet1]; exact N2|exact Hi]|].
    split; [apply sframe_refl|]. rewrite Hv. apply ssafe_checked. apply Hk.
  Qed.

  Lemma ssafe_heapify_push lf t u P : forall hf i, safe t (heapify_push hf lf u i) P (optS (fun (_ : unit) l' => l' = P)).
  Proof.
    induction hf as [|hf IH]; intros i; [exact I|]. cbn [heapify_push]. destruct (Nat.ltb 1 i).
    - apply ssafe_lock_neutral; [apply n_none|]. intros _. apply ssafe_lock_neutral; [apply n_sift|]. intros v.
      apply ssafe_unlock_neutral; [apply n_none|]. intros _. apply ssafe_unlock_neutral; [apply n_none|]. intros _. apply IH.
    - destruct (Nat.eqb i 1); [|reflexivity]. apply ssafe_lock_neutral; [apply n_top|]. intros _.
      apply ssafe_unlock_neutral; [apply n_none|]. intros _. reflexivity.
  Qed.

  Lemma stat_others (stt : nat -> status Sp) t x a v l :
    (forall u, stat_s (stt u) (sv a u)) -> stat_s x v -> forall u, stat_s (Lin.upd stt t x u) (sv (upds a t v l) u).
  Proof.
    intros H Hx u. destruct (Nat.eq_dec u t) as [->|N]; [rewrite LinProofs.upd_same, sv_upds_same; exact Hx|].
    rewrite LinProofs.upd_other, sv_upds_other by exact N. apply H.
  Qed.

  Definition sidle : slv := mkSl 0 0 false.
  Definition spop : slv := mkSl 0 0 true.

  Lemma notin_ul a t : (forall w p, In (w, p) (ul a) <-> inul (sv a w) /\ sp (sv a w) = p) -> ~ inul (sv a t) -> ~ In t (map fst (ul a)).
  Proof. intros Hul Hn Hin. apply in_map_iff in Hin. destruct Hin as ([w p] & E & Hin). cbn in E. subst w. apply Hul in Hin. tauto. Qed.

  (** *** the linearization point of push *)
  Lemma ssafe_push hf lf t u x :
    safe t (push cap bsz hf lf u x) (mkSl 1 (prio x) false) (optS (fun (b : bool) l' => l' = mkSl (if b then 2 else 3) (prio x) false)).
  Proof.
    unfold push. apply ssafe_lock. intros g a tr [B L] Hv. set (g1 := set_lockbit g 0 true). unfold sview in Hv.
    unfold body_push_size. change (ctr g1) with (ctr g). destruct (Z.leb (Z.of_nat cap) (bc (ctr g))) eqn:Efull; cbn [fst snd].
    - (* full *)
      set (a' := upds a t (mkSl 3 (prio x) false) (ul a)). exists a'. split; [|split; [apply sframe|]].
      + set (es := [EvAcc KXchg (obj_lock 0) true; EvCli "g_full" [bc (ctr g); Z.of_nat (occupied g1 cap); Z.of_nat cap]]).
        assert (Hes : forallb sn es = true) by reflexivity.
        split.
        * apply (SBook_sn a a' tr t es Hes); [intros w Hw; apply sv_upds_other; exact Hw|unfold a'; rewrite sv_upds_same, Hv; cbn; lia|unfold a'; rewrite sv_upds_same, Hv; reflexivity|apply (b1 _ _ B)| |exact B].
          intros w p. change (ul a') with (ul a). rewrite (b2 _ _ B).
          destruct (Nat.eq_dec w t) as [->|N]; [unfold a'; rewrite sv_upds_same, Hv; unfold inul; cbn; intuition lia|unfold a'; rewrite sv_upds_other by exact N; tauto].
        * rewrite (dq_sn tr t es Hes). intros Hf. destruct (L Hf) as (Hb & s & stt & Hrun & Hlen & Hst & HM).
          split; [exact Hb|].
          pose proof (Hst t) as Ht. unfold stat_s in Ht. rewrite Hv in Ht. cbn in Ht.
          apply Z.leb_le in Efull. assert (Hge : cap <= List.length s) by (rewrite Hlen; unfold count; lia).
          destruct (MsPqStack.nio_tag t es eq_refl) as (N1 & N2 & _ & _).
          exists s, (Lin.upd stt t (Linearized (Push (prio x) : Op Sp) (RBool false : Res Sp))).
          rewrite MsPqStack.invoked_app, MsPqStack.given_back_app, N1, N2, !app_nil_r.
          split; [|split; [exact Hlen|split; [|exact HM]]].
          -- rewrite atrace_app. unfold es, Conc.tag. cbn [map atrace flat_map aev_of snd fst]. cbn. rewrite ?app_nil_r.
             apply (lp_snoc cap _ _ _ _ _ Hrun). cbn [lp_step]. rewrite Ht. cbn [sstep BPQueue mkSpec bpq_step].
             assert (El : Nat.ltb (List.length s) cap = false) by (apply Nat.ltb_ge; exact Hge). rewrite El. reflexivity.
          -- apply stat_others; [exact Hst|reflexivity].
      + unfold sview, a'. rewrite sv_upds_same. cbn [unbusy vb].
        apply ssafe_unlock_neutral; [apply n_none|]. intros _. reflexivity.
    - (* inc *)
      destruct (brc_inc (ctr g)) as [sl c'] eqn:Einc. cbn [fst snd].
      assert (Ec' : bc c' = (bc (ctr g) + 1)%Z) by (pose proof (bc_inc (ctr g)) as K; rewrite Einc in K; exact K).
      set (a' := upds a t (mkSl 2 (prio x) false) (rem t (ul a))). exists a'. split; [|split; [apply sframe|]].
      + set (es := [EvAcc KXchg (obj_lock 0) true; EvCli "g_inc" []]).
        assert (Hes : forallb sn es = true) by reflexivity.
        assert (Hin : In (t, prio x) (ul a)) by (apply (b2 _ _ B); rewrite Hv; cbn; split; [left; reflexivity|reflexivity]).
        split.
        * apply (SBook_sn a a' tr t es Hes); [intros w Hw; apply sv_upds_other; exact Hw|unfold a'; rewrite sv_upds_same, Hv; cbn; lia|unfold a'; rewrite sv_upds_same, Hv; reflexivity| | |exact B].
          -- change (ul a') with (rem t (ul a)). apply MsPqStack.NoDup_rem. apply (b1 _ _ B).
          -- intros w p. change (ul a') with (rem t (ul a)). rewrite MsPqStack.in_rem, (b2 _ _ B).
             destruct (Nat.eq_dec w t) as [->|N]; [unfold a'; rewrite sv_upds_same; unfold inul; cbn; intuition lia|unfold a'; rewrite sv_upds_other by exact N; tauto].
        * rewrite (dq_sn tr t es Hes). intros Hf. destruct (L Hf) as (Hb & s & stt & Hrun & Hlen & Hst & HM).
          split; [cbn [ctr set_ctr]; lia|].
          pose proof (Hst t) as Ht. unfold stat_s in Ht. rewrite Hv in Ht. cbn in Ht.
          apply Z.leb_gt in Efull. assert (Hlt : List.length s < cap) by (rewrite Hlen; unfold count; lia).
          destruct (MsPqStack.nio_tag t es eq_refl) as (N1 & N2 & _ & _).
          exists (prio x :: s), (Lin.upd stt t (Linearized (Push (prio x) : Op Sp) (RBool true : Res Sp))).
          rewrite MsPqStack.invoked_app, MsPqStack.given_back_app, N1, N2, !app_nil_r.
          split; [|split; [|split]].
          -- rewrite atrace_app. unfold es, Conc.tag. cbn [map atrace flat_map aev_of snd fst]. cbn. rewrite ?app_nil_r.
             apply (lp_snoc cap _ _ _ _ _ Hrun). cbn [lp_step]. rewrite Ht. cbn [sstep BPQueue mkSpec bpq_step].
             assert (El : Nat.ltb (List.length s) cap = true) by (apply Nat.ltb_lt; exact Hlt). rewrite El. reflexivity.
          -- cbn [List.length]. rewrite Hlen. unfold count. cbn [ctr set_ctr]. rewrite Ec'. lia.
          -- apply stat_others; [exact Hst|reflexivity].
          -- change (ul a') with (rem t (ul a)). rewrite <- HM. rewrite (Permutation_map snd (MsPqStack.rem_perm t (prio x) (ul a) (b1 _ _ B) Hin)). cbn [map snd].
             cbn [app]. rewrite !app_assoc. apply Permutation_middle.
      + unfold sview, a'. rewrite sv_upds_same. cbn [unbusy vb vn].
        apply ssafe_lock_neutral; [apply n_none|]. intros _. apply ssafe_unlock_neutral; [apply n_store|]. intros _.
        apply ssafe_unlock_neutral; [apply n_none|]. intros _. unfold obind. apply Conc.safe_bind.
        eapply Conc.safe_weaken; [|apply ssafe_heapify_push]. intros [[]|] l' Hl'; cbn in Hl' |- *; [exact Hl'|exact I].
  Qed.

  (** *** the boundaries of a push *)
  Lemma SInv_inv_push g a tr t x :
    SInv g a tr -> sview a t = sidle ->
    exists a', SInv g a' (tr ++ Conc.tag t [EvCli "inv_push" (zitem x)]) /\ Conc.frame sview t a a' /\ sview a' t = mkSl 1 (prio x) false.
  Proof.
    intros [B L] Hv. unfold sview in Hv. destruct x as [p id]. cbn [prio fst].
    set (a' := upds a t (mkSl 1 p false) ((t, p) :: ul a)). exists a'. split; [|split; [apply sframe|unfold sview, a'; apply sv_upds_same]].
    set (tr' := tr ++ Conc.tag t [EvCli "inv_push" (zitem (p, id))]).
    assert (Es : scan_of tr' = mkS (t :: pp (scan_of tr)) (qq (scan_of tr)) (bad (scan_of tr) || ne (qq (scan_of tr)))) by (unfold tr'; rewrite scan_snoc; reflexivity).
    assert (Hnin : ~ In t (map fst (ul a))) by (apply (notin_ul a t (b2 _ _ B)); rewrite Hv; unfold inul; cbn; lia).
    split.
    - constructor; rewrite ?Es; cbn [pp qq bad].
      + change (ul a') with ((t, p) :: ul a). cbn [map fst]. constructor; [exact Hnin|apply (b1 _ _ B)].
      + intros w q. change (ul a') with ((t, p) :: ul a). cbn [In]. rewrite (b2 _ _ B). destruct (Nat.eq_dec w t) as [->|N].
        * unfold a'. rewrite sv_upds_same. unfold inul. cbn. split; [intros [E|[K _]]; [inversion E; auto|rewrite Hv in K; unfold inul in K; cbn in K; lia]|intros [_ <-]; left; reflexivity].
        * unfold a'. rewrite sv_upds_other by exact N. split; [intros [E|K]; [inversion E; congruence|exact K]|intros K; right; exact K].
      + intros w. cbn [In]. destruct (Nat.eq_dec w t) as [->|N]; [unfold a'; rewrite sv_upds_same; cbn; split; [auto|lia]|].
        unfold a'. rewrite sv_upds_other by exact N. rewrite (b3 _ _ B w). split; [auto|intros [K|K]; [congruence|exact K]].
      + intros w. destruct (Nat.eq_dec w t) as [->|N]; [unfold a'; rewrite sv_upds_same; cbn; rewrite <- (b4 _ _ B t), Hv; reflexivity|].
        unfold a'. rewrite sv_upds_other by exact N. apply (b4 _ _ B).
      + intros w Hw. unfold tr'. rewrite (MsPqStack.pend_snoc_inv tr t "inv_push" _ w eq_refl). destruct (Nat.eqb_spec t w) as [->|N]; [reflexivity|]. apply (b5 _ _ B).
        unfold a' in Hw. rewrite sv_upds_other in Hw by congruence. exact Hw.
      + intros P Q. unfold tr'. rewrite hist_app. change (hist_of cap (Conc.tag t [EvCli "inv_push" (zitem (p, id))])) with [hinv cap t (Push p)].
        rewrite hscan_app. destruct (hscan_from [] [] (hist_of cap tr)) as [[P0 Q0]|] eqn:E0; [|discriminate].
        destruct (b6 _ _ B P0 Q0 E0) as (K1 & K2 & K3). cbn [hscan_from hinv]. destruct Q0; [|discriminate]. intros E. inversion E; subst P Q.
        rewrite K1, K2, K3. auto.
    - assert (Hdq : dq tr' = dq tr) by (apply dq_pushev; reflexivity). rewrite Hdq. intros Hf.
      destruct (L Hf) as (Hb & s & stt & Hrun & Hlen & Hst & HM). split; [exact Hb|].
      pose proof (Hst t) as Ht. unfold stat_s in Ht. rewrite Hv in Ht. cbn in Ht.
      exists s, (Lin.upd stt t (Pending (Push p : Op Sp))). split; [|split; [exact Hlen|split]].
      + unfold tr', Conc.tag. cbn [map]. rewrite atrace_app. cbn [atrace flat_map aev_of snd fst zitem]. cbn. rewrite ?app_nil_r.
        apply (lp_snoc cap _ _ _ _ _ Hrun). cbn [lp_step]. rewrite Ht. reflexivity.
      + apply stat_others; [exact Hst|reflexivity].
      + change (ul a') with ((t, p) :: ul a). unfold tr', Conc.tag. cbn [map]. rewrite MsPqStack.invoked_app, MsPqStack.given_back_app. cbn [invoked given_back flat_map inv_items back_items snd zitem fst]. cbn.
        rewrite !app_nil_r, map_app. cbn [map prio fst]. rewrite <- HM. rewrite <- !app_assoc. apply Permutation_app_head. apply Permutation_app_head. apply Permutation_cons_append.
  Qed.

  Lemma SInv_ret_push g a tr t x (b : bool) :
    SInv g a tr -> sview a t = mkSl (if b then 2 else 3) (prio x) false ->
    exists a', SInv g a' (tr ++ Conc.tag t [EvCli "ret_push" ((if b then 1 else 0)%Z :: zitem x)]) /\ Conc.frame sview t a a' /\ sview a' t = sidle.
  Proof.
    intros [B L] Hv. unfold sview in Hv. destruct x as [p id]. cbn [prio fst] in Hv.
    set (a' := upds a t sidle (rem t (ul a))). exists a'. split; [|split; [apply sframe|unfold sview, a'; apply sv_upds_same]].
    set (tr' := tr ++ Conc.tag t [EvCli "ret_push" ((if b then 1 else 0)%Z :: zitem (p, id))]).
    assert (Es : scan_of tr' = mkS (del t (pp (scan_of tr))) (qq (scan_of tr)) (bad (scan_of tr))) by (unfold tr'; rewrite scan_snoc; reflexivity).
    assert (Hsl : slin (sv a t) <> 0) by (rewrite Hv; destruct b; cbn; lia).
    assert (Hnq : ~ In t (qq (scan_of tr))) by (intros K; apply (b4 _ _ B) in K; rewrite Hv in K; discriminate).
    split.
    - constructor; rewrite ?Es; cbn [pp qq bad].
      + change (ul a') with (rem t (ul a)). apply MsPqStack.NoDup_rem. apply (b1 _ _ B).
      + intros w q. change (ul a') with (rem t (ul a)). rewrite MsPqStack.in_rem, (b2 _ _ B). destruct (Nat.eq_dec w t) as [->|N].
        * unfold a'. rewrite sv_upds_same. unfold inul, sidle. cbn. intuition lia.
        * unfold a'. rewrite sv_upds_other by exact N. tauto.
      + intros w. rewrite in_del. destruct (Nat.eq_dec w t) as [->|N]; [unfold a'; rewrite sv_upds_same; cbn; split; [lia|tauto]|].
        unfold a'. rewrite sv_upds_other by exact N. rewrite (b3 _ _ B w). tauto.
      + intros w. destruct (Nat.eq_dec w t) as [->|N]; [unfold a'; rewrite sv_upds_same; cbn; split; [discriminate|intros K; contradiction]|].
        unfold a'. rewrite sv_upds_other by exact N. apply (b4 _ _ B).
      + intros w Hw. unfold tr'. rewrite (MsPqStack.pend_snoc_ret tr t "ret_push" _ w eq_refl eq_refl). destruct (Nat.eqb_spec t w) as [->|N].
        * unfold a' in Hw. rewrite sv_upds_same in Hw. cbn in Hw. destruct Hw; [lia|discriminate].
        * apply (b5 _ _ B). unfold a' in Hw. rewrite sv_upds_other in Hw by congruence. exact Hw.
      + intros P Q. unfold tr'. rewrite hist_app.
        change (hist_of cap (Conc.tag t [EvCli "ret_push" ((if b then 1 else 0)%Z :: zitem (p, id))])) with [hres cap t (RBool (Z.eqb (if b then 1 else 0) 1))].
        rewrite hscan_app. destruct (hscan_from [] [] (hist_of cap tr)) as [[P0 Q0]|] eqn:E0; [|discriminate].
        destruct (b6 _ _ B P0 Q0 E0) as (K1 & K2 & K3). cbn [hscan_from hres]. intros E. inversion E; subst P Q.
        rewrite K1, K2. split; [reflexivity|]. split; [reflexivity|]. rewrite <- K3. symmetry. apply (del_notin t _ Hnq).
    - assert (Hdq : dq tr' = dq tr) by (apply dq_pushev; reflexivity). rewrite Hdq. intros Hf.
      destruct (L Hf) as (Hb & s & stt & Hrun & Hlen & Hst & HM). split; [exact Hb|].
      pose proof (Hst t) as Ht. unfold stat_s in Ht. rewrite Hv in Ht.
      exists s, (Lin.upd stt t Lin.Idle). split; [|split; [exact Hlen|split]].
      + unfold tr', Conc.tag. cbn [map]. rewrite atrace_app. cbn [atrace flat_map aev_of snd fst zitem]. cbn. rewrite ?app_nil_r.
        apply (lp_snoc cap _ _ _ _ _ Hrun). cbn [lp_step]. destruct b; cbn in Ht; rewrite Ht; reflexivity.
      + apply stat_others; [exact Hst|reflexivity].
      + change (ul a') with (rem t (ul a)). unfold tr', Conc.tag. cbn [map]. rewrite MsPqStack.invoked_app, MsPqStack.given_back_app. destruct b.
        * cbn [invoked given_back flat_map inv_items back_items snd zitem fst]. cbn. rewrite !app_nil_r.
          rewrite (MsPqStack.rem_none t (ul a)); [exact HM|]. apply (notin_ul a t (b2 _ _ B)). rewrite Hv. unfold inul. cbn. lia.
        * cbn [invoked given_back flat_map inv_items back_items snd zitem fst]. cbn. rewrite !app_nil_r, map_app. cbn [map prio fst].
          rewrite <- HM. assert (Hin : In (t, p) (ul a)) by (apply (b2 _ _ B); rewrite Hv; unfold inul; cbn; auto).
          rewrite (Permutation_map snd (MsPqStack.rem_perm t p (ul a) (b1 _ _ B) Hin)). cbn [map snd]. rewrite <- !app_assoc. cbn [app]. reflexivity.
  Qed.

  (** *** the boundaries of a pop *)
  Lemma SInv_inv_pop g a tr t :
    SInv g a tr -> sview a t = sidle ->
    exists a', SInv g a' (tr ++ Conc.tag t [EvCli "inv_pop" []]) /\ Conc.frame sview t a a' /\ sview a' t = spop.
  Proof.
    intros [B L] Hv. unfold sview in Hv.
    set (a' := upds a t spop (ul a)). exists a'. split; [|split; [apply sframe|unfold sview, a'; apply sv_upds_same]].
    set (tr' := tr ++ Conc.tag t [EvCli "inv_pop" []]).
    assert (Es : scan_of tr' = mkS (pp (scan_of tr)) (t :: qq (scan_of tr)) (bad (scan_of tr) || ne (pp (scan_of tr)))) by (unfold tr'; rewrite scan_snoc; reflexivity).
    split.
    - constructor; rewrite ?Es; cbn [pp qq bad].
      + apply (b1 _ _ B).
      + intros w q. change (ul a') with (ul a). rewrite (b2 _ _ B). destruct (Nat.eq_dec w t) as [->|N].
        * unfold a'. rewrite sv_upds_same, Hv. unfold inul, spop, sidle. cbn. tauto.
        * unfold a'. rewrite sv_upds_other by exact N. tauto.
      + intros w. destruct (Nat.eq_dec w t) as [->|N]; [unfold a'; rewrite sv_upds_same; rewrite <- (b3 _ _ B t), Hv; cbn; tauto|].
        unfold a'. rewrite sv_upds_other by exact N. apply (b3 _ _ B).
      + intros w. cbn [In]. destruct (Nat.eq_dec w t) as [->|N]; [unfold a'; rewrite sv_upds_same; cbn; split; auto|].
        unfold a'. rewrite sv_upds_other by exact N. rewrite (b4 _ _ B w). split; [auto|intros [K|K]; [congruence|exact K]].
      + intros w Hw. unfold tr'. rewrite (MsPqStack.pend_snoc_inv tr t "inv_pop" _ w eq_refl). destruct (Nat.eqb_spec t w) as [->|N]; [reflexivity|]. apply (b5 _ _ B).
        unfold a' in Hw. rewrite sv_upds_other in Hw by congruence. exact Hw.
      + intros P Q. unfold tr'. rewrite hist_app. change (hist_of cap (Conc.tag t [EvCli "inv_pop" []])) with [hinv cap t Pop].
        rewrite hscan_app. destruct (hscan_from [] [] (hist_of cap tr)) as [[P0 Q0]|] eqn:E0; [|discriminate].
        destruct (b6 _ _ B P0 Q0 E0) as (K1 & K2 & K3). cbn [hscan_from hinv]. destruct P0; [|discriminate]. intros E. inversion E; subst P Q.
        rewrite K1, K2, K3. auto.
    - intros Hf. exfalso. unfold dq in Hf. rewrite Es in Hf. cbn [qq bad ne] in Hf. rewrite orb_true_r in Hf. discriminate.
  Qed.

  (** the last pending pop returns: the specification state comes from the pop layer ([Hq]) *)
  Lemma SInv_ret_pop g a tr t args :
    SInv g a tr -> sview a t = spop -> List.length args = 3 -> (0 <= bc (ctr g))%Z ->
    (dq (tr ++ Conc.tag t [EvCli "ret_pop" args]) = false -> spec_quiescent cap g (tr ++ Conc.tag t [EvCli "ret_pop" args])) ->
    exists a', SInv g a' (tr ++ Conc.tag t [EvCli "ret_pop" args]) /\ Conc.frame sview t a a' /\ sview a' t = sidle.
  Proof.
    intros [B L] Hv Hargs Hbc Hq. unfold sview in Hv.
    set (a' := upds a t sidle (ul a)). exists a'. split; [|split; [apply sframe|unfold sview, a'; apply sv_upds_same]].
    set (tr' := tr ++ Conc.tag t [EvCli "ret_pop" args]) in *.
    assert (Es : scan_of tr' = mkS (pp (scan_of tr)) (del t (qq (scan_of tr))) (bad (scan_of tr))) by (unfold tr'; rewrite scan_snoc; reflexivity).
    assert (Hnp : ~ In t (pp (scan_of tr))) by (intros K; apply (b3 _ _ B) in K; rewrite Hv in K; cbn in K; lia).
    assert (Htq : In t (qq (scan_of tr))) by (apply (b4 _ _ B); rewrite Hv; reflexivity).
    assert (B' : SBook a' tr').
    { constructor; rewrite ?Es; cbn [pp qq bad].
      + apply (b1 _ _ B).
      + intros w q. change (ul a') with (ul a). rewrite (b2 _ _ B). destruct (Nat.eq_dec w t) as [->|N].
        * unfold a'. rewrite sv_upds_same, Hv. unfold inul, spop, sidle. cbn. tauto.
        * unfold a'. rewrite sv_upds_other by exact N. tauto.
      + intros w. destruct (Nat.eq_dec w t) as [->|N]; [unfold a'; rewrite sv_upds_same; rewrite <- (b3 _ _ B t), Hv; cbn; tauto|].
        unfold a'. rewrite sv_upds_other by exact N. apply (b3 _ _ B).
      + intros w. rewrite in_del. destruct (Nat.eq_dec w t) as [->|N]; [unfold a'; rewrite sv_upds_same; cbn; split; [discriminate|tauto]|].
        unfold a'. rewrite sv_upds_other by exact N. rewrite (b4 _ _ B w). tauto.
      + intros w Hw. unfold tr'. rewrite (MsPqStack.pend_snoc_ret tr t "ret_pop" _ w eq_refl eq_refl). destruct (Nat.eqb_spec t w) as [->|N].
        * unfold a' in Hw. rewrite sv_upds_same in Hw. cbn in Hw. destruct Hw; [lia|discriminate].
        * apply (b5 _ _ B). unfold a' in Hw. rewrite sv_upds_other in Hw by congruence. exact Hw.
      + intros P Q. unfold tr'. rewrite hist_app.
        destruct args as [|b0 [|p0 [|i0 [|]]]]; try discriminate.
        change (hist_of cap (Conc.tag t [EvCli "ret_pop" [b0; p0; i0]])) with [hres cap t (RVal (if Z.eqb b0 1 then Some p0 else None))].
        rewrite hscan_app. destruct (hscan_from [] [] (hist_of cap tr)) as [[P0 Q0]|] eqn:E0; [|discriminate].
        destruct (b6 _ _ B P0 Q0 E0) as (K1 & K2 & K3). cbn [hscan_from hres]. intros E. inversion E; subst P Q.
        rewrite K1, K3. split; [reflexivity|]. split; [|reflexivity]. rewrite <- K2. symmetry. apply (del_notin t _ Hnp). }
    split; [exact B'|]. intros Hf. destruct (Hq Hf) as (s & stt & Hrun & Hlen & Hst & HM).
    assert (Hbad : bad (scan_of tr) = false) by (unfold dq in Hf; rewrite Es in Hf; cbn [bad] in Hf; apply orb_false_iff in Hf; tauto).
    assert (Hpp : pp (scan_of tr') = []) by (rewrite Es; cbn [pp]; destruct (scan_excl tr Hbad) as [E|E]; [exact E|rewrite E in Htq; destruct Htq]).
    assert (Hz : forall u, slin (sv a' u) = 0).
    { intros u. destruct (Nat.eq_dec (slin (sv a' u)) 0) as [E|N]; [exact E|]. apply (b3 _ _ B') in N. rewrite Hpp in N. destruct N. }
    assert (Hul0 : ul a' = []).
    { destruct (ul a') as [|[w p] r] eqn:E; [reflexivity|]. exfalso.
      assert (Hin : inul (sv a' w) /\ sp (sv a' w) = p) by (apply (b2 _ _ B'); rewrite E; left; reflexivity). destruct Hin as [[K|K] _]; rewrite Hz in K; discriminate. }
    split; [exact Hbc|]. exists s, stt. split; [exact Hrun|]. split; [exact Hlen|]. split.
    - intros u. unfold stat_s. rewrite Hz. apply Hst.
    - rewrite Hul0. cbn [map]. rewrite app_nil_r. exact HM.
  Qed.

  (** at a quiescent point the specification state is known to this layer too *)
  Lemma SInv_quiescent g a tr : SInv g a tr -> dq tr = false -> dp tr = false -> spec_quiescent cap g tr.
  Proof.
    intros [B L] Hq Hp. destruct (L Hq) as (Hb & s & stt & Hrun & Hlen & Hst & HM).
    unfold dp in Hp. apply orb_false_iff in Hp. destruct Hp as [_ Hp].
    assert (Hpp : pp (scan_of tr) = []) by (destruct (pp (scan_of tr)); [reflexivity|discriminate]).
    assert (Hz : forall u, slin (sv a u) = 0).
    { intros u. destruct (Nat.eq_dec (slin (sv a u)) 0) as [E|N]; [exact E|]. apply (b3 _ _ B) in N. rewrite Hpp in N. destruct N. }
    assert (Hul0 : ul a = []).
    { destruct (ul a) as [|[w p] r] eqn:E; [reflexivity|]. exfalso.
      assert (Hin : inul (sv a w) /\ sp (sv a w) = p) by (apply (b2 _ _ B); rewrite E; left; reflexivity). destruct Hin as [[K|K] _]; rewrite Hz in K; discriminate. }
    exists s, stt. split; [exact Hrun|]. split; [exact Hlen|]. split.
    - intros u. specialize (Hst u). unfold stat_s in Hst. rewrite Hz in Hst. exact Hst.
    - rewrite Hul0 in HM. cbn [map] in HM. rewrite app_nil_r in HM. exact HM.
  Qed.

  (** no operation pending: nothing is pending in the scan *)
  Lemma SBook_idle a tr : SBook a tr -> (forall t, pend tr t = false) -> pp (scan_of tr) = [] /\ qq (scan_of tr) = [].
  Proof.
    intros B Hq. split.
    - destruct (pp (scan_of tr)) as [|u r] eqn:E; [reflexivity|]. exfalso.
      assert (K : slin (sv a u) <> 0) by (apply (b3 _ _ B); rewrite E; left; reflexivity).
      pose proof (b5 _ _ B u (or_introl K)) as K'. rewrite Hq in K'. discriminate.
    - destruct (qq (scan_of tr)) as [|u r] eqn:E; [reflexivity|]. exfalso.
      assert (K : svp (sv a u) = true) by (apply (b4 _ _ B); rewrite E; left; reflexivity).
      pose proof (b5 _ _ B u (or_intror K)) as K'. rewrite Hq in K'. discriminate.
  Qed.

  Lemma sinit : SInv init (mkSA (fun _ => sidle) []) [].
  Proof.
    split.
    - constructor; cbn.
      + constructor.
      + intros t p. unfold inul. cbn. intuition lia.
      + intros t. split; [intros K; exfalso; apply K; reflexivity|intros []].
      + intros t. split; [discriminate|intros []].
      + intros t [K|K]; [exfalso; apply K; reflexivity|discriminate].
      + intros P Q E. inversion E. auto.
    - intros _. split; [cbn; lia|].
      exists (@nil Z), (fun _ => Lin.Idle). split; [reflexivity|]. split; [reflexivity|]. split; [intros t; reflexivity|reflexivity].
  Qed.
End SL.
