(** * forward() / backward(), the client loop and the threads of LV.Model.FeldmanIter in the step relation [SR]:
      every load of the iterator moves the ghost value so that [J] is kept (every hash that has been present at all of
      the iterator's own accesses was visited or is still ahead in path order). *)
From Coq Require Import ZArith NArith List Bool Arith PeanoNat Lia String.
From LV Require Import Base.Conc Base.Events Model.Feldman Model.FeldmanIter.
From LV Require Import Proofs.FeldmanStepInv Proofs.FeldmanStepThm Proofs.ConcRel Proofs.FeldmanIterTraceDefs Proofs.FeldmanIterReachOps
                       Proofs.FeldmanIterReachBase.
From LV Require Proofs.FeldmanStepRel Proofs.FeldmanIterSafe Proofs.FeldmanLinInv.
Import ListNotations.

Set Implicit Arguments.

Section Iter.
  Variables (hbits abits W : nat) (hs : list N).
  Hypothesis Hh : 0 < hbits.
  Hypothesis Ha : 0 < abits.

  Notation hash := (Feldman.hash hs).
  Notation cut := Feldman.cut.
  Notation bits_of := (Feldman.bits_of hbits abits).
  Notation Inv := (@FeldmanStepInv.Inv hbits abits hs).
  Notation prog := (Conc.prog G V ev).
  Notation present := (FeldmanStepThm.present hs).
  Notation SR := (@FeldmanIterTraceDefs.SR hs).
  Notation TR := (@FeldmanIterTraceDefs.TR hs).
  Notation kinc := FeldmanIterReachBase.kinc.
  Notation wk := FeldmanIterReachBase.wk.
  Notation safeR := (@ConcRel.safeR G V ev Aux L WI view Inv SR).
  Notation ahead := (@FeldmanIterTraceDefs.ahead hbits abits).
  Notation cpfx := (@FeldmanIterTraceDefs.cpfx hbits abits).
  Notation pos_ok := (@FeldmanIterTraceDefs.pos_ok hbits abits).
  Notation nsize := (FeldmanIter.nsize hbits abits).
  Notation kincl := FeldmanIterSafe.kincl.
  Notation knows := FeldmanIterSafe.knows.
  Notation pre := FeldmanIterReachBase.pre.
  Notation post := FeldmanIterReachBase.post.
  Notation cstart := (FeldmanIterReachBase.cstart hbits abits).

  (** result of forward() / backward() *)
  Definition Qit (dir : bool) (l : L) : option itres -> L -> WI -> Prop :=
    fun r l' w' => kincl l l' /\ wact w' = true /\
      match r with
      | None => True
      | Some (stk', a', i', None) => forall h, ~ wah w' h
      | Some (stk', a', i', Some v) =>
          exists ps' x', stk' = strip ps' /\ pos_ok l' ps' a' x' /\ sptr (vslot v) <> 0 /\
                         wfnd w' = (sptr (vslot v), vkey v) /\ kid l' = sptr (vslot v) /\ kidk l' = vkey v /\
                         under (hash (vkey v)) x' /\ cut (hash (vkey v)) (fst x') (bits_of a') = i' /\
                         forall h, wah w' h -> ahead dir h ps' a' x' (post dir i') \/ h = hash (vkey v)
      end.

  Lemma Qit_weaken dir l1 l2 r l3 w3 : kincl l1 l2 -> Qit dir l2 r l3 w3 -> Qit dir l1 r l3 w3.
  Proof. intros K (H1 & H2). split; [eapply FeldmanIterSafe.kincl_trans; eauto|exact H2]. Qed.

  Lemma kincl_know_id l p k : kincl l (know_id l p k).
  Proof. split; [intros e He; exact He|reflexivity]. Qed.

  (** ** the examination of slot ( a, i ) *)
  Lemma safeR_examine dir t s sf ps a x i l w (K2 : nat -> prog (option itres)) (K1 K0 : prog (option itres)) :
    pos_ok l ps a x -> wact w = true -> (forall h, wah w h -> ahead dir h ps a x (pre dir i)) ->
    (forall c l1 w1, kincl l l1 -> pos_ok l1 ((a, i, x) :: ps) c (cpfx x a i) -> wact w1 = true ->
       (forall h, wah w1 h -> ahead dir h ((a, i, x) :: ps) c (cpfx x a i) (cstart dir c)) -> safeR t (K2 c) l1 w1 (Qit dir l1)) ->
    (forall l1 w1, kincl l l1 -> pos_ok l1 ps a x -> wact w1 = true ->
       (forall h, wah w1 h -> ahead dir h ps a x (pre dir i)) -> safeR t K1 l1 w1 (Qit dir l1)) ->
    (forall w1, wact w1 = true -> (forall h, wah w1 h -> ahead dir h ps a x (post dir i)) -> safeR t K0 l w1 (Qit dir l)) ->
    safeR t (Act (a_ld a i) (fun v =>
               if Nat.eqb (sbits (vslot v)) 2 then K2 (sptr (vslot v))
               else if Nat.eqb (sbits (vslot v)) 1 then K1
               else if negb (Nat.eqb (sptr (vslot v)) 0) then
                 Conc.bind (protect sf t s (mkPos a i 0)) (fun pr =>
                   match pr with
                   | None => Ret None
                   | Some v' => if slot_eqb (vslot v') (vslot v) then Ret (Some (strip ps, a, i, Some v')) else K1
                   end)
               else K0)) l w (Qit dir l).
  Proof.
    intros Hpos Hact Hah HK2 HK1 HK0.
    destruct (pos_ok_in hbits abits _ _ _ _ Hpos) as [Hin Hlt].
    apply safeR_same; [reflexivity|]. intros g A tr HI Hv. cbn [a_ld fst snd vslot vkey].
    assert (Hp : pfx A a = Some x). { unfold view in Hv. subst l. eapply (i_stk HI); exact Hin. }
    destruct x as [o pre0]. cbn [fst snd] in Hlt.
    destruct (arr g a i) as [c b] eqn:Hs. cbn [sbits sptr].
    assert (OBS : forall h p, arr g a i = mkSlot p 0 -> under h (o, pre0) -> cut h o (bits_of a) = i ->
                    (present g h <-> (p <> 0 /\ hash (ikey g p) = h))).
    { intros h p Hs0 U E. unfold under in U. cbn [fst snd] in U.
      apply (@FeldmanLinInv.obs_slot hbits abits hs Hh Ha g A tr a o h p HI); [rewrite U; exact Hp|rewrite E; exact Hs0]. }
    destruct (Nat.eqb_spec b 2) as [->|Hb2].
    - (* array node: descend *)
      destruct (i_child HI _ _ Hp Hs) as (C1 & C2 & C3).
      destruct (i_lim HI _ C1) as (_ & Clt & _).
      set (x' := cpfx (o, pre0) a i) in *.
      exists (set_view A t (push_stk l c x')),
             (mkW true (wstart w) (fun h => wP w h /\ present g h) (wvis w)
                  (fun h => ahead dir h ((a, i, (o, pre0)) :: ps) c x' (cstart dir c)) (wfnd w) (wcur w) (wv w) (wrem w) (wgone w)).
      split; [unfold view in Hv; subst l; apply Inv_push; [exact HI|exact C1]|]. split; [apply frame_set_view|].
      split.
      { eapply TR_move; [apply all_acc1|exact Hact|reflexivity| |left; reflexivity|reflexivity].
        intros h _ Hw. apply (ahead_descend Hh Ha); [exact Hlt|apply Hah; exact Hw]. }
      rewrite view_set_same.
      apply ConcRel.safeR_weaken with (Q := Qit dir (push_stk l c x')).
      { intros r l3 w3 H. eapply Qit_weaken; [apply FeldmanIterSafe.kincl_push|exact H]. }
      apply HK2; [apply FeldmanIterSafe.kincl_push| |reflexivity|intros h Hw; exact Hw].
      cbn [FeldmanIterTraceDefs.pos_ok]. split; [left; reflexivity|]. split; [exact Clt|]. split; [reflexivity|]. split; [exact C3|].
      eapply pos_ok_incl; [|exact Hpos]. intros e He. right. exact He.
    - destruct (Nat.eqb_spec b 1) as [->|Hb1].
      + (* converting: re-read *)
        exists A, w. split; [exact HI|]. split; [apply frame_refl|].
        split; [apply TR_acc_same; apply all_acc1|]. rewrite Hv.
        apply HK1; [apply FeldmanIterSafe.kincl_refl|exact Hpos|exact Hact|exact Hah].
      + assert (b = 0).
        { destruct (le_lt_dec 2 b) as [Hge|Hl]; [|lia]. destruct (i_arrslot HI _ _ Hs Hge) as [E _]. congruence. }
        subst b.
        destruct (Nat.eqb_spec c 0) as [->|Hc0]; cbn [negb].
        * (* empty slot: pass *)
          exists A, (mkW true (wstart w) (fun h => wP w h /\ present g h) (wvis w)
                         (fun h => ahead dir h ps a (o, pre0) (post dir i)) (wfnd w) (wcur w) (wv w) (wrem w) (wgone w)).
          split; [exact HI|]. split; [apply frame_refl|]. split.
          { eapply TR_move; [apply all_acc1|exact Hact|reflexivity| |left; reflexivity|reflexivity].
            intros h Hpr Hw. apply (ahead_pass Hh Ha); [apply Hah; exact Hw|]. intros U E.
            apply (OBS h 0 Hs U E) in Hpr. destruct Hpr as [Hn _]. apply Hn. reflexivity. }
          rewrite Hv. apply HK0; [reflexivity|intros h Hw; exact Hw].
        * (* an element: remember its identity and key, protect, compare *)
          set (k := ikey g c).
          destruct (i_data HI _ _ Hp Hs Hb2 Hc0) as ((F1 & F2) & Hle & _).
          set (l1 := know_id l c k).
          exists (set_view A t l1),
                 (mkW true (wstart w) (fun h => wP w h /\ present g h) (wvis w)
                      (fun h => ahead dir h ps a (o, pre0) (post dir i) \/ h = hash k) (c, k) (wcur w) (wv w) (wrem w) (wgone w)).
          split.
          { unfold view in Hv. apply Inv_view_fields; try (rewrite Hv; reflexivity); [exact HI|].
            cbn [l1 know_id kit kkey kid kidk]. split.
            - rewrite <- Hv. apply (i_items HI t).
            - intros _. split; [exact Hle|reflexivity]. }
          split; [apply frame_set_view|]. split.
          { eapply TR_move; [apply all_acc1|exact Hact|reflexivity| | |reflexivity].
            - intros h Hpr Hw. specialize (Hah h Hw).
              destruct (under_dec h (o, pre0)) as [U|U]; [destruct (Nat.eq_dec (cut h o (bits_of a)) i) as [E|E]|].
              + right. apply (OBS h c Hs U E) in Hpr. destruct Hpr as [_ Hh']. symmetry. exact Hh'.
              + left. apply (ahead_pass Hh Ha); [exact Hah|]. intros _. exact E.
              + left. apply (ahead_pass Hh Ha); [exact Hah|]. intros U'. contradiction.
            - right. unfold found. cbn [fst snd]. split; [|reflexivity]. exists a, i. split.
              + eapply (@FeldmanLinInv.pfx_reach hbits abits hs Hh Ha g A tr HI o a o); [apply le_n|exact Hp].
              + exists 0. repeat split; auto. }
          rewrite view_set_same.
          assert (Kl : kincl l l1) by apply kincl_know_id.
          assert (Hpos1 : pos_ok l1 ps a (o, pre0)) by (eapply pos_ok_kincl; eauto).
          apply ConcRel.safeR_bind. eapply ConcRel.safeR_weaken; [|apply safeR_protect].
          intros pr l' w' (-> & -> & KP). destruct pr as [v'|].
          2:{ cbn [ConcRel.safeR]. split; [exact Kl|]. split; [reflexivity|exact I]. }
          destruct (slot_eqb (vslot v') (mkSlot c 0)) eqn:Es.
          -- apply slot_eqb_eq in Es. cbn [ConcRel.safeR]. split; [exact Kl|]. split; [reflexivity|].
             assert (Hk : vkey v' = k).
             { apply (KP v' eq_refl); cbn [l1 know_id kid kidk]; [rewrite Es; reflexivity|exact Hc0]. }
             exists ps, (o, pre0). split; [reflexivity|]. split; [exact Hpos1|]. rewrite Es. cbn [sptr].
             split; [exact Hc0|]. cbn [wfnd wah]. split; [rewrite Hk; reflexivity|].
             split; [reflexivity|]. split; [cbn [l1 know_id kidk]; symmetry; exact Hk|].
             split; [rewrite Hk; exact F1|]. split; [rewrite Hk; cbn [fst]; symmetry; exact F2|].
             intros h Hw. rewrite Hk. exact Hw.
          -- apply ConcRel.safeR_weaken with (Q := Qit dir l1).
             { intros r l3 w3 H. eapply Qit_weaken; [exact Kl|exact H]. }
             apply HK1; [exact Kl|exact Hpos1|reflexivity|].
             cbn [wah]. intros h [Hw| ->]; [apply (ahead_back Hh Ha); exact Hw|].
             apply (ahead_at Hh Ha); [exact F1|cbn [fst]; symmetry; exact F2].
  Qed.

  (** ** forward() *)
  Lemma safeR_fwd t s sf : forall fuel ps a x i l w,
    pos_ok l ps a x -> wact w = true -> (forall h, wah w h -> ahead true h ps a x i) ->
    safeR t (fwd hbits abits fuel sf t s (strip ps) a i) l w (Qit true l).
  Proof.
    induction fuel as [|fuel IH]; intros ps a x i l w Hpos Hact Hah; cbn [fwd].
    - cbn [ConcRel.safeR]. split; [apply FeldmanIterSafe.kincl_refl|]. split; [exact Hact|exact I].
    - destruct (Nat.ltb i (nsize a)) eqn:Elt.
      + change ((a, i) :: strip ps) with (strip ((a, i, x) :: ps)).
        apply safeR_examine with (x := x) (dir := true)
          (K2 := fun c => fwd hbits abits fuel sf t s (strip ((a, i, x) :: ps)) c 0)
          (K1 := fwd hbits abits fuel sf t s (strip ps) a i)
          (K0 := fwd hbits abits fuel sf t s (strip ps) a (S i)); auto.
        * intros c l1 w1 K P1 A1 H1. apply IH with (x := cpfx x a i); auto.
        * intros l1 w1 K P1 A1 H1. apply IH with (x := x); auto.
        * intros w1 A1 H1. apply IH with (x := x); auto.
      + apply Nat.ltb_ge in Elt. destruct ps as [|[[pa pi] px] r]; cbn [strip map fst].
        * cbn [ConcRel.safeR]. split; [apply FeldmanIterSafe.kincl_refl|]. split; [exact Hact|].
          intros h Hw. apply (@ahead_end hbits abits Hh Ha true h a x i Elt). apply Hah. exact Hw.
        * cbn [FeldmanIterTraceDefs.pos_ok] in Hpos. destruct Hpos as (_ & _ & _ & _ & Hpos).
          apply IH with (x := px); auto. intros h Hw.
          apply (@ahead_pop hbits abits Hh Ha true h pa pi px r a x i (Hah h Hw) Elt).
  Qed.

  (** ** backward() *)
  Lemma safeR_bwd t s sf : forall fuel ps a x j l w,
    pos_ok l ps a x -> wact w = true -> (forall h, wah w h -> ahead false h ps a x j) ->
    safeR t (bwd hbits abits fuel sf t s (strip ps) a j) l w (Qit false l).
  Proof.
    induction fuel as [|fuel IH]; intros ps a x j l w Hpos Hact Hah; cbn [bwd].
    - cbn [ConcRel.safeR]. split; [apply FeldmanIterSafe.kincl_refl|]. split; [exact Hact|exact I].
    - destruct j as [|i].
      + destruct ps as [|[[pa pi] px] r]; cbn [strip map fst].
        * cbn [ConcRel.safeR]. split; [apply FeldmanIterSafe.kincl_refl|]. split; [exact Hact|].
          intros h Hw. apply (@ahead_end hbits abits Hh Ha false h a x 0 eq_refl). apply Hah. exact Hw.
        * cbn [FeldmanIterTraceDefs.pos_ok] in Hpos. destruct Hpos as (_ & _ & _ & _ & Hpos).
          apply IH with (x := px); auto. intros h Hw.
          apply (@ahead_pop hbits abits Hh Ha false h pa pi px r a x 0 (Hah h Hw) eq_refl).
      + change ((a, i) :: strip ps) with (strip ((a, i, x) :: ps)).
        apply safeR_examine with (x := x) (dir := false)
          (K2 := fun c => bwd hbits abits fuel sf t s (strip ((a, i, x) :: ps)) c (nsize c))
          (K1 := bwd hbits abits fuel sf t s (strip ps) a (S i))
          (K0 := bwd hbits abits fuel sf t s (strip ps) a i); auto.
        * intros c l1 w1 K P1 A1 H1. apply IH with (x := cpfx x a i); auto.
        * intros l1 w1 K P1 A1 H1. apply IH with (x := x); auto.
        * intros w1 A1 H1. apply IH with (x := x); auto.
  Qed.

  (** ** the client loop *)
  Definition Qil (l : L) : option unit -> L -> WI -> Prop :=
    fun r l' w' => kincl l l' /\ wact w' = true /\ (r <> None -> forall h, ~ wah w' h).

  Lemma safeR_iter_loop t s kdel sf dir : forall fuel ps a x i l w,
    pos_ok l ps a x -> ph l = PIdle -> wact w = true -> (forall h, wah w h -> ahead dir h ps a x i) ->
    safeR t (iter_loop hbits abits hs fuel sf dir t s kdel (strip ps) a i) l w (Qil l).
  Proof.
    induction fuel as [|fuel IH]; intros ps a x i l w Hpos Hph Hact Hah; cbn [iter_loop].
    - split; [apply FeldmanIterSafe.kincl_refl|]. split; [exact Hact|]. intros H; congruence.
    - apply ConcRel.safeR_bind.
      apply ConcRel.safeR_weaken with (Q := Qit dir l).
      2:{ destruct dir; [eapply safeR_fwd|eapply safeR_bwd]; eauto. }
      intros [[[[stk' a'] i'] [v|]]|] l1 w1 (K1 & A1 & K2).
      3:{ split; [exact K1|]. split; [exact A1|]. intros H; congruence. }
      2:{ split; [exact K1|]. split; [exact A1|]. intros _. exact K2. }
      destruct K2 as (ps' & x' & -> & P1 & Hv0 & Hfnd & Hkid & Hkidk & Hund & Hcut & Hah1).
      assert (Hph1 : ph l1 = PIdle) by (destruct K1 as [_ E]; congruence).
      apply ConcRel.safeR_weaken with (Q := Qil l1).
      { intros r l3 w3 (H1 & H2). split; [eapply FeldmanIterSafe.kincl_trans; eauto|exact H2]. }
      unfold a_gld. apply safeR_nop.
      (* the visit *)
      cbn [ConcRel.safeR]. intros g A tr HI Hv.
      set (w2 := mkW true (wstart w1) (wP w1) (wfnd w1 :: wvis w1) (fun h => ahead dir h ps' a' x' (post dir i'))
                     (wfnd w1) (wfnd w1) (List.length tr) 0 false).
      exists A, w2. split; [eapply Inv_trace; exact HI|]. split; [apply frame_refl|].
      split.
      { split; [apply FeldmanIterReachBase.Rel2_refl|].
        eapply TR_visit; [rewrite Hfnd; reflexivity|exact A1|reflexivity|rewrite Hfnd; exact Hv0| |reflexivity].
        intros h Hw. rewrite Hfnd. cbn [snd]. apply Hah1. exact Hw. }
      rewrite Hv.
      assert (NEXT : forall l2 w3, kincl l1 l2 -> wact w3 = true -> wah w3 = wah w2 ->
                safeR t (iter_loop hbits abits hs fuel sf dir t s kdel (strip ps') a' (if dir then S i' else i')) l2 w3 (Qil l2)).
      { intros l2 w3 K A3 E3. apply IH with (x := x'); [eapply pos_ok_kincl; eauto|destruct K as [_ E]; congruence|exact A3|].
        intros h Hw. rewrite E3 in Hw. exact Hw. }
      assert (A2 : wact w2 = true) by reflexivity.
      assert (R2 : wrem w2 = 0) by reflexivity.
      assert (C2 : wcur w2 = wfnd w1) by reflexivity.
      clearbody w2. clear g A tr HI Hv.
      destruct (Nat.eqb (vkey v) kdel).
      + destruct x' as [o' pre'].
        destruct (pos_ok_in hbits abits _ _ _ _ P1) as [Hin' _].
        apply ConcRel.safeR_bind.
        eapply ConcRel.safeR_weaken;
          [|apply (@safeR_erase_at_loop hbits abits hs Hh Ha t s a' i' (sptr (vslot v)) (vkey v) sf o' pre' Hv0 Hund Hcut sf l1 w2 Hin' Hkid Hkidk Hph1)].
        * intros [b|] l2 w3 (K3 & (W1 & W2 & W3 & W4 & W5) & K4).
          -- (* the "erased" event *)
             cbn [ConcRel.safeR]. intros g A tr HI Hv. exists A, w3. split; [eapply Inv_trace; exact HI|]. split; [apply frame_refl|].
             split.
             { split; [apply FeldmanIterReachBase.Rel2_refl|].
               rewrite R2 in K4.
               eapply TR_erased; [reflexivity|rewrite W1; exact A2|reflexivity|rewrite W3, C2, Hfnd; exact Hv0| | |reflexivity].
               - intros ->. exact K4.
               - intros ->. exact K4. }
             rewrite Hv.
             eapply ConcRel.safeR_weaken; [|apply NEXT; [apply kinc_kincl; exact K3|rewrite W1; exact A2|exact W2]].
             intros r l3 w4 (H1 & H2). split; [eapply FeldmanIterSafe.kincl_trans; [apply kinc_kincl; exact K3|exact H1]|exact H2].
          -- split; [apply kinc_kincl; exact K3|]. split; [rewrite W1; exact A2|]. intros H; congruence.
        * rewrite C2, Hfnd. reflexivity.
        * exact A2.
      + apply NEXT; [apply FeldmanIterSafe.kincl_refl|exact A2|reflexivity].
  Qed.

  (** ** operations and threads *)
  Definition Qop : option bool -> L -> WI -> Prop := fun r l' w' => ph l' = PIdle /\ (r <> None -> wact w' = false).

  Lemma under_root h : under h (0, 0%N).
  Proof. unfold under. cbn [fst snd]. apply N.mod_1_r. Qed.

  Lemma code_dec c : {iter_code c} + {~ iter_code c}.
  Proof.
    unfold iter_code. destruct (Nat.eq_dec c 20); [left; auto|]. destruct (Nat.eq_dec c 21); [left; auto|]. right; intros [|]; auto.
  Qed.

  Lemma safeR_run_opI fuel t o gs l w : ph l = PIdle -> wact w = false ->
    safeR t (run_opI hbits abits W hs fuel t o gs) l w Qop.
  Proof.
    intros HPh Hw. unfold run_opI.
    destruct o as [|code [|kz [|x r]]]; try (split; [exact HPh|intros _; exact Hw]).
    destruct (Nat.eqb (Z.to_nat code) 20 || Nat.eqb (Z.to_nat code) 21) eqn:Ec.
    - assert (Hc : iter_code (Z.to_nat code)).
      { apply orb_true_iff in Ec. destruct Ec as [E|E]; apply Nat.eqb_eq in E; [left|right]; exact E. }
      set (dir := Nat.eqb (Z.to_nat code) 20).
      set (i0 := if dir then 0 else nsize 0).
      cbn [ConcRel.safeR]. intros g A tr HI Hv. unfold view in Hv.
      set (w1 := mkW true (List.length tr) (fun _ : N => True) [] (fun _ : N => True) (0, 0) (0, 0) (List.length tr) 0 false).
      exists (set_view A t (push_stk (views A t) 0 (0, 0%N))), w1. split.
      { eapply Inv_trace. apply Inv_push; [exact HI|apply (i_head HI)]. }
      split; [apply frame_set_view|]. split.
      { split; [apply FeldmanIterReachBase.Rel2_refl|]. eapply TR_start; [reflexivity|exact Hc|reflexivity|reflexivity]. }
      rewrite view_set_same, Hv.
      apply ConcRel.safeR_bind.
      change (@nil (nat * nat)) with (strip []).
      eapply ConcRel.safeR_weaken; [|apply safeR_iter_loop with (x := (0, 0%N)) (dir := dir) (i := i0)].
      + intros [u|] l1 w2 ((K1 & K2) & A2 & K3); cbn [push_stk ph] in K2.
        * unfold a_gst. apply safeR_nop. apply safeR_nop.
          cbn [ConcRel.safeR]. intros g2 A2' tr2 HI2 Hv2.
          exists A2', (mkW false (wstart w2) (wP w2) (wvis w2) (wah w2) (wfnd w2) (wcur w2) (wv w2) (wrem w2) (wgone w2)).
          split; [eapply Inv_trace; exact HI2|]. split; [apply frame_refl|]. split.
          { split; [apply FeldmanIterReachBase.Rel2_refl|].
            eapply TR_finish; [reflexivity|exact A2|reflexivity|apply K3; discriminate|reflexivity]. }
          rewrite Hv2. split; [congruence|]. intros _. reflexivity.
        * unfold give_up. apply safeR_emit_quiet; [apply quiet_oof|]. split; [congruence|]. intros H; congruence.
      + cbn [FeldmanIterTraceDefs.pos_ok push_stk kstk]. split; [left; reflexivity|]. split; [cbn; lia|]. split; reflexivity.
      + cbn [push_stk ph]. exact HPh.
      + reflexivity.
      + intros h _. rewrite ahead_unfold. left. split; [apply under_root|].
        unfold i0. destruct dir; cbn [cmp]; [lia|]. apply (cut_lt_nsize Hh Ha).
    - assert (Hc : ~ iter_code (Z.to_nat code)).
      { apply orb_false_iff in Ec. destruct Ec as [E1 E2]. apply Nat.eqb_neq in E1, E2. intros [|]; auto. }
      eapply ConcRel.safeR_weaken; [|apply safeR_run_op; [exact Hh|exact Ha|exact Hw| |exact HPh]].
      + intros r0 l' w' [H1 ->]. split; [exact H1|]. intros _. exact Hw.
      + intros c' k' E. inversion E; subst. exact Hc.
  Qed.

  Lemma safeR_run_opsI fuel t : forall os gs l w, ph l = PIdle -> wact w = false ->
    safeR t (run_opsI hbits abits W hs fuel t os gs) l w (fun _ _ _ => True).
  Proof.
    induction os as [|o r IH]; intros gs l w H Hw; cbn [run_opsI]; [exact I|].
    apply ConcRel.safeR_bind. eapply ConcRel.safeR_weaken; [|apply safeR_run_opI; assumption].
    intros [gs'|] l' w' [H1 H2]; [|exact I]. apply IH; [exact H1|apply H2; discriminate].
  Qed.

  Lemma safeR_threadI fuel t os l w : ph l = PIdle -> wact w = false ->
    safeR t (thread_progI hbits abits W hs fuel t os) l w (@ConcRel.QTrueR L WI).
  Proof.
    intros H Hw. unfold thread_progI. apply safeR_read; [reflexivity|intros g; apply acc_begin|]. intros g A tr HI Hv.
    eapply ConcRel.safeR_weaken; [|apply safeR_run_opsI; assumption]. intros; exact I.
  Qed.

  Lemma init_okRI fuel ths :
    ConcRel.okR view Inv SR (init_cfgI hbits abits W hs fuel ths) FeldmanStepSafe.A0 (fun _ => w0).
  Proof.
    split; [apply FeldmanStepSafe.Inv_init; assumption|].
    intros t p Hp. cbn [init_cfgI Conc.threads] in Hp. destruct (FeldmanIterSafe.nth_thread_progsI W hs Hh Ha fuel ths 0 t Hp) as (os & ->).
    cbn [Nat.add]. apply safeR_threadI; reflexivity.
  Qed.
End Iter.
