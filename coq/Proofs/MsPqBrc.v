(** * The slot sequence of MSPriorityQueue: facts about cds::bitop::bit_reverse_counter as used by the heap.

    [st n] is the counter after n calls of inc() (from the initial state), [slot n] the value returned by the
    n-th inc().  Everything the heap proofs need about the counter is collected in two boolean predicates of the
    capacity, evaluated by computation for the capacities of interest (the property's quantifier is 1..16; the
    sweep below goes to 255 for the capacities cap + 1 = 2^k the buffers with Exp2 = true produce):

      [slots_ok cap]  for 1 <= n <= cap: 1 <= slot n <= cap (the slot is inside the buffer of cap + 1 cells and
                      is not cell 0), the slots are pairwise distinct, dec() undoes inc() exactly
                      ([snd (brc_dec (st n)) = st (n-1)]);
      [shape_ok cap]  the occupied cells always form a tree: the parent of slot n (n >= 2) is a slot m < n, and
                      a right child (odd slot >= 3) is allocated after its left sibling.

    Tie to the translated source: LV.Proofs.MsPqBrcGen proves [MsPq.brc_inc] / [MsPq.brc_dec] equal to the functions
    GENERATED from cds/details/bit_reverse_counter.h (LV.Gen.Gen_brc, property C26) on every representable state.
    Still open: replacing the bounded sweep below by the general theorems of C26 (its closed form [C26_Counter.st],
    inc_st / dec_st) -- it needs [slot_range], [slot_inj], the parent / left-sibling order for every n, derived from
    the closed form 2^h + rev h (n - 2^h); the quantifier of C11 (capacities 1..16) does not need it. *)
From Coq Require Import ZArith List Bool Lia PeanoNat.
From LV Require Import Model.MsPq.
Import ListNotations.

Fixpoint st (n : nat) : brc :=
  match n with O => brc_init | S m => snd (brc_inc (st m)) end.

Definition slot (n : nat) : nat :=
  match n with O => O | S m => Z.to_nat (fst (brc_inc (st m))) end.

Lemma bc_inc s : bc (snd (brc_inc s)) = (bc s + 1)%Z.
Proof. unfold brc_inc. destruct (inc_loop _ _) as [[|] r]; reflexivity. Qed.

Lemma br_inc s : br (snd (brc_inc s)) = fst (brc_inc s).
Proof. unfold brc_inc. destruct (inc_loop _ _) as [[|] r]; reflexivity. Qed.

Lemma fst_dec s : fst (brc_dec s) = br s.
Proof. unfold brc_dec. destruct (dec_loop _ _) as [[|] r]; reflexivity. Qed.

Lemma bc_st n : bc (st n) = Z.of_nat n.
Proof. induction n as [|n IH]; [reflexivity|]. cbn [st]. rewrite bc_inc, IH. lia. Qed.

Lemma slot_S n : slot (S n) = Z.to_nat (fst (brc_inc (st n))).
Proof. reflexivity. Qed.

Lemma slot_dec n : Z.to_nat (fst (brc_dec (st (S n)))) = slot (S n).
Proof. rewrite fst_dec. cbn [st]. rewrite br_inc. reflexivity. Qed.

Definition brc_eqb (a b : brc) : bool :=
  Z.eqb (bc a) (bc b) && Z.eqb (br a) (br b) && Z.eqb (bh a) (bh b).

Lemma brc_eqb_eq a b : brc_eqb a b = true -> a = b.
Proof.
  destruct a, b. unfold brc_eqb. cbn. rewrite !andb_true_iff, !Z.eqb_eq. intros [[-> ->] ->]. reflexivity.
Qed.

Fixpoint nodupb (l : list nat) : bool :=
  match l with [] => true | x :: r => negb (existsb (Nat.eqb x) r) && nodupb r end.

Lemma nodupb_NoDup l : nodupb l = true -> NoDup l.
Proof.
  induction l as [|x r IH]; cbn; [constructor|]. rewrite andb_true_iff, negb_true_iff. intros [H1 H2].
  constructor; auto. intros Hin. assert (existsb (Nat.eqb x) r = true).
  { apply existsb_exists. exists x. split; auto. apply Nat.eqb_refl. }
  congruence.
Qed.

Definition slist (cap : nat) : list (nat * nat) := map (fun n => (n, slot n)) (seq 1 cap).

Definition slots_ok (cap : nat) : bool :=
  let sl := slist cap in
  forallb (fun ns => Nat.leb 1 (snd ns) && Nat.leb (snd ns) cap) sl
  && nodupb (map snd sl)
  && forallb (fun n => brc_eqb (snd (brc_dec (st n))) (st (pred n))) (seq 1 cap)
  && forallb (fun i => existsb (fun ns => Nat.eqb (snd ns) i) sl) (seq 1 cap).

Definition shape_ok (cap : nat) : bool :=
  let sl := slist cap in
  forallb (fun ns => Nat.ltb (fst ns) 2
                     || existsb (fun ms => Nat.ltb (fst ms) (fst ns) && Nat.eqb (snd ms) (Nat.div2 (snd ns))) sl) sl
  && forallb (fun ns => negb (Nat.odd (snd ns) && Nat.leb 3 (snd ns))
                     || existsb (fun ms => Nat.ltb (fst ms) (fst ns) && Nat.eqb (snd ms) (snd ns - 1)) sl) sl.

Lemma in_slist cap n s : In (n, s) (slist cap) <-> 1 <= n <= cap /\ s = slot n.
Proof.
  unfold slist. rewrite in_map_iff. split.
  - intros (m & E & Hm). inversion E; subst. apply in_seq in Hm. split; [lia|reflexivity].
  - intros [Hn ->]. exists n. split; [reflexivity|]. apply in_seq. lia.
Qed.

Lemma map_snd_slist cap : map snd (slist cap) = map slot (seq 1 cap).
Proof. unfold slist. rewrite map_map. reflexivity. Qed.

Section Facts.
  Variable cap : nat.
  Hypothesis OK : slots_ok cap = true.

  Lemma in_seq1 n : In n (seq 1 cap) <-> 1 <= n <= cap.
  Proof. rewrite in_seq. lia. Qed.

  Lemma slot_range n : 1 <= n <= cap -> 1 <= slot n <= cap.
  Proof.
    intros Hn. unfold slots_ok in OK. cbv zeta in OK. rewrite !andb_true_iff in OK. destruct OK as [[[H _] _] _].
    rewrite forallb_forall in H. specialize (H (n, slot n) (proj2 (in_slist cap n (slot n)) (conj Hn eq_refl))).
    cbn [snd] in H. rewrite andb_true_iff, !Nat.leb_le in H. exact H.
  Qed.

  Lemma NoDup_map_inj_in {A B} (f : A -> B) (l : list A) x y :
    NoDup (map f l) -> In x l -> In y l -> f x = f y -> x = y.
  Proof.
    induction l as [|z l IH]; cbn; [tauto|]. intros Hnd Hx Hy E. inversion Hnd as [|? ? Hn Hnd']; subst.
    destruct Hx as [->|Hx], Hy as [->|Hy]; auto.
    - exfalso. apply Hn. rewrite E. apply in_map. exact Hy.
    - exfalso. apply Hn. rewrite <- E. apply in_map. exact Hx.
  Qed.

  Lemma slot_inj n m : 1 <= n <= cap -> 1 <= m <= cap -> slot n = slot m -> n = m.
  Proof.
    intros Hn Hm E. unfold slots_ok in OK. cbv zeta in OK. rewrite !andb_true_iff in OK. destruct OK as [[[_ H] _] _].
    apply nodupb_NoDup in H. rewrite map_snd_slist in H.
    eapply NoDup_map_inj_in; eauto; apply in_seq1; assumption.
  Qed.

  Lemma slot_surj i : 1 <= i <= cap -> exists n, 1 <= n <= cap /\ slot n = i.
  Proof.
    intros Hi. unfold slots_ok in OK. cbv zeta in OK. rewrite !andb_true_iff in OK. destruct OK as [_ H].
    rewrite forallb_forall in H. specialize (H i (proj2 (in_seq1 i) Hi)).
    apply existsb_exists in H. destruct H as ([n s] & Hn & E). apply in_slist in Hn. cbn [snd] in E.
    apply Nat.eqb_eq in E. destruct Hn as [Hn ->]. eauto.
  Qed.

  Lemma dec_st n : 1 <= n <= cap -> snd (brc_dec (st n)) = st (pred n).
  Proof.
    intros Hn. unfold slots_ok in OK. cbv zeta in OK. rewrite !andb_true_iff in OK. destruct OK as [[_ H] _].
    rewrite forallb_forall in H. apply brc_eqb_eq. apply H. apply in_seq1. exact Hn.
  Qed.
End Facts.

Section Shape.
  Variable cap : nat.
  Hypothesis SH : shape_ok cap = true.

  Lemma slot_parent n : 2 <= n <= cap -> exists m, 1 <= m < n /\ slot m = Nat.div2 (slot n).
  Proof.
    intros Hn. unfold shape_ok in SH. cbv zeta in SH. rewrite andb_true_iff in SH. destruct SH as [H _].
    rewrite forallb_forall in H.
    specialize (H (n, slot n) (proj2 (in_slist cap n (slot n)) (conj (conj (Nat.le_trans _ _ _ (Nat.le_succ_diag_r 1) (proj1 Hn)) (proj2 Hn)) eq_refl))). cbn [fst snd] in H.
    apply orb_true_iff in H. destruct H as [H|H]; [apply Nat.ltb_lt in H; lia|].
    apply existsb_exists in H. destruct H as ([m s] & Hm & E). apply in_slist in Hm. destruct Hm as [Hm ->].
    cbn [fst snd] in E. rewrite andb_true_iff, Nat.ltb_lt, Nat.eqb_eq in E. exists m. split; [lia|tauto].
  Qed.

  Lemma slot_left n : 1 <= n <= cap -> Nat.odd (slot n) = true -> 3 <= slot n ->
    exists m, 1 <= m < n /\ slot m = slot n - 1.
  Proof.
    intros Hn Ho H3. unfold shape_ok in SH. cbv zeta in SH. rewrite andb_true_iff in SH. destruct SH as [_ H].
    rewrite forallb_forall in H.
    specialize (H (n, slot n) (proj2 (in_slist cap n (slot n)) (conj Hn eq_refl))). cbn [fst snd] in H.
    apply orb_true_iff in H. destruct H as [H|H].
    - rewrite negb_true_iff, andb_false_iff in H. destruct H as [H|H]; [congruence|].
      apply Nat.leb_gt in H. lia.
    - apply existsb_exists in H. destruct H as ([m s] & Hm & E). apply in_slist in Hm. destruct Hm as [Hm ->].
      cbn [fst snd] in E. rewrite andb_true_iff, Nat.ltb_lt, Nat.eqb_eq in E. exists m. split; [lia|tauto].
  Qed.
End Shape.

(** ** the capacities: which ones are safe *)

(** buffers with Exp2 = true: cap + 1 = 2^k.  Swept for k <= 8 (cap <= 255). *)
Lemma slots_ok_pow2 k : k <= 8 -> slots_ok (2 ^ k - 1) = true /\ shape_ok (2 ^ k - 1) = true.
Proof.
  intros Hk.
  assert (H : forallb (fun k => slots_ok (2 ^ k - 1) && shape_ok (2 ^ k - 1)) (seq 0 9) = true) by (vm_compute; reflexivity).
  rewrite forallb_forall in H. specialize (H k). rewrite andb_true_iff in H. apply H. apply in_seq. lia.
Qed.

(** the capacities 1..16 for which some slot falls outside the buffer (or the other facts fail):
    with a buffer whose size is not a power of two (Exp2 = false) capacity 5 makes the fifth push use
    m_Heap[6] of a 6-cell buffer. *)
Lemma unsafe_capacities_upto_16 :
  filter (fun c => negb (slots_ok c)) (seq 1 16) = [5; 9; 10; 11; 12; 13].
Proof. vm_compute. reflexivity. Qed.

Lemma first_slots : map slot (seq 1 16) = [1; 2; 3; 4; 6; 5; 7; 8; 12; 10; 14; 9; 13; 11; 15; 16].
Proof. vm_compute. reflexivity. Qed.

(** the safe ones also have the tree shape *)
Lemma safe_capacities_shape :
  forallb (fun c => negb (slots_ok c) || shape_ok c) (seq 1 64) = true.
Proof. vm_compute. reflexivity. Qed.
