(** * DhpLiveGsC: C02, second sentence for DHP -- "a scan frees only what was retired before it began".
      Part C: the invariant [JS] that is added to the C03 invariant [JB] of LV.Proofs.DhpInvB, its frame lemmas, and the
      proof rules for the paired invariant [InvS].

    [JS a tr] reads the ghost map [wh : pointer -> place] and the owner lists [vb_own] of [JB]'s auxiliary state:
      - [js_ann]: a pointer that has a place was announced by an "op 9 p" event;
      - [js_scan]: while thread u is between "_scanb" (index s0) and "_scane", every pointer whose place is "in flight
        in u" or "array of a record owned by u" was announced before s0;
      - [js_hist]: the property itself, for the disposer calls already made.
    The step lemmas of [JB] (DhpStepsB1 .. B10) are reused unchanged; only the program-level proofs are redone
    (DhpLiveGsD .. GsH) with one more obligation per node.  The knowledge "thread t is not inside a scan" at the three
    kinds of steps that need it (the "op 9 p" announcement, a successful CAS / a store on thread_id_) is a hypothesis
    of the invariant, the trace property [TO], which is proved for every reachable trace in DhpLiveGsB. *)
From Coq Require Import ZArith NArith List String Bool Lia PeanoNat.
From LV Require Import Base.Conc Base.Events Model.DhpLang Model.Dhp Proofs.DhpBase Proofs.DhpSeq Proofs.DhpSeqThm Proofs.DhpHist
  Proofs.DhpLangProofs Proofs.DhpLiveA Proofs.DhpInvB Proofs.DhpQuietB Proofs.DhpQuietB2 Proofs.DhpRulesB.
Import ListNotations.
Local Open Scope string_scope.
Local Open Scope list_scope.

Definition ev9 (p : nat) : ev := EvCli "op" [9%Z; zn p].

(** retire( p ) was announced at an index below [s0] *)
Definition rbef (tr : list (nat * ev)) (p s0 : nat) : Prop :=
  exists rho x, rho < s0 /\ nth_error tr rho = Some (x, ev9 p).

(** the place of [p] is thread [u]: in flight in [u], or in the array of a record [u] owns *)
Definition inpl (a : AuxB) (u p : nat) : Prop :=
  wh a p = LFly u \/ exists r, In r (vb_own (bvs a u)) /\ wh a p = LRec r.

Record JS (a : AuxB) (tr : list (nat * ev)) : Prop := {
  js_ann : forall p, wh a p <> LNo -> rbef tr p (List.length tr);
  js_scan : forall u s0 p, scan (hist tr) u = Some s0 -> inpl a u p -> rbef tr p s0;
  js_hist : forall d u p s0, nth_error tr d = Some (u, ev_dispose p) -> scan (hist (firstn d tr)) u = Some s0 -> rbef tr p s0 }.

(** ** the trace hypothesis: "op" events and non-load accesses to thread_id_ are made outside smr::scan *)
Definition guardedb (e : ev) : bool :=
  match e with
  | EvCli name _ => String.eqb name "op"
  | EvAcc k [0%Z; _; 0%Z] _ => match k with KLd => false | _ => true end
  | EvAcc _ _ _ => false
  end.

Definition TO (tr : list (nat * ev)) : Prop :=
  forall v t e, nth_error tr v = Some (t, e) -> guardedb e = true -> scan (hist (firstn v tr)) t = None.

Lemma firstn_app_le' {A} (l l' : list A) n : n <= List.length l -> firstn n (l ++ l') = firstn n l.
Proof. intros H. rewrite firstn_app. replace (n - List.length l) with 0 by lia. now rewrite firstn_O, app_nil_r. Qed.

Lemma TO_prefix tr es : TO (tr ++ es) -> TO tr.
Proof.
  intros H v t e Hn Hg. assert (L : v < List.length tr) by (apply nth_error_Some; congruence).
  specialize (H v t e). rewrite nth_error_app1, firstn_app_le' in H by lia. auto.
Qed.
Lemma TO_last tr t e : TO (tr ++ [(t, e)]) -> guardedb e = true -> scan (hist tr) t = None.
Proof.
  intros H Hg. specialize (H (List.length tr) t e). rewrite nth_error_app2, Nat.sub_diag, firstn_app_le', firstn_all in H by lia.
  apply H; auto.
Qed.

(** ** the scan field of the summary *)
Lemma scan_hstep_cases h e u s0 : scan (hstep h e) u = Some s0 -> scan h u = Some s0 \/ s0 = hlen h.
Proof.
  rewrite scan_hstep. destruct (classify (snd e)); auto; destruct (Nat.eqb u (fst e)); auto; [|discriminate].
  intros H. inversion H. auto.
Qed.
Lemma scan_fold_cases es : forall h u s0, scan (fold_left hstep es h) u = Some s0 -> scan h u = Some s0 \/ hlen h <= s0.
Proof.
  induction es as [|e es IH]; intros h u s0 H; cbn in H; [now left|].
  destruct (IH _ _ _ H) as [K|K]; [|right; rewrite hlen_hstep in K; lia].
  destruct (scan_hstep_cases _ _ _ _ K) as [K'|K']; [now left|right; lia].
Qed.
Lemma scan_fold_dispose t l : forall h, scan (fold_left hstep (Conc.tag t (map ev_dispose l)) h) = scan h.
Proof. induction l as [|p l IH]; intros h; cbn; auto. rewrite IH. now rewrite hstep_dispose. Qed.

Lemma rbef_app tr es p s0 : rbef tr p s0 -> rbef (tr ++ es) p s0.
Proof.
  intros (rho & x & H1 & H2). exists rho, x. split; auto. rewrite nth_error_app1; auto. apply nth_error_Some. congruence.
Qed.
Lemma rbef_le tr p s0 s1 : rbef tr p s0 -> s0 <= s1 -> rbef tr p s1.
Proof. intros (rho & x & H1 & H2) L. exists rho, x. split; auto. lia. Qed.
Lemma inpl_place a u p : inpl a u p -> wh a p <> LNo.
Proof. intros [H|(r & _ & H)]; rewrite H; discriminate. Qed.

(** ** frames *)
(** the auxiliary state changes, the trace does not *)
Lemma JS_upd a a' tr : JS a tr ->
  (forall q, wh a' q <> LNo -> wh a q <> LNo) ->
  (forall u s0 q, scan (hist tr) u = Some s0 -> inpl a' u q -> inpl a u q) -> JS a' tr.
Proof.
  intros [S1 S2 S3] H1 H2. constructor; auto.
  intros u s0 p Hs Hp. eapply S2; eauto.
Qed.
Lemma JS_frame a a' tr :
  (forall p, wh a' p = wh a p) -> (forall u r, In r (vb_own (bvs a' u)) -> In r (vb_own (bvs a u))) -> JS a tr -> JS a' tr.
Proof.
  intros Ew Eo S. apply (JS_upd a a' tr S).
  - intros q. now rewrite Ew.
  - intros u s0 q _ [H|(r & H1 & H2)]; [left; now rewrite <- Ew|right; exists r; split; auto; now rewrite <- Ew].
Qed.

(** the trace grows by events that are not disposer calls *)
Lemma JS_ext a tr es : (forall x p, ~ In (x, ev_dispose p) es) -> JS a tr -> JS a (tr ++ es).
Proof.
  intros Hes [S1 S2 S3]. constructor.
  - intros p Hp. apply rbef_app. eapply rbef_le; [apply S1; auto|]. rewrite app_length. lia.
  - intros u s0 p Hs Hp. rewrite hist_app in Hs. apply rbef_app.
    destruct (scan_fold_cases _ _ _ _ Hs) as [K|K]; [eapply S2; eauto|].
    rewrite hlen_hist in K. eapply rbef_le; [apply S1; now apply (inpl_place a u)|exact K].
  - intros d u p s0 Hn Hs. destruct (Nat.lt_ge_cases d (List.length tr)) as [L|L].
    + rewrite nth_error_app1 in Hn by exact L. rewrite firstn_app_le' in Hs by lia. apply rbef_app. eapply S3; eauto.
    + rewrite nth_error_app2 in Hn by exact L. apply nth_error_In in Hn. exfalso. eapply Hes; eauto.
Qed.

Lemma qevB_not_dispose t es : Forall qevB es -> forall x p, ~ In (x, ev_dispose p) (Conc.tag t es).
Proof.
  intros Hq x p Hin. unfold Conc.tag in Hin. apply in_map_iff in Hin. destruct Hin as (e & E & Hin). inversion E; subst.
  rewrite Forall_forall in Hq. destruct (Hq _ Hin) as (_ & K). rewrite classify_dispose in K. exact K.
Qed.
Lemma single_not_dispose t e : (forall p, e <> ev_dispose p) -> forall x p, ~ In (x, ev_dispose p) (Conc.tag t [e]).
Proof. intros H x p [E|[]]. inversion E. eapply H; eauto. Qed.

(** the disposer calls of thread [t] for pointers in flight in [t] *)
Lemma JS_ext_dispose a tr t l : (forall q, In q l -> wh a q = LFly t) -> JS a tr -> JS a (tr ++ Conc.tag t (map ev_dispose l)).
Proof.
  intros Hl [S1 S2 S3]. constructor.
  - intros p Hp. apply rbef_app. eapply rbef_le; [apply S1; auto|]. rewrite app_length. lia.
  - intros u s0 p Hs Hp. rewrite hist_app, scan_fold_dispose in Hs. apply rbef_app. eapply S2; eauto.
  - intros d u p s0 Hn Hs. destruct (Nat.lt_ge_cases d (List.length tr)) as [L|L].
    + rewrite nth_error_app1 in Hn by exact L. rewrite firstn_app_le' in Hs by lia. apply rbef_app. eapply S3; eauto.
    + rewrite nth_error_app2 in Hn by exact L. rewrite firstn_app in Hs. rewrite firstn_all2 in Hs by exact L.
      unfold Conc.tag in Hs, Hn. rewrite firstn_map, firstn_map in Hs. fold (Conc.tag t (map ev_dispose (firstn (d - List.length tr) l))) in Hs.
      rewrite hist_app, scan_fold_dispose in Hs.
      rewrite nth_error_map in Hn. destruct (nth_error (map ev_dispose l) (d - List.length tr)) as [e|] eqn:En; [|discriminate].
      cbn in Hn. inversion Hn; subst u e. rewrite nth_error_map in En. destruct (nth_error l (d - List.length tr)) as [q|] eqn:Eq; [|discriminate].
      cbn in En. inversion En as [E1]. unfold zn in E1. apply Nat2Z.inj in E1. subst q. apply nth_error_In in Eq.
      apply rbef_app. eapply S2; eauto. left. now apply Hl.
Qed.

(** ** the paired invariant and its rules *)
Section RulesS.
  Variable c : cfg.

  Definition InvS (g : G) (a : AuxB) (tr : list (nat * ev)) : Prop :=
    flbad (hist tr) = false -> NoDup (retired_tr tr) -> TO tr -> JB c g a tr /\ JS a tr.

  Notation dsafeS := (@dsafe G ev AuxB VB viewB InvS).

  Lemma InvS_quiet g g' a tr t es : InvS g a tr -> piB g g' -> Forall qevB es -> InvS g' a (tr ++ Conc.tag t es).
  Proof.
    intros Hi P Hq Hfl Hnd Hto.
    assert (JS0 : JB c g a tr /\ JS a tr) by (apply Hi; [eapply flbad_prefixB|eapply nodup_retired_prefix|eapply TO_prefix]; eauto).
    destruct JS0 as (J & S).
    split; [apply (JB_quiet c g g' a tr t es P Hq J)|apply JS_ext; auto; now apply qevB_not_dispose].
  Qed.

  Lemma dsafeS_act_quiet {X R} t (f : A X) (k : X -> @dprog G ev R) l Q :
    (forall g, piB g (fst (fst (f g))) /\ Forall qevB (snd (f g))) -> (forall x, dsafeS t (k x) l Q) -> dsafeS t (DAct f k) l Q.
  Proof.
    intros Hf Hk. cbn [dsafe]. intros g a tr Hi Hv. exists a. destruct (Hf g) as (H1 & H2).
    split; [eapply InvS_quiet; eauto|]. split; [apply frame_refl|]. rewrite Hv. apply Hk.
  Qed.
  Lemma dsafeS_loc_quiet {X R} t (f : G -> G * X) (k : X -> @dprog G ev R) l Q :
    (forall g, piB g (fst (f g))) -> (forall g, dsafeS t (k (snd (f g))) l Q) -> dsafeS t (DLoc f k) l Q.
  Proof.
    intros Hf Hk. cbn [dsafe]. intros g a tr Hi Hv. exists a. split; [|split; [apply frame_refl|rewrite Hv; apply Hk]].
    pose proof (InvS_quiet g (fst (f g)) a tr t [] Hi (Hf g) (Forall_nil _)) as K. cbn in K. now rewrite app_nil_r in K.
  Qed.
  Lemma dsafeS_emit_quiet {R} t es (k : @dprog G ev R) l Q : Forall qevB es -> dsafeS t k l Q -> dsafeS t (DEmit es k) l Q.
  Proof.
    intros Hq Hk. cbn [dsafe]. intros g a tr Hi Hv. exists a.
    split; [eapply InvS_quiet; eauto using piB_refl|]. split; [apply frame_refl|]. now rewrite Hv.
  Qed.

  Lemma quietPB_dsafeS {R} t (p : @dprog G ev R) l (Q : R -> VB -> Prop) : quietPB p -> (forall r, Q r l) -> dsafeS t p l Q.
  Proof.
    intros Hp HQ. induction p as [r|es k IH|X f k IH|X f k IH]; cbn [quietPB] in Hp.
    - apply HQ. - destruct Hp. apply dsafeS_emit_quiet; auto. - destruct Hp. apply dsafeS_loc_quiet; auto. - destruct Hp. apply dsafeS_act_quiet; auto.
  Qed.

  Lemma dsafeS_xbind {X Y} t (p : P X) (q : X -> P Y) l (Q : option Y -> VB -> Prop) :
    dsafeS t p l (fun o l' => match o with Some x => dsafeS t (q x) l' Q | None => Q None l' end) -> dsafeS t (xbind p q) l Q.
  Proof. intros H. unfold xbind. apply dsafe_bind. eapply dsafe_weaken; [|exact H]. intros [x|] l' K; cbn; auto. Qed.
  Lemma dsafeS_quiet_seq {X Y} t (p : P X) (q : X -> P Y) l (Q : option Y -> VB -> Prop) :
    quietPB p -> Q None l -> (forall x, dsafeS t (q x) l Q) -> dsafeS t (xbind p q) l Q.
  Proof. intros Hp HQ Hq. apply dsafeS_xbind. apply quietPB_dsafeS; auto. intros [x|]; auto. Qed.
  Lemma dsafeS_fuel_out {X} t l (Q : option X -> VB -> Prop) : Q None l -> dsafeS t fuel_out l Q.
  Proof. intros H. unfold fuel_out. apply dsafeS_emit_quiet; [repeat constructor|exact H]. Qed.

  (** steps that change the ghost state: the [JB] obligation is the one of DhpRulesB, the [JS] obligation is new *)
  Lemma dsafeS_act_J {X R} t (f : A X) (k : X -> @dprog G ev R) l Q :
    (forall g a tr, viewB a t = l -> exists a', Conc.frame viewB t a a' /\
        (flbad (hist (tr ++ Conc.tag t (snd (f g)))) = false -> NoDup (retired_tr (tr ++ Conc.tag t (snd (f g)))) -> JB c g a tr ->
         JB c (fst (fst (f g))) a' (tr ++ Conc.tag t (snd (f g)))) /\
        (TO (tr ++ Conc.tag t (snd (f g))) -> JB c g a tr -> JS a tr -> JS a' (tr ++ Conc.tag t (snd (f g)))) /\
        dsafeS t (k (snd (fst (f g)))) (viewB a' t) Q) ->
    dsafeS t (DAct f k) l Q.
  Proof.
    intros Hs. cbn [dsafe]. intros g a tr Hi Hv. destruct (Hs g a tr Hv) as (a' & F & Hj & Hjs & Hk).
    exists a'. split; [|split; auto]. intros Hfl Hnd Hto.
    assert (JS0 : JB c g a tr /\ JS a tr) by (apply Hi; [eapply flbad_prefixB|eapply nodup_retired_prefix|eapply TO_prefix]; eauto).
    destruct JS0 as (J & S). split; auto.
  Qed.
  Lemma dsafeS_emit_J {R} t es (k : @dprog G ev R) l Q :
    (forall g a tr, viewB a t = l -> exists a', Conc.frame viewB t a a' /\
        (flbad (hist (tr ++ Conc.tag t es)) = false -> NoDup (retired_tr (tr ++ Conc.tag t es)) -> JB c g a tr ->
         JB c g a' (tr ++ Conc.tag t es)) /\
        (TO (tr ++ Conc.tag t es) -> JB c g a tr -> JS a tr -> JS a' (tr ++ Conc.tag t es)) /\
        dsafeS t k (viewB a' t) Q) ->
    dsafeS t (DEmit es k) l Q.
  Proof.
    intros Hs. cbn [dsafe]. intros g a tr Hi Hv. destruct (Hs g a tr Hv) as (a' & F & Hj & Hjs & Hk).
    exists a'. split; [|split; auto]. intros Hfl Hnd Hto.
    assert (JS0 : JB c g a tr /\ JS a tr) by (apply Hi; [eapply flbad_prefixB|eapply nodup_retired_prefix|eapply TO_prefix]; eauto).
    destruct JS0 as (J & S). split; auto.
  Qed.
  Lemma dsafeS_loc_J {X R} t (f : G -> G * X) (k : X -> @dprog G ev R) l Q :
    (forall g a tr, viewB a t = l -> exists a', Conc.frame viewB t a a' /\
        (JB c g a tr -> JB c (fst (f g)) a' tr) /\
        (JB c g a tr -> JS a tr -> JS a' tr) /\
        dsafeS t (k (snd (f g))) (viewB a' t) Q) ->
    dsafeS t (DLoc f k) l Q.
  Proof.
    intros Hs. cbn [dsafe]. intros g a tr Hi Hv. destruct (Hs g a tr Hv) as (a' & F & Hj & Hjs & Hk).
    exists a'. split; [|split; auto]. intros Hfl Hnd Hto. destruct (Hi Hfl Hnd Hto) as (J & S). auto.
  Qed.

  Lemma dsafeS_xact {X Y} t (f : A X) (q : X -> P Y) l (Q : option Y -> VB -> Prop) :
    (forall g a tr, viewB a t = l -> exists a', Conc.frame viewB t a a' /\
        (flbad (hist (tr ++ Conc.tag t (snd (f g)))) = false -> NoDup (retired_tr (tr ++ Conc.tag t (snd (f g)))) -> JB c g a tr ->
         JB c (fst (fst (f g))) a' (tr ++ Conc.tag t (snd (f g)))) /\
        (TO (tr ++ Conc.tag t (snd (f g))) -> JB c g a tr -> JS a tr -> JS a' (tr ++ Conc.tag t (snd (f g)))) /\
        dsafeS t (q (snd (fst (f g)))) (viewB a' t) Q) ->
    dsafeS t (xbind (act f) q) l Q.
  Proof. intros H. unfold xbind, act. cbn [dbind]. apply dsafeS_act_J. exact H. Qed.
  Lemma dsafeS_xloc {X Y} t (f : G -> G * X) (q : X -> P Y) l (Q : option Y -> VB -> Prop) :
    (forall g a tr, viewB a t = l -> exists a', Conc.frame viewB t a a' /\
        (JB c g a tr -> JB c (fst (f g)) a' tr) /\
        (JB c g a tr -> JS a tr -> JS a' tr) /\
        dsafeS t (q (snd (f g))) (viewB a' t) Q) ->
    dsafeS t (xbind (loc f) q) l Q.
  Proof. intros H. unfold xbind, loc. cbn [dbind]. apply dsafeS_loc_J. exact H. Qed.
  Lemma dsafeS_xemit {Y} t es (q : unit -> P Y) l (Q : option Y -> VB -> Prop) :
    (forall g a tr, viewB a t = l -> exists a', Conc.frame viewB t a a' /\
        (flbad (hist (tr ++ Conc.tag t es)) = false -> NoDup (retired_tr (tr ++ Conc.tag t es)) -> JB c g a tr ->
         JB c g a' (tr ++ Conc.tag t es)) /\
        (TO (tr ++ Conc.tag t es) -> JB c g a tr -> JS a tr -> JS a' (tr ++ Conc.tag t es)) /\
        dsafeS t (q tt) (viewB a' t) Q) ->
    dsafeS t (xbind (emit es) q) l Q.
  Proof. intros H. unfold xbind, emit. cbn [dbind]. apply dsafeS_emit_J. exact H. Qed.

  Lemma dsafeS_xact_q {X Y} t (f : A X) (q : X -> P Y) l (Q : option Y -> VB -> Prop) :
    QA f -> (forall x, dsafeS t (q x) l Q) -> dsafeS t (xbind (act f) q) l Q.
  Proof. intros H Hk. unfold xbind, act. cbn [dbind]. apply dsafeS_act_quiet; auto. Qed.
  Lemma dsafeS_xloc_q {X Y} t (f : G -> G * X) (q : X -> P Y) l (Q : option Y -> VB -> Prop) :
    (forall g, piB g (fst (f g))) -> (forall x, dsafeS t (q x) l Q) -> dsafeS t (xbind (loc f) q) l Q.
  Proof. intros H Hk. unfold xbind, loc. cbn [dbind]. apply dsafeS_loc_quiet; auto. Qed.
  Lemma dsafeS_xemit_q {Y} t es (q : unit -> P Y) l (Q : option Y -> VB -> Prop) :
    Forall qevB es -> dsafeS t (q tt) l Q -> dsafeS t (xbind (emit es) q) l Q.
  Proof. intros H Hk. unfold xbind, emit. cbn [dbind]. apply dsafeS_emit_quiet; auto. Qed.
  Lemma dsafeS_ret {X} t (x : X) l (Q : option X -> VB -> Prop) : Q (Some x) l -> dsafeS t (ret x) l Q.
  Proof. intros H. exact H. Qed.
  Lemma dsafeS_xret {X Y} t (x : X) (q : X -> P Y) l (Q : option Y -> VB -> Prop) : dsafeS t (q x) l Q -> dsafeS t (xbind (ret x) q) l Q.
  Proof. intros H. exact H. Qed.
End RulesS.

Notation dsafeS c := (@dsafe G ev AuxB VB viewB (InvS c)).

(** [JS] obligations of the common kinds: the step keeps [wh] and every owner list (up to removal) *)
Ltac js_frame t :=
  let u := fresh "u" in let r := fresh "r" in let p := fresh "p" in
  apply JS_frame; [intros p; reflexivity|
    intros u r; cbn; unfold fn; destruct (Nat.eqb_spec u t) as [->|]; cbn; auto].
