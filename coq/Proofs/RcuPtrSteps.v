(** * RcuPtr: every kind of step of the container client preserves the custody invariant. *)
From Coq Require Import ZArith List String Bool Lia PeanoNat.
From LV Require Import Base.Conc Base.Events Model.RcuGp Model.RcuPtr Proofs.RcuGpInv Proofs.RcuPtrInv.
Import ListNotations.
Local Open Scope string_scope.
Local Open Scope list_scope.
Local Open Scope Z_scope.

Definition set_cs l x := mkL2 x (v_live l) (v_x l) (v_batch l) (v_seen l) (v_mk l).
Definition set_live l x := mkL2 (v_cs l) x (v_x l) (v_batch l) (v_seen l) (v_mk l).
Definition set_x l x := mkL2 (v_cs l) (v_live l) x (v_batch l) (v_seen l) (v_mk l).
Definition set_batch l x := mkL2 (v_cs l) (v_live l) (v_x l) x (v_seen l) (v_mk l).
Definition set_seen l x := mkL2 (v_cs l) (v_live l) (v_x l) (v_batch l) x (v_mk l).
Definition set_mk l x := mkL2 (v_cs l) (v_live l) (v_x l) (v_batch l) (v_seen l) x.

Definition upd_loc (a : Aux2) (t : nat) (l : L2) : Aux2 := mkA2 (updL (a_loc a) t l) (a_gone a) (a_owner a).

Ltac ucase x t := unfold updL; destruct (Nat.eqb_spec x t) as [->|].

Lemma at_tag_first tr t e es P : P e = true -> at_ (tr ++ Conc.tag t (e :: es)) (List.length tr) t P.
Proof. intros H. exists e. split; [|exact H]. rewrite nth_error_app2 by lia. rewrite Nat.sub_diag. reflexivity. Qed.

(** ** inert events, the thread's view changes in [v_seen] / [v_mk] / the flag of [v_x] *)
Lemma step_view g g' a tr t es l' :
  Inv2 g a tr -> inert es ->
  pg_head g' = pg_head g -> pg_mark g' = pg_mark g -> pg_next g' = pg_next g ->
  v_cs l' = v_cs (a_loc a t) -> v_live l' = v_live (a_loc a t) -> v_batch l' = v_batch (a_loc a t) ->
  (forall p m, v_mk l' = Some (p, m) -> v_mk (a_loc a t) = Some (p, m) \/ (pg_mark g p = m /\ m <> 0)) ->
  (forall p, v_seen l' = Some p -> v_seen (a_loc a t) = Some p \/ (pg_head g = p /\ p <> 0 /\ v_cs (a_loc a t) <> None)) ->
  (forall p u b, v_x l' = Some (p, u, b) ->
     exists b0, v_x (a_loc a t) = Some (p, u, b0) /\ (b = true -> b0 = true \/ a_gone a p = true)) ->
  Inv2 g' (upd_loc a t l') (tr ++ Conc.tag t es).
Proof.
  intros (IS & IT) Hes E1 E2 E3 Ec El Eb Hm Hs Hx. split.
  - apply InvS_base with (g := g); auto. apply InvS_view; auto.
    intros p H. destruct (Hs p H) as [H'|(H1 & H2 & _)]; [left; exact H'|right].
    destruct (S1 _ _ IS) as (R & _); [rewrite H1; exact H2|]. rewrite H1 in R. exact R.
  - apply InvT_inert with (a := a); auto.
    + intros x. cbn. ucase x t; auto.
    + intros x p. cbn. ucase x t; [|auto]. intros H. destruct (Hs p H) as [H'|(H1 & H2 & H3)]; [left; exact H'|right].
      split; [reflexivity|]. destruct (v_cs (a_loc a t)) as [s|] eqn:Ecs; [|congruence]. exists s. split; [reflexivity|].
      intros k w Hat. exfalso. destruct (R1 _ _ IT k w p Hat) as (G & _).
      destruct (S1 _ _ IS) as (_ & G'); [rewrite H1; exact H2|]. rewrite H1 in G'. congruence.
Qed.

(** nothing changes but the trace *)
Lemma step_inert g g' a tr t es :
  Inv2 g a tr -> inert es -> pg_head g' = pg_head g -> pg_mark g' = pg_mark g -> pg_next g' = pg_next g ->
  Inv2 g' a (tr ++ Conc.tag t es).
Proof.
  intros (IS & IT) Hes E1 E2 E3. split.
  - apply InvS_base with (g := g); auto.
  - apply InvT_inert with (a := a); auto.
Qed.

(** ** physical unlink succeeded *)
Definition flag_x (l : L2) (cur : Z) : L2 :=
  set_x l (match v_x l with Some (p, u, b) => Some (p, u, b || (p =? cur)) | None => None end).

Lemma cli_is_acc name d kd o ok : cli_is name d (EvAcc kd o ok) = false.
Proof. reflexivity. Qed.

Lemma step_unlink_hold g a tr t cur :
  Inv2 g a tr -> pg_head g = cur -> v_mk (a_loc a t) = Some (cur, 1) ->
  let n := List.length tr in
  Inv2 (set_head g 0)
       (mkA2 (updL (a_loc a) t (set_live (a_loc a t) ((cur, S n) :: v_live (a_loc a t)))) (updZ (a_gone a) cur true)
             (updZ (a_owner a) cur (Some (t, S n))))
       (tr ++ Conc.tag t [EvAcc KCas obj_phead true; EvCli "hold" [cur]]).
Proof.
  intros (IS & IT) Hh Hmk n.
  destruct (K1 _ _ IS t cur 1 Hmk) as (Mk & _).
  assert (Rg : 0 < cur < pg_next g) by (apply (S5 _ _ IS); rewrite Mk; discriminate).
  assert (Ng : a_gone a cur = false) by (destruct (S1 _ _ IS) as (_ & X); [rewrite Hh; lia|rewrite Hh in X; exact X]).
  assert (No : a_owner a cur = None).
  { destruct (a_owner a cur) as [[h u]|] eqn:E; [|reflexivity]. destruct (S6 _ _ IS cur h u E) as [X|X]; congruence. }
  assert (Mono : forall p, a_gone a p = true -> updZ (a_gone a) cur true p = true).
  { intros p H. unfold updZ. destruct (p =? cur); auto. }
  assert (Own : forall p h u, a_owner a p = Some (h, u) -> updZ (a_owner a) cur (Some (t, S n)) p = Some (h, u)).
  { intros p h u H. unfold updZ. destruct (Z.eqb_spec p cur) as [Heq|Hne]; [subst p|]; [congruence|exact H]. }
  split.
  - destruct IS as [A1 A2 A3 A4 A5 A6 A7 A8 A9 A10 A11]. constructor; cbn [pg_head pg_mark pg_next set_head a_loc a_gone a_owner pg_base].
    + intros X; congruence.
    + exact A2.
    + intros p Hp Hg. unfold updZ in Hg. destruct (Z.eqb_spec p cur) as [Heq|Hne]; [subst p|]; [discriminate|].
      exfalso. apply Hne. rewrite <- (A3 p Hp Hg). exact Hh.
    + intros p Hg. unfold updZ in Hg. destruct (Z.eqb_spec p cur) as [Heq|Hne]; [subst p|]; [split; [exact Rg|rewrite Mk; discriminate]|apply A4; exact Hg].
    + exact A5.
    + intros p h u. unfold updZ. destruct (Z.eqb_spec p cur) as [Heq|Hne]; [subst p|]; [intros _; right; reflexivity|].
      intros H. destruct (A6 p h u H) as [X|X]; [left; exact X|right; exact X].
    + intros x p m. ucase x t; [cbn|]; apply A7.
    + intros x p. ucase x t; [cbn|]; apply A8.
    + intros x p u. ucase x t.
      * cbn. intros [E|Hin].
        -- inversion E; subst p u. rewrite !updZ_same. auto.
        -- destruct (A9 t p u Hin) as (B1 & B2). split; [apply Own; exact B1|apply Mono; exact B2].
      * intros Hin. destruct (A9 x p u Hin) as (B1 & B2). split; [apply Own; exact B1|apply Mono; exact B2].
    + intros x p u b. assert (E : v_x (updL (a_loc a) t (set_live (a_loc a t) ((cur, S n) :: v_live (a_loc a t))) x) = v_x (a_loc a x))
        by (ucase x t; reflexivity). rewrite E. intros H. destruct (A10 x p u b H) as (B1 & B2). split; [apply Own; exact B1|].
      intros Eb. apply Mono. apply B2; exact Eb.
    + intros x p u r. assert (E : v_batch (updL (a_loc a) t (set_live (a_loc a t) ((cur, S n) :: v_live (a_loc a t))) x) = v_batch (a_loc a x))
        by (ucase x t; reflexivity). rewrite E. intros H. destruct (A11 x p u r H) as (B1 & B2 & B3).
      split; [apply Own; exact B1|]. split; [apply Mono; exact B2|exact B3].
  - apply InvT_gen with (a := a); cbn [a_loc a_gone a_owner]; auto.
    + intros e [<-|[<-|[]]]; reflexivity.
    + intros e [<-|[<-|[]]]; reflexivity.
    + intros p e [<-|[<-|[]]]; reflexivity.
    + intros p e [<-|[<-|[]]]; reflexivity.
    + intros p h u. unfold updZ. destruct (Z.eqb_spec p cur) as [Heq|Hne]; [subst p|].
      * split.
        -- intros E. inversion E; subst h u. replace (S n) with (n + 1)%nat by lia. eapply at_tag_last; [reflexivity|].
           unfold is_hold, cli_is. cbn. apply Z.eqb_refl.
        -- intros H. apply at_tag_inv in H. destruct H as [H|(-> & j & e & Hn & -> & HP)].
           ++ apply (O1 _ _ IT) in H. congruence.
           ++ destruct j as [|[|j]]; cbn in Hn; [| |destruct j; discriminate Hn]; inversion Hn; try subst e; [discriminate HP|].
              f_equal. f_equal. lia.
      * split.
        -- intros E. apply at_app_l. apply (O1 _ _ IT). exact E.
        -- intros H. apply at_tag_inv in H. destruct H as [H|(-> & j & e & Hn & -> & HP)]; [apply (O1 _ _ IT); exact H|].
           destruct j as [|[|j]]; cbn in Hn; [| |destruct j; discriminate Hn]; inversion Hn; try subst e; [discriminate HP|].
           unfold is_hold, cli_is in HP. cbn in HP. apply Z.eqb_eq in HP. congruence.
    + intros x. ucase x t; auto.
    + intros x p. ucase x t; auto.
Qed.

Lemma step_unlink_other g a tr t cur m :
  Inv2 g a tr -> pg_head g = cur -> v_mk (a_loc a t) = Some (cur, m) -> m <> 1 ->
  Inv2 (set_head g 0) (mkA2 (updL (a_loc a) t (flag_x (a_loc a t) cur)) (updZ (a_gone a) cur true) (a_owner a))
       (tr ++ Conc.tag t [EvAcc KCas obj_phead true; EvCli "unlinked" [cur]]).
Proof.
  intros (IS & IT) Hh Hmk Hm1.
  destruct (K1 _ _ IS t cur m Hmk) as (Mk & Mz).
  assert (Rg : 0 < cur < pg_next g) by (apply (S5 _ _ IS); rewrite Mk; exact Mz).
  assert (Mono : forall p, a_gone a p = true -> updZ (a_gone a) cur true p = true).
  { intros p H. unfold updZ. destruct (p =? cur); auto. }
  split.
  - destruct IS as [A1 A2 A3 A4 A5 A6 A7 A8 A9 A10 A11]. constructor; cbn [pg_head pg_mark pg_next set_head a_loc a_gone a_owner pg_base].
    + intros X; congruence.
    + exact A2.
    + intros p Hp Hg. unfold updZ in Hg. destruct (Z.eqb_spec p cur) as [Heq|Hne]; [subst p|]; [discriminate|].
      exfalso. apply Hne. rewrite <- (A3 p Hp Hg). exact Hh.
    + intros p Hg. unfold updZ in Hg. destruct (Z.eqb_spec p cur) as [Heq|Hne]; [subst p|]; [split; [exact Rg|rewrite Mk; exact Mz]|apply A4; exact Hg].
    + exact A5.
    + intros p h u H. destruct (A6 p h u H) as [X|X]; [left; exact X|right; apply Mono; exact X].
    + intros x p m0. ucase x t; [cbn|]; apply A7.
    + intros x p. ucase x t; [cbn|]; apply A8.
    + intros x p u. ucase x t; [cbn|]; intros Hin; destruct (A9 _ p u Hin) as (B1 & B2); (split; [exact B1|apply Mono; exact B2]).
    + intros x p u b. ucase x t.
      * cbn. destruct (v_x (a_loc a t)) as [[[p0 u0] b0]|] eqn:E; [|discriminate]. intros H. inversion H; subst p u b.
        destruct (A10 t p0 u0 b0 E) as (B1 & B2). split; [exact B1|]. intros Eb. apply orb_prop in Eb. destruct Eb as [Eb|Eb].
        -- apply Mono. apply B2; exact Eb.
        -- apply Z.eqb_eq in Eb. subst p0. apply updZ_same.
      * intros H. destruct (A10 x p u b H) as (B1 & B2). split; [exact B1|]. intros Eb. apply Mono. apply B2; exact Eb.
    + intros x p u r. assert (E : v_batch (updL (a_loc a) t (flag_x (a_loc a t) cur) x) = v_batch (a_loc a x)) by (ucase x t; reflexivity).
      rewrite E. intros H. destruct (A11 x p u r H) as (B1 & B2 & B3). split; [exact B1|]. split; [apply Mono; exact B2|exact B3].
  - apply InvT_gen with (a := a); cbn [a_loc a_gone a_owner]; auto.
    + intros e [<-|[<-|[]]]; reflexivity.
    + intros e [<-|[<-|[]]]; reflexivity.
    + intros p e [<-|[<-|[]]]; reflexivity.
    + intros p e [<-|[<-|[]]]; reflexivity.
    + intros p h u. split.
      * intros E. apply at_app_l. apply (O1 _ _ IT). exact E.
      * intros H. apply (O1 _ _ IT). eapply at_tag_old; [|exact H]. intros e [<-|[<-|[]]]; reflexivity.
    + intros x. ucase x t; auto.
    + intros x p. ucase x t; auto.
Qed.

(** ** logical deletion succeeded *)
Lemma step_mark_hold g a tr t cur :
  Inv2 g a tr -> pg_mark g cur = 0 -> 0 < cur < pg_next g ->
  let n := List.length tr in
  Inv2 (set_mark g cur 3)
       (mkA2 (updL (a_loc a) t (set_mk (set_x (a_loc a t) (Some (cur, S n, false))) (Some (cur, 3)))) (a_gone a) (updZ (a_owner a) cur (Some (t, S n))))
       (tr ++ Conc.tag t [EvAcc KCas (obj_pmark cur) true; EvCli "hold" [cur]]).
Proof.
  intros (IS & IT) Mk Rg n.
  assert (Ng : a_gone a cur = false).
  { destruct (a_gone a cur) eqn:E; [|reflexivity]. destruct (S4 _ _ IS cur E) as (_ & X). congruence. }
  assert (No : a_owner a cur = None).
  { destruct (a_owner a cur) as [[h u]|] eqn:E; [|reflexivity]. destruct (S6 _ _ IS cur h u E) as [X|X]; [rewrite Mk in X; discriminate|congruence]. }
  assert (Own : forall p h u, a_owner a p = Some (h, u) -> updZ (a_owner a) cur (Some (t, S n)) p = Some (h, u)).
  { intros p h u H. unfold updZ. destruct (Z.eqb_spec p cur) as [Heq|Hne]; [subst p|]; [congruence|exact H]. }
  assert (Mkeep : forall p, pg_mark g p <> 0 -> (if p =? cur then 3 else pg_mark g p) = pg_mark g p).
  { intros p H. destruct (Z.eqb_spec p cur) as [Heq|Hne]; [subst p|]; [congruence|reflexivity]. }
  split.
  - destruct IS as [A1 A2 A3 A4 A5 A6 A7 A8 A9 A10 A11]. constructor; cbn [pg_head pg_mark pg_next set_mark a_loc a_gone a_owner pg_base]; auto.
    + intros p Hg. destruct (A4 p Hg) as (B1 & B2). split; [exact B1|]. rewrite Mkeep; auto.
    + intros p. destruct (Z.eqb_spec p cur) as [Heq|Hne]; [subst p|]; [intros _; exact Rg|apply A5].
    + intros p h u. unfold updZ. destruct (Z.eqb_spec p cur) as [Heq|Hne]; [subst p|]; [intros _; left; reflexivity|].
      intros H. apply (A6 p h u H).
    + intros x p m. ucase x t.
      * cbn. intros H. inversion H; subst p m. rewrite Z.eqb_refl. split; [reflexivity|discriminate].
      * intros H. destruct (A7 x p m H) as (B1 & B2). split; [|exact B2]. rewrite Mkeep; [exact B1|congruence].
    + intros x p. ucase x t; [cbn|]; apply A8.
    + intros x p u. assert (E : v_live (updL (a_loc a) t (set_mk (set_x (a_loc a t) (Some (cur, S n, false))) (Some (cur, 3))) x) = v_live (a_loc a x)) by (ucase x t; reflexivity).
      rewrite E. intros H. destruct (A9 x p u H) as (B1 & B2). split; [apply Own; exact B1|exact B2].
    + intros x p u b. ucase x t.
      * cbn. intros H. inversion H; subst p u b. rewrite updZ_same. split; [reflexivity|discriminate].
      * intros H. destruct (A10 x p u b H) as (B1 & B2). split; [apply Own; exact B1|exact B2].
    + intros x p u r. assert (E : v_batch (updL (a_loc a) t (set_mk (set_x (a_loc a t) (Some (cur, S n, false))) (Some (cur, 3))) x) = v_batch (a_loc a x)) by (ucase x t; reflexivity).
      rewrite E. intros H. destruct (A11 x p u r H) as (B1 & B2 & B3). split; [apply Own; exact B1|]. split; [exact B2|exact B3].
  - apply InvT_gen with (a := a); cbn [a_loc a_gone a_owner]; auto.
    + intros e [<-|[<-|[]]]; reflexivity.
    + intros e [<-|[<-|[]]]; reflexivity.
    + intros p e [<-|[<-|[]]]; reflexivity.
    + intros p e [<-|[<-|[]]]; reflexivity.
    + intros p h u. unfold updZ. destruct (Z.eqb_spec p cur) as [Heq|Hne]; [subst p|].
      * split.
        -- intros E. inversion E; subst h u. replace (S n) with (n + 1)%nat by lia. eapply at_tag_last; [reflexivity|].
           unfold is_hold, cli_is. cbn. apply Z.eqb_refl.
        -- intros H. apply at_tag_inv in H. destruct H as [H|(-> & j & e & Hn & -> & HP)].
           ++ apply (O1 _ _ IT) in H. congruence.
           ++ destruct j as [|[|j]]; cbn in Hn; [| |destruct j; discriminate Hn]; inversion Hn; try subst e; [discriminate HP|].
              f_equal. f_equal. lia.
      * split.
        -- intros E. apply at_app_l. apply (O1 _ _ IT). exact E.
        -- intros H. apply at_tag_inv in H. destruct H as [H|(-> & j & e & Hn & -> & HP)]; [apply (O1 _ _ IT); exact H|].
           destruct j as [|[|j]]; cbn in Hn; [| |destruct j; discriminate Hn]; inversion Hn; try subst e; [discriminate HP|].
           unfold is_hold, cli_is in HP. cbn in HP. apply Z.eqb_eq in HP. congruence.
    + intros x. ucase x t; auto.
    + intros x p. ucase x t; auto.
Qed.

Lemma step_mark_erase g a tr t cur :
  Inv2 g a tr -> pg_mark g cur = 0 -> 0 < cur < pg_next g ->
  Inv2 (set_mark g cur 1) (upd_loc a t (set_mk (a_loc a t) (Some (cur, 1))))
       (tr ++ Conc.tag t [EvAcc KCas (obj_pmark cur) true; EvCli "marked" [cur]]).
Proof.
  intros (IS & IT) Mk Rg.
  assert (Ng : a_gone a cur = false).
  { destruct (a_gone a cur) eqn:E; [|reflexivity]. destruct (S4 _ _ IS cur E) as (_ & X). congruence. }
  assert (Mkeep : forall p, pg_mark g p <> 0 -> (if p =? cur then 1 else pg_mark g p) = pg_mark g p).
  { intros p H. destruct (Z.eqb_spec p cur) as [Heq|Hne]; [subst p|]; [congruence|reflexivity]. }
  split.
  - destruct IS as [A1 A2 A3 A4 A5 A6 A7 A8 A9 A10 A11]. unfold upd_loc. constructor; cbn [pg_head pg_mark pg_next set_mark pg_base a_loc a_gone a_owner]; auto.
    + intros p Hg. destruct (A4 p Hg) as (B1 & B2). split; [exact B1|]. rewrite Mkeep; auto.
    + intros p. destruct (Z.eqb_spec p cur) as [Heq|Hne]; [subst p|]; [intros _; exact Rg|apply A5].
    + intros p h u H. destruct (A6 p h u H) as [X|X]; [left|right; exact X]. rewrite Mkeep; [exact X|congruence].
    + intros x p m. ucase x t.
      * cbn. intros H. inversion H; subst p m. rewrite Z.eqb_refl. split; [reflexivity|discriminate].
      * intros H. destruct (A7 x p m H) as (B1 & B2). split; [|exact B2]. rewrite Mkeep; [exact B1|congruence].
    + intros x p. ucase x t; [cbn|]; apply A8.
    + intros x p u. ucase x t; [cbn|]; apply A9.
    + intros x p u b. ucase x t; [cbn|]; apply A10.
    + intros x p u r. ucase x t; [cbn|]; apply A11.
  - apply InvT_inert with (a := a); auto.
    + repeat split; intros; intros e [<-|[<-|[]]]; reflexivity.
    + intros x. cbn. ucase x t; auto.
    + intros x p. cbn. ucase x t; auto.
Qed.

(** ** link_node succeeded *)
Lemma step_link g a tr t :
  Inv2 g a tr -> pg_head g = 0 ->
  Inv2 (mkPG (pg_base g) (pg_next g) (pg_mark g) (pg_next g + 1)) a
       (tr ++ Conc.tag t [EvAcc KCas obj_phead true; EvCli "linked" [pg_next g]]).
Proof.
  intros (IS & IT) Hh. split.
  - destruct IS as [A1 A2 A3 A4 A5 A6 A7 A8 A9 A10 A11]. constructor; cbn [pg_head pg_mark pg_next pg_base]; auto.
    + intros _. split; [lia|]. destruct (a_gone a (pg_next g)) eqn:E; [|reflexivity]. destruct (A4 _ E) as (X & _). lia.
    + lia.
    + intros p Hp Hg. destruct (Z.eq_dec p (pg_next g)) as [->|Hne]; [reflexivity|].
      assert (X : 0 < p < pg_next g) by lia. specialize (A3 p X Hg). lia.
    + intros p Hg. destruct (A4 p Hg) as (B1 & B2). split; [lia|exact B2].
    + intros p H. specialize (A5 p H). lia.
    + intros x p H. specialize (A8 x p H). lia.
  - apply InvT_inert with (a := a); auto.
    repeat split; intros; intros e [<-|[<-|[]]]; reflexivity.
Qed.

(** ** section markers *)
Lemma outside_now a tr t : InvT a tr -> v_cs (a_loc a t) = None -> forall x, outside_at (tr ++ x) t (List.length tr).
Proof.
  intros IT Hc x s (H1 & H2 & H3). apply at_app_inv in H1; [|exact H2].
  destruct (TB _ _ IT t s H1) as [A|(b & Hb & Hat)]; [congruence|].
  apply (H3 b); [split; [exact Hb|eapply at_lt; eauto]|apply at_app_l; exact Hat].
Qed.

Lemma step_rlock1 g a tr t e :
  Inv2 g a tr -> v_cs (a_loc a t) = None -> is_rlock1 e = true -> is_runlock0 e = false ->
  (forall p, is_hold p e = false) -> (forall p, is_retire p e = false) -> (forall p, is_touch p e = false) ->
  Inv2 g (upd_loc a t (set_cs (a_loc a t) (Some (List.length tr)))) (tr ++ Conc.tag t [e]).
Proof.
  intros (IS & IT) Hc E1 N2 N3 N4 N6. split.
  - apply InvS_view; auto.
    intros p u b H. exists b. split; [exact H|auto].
  - destruct IT as [O B TA0 TB0 V R RR]. unfold upd_loc. constructor; cbn [a_loc a_gone a_owner].
    + intros p h u. split.
      * intros X. apply at_app_l. apply O; exact X.
      * intros X. apply O. eapply at_tag_old; [|exact X]. intros e0 [<-|[]]; apply N3.
    + intros x p u r. assert (E : v_batch (updL (a_loc a) t (set_cs (a_loc a t) (Some (List.length tr))) x) = v_batch (a_loc a x)) by (ucase x t; reflexivity).
      rewrite E. intros H. destruct (B x p u r H) as (B1 & B2). split; [apply at_app_l; exact B1|]. apply outside_app; [exact B2|]. apply at_lt in B1. lia.
    + intros r s. ucase r t.
      * cbn [set_cs v_cs]. intros X. inversion X; subst s. split.
        -- apply at_tag_first; exact E1.
        -- intros b Hb Hat. apply at_tag_inv in Hat. destruct Hat as [Hat|(_ & j & e0 & Hn & -> & HP)]; [apply at_lt in Hat; lia|].
           destruct j as [|j]; [lia|]. cbn in Hn. destruct j; discriminate.
      * intros X. destruct (TA0 r s X) as (A1 & A2). split; [apply at_app_l; exact A1|].
        intros b Hb Hat. apply (A2 b Hb). apply at_tag_inv in Hat. destruct Hat as [Hat|(-> & _)]; [exact Hat|congruence].
    + intros r s H. apply at_tag_inv in H. destruct H as [H|(-> & j & e0 & Hn & -> & HP)].
      * destruct (TB0 r s H) as [A|(b & Hb & Hat)].
        -- ucase r t; [congruence|left; exact A].
        -- right. exists b. split; [exact Hb|apply at_app_l; exact Hat].
      * destruct j as [|j]; [|cbn in Hn; destruct j; discriminate]. left. rewrite updL_same. cbn. f_equal. lia.
    + intros r p. ucase r t.
      * cbn. intros H. destruct (V t p H) as (s & Hs & _). congruence.
      * intros H. destruct (V r p H) as (s & Hs & Hk). exists s. split; [exact Hs|]. intros k w Hat. apply (Hk k w).
        eapply at_tag_old; [|exact Hat]. intros e0 [<-|[]]; apply N4.
    + intros k w p H. apply at_tag_old in H; [|intros e0 [<-|[]]; apply N4]. destruct (R k w p H) as (G & u & r & Hur & H1 & H2 & H3 & H4).
      split; [exact G|]. exists u, r. pose proof (at_lt _ _ _ _ H) as Lk. split; [exact Hur|]. split; [apply at_app_l; exact H1|].
      split; [apply at_app_l; exact H2|]. split; apply outside_app; auto; lia.
    + intros x r p H. apply at_tag_old in H; [|intros e0 [<-|[]]; apply N6]. destruct (RR x r p H) as (s & Hs & H1 & H2 & H3).
      exists s. split; [exact Hs|]. split; [apply at_app_l; exact H1|]. split.
      * intros b Hb Hat. apply (H2 b Hb). apply at_tag_inv in Hat. destruct Hat as [Hat|(_ & j & e0 & Hn & -> & HP)]; [exact Hat|].
        pose proof (at_lt _ _ _ _ H). lia.
      * intros k w Hat. apply (H3 k w). eapply at_tag_old; [|exact Hat]. intros e0 [<-|[]]; apply N4.
Qed.

Lemma step_runlock0 g a tr t e s :
  Inv2 g a tr -> v_cs (a_loc a t) = Some s -> is_runlock0 e = true -> is_rlock1 e = false ->
  (forall p, is_hold p e = false) -> (forall p, is_retire p e = false) -> (forall p, is_touch p e = false) ->
  Inv2 g (upd_loc a t (set_seen (set_cs (a_loc a t) None) None)) (tr ++ Conc.tag t [e]).
Proof.
  intros (IS & IT) Hc E2 N1 N3 N4 N6. split.
  - apply InvS_view; auto.
    + intros p H. discriminate H.
    + intros p u b H. exists b. split; [exact H|auto].
  - destruct IT as [O B TA0 TB0 V R RR]. unfold upd_loc. constructor; cbn [a_loc a_gone a_owner].
    + intros p h u. split.
      * intros X. apply at_app_l. apply O; exact X.
      * intros X. apply O. eapply at_tag_old; [|exact X]. intros e0 [<-|[]]; apply N3.
    + intros x p u r. assert (E : v_batch (updL (a_loc a) t (set_seen (set_cs (a_loc a t) None) None) x) = v_batch (a_loc a x)) by (ucase x t; reflexivity).
      rewrite E. intros H. destruct (B x p u r H) as (B1 & B2). split; [apply at_app_l; exact B1|]. apply outside_app; [exact B2|]. apply at_lt in B1. lia.
    + intros r s0. ucase r t; [cbn; discriminate|].
      intros X. destruct (TA0 r s0 X) as (A1 & A2). split; [apply at_app_l; exact A1|].
      intros b Hb Hat. apply (A2 b Hb). apply at_tag_inv in Hat. destruct Hat as [Hat|(-> & _)]; [exact Hat|congruence].
    + intros r s0 H. apply at_tag_old in H; [|intros e0 [<-|[]]; exact N1].
      destruct (TB0 r s0 H) as [A|(b & Hb & Hat)].
      * ucase r t; [|left; exact A]. right. exists (List.length tr). split; [apply at_lt in H; lia|].
        apply at_tag_first; exact E2.
      * right. exists b. split; [exact Hb|apply at_app_l; exact Hat].
    + intros r p. ucase r t; [cbn; discriminate|].
      intros H. destruct (V r p H) as (s0 & Hs & Hk). exists s0. split; [exact Hs|]. intros k w Hat. apply (Hk k w).
      eapply at_tag_old; [|exact Hat]. intros e0 [<-|[]]; apply N4.
    + intros k w p H. apply at_tag_old in H; [|intros e0 [<-|[]]; apply N4]. destruct (R k w p H) as (G & u & r & Hur & H1 & H2 & H3 & H4).
      split; [exact G|]. exists u, r. pose proof (at_lt _ _ _ _ H) as Lk. split; [exact Hur|]. split; [apply at_app_l; exact H1|].
      split; [apply at_app_l; exact H2|]. split; apply outside_app; auto; lia.
    + intros x r p H. apply at_tag_old in H; [|intros e0 [<-|[]]; apply N6]. destruct (RR x r p H) as (s0 & Hs & H1 & H2 & H3).
      exists s0. split; [exact Hs|]. split; [apply at_app_l; exact H1|]. split.
      * intros b Hb Hat. apply (H2 b Hb). apply at_tag_inv in Hat. destruct Hat as [Hat|(_ & j & e0 & Hn & -> & HP)]; [exact Hat|].
        pose proof (at_lt _ _ _ _ H). lia.
      * intros k w Hat. apply (H3 k w). eapply at_tag_old; [|exact Hat]. intros e0 [<-|[]]; apply N4.
Qed.

(** ** release: the nodes [moved] go to the batch *)
Lemma is_release_in p ps : In p ps -> is_release p (EvCli "release" ps) = true.
Proof.
  intros H. unfold is_release. cbn. apply existsb_exists. exists p. split; [exact H|apply Z.eqb_refl].
Qed.

Lemma step_release g a tr t ps (moved : list (Z * nat)) :
  Inv2 g a tr -> v_cs (a_loc a t) = None ->
  (forall p u, In (p, u) moved -> In p ps /\ (In (p, u) (v_live (a_loc a t)) \/ v_x (a_loc a t) = Some (p, u, true))) ->
  let n := List.length tr in
  Inv2 g (upd_loc a t (set_batch (a_loc a t) (map (fun pu => (fst pu, snd pu, n)) moved ++ v_batch (a_loc a t))))
       (tr ++ Conc.tag t (cli "release" ps)).
Proof.
  intros (IS & IT) Hc Hmv n. split.
  - pose proof IS as [A1 A2 A3 A4 A5 A6 A7 A8 A9 A10 A11]. unfold upd_loc. constructor; cbn [a_loc a_gone a_owner]; auto.
    + intros x p m. ucase x t; [cbn|]; apply A7.
    + intros x p. ucase x t; [cbn|]; apply A8.
    + intros x p u. ucase x t; [cbn|]; apply A9.
    + intros x p u b. ucase x t; [cbn|]; apply A10.
    + intros x p u r. ucase x t; [cbn|apply A11]. intros H. apply in_app_or in H. destruct H as [H|H]; [|apply A11 with (t := t); exact H].
      apply in_map_iff in H. destruct H as ([p0 u0] & E & Hin). cbn in E. inversion E; subst p u r.
      destruct (Hmv p0 u0 Hin) as (_ & [X|X]).
      * destruct (A9 t p0 u0 X) as (B1 & B2). split; [exact B1|]. split; [exact B2|].
        apply (O1 _ _ IT) in B1. apply at_lt in B1. exact B1.
      * destruct (A10 t p0 u0 true X) as (B1 & B2). split; [exact B1|]. split; [apply B2; reflexivity|].
        apply (O1 _ _ IT) in B1. apply at_lt in B1. exact B1.
  - pose proof IT as [O B TA0 TB0 V R RR]. unfold upd_loc. constructor; cbn [a_loc a_gone a_owner].
    + intros p h u. split.
      * intros X. apply at_app_l. apply O; exact X.
      * intros X. apply O. eapply at_tag_old; [|exact X]. intros e0 [<-|[]]. unfold is_hold, cli_is. destruct ps; reflexivity.
    + intros x p u r. ucase x t.
      * cbn [set_batch v_batch]. intros H. apply in_app_or in H. destruct H as [H|H].
        -- apply in_map_iff in H. destruct H as ([p0 u0] & E & Hin). cbn in E. inversion E; subst p u r.
           destruct (Hmv p0 u0 Hin) as (Hps & _). split.
           ++ unfold cli. apply at_tag_first. apply is_release_in; exact Hps.
           ++ apply outside_now with (a := a); assumption.
        -- destruct (B t p u r H) as (B1 & B2). split; [apply at_app_l; exact B1|]. apply outside_app; [exact B2|]. apply at_lt in B1. lia.
      * intros H. destruct (B x p u r H) as (B1 & B2). split; [apply at_app_l; exact B1|]. apply outside_app; [exact B2|]. apply at_lt in B1. lia.
    + intros r s. assert (E : v_cs (updL (a_loc a) t (set_batch (a_loc a t) (map (fun pu => (fst pu, snd pu, n)) moved ++ v_batch (a_loc a t))) r) = v_cs (a_loc a r)) by (ucase r t; reflexivity).
      rewrite E. intros X. destruct (TA0 r s X) as (A1' & A2'). split; [apply at_app_l; exact A1'|].
      intros b Hb Hat. apply (A2' b Hb). eapply at_tag_old; [|exact Hat]. intros e0 [<-|[]]. unfold is_runlock0, cli_is. destruct ps; reflexivity.
    + intros r s H. assert (E : v_cs (updL (a_loc a) t (set_batch (a_loc a t) (map (fun pu => (fst pu, snd pu, n)) moved ++ v_batch (a_loc a t))) r) = v_cs (a_loc a r)) by (ucase r t; reflexivity).
      rewrite E. apply at_tag_old in H; [|intros e0 [<-|[]]; unfold is_rlock1, cli_is; destruct ps; reflexivity].
      destruct (TB0 r s H) as [A|(b & Hb & Hat)]; [left; exact A|right; exists b; split; [exact Hb|apply at_app_l; exact Hat]].
    + intros r p. assert (E : v_cs (updL (a_loc a) t (set_batch (a_loc a t) (map (fun pu => (fst pu, snd pu, n)) moved ++ v_batch (a_loc a t))) r) = v_cs (a_loc a r)) by (ucase r t; reflexivity).
      assert (E' : v_seen (updL (a_loc a) t (set_batch (a_loc a t) (map (fun pu => (fst pu, snd pu, n)) moved ++ v_batch (a_loc a t))) r) = v_seen (a_loc a r)) by (ucase r t; reflexivity).
      rewrite E, E'. intros H. destruct (V r p H) as (s & Hs & Hk). exists s. split; [exact Hs|]. intros k w Hat. apply (Hk k w).
      eapply at_tag_old; [|exact Hat]. intros e0 [<-|[]]. unfold is_retire, cli_is. destruct ps; reflexivity.
    + intros k w p H. apply at_tag_old in H; [|intros e0 [<-|[]]; unfold is_retire, cli_is; destruct ps; reflexivity].
      destruct (R k w p H) as (G & u & r & Hur & H1 & H2 & H3 & H4).
      split; [exact G|]. exists u, r. pose proof (at_lt _ _ _ _ H) as Lk. split; [exact Hur|]. split; [apply at_app_l; exact H1|].
      split; [apply at_app_l; exact H2|]. split; apply outside_app; auto; lia.
    + intros x r p H. apply at_tag_old in H; [|intros e0 [<-|[]]; unfold is_touch, cli_is; destruct ps; reflexivity].
      destruct (RR x r p H) as (s & Hs & H1 & H2 & H3).
      exists s. split; [exact Hs|]. split; [apply at_app_l; exact H1|]. split.
      * intros b Hb Hat. apply (H2 b Hb). eapply at_tag_old; [|exact Hat]. intros e0 [<-|[]]. unfold is_runlock0, cli_is. destruct ps; reflexivity.
      * intros k w Hat. apply (H3 k w). eapply at_tag_old; [|exact Hat]. intros e0 [<-|[]]. unfold is_retire, cli_is. destruct ps; reflexivity.
Qed.

(** ** retire: only a released node, outside every section *)
Lemma step_retire g a tr t p u r :
  Inv2 g a tr -> v_cs (a_loc a t) = None -> In (p, u, r) (v_batch (a_loc a t)) ->
  Inv2 g a (tr ++ Conc.tag t (cli "retire" [p])).
Proof.
  intros (IS & IT) Hc Hin. split; [exact IS|].
  destruct (CB _ _ IS t p u r Hin) as (B1 & B2 & B3). destruct (BT _ _ IT t p u r Hin) as (B4 & B5).
  pose proof IT as [O B TA0 TB0 V R RR]. constructor.
  - intros q h v. split.
    + intros X. apply at_app_l. apply O; exact X.
    + intros X. apply O. eapply at_tag_old; [|exact X]. intros e0 [<-|[]]. reflexivity.
  - intros x q v w H. destruct (B x q v w H) as (C1' & C2'). split; [apply at_app_l; exact C1'|]. apply outside_app; [exact C2'|]. apply at_lt in C1'. lia.
  - intros x s X. destruct (TA0 x s X) as (A1' & A2'). split; [apply at_app_l; exact A1'|].
    intros b Hb Hat. apply (A2' b Hb). eapply at_tag_old; [|exact Hat]. intros e0 [<-|[]]. reflexivity.
  - intros x s H. apply at_tag_old in H; [|intros e0 [<-|[]]; reflexivity].
    destruct (TB0 x s H) as [A|(b & Hb & Hat)]; [left; exact A|right; exists b; split; [exact Hb|apply at_app_l; exact Hat]].
  - intros x q H. destruct (V x q H) as (s & Hs & Hk). exists s. split; [exact Hs|]. intros k w Hat.
    apply at_tag_inv in Hat. destruct Hat as [Hat|(_ & j & e0 & Hn & -> & HP)]; [apply (Hk k w); exact Hat|].
    destruct (TA0 x s Hs) as (A1' & _). apply at_lt in A1'. lia.
  - intros k w q H. apply at_tag_inv in H. destruct H as [H|(-> & j & e0 & Hn & -> & HP)].
    + destruct (R k w q H) as (G & u0 & r0 & Hur & H1 & H2 & H3 & H4).
      split; [exact G|]. exists u0, r0. pose proof (at_lt _ _ _ _ H) as Lk. split; [exact Hur|]. split; [apply at_app_l; exact H1|].
      split; [apply at_app_l; exact H2|]. split; apply outside_app; auto; lia.
    + destruct j as [|j]; [|cbn in Hn; destruct j; discriminate]. cbn in Hn. inversion Hn; subst e0.
      unfold is_retire, cli_is in HP. cbn in HP. apply Z.eqb_eq in HP. subst q.
      split; [exact B2|]. exists u, r. pose proof (at_lt _ _ _ _ B4) as Lr. split; [lia|].
      split; [apply at_app_l; apply O; exact B1|]. split; [apply at_app_l; exact B4|].
      split; [apply outside_app; [exact B5|lia]|]. replace (List.length tr + 0)%nat with (List.length tr) by lia.
      apply outside_now with (a := a); assumption.
  - intros x w q H. apply at_tag_old in H; [|intros e0 [<-|[]]; reflexivity].
    destruct (RR x w q H) as (s & Hs & H1 & H2 & H3).
    exists s. split; [exact Hs|]. split; [apply at_app_l; exact H1|]. split.
    + intros b Hb Hat. apply (H2 b Hb). eapply at_tag_old; [|exact Hat]. intros e0 [<-|[]]. reflexivity.
    + intros k w0 Hat. apply at_tag_inv in Hat. destruct Hat as [Hat|(_ & j & e0 & Hn & -> & HP)]; [apply (H3 k w0); exact Hat|].
      pose proof (at_lt _ _ _ _ H). lia.
Qed.

(** ** touch: only a node loaded from the head in the current section *)
Lemma step_touch g a tr t p :
  Inv2 g a tr -> v_seen (a_loc a t) = Some p -> Inv2 g a (tr ++ Conc.tag t (cli "touch" [p])).
Proof.
  intros (IS & IT) Hs. split; [exact IS|].
  pose proof IT as [O B TA0 TB0 V R RR]. destruct (V t p Hs) as (s & Hcs & Hk). destruct (TA0 t s Hcs) as (T1 & T2).
  constructor.
  - intros q h v. split.
    + intros X. apply at_app_l. apply O; exact X.
    + intros X. apply O. eapply at_tag_old; [|exact X]. intros e0 [<-|[]]. reflexivity.
  - intros x q v w H. destruct (B x q v w H) as (C1' & C2'). split; [apply at_app_l; exact C1'|]. apply outside_app; [exact C2'|]. apply at_lt in C1'. lia.
  - intros x s0 X. destruct (TA0 x s0 X) as (A1' & A2'). split; [apply at_app_l; exact A1'|].
    intros b Hb Hat. apply (A2' b Hb). eapply at_tag_old; [|exact Hat]. intros e0 [<-|[]]. reflexivity.
  - intros x s0 H. apply at_tag_old in H; [|intros e0 [<-|[]]; reflexivity].
    destruct (TB0 x s0 H) as [A|(b & Hb & Hat)]; [left; exact A|right; exists b; split; [exact Hb|apply at_app_l; exact Hat]].
  - intros x q H. destruct (V x q H) as (s0 & Hs0 & Hk0). exists s0. split; [exact Hs0|]. intros k w Hat. apply (Hk0 k w).
    eapply at_tag_old; [|exact Hat]. intros e0 [<-|[]]. reflexivity.
  - intros k w q H. apply at_tag_old in H; [|intros e0 [<-|[]]; reflexivity].
    destruct (R k w q H) as (G & u0 & r0 & Hur & H1 & H2 & H3 & H4).
    split; [exact G|]. exists u0, r0. pose proof (at_lt _ _ _ _ H) as Lk. split; [exact Hur|]. split; [apply at_app_l; exact H1|].
    split; [apply at_app_l; exact H2|]. split; apply outside_app; auto; lia.
  - intros x w q H. apply at_tag_inv in H. destruct H as [H|(-> & j & e0 & Hn & -> & HP)].
    + destruct (RR x w q H) as (s0 & Hs0 & H1 & H2 & H3).
      exists s0. split; [exact Hs0|]. split; [apply at_app_l; exact H1|]. split.
      * intros b Hb Hat. apply (H2 b Hb). eapply at_tag_old; [|exact Hat]. intros e0 [<-|[]]. reflexivity.
      * intros k w0 Hat. apply (H3 k w0). eapply at_tag_old; [|exact Hat]. intros e0 [<-|[]]. reflexivity.
    + destruct j as [|j]; [|cbn in Hn; destruct j; discriminate]. cbn in Hn. inversion Hn; subst e0.
      unfold is_touch, cli_is in HP. cbn in HP. apply Z.eqb_eq in HP. subst q.
      pose proof (at_lt _ _ _ _ T1) as Ls. exists s. split; [lia|]. split; [apply at_app_l; exact T1|]. split.
      * intros b Hb Hat. apply (T2 b); [lia|]. eapply at_tag_old; [|exact Hat]. intros e0 [<-|[]]. reflexivity.
      * intros k w0 Hat. apply (Hk k w0). eapply at_tag_old; [|exact Hat]. intros e0 [<-|[]]. reflexivity.
Qed.
