(** * SkipListNestE8: the operations, the initial state, and the theorem [skip_levels_nested]:
      for EVERY schedule of programs of all five operations, at EVERY reachable state the levels are nested ([LevOK]). *)
From Coq Require Import ZArith List String Bool Lia PeanoNat.
From LV Require Import Base.Conc Base.Events Model.SkipList Proofs.SkipListProofs Proofs.SkipListSub Proofs.SkipListSubThm Proofs.SkipListNest Proofs.SkipListNestProg
  Proofs.SkipListNestThm Proofs.SkipListNestE Proofs.SkipListNestE2 Proofs.SkipListNestE3 Proofs.SkipListNestE4 Proofs.SkipListNestE5 Proofs.SkipListNestE6 Proofs.SkipListNestE7.
Import ListNotations.

Section Progs.
Context {R : Type}.
Variables (t n : nat).
Notation eany := (@eany R t n).

Lemma Q_ff_level fuel : forall s key g0 g1 lvl pred cur (k : ff_out -> ptr -> prog R) kf,
  (forall o p, eany (k o p)) -> eany kf -> eany (ff_level fuel s key g0 g1 lvl pred cur k kf).
Proof.
  induction fuel as [|f IH]; intros s key g0 g1 lvl pred cur k kf Hk Hf; cbn [ff_level]; [exact Hf|].
  destruct (Nat.eqb (fst cur) null && negb (snd cur)); [apply Hk|]. destruct (snd cur); [apply Hk|].
  destruct (cmpk (fst cur) key <? 0)%Z.
  - intros K O. apply EF_copy. apply Q_ga_protect; [intros; apply Hf|]. intros nx K' _ _. now apply IH.
  - destruct (cmpk (fst cur) key =? 0)%Z; [|apply Hk]. intros K O. apply EF_ld. intros x K' _ _ _ _. cbn [vp]. destruct (snd x); apply Hk.
Qed.

Lemma Q_ff_levels fuel : forall m s key g0 g1 pred (k : ff_out -> prog R) kf,
  (forall o, eany (k o)) -> eany kf -> eany (ff_levels fuel m s key g0 g1 pred k kf).
Proof.
  induction m as [|lvl IH]; intros s key g0 g1 pred k kf Hk Hf; cbn [ff_levels]; [apply Hk|].
  intros K O. apply Q_ga_protect; [intros; apply Hf|]. intros cur K' _ _. apply Q_ff_level; [|exact Hf].
  intros o p. destruct o; try apply Hk. now apply IH.
Qed.

Lemma Q_find_fastpath fuel : forall s key g0 g1 attempt (k : ff_out -> prog R) kf,
  (forall o, eany (k o)) -> eany kf -> eany (find_fastpath fuel s key g0 g1 attempt k kf).
Proof.
  induction fuel as [|f IH]; intros s key g0 g1 attempt k kf Hk Hf; cbn [find_fastpath]; [exact Hf|].
  intros K O. enx. apply Q_ff_levels; [|exact Hf]. intros o. destruct o; try apply Hk.
  destruct (Nat.ltb (S attempt) 4); [now apply IH|apply Hk].
Qed.

Lemma Q_extract_loop fuel : forall mx s gp ps (k : TL -> option nat -> option ptr -> prog R) kf,
  tlk t n s -> (forall s' g r, tlk t n s' -> eany (k s' g r)) -> (forall s' g, tlk t n s' -> eany (kf s' g)) ->
  eany (extract_loop fuel mx s gp ps k kf).
Proof.
  induction fuel as [|f IH]; intros mx s gp ps k kf Ht Hk Hf; cbn [extract_loop]; [now apply Hf|].
  intros K O.
  assert (Hbody : forall s1 ps1 K', tlk t n s1 -> eposk K' ps1 -> curk K' (pcur ps1) ->
     EF t n K' O None (if Nat.eqb (pcur ps1) null then k s1 gp None
           else let del := pcur ps1 in
                let (g, s2) := match gp with Some g => (g, s1) | None => alloc1 s1 end in
                Act (a_guard_st_h (tid s2) g del) (fun vh =>
                  try_remove_at (S f) s2 del (Z.to_nat (vz vh)) ps1 (fun s3 ok =>
                    if ok then Act a_fas_cnt (fun _ => k s3 (Some g) (Some del)) else extract_loop f mx s3 (Some g) ps1 k kf)
                    (kf s2 (Some g))))).
  { intros s1 ps1 K' Hs Hp Hc. destruct (Nat.eqb (pcur ps1) null) eqn:E; [now apply Hk|].
    assert (Nd : pcur ps1 <> null) by now apply eqb_nnull.
    destruct Hc as [Hc|Hc]; [congruence|]. cbv zeta.
    assert (Hs2 : tlk t n (snd (match gp with Some g => (g, s1) | None => alloc1 s1 end))).
    { destruct gp; [exact Hs|]. destruct (alloc1 s1) eqn:Ea. cbn. eapply tlk_alloc1; eauto. }
    destruct (match gp with Some g => (g, s1) | None => alloc1 s1 end) as [g s2]. cbn [snd] in Hs2.
    apply EF_guard_h. intros h K2 I2 Hh Fb. cbn [vz]. rewrite Nat2Z.id.
    apply Q_try_remove_at; [exact Hs2|exact Hh|exact Nd|eapply ekn1_incl; eauto|eapply eposk_incl; eauto|now apply Fb| |].
    - intros s3 b Hs3 K3. destruct b; [enx; now apply Hk|now apply IH].
    - intros K3. now apply Hf. }
  destruct mx; [apply Q_find_max_position|apply Q_find_min_position]; auto; intros K'; now apply Hf.
Qed.

End Progs.

(** *** the operations *)
Definition ebetween {R} (t : nat) (cont : TL -> prog R) : Prop := forall s n K O, tlk t n s -> EF t n K O None (cont s).

Lemma Q_op_insert {R} t fuel s k h (cont : TL -> prog R) n K O :
  t < 64 -> k < 8 -> 1 <= h <= MAXH -> tlk t n s -> ebetween t cont -> EF t n K O None (op_insert fuel s k h cont).
Proof.
  intros Ht Hk Hh [E1 E2] Hc. unfold op_insert. rewrite E1, E2. apply EF_alloc; auto. intros _.
  assert (Hs0 : tlk t (S n) (mkTL t (fl s) (S n))) by (split; reflexivity).
  destruct (alloc1 _) as [gnew s1] eqn:Ea. pose proof (tlk_alloc1 _ _ _ _ _ Ea Hs0) as Hs1.
  apply EF_assign. destruct (allocn _ s1) as [slots s2] eqn:En. pose proof (tlk_allocn _ _ _ _ _ _ En Hs1) as Hs2.
  apply (Q_insert_loop t (S n) fuel s2 (Z.of_nat k) (node_id t n k) h false); auto.
  - intros s' b Hs' K' O'. apply EF_free_all; auto. intros s'' Hs''. apply EF_clear. unfold finish. apply EF_emit. apply Hc. now apply tlk_free1.
  - intros K' O'. apply EF_free_all; auto. intros s'' Hs''. apply EF_clear. unfold out_of_fuel. apply EF_emit. apply Hc. now apply tlk_free1.
Qed.

Lemma Q_op_contains {R} t fuel s k (cont : TL -> prog R) n K O :
  tlk t n s -> ebetween t cont -> EF t n K O None (op_contains fuel s k cont).
Proof.
  intros Hs Hc. unfold op_contains. destruct (allocn 2 s) as [gs s1] eqn:En. pose proof (tlk_allocn _ _ _ _ _ _ En Hs) as Hs1.
  apply Q_find_fastpath.
  - intros o K' O'. apply EF_free_all; auto. intros s2 Hs2.
    assert (Hfin : forall a b s', tlk t n s' -> EF t n K' O' None (finish s' a b cont)) by (intros; unfold finish; apply EF_emit; now apply Hc).
    destruct o; try (now apply Hfin).
    destruct (allocn _ s2) as [slots s3] eqn:En3. pose proof (tlk_allocn _ _ _ _ _ _ En3 Hs2) as Hs3.
    apply Q_find_position; auto.
    + intros s4 o' K'' Hs4 _ _ _. apply EF_free_all; auto. intros s5 Hs5. unfold finish. destruct o'; apply EF_emit; now apply Hc.
    + intros K'' _. apply EF_free_all; auto. intros s5 Hs5. unfold out_of_fuel. apply EF_emit. now apply Hc.
  - intros K' O'. apply EF_free_all; auto. intros s2 Hs2. unfold out_of_fuel. apply EF_emit. now apply Hc.
Qed.

Lemma Q_op_erase {R} t fuel s k (cont : TL -> prog R) n K O :
  tlk t n s -> ebetween t cont -> EF t n K O None (op_erase fuel s k cont).
Proof.
  intros Hs Hc. unfold op_erase. destruct (allocn _ s) as [slots s1] eqn:En. pose proof (tlk_allocn _ _ _ _ _ _ En Hs) as Hs1.
  assert (Hf : forall K' O', EF t n K' O' None (g_free_all s1 slots (fun s' => out_of_fuel s' cont))).
  { intros K' O'. apply EF_free_all; auto. intros s' Hs'. unfold out_of_fuel. apply EF_emit. now apply Hc. }
  apply Q_find_position; [exact Hs1| |intros; apply Hf]. intros s2 o K' Hs2 I' Ho Hn. destruct o as [ps|ps|].
  - cbn [eokn] in Ho. destruct Ho as [Hcur [(X & _)|Hp]]; [discriminate|]. specialize (Hn eq_refl). cbn in Hn.
    destruct Hcur as [Hcur|Hcur]; [congruence|].
    destruct (alloc1 s2) as [gdel s3] eqn:Ea. pose proof (tlk_alloc1 _ _ _ _ _ Ea Hs2) as Hs3.
    apply EF_guard_h. intros h K2 I2 Hh Fb. enx. cbn [vz]. rewrite Nat2Z.id.
    apply Q_try_remove_at; [exact Hs3|exact Hh|exact Hn|eapply ekn1_incl; eauto|eapply eposk_incl; eauto|now apply Fb| |intros K3; apply Hf].
    intros s4 b Hs4 K3.
    assert (Hfin : forall z, EF t n K3 O None (g_clear s4 gdel (g_free_all (free1 gdel s4) slots (fun s' => finish s' z 0 cont)))).
    { intros z. apply EF_clear. apply EF_free_all; [now apply tlk_free1|]. intros s' Hs'. unfold finish. apply EF_emit. now apply Hc. }
    destruct b; [enx|]; apply Hfin.
  - apply EF_free_all; auto. intros s' Hs'. unfold finish. apply EF_emit. now apply Hc.
  - apply EF_free_all; auto. intros s' Hs'. unfold finish. apply EF_emit. now apply Hc.
Qed.

Lemma Q_op_extract {R} t fuel mx s (cont : TL -> prog R) n K O :
  tlk t n s -> ebetween t cont -> EF t n K O None (op_extract fuel mx s cont).
Proof.
  intros Hs Hc. unfold op_extract. destruct (allocn _ s) as [slots s1] eqn:En. pose proof (tlk_allocn _ _ _ _ _ _ En Hs) as Hs1.
  apply Q_extract_loop; [exact Hs1| |].
  - intros s2 gp r Hs2 K' O'. destruct r as [del|].
    + apply EF_free_all; auto. intros s3 Hs3. destruct gp as [g|]; [enx; enx; apply EF_clear|]; unfold finish; apply EF_emit; apply Hc; auto; now apply tlk_free1.
    + destruct gp as [g|]; [apply EF_clear; apply EF_free_all; [now apply tlk_free1|]|apply EF_free_all; [exact Hs2|]];
        intros s3 Hs3; unfold finish; apply EF_emit; now apply Hc.
  - intros s2 gp Hs2 K' O'. apply EF_free_all; auto. intros s3 Hs3.
    destruct gp as [g|]; [apply EF_clear|]; unfold out_of_fuel; apply EF_emit; apply Hc; auto; now apply tlk_free1.
Qed.

Lemma Q_run_ops t fuel : t < 64 -> forall os, Forall op_ok os -> ebetween t (fun s => run_ops fuel s os).
Proof.
  intros Ht. induction os as [|o r IH]; intros Hok s n K O Hs; cbn [run_ops]; [apply EF_ret|].
  inversion Hok as [|? ? Ho Hr]; subst. unfold run_op. destruct o as [k h|k|k| |]; cbn [op_ok] in Ho; apply EF_emit.
  - destruct Ho. apply Q_op_insert; auto.
  - apply Q_op_erase; auto.
  - apply Q_op_contains; auto.
  - apply Q_op_extract; auto.
  - apply Q_op_extract; auto.
Qed.

Lemma Q_thread t fuel os lv : t < 64 -> Forall op_ok os -> wser lv = 0 -> wowe lv = None -> ESAFE t (thread_prog fuel t os) lv.
Proof.
  intros Ht Ho Hv Hw. unfold thread_prog.
  assert (H : EF t 0 (wkn lv) (wown lv) None (Act a_begin (fun _ => run_ops fuel (mkTL t (seq 0 NSLOTS) 0) os))).
  { enx. apply Q_run_ops; auto. split; reflexivity. }
  exact (H lv (incl_refl _) Hv eq_refl Hw).
Qed.
