(** * DhpSeq: the retired array of one thread record (retired_array::push/repush/extend, stage 2 of
      smr::scan) as a flat array with in-place compaction — for every block capacity.

    The chain of retired blocks of record [r] is abstracted to the list [flat g chain] of all its cells
    and the cursor (current_block_, current_cell_) to a linear index [w]; [Rinv] is the representation
    invariant.  [rt_push] is a write at [w]; [retire_data]/[stage2_blocks] are the list function [compact];
    [rt_do_extend] appends a block.  These lemmas are used by the sequential theorems (DhpSeqThm.v) and by the
    concurrent proofs (the retired array of a record is touched only by the thread that owns the record). *)
From Coq Require Import ZArith NArith List Bool Lia PeanoNat Permutation.
From LV Require Import Base.Conc Base.Events Model.DhpLang Model.Dhp Proofs.DhpBase.
Import ListNotations.

Section Seq.
  Variable c : cfg.
  Notation RB := (c_RB c).

  (** ** chains of retired blocks *)
  Fixpoint is_chain (g : G) (o : option nat) (l : list nat) : Prop :=
    match l with
    | [] => o = None
    | b :: l' => o = Some b /\ b < List.length (rbs g) /\ List.length (rb_cells (grb g b)) = RB /\
                 is_chain g (rb_next (grb g b)) l'
    end.

  Definition flat (g : G) (chain : list nat) : list nat := flat_map (fun b => rb_cells (grb g b)) chain.

  Lemma is_chain_lt g o l : is_chain g o l -> forall b, In b l -> b < List.length (rbs g).
  Proof. revert o; induction l as [|x l IH]; intros o H b Hb; cbn in *; [contradiction|].
    destruct H as (_ & H1 & _ & H2). destruct Hb as [->|Hb]; eauto. Qed.

  Lemma is_chain_cells g o l : is_chain g o l -> forall b, In b l -> List.length (rb_cells (grb g b)) = RB.
  Proof. revert o; induction l as [|x l IH]; intros o H b Hb; cbn in *; [contradiction|].
    destruct H as (_ & _ & H1 & H2). destruct Hb as [->|Hb]; eauto. Qed.

  Lemma flat_length g o l : is_chain g o l -> List.length (flat g l) = List.length l * RB.
  Proof. unfold flat. revert o; induction l as [|x l IH]; intros o H; cbn in *; auto.
    destruct H as (_ & _ & H1 & H2). rewrite app_length, H1, (IH _ H2). lia. Qed.

  (** the chain only depends on the blocks in it *)
  Lemma is_chain_ext g g' o l :
    List.length (rbs g) <= List.length (rbs g') ->
    (forall b, In b l -> grb g' b = grb g b) -> is_chain g o l -> is_chain g' o l.
  Proof.
    intros HL. revert o; induction l as [|x l IH]; intros o He H; cbn in *; auto.
    destruct H as (H0 & H1 & H2 & H3). rewrite (He x (or_introl eq_refl)).
    repeat split; auto; try lia.
  Qed.

  Lemma flat_ext g g' l : (forall b, In b l -> grb g' b = grb g b) -> flat g' l = flat g l.
  Proof. intros He. unfold flat. induction l as [|x l IH]; cbn; auto. rewrite He, IH; auto.
    - intros b Hb; apply He; now right. - now left. Qed.

  (** nth block / last block of a chain *)
  Lemma is_chain_nth g o l j b : is_chain g o l -> nth_error l j = Some b ->
    rb_next (grb g b) = nth_error l (S j) /\ b < List.length (rbs g) /\ List.length (rb_cells (grb g b)) = RB.
  Proof.
    revert o j; induction l as [|x l IH]; intros o j H Hj; [destruct j; discriminate|].
    cbn in H. destruct H as (H0 & H1 & H2 & H3). destruct j as [|j]; cbn in Hj.
    - inversion Hj; subst x. repeat split; auto. destruct l; cbn in *; [auto|]. destruct H3 as (H3 & _). exact H3.
    - cbn [nth_error]. eapply IH; eauto.
  Qed.

  Lemma is_chain_head g o l : is_chain g o l -> o = nth_error l 0.
  Proof. destruct l; cbn; [auto|]. intros (H & _); exact H. Qed.

  (** reading and writing a cell through the flat view *)
  Lemma flat_nth g o l j b i : is_chain g o l -> nth_error l j = Some b -> i < RB ->
    nth (j * RB + i) (flat g l) 0 = nth i (rb_cells (grb g b)) 0.
  Proof.
    revert o j; induction l as [|x l IH]; intros o j H Hj Hi; [destruct j; discriminate|].
    cbn in H. destruct H as (H0 & H1 & H2 & H3). cbn [flat flat_map]. destruct j as [|j]; cbn in Hj.
    - inversion Hj; subst x. cbn. rewrite app_nth1 by lia. reflexivity.
    - rewrite app_nth2 by (rewrite H2; lia). rewrite H2.
      replace (S j * RB + i - RB) with (j * RB + i) by lia. eapply IH; eauto.
  Qed.

  Lemma flat_write g o l j b i v : is_chain g o l -> NoDup l -> nth_error l j = Some b -> i < RB ->
    flat (upd_rb g b (fun y => bs_cells (upd_nth (rb_cells y) i (fun _ => v)) y)) l =
    upd_nth (flat g l) (j * RB + i) (fun _ => v).
  Proof.
    revert o j; induction l as [|x l IH]; intros o j H Hnd Hj Hi; [destruct j; discriminate|].
    cbn in H. destruct H as (H0 & H1 & H2 & H3). inversion Hnd as [|? ? Hx Hnd']; subst.
    cbn [flat flat_map]. destruct j as [|j]; cbn in Hj.
    - inversion Hj; subst x. rewrite grb_upd_rb_same by exact H1. cbn [rb_cells bs_cells].
      rewrite upd_nth_app_l by (cbn; lia). cbn [Nat.mul Nat.add]. f_equal.
      apply flat_ext. intros b' Hb'. apply grb_upd_rb_other. intros ->; contradiction.
    - assert (b <> x) by (intros ->; apply Hx; eapply nth_error_In; eauto).
      rewrite grb_upd_rb_other by exact H. rewrite upd_nth_app_r by (rewrite H2; lia). f_equal.
      rewrite H2. replace (S j * RB + i - RB) with (j * RB + i) by lia. eapply IH; eauto.
  Qed.

  Lemma is_chain_write g o l b i v : is_chain g o l -> b < List.length (rbs g) ->
    is_chain (upd_rb g b (fun y => bs_cells (upd_nth (rb_cells y) i (fun _ => v)) y)) o l.
  Proof.
    intros H Hb. revert o H. induction l as [|x l IH]; intros o H; cbn in *; auto.
    destruct H as (H0 & H1 & H2 & H3). split; auto. split; [rewrite rbs_upd_rb, upd_nth_length; exact H1|].
    destruct (Nat.eq_dec b x) as [E|N].
    - subst x. rewrite grb_upd_rb_same by exact H1. cbn. rewrite upd_nth_length. split; auto.
    - rewrite grb_upd_rb_other by exact N. split; auto.
  Qed.

  (** ** representation invariant of record [r]'s retired array: chain, cursor at linear index [w] *)
  Record Rinv (g : G) (r : nat) (chain : list nat) (w : nat) : Prop := {
    ri_r : r < List.length (recs g);
    ri_chain : is_chain g (r_head (grec g r)) chain;
    ri_nd : NoDup chain;
    ri_ne : chain <> [];
    ri_tail : r_tail (grec g r) = nth_error chain (List.length chain - 1);
    ri_w : w <= List.length chain * RB;
    (* normal form of the cursor: (block w / RB, w mod RB), or (last block, RB) when the array is full *)
    ri_cur : exists j i, r_cb (grec g r) = nth_error chain j /\ j < List.length chain /\ r_cc (grec g r) = i /\
                         w = j * RB + i /\ (i < RB \/ (i = RB /\ S j = List.length chain)) }.

  Definition content (g : G) (chain : list nat) (w : nat) : list nat := firstn w (flat g chain).

  (** the parts of the state a retired-array operation on [r] over [chain] may change: the cursor of [r],
      the cells of the blocks of [chain] (and the [oob] flag, stated apart) *)
  Definition rec_eq_mod_cur (x' x : rec) : Prop := rs_cur (r_cb x) (r_cc x) x' = x.
  Definition rb_eq_mod_cells (y' y : rblock) : Prop := bs_cells (rb_cells y) y' = y.
  Definition G_eq_mod_ret (g' g : G) : Prop := set_oob (set_recs (set_rbs g' (rbs g)) (recs g)) (oob g) = g.

  Definition rframe (g g' : G) (r : nat) (chain : list nat) : Prop :=
    List.length (recs g') = List.length (recs g) /\ List.length (rbs g') = List.length (rbs g) /\
    (forall r', r' <> r -> grec g' r' = grec g r') /\ rec_eq_mod_cur (grec g' r) (grec g r) /\
    (forall b, ~ In b chain -> grb g' b = grb g b) /\
    (forall b, rb_eq_mod_cells (grb g' b) (grb g b) /\
               List.length (rb_cells (grb g' b)) = List.length (rb_cells (grb g b))) /\
    G_eq_mod_ret g' g.

  Lemma rec_eq_mod_cur_refl x : rec_eq_mod_cur x x.
  Proof. destruct x; reflexivity. Qed.
  Lemma rb_eq_mod_cells_refl y : rb_eq_mod_cells y y.
  Proof. destruct y; reflexivity. Qed.
  Lemma G_eq_mod_ret_refl g : G_eq_mod_ret g g.
  Proof. destruct g; reflexivity. Qed.

  Lemma rec_eq_mod_cur_trans x1 x2 x3 : rec_eq_mod_cur x2 x1 -> rec_eq_mod_cur x3 x2 -> rec_eq_mod_cur x3 x1.
  Proof. unfold rec_eq_mod_cur. intros H1 H2. rewrite <- H1, <- H2. reflexivity. Qed.
  Lemma rb_eq_mod_cells_trans y1 y2 y3 : rb_eq_mod_cells y2 y1 -> rb_eq_mod_cells y3 y2 -> rb_eq_mod_cells y3 y1.
  Proof. unfold rb_eq_mod_cells. intros H1 H2. rewrite <- H1, <- H2. reflexivity. Qed.
  Lemma G_eq_mod_ret_trans g1 g2 g3 : G_eq_mod_ret g2 g1 -> G_eq_mod_ret g3 g2 -> G_eq_mod_ret g3 g1.
  Proof. unfold G_eq_mod_ret. destruct g1, g2, g3; cbn. intros H1 H2. inversion H1; inversion H2; subst. reflexivity. Qed.

  Lemma rframe_refl g r chain : rframe g g r chain.
  Proof.
    unfold rframe. repeat split; auto using rec_eq_mod_cur_refl, rb_eq_mod_cells_refl, G_eq_mod_ret_refl.
  Qed.

  Lemma rframe_trans g1 g2 g3 r chain : rframe g1 g2 r chain -> rframe g2 g3 r chain -> rframe g1 g3 r chain.
  Proof.
    intros (A1&A2&A3&A4&A5&A6&A7) (B1&B2&B3&B4&B5&B6&B7). unfold rframe.
    split; [congruence|]. split; [congruence|].
    split; [intros r' Hr; rewrite B3, A3; auto|].
    split; [eapply rec_eq_mod_cur_trans; eauto|].
    split; [intros b Hb; rewrite B5, A5; auto|].
    split; [|eapply G_eq_mod_ret_trans; eauto].
    intros b. destruct (A6 b) as (X1 & X2), (B6 b) as (Y1 & Y2).
    split; [eapply rb_eq_mod_cells_trans; eauto|congruence].
  Qed.

  Lemma rframe_write g r chain b i v : In b chain -> b < List.length (rbs g) ->
    rframe g (upd_rb g b (fun y => bs_cells (upd_nth (rb_cells y) i (fun _ => v)) y)) r chain.
  Proof.
    intros Hin Hb. unfold rframe.
    split; [reflexivity|]. split; [rewrite rbs_upd_rb; apply upd_nth_length|].
    split; [intros; apply grec_upd_rb|].
    split; [rewrite grec_upd_rb; apply rec_eq_mod_cur_refl|].
    split; [intros b' Hb'; apply grb_upd_rb_other; intros ->; contradiction|].
    split.
    - intros b'. destruct (Nat.eq_dec b b') as [<-|N].
      + rewrite grb_upd_rb_same by exact Hb. cbn. rewrite upd_nth_length. split; [|reflexivity].
        unfold rb_eq_mod_cells. destruct (grb g b); reflexivity.
      + rewrite grb_upd_rb_other by exact N. split; [apply rb_eq_mod_cells_refl|reflexivity].
    - unfold G_eq_mod_ret. destruct g; reflexivity.
  Qed.

  Lemma rframe_cur g r chain cb cc : r < List.length (recs g) -> rframe g (upd_rec g r (rs_cur cb cc)) r chain.
  Proof.
    intros Hr. unfold rframe.
    split; [rewrite recs_upd_rec; apply upd_nth_length|]. split; [reflexivity|].
    split; [intros r' Hn; apply grec_upd_rec_other; congruence|].
    split; [rewrite grec_upd_rec_same by exact Hr; unfold rec_eq_mod_cur; destruct (grec g r); reflexivity|].
    split; [intros; apply grb_upd_rec|].
    split; [intros b; rewrite grb_upd_rec; split; [apply rb_eq_mod_cells_refl|reflexivity]|].
    unfold G_eq_mod_ret. destruct g; reflexivity.
  Qed.

  (** what a frame preserves, in usable form *)
  Lemma rframe_rec_fields g g' r chain : rframe g g' r chain ->
    let x := grec g r in let x' := grec g' r in
    r_next x' = r_next x /\ r_tid x' = r_tid x /\ r_free x' = r_free x /\ r_sync x' = r_sync x /\
    r_slots x' = r_slots x /\ r_snext x' = r_snext x /\ r_fhead x' = r_fhead x /\ r_ext x' = r_ext x /\
    r_head x' = r_head x /\ r_tail x' = r_tail x /\ r_bcount x' = r_bcount x.
  Proof.
    intros (_&_&_&H&_). cbn. unfold rec_eq_mod_cur in H. rewrite <- H. cbn. repeat split; reflexivity.
  Qed.

  Lemma rframe_block_fields g g' r chain b : rframe g g' r chain ->
    rb_next (grb g' b) = rb_next (grb g b) /\ rb_refs (grb g' b) = rb_refs (grb g b) /\
    rb_flnext (grb g' b) = rb_flnext (grb g b) /\
    List.length (rb_cells (grb g' b)) = List.length (rb_cells (grb g b)).
  Proof.
    intros (_&_&_&_&_&H&_). destruct (H b) as (H1 & H2). unfold rb_eq_mod_cells in H1.
    rewrite <- H1. cbn. repeat split; auto.
  Qed.

  (** ** push = write at the cursor *)
  Lemma push_spec g r chain w p : Rinv g r chain w -> w < List.length chain * RB ->
    let g' := fst (rt_push c r p g) in
    Rinv g' r chain (S w) /\
    flat g' chain = upd_nth (flat g chain) w (fun _ => p) /\
    snd (rt_push c r p g) = negb (Nat.eqb (S w) (List.length chain * RB)) /\
    oob g' = oob g /\ rframe g g' r chain.
  Proof.
    intros I Hw. destruct I as [Ir Ich Ind Ine Itl Iw (j & i & Icb & Ij & Icc & Ewji & Hnorm)].
    destruct (nth_error chain j) as [b|] eqn:Hb; [|apply nth_error_None in Hb; lia].
    assert (Hi : i < RB).
    { destruct Hnorm as [H|[H1 H2]]; auto. exfalso. subst i. rewrite <- H2 in Hw. lia. }
    destruct (is_chain_nth _ _ _ _ _ Ich Hb) as (Hnext & Hblt & Hbcells).
    assert (Hbin : In b chain) by (eapply nth_error_In; eauto).
    unfold rt_push. rewrite Icb, Icc.
    assert (Hlt : Nat.ltb i RB = true) by (apply Nat.ltb_lt; exact Hi). rewrite Hlt.
    set (g1 := upd_rb g b (fun y => bs_cells (upd_nth (rb_cells y) i (fun _ => p)) y)).
    assert (Hflat : flat g1 chain = upd_nth (flat g chain) w (fun _ => p)).
    { subst w. eapply flat_write; eauto. }
    assert (Hch1 : is_chain g1 (r_head (grec g r)) chain) by (apply is_chain_write; auto).
    assert (Hnext1 : rb_next (grb g1 b) = nth_error chain (S j)).
    { unfold g1. rewrite grb_upd_rb_same by exact Hblt. cbn. exact Hnext. }
    assert (Hfr1 : rframe g g1 r chain) by (apply rframe_write; auto).
    assert (Ir1 : r < List.length (recs g1)) by exact Ir.
    assert (Hmk : forall cb cc j' i', cb = nth_error chain j' -> j' < List.length chain -> cc = i' ->
               S w = j' * RB + i' -> (i' < RB \/ (i' = RB /\ S j' = List.length chain)) ->
               Rinv (upd_rec g1 r (rs_cur cb cc)) r chain (S w)).
    { intros cb cc j' i' E1 E2 E3 E4 E5. constructor.
      - rewrite recs_upd_rec, upd_nth_length. exact Ir.
      - rewrite grec_upd_rec_same by exact Ir1. cbn. unfold g1 at 2. rewrite grec_upd_rb.
        eapply is_chain_ext; [| |exact Hch1]; auto.
      - exact Ind.
      - exact Ine.
      - rewrite grec_upd_rec_same by exact Ir1. cbn. unfold g1. rewrite grec_upd_rb. exact Itl.
      - lia.
      - exists j', i'. rewrite grec_upd_rec_same by exact Ir1. cbn. auto. }
    assert (Hfin : forall cb cc, flat (upd_rec g1 r (rs_cur cb cc)) chain = upd_nth (flat g chain) w (fun _ => p) /\
                                 oob (upd_rec g1 r (rs_cur cb cc)) = oob g /\
                                 rframe g (upd_rec g1 r (rs_cur cb cc)) r chain).
    { intros cb cc. split; [rewrite <- Hflat; apply flat_ext; intros; apply grb_upd_rec|].
      split; [reflexivity|]. eapply rframe_trans; [exact Hfr1|]. apply rframe_cur; exact Ir1. }
    destruct (Nat.eqb (S i) RB) eqn:Efull.
    - apply Nat.eqb_eq in Efull. rewrite Hnext1.
      destruct (nth_error chain (S j)) as [nb|] eqn:Hnb; cbn [fst snd].
      + assert (S j < List.length chain) by (apply nth_error_Some; congruence).
        destruct (Hfin (Some nb) 0) as (F1 & F2 & F3).
        split; [eapply (Hmk (Some nb) 0 (S j) 0); eauto; lia|].
        split; [exact F1|]. split; [symmetry; apply negb_true_iff, Nat.eqb_neq; nia|]. split; assumption.
      + apply nth_error_None in Hnb.
        destruct (Hfin (Some b) (S i)) as (F1 & F2 & F3).
        split; [eapply (Hmk (Some b) (S i) j (S i)); eauto; try lia; right; lia|].
        split; [exact F1|]. split; [symmetry; apply negb_false_iff, Nat.eqb_eq; nia|]. split; assumption.
    - apply Nat.eqb_neq in Efull. cbn [fst snd].
      destruct (Hfin (Some b) (S i)) as (F1 & F2 & F3).
      split; [eapply (Hmk (Some b) (S i) j (S i)); eauto; try lia|].
      split; [exact F1|]. split; [symmetry; apply negb_true_iff, Nat.eqb_neq; nia|]. split; assumption.
  Qed.

  (** ** in-place compaction on a flat array *)
  Fixpoint compact (pl : list nat) (arr : list nat) (rd n w : nat) (racc : list nat) (cnt : nat)
    : list nat * nat * list nat * nat :=
    match n with
    | O => (arr, w, racc, cnt)
    | S n' =>
        let p := nth rd arr 0 in
        if memb p pl then compact pl (upd_nth arr w (fun _ => p)) (S rd) n' (S w) racc cnt
        else compact pl arr (S rd) n' w (p :: racc) (S cnt)
    end.

  Definition slice (arr : list nat) (rd n : nat) : list nat := firstn n (skipn rd arr).

  Lemma slice_S arr rd n : rd < List.length arr -> slice arr rd (S n) = nth rd arr 0 :: slice arr (S rd) n.
  Proof.
    unfold slice. revert rd; induction arr as [|x l IH]; intros rd H; cbn in *; [lia|].
    destruct rd as [|rd]; cbn; auto. apply IH; lia.
  Qed.

  Lemma skipn_eq_slice (a b : list nat) rd : skipn rd a = skipn rd b -> forall n, slice a rd n = slice b rd n.
  Proof. intros H n. unfold slice. now rewrite H. Qed.

  Lemma skipn_S_of_eq (a b : list nat) rd : skipn rd a = skipn rd b -> skipn (S rd) a = skipn (S rd) b.
  Proof.
    assert (K : forall (l : list nat) n, skipn (S n) l = tl (skipn n l)).
    { intros l n; revert l; induction n as [|n IH]; intros [|x l]; cbn; auto. apply (IH l). }
    intros H. rewrite !K. now rewrite H.
  Qed.

  Lemma nth_skipn_eq (a b : list nat) rd : skipn rd a = skipn rd b -> nth rd a 0 = nth rd b 0.
  Proof.
    assert (K : forall (l : list nat) n, nth n l 0 = hd 0 (skipn n l)).
    { intros l n; revert l; induction n as [|n IH]; intros [|x l]; cbn; auto. }
    intros H. rewrite !K. now rewrite H.
  Qed.

  Lemma compact_spec pl : forall n arr0 arr rd w racc cnt,
    w <= rd -> rd + n <= List.length arr -> List.length arr0 = List.length arr -> skipn rd arr = skipn rd arr0 ->
    let '(arr', w', racc', cnt') := compact pl arr rd n w racc cnt in
    List.length arr' = List.length arr /\
    firstn w' arr' = firstn w arr ++ filter (fun p => memb p pl) (slice arr0 rd n) /\
    w' = w + List.length (filter (fun p => memb p pl) (slice arr0 rd n)) /\ w' <= rd + n /\
    skipn (rd + n) arr' = skipn (rd + n) arr0 /\
    rev racc' = rev racc ++ filter (fun p => negb (memb p pl)) (slice arr0 rd n) /\
    cnt' = cnt + List.length (filter (fun p => negb (memb p pl)) (slice arr0 rd n)).
  Proof.
    induction n as [|n IH]; intros arr0 arr rd w racc cnt Hw Hn HL Hsk.
    - cbn. unfold slice. cbn. rewrite !app_nil_r, !Nat.add_0_r. repeat split; auto.
    - cbn [compact]. rewrite (slice_S arr0) by lia.
      rewrite (nth_skipn_eq _ _ _ Hsk). set (p := nth rd arr0 0). cbn [filter].
      destruct (memb p pl) eqn:E; cbn [negb].
      + specialize (IH arr0 (upd_nth arr w (fun _ => p)) (S rd) (S w) racc cnt).
        rewrite upd_nth_length in IH.
        assert (K : skipn (S rd) (upd_nth arr w (fun _ : nat => p)) = skipn (S rd) arr0).
        { rewrite skipn_upd_nth_lt by lia. now apply skipn_S_of_eq. }
        specialize (IH ltac:(lia) ltac:(lia) HL K).
        destruct (compact pl (upd_nth arr w (fun _ => p)) (S rd) n (S w) racc cnt) as [[[arr' w'] racc'] cnt'].
        destruct IH as (I1 & I2 & I3 & I4 & I5 & I6 & I7).
        repeat split; auto; try (cbn; lia).
        * rewrite I2. rewrite firstn_S_upd_nth by lia. rewrite <- app_assoc. reflexivity.
        * replace (rd + S n) with (S rd + n) by lia. exact I5.
      + specialize (IH arr0 arr (S rd) w (p :: racc) (S cnt) ltac:(lia) ltac:(lia) HL (skipn_S_of_eq _ _ _ Hsk)).
        destruct (compact pl arr (S rd) n w (p :: racc) (S cnt)) as [[[arr' w'] racc'] cnt'].
        destruct IH as (I1 & I2 & I3 & I4 & I5 & I6 & I7).
        repeat split; auto; try (cbn; lia).
        * replace (rd + S n) with (S rd + n) by lia. exact I5.
        * rewrite I6. cbn [rev]. rewrite <- app_assoc. reflexivity.
  Qed.

  (** ** retire_data on block number [j] of the chain is [compact] on the flat array *)
  Lemma retire_data_sim pl r chain : forall n g w j b i racc cnt,
    Rinv g r chain w -> nth_error chain j = Some b -> i + n <= RB -> w <= j * RB + i ->
    let '(g', racc', cnt') := retire_data c r pl b i n g racc cnt in
    let '(arr', w', racc'', cnt'') := compact pl (flat g chain) (j * RB + i) n w racc cnt in
    Rinv g' r chain w' /\ flat g' chain = arr' /\ racc' = racc'' /\ cnt' = cnt'' /\ oob g' = oob g /\
    rframe g g' r chain.
  Proof.
    induction n as [|n IH]; intros g w j b i racc cnt I Hb Hin Hw.
    - cbn. split; [exact I|]. do 4 (split; [reflexivity|]). apply rframe_refl.
    - cbn [retire_data compact].
      assert (Hj : j < List.length chain) by (apply nth_error_Some; congruence).
      rewrite (flat_nth g _ chain j b i (ri_chain _ _ _ _ I) Hb) by lia.
      set (p := nth i (rb_cells (grb g b)) 0).
      destruct (memb p pl) eqn:E.
      + assert (Hwt : w < List.length chain * RB) by nia.
        destruct (push_spec g r chain w p I Hwt) as (P1 & P2 & P3 & P4 & P5).
        specialize (IH (fst (rt_push c r p g)) (S w) j b (S i) racc cnt P1 Hb ltac:(lia) ltac:(lia)).
        rewrite P2 in IH. replace (j * RB + S i) with (S (j * RB + i)) in IH by lia.
        destruct (retire_data c r pl b (S i) n (fst (rt_push c r p g)) racc cnt) as [[g' racc'] cnt'].
        destruct (compact pl (upd_nth (flat g chain) w (fun _ => p)) (S (j * RB + i)) n (S w) racc cnt) as [[[arr' w'] racc''] cnt''].
        destruct IH as (I1 & I2 & I3 & I4 & I5 & I6).
        split; [exact I1|]. split; [exact I2|]. split; [exact I3|]. split; [exact I4|]. split; [congruence|].
        eapply rframe_trans; eauto.
      + specialize (IH g w j b (S i) (p :: racc) (S cnt) I Hb ltac:(lia) ltac:(lia)).
        replace (j * RB + S i) with (S (j * RB + i)) in IH by lia.
        destruct (retire_data c r pl b (S i) n g (p :: racc) (S cnt)) as [[g' racc'] cnt'].
        destruct (compact pl (flat g chain) (S (j * RB + i)) n w (p :: racc) (S cnt)) as [[[arr' w'] racc''] cnt''].
        exact IH.
  Qed.

  (** ** stage 2 over the blocks j .. q of the chain *)
  Lemma slice_app (a : list nat) rd n m : slice a rd (n + m) = slice a rd n ++ slice a (rd + n) m.
  Proof.
    unfold slice. revert rd; induction a as [|x l IH]; intros rd.
    - rewrite !skipn_nil, !firstn_nil. reflexivity.
    - destruct rd as [|rd]; cbn [skipn Nat.add].
      + clear IH. revert n; induction (x :: l) as [|y l' IH']; intros n.
        * rewrite skipn_nil, !firstn_nil. reflexivity.
        * destruct n as [|n]; cbn; auto. f_equal. apply IH'.
      + apply IH.
  Qed.

  Lemma slice_0 (a : list nat) n : slice a 0 n = firstn n a.
  Proof. reflexivity. Qed.

  Lemma chain_nth_inj (chain : list nat) j q b : NoDup chain -> nth_error chain j = Some b -> nth_error chain q = Some b -> j = q.
  Proof.
    intros Hnd H1 H2. eapply NoDup_nth_error; eauto.
    - apply nth_error_Some. congruence.
    - congruence.
  Qed.

  Definition keepf (pl : list nat) := fun p => memb p pl.
  Definition freef (pl : list nat) := fun p => negb (memb p pl).

  Lemma stage2_blocks_spec pl r chain q bq lastc arr0 :
    nth_error chain q = Some bq -> lastc <= RB -> List.length arr0 = List.length chain * RB ->
    forall fuel g w j racc fcnt rcnt,
      Rinv g r chain w -> j <= q -> w <= j * RB -> q - j < fuel ->
      skipn (j * RB) (flat g chain) = skipn (j * RB) arr0 ->
      let '(g', racc', f', rc') := stage2_blocks c fuel r pl (nth_error chain j) (Some bq) lastc g racc fcnt rcnt in
      let S := slice arr0 (j * RB) ((q - j) * RB + lastc) in
      exists w', Rinv g' r chain w' /\
        firstn w' (flat g' chain) = firstn w (flat g chain) ++ filter (keepf pl) S /\
        w' = w + List.length (filter (keepf pl) S) /\ w' <= q * RB + lastc /\
        rev racc' = rev racc ++ filter (freef pl) S /\ f' = fcnt + List.length (filter (freef pl) S) /\
        rc' = rcnt + (q - j + 1) * RB /\ oob g' = oob g /\ rframe g g' r chain.
  Proof.
    intros Hq Hlc HL0. unfold keepf, freef. induction fuel as [|fuel IH]; intros g w j racc fcnt rcnt I Hjq Hw Hf Hsk; [lia|].
    assert (Hqlt : q < List.length chain) by (apply nth_error_Some; congruence).
    destruct (nth_error chain j) as [b|] eqn:Hb; [|apply nth_error_None in Hb; lia].
    cbn [stage2_blocks].
    assert (Eend : oeqb (Some b) (Some bq) = Nat.eqb j q).
    { destruct (Nat.eqb_spec j q) as [->|N].
      - rewrite Hq in Hb. inversion Hb. apply oeqb_refl.
      - apply oeqb_neq. intros E. inversion E; subst bq. apply N. eapply chain_nth_inj; eauto. exact (ri_nd _ _ _ _ I). }
    rewrite Eend.
    remember (if Nat.eqb j q then lastc else RB) as size eqn:Esize.
    assert (Hsize : size <= RB) by (subst size; destruct (Nat.eqb j q); lia).
    pose proof (retire_data_sim pl r chain size g w j b 0 racc 0 I Hb ltac:(lia) ltac:(lia)) as Sim.
    assert (HLf : List.length (flat g chain) = List.length chain * RB) by (eapply flat_length; exact (ri_chain _ _ _ _ I)).
    pose proof (compact_spec pl size arr0 (flat g chain) (j * RB + 0) w racc 0 ltac:(lia) ltac:(nia) ltac:(lia)) as CS.
    rewrite Nat.add_0_r in CS. specialize (CS Hsk).
    destruct (retire_data c r pl b 0 size g racc 0) as [[g1 racc1] c1].
    rewrite Nat.add_0_r in Sim.
    destruct (compact pl (flat g chain) (j * RB) size w racc 0) as [[[arr1 w1] racc1'] c1'].
    destruct Sim as (S1 & S2 & S3 & S4 & S5 & S6).
    destruct CS as (C1 & C2 & C3 & C4 & C5 & C6 & C7). subst arr1 racc1' c1'.
    destruct (Nat.eqb_spec j q) as [->|N].
    - (* the block of the cursor: done *)
      subst size. replace (q - q) with 0 by lia. cbn [Nat.mul Nat.add].
      exists w1. split; [exact S1|]. split; [exact C2|]. split; [exact C3|]. split; [lia|].
      split; [exact C6|]. split; [lia|]. split; [lia|]. split; [exact S5|exact S6].
    - subst size.
      destruct (is_chain_nth _ _ _ _ _ (ri_chain _ _ _ _ S1) Hb) as (Hnext & _ & _).
      destruct (rframe_rec_fields _ _ _ _ S6) as (_&_&_&_&_&_&_&_&Ehd&_).
      rewrite Hnext.
      specialize (IH g1 w1 (S j) racc1 (fcnt + c1) (rcnt + RB) S1 ltac:(lia) ltac:(lia) ltac:(lia)).
      replace (S j * RB) with (j * RB + RB) in IH by lia. specialize (IH C5).
      destruct (stage2_blocks c fuel r pl (nth_error chain (S j)) (Some bq) lastc g1 racc1 (fcnt + c1) (rcnt + RB)) as [[[g' racc'] f'] rc'].
      destruct IH as (w' & J1 & J2 & J3 & J4 & J5 & J6 & J7 & J8 & J9).
      replace ((q - j) * RB + lastc) with (RB + ((q - S j) * RB + lastc)) by nia.
      rewrite slice_app, !filter_app, !app_length.
      exists w'. split; [exact J1|]. split; [rewrite J2, C2, <- app_assoc; reflexivity|].
      split; [lia|]. split; [lia|]. split; [rewrite J5, C6, <- app_assoc; reflexivity|].
      split; [lia|]. split; [nia|]. split; [congruence|]. eapply rframe_trans; eauto.
  Qed.

  Lemma chain_length_le g o chain : is_chain g o chain -> NoDup chain -> List.length chain <= List.length (rbs g).
  Proof.
    intros H Hnd.
    assert (incl chain (seq 0 (List.length (rbs g)))).
    { intros b Hb. apply in_seq. pose proof (is_chain_lt _ _ _ H b Hb). lia. }
    pose proof (NoDup_incl_length Hnd H0) as K. now rewrite seq_length in K.
  Qed.

  (** ** stage 2 of smr::scan on the retired array of [r]: the pointers below the cursor that are in [pl] stay
         (in order), the others are freed (in order); retired_.extend() is asked for iff fewer than a quarter of
         the visited capacity was freed and the array was full *)
  Lemma stage2_spec pl g r chain w : 1 <= RB -> Rinv g r chain w ->
    let '(g', (freed, ext)) := stage2 c r pl g in
    exists w', Rinv g' r chain w' /\
      content g' chain w' = filter (keepf pl) (content g chain w) /\
      freed = filter (freef pl) (content g chain w) /\
      w' + List.length freed = w /\
      (ext = true -> w = List.length chain * RB /\ List.length freed < (List.length chain * RB) / 4) /\
      (w = List.length chain * RB -> List.length freed < (List.length chain * RB) / 4 -> ext = true) /\
      oob g' = oob g /\ rframe g g' r chain.
  Proof.
    intros HRB I. pose proof I as I0.
    destruct I as [Ir Ich Ind Ine Itl Iw (q & lc & Icb & Iq & Icc & Ew & Hnorm)].
    destruct (nth_error chain q) as [bq|] eqn:Hq; [|apply nth_error_None in Hq; lia].
    unfold stage2. rewrite Icb, Icc.
    set (g0 := upd_rec g r (rs_cur (r_head (grec g r)) 0)).
    assert (Ir0 : r < List.length (recs g0)) by (unfold g0; rewrite recs_upd_rec, upd_nth_length; exact Ir).
    assert (Hhd : r_head (grec g r) = nth_error chain 0) by (eapply is_chain_head; eauto).
    assert (I1 : Rinv g0 r chain 0).
    { unfold g0. constructor.
      - rewrite recs_upd_rec, upd_nth_length; exact Ir.
      - rewrite grec_upd_rec_same by exact Ir. cbn. eapply is_chain_ext; [| |exact Ich]; auto.
      - exact Ind.
      - exact Ine.
      - rewrite grec_upd_rec_same by exact Ir. cbn. exact Itl.
      - lia.
      - exists 0, 0. rewrite grec_upd_rec_same by exact Ir. cbn.
        split; [exact Hhd|]. split; [destruct chain; [congruence|cbn; lia]|]. split; [reflexivity|]. split; [reflexivity|left; lia]. }
    assert (Hfl0 : flat g0 chain = flat g chain) by (apply flat_ext; intros; apply grb_upd_rec).
    assert (HLf : List.length (flat g chain) = List.length chain * RB) by (eapply flat_length; eauto).
    assert (Hlc : lc <= RB) by lia.
    pose proof (chain_length_le _ _ _ Ich Ind) as HNle.
    pose proof (stage2_blocks_spec pl r chain q bq lc (flat g chain) Hq Hlc HLf (S (List.length (rbs g))) g0 0 0 [] 0 0
                  I1 ltac:(lia) ltac:(lia) ltac:(lia)) as Sp.
    rewrite Hfl0 in Sp. specialize (Sp eq_refl). rewrite <- Hhd in Sp.
    assert (Erbs : rbs g0 = rbs g) by reflexivity.
    destruct (stage2_blocks c (S (List.length (rbs g))) r pl (r_head (grec g r)) (Some bq) lc g0 [] 0 0) as [[[g1 racc] fcnt] rcnt].
    destruct Sp as (w' & J1 & J2 & J3 & J4 & J5 & J6 & J7 & J8 & J9).
    cbn [Nat.mul] in J2, J3, J5, J6. rewrite Nat.sub_0_r, slice_0 in J2, J3, J5, J6.
    rewrite <- Ew in J2, J3, J5, J6. cbn [firstn app Nat.add rev] in J2, J3, J5, J6.
    assert (Hfr : rframe g g1 r chain).
    { eapply rframe_trans; [|exact J9]. unfold g0. apply rframe_cur; exact Ir. }
    destruct (rframe_rec_fields _ _ _ _ Hfr) as (_&_&_&_&_&_&_&_&_&Etl&_). cbn in Etl.
    exists w'. split; [exact J1|]. split; [exact J2|]. split; [exact J5|].
    rewrite rev_length.
    assert (Hlen : List.length racc = fcnt).
    { rewrite J6. rewrite <- (rev_length racc), J5. reflexivity. }
    assert (Hpart : List.length (filter (keepf pl) (content g chain w)) + List.length (filter (freef pl) (content g chain w)) = w).
    { unfold content. rewrite <- (firstn_length_le (flat g chain) (n := w)) at 3 by lia.
      generalize (firstn w (flat g chain)). intros l. unfold keepf, freef.
      induction l as [|x l IHl]; cbn; auto. destruct (memb x pl); cbn; lia. }
    unfold content in *. split; [lia|].
    assert (Etail : oeqb (Some bq) (r_tail (grec g1 r)) = Nat.eqb (S q) (List.length chain)).
    { rewrite Etl, Itl. destruct (Nat.eqb_spec (S q) (List.length chain)) as [E|N].
      - replace (List.length chain - 1) with q by lia. rewrite Hq. apply oeqb_refl.
      - apply oeqb_neq. intros E. symmetry in E.
        assert (List.length chain - 1 = q) by (eapply chain_nth_inj; eauto). lia. }
    rewrite Etail, J7. replace (0 + (q - 0 + 1) * RB) with ((q + 1) * RB) by lia.
    split; [|split; [|split; [exact J8|exact Hfr]]].
    - intros Hext. apply andb_true_iff in Hext. destruct Hext as [Hext E3]. apply andb_true_iff in Hext. destruct Hext as [E1 E2].
      apply Nat.ltb_lt in E1. apply Nat.eqb_eq in E2. apply Nat.eqb_eq in E3. subst lc.
      replace ((q + 1) * RB) with (List.length chain * RB) in E1 by nia. split; [nia|lia].
    - intros Hfull Hq4.
      assert (S q = List.length chain /\ lc = RB) as (E2 & E3).
      { destruct Hnorm as [Hn|[Hn1 Hn2]]; [exfalso; nia|auto]. }
      apply andb_true_iff. split; [apply andb_true_iff; split|]; [apply Nat.ltb_lt|apply Nat.eqb_eq|apply Nat.eqb_eq]; auto.
      replace ((q + 1) * RB) with (List.length chain * RB) by nia. lia.
  Qed.
End Seq.
