(** * From the step relation to statements about executions: the ghost value of the iterating thread [t] is tied to the
      configurations [cs] the execution has gone through and to the events [tr1] emitted since the start of the iteration.

    [Link cs tr1 w]:
      - as long as [t] has not emitted a response: the iteration is running, [wok] holds if the tracked node held the tracked
        item in all configurations, every item of [wvis] has its "visit" event;
      - after the response: if the tracked node held the tracked item in all configurations, the item has its "visit" event;
      - every "visit k x" of [t]: x <> 0 and x (with key k) was the data pointer of a node reachable from m_Head in a
        configuration that is not older than the previous "visit" of [t] ([lastpos]);
      - every "erased b" of [t], x = the item of the last "visit" before it ([lastv]): b = true - one of the steps of [t] after
        that visit changed the data cell of the node where x was found from ( x, unmarked ) to null; b = false - in a
        configuration after that visit that node did not hold x any more.
    Trace positions are handled by decompositions tr1 = tra ++ event :: trb and folds over [tra] ([lastpos], [lastv]). *)
From Coq Require Import ZArith List String Bool Lia PeanoNat.
From LV Require Import Base.Conc Base.Events Model.IterList Model.IterListIter Proofs.ConcRel Proofs.IterListIterDefs.
Import ListNotations.

Set Implicit Arguments.

Section Steps.
  Variables (G V E : Type).
  Notation config := (Conc.config G V E).

  Inductive steps (c0 : config) : list config -> config -> Prop :=
  | st_refl : steps c0 [c0] c0
  | st_step cs c t c' : steps c0 cs c -> Conc.step_cfg c t = Some c' -> steps c0 (cs ++ [c']) c'.

  Lemma reach_steps c0 c : Conc.reach c0 c <-> exists cs, steps c0 cs c.
  Proof.
    split.
    - intros H. induction H as [|c t c' H [cs IH] Hs]; [exists [c0]; constructor|]. exists (cs ++ [c']). econstructor; eauto.
    - intros [cs H]. induction H as [|cs c t c' H IH Hs]; [constructor|]. econstructor; eauto.
  Qed.

  Lemma steps_last c0 cs c : steps c0 cs c -> In c cs.
  Proof. intros H. destruct H; [left; reflexivity|apply in_or_app; right; left; reflexivity]. Qed.
End Steps.

(** ** decoding the client events of the iterating thread *)
Definition visit_of (e : ev) : option nat :=
  match e with
  | EvCli nm args => if String.eqb nm "visit" then Some (Z.to_nat (nth 1 args 0%Z)) else None
  | _ => None
  end.
Definition erased_of (e : ev) : option bool :=
  match e with
  | EvCli nm args => if String.eqb nm "erased" then Some (Z.eqb (nth 0 args 0%Z) 1) else None
  | _ => None
  end.
Definition isret (e : ev) : bool :=
  match e with EvCli nm _ => String.eqb nm "ret" | _ => false end.

Lemma visit_of_visit k x : visit_of (ev_visit k x) = Some x.
Proof. cbn. rewrite Nat2Z.id. reflexivity. Qed.
Lemma erased_of_erased b : erased_of (ev_erased b) = Some b.
Proof. destruct b; reflexivity. Qed.
Lemma not_visit e : ~ is_visit e -> visit_of e = None.
Proof.
  destruct e as [kd o b|nm args]; cbn; [reflexivity|]. intros H. destruct (String.eqb_spec nm "visit") as [->|_]; [|reflexivity].
  exfalso. apply H. exists args. reflexivity.
Qed.
Lemma not_erased e : ~ is_erased e -> erased_of e = None.
Proof.
  destruct e as [kd o b|nm args]; cbn; [reflexivity|]. intros H. destruct (String.eqb_spec nm "erased") as [->|_]; [|reflexivity].
  exfalso. apply H. exists args. reflexivity.
Qed.

Definition plain (es : list ev) : Prop := forall e, In e es -> visit_of e = None /\ erased_of e = None.
Definition noretl (es : list ev) : Prop := forall e, In e es -> isret e = false.

Lemma acc_plain es : all_acc es -> plain es /\ noretl es.
Proof.
  intros H. split; intros e He; destruct (H e He) as (kd & o & b & ->); cbn; auto.
Qed.

Lemma plain1 e : visit_of e = None -> erased_of e = None -> plain [e].
Proof. intros H1 H2 x [<-|[]]. auto. Qed.
Lemma noretl1 e : isret e = false -> noretl [e].
Proof. intros H x [<-|[]]. auto. Qed.

Section Link.
  Variables (N X : nat).
  Variable t : nat.
  Variable n1 : nat.      (* length of the trace at the start of the iteration *)

  Notation config := (Conc.config G V ev).

  (** position (in the events since the start) right after the last "visit" of [t]; 0: none *)
  Definition isvisit (e : ev) : bool := match visit_of e with Some _ => true | None => false end.
  Definition pstep (st : nat * nat) (te : nat * ev) : nat * nat :=
    (S (fst st), if Nat.eqb (fst te) t && isvisit (snd te) then S (fst st) else snd st).
  Definition lastpos (tr : list (nat * ev)) : nat := snd (fold_left pstep tr (0, 0)).

  Lemma pfold_fst tr : forall st, fst (fold_left pstep tr st) = fst st + List.length tr.
  Proof. induction tr as [|e tr IH]; intros st; cbn; [lia|]. rewrite IH. cbn. lia. Qed.

  Lemma pfold_le tr : forall st, snd st <= fst st -> snd (fold_left pstep tr st) <= fst st + List.length tr.
  Proof.
    induction tr as [|e tr IH]; intros st H; cbn; [lia|]. etransitivity; [apply IH|cbn; lia].
    cbn. destruct (Nat.eqb (fst e) t && isvisit (snd e)); lia.
  Qed.

  Lemma lastpos_le tr : lastpos tr <= List.length tr.
  Proof. unfold lastpos. apply (pfold_le tr (0, 0)). cbn. lia. Qed.

  Definition novisit (E : list (nat * ev)) : Prop := forall te, In te E -> Nat.eqb (fst te) t && isvisit (snd te) = false.

  Lemma pfold_novisit E : novisit E -> forall st, snd (fold_left pstep E st) = snd st.
  Proof.
    induction E as [|e E IH]; intros H st; cbn; [reflexivity|]. rewrite IH by (intros x Hx; apply H; right; exact Hx).
    cbn. rewrite (H e (or_introl eq_refl)). reflexivity.
  Qed.

  Lemma lastpos_novisit tr E : novisit E -> lastpos (tr ++ E) = lastpos tr.
  Proof. intros H. unfold lastpos. rewrite fold_left_app. apply pfold_novisit. exact H. Qed.

  Lemma lastpos_visit tr k x : lastpos (tr ++ [(t, ev_visit k x)]) = S (List.length tr).
  Proof.
    unfold lastpos. rewrite fold_left_app. cbn [fold_left]. unfold pstep at 1. cbn [fst snd].
    rewrite Nat.eqb_refl. unfold isvisit. rewrite visit_of_visit. cbn [andb]. rewrite pfold_fst. reflexivity.
  Qed.

  Lemma novisit_other u es : u <> t -> novisit (Conc.tag u es).
  Proof.
    intros Hu te Hte. unfold Conc.tag in Hte. apply in_map_iff in Hte. destruct Hte as (e & <- & _). cbn.
    destruct (Nat.eqb_spec u t); [contradiction|reflexivity].
  Qed.

  Lemma novisit_plain es : (forall e, In e es -> visit_of e = None) -> novisit (Conc.tag t es).
  Proof.
    intros Hp te Hte. unfold Conc.tag in Hte. apply in_map_iff in Hte. destruct Hte as (e & <- & He). cbn.
    unfold isvisit. rewrite (Hp e He). apply andb_false_r.
  Qed.

  Definition iserased (e : ev) : bool := match erased_of e with Some _ => true | None => false end.
  Definition noerased (E : list (nat * ev)) : Prop := forall te, In te E -> Nat.eqb (fst te) t && iserased (snd te) = false.

  Lemma noerased_other u es : u <> t -> noerased (Conc.tag u es).
  Proof.
    intros Hu te Hte. unfold Conc.tag in Hte. apply in_map_iff in Hte. destruct Hte as (e & <- & _). cbn.
    destruct (Nat.eqb_spec u t); [contradiction|reflexivity].
  Qed.

  Lemma noerased_plain es : (forall e, In e es -> erased_of e = None) -> noerased (Conc.tag t es).
  Proof.
    intros Hp te Hte. unfold Conc.tag in Hte. apply in_map_iff in Hte. destruct Hte as (e & <- & He). cbn.
    unfold iserased. rewrite (Hp e He). apply andb_false_r.
  Qed.

  Lemma split_notin (v : nat * ev) tr1 E tra trb : ~ In v E -> tr1 ++ E = tra ++ v :: trb -> exists trb', tr1 = tra ++ v :: trb'.
  Proof.
    intros Hn H. apply app_eq_app in H. destruct H as (l & [[H1 H2]|[H1 H2]]).
    - destruct l as [|v' l]; cbn in H2.
      + exfalso. apply Hn. rewrite <- H2. left. reflexivity.
      + inversion H2. subst v'. exists l. exact H1.
    - exfalso. apply Hn. rewrite H2. apply in_or_app. right. left. reflexivity.
  Qed.

  Lemma split_last (v0 v : nat * ev) tr1 tra trb : tr1 ++ [v0] = tra ++ v :: trb ->
    (exists trb', tr1 = tra ++ v :: trb') \/ (tra = tr1 /\ v0 = v).
  Proof.
    intros H. apply app_eq_app in H. destruct H as (l & [[H1 H2]|[H1 H2]]).
    - destruct l as [|v' l]; cbn in H2.
      + right. inversion H2. rewrite app_nil_r in H1. auto.
      + inversion H2. subst v'. left. exists l. exact H1.
    - destruct l as [|v' l]; cbn in H2.
      + right. inversion H2. rewrite app_nil_r in H1. auto.
      + inversion H2. destruct l; discriminate.
  Qed.

  Lemma split_noerased tr1 E tra b trb : noerased E -> tr1 ++ E = tra ++ (t, ev_erased b) :: trb ->
    exists trb', tr1 = tra ++ (t, ev_erased b) :: trb'.
  Proof.
    intros Hn. apply split_notin. intros K. specialize (Hn _ K). cbn [fst snd] in Hn. rewrite Nat.eqb_refl in Hn.
    unfold iserased in Hn. rewrite erased_of_erased in Hn. discriminate.
  Qed.

  (** decompositions of a trace at a "visit" of [t] after events without such a visit have been appended *)
  Lemma split_novisit tr1 E tra k x trb : novisit E -> tr1 ++ E = tra ++ (t, ev_visit k x) :: trb ->
    exists trb', tr1 = tra ++ (t, ev_visit k x) :: trb'.
  Proof.
    intros Hn H. apply app_eq_app in H. destruct H as (l & [[H1 H2]|[H1 H2]]).
    - destruct l as [|v l]; cbn in H2.
      + exfalso. assert (K : In (t, ev_visit k x) E) by (rewrite <- H2; left; reflexivity).
        specialize (Hn _ K). cbn [fst snd] in Hn. rewrite Nat.eqb_refl in Hn. unfold isvisit in Hn. rewrite visit_of_visit in Hn. discriminate.
      + inversion H2. subst v. exists l. exact H1.
    - exfalso. assert (K : In (t, ev_visit k x) E) by (rewrite H2; apply in_or_app; right; left; reflexivity).
      specialize (Hn _ K). cbn [fst snd] in Hn. rewrite Nat.eqb_refl in Hn. unfold isvisit in Hn. rewrite visit_of_visit in Hn. discriminate.
  Qed.

  Lemma split_visit tr1 (v0 : nat * ev) tra k x trb : tr1 ++ [v0] = tra ++ (t, ev_visit k x) :: trb ->
    (exists trb', tr1 = tra ++ (t, ev_visit k x) :: trb') \/ (tra = tr1 /\ v0 = (t, ev_visit k x)).
  Proof.
    intros H. apply app_eq_app in H. destruct H as (l & [[H1 H2]|[H1 H2]]).
    - destruct l as [|v l]; cbn in H2.
      + right. inversion H2. rewrite app_nil_r in H1. auto.
      + inversion H2. subst v. left. exists l. exact H1.
    - destruct l as [|v l]; cbn in H2.
      + right. inversion H2. rewrite app_nil_r in H1. auto.
      + inversion H2. destruct l; discriminate.
  Qed.

  (** the item of the last "visit" of [t] and the ( item, result ) pairs of its "erased" events *)
  Definition sc_step (st : nat * list (nat * bool)) (te : nat * ev) : nat * list (nat * bool) :=
    if Nat.eqb (fst te) t then
      match visit_of (snd te) with
      | Some x => (x, snd st)
      | None => match erased_of (snd te) with
                | Some b => (fst st, snd st ++ [(fst st, b)])
                | None => st
                end
      end
    else st.
  Definition scan (tr : list (nat * ev)) : nat * list (nat * bool) := fold_left sc_step tr (0, []).
  Definition lastv (tr : list (nat * ev)) : nat := fst (scan tr).
  Definition epairs (tr : list (nat * ev)) : list (nat * bool) := snd (scan tr).

  Definition hasret (tr : list (nat * ev)) : bool := existsb (fun te => Nat.eqb (fst te) t && isret (snd te)) tr.

  Lemma scan_app tr es : scan (tr ++ es) = fold_left sc_step es (scan tr).
  Proof. unfold scan. apply fold_left_app. Qed.

  Lemma fold_other u es st : u <> t -> fold_left sc_step (Conc.tag u es) st = st.
  Proof.
    intros Hu. induction es as [|e es IH]; cbn; [reflexivity|]. unfold sc_step at 2. cbn [fst].
    destruct (Nat.eqb_spec u t); [contradiction|]. exact IH.
  Qed.

  Lemma fold_plain es : plain es -> forall st, fold_left sc_step (Conc.tag t es) st = st.
  Proof.
    induction es as [|e es IH]; intros Hp st; cbn; [reflexivity|]. unfold sc_step at 2. cbn [fst snd].
    rewrite Nat.eqb_refl. destruct (Hp e (or_introl eq_refl)) as [-> ->]. apply IH. intros x Hx. apply Hp. right. exact Hx.
  Qed.

  Lemma hasret_app a b : hasret (a ++ b) = hasret a || hasret b.
  Proof. unfold hasret. apply existsb_app. Qed.

  Lemma hasret_other u es : u <> t -> hasret (Conc.tag u es) = false.
  Proof.
    intros Hu. induction es as [|e es IH]; cbn; [reflexivity|]. destruct (Nat.eqb_spec u t); [contradiction|]. exact IH.
  Qed.

  Lemma hasret_noretl es : noretl es -> hasret (Conc.tag t es) = false.
  Proof.
    induction es as [|e es IH]; intros H; cbn; [reflexivity|]. rewrite (H e (or_introl eq_refl)). rewrite andb_false_r. cbn.
    apply IH. intros x Hx. apply H. right. exact Hx.
  Qed.

  Lemma hasret_in tr a b : In (t, ev_ret a b) tr -> hasret tr = true.
  Proof.
    intros H. unfold hasret. apply existsb_exists. exists (t, ev_ret a b). split; [exact H|]. cbn. rewrite Nat.eqb_refl. reflexivity.
  Qed.

  Lemma in_tag u (e : ev) es : In (t, e) (Conc.tag u es) <-> u = t /\ In e es.
  Proof.
    unfold Conc.tag. rewrite in_map_iff. split.
    - intros (x & E & Hx). inversion E. subst. auto.
    - intros [-> H]. exists e. auto.
  Qed.

  Definition Pres (cs : list config) : Prop := forall c', In c' cs -> present N X (Conc.shared c').
  Definition Found (cs : list config) (nx : nat * nat) : Prop :=
    exists c', In c' cs /\ path (nnext (Conc.shared c')) HEAD (fst nx) /\ fst (ndata (Conc.shared c') (fst nx)) = snd nx.
  (** ... in a configuration that is not older than position [lo] of the events since the start *)
  Definition FoundAt (cs : list config) (lo : nat) (nx : nat * nat) (k : Z) : Prop :=
    exists c', In c' cs /\ n1 + lo <= List.length (Conc.trace c') /\
               path (nnext (Conc.shared c')) HEAD (fst nx) /\ fst (ndata (Conc.shared c') (fst nx)) = snd nx /\
               ikey (Conc.shared c') (snd nx) = k.
  Definition Removed (cs : list config) (lo : nat) (nx : nat * nat) : Prop :=
    exists c' c'', In c' cs /\ In c'' cs /\ n1 + lo <= List.length (Conc.trace c') /\ Conc.step_cfg c' t = Some c'' /\
      ndata (Conc.shared c') (fst nx) = (snd nx, false) /\ ndata (Conc.shared c'') (fst nx) = (0, false) /\
      (forall m, m <> fst nx -> ndata (Conc.shared c'') m = ndata (Conc.shared c') m) /\
      nnext (Conc.shared c'') = nnext (Conc.shared c').
  Definition Gone (cs : list config) (lo : nat) (nx : nat * nat) : Prop :=
    exists c', In c' cs /\ n1 + lo <= List.length (Conc.trace c') /\ fst (ndata (Conc.shared c') (fst nx)) <> snd nx.

  Record Link (cs : list config) (tr1 : list (nat * ev)) (w : W) : Prop := mkLink {
    k_run : hasret tr1 = false ->
            wph w = true /\ (Pres cs -> wok w = true) /\ (forall x, In x (wvis w) -> exists k, In (t, ev_visit k x) tr1);
    k_done : hasret tr1 = true -> Pres cs -> exists k, In (t, ev_visit k X) tr1;
    k_vis : forall tra k x trb, tr1 = tra ++ (t, ev_visit k x) :: trb -> x <> 0 /\ exists n, FoundAt cs (lastpos tra) (n, x) k;
    k_fnd : wph w = true -> snd (wfnd w) <> 0 -> wfresh w = true -> FoundAt cs (lastpos tr1) (wfnd w) (wfk w);
    k_cur : wph w = true -> snd (wcur w) <> 0 -> lastv tr1 = snd (wcur w) /\ Found cs (wcur w);
    k_rem : wph w = true -> 1 <= wrem w -> Removed cs (lastpos tr1) (wcur w);
    k_gone : wph w = true -> wgone w = true -> Gone cs (lastpos tr1) (wcur w);
    k_pairs : forall tra b trb, tr1 = tra ++ (t, ev_erased b) :: trb ->
                lastv tra <> 0 /\ exists n, Found cs (n, lastv tra) /\
                  (if b then Removed cs (lastpos tra) (n, lastv tra) else Gone cs (lastpos tra) (n, lastv tra)) }.

  Lemma Found_mono cs cs' nx : incl cs cs' -> Found cs nx -> Found cs' nx.
  Proof. intros Hi (c' & H1 & H2). exists c'. split; auto. Qed.
  Lemma FoundAt_mono cs cs' lo nx k : incl cs cs' -> FoundAt cs lo nx k -> FoundAt cs' lo nx k.
  Proof. intros Hi (c' & H1 & H2). exists c'. split; auto. Qed.
  Lemma FoundAt_Found cs lo nx k : FoundAt cs lo nx k -> Found cs nx.
  Proof. intros (c' & H1 & _ & H2 & H3 & _). exists c'. auto. Qed.
  Lemma Removed_mono cs cs' lo nx : incl cs cs' -> Removed cs lo nx -> Removed cs' lo nx.
  Proof. intros Hi (c' & c'' & H1 & H2 & H3). exists c', c''. repeat split; auto; apply H3. Qed.
  Lemma Gone_mono cs cs' lo nx : incl cs cs' -> Gone cs lo nx -> Gone cs' lo nx.
  Proof. intros Hi (c' & H1 & H2). exists c'. split; auto. Qed.
  Lemma Pres_mono cs cs' : incl cs cs' -> Pres cs' -> Pres cs.
  Proof. intros Hi H c' Hc. apply H. apply Hi. exact Hc. Qed.

  Lemma Link_mono cs cs' tr1 w : incl cs cs' -> Link cs tr1 w -> Link cs' tr1 w.
  Proof.
    intros Hi HL. constructor.
    - intros Hr. destruct (k_run HL Hr) as (A1 & A2 & A3). split; [exact A1|]. split; [|exact A3].
      intros Hp. apply A2. eapply Pres_mono; eauto.
    - intros Hr Hp. apply (k_done HL Hr). eapply Pres_mono; eauto.
    - intros tra k x trb Hx. destruct (k_vis HL tra k x trb Hx) as (A1 & n & A2). split; [exact A1|]. exists n. eapply FoundAt_mono; eauto.
    - intros H1 H2 H3. eapply FoundAt_mono; eauto. apply (k_fnd HL); auto.
    - intros H1 H2. destruct (k_cur HL H1 H2) as [A1 A2]. split; [exact A1|]. eapply Found_mono; eauto.
    - intros H1 H2. eapply Removed_mono; eauto. apply (k_rem HL); auto.
    - intros H1 H2. eapply Gone_mono; eauto. apply (k_gone HL); auto.
    - intros tra b trb Hx. destruct (k_pairs HL tra b trb Hx) as (A1 & n & A2 & A3). split; [exact A1|]. exists n.
      split; [eapply Found_mono; eauto|]. destruct b; [eapply Removed_mono; eauto|eapply Gone_mono; eauto].
  Qed.

  (** events of another thread *)
  Lemma Link_other cs tr1 w u es : u <> t -> Link cs tr1 w -> Link cs (tr1 ++ Conc.tag u es) w.
  Proof.
    intros Hu HL.
    assert (Hr : hasret (tr1 ++ Conc.tag u es) = hasret tr1) by (rewrite hasret_app, hasret_other by exact Hu; apply orb_false_r).
    assert (Hs : scan (tr1 ++ Conc.tag u es) = scan tr1) by (rewrite scan_app; apply fold_other; exact Hu).
    assert (Hin : forall e, In (t, e) (tr1 ++ Conc.tag u es) <-> In (t, e) tr1).
    { intros e. rewrite in_app_iff, in_tag. split; [intros [H|[H _]]; [exact H|contradiction]|auto]. }
    constructor.
    - rewrite Hr. intros H. destruct (k_run HL H) as (A1 & A2 & A3). split; [exact A1|]. split; [exact A2|].
      intros x Hx. destruct (A3 x Hx) as [k Hk]. exists k. apply Hin. exact Hk.
    - rewrite Hr. intros H Hp. destruct (k_done HL H Hp) as [k Hk]. exists k. apply Hin. exact Hk.
    - intros tra k x trb Hx. apply split_novisit in Hx; [|apply novisit_other; exact Hu]. destruct Hx as [trb' Hx].
      apply (k_vis HL tra k x trb' Hx).
    - rewrite lastpos_novisit by (apply novisit_other; exact Hu). apply (k_fnd HL).
    - unfold lastv. rewrite Hs. apply (k_cur HL).
    - rewrite lastpos_novisit by (apply novisit_other; exact Hu). apply (k_rem HL).
    - rewrite lastpos_novisit by (apply novisit_other; exact Hu). apply (k_gone HL).
    - intros tra b trb Hx. apply split_noerased in Hx; [|apply noerased_other; exact Hu]. destruct Hx as [trb' Hx].
      apply (k_pairs HL tra b trb' Hx).
  Qed.

  (** own events that are neither "visit" nor "erased" nor a response, ghost value unchanged in what matters *)
  Lemma Link_plain cs tr1 w w' es : plain es -> noretl es -> Link cs tr1 w ->
    wph w' = wph w -> wvis w' = wvis w -> (wph w = true -> (Pres cs -> wok w = true) -> Pres cs -> wok w' = true) ->
    (wph w' = true -> snd (wfnd w') <> 0 -> wfresh w' = true -> FoundAt cs (lastpos tr1) (wfnd w') (wfk w')) ->
    (wph w' = true -> snd (wcur w') <> 0 -> wcur w' = wcur w) ->
    (wph w' = true -> 1 <= wrem w' -> Removed cs (lastpos tr1) (wcur w')) ->
    (wph w' = true -> wgone w' = true -> Gone cs (lastpos tr1) (wcur w')) ->
    Link cs (tr1 ++ Conc.tag t es) w'.
  Proof.
    intros Hp Hn HL Eph Evis Hok Hfnd Hcur Hrem Hgone.
    assert (Hr : hasret (tr1 ++ Conc.tag t es) = hasret tr1) by (rewrite hasret_app, hasret_noretl by exact Hn; apply orb_false_r).
    assert (Hs : scan (tr1 ++ Conc.tag t es) = scan tr1) by (rewrite scan_app; apply fold_plain; exact Hp).
    assert (Hin : forall k x, In (t, ev_visit k x) (tr1 ++ Conc.tag t es) <-> In (t, ev_visit k x) tr1).
    { intros k x. rewrite in_app_iff, in_tag. split; [|auto]. intros [H|[_ H]]; [exact H|].
      destruct (Hp _ H) as [K _]. rewrite visit_of_visit in K. discriminate. }
    constructor.
    - rewrite Hr. intros H. destruct (k_run HL H) as (A1 & A2 & A3). split; [congruence|]. split; [auto|].
      rewrite Evis. intros x Hx. destruct (A3 x Hx) as [k Hk]. exists k. apply Hin. exact Hk.
    - rewrite Hr. intros H Hq. destruct (k_done HL H Hq) as [k Hk]. exists k. apply Hin. exact Hk.
    - intros tra k x trb Hx. apply split_novisit in Hx; [|apply novisit_plain; intros e He; apply (Hp e He)].
      destruct Hx as [trb' Hx]. apply (k_vis HL tra k x trb' Hx).
    - rewrite lastpos_novisit by (apply novisit_plain; intros e He; apply (Hp e He)). exact Hfnd.
    - intros H1 H2. pose proof (Hcur H1 H2) as Ec. rewrite Ec in H2. rewrite Ec. unfold lastv. rewrite Hs. apply (k_cur HL); [congruence|exact H2].
    - rewrite lastpos_novisit by (apply novisit_plain; intros e He; apply (Hp e He)). exact Hrem.
    - rewrite lastpos_novisit by (apply novisit_plain; intros e He; apply (Hp e He)). exact Hgone.
    - intros tra b trb Hx. apply split_noerased in Hx; [|apply noerased_plain; intros e He; apply (Hp e He)].
      destruct Hx as [trb' Hx]. apply (k_pairs HL tra b trb' Hx).
  Qed.
End Link.
