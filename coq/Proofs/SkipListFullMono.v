(** * SkipListFullMono: the step lemmas of SkipListFullActs{,2}.v in monotone form (safe for the view and for every view
      with more knowledge and the same status), as used by the proofs of the model's functions. *)
From Coq Require Import ZArith List String Bool Lia PeanoNat.
From LV Require Import Base.Conc Base.Events Base.Lin Spec.Specs Proofs.LinProofs.
From LV Require Import Model.SkipList Proofs.SkipListProofs Proofs.SkipListLin Proofs.SkipListFullInv Proofs.SkipListFullActs
                       Proofs.SkipListFullActs2.
From LV Require Proofs.MichaelListInv Proofs.MichaelListLin Proofs.MichaelListFullInv.
Import ListNotations.
Local Open Scope Z_scope.

(** ** observations and the orders on views *)
Lemma seen_vle2 key b d lv lv' : vle2 lv lv' -> seen key b d lv -> seen key b d lv'.
Proof. intros (_ & E1 & E2) H o Ho Hk. rewrite E1 in *. rewrite E2. now apply H. Qed.

Lemma observe_fields key b d lv :
  vkn (fst (observe key b d lv)) = vkn (fst lv) /\ vfz (fst (observe key b d lv)) = vfz (fst lv) /\
  vown (fst (observe key b d lv)) = vown (fst lv) /\ vser (fst (observe key b d lv)) = vser (fst lv) /\
  xhl (snd (observe key b d lv)) = xhl (snd lv) /\ xfzu (snd (observe key b d lv)) = xfzu (snd lv) /\
  xhe (snd (observe key b d lv)) = xhe (snd lv) /\ xoh (snd (observe key b d lv)) = xoh (snd lv).
Proof.
  unfold observe. destruct (open_of (vst (fst lv))) as [o|]; [|repeat split]. destruct (MF.op_key o =? key); repeat split.
Qed.

Lemma kle_observe key b d lv : kle lv (observe key b d lv).
Proof.
  destruct (observe_fields key b d lv) as (F1 & F2 & F3 & F4 & F5 & F6 & F7 & F8).
  unfold kle. rewrite F1, F2, F3, F4, F5, F6, F7, F8. repeat split; auto using incl_refl.
  unfold observe. destruct (open_of (vst (fst lv))) as [o|] eqn:E; [|apply sevw_refl].
  destruct (MF.op_key o =? key); [|apply sevw_refl]. right. exists o. split; [now apply open_of_read|apply ostat_open].
Qed.

Lemma vle2_observe key b d lv lv' : vle2 lv lv' -> vle2 (observe key b d lv) (observe key b d lv').
Proof.
  intros ((A1 & A2 & A3 & A4 & A5 & A6 & A7 & A8 & A9) & B & C). unfold observe. rewrite B.
  destruct (open_of (vst (fst lv))) as [o|]; [|split; [repeat split; auto|auto]].
  destruct (MF.op_key o =? key); [|split; [repeat split; auto|auto]].
  split; [|split; reflexivity]. repeat split; cbn; auto. left. split; reflexivity.
Qed.

Section WithNodes.
Variable nodes : cfg0.
Local Notation SAFE := (SAFE nodes).

Definition SAFEm {R} (t : nat) (p : prog R) (lv : lview2) : Prop := forall lv', vle2 lv lv' -> SAFE t p lv'.

Lemma SAFEm_mono {R} t (p : prog R) lv lv1 : vle2 lv lv1 -> SAFEm t p lv -> SAFEm t p lv1.
Proof. intros H1 H lv' H2. apply H. eapply vle2_trans; eauto. Qed.
Lemma SAFEm_here {R} t (p : prog R) lv : SAFEm t p lv -> SAFE t p lv.
Proof. intros H. apply H. apply vle2_refl. Qed.

Lemma Sm_ret {R} t (r : R) lv : SAFEm t (Ret r) lv.
Proof. intros lv' _. exact Logic.I. Qed.

Lemma Sm_nx {R} t f (k : V -> prog R) lv : nxlike2 f -> (forall v, SAFEm t (k v) lv) -> SAFEm t (Act f k) lv.
Proof. intros Hf H lv' Hle. apply S_nx; [exact Hf|]. intros v. now apply H. Qed.

(** facts a load of cell (p, l) yields *)
Definition hld (lv : lview2) (l : nat) (q : ptr) : Prop := q = null \/ In (q, l) (xhl (snd lv)).
Definition fzfact2 (l : nat) (p : ptr) (x : mptr) (lv : lview2) : Prop :=
  snd x = true -> (l = 0%nat -> In (p, fst x) (vfz (fst lv))) /\ ((1 <= l)%nat -> p <> head -> In (p, l) (xfzu (snd lv))).

Lemma hld_hok lv l q : hld lv l q -> hok lv l q.
Proof. intros [H|H]; [now left|right; right; now left]. Qed.
Lemma hld_kle lv lv' l q : kle lv lv' -> hld lv l q -> hld lv' l q.
Proof. intros (_ & _ & _ & _ & H & _) [X|X]; [now left|right; auto]. Qed.
Lemma hld_ld1 l x lv : hld (ld1 l x lv) l (fst x).
Proof. unfold ld1, addhl, hld. destruct (Nat.eqb_spec (fst x) null) as [E|E]; [now left|right; cbn; now left]. Qed.
Lemma fz_kle lv lv' x : kle lv lv' -> In x (vfz (fst lv)) -> In x (vfz (fst lv')).
Proof. intros (_ & H & _). apply H. Qed.
Lemma fzu_kle lv lv' x : kle lv lv' -> In x (xfzu (snd lv)) -> In x (xfzu (snd lv')).
Proof. intros (_ & _ & _ & _ & _ & H & _). apply H. Qed.
Lemma he_kle lv lv' x : kle lv lv' -> In x (xhe (snd lv)) -> In x (xhe (snd lv')).
Proof. intros (_ & _ & _ & _ & _ & _ & H & _). apply H. Qed.
Lemma kn_kle lv lv' x : kle lv lv' -> In x (vkn (fst lv)) -> In x (vkn (fst lv')).
Proof. intros (H & _). apply H. Qed.
Lemma kle_ser lv lv' : kle lv lv' -> vser (fst lv') = vser (fst lv).
Proof. intros (_ & _ & _ & H & _). exact H. Qed.
Lemma kle_own lv lv' : kle lv lv' -> vown (fst lv') = vown (fst lv).
Proof. intros (_ & _ & H & _). exact H. Qed.
Lemma kle_oh lv lv' : kle lv lv' -> xoh (snd lv') = xoh (snd lv).
Proof. intros (_ & _ & _ & _ & _ & _ & _ & H & _). exact H. Qed.
Lemma kle_sevw lv lv' : kle lv lv' -> sevw lv lv'.
Proof. intros (_ & _ & _ & _ & _ & _ & _ & _ & H). exact H. Qed.
Lemma kle_open lv lv' o : kle lv lv' -> MF.open_read (vst (fst lv)) o -> MF.open_read (vst (fst lv')) o.
Proof. intros H. apply sevw_open. now apply kle_sevw. Qed.
Lemma vle2_st lv lv' : vle2 lv lv' -> vst (fst lv') = vst (fst lv).
Proof. intros (_ & H & _). exact H. Qed.
Lemma vle2_w lv lv' : vle2 lv lv' -> xwatch (snd lv') = xwatch (snd lv).
Proof. intros (_ & _ & H). exact H. Qed.

Lemma fzfact2_ldrec p l x lv : fzfact2 l p x (ldrec p l x lv).
Proof.
  intros Hm. unfold ldrec. cbv zeta. rewrite Hm. destruct l as [|l]; (split; [intros E|intros E Np]); try discriminate; try lia.
  - cbn. now left.
  - destruct (Nat.eqb_spec p head); [contradiction|]. cbn. now left.
Qed.

Lemma Sm_ld {R} t p l (k : V -> prog R) lv :
  (forall x lv1, vle2 lv lv1 -> lnk l p (fst x) -> knownz2 lv1 (fst x) -> hld lv1 l (fst x) -> SAFEm t (k (VP x)) lv1) ->
  SAFEm t (Act (a_ld_next p l) k) lv.
Proof.
  intros H lv' Hle. apply S_ld. intros x Hx. apply (H x (ld1 l x lv')); auto.
  - eapply vle2_trans; [exact Hle|apply vle2_ld1].
  - apply knownz2_ld1.
  - apply hld_ld1.
  - apply vle2_refl.
Qed.

Lemma Sm_ldk {R} t p l (k : V -> prog R) lv :
  known2 lv p ->
  (forall x lv1, vle2 lv lv1 -> lnk l p (fst x) -> knownz2 lv1 (fst x) -> hld lv1 l (fst x) -> fzfact2 l p x lv1 -> SAFEm t (k (VP x)) lv1) ->
  SAFEm t (Act (a_ld_next p l) k) lv.
Proof.
  intros Hk H lv' Hle. apply S_ldk; [eapply known2_kle; [apply Hle|exact Hk]|]. intros x Hx.
  pose proof (vle2_ldrec p l x lv') as V. assert (V1 : vle2 (ld1 l x lv') (ldrec p l x lv')).
  { unfold ldrec. cbv zeta. destruct (snd x); [|apply vle2_refl]. destruct l; [apply vle2_addfz2|].
    destruct (Nat.eqb p head); [apply vle2_refl|apply vle2_addfzu]. }
  apply (H x (ldrec p l x lv')); auto.
  - eapply vle2_trans; eauto.
  - eapply knownz2_kle; [apply V1|apply knownz2_ld1].
  - eapply hld_kle; [apply V1|apply hld_ld1].
  - apply fzfact2_ldrec.
  - apply vle2_refl.
Qed.

(** level-0 load with the observation "absent" *)
Lemma Sm_ldk_abs {R} t key p (k : V -> prog R) lv :
  known2 lv p -> below key p ->
  (forall x lv1, kle lv lv1 -> lnk 0 p (fst x) -> knownz2 lv1 (fst x) -> hld lv1 0 (fst x) -> fzfact2 0 p x lv1 ->
     (snd x = false -> fst x = null \/ key < key_of (fst x) -> seen key false null lv1) -> SAFEm t (k (VP x)) lv1) ->
  SAFEm t (Act (a_ld_next p 0) k) lv.
Proof.
  intros Hk Hb H lv' Hle. apply (S_ldk_abs nodes t key p); [eapply known2_kle; [apply Hle|exact Hk]|exact Hb|]. intros x Hx.
  pose proof (vle2_ldrec p 0 x lv') as V. assert (V1 : vle2 (ld1 0 x lv') (ldrec p 0 x lv')).
  { unfold ldrec. cbv zeta. destruct (snd x); [apply vle2_addfz2|apply vle2_refl]. }
  assert (K0 : kle lv (ldrec p 0 x lv')) by (eapply kle_trans; [apply Hle|apply V]).
  destruct (absb key x) eqn:Eb.
  - apply (H x (observe key false null (ldrec p 0 x lv'))); auto.
    + eapply kle_trans; [exact K0|apply kle_observe].
    + eapply knownz2_kle; [apply kle_observe|]. eapply knownz2_kle; [apply V1|apply knownz2_ld1].
    + eapply hld_kle; [apply kle_observe|]. eapply hld_kle; [apply V1|apply hld_ld1].
    + intros Hm. apply andb_true_iff in Eb. destruct Eb as [Eb _]. rewrite Hm in Eb. discriminate.
    + intros _ _. apply seen_observe.
    + apply vle2_refl.
  - apply (H x (ldrec p 0 x lv')); auto.
    + eapply knownz2_kle; [apply V1|apply knownz2_ld1].
    + eapply hld_kle; [apply V1|apply hld_ld1].
    + apply fzfact2_ldrec.
    + intros Hm Hc. exfalso. unfold absb in Eb. rewrite Hm in Eb. cbn [negb andb] in Eb.
      apply orb_false_iff in Eb. destruct Eb as [E1 E2]. apply Nat.eqb_neq in E1. apply Z.ltb_ge in E2. destruct Hc; [contradiction|lia].
    + apply vle2_refl.
Qed.

(** load with the observation "present" *)
Lemma Sm_ldk_pres {R} t key c l (k : V -> prog R) lv :
  In c (vkn (fst lv)) -> key_of c = key -> (l = 0%nat \/ In (c, l) (xhl (snd lv))) -> c <> head ->
  (forall x lv1, kle lv lv1 -> lnk l c (fst x) -> knownz2 lv1 (fst x) -> hld lv1 l (fst x) -> fzfact2 l c x lv1 ->
     (snd x = false -> seen key true c lv1) -> SAFEm t (k (VP x)) lv1) ->
  SAFEm t (Act (a_ld_next c l) k) lv.
Proof.
  intros Hk Hkey Hl Nh H lv' Hle. apply (S_ldk_pres nodes t key c l); [eapply kn_kle; [apply Hle|exact Hk]|exact Hkey| |].
  { destruct Hl as [Hl|Hl]; [now left|right]. destruct Hle as ((_ & _ & _ & _ & X & _) & _). auto. }
  intros x Hx.
  pose proof (vle2_ldrec c l x lv') as V. assert (V1 : vle2 (ld1 l x lv') (ldrec c l x lv')).
  { unfold ldrec. cbv zeta. destruct (snd x); [|apply vle2_refl]. destruct l; [apply vle2_addfz2|].
    destruct (Nat.eqb c head); [apply vle2_refl|apply vle2_addfzu]. }
  assert (K0 : kle lv (ldrec c l x lv')) by (eapply kle_trans; [apply Hle|apply V]).
  destruct (snd x) eqn:Em.
  - apply (H x (ldrec c l x lv')); auto.
    + eapply knownz2_kle; [apply V1|apply knownz2_ld1].
    + eapply hld_kle; [apply V1|apply hld_ld1].
    + apply fzfact2_ldrec.
    + intros X; congruence.
    + apply vle2_refl.
  - apply (H x (observe key true c (ldrec c l x lv'))); auto.
    + eapply kle_trans; [exact K0|apply kle_observe].
    + eapply knownz2_kle; [apply kle_observe|]. eapply knownz2_kle; [apply V1|apply knownz2_ld1].
    + eapply hld_kle; [apply kle_observe|]. eapply hld_kle; [apply V1|apply hld_ld1].
    + intros Hm. congruence.
    + intros _. apply seen_observe.
    + apply vle2_refl.
Qed.

Lemma Sm_ld_fz {R} t p nx (k : V -> prog R) lv :
  In (p, nx) (vfz (fst lv)) -> (lnk 0 p nx -> SAFEm t (k (VP (nx, true))) lv) -> SAFEm t (Act (a_ld_next p 0) k) lv.
Proof. intros Hin H lv' Hle. apply S_ld_fz with nx; [eapply fz_kle; [apply Hle|exact Hin]|]. intros Hl. now apply H. Qed.

Lemma Sm_guard_h {R} t slot p (k : V -> prog R) lv :
  In p (vkn (fst lv)) ->
  (forall h lv1, (h <= MAXH)%nat -> vle2 lv lv1 -> In (p, h) (xhe (snd lv1)) -> SAFEm t (k (VZ (Z.of_nat h))) lv1) ->
  SAFEm t (Act (a_guard_st_h t slot p) k) lv.
Proof.
  intros Hk H lv' Hle. apply S_guard_h; [eapply kn_kle; [apply Hle|exact Hk]|]. intros h Hh.
  apply (H h (addhe p h lv')); auto; [eapply vle2_trans; [exact Hle|apply vle2_addhe]|cbn; now left|apply vle2_refl].
Qed.

Lemma Sm_ld_hgt {R} t (k : V -> prog R) lv : (forall z, 1 <= z -> SAFEm t (k (VZ z)) lv) -> SAFEm t (Act a_ld_hgt k) lv.
Proof. intros H lv' Hle. apply S_ld_hgt. intros z Hz. now apply H. Qed.

Lemma vle2_set_oh lv lv' o : vle2 lv lv' -> vle2 (set_oh lv o) (set_oh lv' o).
Proof.
  intros ((A1 & A2 & A3 & A4 & A5 & A6 & A7 & A8 & A9) & B & C). split; [|split; cbn; auto]. repeat split; cbn; auto.
  all: try (left; split; cbn; auto).
Qed.

Lemma Sm_st_unl {R} t p n h v (k : V -> prog R) lv :
  vown (fst lv) = Some (p, v) -> (1 <= h <= MAXH)%nat -> (forall v', SAFEm t (k v') (set_oh lv (Some (p, h)))) ->
  SAFEm t (Act (a_st_unl p n h) k) lv.
Proof.
  intros Ho Hh H lv' Hle. apply S_st_unl with (v := v); [rewrite (kle_own _ _ (vle2_kle _ _ Hle)); exact Ho|exact Hh|].
  intros v'. apply (H v'). now apply vle2_set_oh.
Qed.

Lemma Sm_st_own {R} t p l x v (k : V -> prog R) lv :
  vown (fst lv) = Some (p, v) -> lnk l p (fst x) -> knownz2 lv (fst x) -> hok lv l (fst x) ->
  (forall v', SAFEm t (k v') (if Nat.eqb l 0 then (set_own (fst lv) (Some (p, x)), snd lv) else lv)) ->
  SAFEm t (Act (a_st_next p l x) k) lv.
Proof.
  intros Ho Hl Hk Hh H lv' Hle. pose proof Hle as ((L1 & L2 & L3 & L4 & L5 & L6 & L7 & L8 & L9) & B & C).
  apply (S_st_own nodes t p l x v); [congruence|exact Hl|eapply knownz2_kle; [apply Hle|exact Hk]|eapply hok_kle; [apply Hle|exact Hh]|].
  intros v'. apply (H v'). destruct (Nat.eqb l 0); [|exact Hle]. split; [|split; cbn; auto]. repeat split; cbn; auto.
  all: try (left; split; cbn; auto).
Qed.

Lemma Sm_cas_up {R} t p l e d (k : V -> prog R) lv :
  l <> 0%nat -> lnk l p (fst d) -> knownz2 lv (fst d) -> snd e = false -> (hok lv l (fst d) \/ fst d = fst e) ->
  (forall ok cur lv1, vle2 lv lv1 -> lnk l p (fst cur) -> (ok = true -> cur = e) -> knownz2 lv1 (fst cur) -> hld lv1 l (fst cur) ->
     SAFEm t (k (VC ok cur)) lv1) ->
  SAFEm t (Act (a_cas_next p l e d) k) lv.
Proof.
  intros Nl Hl Hk He Hh H lv' Hle. apply S_cas_up; [exact Nl|exact Hl|eapply knownz2_kle; [apply Hle|exact Hk]|exact He| |].
  - destruct Hh as [Hh|Hh]; [left; eapply hok_kle; [apply Hle|exact Hh]|now right].
  - intros ok cur Hc Hok. apply (H ok cur (ld1 l cur lv')); auto; [eapply vle2_trans; [exact Hle|apply vle2_ld1]|apply knownz2_ld1|apply hld_ld1|apply vle2_refl].
Qed.

Lemma Sm_cas_mark_up {R} t p l e (k : V -> prog R) lv :
  l <> 0%nat -> In p (vkn (fst lv)) -> snd e = false ->
  (forall ok cur lv1, vle2 lv lv1 -> lnk l p (fst cur) -> knownz2 lv1 (fst cur) -> (ok = true \/ snd cur = true -> In (p, l) (xfzu (snd lv1))) ->
     SAFEm t (k (VC ok cur)) lv1) ->
  SAFEm t (Act (a_cas_next p l e (fst e, true)) k) lv.
Proof.
  intros Nl Hk He H lv' Hle. apply S_cas_mark_up; [exact Nl|eapply kn_kle; [apply Hle|exact Hk]|exact He|].
  intros ok cur Hc. set (lv2 := if ok || snd cur then addfzu p l (ld1 l cur lv') else ld1 l cur lv').
  assert (V : vle2 (ld1 l cur lv') lv2) by (unfold lv2; destruct (ok || snd cur); [apply vle2_addfzu|apply vle2_refl]).
  apply (H ok cur lv2); auto.
  - eapply vle2_trans; [exact Hle|]. eapply vle2_trans; [apply vle2_ld1|exact V].
  - eapply knownz2_kle; [apply V|apply knownz2_ld1].
  - intros Hm. unfold lv2. replace (ok || snd cur) with true; [cbn; now left|]. destruct Hm as [->| ->]; [reflexivity|now rewrite orb_true_r].
  - apply vle2_refl.
Qed.

Lemma Sm_cas0_link {R} t pred succ new key (k : V -> prog R) lv :
  known2 lv pred -> vown (fst lv) = Some (new, (succ, false)) -> below key pred -> key_of new = key ->
  MF.open_read (vst (fst lv)) (SInsert key) -> xwatch (snd lv) = None ->
  (forall cur lv1, vle2 lv lv1 -> SAFEm t (k (VC false cur)) lv1) ->
  SAFEm t (k (VC true (succ, false)))
       (mkLV (new :: vkn (fst lv)) (vfz (fst lv)) None (vser (fst lv)) (@Linearized SetSpec (SInsert key) (RBool true)), snd lv) ->
  SAFEm t (Act (a_cas_next pred 0 (succ, false) (new, false)) k) lv.
Proof.
  intros Hk Ho Hb Hkey Hst Hw Hf Hok lv' Hle. pose proof Hle as ((L1 & L2 & L3 & L4 & L5 & L6 & L7 & L8 & L9) & B & C).
  apply (S_cas0_link nodes t pred succ new key);
    [eapply known2_kle; [apply Hle|exact Hk]|congruence|exact Hb|exact Hkey|rewrite B; exact Hst|rewrite C; exact Hw| |].
  - intros cur. apply (Hf cur (ld1 0 cur lv')); [eapply vle2_trans; [exact Hle|apply vle2_ld1]|apply vle2_refl].
  - apply Hok. rewrite L4. split; [|split; cbn; auto]. repeat split; cbn; auto; try (left; split; cbn; auto).
    intros x [<-|Hx]; [now left|right; auto].
Qed.

Lemma Sm_cas0_mark {R} t del p key h (k : V -> prog R) lv :
  In del (vkn (fst lv)) -> key_of del = key -> snd p = false -> lnk 0 del (fst p) ->
  MF.open_read (vst (fst lv)) (SErase key) -> xwatch (snd lv) = Some del ->
  In (del, h) (xhe (snd lv)) -> (forall l, (1 <= l < h)%nat -> In (del, l) (xfzu (snd lv))) ->
  (forall cur lv1, lnk 0 del (fst cur) -> snd cur = false -> vle2 lv lv1 -> knownz2 lv1 (fst cur) -> SAFEm t (k (VC false cur)) lv1) ->
  (forall cur lv1, snd cur = true -> kle lv lv1 -> vst (fst lv1) = @Linearized SetSpec (SErase key) (RBool false) -> xwatch (snd lv1) = None ->
     SAFEm t (k (VC false cur)) lv1) ->
  SAFEm t (k (VC true p))
       (mkLV (vkn (fst lv)) ((del, fst p) :: vfz (fst lv)) (vown (fst lv)) (vser (fst lv)) (@Linearized SetSpec (SErase key) (RBool true)),
        set_watch (snd lv) None) ->
  SAFEm t (Act (a_cas_next del 0 p (fst p, true)) k) lv.
Proof.
  intros Hk Hkey Hm Hl Hst Hw Hhe Hfz Hf0 Hf1 Hok lv' Hle. pose proof Hle as ((L1 & L2 & L3 & L4 & L5 & L6 & L7 & L8 & L9) & B & C).
  apply (S_cas0_mark nodes t del p key h);
    [apply L1; exact Hk|exact Hkey|exact Hm|exact Hl|rewrite B; exact Hst|rewrite C; exact Hw|apply L7; exact Hhe|intros l Hl'; apply L6; now apply Hfz| |].
  - intros cur Hc. destruct (snd cur) eqn:Ec.
    + apply (Hf1 cur (set_st2 (ld1 0 cur lv') (@Linearized SetSpec (SErase key) (RBool false)) None)); auto; [|apply vle2_refl].
      eapply kle_trans; [apply Hle|]. eapply kle_trans; [apply (vle2_ld1 0 cur lv')|].
      repeat split; cbn; auto using incl_refl. right. exists (SErase key).
      destruct (same_ld1 0 cur lv') as [E1 _]. rewrite E1, B. split; [exact Hst|]. right. exists (RBool false). split; reflexivity.
    + apply (Hf0 cur (ld1 0 cur lv')); auto; [eapply vle2_trans; [exact Hle|apply vle2_ld1]|apply knownz2_ld1|apply vle2_refl].
  - apply Hok. rewrite L3, L4. split; [|split; cbn; auto]. repeat split; cbn; auto using incl_cons2. left. split; reflexivity.
Qed.

Lemma Sm_cas0_unlink {R} t pred cur succ (k : V -> prog R) lv :
  known2 lv pred -> In (cur, succ) (vfz (fst lv)) -> lnk 0 pred succ ->
  (forall ok c lv1, vle2 lv lv1 -> lnk 0 pred (fst c) -> SAFEm t (k (VC ok c)) lv1) ->
  SAFEm t (Act (a_cas_next pred 0 (cur, false) (succ, false)) k) lv.
Proof.
  intros Hk Hfz Hl H lv' Hle. apply (S_cas0_unlink nodes t pred cur succ); auto.
  - eapply known2_kle; [apply Hle|exact Hk].
  - eapply fz_kle; [apply Hle|exact Hfz].
  - intros ok c Hc. apply (H ok c (ld1 0 c lv')); auto; [eapply vle2_trans; [exact Hle|apply vle2_ld1]|apply vle2_refl].
Qed.

Lemma vle2_set_st2 lv lv' s w : vle2 lv lv' -> vle2 (set_st2 lv s w) (set_st2 lv' s w).
Proof.
  intros ((A1 & A2 & A3 & A4 & A5 & A6 & A7 & A8 & A9) & B & C). split; [|split; reflexivity]. repeat split; cbn; auto. left. split; reflexivity.
Qed.

Lemma Sm_emit_inv {R} t c key (k : prog R) lv :
  cok c = true -> vst (fst lv) = @Idle SetSpec -> xwatch (snd lv) = None ->
  SAFEm t k (set_st2 lv (@Pending SetSpec (sp_op c key)) None) -> SAFEm t (Emit (ev_inv c key) k) lv.
Proof.
  intros Hc Hst Hw Hk lv' Hle. apply S_emit_inv; auto; [rewrite (vle2_st _ _ Hle); exact Hst|rewrite (vle2_w _ _ Hle); exact Hw|].
  apply Hk. now apply vle2_set_st2.
Qed.

Lemma Sm_emit_res {R} t o ra b (k : prog R) lv :
  cok (fst (op_code o)) = true -> vst (fst lv) = @Linearized SetSpec o (RBool (ra =? 1)) -> xwatch (snd lv) = None ->
  SAFEm t k (set_st2 lv (@Idle SetSpec) None) -> SAFEm t (Emit (ev_res ra b) k) lv.
Proof.
  intros Hc Hst Hw Hk lv' Hle. apply S_emit_res with (o := o); [exact Hc|rewrite (vle2_st _ _ Hle); exact Hst|rewrite (vle2_w _ _ Hle); exact Hw|].
  apply Hk. now apply vle2_set_st2.
Qed.

Lemma Sm_alloc {R} t key (k : V -> prog R) lv :
  (t < 64)%nat -> (key < 8)%nat ->
  (forall v w, SAFEm t (k v) ((mkLV (vkn (fst lv)) (vfz (fst lv)) (Some (node_id t (vser (fst lv)) key, w)) (S (vser (fst lv))) (vst (fst lv))),
                             mkX (xwatch (snd lv)) (xhl (snd lv)) (xfzu (snd lv)) (xhe (snd lv)) (Some (node_id t (vser (fst lv)) key, 1%nat)))) ->
  SAFEm t (Act (a_st_unl (node_id t (vser (fst lv)) key) 1 1) k) lv.
Proof.
  intros Ht Hk H lv' Hle. pose proof Hle as ((L1 & L2 & L3 & L4 & L5 & L6 & L7 & L8 & L9) & B & C). rewrite <- L4. apply S_alloc; auto.
  intros v w. apply (H v w). split; [|split; cbn; auto]. repeat split; cbn; auto; try congruence.
  all: try (left; split; cbn; auto).
Qed.

(** ** guards *)
Ltac nxl := intros g0; cbn; repeat split; eauto.
Ltac snx := apply Sm_nx; [nxl|intros ?].

Lemma Sm_assign {R} t s slot (k : prog R) lv : SAFEm t k lv -> SAFEm t (g_assign s slot k) lv.
Proof. intros H. unfold g_assign. snx. snx. exact H. Qed.
Lemma Sm_clear {R} t s slot (k : prog R) lv : SAFEm t k lv -> SAFEm t (g_clear s slot k) lv.
Proof. intros H. unfold g_clear. snx. exact H. Qed.
Lemma Sm_copy {R} t s a b (k : prog R) lv : SAFEm t k lv -> SAFEm t (g_copy s a b k) lv.
Proof. intros H. unfold g_copy. snx. snx. snx. exact H. Qed.
Lemma Sm_retire {R} t s (k : prog R) lv : SAFEm t k lv -> SAFEm t (retire s k) lv.
Proof. intros H. unfold retire. snx. snx. exact H. Qed.
Lemma Sm_free_all_tlk {R} t sn slots : forall s (k : TL -> prog R) lv,
  tlk t sn s -> (forall s', tlk t sn s' -> SAFEm t (k s') lv) -> SAFEm t (g_free_all s slots k) lv.
Proof.
  induction slots as [|x r IH]; intros s k lv Ht H; cbn [g_free_all]; [now apply H|]. apply Sm_clear. apply IH; [now apply tlk_free1|exact H].
Qed.

End WithNodes.
