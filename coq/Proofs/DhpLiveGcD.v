(** * DhpLiveGcD: C02, second sentence for DHP, from the hazard cell to the client's Guard object.  Part D: the stores
      to hazard cells ([rds_st_slot]: justified by the view; [rds_st_slot_protect]: the cell of the Guard exists, from the
      C02 invariant) and the library programs around them: link_guards, hp_alloc, hp_extend, hp_galloc, clear_slots,
      free_thread_data (detach).
      The client operations [run_op], whole threads and the initial configuration are in DhpLiveGxA ([dhp_TPropG]); the
      trace-level derivation of [guard_cell_exclusive] (DhpLiveGcE) from [TPropG], [cell_disc] and [K_good] is in DhpLiveGxB;
      [cell_disc] itself is proved in DhpLiveGxE .. GxP. *)
From Coq Require Import ZArith NArith List String Bool Lia PeanoNat.
From LV Require Import Base.Conc Base.Events Model.DhpLang Model.Dhp Proofs.DhpBase Proofs.DhpHist
  Proofs.DhpLangProofs Proofs.DhpInvA Proofs.DhpMainB Proofs.DhpProofsC02 Proofs.DhpLiveA Proofs.DhpLiveB
  Proofs.DhpLiveGcRule Proofs.DhpLiveGcA Proofs.DhpLiveGcB Proofs.DhpLiveGcC.
Import ListNotations.
Local Open Scope string_scope.
Local Open Scope list_scope.

(** a cell of an attached record exists *)
Lemma gchain_in c g : forall l o b, gchain c g o l -> In b l ->
  b < List.length (gbs g) /\ List.length (gb_slots (ggb g b)) = c_GB c.
Proof.
  induction l as [|x l IH]; intros o b H Hin; [destruct Hin|]. cbn in H. destruct H as (_ & H1 & H2 & H3).
  destruct Hin as [->|Hin]; [auto|eauto].
Qed.
Lemma valid_of_JA c g a h u s : JA c g a h -> ownc c h u s -> slot_valid g s = true.
Proof.
  intros J. destruct s as [r i|b i]; cbn.
  - intros ((k & A) & B). destruct (ja_att _ _ _ _ J r u k A) as (_ & _ & X1 & X2 & _).
    apply andb_true_intro. split; apply Nat.ltb_lt; [exact X1|rewrite X2; exact B].
  - intros ((r & k & kb & A & A2) & B). destruct (ja_att _ _ _ _ J r u k A) as (_ & _ & _ & _ & _ & _ & X & _).
    destruct (gchain_in c g _ _ b X) as (Y1 & Y2); [apply (in_map fst _ _ A2)|].
    apply andb_true_intro. split; apply Nat.ltb_lt; [exact Y1|rewrite Y2; exact B].
Qed.

(** the view after a store to a hazard cell *)
Lemma view_st_slot a t s v g :
  viewG (fold_left gstep (Conc.tag t (snd (a_st_slot s v g))) a) t =
  mkVG (gop a t) (gtl a t) (gmp a t) (gpv a t) (if slot_valid g s then Some (Datatypes.S (glen a), s) else None) true.
Proof.
  unfold a_st_slot. cbn [snd]. unfold acc. destruct (slot_valid g s); cbn [app Conc.tag map fold_left].
  - unfold gstep at 2. cbn [fst snd]. rewrite gcls_acc_slot. unfold gstep. cbn [fst snd]. rewrite gcls_slot.
    unfold viewG. cbn. now rewrite !fnu_same.
  - unfold gstep. cbn [fst snd]. rewrite gcls_acc_slot. unfold viewG. cbn. now rewrite !fnu_same.
Qed.
Lemma gop_st_slot a t s v g u : gop (fold_left gstep (Conc.tag t (snd (a_st_slot s v g))) a) u = gop a u.
Proof.
  unfold a_st_slot. cbn [snd]. unfold acc. destruct (slot_valid g s); cbn [app Conc.tag map fold_left].
  - unfold gstep at 2. cbn [fst snd]. rewrite gcls_acc_slot. unfold gstep. cbn [fst snd]. rewrite gcls_slot. reflexivity.
  - unfold gstep. cbn [fst snd]. rewrite gcls_acc_slot. reflexivity.
Qed.

Definition Jv (l : VG) (s : gref) : Prop :=
  (exists code j rest, w_op l = code :: zn j :: rest /\ guard_code code /\ gfind (w_mp l) j = Some s) \/
  (w_op l = [2%Z] /\ exists r i, s = GI r i /\ w_tl l = Some r) \/
  (exists b i j, s = GE b i /\ w_pv l = Some b /\ w_op l = [3%Z; zn j]).
Definition Rslot (l l' : VG) : Prop := w_op l' = w_op l /\ w_tl l' = w_tl l /\ w_mp l' = w_mp l /\ w_pv l' = w_pv l.
Lemma Rslot_refl l : Rslot l l. Proof. unfold Rslot. auto. Qed.
Lemma Rslot_trans l1 l2 l3 : Rslot l1 l2 -> Rslot l2 l3 -> Rslot l1 l3.
Proof. unfold Rslot. intros (A1&A2&A3&A4) (B1&B2&B3&B4). repeat split; congruence. Qed.

Lemma PhiG_slotacc st u e : gcls e = GSlotAcc -> PhiG st u e.
Proof. intros E. unfold PhiG. rewrite E. repeat split; intros; congruence. Qed.

Lemma PhiG_slot st u s v : J st u s -> PhiG st u (ev_slot s v).
Proof. intros HJ. unfold PhiG. rewrite gcls_slot. split; [intros s' x E; inversion E; subst; exact HJ|]. repeat split; intros; congruence. Qed.

Ltac xact := unfold xbind at 1; unfold act at 1; cbn [dbind].
Ltac xloc := unfold xbind at 1; unfold loc at 1; cbn [dbind].
Ltac xemit := unfold xbind at 1; unfold emit at 1; cbn [dbind].

Section Ops.
  Variable c : cfg.
  Notation rds := (rdsafe (InvA c) viewG (InvG c)).
  Notation I1A := (I1 (InvA c)).

  (** the events of a store to a hazard cell satisfy [PhiG] when the store is justified by the view *)
  Lemma slot_events_ok g a tr t s v l : a = gfold tr -> viewG a t = l -> Jv l s ->
    forall i e, nth_error (snd (a_st_slot s v g)) i = Some e -> PhiG (gfold (tr ++ Conc.tag t (firstn i (snd (a_st_slot s v g))))) t e.
  Proof.
    intros Ea Hv HJ i e Hn. unfold a_st_slot in *. cbn [snd] in *. unfold acc in *.
    destruct i as [|[|i]].
    - cbn in Hn. inversion Hn; subst e. apply PhiG_slotacc. apply gcls_acc_slot.
    - destruct (slot_valid g s); [|cbn in Hn; discriminate]. cbn in Hn. inversion Hn; subst e. apply PhiG_slot.
      cbn [app firstn Conc.tag map]. rewrite gfold_snoc, <- Ea. unfold gstep. cbn [fst snd]. rewrite gcls_acc_slot.
      unfold J. cbn [gop gmp gtl gpv]. subst l. exact HJ.
    - destruct (slot_valid g s); cbn in Hn; destruct i; discriminate.
  Qed.

  Lemma rds_st_slot {R} t s v (k : unit -> @dprog G ev R) l Q :
    Jv l s -> (forall j k0, w_op l <> [7%Z; zn j; zn k0]) -> (forall l', Rslot l l' -> rds t (k tt) l' Q) ->
    rds t (DAct (a_st_slot s v) k) l Q.
  Proof.
    intros HJ Hnp Hk. apply rds_act. intros g a tr Hi Hv _ _. split.
    - apply (InvG_intro c g); [exact Hi|]. intros Hf Hd.
      destruct (InvG_open _ _ _ _ _ Hi Hf Hd) as (Ea & _ & _ & _ & V & _). split.
      + eapply slot_events_ok; eauto.
      + intros u j k0. rewrite gop_st_slot. destruct (Nat.eq_dec u t) as [->|N].
        * intros E. exfalso. apply (Hnp j k0). rewrite <- Hv. exact E.
        * rewrite (f_equal w_sl (viewG_fold_other t (snd (a_st_slot s v g)) u N a) : gsl _ u = gsl a u).
          rewrite (f_equal w_ac (viewG_fold_other t (snd (a_st_slot s v g)) u N a) : gac _ u = gac a u). apply V.
    - cbn [a_st_slot fst snd]. apply Hk. pose proof (view_st_slot a t s v g) as W. unfold a_st_slot in W. cbn [snd] in W.
      rewrite W. subst l. unfold Rslot. cbn. auto.
  Qed.

  (** the store of protect(): the cell of the Guard exists *)
  Lemma rds_st_slot_protect {R} t s v j k0 (k : unit -> @dprog G ev R) l Q :
    w_op l = [7%Z; zn j; zn k0] -> gfind (w_mp l) j = Some s ->
    (forall l', Rslot l l' -> w_ac l' = true -> (forall n s', w_sl l' = Some (n, s') -> s' = s) -> rds t (k tt) l' Q) ->
    rds t (DAct (a_st_slot s v) k) l Q.
  Proof.
    intros Hop Hg Hk. apply rds_act. intros g a tr Hi Hv (a1 & Hb) _. split.
    - apply (InvG_intro c g); [exact Hi|]. intros Hf Hd.
      destruct (InvG_open _ _ _ _ _ Hi Hf Hd) as (Ea & Hf0 & _ & _ & V & HK). split.
      + eapply slot_events_ok; eauto. left. exists 7%Z, j, [zn k0]. split; [exact Hop|]. split; [unfold guard_code; auto|exact Hg].
      + intros u j' k'. destruct (Nat.eq_dec u t) as [->|N].
        * intros _ _. rewrite (f_equal w_sl (view_st_slot a t s v g) : gsl _ t = _). cbn [w_sl]. destruct (Hb Hf0) as (JJ & _).
          rewrite (valid_of_JA c g a1 (hist tr) t s JJ); [discriminate|]. apply (k_cd _ _ _ HK t j s).
          change (gmp a t) with (w_mp (viewG a t)). rewrite Hv. exact Hg.
        * rewrite gop_st_slot.
          rewrite (f_equal w_sl (viewG_fold_other t (snd (a_st_slot s v g)) u N a) : gsl _ u = gsl a u).
          rewrite (f_equal w_ac (viewG_fold_other t (snd (a_st_slot s v g)) u N a) : gac _ u = gac a u). apply V.
    - cbn [a_st_slot fst snd]. pose proof (view_st_slot a t s v g) as W. unfold a_st_slot in W. cbn [snd] in W.
      apply Hk; rewrite W; subst l; cbn; [unfold Rslot; cbn; auto|reflexivity|].
      intros n s'. destruct (slot_valid g s); [intros E; inversion E; reflexivity|discriminate].
  Qed.

  (** a ghost event that records the block taken from the allocator *)
  Lemma rds_emit_pv {R} t e b (k : @dprog G ev R) l Q : gcls e = GPv b ->
    (forall l', w_pv l' = Some b -> w_op l' = w_op l -> w_tl l' = w_tl l -> w_mp l' = w_mp l -> rds t k l' Q) ->
    rds t (DEmit [e] k) l Q.
  Proof.
    intros Eg Hk. apply rds_emit. intros g a tr Hi Hv _ _. split.
    - apply (InvG_lib c g); [exact Hi|]. constructor; [unfold libg; now rewrite Eg|constructor].
    - cbn [Conc.tag map fold_left]. unfold gstep. cbn [fst snd]. rewrite Eg. subst l. apply Hk; cbn; try reflexivity. apply fnu_same.
  Qed.
  Lemma rds_act_link {X R} t (f : A X) (k : X -> @dprog G ev R) l Q :
    (forall g, Forall (fun e => libg e = true) (snd (f g))) ->
    (forall x l', w_op l' = w_op l -> w_tl l' = w_tl l -> w_mp l' = w_mp l -> rds t (k x) l' Q) -> rds t (DAct f k) l Q.
  Proof.
    intros Hf Hk. apply rds_act. intros g a tr Hi Hv _ _. split; [apply (InvG_lib c g); auto|].
    destruct (libg_fold t _ (Hf g) a) as (B1&B2&B3&_). subst l. apply Hk; cbn; congruence.
  Qed.

  Definition Rw (l l' : VG) : Prop := w_op l' = w_op l /\ w_tl l' = w_tl l /\ w_mp l' = w_mp l.

  Lemma S_link_guards t b j : forall n i l, w_pv l = Some b -> w_op l = [3%Z; zn j] ->
    rds t (link_guards b i n) l (fun _ l' => Rslot l l').
  Proof.
    induction n as [|n IH]; intros i l Hp Hop; cbn [link_guards]; [apply Rslot_refl|].
    xact. apply rds_st_slot.
    - right; right. exists b, i, j. auto.
    - intros j' k'. rewrite Hop. discriminate.
    - intros l1 R1. xloc. apply rds_loc. intros _. destruct R1 as (A1&A2&A3&A4).
      eapply rdsafe_weaken; [|apply (IH (Datatypes.S i) l1); congruence].
      intros o l2 R2. eapply Rslot_trans; [|exact R2]. unfold Rslot; auto.
  Qed.

  Lemma S_hp_alloc t j l : w_op l = [3%Z; zn j] -> rds t (hp_alloc c) l (fun _ l' => Rw l l').
  Proof.
    intros Hop. unfold hp_alloc. apply rds_neu_seq; [apply N_fl_get| |unfold Rw; auto]. intros o.
    assert (Hrest : forall b l1, w_pv l1 = Some b -> w_op l1 = w_op l -> w_tl l1 = w_tl l -> w_mp l1 = w_mp l ->
              rds t (link_guards b 0 (c_GB c - 1) ;;; loc (fun g => (snext_set g (GE b (c_GB c - 1)) None, tt)) ;;;
                     act (a_st_slot (GE b (c_GB c - 1)) 0) ;;; ret b) l1 (fun _ l' => Rw l l')).
    { intros b l1 P1 P2 P3 P4. apply rds_xbind. eapply rdsafe_weaken; [|apply (S_link_guards t b j); congruence].
      intros [?u|] l2 (A1&A2&A3&A4); [|unfold Rw; repeat split; congruence].
      xloc. apply rds_loc. intros _. xact. apply rds_st_slot.
      - right; right. exists b, (c_GB c - 1), j. repeat split; congruence.
      - intros j' k'. rewrite A1, P2, Hop. discriminate.
      - intros l3 (B1&B2&B3&B4). cbn. unfold Rw. repeat split; congruence. }
    apply rds_xbind. destruct o as [b|].
    - xemit. apply (rds_emit_pv t _ b); [apply gcls_alloc_hp|]. intros l1 P1 P2 P3 P4. cbn [rdsafe ret]. now apply Hrest.
    - xloc. apply rds_loc. intros nb. xemit. apply (rds_emit_pv t _ nb); [apply gcls_new_hp|]. intros l1 P1 P2 P3 P4.
      xact. apply rds_act_none; [apply n_st_flnext|]. intros _. cbn [rdsafe ret]. now apply Hrest.
  Qed.

  Lemma libg_link r b : libg (ev_link r b) = true.
  Proof. unfold libg. now rewrite gcls_link. Qed.

  Lemma S_hp_extend t j r l : w_op l = [3%Z; zn j] -> rds t (hp_extend c r) l (fun _ l' => Rw l l').
  Proof.
    intros Hop. unfold hp_extend. apply rds_xbind. eapply rdsafe_weaken; [|apply (S_hp_alloc t j l Hop)].
    intros [b|] l1 (A1&A2&A3); [|unfold Rw; auto].
    xact. apply rds_act_none; [apply n_ld_ext|]. intros e. xloc. apply rds_loc. intros _.
    xact. apply rds_act_link.
    - intros g. cbn. constructor; [reflexivity|]. constructor; [apply libg_link|constructor].
    - intros x0 l2 B1 B2 B3. unfold loc. apply rds_loc. intros x1. cbn. unfold Rw. repeat split; congruence.
  Qed.

  Lemma S_hp_galloc t j r l : w_op l = [3%Z; zn j] -> rds t (hp_galloc c r) l (fun _ l' => Rw l l').
  Proof.
    intros Hop. unfold hp_galloc. xloc. apply rds_loc. intros fh. apply rds_xbind.
    assert (Hx : rds t (match fh with None => hp_extend c r | Some _ => ret tt end) l (fun _ l' => Rw l l')).
    { destruct fh; [cbn; unfold Rw; auto|now apply (S_hp_extend t j)]. }
    eapply rdsafe_weaken; [|exact Hx]. intros [?u|] l1 R1; [|exact R1]. unfold loc. apply rds_loc. intros s. exact R1.
  Qed.

  Lemma S_clear_slots t r : forall n i l, w_op l = [2%Z] -> w_tl l = Some r -> rds t (clear_slots r i n) l (fun _ l' => Rslot l l').
  Proof.
    induction n as [|n IH]; intros i l Hop Htl; cbn [clear_slots]; [apply Rslot_refl|].
    xact. apply rds_st_slot.
    - right; left. split; [exact Hop|]. exists r, i. auto.
    - intros j' k'. rewrite Hop. discriminate.
    - intros l1 R1. pose proof R1 as (A1&A2&A3&A4). eapply rdsafe_weaken; [|apply (IH (Datatypes.S i) l1); congruence].
      intros o l2 R2. eapply Rslot_trans; eauto.
  Qed.

  (** detach: afterwards the thread holds no record and no Guard *)
  Lemma S_free_thread_data t r mytid l : w_op l = [2%Z] -> w_tl l = Some r ->
    rds t (free_thread_data c r mytid true [ev_relall; ev_det r]) l
      (fun o l' => match o with Some _ => w_op l' = [2%Z] /\ w_tl l' = None /\ w_mp l' = [] | None => True end).
  Proof.
    intros Hop Htl. unfold free_thread_data, hp_clear.
    apply rds_xbind. apply rds_xbind. eapply rdsafe_weaken; [|apply (S_clear_slots t r (eff_H c) 0 l Hop Htl)].
    intros [?u|] l1 (A1&A2&A3&A4); [|exact I].
    xact. apply rds_act_none; [apply n_ld_ext|]. intros p. xemit.
    apply rds_emit. intros g a tr Hi Hv _ _.
    assert (E1 : gstep a (t, ev_relall) = mkGS (Datatypes.S (glen a)) (gop a) (gtl a) (fnu (gmp a) t []) (gpv a) (gsl a) (gac a)).
    { unfold gstep. cbn [fst snd]. now rewrite gcls_relall. }
    split.
    - apply (InvG_intro c g); [exact Hi|]. intros Hf Hd. destruct (InvG_open _ _ _ _ _ Hi Hf Hd) as (Ea & _ & _ & _ & V & _).
      split.
      + intros i e Hn. destruct i as [|[|[|i]]]; cbn in Hn; try discriminate; inversion Hn; subst e; cbn [firstn Conc.tag map].
        * rewrite app_nil_r, <- Ea. unfold PhiG. rewrite gcls_relall. repeat split; intros; try congruence.
          change (gop a t) with (w_op (viewG a t)). rewrite Hv. congruence.
        * rewrite gfold_snoc, <- Ea, E1. unfold PhiG. rewrite gcls_det. repeat split; intros; try congruence;
            match goal with H : GDet _ = GDet _ |- _ => injection H as <- end; cbn [gtl gop gmp].
          -- change (gtl a t) with (w_tl (viewG a t)). rewrite Hv. congruence.
          -- change (gop a t) with (w_op (viewG a t)). rewrite Hv. congruence.
          -- apply fnu_same.
      + cbn [Conc.tag map fold_left]. rewrite E1. unfold gstep. cbn [fst snd]. rewrite gcls_det. intros u0 j0 k0. cbn [gop gac gsl]. apply V.
    - cbn [Conc.tag map fold_left]. rewrite E1. unfold gstep. cbn [fst snd]. rewrite gcls_det.
      set (l2 := viewG _ t).
      assert (L2 : w_op l2 = [2%Z] /\ w_tl l2 = None /\ w_mp l2 = []).
      { unfold l2, viewG. cbn. rewrite !fnu_same. split; [|auto]. change (gop a t) with (w_op (viewG a t)). rewrite Hv. congruence. }
      clearbody l2. clear E1.
      assert (Hn : forall {X} (pp : P X), Neu c pp -> forall Y (q : X -> P Y) Q, (forall x, rds t (q x) l2 Q) -> Q None l2 -> rds t (xbind pp q) l2 Q).
      { intros X pp Hp Y q Q Hq HN. apply rds_neu_seq; auto. }
      apply Hn; [apply N_free_gblocks| |exact I]. intros _.
      unfold act at 1. apply rds_act_none; [apply n_st_ext|]. intros x2. cbn [rdsafe].
      apply Hn; [apply N_scan| |exact I]. intros _.
      apply Hn; [apply N_help_scan| |exact I]. intros _.
      apply Hn; [apply Neu_loc| |exact I]. intros e.
      apply Hn; [|intros _|exact I].
      + destruct e.
        * apply Neu_xbind; [apply N_rt_fini|intros _; apply Neu_act; apply n_st_free].
        * apply Neu_xbind; [apply Neu_loc|intros fb; apply N_ftd_go].
      + eapply rdsafe_weaken; [|apply (Neu_act c (a_st_tid r 0)); apply n_st_tid]. intros [?u|] l3 ->; [exact L2|exact I].
  Qed.
End Ops.
