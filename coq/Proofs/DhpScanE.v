(** * DhpScanE: scan_recs and smr::scan. *)
From Coq Require Import ZArith NArith List String Bool Lia PeanoNat.
From LV Require Import Base.Conc Base.Events Model.DhpLang Model.Dhp Proofs.DhpBase Proofs.DhpHist
  Proofs.DhpLangProofs Proofs.DhpInvA Proofs.DhpStepsA Proofs.DhpQuietA Proofs.DhpSlotA Proofs.DhpScanA Proofs.DhpScanB
  Proofs.DhpScanC Proofs.DhpScanD.
Import ListNotations.

Section ScanE.
  Variable c : cfg.
  Notation dsafeA := (@dsafe G ev AuxA VA viewA (InvA c)).

  Lemma spec_scan_recs t : forall fuel node l ss, va_scan l = Some ss -> ss_pos ss = PNode node ->
    dsafeA t (scan_recs c fuel node (ss_pl ss)) l (Qscan l (ss_s0 ss) (fun p => p = PNode None)).
  Proof.
    induction fuel as [|fuel IH]; intros node l ss Hs Hp; destruct node as [n|]; cbn [scan_recs];
      try (cbn; exists ss; rewrite <- Hs, with_scan_same; repeat split; eauto; fail).
    - apply dsafe_fuel_out. exact I.
    - unfold xbind at 1. unfold act. cbn [dbind].
      apply (dsafe_load_adv c t (a_ld_tid n) _ l ss
               (fun g => ss_pos_set ss (if Nat.eqb (r_tid (grec g n)) 0 then PDone n else PInit n 0))); auto.
      + intros g. cbn. split; auto. repeat constructor.
      + intros g a h Hv J S. eapply adv_tid; eauto.
      + intros g. cbn [a_ld_tid fst snd]. set (tid := r_tid (grec g n)).
        set (l1 := with_scan l (Some (ss_pos_set ss (if Nat.eqb tid 0 then PDone n else PInit n 0)))).
        (* the part between the thread_id_ load and the next_ read *)
        assert (Hmid : dsafeA t (if Nat.eqb tid 0 then ret (ss_pl ss)
                                 else pl0 <- copy_hazards (GI n) 0 (eff_H c) (ss_pl ss) ;;
                                      e <- act (a_ld_ext n) ;; scan_blocks c (c_spin c) e pl0) l1
                         (Qscan l (ss_s0 ss) (fun p => p = PDone n \/ exists j, p = PChain n None j))).
        { unfold l1. destruct (Nat.eqb tid 0).
          - cbn. eexists. split; [reflexivity|]. cbn. auto.
          - apply dsafe_xbind.
            eapply dsafe_weaken; [|apply (spec_copy_init c t n (eff_H c) 0 (with_scan l (Some (ss_pos_set ss (PInit n 0)))) _ eq_refl eq_refl)].
            intros [pl0|] l2 K; apply Qscan_rebase in K; cbn in K; [|exact I].
            destruct K as (ss2 & -> & K2 & K3 & K4).
            unfold xbind at 1. unfold act. cbn [dbind].
            apply (dsafe_load_adv c t (a_ld_ext n) _ (with_scan l (Some ss2)) ss2
                     (fun g => ss_pos_set ss2 (PChain n (r_ext (grec g n)) 0))); auto.
            + intros g'. cbn. split; auto. repeat constructor.
            + intros g' a h Hv J S. eapply adv_ext; eauto.
            + intros g'. cbn [a_ld_ext fst snd]. rewrite <- K3.
              eapply dsafe_weaken; [|apply (spec_scan_blocks c t n (c_spin c) (r_ext (grec g' n))
                                              (with_scan (with_scan l (Some ss2)) (Some (ss_pos_set ss2 (PChain n (r_ext (grec g' n)) 0)))) _ eq_refl eq_refl)].
              intros o l' K. apply Qscan_rebase, Qscan_rebase in K. cbn [ss_pos_set ss_s0] in K. rewrite K2 in K.
              destruct o; cbn in *; auto. destruct K as (ss' & A1 & A2 & A3 & A4). exists ss'. repeat split; auto. }
        apply dsafe_xbind. eapply dsafe_weaken; [|exact Hmid].
        intros [pl1|] l2 K; cbn in K; [|exact I]. destruct K as (ss2 & -> & K2 & K3 & K4).
        unfold xbind at 1. unfold loc. cbn [dbind].
        apply (dsafe_locread_adv c t _ _ (with_scan l (Some ss2)) ss2 (fun g => ss_pos_set ss2 (PNode (r_next (grec g n))))); auto.
        * intros g' a h Hv J S. eapply adv_nextrec; eauto.
        * intros g'. cbn [fst snd]. rewrite <- K3.
          eapply dsafe_weaken; [|apply (IH (r_next (grec g' n)) (with_scan (with_scan l (Some ss2)) (Some (ss_pos_set ss2 (PNode (r_next (grec g' n)))))) _ eq_refl eq_refl)].
          intros o l' K. apply Qscan_rebase, Qscan_rebase in K. cbn [ss_pos_set ss_s0] in K. now rewrite K2 in K.
  Qed.

  (** smr::scan( pRec ): from a view with no scan running back to the same view *)
  Theorem spec_scan t r l : va_scan l = None ->
    dsafeA t (Dhp.scan c r) l (fun o l' => match o with Some _ => l' = l | None => True end).
  Proof.
    intros Hs. unfold Dhp.scan.
    unfold xbind at 1. unfold act at 1. cbn [dbind].
    apply dsafe_act_quiet; [apply q_faa_sync|]. intros _.
    unfold xbind at 1. unfold emit at 1. cbn [dbind].
    apply dsafe_emit_scanb; auto. intros s0.
    set (ss0 := mkSS s0 [] [] PStart). set (l0 := with_scan l (Some ss0)).
    unfold xbind at 1. unfold act at 1. cbn [dbind].
    apply (dsafe_load_adv c t a_ld_tlist _ l0 ss0 (fun g => ss_pos_set ss0 (PNode (tlist g)))); auto.
    - intros g. cbn. split; auto. repeat constructor.
    - intros g a h Hv J S. eapply adv_start; eauto.
    - intros g. cbn [a_ld_tlist fst snd].
      apply dsafe_xbind.
      eapply dsafe_weaken; [|apply (spec_scan_recs t (c_spin c) (tlist g) (with_scan l0 (Some (ss_pos_set ss0 (PNode (tlist g))))) _ eq_refl eq_refl)].
      intros [pl|] l1 K; apply Qscan_rebase in K; unfold l0 in K; apply Qscan_rebase in K; cbn in K; [|exact I].
      destruct K as (ss1 & -> & K2 & K3 & K4).
      unfold xbind at 1. unfold loc at 1. cbn [dbind].
      apply dsafe_loc_quiet'; [intros g'; apply quietG_stage2|]. intros g'.
      unfold xbind at 1. unfold emit at 1. cbn [dbind].
      apply (dsafe_emit_dispose c t _ _ (with_scan l (Some ss1)) ss1); auto.
      { intros p Hp. rewrite K3. eapply stage2_freed; eauto. }
      apply dsafe_xbind.
      assert (Hx : dsafeA t (if snd (snd (stage2 c r pl g')) then rt_extend c r else ret tt) (with_scan l (Some ss1))
                     (fun o l' => match o with Some _ => l' = with_scan l (Some ss1) | None => True end)).
      { destruct (snd (snd (stage2 c r pl g'))).
        - apply quietP_dsafe; [apply q_rt_extend|]. intros [x|]; auto.
        - cbn. reflexivity. }
      eapply dsafe_weaken; [|exact Hx].
      intros [x|] l2 K; [|exact I]. subst l2.
      unfold emit. apply (dsafe_emit_scane c t r _ (with_scan l (Some ss1)) ss1); auto.
      cbn [dsafe]. rewrite with_scan_twice, <- Hs. apply with_scan_same.
  Qed.
End ScanE.
