(** * C01, second sentence, for guards obtained by upward copies -- BOTH scans (in-place scan included).

    [hp_no_dispose_while_chained_both], [hp_guards_live_both], [hp_copied_ptr_live_both]: the theorems of HpLiveCopy.v /
    HpLiveCopyMulti.v without the hypothesis [cInplace c = false].  For the in-place scan they need that no object is
    retired twice (part of the client discipline; for the first one an explicit hypothesis, as in
    [HpProofs.hp_no_dispose_while_guarded]).  Invariant: HpLiveInplaceInv.Inv3, established in HpLiveInplaceGlue. *)
From Coq Require Import ZArith List String Bool Lia PeanoNat.
From LV Require Import Base.Conc Base.Events Model.Hp Proofs.HpTrace Proofs.HpInv Proofs.HpSteps Proofs.HpSafe Proofs.HpProofs Proofs.HpLive
  Proofs.HpLiveCopyInv Proofs.HpLiveCopy Proofs.HpLiveCopyMulti Proofs.HpLiveInplaceInv Proofs.HpLiveInplaceGlue.
Import ListNotations.
Local Open Scope string_scope.
Local Open Scope list_scope.

Lemma retire_once_firstn (tr : trace) d : retire_once tr -> retire_once (firstn d tr).
Proof. intros H. rewrite <- (firstn_skipn d tr) in H. eapply retire_once_prefix. exact H. Qed.

(** first sentence for a chain of slots, both scans *)
Theorem hp_no_dispose_while_chained_both c ths cf :
  Conc.reach (init_cfg c ths) cf ->
  forall d t p s, nth_error (Conc.trace cf) d = Some (t, ev_dispose p) ->
    last_sb (firstn d (Conc.trace cf)) t = Some s ->
    (cInplace c = true -> retire_once (firstn d (Conc.trace cf))) -> p <> 0%Z ->
    forall r, ~ chain (firstn (S d) (Conc.trace cf)) s r p.
Proof. intros Hr. destruct (reach_inv3 c ths cf Hr) as (a1 & a3 & _ & HI3). exact (k_safe _ _ _ _ HI3). Qed.

(** what the return of Guard::copy says about the trace, both scans *)
Theorem hp_copied_shape c ths cf : Conc.reach (init_cfg c ths) cf -> jcopied (Conc.trace cf).
Proof. intros Hr. destruct (reach_inv3 c ths cf Hr) as (a1 & a3 & _ & HI3). exact (k_copied _ _ _ _ HI3). Qed.

Definition guards_live_both_statement : Prop :=
  forall (c : cfgT) (ths : list (list op)) cf,
    Conc.reach (Hp.init_cfg c ths) cf -> client_discipline (Conc.trace cf) ->
    forall v d t u j p, v < d -> p <> 0%Z ->
      guards (Conc.trace cf) t p j v ->
      nth_error (Conc.trace cf) d = Some (u, ev_dispose p) ->
      exists m e, v < m < d /\ nth_error (Conc.trace cf) m = Some (t, e) /\ releases j e.

Theorem hp_guards_live_both : guards_live_both_statement.
Proof.
  intros c ths cf Hr (Hro & Hpub & Hret & _) v d t u j p Hvd Hp Hg Hd.
  destruct (reach_inv3 c ths cf Hr) as (a1 & a3 & HI & HI3). pose proof (i_tr _ _ _ _ HI) as Hok.
  set (tr := Conc.trace cf) in *.
  assert (Hdlt : d < List.length tr) by (apply nth_error_Some; congruence).
  set (chk := fun m => match nth_error tr m with Some (t', e) => (Nat.eqb t' t && rel_b j e)%bool | None => false end).
  destruct (existsb chk (seq (S v) (d - S v))) eqn:Ef.
  { apply existsb_exists in Ef. destruct Ef as (m & Hin & Hm). apply in_seq in Hin. unfold chk in Hm.
    destruct (nth_error tr m) as [[t' e]|] eqn:Em; [|discriminate]. apply andb_true_iff in Hm. destruct Hm as (E1 & E2).
    apply Nat.eqb_eq in E1. subst t'. exists m, e. split; [lia|]. split; [exact Em|now apply rel_b_releases]. }
  exfalso.
  assert (Hnorel : forall m e, v < m <= d -> nth_error tr m = Some (t, e) -> rel_b j e = false).
  { intros m e Hm Hn. destruct (Nat.eq_dec m d) as [->|Hne]; [rewrite Hd in Hn; inversion Hn; reflexivity|].
    destruct (rel_b j e) eqn:E; [|reflexivity]. exfalso. rewrite <- not_true_iff_false in Ef. apply Ef.
    apply existsb_exists. exists m. split; [apply in_seq; lia|]. unfold chk. rewrite Hn. now rewrite Nat.eqb_refl, E. }
  destruct (guards_GS tr t p Hok (k_copied _ _ _ _ HI3) j v Hg d ltac:(lia) Hdlt Hnorel)
    as (g0 & r & k & w0 & j0 & f & Hg0 & Hw & Hgw & Hg0v & _ & Hch & _).
  destruct (hp_dispose_after_retire c ths cf Hr d u p Hd) as (s & Hs & rho & u1 & Hrho & Hrt). fold tr in Hs, Hrt.
  destruct (Nat.le_gt_cases (S g0) s) as [Hle|Hgt].
  { apply (k_safe _ _ _ _ HI3 d u p s Hd Hs (fun _ => retire_once_firstn tr d Hro) Hp r).
    exists f. eapply chain_w_weaken; [exact Hle|exact Hch]. }
  assert (Hrho' : rho < g0).
  { destruct (Nat.eq_dec rho g0) as [->|Hne]; [rewrite Hg0 in Hrt; discriminate|lia]. }
  exact (protect_store_not_after_retire tr Hok Hpub Hret t w0 g0 k p rho u1 Hp Hrho' Hgw Hrt Hw).
Qed.

(** one upward copy (the statement kept open in Properties_C01_Live.v as C01_copied_ptr_live_inplace_statement) *)
Definition copied_ptr_live_both_statement : Prop :=
  forall (c : cfgT) (ths : list (list op)) cf,
    Conc.reach (Hp.init_cfg c ths) cf -> client_discipline (Conc.trace cf) ->
    forall v0 c0 v1 d t u i j p,
      v0 < c0 -> c0 < v1 -> v1 < d -> i < j -> p <> 0%Z ->
      nth_error (Conc.trace cf) v0 = Some (t, EvCli "protected" [zn i; p]) ->
      nth_error (Conc.trace cf) c0 = Some (t, EvCli "copy" [zn j; zn i]) ->
      nth_error (Conc.trace cf) v1 = Some (t, EvCli "copied" []) ->
      (forall m e, c0 < m < v1 -> nth_error (Conc.trace cf) m = Some (t, e) -> is_opstart e = false) ->
      nth_error (Conc.trace cf) d = Some (u, ev_dispose p) ->
      exists m e, nth_error (Conc.trace cf) m = Some (t, e) /\
        ((v0 < m < v1 /\ releases i e) \/ (v1 < m < d /\ releases j e)).

Theorem hp_copied_ptr_live_both : copied_ptr_live_both_statement.
Proof.
  intros c ths cf Hr Hdisc v0 c0 v1 d t u i j p Hv0c0 Hc0v1 Hv1d Hij Hp Hv0 Hc0 Hv1 Hnoop Hd.
  set (tr := Conc.trace cf) in *.
  set (chk := fun m => match nth_error tr m with Some (t', e) => (Nat.eqb t' t && rel_b i e)%bool | None => false end).
  destruct (existsb chk (seq (S v0) (v1 - S v0))) eqn:Ef.
  { apply existsb_exists in Ef. destruct Ef as (m & Hin & Hm). apply in_seq in Hin. unfold chk in Hm.
    destruct (nth_error tr m) as [[t' e]|] eqn:Em; [|discriminate]. apply andb_true_iff in Hm. destruct Hm as (E1 & E2).
    apply Nat.eqb_eq in E1. subst t'. exists m, e. split; [exact Em|]. left. split; [lia|now apply rel_b_releases]. }
  assert (Hnorel : forall m e, v0 < m < v1 -> nth_error tr m = Some (t, e) -> rel_b i e = false).
  { intros m e Hm Hn. destruct (rel_b i e) eqn:E; [|reflexivity]. exfalso. rewrite <- not_true_iff_false in Ef. apply Ef.
    apply existsb_exists. exists m. split; [apply in_seq; lia|]. unfold chk. rewrite Hn. now rewrite Nat.eqb_refl, E. }
  assert (Hg : guards tr t p j v1).
  { apply (G_copy tr t p i j v0 c0 v1); auto. apply G_prot. exact Hv0. }
  destruct (hp_guards_live_both c ths cf Hr Hdisc v1 d t u j p Hv1d Hp Hg Hd) as (m & e & Hm & Hn & Hrel).
  exists m, e. split; [exact Hn|]. right. split; [exact Hm|exact Hrel].
Qed.
